#!/usr/bin/env python3
"""lib/run_seeds.py [name ...]  -- applies each seeded change to /repo, runs the quick check of its property, reverts.
Writes seeded/<name>/detect.json and prints a table.  Never commits anything in /repo."""
import json, os, subprocess, sys, re, time
V = os.path.dirname(os.path.dirname(os.path.abspath(__file__)))
names = sys.argv[1:] or sorted(d for d in os.listdir(os.path.join(V, "seeded")) if os.path.isdir(os.path.join(V, "seeded", d)))
def sh(cmd, **kw):
    return subprocess.run(cmd, shell=True, text=True, stdout=subprocess.PIPE, stderr=subprocess.STDOUT, **kw)
assert sh("git -C /repo status --porcelain").stdout.strip() == "", "/repo has uncommitted changes"
rows = []
for n in names:
    d = os.path.join(V, "seeded", n)
    patch = os.path.join(d, "patch.diff")
    if not os.path.exists(patch):
        continue
    meta = json.load(open(os.path.join(d, "meta.json"))) if os.path.exists(os.path.join(d, "meta.json")) else {}
    prop = meta.get("property") or re.match(r"(C\d+)", n).group(1)
    r = sh("git -C /repo apply %s" % patch)
    if r.returncode != 0:
        rows.append((n, prop, "PATCH-DOES-NOT-APPLY", "")); continue
    t0 = time.time()
    evp = os.path.join(V, "evidence", prop + ".json")
    saved = open(evp).read() if os.path.exists(evp) else None   # evidence files must come from clean-tree runs only
    try:
        c = sh("cd %s && timeout 1500 ./check %s quick" % (V, prop))
        out, rc = c.stdout, c.returncode
    finally:
        sh("git -C /repo checkout -- . && git -C /repo clean -fdq -- pkg protocols internal")
        if saved is not None:
            open(evp, "w").write(saved)
    viol = [l for l in out.splitlines() if l.startswith("VIOLATION")]
    kind = "MISSED"
    if viol:
        kind = "caught(no-failing-input)" if any("no-failing-input-found" in l for l in viol) else "caught(concrete replay)"
    replay = ""
    m = re.search(r"replay=(\S+)", viol[0]) if viol else None
    if m and os.path.exists(m.group(1)):
        rp = json.load(open(m.group(1)))
        replay = rp.get("key") or ";".join(rp.get("broken", []))[:200]
    json.dump({"seed": n, "property": prop, "exit": rc, "verdict": kind, "lines": viol, "replay_key": replay, "wall_s": round(time.time() - t0, 1),
               "output_tail": out[-1500:]}, open(os.path.join(d, "detect.json"), "w"), indent=1)
    rows.append((n, prop, kind, replay))
    print("%-8s %-4s %-28s %s" % (n, prop, kind, replay), flush=True)
# restore evidence of the clean tree for the touched properties is the caller's job (re-run ./check <prop> quick)
