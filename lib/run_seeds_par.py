#!/usr/bin/env python3
"""lib/run_seeds_par.py [-k K] [name ...]  -- like lib/run_seeds.py, but on K private copies of /verif (rsync incl. build output,
/tmp/vclone-<i>) each with its own scratch worktree of /repo's HEAD (/tmp/seedrepo-<i>), so that seeds are checked in parallel and
neither /repo nor /verif's own build/evidence is touched.  detect.json files are written to /verif/seeded/<name>/."""
import json, os, re, subprocess, sys, time, threading
V = os.path.dirname(os.path.dirname(os.path.abspath(__file__)))
args = sys.argv[1:]
K = 3
if args[:1] == ["-k"]:
    K = int(args[1]); args = args[2:]
names = args or sorted(d for d in os.listdir(os.path.join(V, "seeded")) if os.path.isdir(os.path.join(V, "seeded", d)))
def sh(cmd, **kw):
    return subprocess.run(cmd, shell=True, text=True, stdout=subprocess.PIPE, stderr=subprocess.STDOUT, **kw)
lock = threading.Lock()
queue = list(names)
rows = []
def worker(i):
    C, SR = "/tmp/vclone-%d" % i, "/tmp/seedrepo-%d" % i
    sh("git -C /repo worktree remove --force %s; rm -rf %s; git -C /repo worktree prune" % (SR, SR))
    assert sh("git -C /repo worktree add --detach %s HEAD" % SR).returncode == 0
    sh("mkdir -p %s && rsync -a --delete --exclude work --exclude replay --exclude .git %s/ %s/" % (C, V, C))
    while True:
        with lock:
            if not queue: break
            n = queue.pop(0)
        d = os.path.join(V, "seeded", n); patch = os.path.join(d, "patch.diff")
        if not os.path.exists(patch): continue
        meta = json.load(open(os.path.join(d, "meta.json"))) if os.path.exists(os.path.join(d, "meta.json")) else {}
        prop = meta.get("property") or re.match(r"(C\d+)", n).group(1)
        if sh("git -C %s apply %s" % (SR, patch)).returncode != 0:
            with lock: rows.append((n, prop, "PATCH-DOES-NOT-APPLY", "")); print("%-8s %-4s PATCH-DOES-NOT-APPLY" % (n, prop), flush=True)
            continue
        t0 = time.time()
        try:
            c = sh("cd %s && VERIF_REPO=%s timeout 2700 ./check %s quick" % (C, SR, prop))
            out, rc = c.stdout, c.returncode
        finally:
            sh("git -C %s checkout -- . && git -C %s clean -fdq" % (SR, SR))
        viol = [l for l in out.splitlines() if l.startswith("VIOLATION")]
        kind = "MISSED"
        if viol:
            kind = "caught(no-failing-input)" if all("no-failing-input-found" in l for l in viol) else "caught(concrete replay)"
        replay = ""
        conc = [l for l in viol if "no-failing-input-found" not in l] or viol
        m = re.search(r"replay=(\S+)", conc[0]) if conc else None
        if m and os.path.exists(m.group(1)):
            rp = json.load(open(m.group(1)))
            replay = rp.get("key") or ";".join(rp.get("broken", []))[:200]
        json.dump({"seed": n, "property": prop, "exit": rc, "verdict": kind, "lines": viol, "replay_key": replay, "wall_s": round(time.time() - t0, 1),
                   "output_tail": out[-1500:]}, open(os.path.join(d, "detect.json"), "w"), indent=1)
        with lock:
            rows.append((n, prop, kind, replay)); print("%-8s %-4s %-28s %s" % (n, prop, kind, replay), flush=True)
    sh("git -C /repo worktree remove --force %s; git -C /repo worktree prune; rm -rf %s" % (SR, C))
ts = [threading.Thread(target=worker, args=(i,)) for i in range(K)]
[t.start() for t in ts]; [t.join() for t in ts]
sh("python3 %s/lib/run_seeds.py --table" % V)
