#!/usr/bin/env python3
"""regenerates /verif/MANIFEST.json from the table below (keeps it valid at all times)"""
import json, os, subprocess
V = os.path.dirname(os.path.dirname(os.path.abspath(__file__)))
props = [json.loads(l) for l in open(os.path.join(V, "properties.jsonl"))]
# id -> (technique, level text, level note, design ref)
CLAIMED = {}
exec(open(os.path.join(V, "lib", "claims.py")).read())
hooks_commits = subprocess.run("git -C /repo log --format=%H --grep='^verif hook' ", shell=True, capture_output=True, text=True).stdout.split()
man = {
 "version": 1,
 "setup_cmd": "./check setup",
 "hooks": {
   "guard": "verif",
   "enable": "go build -tags verif (the harness module /verif/harness replaces the library module with /repo and is always built with -tags verif)",
   "baseline_off_cmd": "cd /repo && go build ./... && go test -vet=off -count=1 -timeout 25m ./...",
   "source_commits": hooks_commits,
   "add_only": False,
 },
 "engines": [
   {"name": "coq-model", "path": "coq/", "serves_properties": sorted(CLAIMED), "kind_free_text": "Coq 8.16.1 development: Model/ (executable Gallina), Proofs/, Properties/Cxx.v (statements + Print Assumptions), Generated/ (verifgen output from /repo)"},
   {"name": "verifgen", "path": "gen/", "serves_properties": sorted(CLAIMED), "kind_free_text": "Go AST translator /repo -> coq/Generated/*.v, re-run on every check"},
   {"name": "vh", "path": "harness/", "serves_properties": sorted(CLAIMED), "kind_free_text": "Go correspondence + violation-search harness, talks to the extracted model (coq/Extract/out/mpsmodel)"},
 ],
 "checks": [],
 "not_applicable": [],
 "notes": "Hooks: every hook commit adds files guarded by //go:build verif; two of them also touch existing lines: sample.Paillier calls verifPrimes() (3 inserted lines; no-op without the tag) and pkg/pool/pool.go calls yield()/expose() at its synchronisation points and threads a worker index through worker()/workerSearch() (the for-loop header of workerSearch is rewritten to yield before every test; yield/expose are empty inlined functions without the tag). All checks: ./check <id> quick|thorough. Evidence is written by the check itself. known-findings.txt lists fixed/known defects.",
}
for p in props:
    i = p["id"]
    if i in CLAIMED:
        tech, text, note, ref = CLAIMED[i]
        man["checks"].append({
          "property_id": i, "quick_cmd": "./check %s quick" % i, "thorough_cmd": "./check %s thorough" % i,
          "evidence_file": "/verif/evidence/%s.json" % i, "replay_cmd_template": "./check %s quick --replay {path}" % i,
          "engine": "coq-model+vh",
          "level_claimed": {"category": "proof", "text": text, "design_ref": ref},
          "level_note": note, "technique": tech})
    else:
        man["not_applicable"].append({"property_id": i, "reason": "check not built yet in this revision of /verif (planned, see DESIGN.md section 3); not claimed until its theorem + correspondence run exist"})
json.dump(man, open(os.path.join(V, "MANIFEST.json"), "w"), indent=1)
print("claimed:", sorted(CLAIMED))
