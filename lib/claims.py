# id -> (technique, level text, level note, design ref).  Read by lib/mkmanifest.py.
CLAIMED = {
 "C19": ("Coq proof of framing injectivity/commit binding + byte-exact model/impl correspondence (BLAKE3 of model stream == hash.Sum)",
         "Theorems stream_inj, frame_prefix_free, digest_binding, commit_binding, idslice_data_inj and the five attack-shape corollaries are proved in Coq for every item sequence (no bound); the model's byte stream is compared byte-exactly (through BLAKE3) with pkg/hash on generated typed-value sequences for all 19 item kinds, and an adversarial-pair search looks for two distinct sequences with equal digests in the implementation.",
         "Collision resistance of BLAKE3 appears only as an explicit disjunct. Payloads produced by CBOR/MarshalBinary are opaque bytes here (C15). Model is hand-written; tie = correspondence run + generated domain table.",
         "DESIGN.md 3 C19"),
 "C09": ("Coq proof that the session-tag input determines every session parameter (+ handler no-op lemmas) + byte-exact SSID correspondence + cross-session replay on real handlers",
         "ssid_items_inj / ssid_stream_inj (session id incl. nil-vs-empty, protocol, group, sorted party list, threshold, aux items) and hash_for_id_inj are proved for all parameter sets; BLAKE3(model stream) is compared with Helper.SSID()/HashForID for generated parameters incl. adversarial identifier sets; every message of one session is offered to handlers of a session differing in one parameter (CanAccept false, forced Accept no state change, same result), Doerner keygen vs sign, proof replay under another sender's name.",
         "Handler-level rejection theorems are over the hand-written handler model (validated state-by-state against MultiHandler). CMP config binding is exercised only as far as CMP sessions are run (see C01/C08).",
         "DESIGN.md 3 C09"),
 "C20": ("Coq proof of exact acceptance conditions of NewSession/CanSign (sort + Valid + Contains) + lattice of bad start parameters on every start function",
         "new_session_ok_iff (NoDup ids, self present, 0<=t<=min(n-1,2^32-1)), can_sign_iff, ids_valid_sort_iff proved for all inputs; the harness drives every public start function with a lattice of invalid values (alone and in pairs), requires an error (never a panic) and runs any session that was allowed to start with honest peers.",
         "IDSlice.Contains (binary search) is modelled as membership on the sorted, duplicate-free slice it is applied to.",
         "DESIGN.md 3 C20"),
 "C07": ("Coq handler model validated state-by-state against MultiHandler on exhaustive (xor) and sampled (FROST) schedules; no-op/confluence theorems over the model",
         "Every delivery order of the xor protocol for n=2,3 plus duplicate and foreign/stale injections, and seeded adversarial schedules (LIFO, latest-round-first, p2p-before-broadcast, duplicates) for FROST keygen/sign, are run through the real handlers: everyone completes with the in-order result; each run is replayed event by event in the Coq model. Theorems: reject/duplicate/terminal/stale/foreign messages are no-ops for every state; system-level schedule independence as far as proved (see Properties/C07*.v, partial parts are named _partial).",
         "Functional-round-form of the real rounds (store operations of different senders commute) is a hypothesis exercised by the sampled schedules. Hash of views is an oracle (collision-freeness never assumed).",
         "DESIGN.md 3 C07"),
 "C17": ("Coq lifecycle invariant over arbitrary API histories of the handler model + model/impl lockstep on random API histories + race detector on concurrent use",
         "Random histories of Accept (genuine, duplicate, foreign, abort notice) / CanAccept / Stop / Result at random points of xor and FROST sessions are checked against the lifecycle oracles (no panic, no hang, closed iff ended, Result stable, Stop ends a running session) and replayed in the Coq model; a -race build drives handlers from several goroutines. Theorems (Properties/C17.v): closes<=1, closed iff terminal, terminal stable, Stop semantics, refutations for the pre-fix Stop guard.",
         "partial: freedom from data races in the Go memory model is exhibited by the race detector on sampled interleavings, not proved; the model is sequential.",
         "DESIGN.md 3 C17"),
 "C18": ("Coq small-step interleaving model of pool.go with safety/progress/variant proofs for all worker/task counts and schedules + stress of the real pool",
         "Pool.v models caller and workers at the synchronisation points of pool.go (V1 = current handshake, V0 = pre-fix). Proved for all w>=1, c>=0, all schedules, all consecutive calls: results = map f (seq 0 c), Search returns c non-nil results, no deadlock (progress), a strictly decreasing measure (termination), all workers idle after return, reusable. The real pool is stressed (consecutive instant-task calls, watchdog, worker-availability probe) and the model is explored exhaustively for small (w,c).",
         "The tie of the interleaving model to pool.go is by reading + stress + exhaustive model exploration; schedule-level lockstep with yield hooks is not built. Go scheduler fairness is assumed for termination in the real code.",
         "DESIGN.md 3 C18"),
}

# properties whose check is complete enough to be claimed in MANIFEST.json right now
READY = {"C19", "C09", "C18"}
CLAIMED = {k: v for k, v in CLAIMED.items() if k in READY}
