# id -> (technique, level text, level note, design ref).  Read by lib/mkmanifest.py.
CLAIMED = {
 "C19": ("Coq proof of framing injectivity/commit binding + byte-exact model/impl correspondence (BLAKE3 of model stream == hash.Sum)",
         "Theorems stream_inj, frame_prefix_free, digest_binding, commit_binding, idslice_data_inj and the five attack-shape corollaries are proved in Coq for every item sequence (no bound); the model's byte stream is compared byte-exactly (through BLAKE3) with pkg/hash on generated typed-value sequences for all 19 item kinds, and an adversarial-pair search looks for two distinct sequences with equal digests in the implementation.",
         "Collision resistance of BLAKE3 appears only as an explicit disjunct. Payloads produced by CBOR/MarshalBinary are opaque bytes here (C15). Model is hand-written; tie = correspondence run + generated domain table.",
         "DESIGN.md 3 C19"),
 "C09": ("Coq proof that the session-tag input determines every session parameter (+ handler no-op lemmas) + byte-exact SSID correspondence + cross-session replay on real handlers",
         "ssid_items_inj / ssid_stream_inj (session id incl. nil-vs-empty, protocol, group, sorted party list, threshold, aux items) and hash_for_id_inj are proved for all parameter sets; BLAKE3(model stream) is compared with Helper.SSID()/HashForID for generated parameters incl. adversarial identifier sets; every message of one session is offered to handlers of a session differing in one parameter (CanAccept false, forced Accept no state change, same result), Doerner keygen vs sign, proof replay under another sender's name.",
         "Handler-level rejection theorems are over the hand-written handler model (validated state-by-state against MultiHandler). CMP config binding is exercised only as far as CMP sessions are run (see C01/C08).",
         "DESIGN.md 3 C09"),
 "C20": ("Coq proof of exact acceptance conditions of NewSession/CanSign (sort + Valid + Contains) + lattice of bad start parameters on every start function",
         "new_session_ok_iff (NoDup ids, self present, 0<=t<=min(n-1,2^32-1)), can_sign_iff, ids_valid_sort_iff proved for all inputs; the harness drives every public start function with a lattice of invalid values (alone and in pairs), requires an error (never a panic) and runs any session that was allowed to start with honest peers.",
         "IDSlice.Contains (binary search) is modelled as membership on the sorted, duplicate-free slice it is applied to.",
         "DESIGN.md 3 C20"),
 "C07": ("Coq handler model validated state-by-state against MultiHandler on exhaustive (xor) and sampled (FROST) schedules; no-op/confluence theorems over the model",
         "Every delivery order of the xor protocol for n=2,3 plus duplicate and foreign/stale injections, and seeded adversarial schedules (LIFO, latest-round-first, p2p-before-broadcast, duplicates) for FROST keygen/sign, are run through the real handlers: everyone completes with the in-order result; each run is replayed event by event in the Coq model. Theorems: reject/duplicate/terminal/stale/foreign messages are no-ops for every state; system-level schedule independence as far as proved (see Properties/C07*.v, partial parts are named _partial).",
         "Functional-round-form of the real rounds (store operations of different senders commute) is a hypothesis exercised by the sampled schedules. Hash of views is an oracle (collision-freeness never assumed).",
         "DESIGN.md 3 C07"),
 "C17": ("Coq lifecycle invariant over arbitrary API histories of the handler model + model/impl lockstep on random API histories + race detector on concurrent use",
         "Random histories of Accept (genuine, duplicate, foreign, abort notice) / CanAccept / Stop / Result at random points of xor and FROST sessions are checked against the lifecycle oracles (no panic, no hang, closed iff ended, Result stable, Stop ends a running session) and replayed in the Coq model; a -race build drives handlers from several goroutines. Theorems (Properties/C17.v): closes<=1, closed iff terminal, terminal stable, Stop semantics, refutations for the pre-fix Stop guard.",
         "partial: freedom from data races in the Go memory model is exhibited by the race detector on sampled interleavings, not proved; the model is sequential.",
         "DESIGN.md 3 C17"),
 "C18": ("Coq small-step interleaving model of pool.go with safety/progress/variant proofs for all worker/task counts and schedules + stress of the real pool",
         "Pool.v models caller and workers at the synchronisation points of pool.go (V1 = current handshake, V0 = pre-fix). Proved for all w>=1, c>=0, all schedules, all consecutive calls: results = map f (seq 0 c), Search returns c non-nil results, no deadlock (progress), a strictly decreasing measure (termination), all workers idle after return, reusable. The real pool is stressed (consecutive instant-task calls, watchdog, worker-availability probe) and the model is explored exhaustively for small (w,c).",
         "The tie of the interleaving model to pool.go is by reading + stress + exhaustive model exploration; schedule-level lockstep with yield hooks is not built. Go scheduler fairness is assumed for termination in the real code.",
         "DESIGN.md 3 C18"),
}

CLAIMED.update({
 "C01": ("Coq proofs of the signing equations of all five protocols over an abstract group + real sessions judged by the extracted Coq reference verifier (textbook secp256k1/ECDSA/BIP-340)",
         "C01_cmp_sign_correct, C01_presign_online_correct, C01_frost_sign_correct(+taproot), C01_doerner_sign_correct, sum-order irrelevance (Go map iteration) are proved for any signer list, any hash outputs, MtA/OT outputs constrained by their relations (proved in C12/C13). Real signing sessions of every protocol run through the real handlers for every signer subset |S|>t (n<=4), digests of 1..80 bytes, several delivery orders; every returned signature is verified by the extracted reference (independent of the library's Verify), all parties must return the same signature and complete.",
         "secp256k1 group laws and primality of its constants are premises of the abstract theorems; the reference verifier is tied to decred/secp256k1 only by differential testing (Proofs/RefVectors.v + REF tests). ZK completeness at real sizes is C10.",
         "DESIGN.md 3 C01"),
 "C02": ("Coq proofs of Lagrange interpolation / VSS soundness / every-subset reconstruction over an abstract field + real keygens judged by the extracted reference for every (t+1)-subset",
         "lagrange_interp (root counting), lagrange_code_formula (the code's numerator/denominator form), every_subset_reconstructs, vss_check_sound (adversarial dealers), table_is_function_of_broadcasts, Doerner additive sharing, Taproot negation are proved for all n, t, subsets. Real FROST/FROST-Taproot (n<=4 quick, n<=5 thorough, every t), Doerner and CMP keygens under several schedules and identifier sets are checked by the reference: same key/table everywhere, share*G = table entry, every (t+1)-subset of shares and of table entries reconstructs the group key.",
         "Field axioms for Z_q are proved from `prime q` (premise for the secp256k1 order). Curve group laws are premises.",
         "DESIGN.md 3 C02"),
 "C08": ("Coq induction over refresh/derive/restore histories (GoodSharing invariant) + real histories checked step by step by the reference",
         "C08_history_preserves_sharing (induction over arbitrary histories), refresh_zero_constant_preserves_key, share_changed_iff, mixed_epoch_reconstruct_iff, mixed_defect_nondegenerate, threshold0_shares_fixed, stale_frost_share_rejected_iff are proved. Real histories keygen;(refresh|restore|derive|sign)* for FROST, FROST-Taproot, CMP, Doerner: after each step the reference checks consistency, unchanged group key, changed shares, failure of every mixed-epoch reconstruction, signing with refreshed material, and that a session with one stale signer yields no signature.",
         "Known finding (listed): t=0 shares cannot change. Pre-refresh material is snapshotted by serialisation because Refresh updates the scalar objects of the config it is given.",
         "DESIGN.md 3 C08"),
 "C14": ("Coq proofs that derivation preserves the sharing (incl. Taproot renormalisation, iterated paths) + Gallina BIP-32 CKDpub (own HMAC-SHA512) compared with every party's derived key and chain code",
         "C14_derive_preserves_sharing, C14_derive_iter, C14_derive_interleaved_with_refresh, C14_chain_key_xor_agree proved; the reference ckd_pub is validated against BIP-32 vector 1 / RFC 4231. After real keygens all chain keys are equal and 32 bytes; for paths of length <=3 over boundary and random indices every party's child public key and chain code equal the reference's, the derived material is a consistent sharing, and signing with it verifies under the reference verifier (CMP, FROST, FROST-Taproot, Doerner).",
         "SHA-512/HMAC in Gallina validated by vectors, not proved against the FIPS text.",
         "DESIGN.md 3 C14"),
})

CLAIMED.update({
 "C06": ("Coq proof of no_split over the n-handler system model (view-hash collision as explicit disjunct) + two-faced-party runs on real handlers",
         "C06_no_split: for any n, any well-formed shape, any schedule with arbitrary injections by the equivocator, two honest finishers hold the same fingerprint for every party's broadcast in every non-final broadcast round, or a collision of the view hash is exhibited; C06_last_round_not_covered states the limit. Real handlers: the equivocator is two honest instances diverging at round k, wired to the two groups of every 2-partition of the honest parties (n=3,4), FROST keygen/sign (+CMP sign): no cross-group pair completes, completers hold byte-identical views, and view digest equality is checked to coincide with view equality across all handlers.",
         "Collision resistance of BLAKE3 appears only as the explicit disjunct. The system model expands to-all messages per recipient and drains the channel after every Accept.",
         "DESIGN.md 3 C06"),
})

CLAIMED.update({
 "C16": ("Coq proofs about the abstract-group ECDSA/Schnorr verifiers and the executable BIP-340/ECDSA reference + exact accept/reject agreement of the library with the extracted reference",
         "ecdsa_verify_iff, ecdsa_sign_verify, neg_sig_still_valid (low-s export), ecdsa_recover_correct, schnorr_sign_verify/sound over an abstract group; bip340_sign_verifies, bip340_verify_accepts_only, decompress_strict, lift_x_complete for the executable reference (validated against BIP-340 vectors 0-14, RFC 4231, BIP-32 vector 1). The library's ecdsa.Signature.Verify, SigEthereum, taproot Sign/Public/Verify, FromHash and point/scalar decoding are compared with the reference on valid signatures and every single-field perturbation (boundary values of r, s, x; parity flips; all prefixes; all lengths; messages of 0..1000 bytes).",
         "secp256k1 group laws / primality of p are premises of the completeness lemmas; the reference itself is validated by standard vectors and a differential test against decred, not proved against the standards' prose.",
         "DESIGN.md 3 C16"),
})

CLAIMED.update({
 "C12": ("Coq proofs of Paillier correctness (dec∘enc via Euler's theorem from mathcomp), homomorphy, CRT exponentiation, validation iff, MtA exactness + exact-value comparison of pkg/paillier, arith.Modulus and internal/mta with the extracted model",
         "C12_dec_enc (unconditional, both endpoints), enc_refuses, add_hom/mul_hom with the exact wrap-around (symmod), dec_rand_reencrypts, validate_ct_iff, crt_exp_eq, expI, mta_exact and the range premise from the regenerated params are proved for all keys N=pq (p,q distinct odd primes, gcd(N,phi)=1), all plaintexts and nonces. The harness compares Enc/EncWithNonce/Dec/DecWithRandomness/Add/Mul/ValidateCiphertexts/Exp/ExpI and the MtA of ProveAffG/ProveAffP with the model on a micro key (every plaintext), three small keys and three real 2048-bit keys over the boundary lattice, and judges the property with math/big oracles.",
         "`prime p`, `prime q` are hypotheses of the theorems (the harness uses safe primes generated by the repo's own sampler). The ZK proofs attached to MtA are C10.",
         "DESIGN.md 3 C12"),
})

CLAIMED.update({
 "C13": ("Coq proofs of the OT stack relations and of the multiplication protocol for all batch sizes/inputs + exact comparison of the bit-matrix helpers and relation checks on real runs + alteration search",
         "transpose_bits_spec, corre_ot_relation, clmul_bilinear / accumulate_spec (the 64-round loop as written), extended_check_passes / extended_output, additive_ot_sum (all batch sizes), gadget_encode_decode, multiply_correct, multiply_check_passes, multiply_never_panics, multiply_malformed_rejected and the exact characterisation of accepted altered messages are proved with hashes/PRGs universally quantified. The harness compares transposeBits/accumulate/eq/makeGadget/encode with the model exactly, checks the defining relations of correlated/extended/additive OT and Multiply on real runs with the model's checkers (boundary scalars, all-0/all-1/alternating/random choices, reused setups), and alters every field of every OT/Multiply message: the checking side must return an error or the product must still be correct.",
         "Secrecy is not claimed. `C13_multiply_check_sound` is proved in the partial form stated in Properties/C13.v (acceptance depends on hash-derived weights; alterations of the receiver's U columns change the hash transcript).",
         "DESIGN.md 3 C13"),
 "C11": ("Coq proofs that the nonce-derivation inputs of FROST round 1 and BIP-340 signing are injective in (share, session digest, message, randomness) / (key, aux, message) + equality-pattern comparison under constant, repeating and honest RNGs",
         "C11_frost_nonce_input_inj, frost_nonce_binding (any KDF / keyed hash: equal nonces => equal tuples or an exhibited collision), frost_session_binding (composition with C09's session-tag injectivity), bip340_nonce_input_inj, bip340_rand_binding, bip340_counter_fresh are proved. The harness replaces crypto/rand.Reader by constant / repeating / honest readers, runs FROST and FROST-Taproot signing for context pairs differing in exactly one of message, signer set, session id, taproot flag, share, reads (D_i,E_i) from the round-2 broadcast and compares them byte for byte with the model's derivation (BLAKE3 by the harness, scalar multiplication by the reference); same for taproot.SecretKey.Sign incl. the nil-reader counter.",
         "Collision resistance of BLAKE3 / SHA-256 appears only as explicit disjuncts.",
         "DESIGN.md 3 C11"),
})

CLAIMED.update({
 "C15": ("Coq CBOR subset with round-trip/injectivity proofs, byte-exact models of Message / Exponent / scalar / point codecs and of the restore-time validation of every stored type + corruption sweep on real material",
         "C15_cbor_roundtrip, encode_inj/prefix_free, message_roundtrip, scalar/point/exponent round-trips and exact refusal conditions, config_unmarshal_sound (cmp), frost/taproot/doerner/presignature/signature _unmarshal_sound and _total (restoring never panics and only yields objects satisfying the validity rules), message_unmarshal_reports_errors / never_empty are proved; pre-fix decoders stay as _v0 with refutation witnesses. The harness compares the model's encoders/decoders byte-exactly with Go, round-trips every result type of every protocol obtained from real sessions, uses restored objects in later sessions together with the other parties' un-restored material, and applies every single-node corruption of the CBOR tree plus random flips/truncations: Go must return an error or an object satisfying the validity rules (judged with math/big), the model predicts the verdict.",
         "fxamacker/cbor's leniency (tags, floats, indefinite lengths, duplicate keys) is outside the model and counted as outside-model cases. Primality oracle soundness and `k*G is a curve point` are the only hypotheses of config_unmarshal_sound.",
         "DESIGN.md 3 C15"),
})

# properties whose check is complete enough to be claimed in MANIFEST.json right now
READY = {"C19", "C09", "C18", "C07", "C17", "C01", "C02", "C08", "C14", "C06", "C20", "C16", "C12", "C13", "C11", "C15"}
CLAIMED = {k: v for k, v in CLAIMED.items() if k in READY}
