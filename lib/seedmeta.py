#!/usr/bin/env python3
"""lib/seedmeta.py <name> <property> <what> <needs>  -- writes seeded/<name>/meta.json"""
import json, os, sys
n, p, w, nd = sys.argv[1:5]
d = "/verif/seeded/" + n; os.makedirs(d, exist_ok=True)
json.dump({"property": p, "what": w, "needs_to_manifest": nd,
  "confirmed": {"how": "lib/confirm_seed.sh in a fresh scratch worktree of /repo (see confirm.log): demo passes without the patch, fails with it, full suite passes with it"},
  "author": "independent sub-agent given only the property text and its own worktree"}, open(d + "/meta.json", "w"), indent=1)
