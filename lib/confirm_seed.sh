#!/bin/bash
# confirm_seed.sh <seed-name> <worktree-with-demo>   e.g. C19a /tmp/wt-C19a
# Confirms in a FRESH scratch worktree of /repo HEAD: demo passes without the patch, fails with it, full suite passes with it.
# Copies patch/demo into /verif/seeded/<name>/ and writes confirm.log there; removes the scratch worktree.
set -u
name=$1; src=$2
export GOFLAGS=-mod=mod GOPROXY=off GOSUMDB=off GOTOOLCHAIN=local
dst=/verif/seeded/$name; mkdir -p $dst
demo=$(git -C $src status --short -uall | grep '^??' | grep -v seed_out | awk '{print $2}' | head -1)
(cd $src && git diff -- . ':(exclude)seed_out' > $dst/patch.diff)
cp $src/$demo $dst/demo_test.go.txt
echo "$demo" > $dst/demo_path.txt
wt=/tmp/sv-$name; rm -rf $wt; git -C /repo worktree prune; git -C /repo worktree add -q --detach $wt HEAD || exit 2
pkg=./$(dirname $demo)
log=$dst/confirm.log; : > $log
mkdir -p $wt/$(dirname $demo); cp $src/$demo $wt/$demo
(cd $wt && go test -vet=off -count=1 -timeout 20m $pkg) >> $log 2>&1; r0=$?
echo "DEMO_WITHOUT_PATCH_EXIT=$r0" >> $log
(cd $wt && git apply $dst/patch.diff) >> $log 2>&1 || echo "PATCH_APPLY_FAILED" >> $log
(cd $wt && go build ./... ) >> $log 2>&1; rb=$?
(cd $wt && go test -vet=off -count=1 -timeout 20m $pkg) >> $log 2>&1; r1=$?
echo "DEMO_WITH_PATCH_EXIT=$r1 BUILD_EXIT=$rb" >> $log
rm -f $wt/$demo
(cd $wt && go test -vet=off -count=1 -timeout 25m ./... ) > $dst/suite_with_patch.log 2>&1; rs=$?
echo "SUITE_WITH_PATCH_EXIT=$rs" >> $log
grep -c "^ok" $dst/suite_with_patch.log >> $log
grep "^FAIL\|^---" $dst/suite_with_patch.log | head -5 >> $log
git -C /repo worktree remove --force $wt
tail -4 $log
