module verifgen

go 1.20
