package main

// gen_writers.go -- Generated/Writers.v: the byte-level WRITERS of the transcript hash, translated from the function
// bodies into a small IR of write programs (wop).  The Coq side (Proofs/WritersBase.v: interpreter, environments;
// Proofs/WritersProofs.v; Properties/C19_writers.v) runs these programs over the components of the model's typed
// value (Model/Framing.v hval) and proves the bytes equal to the model's encoders (enc_hval, frame, write_any,
// commit_input, decommit), so a changed width, order, length prefix, dropped field or ignored error in the code breaks
// a theorem before any harness run.
//
// Translated: pkg/hash WriteAny (type switch + the 4-part frame), New, Digest, Sum, Clone, Fork, Commit, Decommit;
// EVERY method `WriteTo(io.Writer) (int64, error)` and EVERY `Domain() string` of the tree (auto-discovered), and every
// method of the tree that one of them calls and that can be resolved statically (polynomial.Exponent.MarshalBinary).
//
// Fragment (anything else makes the function UNTRANSLATABLE: listed in writers_untranslatable, obligation `= []`):
//   effects      dst.Write(e) / dst.WriteString(e)                 WWrite dst e seterr
//                binary.Write(dst, binary.BigEndian, uintW(v))      WWriteInt dst W v seterr
//                x := make([]byte, n) / var x [n]byte               WMake x n
//                var x bytes.Buffer / x := new(bytes.Buffer)        WNewBuf x
//                binary.BigEndian.PutUintW(x, uintW(v))             WPutInt W x v
//                a.FillBytes(x)                                     WFill x a
//                copy(x[k:], e)                                     WCopy x k e
//                x, err := a.MarshalBinary()                        WMarshal x a seterr    (a of interface type)
//                x, err := a.M()  (M resolved to a translated f)    WCallB x f a seterr
//                x, _ := a.GobEncode()                              WGob x a
//                x, err := cbor.Marshal(T{f: a, ...})               WCbor x [(key, Go type, a)] seterr
//                n, err = a.WriteTo(dst)                            WCall f a dst seterr (resolved) / WCallDyn a dst seterr
//                x = e / x := e (byte valued), s = T{a, b}          WSet x e (struct locals field-wise: "s.F")
//                total += n, nAll := int64(4), var n int            WCount "text"   (bookkeeping of the returned count)
//   control      if c { return <error> }                            WFailIf c
//                if err != nil { return [.., err | error] }         WCheck     (err = the error variable, ONE name: `err`)
//                if c { A } else { B }                              WIf c A B
//                for _, x := range xs { B }                         WFor x xs B   (unrolled if xs is a local slice literal)
//                switch t := d.(type) { case T: A ... default: D }  WSwitch t d [(T, A)...] D
//                return n, nil / return n, err / return             WReturn n / WRetErr n
//                return e (bytes, string)                           WReturnB [e]
//   hash level   x := &Hash{h: blake3.New()}                        WHashNew x.h
//                &Hash{h: y.h.Clone()}                              WHashCopy x.h y.h
//                x := y.Clone()                                     WHashClone x.h y.h
//                [err =] x.WriteAny(a) / x.WriteAny(a...)           WAny x.h arg spread seterr
//                io.ReadFull(x.Digest(), out)  [panic on error]     WReadFull out x.h
//                c := x.Sum()                                       WSum c x.h
//                rand.Read(x)                                       WRand x seterr
//                err = a.Validate()                                 WTry "a.Validate()"
//                return bytes.Equal(a, b) / return x (hash)         WRetEq a b / WRetHash x.h / WRetDigest x.h
//   expressions  byte strings (wexp), numbers (wnum), conditions (wcond): see the type definitions emitted below;
//                atoms are canonical source text of PATHS (x, x.f, x[i], x.f(), T(x)), nothing else.
// Local names bound to a path (`partyIDs := c.PartyIDs()`) are replaced by it (listed in <name>_lets), numeric locals
// (`size := len(e.coefficients)`) likewise.  Static callee resolution uses declared types only (receiver, struct fields,
// map/slice element types, conversions, method result types); an interface-typed receiver gives a dynamic call.

import (
	"fmt"
	"go/ast"
	"go/token"
	"sort"
	"strconv"
	"strings"
)

func init() { extraGens = append(extraGens, genWriters) }

const modulePrefix = "github.com/taurusgroup/multi-party-sig/"

// ---- functions ----

type wfunc struct {
	dir, recv, name string
	fd              *ast.FuncDecl
	file            *ast.File
}

func (f *wfunc) key() string {
	if f.recv == "" {
		return f.dir + "." + f.name
	}
	return f.dir + "." + f.recv + "." + f.name
}

func (f *wfunc) coqName() string {
	base := f.dir[strings.LastIndex(f.dir, "/")+1:]
	if f.recv == "" || (f.dir == "pkg/hash" && f.recv == "Hash") {
		return "gw_" + base + "_" + f.name
	}
	return "gw_" + base + "_" + f.recv + "_" + f.name
}

func findFuncFile(dir, recv, name string) (*ast.FuncDecl, *ast.File) {
	for _, f := range pkgs[dir] {
		for _, d := range f.Decls {
			fd, ok := d.(*ast.FuncDecl)
			if !ok || fd.Name.Name != name || fd.Body == nil {
				continue
			}
			if recvType(fd) == recv {
				return fd, f
			}
		}
	}
	return nil, nil
}

func findType(dir, name string) (*ast.TypeSpec, *ast.File) {
	for _, f := range pkgs[dir] {
		for _, d := range f.Decls {
			gd, ok := d.(*ast.GenDecl)
			if !ok || gd.Tok != token.TYPE {
				continue
			}
			for _, sp := range gd.Specs {
				ts := sp.(*ast.TypeSpec)
				if ts.Name.Name == name {
					used[fileOf(ts)] = true
					return ts, f
				}
			}
		}
	}
	return nil, nil
}

func importDir(file *ast.File, alias string) string {
	for _, im := range file.Imports {
		p := strings.Trim(im.Path.Value, "\"")
		name := p[strings.LastIndex(p, "/")+1:]
		if im.Name != nil {
			name = im.Name.Name
		}
		if name == alias && strings.HasPrefix(p, modulePrefix) {
			return strings.TrimPrefix(p, modulePrefix)
		}
	}
	return ""
}

// ---- static types (declared types only) ----

type tyref struct {
	dir  string
	file *ast.File
	expr ast.Expr // a type expression as written in file
}

// named resolves a type expression to a declared named type of the tree: (dir, name), ok
func (r tyref) named() (string, string, bool) {
	e := r.expr
	if s, ok := e.(*ast.StarExpr); ok {
		e = s.X
	}
	switch v := e.(type) {
	case *ast.Ident:
		if ts, _ := findType(r.dir, v.Name); ts != nil {
			return r.dir, v.Name, true
		}
	case *ast.SelectorExpr:
		if x, ok := v.X.(*ast.Ident); ok {
			if d := importDir(r.file, x.Name); d != "" {
				if ts, _ := findType(d, v.Sel.Name); ts != nil {
					return d, v.Sel.Name, true
				}
			}
		}
	}
	return "", "", false
}

// ---- translator ----

type pwtr struct {
	f        *wfunc
	mode     string // writer | bytes | string | anyerr | hash | sum | digest | commit | decommit
	recvName string
	errNamed bool   // the function has a named result `err`
	cntNamed string // name of the named count result (writer mode), "" if unnamed
	counts   map[string]bool
	bufs     map[string]bool     // local bytes.Buffer
	bytesv   map[string]bool     // local byte slices / arrays
	structs  map[string][]string // struct-typed local -> its field names (declaration order)
	nums     map[string]ast.Expr // numeric local -> defining expression (substituted)
	lets     map[string]ast.Expr // local bound to a path -> the path (substituted)
	letList  [][2]string
	lists    map[string][]ast.Expr // local slice literal -> its elements
	typeofs  map[string]ast.Expr   // name := reflect.TypeOf(X)
	hashes   map[string]bool       // local *Hash objects (and the receiver in pkg/hash)
	ltypes   map[string]string     // static type key of a byte-valued local (for WriteAny arguments)
	subst    map[string]ast.Expr   // loop variable of an unrolled loop -> element
	depth    int                   // block nesting (0 = function body)
	called   *[]string             // keys of statically resolved callees (worklist)
	hashFld  string                // the hasher field of hash.Hash
	shadow   bool                  // an `err` declared in a nested block is pending
}

func q(s string) string { return coqStr(s) }

// norm clones e without positions, replacing unrolled loop variables and path-bound locals
func (t *pwtr) norm(e ast.Expr) ast.Expr {
	switch v := e.(type) {
	case nil:
		return nil
	case *ast.Ident:
		if r, ok := t.subst[v.Name]; ok {
			return r
		}
		if r, ok := t.lets[v.Name]; ok {
			return r
		}
		return &ast.Ident{Name: v.Name}
	case *ast.BasicLit:
		return &ast.BasicLit{Kind: v.Kind, Value: v.Value}
	case *ast.ParenExpr:
		return &ast.ParenExpr{X: t.norm(v.X)}
	case *ast.SelectorExpr:
		return &ast.SelectorExpr{X: t.norm(v.X), Sel: &ast.Ident{Name: v.Sel.Name}}
	case *ast.IndexExpr:
		return &ast.IndexExpr{X: t.norm(v.X), Index: t.norm(v.Index)}
	case *ast.StarExpr:
		return &ast.StarExpr{X: t.norm(v.X)}
	case *ast.UnaryExpr:
		return &ast.UnaryExpr{Op: v.Op, X: t.norm(v.X)}
	case *ast.BinaryExpr:
		return &ast.BinaryExpr{X: t.norm(v.X), Op: v.Op, Y: t.norm(v.Y)}
	case *ast.CallExpr:
		c := &ast.CallExpr{Fun: t.norm(v.Fun)}
		for _, a := range v.Args {
			c.Args = append(c.Args, t.norm(a))
		}
		if v.Ellipsis != token.NoPos {
			c.Ellipsis = 1
		}
		return c
	case *ast.ArrayType:
		return &ast.ArrayType{Len: t.norm(v.Len), Elt: t.norm(v.Elt)}
	}
	bad(e, "expression %T outside the fragment", e)
	return nil
}

// isPath: x, x.f, x[i], x.f() (no arguments), T(x) / pkg.T(x) (one argument): the only shapes an atom may have
func isPath(e ast.Expr) bool {
	switch v := e.(type) {
	case *ast.Ident:
		return true
	case *ast.SelectorExpr:
		return isPath(v.X)
	case *ast.IndexExpr:
		return isPath(v.X) && isPath(v.Index)
	case *ast.ParenExpr:
		return isPath(v.X)
	case *ast.CallExpr:
		if len(v.Args) == 0 {
			return isPath(v.Fun)
		}
		if len(v.Args) == 1 && v.Ellipsis == token.NoPos {
			return isPath(v.Fun) && isPath(v.Args[0])
		}
	}
	return false
}

func (t *pwtr) localName(e ast.Expr) (string, bool) {
	id, ok := e.(*ast.Ident)
	if !ok {
		return "", false
	}
	if _, s := t.subst[id.Name]; s {
		return "", false
	}
	return id.Name, true
}

// checkAtom: a path must not mention a count variable, a local buffer or another store local
func (t *pwtr) checkAtom(e ast.Expr) {
	for n := range identsOf(e) {
		if t.counts[n] || t.bufs[n] || t.bytesv[n] || t.structs[n] != nil || t.typeofs[n] != nil || t.lists[n] != nil || n == "err" {
			if _, s := t.subst[n]; s {
				continue
			}
			bad(e, "local %s inside an atom", n)
		}
	}
}

func (t *pwtr) atom(e ast.Expr) string {
	if p, ok := e.(*ast.ParenExpr); ok {
		return t.atom(p.X)
	}
	if !isPath(e) {
		bad(e, "expression %s is not a path", printNode(t.norm(e)))
	}
	t.checkAtom(e)
	return printNode(t.norm(e))
}

func callOf(e ast.Expr) (recv ast.Expr, name string, args []ast.Expr, ok bool) {
	c, ok1 := e.(*ast.CallExpr)
	if !ok1 {
		return nil, "", nil, false
	}
	switch f := c.Fun.(type) {
	case *ast.SelectorExpr:
		return f.X, f.Sel.Name, c.Args, true
	case *ast.Ident:
		return nil, f.Name, c.Args, true
	}
	return nil, "", nil, false
}

func isIdent(e ast.Expr, name string) bool {
	id, ok := e.(*ast.Ident)
	return ok && id.Name == name
}

func isSel(e ast.Expr, x, sel string) bool {
	s, ok := e.(*ast.SelectorExpr)
	return ok && isIdent(s.X, x) && s.Sel.Name == sel
}

// structVar: `s.F` where s is a struct-typed local
func (t *pwtr) structVar(e ast.Expr) (string, bool) {
	s, ok := e.(*ast.SelectorExpr)
	if !ok {
		return "", false
	}
	x, ok := s.X.(*ast.Ident)
	if !ok || t.structs[x.Name] == nil {
		return "", false
	}
	for _, f := range t.structs[x.Name] {
		if f == s.Sel.Name {
			return x.Name + "." + f, true
		}
	}
	bad(e, "unknown field of local struct")
	return "", false
}

// byte-string valued expression
func (t *pwtr) bexp(e ast.Expr) string {
	switch v := e.(type) {
	case *ast.ParenExpr:
		return t.bexp(v.X)
	case *ast.BasicLit:
		if v.Kind == token.STRING {
			s, err := strconv.Unquote(v.Value)
			if err != nil {
				bad(v, "string literal")
			}
			for _, c := range []byte(s) {
				if c < 32 || c > 126 {
					bad(v, "string literal with a non-printable byte")
				}
			}
			return "ELit " + q(s)
		}
	case *ast.Ident:
		if n, ok := t.localName(v); ok && (t.bytesv[n] || t.bufs[n]) {
			return "EVar " + q(n)
		}
	case *ast.SliceExpr:
		if v.Low == nil && v.High == nil && v.Max == nil {
			return t.bexp(v.X)
		}
		bad(v, "slice expression %s (only x[:] is in the fragment)", printNode(v))
	case *ast.SelectorExpr:
		if n, ok := t.structVar(v); ok {
			return "EVar " + q(n)
		}
	case *ast.CallExpr:
		// []byte(x)
		if at, ok := v.Fun.(*ast.ArrayType); ok && at.Len == nil && isIdent(at.Elt, "byte") && len(v.Args) == 1 {
			return t.bexp(v.Args[0])
		}
		if recv, name, args, ok := callOf(v); ok && recv != nil && len(args) == 0 {
			if n, isl := t.localName(recv); isl {
				if name == "Bytes" && t.bufs[n] {
					return "EVar " + q(n)
				}
				if name == "String" && t.typeofs[n] != nil {
					return "ETypeName " + q(t.atom(t.typeofs[n]))
				}
			}
			switch name {
			case "Bytes":
				return "EMinBytes " + q(t.atom(recv))
			case "Domain":
				return "EDomain " + q(t.atom(recv))
			}
		}
	}
	return "EAtom " + q(t.atom(e))
}

var intConv = map[string]int{"uint8": 8, "uint16": 16, "uint32": 32, "uint64": 64, "int": 64, "int64": 64, "int32": 32, "uint": 64}

// numeric expression
func (t *pwtr) nexp(e ast.Expr) string {
	switch v := e.(type) {
	case *ast.ParenExpr:
		return t.nexp(v.X)
	case *ast.BasicLit:
		if v.Kind == token.INT {
			n, err := strconv.ParseUint(v.Value, 0, 63)
			if err != nil {
				bad(v, "integer literal")
			}
			return fmt.Sprintf("NLit %d", n)
		}
	case *ast.Ident:
		if n, ok := t.localName(v); ok {
			if r, isn := t.nums[n]; isn {
				return t.nexp(r)
			}
			if t.counts[n] {
				bad(v, "count variable %s used as a value", n)
			}
			if wconsts[t.f.dir+"."+n] {
				return "NConst " + q(n)
			}
		}
	case *ast.SelectorExpr:
		if x, ok := v.X.(*ast.Ident); ok && wconsts[importDir(t.f.file, x.Name)+"."+v.Sel.Name] {
			return "NConst " + q(x.Name+"."+v.Sel.Name)
		}
	case *ast.BinaryExpr:
		if v.Op == token.ADD {
			return "NAdd (" + t.nexp(v.X) + ") (" + t.nexp(v.Y) + ")"
		}
		bad(v, "arithmetic operator %s", v.Op)
	case *ast.CallExpr:
		recv, name, args, ok := callOf(v)
		if ok && recv == nil && len(args) == 1 {
			if bits, isc := intConv[name]; isc {
				return fmt.Sprintf("NConv %d (%s)", bits, t.nexp(args[0]))
			}
			if name == "len" {
				return "NLen (" + t.bexp(args[0]) + ")"
			}
		}
		if ok && recv != nil && len(args) == 0 {
			if n, isl := t.localName(recv); isl && t.bufs[n] && name == "Len" {
				return "NLen (EVar " + q(n) + ")"
			}
			if name == "TrueLen" {
				return "NBits " + q(t.atom(recv))
			}
		}
	}
	return "NVal " + q(t.atom(e))
}

// numeric expression written with exactly W bytes: the outer conversion uintW(...) is the width itself
func (t *pwtr) nexpWidth(e ast.Expr, bits int) string {
	if c, ok := e.(*ast.CallExpr); ok {
		if _, name, args, ok := callOf(c); ok && len(args) == 1 && name == fmt.Sprintf("uint%d", bits) {
			return t.nexp(args[0])
		}
	}
	bad(e, "value written with %d bits is not a uint%d(...) conversion", bits, bits)
	return ""
}

func isErrNotNil(e ast.Expr) bool {
	b, ok := e.(*ast.BinaryExpr)
	return ok && b.Op == token.NEQ && isIdent(b.X, "err") && isIdent(b.Y, "nil")
}

func (t *pwtr) cexp(e ast.Expr) string {
	switch v := e.(type) {
	case *ast.ParenExpr:
		return t.cexp(v.X)
	case *ast.UnaryExpr:
		if v.Op == token.NOT {
			return "CNot (" + t.cexp(v.X) + ")"
		}
	case *ast.BinaryExpr:
		switch v.Op {
		case token.EQL, token.NEQ:
			var c string
			if isIdent(v.Y, "nil") {
				c = "CNil " + q(t.atom(v.X))
			} else if bl, ok := v.Y.(*ast.BasicLit); ok && bl.Kind == token.STRING && bl.Value == `""` {
				c = "CEmpty " + q(t.atom(v.X))
			} else {
				bad(v, "comparison outside the fragment")
			}
			if v.Op == token.NEQ {
				return "CNot (" + c + ")"
			}
			return c
		case token.GTR:
			return "CGt (" + t.nexp(v.X) + ") (" + t.nexp(v.Y) + ")"
		case token.LSS:
			return "CGt (" + t.nexp(v.Y) + ") (" + t.nexp(v.X) + ")"
		case token.LAND:
			return "CAnd (" + t.cexp(v.X) + ") (" + t.cexp(v.Y) + ")"
		case token.LOR:
			return "COr (" + t.cexp(v.X) + ") (" + t.cexp(v.Y) + ")"
		}
	}
	bad(e, "condition outside the fragment")
	return ""
}

// ---- static typing of paths ----

func (t *pwtr) recvTy() tyref {
	return tyref{t.f.dir, t.f.file, t.f.fd.Recv.List[0].Type}
}

func (t *pwtr) typeOf(e ast.Expr) (tyref, bool) {
	switch v := e.(type) {
	case *ast.ParenExpr:
		return t.typeOf(v.X)
	case *ast.Ident:
		if r, ok := t.subst[v.Name]; ok {
			return t.typeOf(r)
		}
		if r, ok := t.lets[v.Name]; ok {
			return t.typeOf(r)
		}
		if t.f.fd.Recv != nil && v.Name == t.recvName {
			return t.recvTy(), true
		}
		for _, p := range t.f.fd.Type.Params.List {
			for _, n := range p.Names {
				if n.Name == v.Name {
					return tyref{t.f.dir, t.f.file, p.Type}, true
				}
			}
		}
	case *ast.SelectorExpr:
		xt, ok := t.typeOf(v.X)
		if !ok {
			return tyref{}, false
		}
		d, n, ok := xt.named()
		if !ok {
			return tyref{}, false
		}
		ts, file := findType(d, n)
		st, ok := ts.Type.(*ast.StructType)
		if !ok {
			return tyref{}, false
		}
		for _, fl := range st.Fields.List {
			for _, fn := range fl.Names {
				if fn.Name == v.Sel.Name {
					return tyref{d, file, fl.Type}, true
				}
			}
		}
	case *ast.IndexExpr:
		xt, ok := t.typeOf(v.X)
		if !ok {
			return tyref{}, false
		}
		ex := xt.expr
		if d, n, ok := xt.named(); ok {
			ts, file := findType(d, n)
			xt = tyref{d, file, ts.Type}
			ex = ts.Type
		}
		switch m := ex.(type) {
		case *ast.MapType:
			return tyref{xt.dir, xt.file, m.Value}, true
		case *ast.ArrayType:
			return tyref{xt.dir, xt.file, m.Elt}, true
		}
	case *ast.CallExpr:
		if len(v.Args) == 1 { // conversion T(x) / pkg.T(x)
			r := tyref{t.f.dir, t.f.file, v.Fun}
			if _, _, ok := r.named(); ok {
				return r, true
			}
		}
		if len(v.Args) == 0 {
			if s, ok := v.Fun.(*ast.SelectorExpr); ok {
				xt, ok := t.typeOf(s.X)
				if !ok {
					return tyref{}, false
				}
				d, n, ok := xt.named()
				if !ok {
					return tyref{}, false
				}
				fd, file := findFuncFile(d, n, s.Sel.Name)
				if fd != nil && fd.Type.Results != nil && len(fd.Type.Results.List) >= 1 {
					return tyref{d, file, fd.Type.Results.List[0].Type}, true
				}
			}
		}
	}
	return tyref{}, false
}

// callee: the translated-function key of recv.method, "" when the receiver's declared type is an interface / unknown
func (t *pwtr) callee(recv ast.Expr, method string) string {
	ty, ok := t.typeOf(recv)
	if !ok {
		return ""
	}
	d, n, ok := ty.named()
	if !ok {
		return ""
	}
	ts, _ := findType(d, n)
	if _, isIface := ts.Type.(*ast.InterfaceType); isIface {
		return ""
	}
	fd, _ := findFuncFile(d, n, method)
	if fd == nil {
		return ""
	}
	k := d + "." + n + "." + method
	*t.called = append(*t.called, k)
	return k
}

func (t *pwtr) typeKey(e ast.Expr) string {
	r := tyref{t.f.dir, t.f.file, e}
	if d, n, ok := r.named(); ok {
		return d + "." + n
	}
	return ""
}

// ---- statements ----

func coqBool(b bool) string {
	if b {
		return "true"
	}
	return "false"
}

// errTarget: the error position of an assignment: `err` -> true, `_` -> false
func (t *pwtr) errTarget(e ast.Expr, s ast.Stmt) bool {
	if isIdent(e, "err") {
		return true
	}
	if isIdent(e, "_") {
		return false
	}
	bad(s, "error result assigned to something other than `err` or `_`")
	return false
}

func (t *pwtr) countTarget(e ast.Expr, s ast.Stmt, define bool) {
	id, ok := e.(*ast.Ident)
	if !ok {
		bad(s, "count result assigned to a non-local")
	}
	if id.Name == "_" {
		return
	}
	if define && !t.counts[id.Name] {
		if t.bytesv[id.Name] || t.bufs[id.Name] || t.nums[id.Name] != nil || t.lets[id.Name] != nil {
			bad(s, "name %s reused as a count", id.Name)
		}
		t.counts[id.Name] = true
		return
	}
	if !t.counts[id.Name] {
		bad(s, "count result assigned to %s, which is not a count variable", id.Name)
	}
}

func (t *pwtr) dst(e ast.Expr) string {
	if u, ok := e.(*ast.UnaryExpr); ok && u.Op == token.AND {
		e = u.X
	}
	if n, ok := t.localName(e); ok {
		if t.bufs[n] || (t.mode == "writer" && n == t.writerParam()) {
			return n
		}
	}
	if s, ok := e.(*ast.SelectorExpr); ok && s.Sel.Name == t.hashFld {
		if n, ok := t.localName(s.X); ok && t.hashes[n] {
			return n + "." + t.hashFld
		}
	}
	bad(e, "write destination %s", printNode(e))
	return ""
}

func (t *pwtr) writerParam() string {
	ps := t.f.fd.Type.Params.List
	if len(ps) == 1 && len(ps[0].Names) == 1 {
		return ps[0].Names[0].Name
	}
	return ""
}

func (t *pwtr) hashObj(e ast.Expr) string {
	if n, ok := t.localName(e); ok && t.hashes[n] {
		return n + "." + t.hashFld
	}
	bad(e, "%s is not a hash object", printNode(e))
	return ""
}

func (t *pwtr) defBytes(id ast.Expr, s ast.Stmt) string {
	n, ok := t.localName(id)
	if !ok || n == "_" {
		bad(s, "byte result assigned to a non-local")
	}
	if t.counts[n] || t.bufs[n] || n == "err" {
		bad(s, "name %s reused", n)
	}
	t.bytesv[n] = true
	return n
}

// isCountExpr: literals, count variables, int64(...) of those, +
func (t *pwtr) isCountExpr(e ast.Expr) bool {
	switch v := e.(type) {
	case *ast.BasicLit:
		return v.Kind == token.INT
	case *ast.Ident:
		return t.counts[v.Name]
	case *ast.ParenExpr:
		return t.isCountExpr(v.X)
	case *ast.BinaryExpr:
		return v.Op == token.ADD && t.isCountExpr(v.X) && t.isCountExpr(v.Y)
	case *ast.CallExpr:
		_, name, args, ok := callOf(v)
		return ok && (name == "int64" || name == "int") && len(args) == 1 && t.isCountExpr(args[0])
	}
	return false
}

func (t *pwtr) call(lhs []ast.Expr, rhs ast.Expr, s ast.Stmt, define bool) []string {
	recv, name, args, ok := callOf(rhs)
	if !ok {
		bad(s, "call outside the fragment")
	}
	need := func(n int) {
		if len(lhs) != n {
			bad(s, "%s: %d results expected on the left", name, n)
		}
	}
	switch {
	case recv != nil && (name == "Write" || name == "WriteString") && len(args) == 1:
		need(2)
		t.countTarget(lhs[0], s, define)
		return []string{fmt.Sprintf("WWrite %s (%s) %s", q(t.dst(recv)), t.bexp(args[0]), coqBool(t.errTarget(lhs[1], s)))}
	case isIdent(recv, "binary") && name == "Write" && len(args) == 3:
		need(1)
		if !isSel(args[1], "binary", "BigEndian") {
			bad(s, "binary.Write with a byte order other than binary.BigEndian")
		}
		c, ok := args[2].(*ast.CallExpr)
		if !ok {
			bad(s, "binary.Write of a value that is not uintW(...)")
		}
		_, cn, _, _ := callOf(c)
		bits, okb := map[string]int{"uint16": 16, "uint32": 32, "uint64": 64}[cn]
		if !okb {
			bad(s, "binary.Write of a value that is not uintW(...)")
		}
		return []string{fmt.Sprintf("WWriteInt %s %d (%s) %s", q(t.dst(args[0])), bits/8, t.nexpWidth(args[2], bits), coqBool(t.errTarget(lhs[0], s)))}
	case recv != nil && name == "WriteTo" && len(args) == 1:
		need(2)
		t.countTarget(lhs[0], s, define)
		se := coqBool(t.errTarget(lhs[1], s))
		if k := t.callee(recv, "WriteTo"); k != "" {
			return []string{fmt.Sprintf("WCall %s %s %s %s", q(k), q(t.atom(recv)), q(t.dst(args[0])), se)}
		}
		return []string{fmt.Sprintf("WCallDyn %s %s %s", q(t.atom(recv)), q(t.dst(args[0])), se)}
	case recv != nil && name == "MarshalBinary" && len(args) == 0:
		need(2)
		x := t.defBytes(lhs[0], s)
		se := coqBool(t.errTarget(lhs[1], s))
		if k := t.callee(recv, "MarshalBinary"); k != "" {
			return []string{fmt.Sprintf("WCallB %s %s %s %s", q(x), q(k), q(t.atom(recv)), se)}
		}
		return []string{fmt.Sprintf("WMarshal %s %s %s", q(x), q(t.atom(recv)), se)}
	case recv != nil && name == "GobEncode" && len(args) == 0:
		need(2)
		x := t.defBytes(lhs[0], s)
		if t.errTarget(lhs[1], s) {
			bad(s, "GobEncode error kept")
		}
		return []string{fmt.Sprintf("WGob %s %s", q(x), q(t.atom(recv)))}
	case isIdent(recv, "cbor") && name == "Marshal" && len(args) == 1:
		need(2)
		x := t.defBytes(lhs[0], s)
		return []string{fmt.Sprintf("WCbor %s %s %s", q(x), t.cborStruct(args[0]), coqBool(t.errTarget(lhs[1], s)))}
	case recv != nil && name == "WriteAny":
		need(1)
		if len(args) != 1 {
			bad(s, "WriteAny with %d arguments", len(args))
		}
		spread := rhs.(*ast.CallExpr).Ellipsis != token.NoPos
		var arg string
		if n, ok := t.localName(args[0]); ok && t.bytesv[n] {
			if t.ltypes[n] == "" {
				bad(s, "WriteAny of local %s whose static type is unknown", n)
			}
			arg = fmt.Sprintf("ALocal %s %s", q(t.ltypes[n]), q(n))
		} else {
			arg = "AAtom " + q(t.atom(args[0]))
		}
		return []string{fmt.Sprintf("WAny %s (%s) %s %s", q(t.hashObj(recv)), arg, coqBool(spread), coqBool(t.errTarget(lhs[0], s)))}
	case isIdent(recv, "rand") && name == "Read" && len(args) == 1:
		need(2)
		if !isIdent(lhs[0], "_") {
			bad(s, "rand.Read count kept")
		}
		n, ok := t.localName(args[0])
		if !ok || !t.bytesv[n] {
			bad(s, "rand.Read into a non-local")
		}
		return []string{fmt.Sprintf("WRand %s %s", q(n), coqBool(t.errTarget(lhs[1], s)))}
	case isIdent(recv, "io") && name == "ReadFull" && len(args) == 2:
		need(2)
		if !isIdent(lhs[0], "_") {
			bad(s, "io.ReadFull count kept")
		}
		t.errTarget(lhs[1], s)
		r2, n2, a2, ok2 := callOf(args[0])
		out, okl := t.localName(args[1])
		if !ok2 || r2 == nil || n2 != "Digest" || len(a2) != 0 || !okl || !t.bytesv[out] {
			bad(s, "io.ReadFull outside the fragment")
		}
		return []string{fmt.Sprintf("WReadFull %s %s", q(out), q(t.hashObj(r2)))}
	case recv != nil && name == "Validate" && len(args) == 0:
		need(1)
		if !t.errTarget(lhs[0], s) {
			bad(s, "Validate result dropped")
		}
		return []string{"WTry " + q(t.atom(rhs))}
	}
	bad(s, "call %s outside the fragment", printNode(rhs))
	return nil
}

// cbor.Marshal(T{f: a, ...}): T a struct type of the package; keys are the field names (or the cbor tag name)
func (t *pwtr) cborStruct(e ast.Expr) string {
	cl, ok := e.(*ast.CompositeLit)
	if !ok {
		bad(e, "cbor.Marshal of something other than a struct literal")
	}
	id, ok := cl.Type.(*ast.Ident)
	if !ok {
		bad(e, "cbor.Marshal: literal type")
	}
	ts, _ := findType(t.f.dir, id.Name)
	if ts == nil {
		bad(e, "cbor.Marshal: unknown type %s", id.Name)
	}
	st, ok := ts.Type.(*ast.StructType)
	if !ok {
		bad(e, "cbor.Marshal: %s is not a struct", id.Name)
	}
	vals := map[string]ast.Expr{}
	for _, el := range cl.Elts {
		kv, ok := el.(*ast.KeyValueExpr)
		if !ok {
			bad(e, "cbor.Marshal: positional struct literal")
		}
		k, ok := kv.Key.(*ast.Ident)
		if !ok {
			bad(e, "cbor.Marshal: literal key")
		}
		vals[k.Name] = kv.Value
	}
	var fs []string
	for _, fl := range st.Fields.List {
		if len(fl.Names) == 0 {
			bad(e, "cbor.Marshal: embedded field")
		}
		for _, n := range fl.Names {
			if !n.IsExported() {
				continue
			}
			key := n.Name
			if fl.Tag != nil {
				tag, _ := strconv.Unquote(fl.Tag.Value)
				if strings.Contains(tag, "cbor:") || strings.Contains(tag, "json:") {
					bad(e, "cbor.Marshal: tagged field %s (tags are outside the fragment)", n.Name)
				}
			}
			v, ok := vals[n.Name]
			if !ok {
				bad(e, "cbor.Marshal: field %s has no value in the literal (zero value)", n.Name)
			}
			delete(vals, n.Name)
			fs = append(fs, fmt.Sprintf("(%s, %s, %s)", q(key), q(src(fl.Type)), q(t.atom(v))))
		}
	}
	if len(vals) != 0 {
		bad(e, "cbor.Marshal: unexported field set in the literal")
	}
	return "[" + strings.Join(fs, "; ") + "]"
}

func (t *pwtr) assign(v *ast.AssignStmt) []string {
	define := v.Tok == token.DEFINE
	// count bookkeeping: total += n, total = int64(n), nAll := int64(4)
	if len(v.Lhs) == 1 && len(v.Rhs) == 1 {
		if id, ok := v.Lhs[0].(*ast.Ident); ok && t.isCountExpr(v.Rhs[0]) {
			if _, isCall := v.Rhs[0].(*ast.CallExpr); v.Tok == token.ADD_ASSIGN || (v.Tok == token.ASSIGN && t.counts[id.Name]) || (define && isCall) {
				if define {
					t.countTarget(id, v, true)
				} else if !t.counts[id.Name] {
					bad(v, "%s is not a count variable", id.Name)
				}
				return []string{"WCount " + q(src(v))}
			}
		}
	}
	if v.Tok != token.DEFINE && v.Tok != token.ASSIGN {
		bad(v, "assignment operator %s", v.Tok)
	}
	if len(v.Rhs) != 1 {
		bad(v, "parallel assignment")
	}
	rhs := v.Rhs[0]
	if define && t.depth > 1 {
		// a nested block must not re-declare a store variable of an enclosing block (the store has one entry per name)
		for _, l := range v.Lhs {
			if id, ok := l.(*ast.Ident); ok && (t.bytesv[id.Name] || t.bufs[id.Name] || t.structs[id.Name] != nil) {
				bad(v, "%s re-declared in a nested block", id.Name)
			}
		}
	}
	if define && t.depth > 1 {
		for _, l := range v.Lhs {
			if isIdent(l, "err") {
				t.shadow = true
			}
		}
	}
	// composite literals
	if u, ok := rhs.(*ast.UnaryExpr); ok && u.Op == token.AND && len(v.Lhs) == 1 {
		if cl, ok := u.X.(*ast.CompositeLit); ok {
			n, okn := t.localName(v.Lhs[0])
			if !okn {
				bad(v, "hash literal assigned to a non-local")
			}
			ops := t.hashLit(cl, n+"."+t.hashFld, v)
			t.hashes[n] = true
			return ops
		}
	}
	if cl, ok := rhs.(*ast.CompositeLit); ok && len(v.Lhs) == 1 {
		n, okn := t.localName(v.Lhs[0])
		if !okn {
			bad(v, "literal assigned to a non-local")
		}
		if at, ok := cl.Type.(*ast.ArrayType); ok && at.Len == nil {
			if !define {
				bad(v, "slice literal re-assigned")
			}
			for _, el := range cl.Elts {
				if !isPath(el) {
					bad(el, "slice literal element is not a path")
				}
				t.checkAtom(el)
			}
			t.lists[n] = cl.Elts
			return nil
		}
		if fields := t.structs[n]; fields != nil && !define {
			var ops []string
			if len(cl.Elts) != len(fields) {
				bad(v, "struct literal does not set every field")
			}
			for i, el := range cl.Elts {
				f := fields[i]
				val := el
				if kv, ok := el.(*ast.KeyValueExpr); ok {
					k, _ := kv.Key.(*ast.Ident)
					f, val = "", kv.Value
					for _, ff := range fields {
						if k != nil && ff == k.Name {
							f = ff
						}
					}
					if f == "" {
						bad(v, "struct literal key")
					}
				}
				ops = append(ops, fmt.Sprintf("WSet %s (%s)", q(n+"."+f), t.bexp(val)))
			}
			return ops
		}
		bad(v, "composite literal outside the fragment")
	}
	if _, ok := rhs.(*ast.CallExpr); ok {
		recv, name, args, _ := callOf(rhs)
		single := len(v.Lhs) == 1
		switch {
		case single && recv == nil && name == "make" && len(args) == 2:
			return []string{t.makeBytes(v.Lhs[0], rhs, "", v)}
		case single && recv == nil && len(args) == 1 && isMake(args[0]) && define:
			// T(make([]byte, n)): a named byte-slice type
			tk := t.typeKey(rhs.(*ast.CallExpr).Fun)
			if tk == "" {
				bad(v, "conversion of make(...) to an unknown type")
			}
			return []string{t.makeBytes(v.Lhs[0], args[0], tk, v)}
		case single && isIdent(recv, "reflect") && name == "TypeOf" && len(args) == 1 && define:
			n, _ := t.localName(v.Lhs[0])
			t.atom(args[0])
			t.typeofs[n] = args[0]
			return nil
		case single && recv == nil && name == "len" && define:
			n, _ := t.localName(v.Lhs[0])
			t.nexp(rhs)
			t.nums[n] = rhs
			return nil
		case single && recv != nil && name == "Clone" && len(args) == 0 && define:
			n, _ := t.localName(v.Lhs[0])
			op := fmt.Sprintf("WHashClone %s %s", q(n+"."+t.hashFld), q(t.hashObj(recv)))
			t.hashes[n] = true
			return []string{op}
		case single && recv != nil && name == "Sum" && len(args) == 0 && define:
			h := t.hashObj(recv)
			x := t.defBytes(v.Lhs[0], v)
			return []string{fmt.Sprintf("WSum %s %s", q(x), q(h))}
		case single && recv != nil && name == "Bytes" && len(args) == 0:
			e := t.bexp(rhs)
			x := t.defBytes(v.Lhs[0], v)
			return []string{fmt.Sprintf("WSet %s (%s)", q(x), e)}
		case single && recv != nil && len(args) == 0 && define && isPath(rhs) && name != "WriteAny" && name != "Validate":
			// a local bound to a path: x := c.PartyIDs()
			n, okn := t.localName(v.Lhs[0])
			if !okn || n == "_" {
				bad(v, "binding")
			}
			txt := t.atom(rhs)
			t.lets[n] = t.norm(rhs)
			t.letList = append(t.letList, [2]string{n, txt})
			return nil
		}
		return t.call(v.Lhs, rhs, v, define)
	}
	// x = e / x := e, byte valued
	if len(v.Lhs) == 1 {
		if sv, ok := t.structVar(v.Lhs[0]); ok {
			return []string{fmt.Sprintf("WSet %s (%s)", q(sv), t.bexp(rhs))}
		}
	}
	bad(v, "assignment outside the fragment")
	return nil
}

func isMake(e ast.Expr) bool {
	_, name, args, ok := callOf(e)
	return ok && name == "make" && len(args) == 2
}

func (t *pwtr) makeBytes(lhs ast.Expr, mk ast.Expr, tkey string, s ast.Stmt) string {
	_, _, args, _ := callOf(mk)
	at, ok := args[0].(*ast.ArrayType)
	if !ok || at.Len != nil || !isIdent(at.Elt, "byte") {
		bad(s, "make of something other than []byte")
	}
	n := t.nexp(args[1])
	x := t.defBytes(lhs, s)
	if tkey != "" {
		t.ltypes[x] = tkey
	}
	return fmt.Sprintf("WMake %s (%s)", q(x), n)
}

// &Hash{h: blake3.New()} / &Hash{h: y.h.Clone()}
func (t *pwtr) hashLit(cl *ast.CompositeLit, target string, s ast.Node) []string {
	if !isIdent(cl.Type, "Hash") || t.f.dir != "pkg/hash" || len(cl.Elts) != 1 {
		bad(s, "literal outside the fragment")
	}
	kv, ok := cl.Elts[0].(*ast.KeyValueExpr)
	if !ok || !isIdent(kv.Key, t.hashFld) {
		bad(s, "Hash literal")
	}
	recv, name, args, ok := callOf(kv.Value)
	if ok && isIdent(recv, "blake3") && name == "New" && len(args) == 0 {
		return []string{"WHashNew " + q(target)}
	}
	if ok && name == "Clone" && len(args) == 0 {
		if sel, ok := recv.(*ast.SelectorExpr); ok && sel.Sel.Name == t.hashFld {
			return []string{fmt.Sprintf("WHashCopy %s %s", q(target), q(t.hashObj(sel.X)))}
		}
	}
	bad(s, "Hash literal")
	return nil
}

func (t *pwtr) decl(v *ast.DeclStmt) []string {
	gd, ok := v.Decl.(*ast.GenDecl)
	if !ok || gd.Tok != token.VAR {
		bad(v, "declaration outside the fragment")
	}
	var ops []string
	for _, sp := range gd.Specs {
		vs := sp.(*ast.ValueSpec)
		for i, n := range vs.Names {
			name := n.Name
			if len(vs.Values) > 0 {
				// var buf = new(bytes.Buffer)
				_, fn, args, ok := callOf(vs.Values[i])
				if ok && fn == "new" && len(args) == 1 && isSel(args[0], "bytes", "Buffer") && vs.Type == nil {
					t.bufs[name] = true
					ops = append(ops, "WNewBuf "+q(name))
					continue
				}
				bad(v, "var with an initial value outside the fragment")
			}
			switch ty := vs.Type.(type) {
			case *ast.Ident:
				switch ty.Name {
				case "error":
					if name != "err" {
						bad(v, "error variable named %s", name)
					}
					if t.depth > 1 {
						t.shadow = true
					}
					continue
				case "int", "int64":
					t.counts[name] = true
					ops = append(ops, "WCount "+q("var "+name+" "+ty.Name))
					continue
				}
				if ts, _ := findType(t.f.dir, ty.Name); ts != nil {
					if st, ok := ts.Type.(*ast.StructType); ok {
						var fs []string
						for _, fl := range st.Fields.List {
							for _, fn := range fl.Names {
								fs = append(fs, fn.Name)
							}
						}
						t.structs[name] = fs
						for _, f := range fs { // the zero value: every field empty
							ops = append(ops, fmt.Sprintf("WSet %s (ELit \"\")", q(name+"."+f)))
						}
						continue
					}
				}
			case *ast.SelectorExpr:
				if isSel(ty, "bytes", "Buffer") {
					t.bufs[name] = true
					ops = append(ops, "WNewBuf "+q(name))
					continue
				}
			case *ast.ArrayType:
				if ty.Len != nil && isIdent(ty.Elt, "byte") {
					t.bytesv[name] = true
					ops = append(ops, fmt.Sprintf("WMake %s (%s)", q(name), t.nexp(ty.Len)))
					continue
				}
			}
			bad(v, "declaration of %s outside the fragment", name)
		}
	}
	return ops
}

func (t *pwtr) exprStmt(v *ast.ExprStmt) []string {
	recv, name, args, ok := callOf(v.X)
	if !ok {
		bad(v, "expression statement outside the fragment")
	}
	switch {
	case isSel(recv, "binary", "BigEndian") && strings.HasPrefix(name, "PutUint") && len(args) == 2:
		bits, err := strconv.Atoi(strings.TrimPrefix(name, "PutUint"))
		if err != nil {
			bad(v, "PutUint")
		}
		x := t.bexp(args[0])
		if !strings.HasPrefix(x, "EVar ") {
			bad(v, "PutUint into a non-local")
		}
		return []string{fmt.Sprintf("WPutInt %d %s (%s)", bits/8, strings.TrimPrefix(x, "EVar "), t.nexpWidth(args[1], bits))}
	case recv != nil && name == "FillBytes" && len(args) == 1:
		n, okl := t.localName(args[0])
		if !okl || !t.bytesv[n] {
			bad(v, "FillBytes into a non-local")
		}
		return []string{fmt.Sprintf("WFill %s %s", q(n), q(t.atom(recv)))}
	case recv == nil && name == "copy" && len(args) == 2:
		sl, ok := args[0].(*ast.SliceExpr)
		if !ok || sl.High != nil || sl.Max != nil || sl.Low == nil {
			bad(v, "copy destination is not x[k:]")
		}
		n, okl := t.localName(sl.X)
		bl, okb := sl.Low.(*ast.BasicLit)
		if !okl || !t.bytesv[n] || !okb || bl.Kind != token.INT {
			bad(v, "copy destination is not x[k:]")
		}
		return []string{fmt.Sprintf("WCopy %s %s (%s)", q(n), bl.Value, t.bexp(args[1]))}
	}
	bad(v, "expression statement %s outside the fragment", src(v))
	return nil
}

// failing: an expression that is a non-nil error for sure
func failingErr(e ast.Expr) bool {
	if isErrCtor(e) {
		return true
	}
	if s, ok := e.(*ast.SelectorExpr); ok {
		if x, ok := s.X.(*ast.Ident); ok && (x.Name == "io" || x.Name == "errors") && strings.HasPrefix(s.Sel.Name, "Err") {
			return true
		}
	}
	if id, ok := e.(*ast.Ident); ok && strings.HasPrefix(id.Name, "Err") {
		return true
	}
	return false
}

func (t *pwtr) hasErrResult() bool {
	rs := t.f.fd.Type.Results
	if rs == nil || len(rs.List) == 0 {
		return false
	}
	return isIdent(rs.List[len(rs.List)-1].Type, "error")
}

func (t *pwtr) cntText(rs []ast.Expr) string {
	if t.mode != "writer" {
		return ""
	}
	if len(rs) == 0 {
		return t.cntNamed
	}
	if !t.isCountExpr(rs[0]) {
		bad(rs[0], "returned count %s is not bookkeeping", src(rs[0]))
	}
	return src(rs[0])
}

func (t *pwtr) ret(v *ast.ReturnStmt) []string {
	rs := v.Results
	if t.hasErrResult() {
		if len(rs) == 0 {
			if !t.errNamed {
				bad(v, "naked return without a named err result")
			}
			return []string{"WRetErr " + q(t.cntText(rs))}
		}
		last := rs[len(rs)-1]
		switch {
		case isIdent(last, "err"):
			return []string{"WRetErr " + q(t.cntText(rs))}
		case failingErr(last):
			return []string{"WFail"}
		case isIdent(last, "nil"):
			switch t.mode {
			case "writer":
				return []string{"WReturn " + q(t.cntText(rs))}
			case "anyerr":
				return []string{"WReturn \"\""}
			default:
				var es []string
				for _, r := range rs[:len(rs)-1] {
					es = append(es, t.bexp(r))
				}
				return []string{"WReturnB [" + strings.Join(es, "; ") + "]"}
			}
		}
		bad(v, "returned error outside the fragment")
	}
	if len(rs) != 1 {
		bad(v, "return outside the fragment")
	}
	r := rs[0]
	switch t.mode {
	case "decommit":
		if isIdent(r, "false") {
			return []string{"WFail"}
		}
		recv, name, args, ok := callOf(r)
		if ok && isIdent(recv, "bytes") && name == "Equal" && len(args) == 2 {
			return []string{fmt.Sprintf("WRetEq (%s) (%s)", t.bexp(args[0]), t.bexp(args[1]))}
		}
	case "string", "sum":
		return []string{"WReturnB [" + t.bexp(r) + "]"}
	case "hash":
		if u, ok := r.(*ast.UnaryExpr); ok && u.Op == token.AND {
			if cl, ok := u.X.(*ast.CompositeLit); ok {
				ops := t.hashLit(cl, "return."+t.hashFld, v)
				return append(ops, "WRetHash "+q("return."+t.hashFld))
			}
		}
		return []string{"WRetHash " + q(t.hashObj(r))}
	case "digest":
		recv, name, args, ok := callOf(r)
		if ok && name == "Digest" && len(args) == 0 {
			if sel, ok := recv.(*ast.SelectorExpr); ok && sel.Sel.Name == t.hashFld {
				return []string{"WRetDigest " + q(t.hashObj(sel.X))}
			}
		}
	}
	bad(v, "return outside the fragment")
	return nil
}

func (t *pwtr) ifStmt(v *ast.IfStmt) []string {
	var ops []string
	if v.Init != nil {
		ops = append(ops, t.stmt(v.Init)...)
	}
	if isErrNotNil(v.Cond) {
		if v.Else != nil {
			bad(v, "else after an error check")
		}
		// body: bindings of reflect.TypeOf (pure), then a return of the error / a failing return / panic
		body := v.Body.List
		for len(body) > 1 {
			as, ok := body[0].(*ast.AssignStmt)
			if !ok || len(as.Rhs) != 1 {
				bad(body[0], "statement inside an error check")
			}
			recv, name, _, okc := callOf(as.Rhs[0])
			if !okc || !isIdent(recv, "reflect") || name != "TypeOf" {
				bad(body[0], "statement inside an error check")
			}
			body = body[1:]
		}
		if len(body) != 1 {
			bad(v, "empty error check")
		}
		switch b := body[0].(type) {
		case *ast.ReturnStmt:
			if t.hasErrResult() {
				if len(b.Results) == 0 {
					if !t.errNamed {
						bad(b, "naked return without a named err result")
					}
				} else {
					last := b.Results[len(b.Results)-1]
					if !isIdent(last, "err") && !failingErr(last) {
						bad(b, "error check returns a nil error")
					}
				}
			} else if !(t.mode == "decommit" && len(b.Results) == 1 && isIdent(b.Results[0], "false")) {
				bad(b, "error check without an error result")
			}
			t.shadow = false
			return append(ops, "WCheck")
		case *ast.ExprStmt:
			if _, name, _, ok := callOf(b.X); ok && name == "panic" {
				t.shadow = false
				return append(ops, "WCheckPanic")
			}
		}
		bad(v, "error check outside the fragment")
	}
	c := t.cexp(v.Cond)
	thenOps := t.block(v.Body.List)
	var elseOps []string
	switch e := v.Else.(type) {
	case nil:
	case *ast.BlockStmt:
		elseOps = t.block(e.List)
	default:
		bad(v, "else branch outside the fragment")
	}
	if len(thenOps) == 1 && thenOps[0] == "WFail" && v.Else == nil {
		return append(ops, "WFailIf ("+c+")")
	}
	return append(ops, fmt.Sprintf("WIf (%s) %s %s", c, coqOps(thenOps, ""), coqOps(elseOps, "")))
}

func (t *pwtr) rangeStmt(v *ast.RangeStmt) []string {
	if v.Tok != token.DEFINE || v.Value == nil {
		bad(v, "range loop is not `for _, x := range xs`")
	}
	if !isIdent(v.Key, "_") {
		bad(v, "range loop is not `for _, x := range xs`")
	}
	x, ok := v.Value.(*ast.Ident)
	if !ok || x.Name == "_" || t.counts[x.Name] || t.bytesv[x.Name] || t.bufs[x.Name] {
		bad(v, "range variable")
	}
	if n, ok := t.localName(v.X); ok && t.lists[n] != nil {
		// unrolled: the loop variable is replaced by each element of the local slice literal
		var ops []string
		for _, el := range t.lists[n] {
			old, had := t.subst[x.Name]
			t.subst[x.Name] = t.norm(el)
			ops = append(ops, t.block(v.Body.List)...)
			if had {
				t.subst[x.Name] = old
			} else {
				delete(t.subst, x.Name)
			}
		}
		return ops
	}
	xs := t.atom(v.X)
	body := t.block(v.Body.List)
	return []string{fmt.Sprintf("WFor %s %s %s", q(x.Name), q(xs), coqOps(body, "  "))}
}

func (t *pwtr) typeSwitch(v *ast.TypeSwitchStmt) []string {
	as, ok := v.Assign.(*ast.AssignStmt)
	if !ok || v.Init != nil || len(as.Lhs) != 1 || len(as.Rhs) != 1 {
		bad(v, "type switch is not `switch t := d.(type)`")
	}
	ta, ok := as.Rhs[0].(*ast.TypeAssertExpr)
	if !ok || ta.Type != nil {
		bad(v, "type switch")
	}
	tv, _ := as.Lhs[0].(*ast.Ident)
	if tv == nil {
		bad(v, "type switch variable")
	}
	d := t.atom(ta.X)
	var cases []string
	def := "[]"
	seenDefault := false
	for _, c := range v.Body.List {
		cc := c.(*ast.CaseClause)
		body := t.block(cc.Body)
		if cc.List == nil {
			def = coqOps(body, "      ")
			seenDefault = true
			continue
		}
		if seenDefault {
			bad(cc, "case after default")
		}
		if len(cc.List) != 1 {
			bad(cc, "case with several types")
		}
		cases = append(cases, fmt.Sprintf("(%s, %s)", q(src(cc.List[0])), coqOps(body, "      ")))
	}
	return []string{fmt.Sprintf("WSwitch %s %s [\n      %s]\n      %s", q(tv.Name), q(d), strings.Join(cases, ";\n      "), def)}
}

func (t *pwtr) stmt(s ast.Stmt) []string {
	switch v := s.(type) {
	case *ast.AssignStmt:
		return t.assign(v)
	case *ast.DeclStmt:
		return t.decl(v)
	case *ast.ExprStmt:
		return t.exprStmt(v)
	case *ast.IfStmt:
		return t.ifStmt(v)
	case *ast.RangeStmt:
		return t.rangeStmt(v)
	case *ast.TypeSwitchStmt:
		return t.typeSwitch(v)
	case *ast.ReturnStmt:
		return t.ret(v)
	case *ast.EmptyStmt:
		return nil
	}
	bad(s, "statement %T outside the fragment", s)
	return nil
}

func (t *pwtr) block(stmts []ast.Stmt) []string {
	t.depth++
	// names declared in a block go out of scope at its end
	sv := [4]map[string]bool{copySet(t.bytesv), copySet(t.bufs), copySet(t.counts), copySet(t.hashes)}
	st, sn, sl, sli, sto, slt := copyMap(t.structs), copyMap(t.nums), copyMap(t.lets), copyMap(t.lists), copyMap(t.typeofs), copyMap(t.ltypes)
	defer func() {
		t.depth--
		t.bytesv, t.bufs, t.counts, t.hashes = sv[0], sv[1], sv[2], sv[3]
		t.structs, t.nums, t.lets, t.lists, t.typeofs, t.ltypes = st, sn, sl, sli, sto, slt
	}()
	var ops []string
	for i, s := range stmts {
		if t.shadow && t.depth > 1 {
			// an `err` declared in a nested block must be checked (or returned) by the very next statement
			ok := false
			if is, isIf := s.(*ast.IfStmt); isIf && is.Init == nil && isErrNotNil(is.Cond) {
				ok = true
			}
			if _, isRet := s.(*ast.ReturnStmt); isRet {
				ok = true
			}
			if !ok {
				// a count update may stand between the call and its check
				if as, isAs := s.(*ast.AssignStmt); !(isAs && len(as.Rhs) == 1 && t.isCountExpr(as.Rhs[0])) {
					bad(s, "block-local err is not checked by the next statement")
				}
			}
		}
		ops = append(ops, t.stmt(s)...)
		if _, isRet := s.(*ast.ReturnStmt); isRet && i != len(stmts)-1 {
			bad(s, "statements after a return")
		}
	}
	if t.depth > 1 {
		t.shadow = false
	}
	return ops
}

func copySet(m map[string]bool) map[string]bool {
	c := map[string]bool{}
	for k, v := range m {
		c[k] = v
	}
	return c
}

func copyMap[V any](m map[string]V) map[string]V {
	c := map[string]V{}
	for k, v := range m {
		c[k] = v
	}
	return c
}

func coqOps(ops []string, indent string) string {
	if len(ops) == 0 {
		return "[]"
	}
	return "[" + strings.Join(ops, ";\n    "+indent) + "]"
}

// ---- constants usable in widths ----
var wconsts = map[string]bool{}

// ---- driver ----

type pwout struct {
	f    *wfunc
	mode string
	ops  []string
	lets [][2]string
	recv string
	why  string
}

func modeOf(f *wfunc) string {
	switch {
	case f.name == "WriteTo":
		return "writer"
	case f.name == "Domain":
		return "string"
	case f.name == "MarshalBinary":
		return "bytes"
	case f.dir == "pkg/hash" && f.name == "WriteAny":
		return "anyerr"
	case f.dir == "pkg/hash" && (f.name == "New" || f.name == "Clone" || f.name == "Fork"):
		return "hash"
	case f.dir == "pkg/hash" && f.name == "Sum":
		return "sum"
	case f.dir == "pkg/hash" && f.name == "Digest":
		return "digest"
	case f.dir == "pkg/hash" && f.name == "Commit":
		return "commit"
	case f.dir == "pkg/hash" && f.name == "Decommit":
		return "decommit"
	}
	return "?"
}

func translateWriter(f *wfunc, called *[]string) (out pwout) {
	out.f = f
	out.mode = modeOf(f)
	defer func() {
		if r := recover(); r != nil {
			u, ok := r.(untranslatable)
			if !ok {
				panic(r)
			}
			out.why = u.why
			out.ops = nil
		}
	}()
	used[fileOf(f.fd)] = true
	t := &pwtr{f: f, mode: out.mode, counts: map[string]bool{}, bufs: map[string]bool{}, bytesv: map[string]bool{}, structs: map[string][]string{},
		nums: map[string]ast.Expr{}, lets: map[string]ast.Expr{}, lists: map[string][]ast.Expr{}, typeofs: map[string]ast.Expr{},
		hashes: map[string]bool{}, ltypes: map[string]string{}, subst: map[string]ast.Expr{}, called: called}
	// the hasher field of hash.Hash
	if ts, _ := findType("pkg/hash", "Hash"); ts != nil {
		if st, ok := ts.Type.(*ast.StructType); ok && len(st.Fields.List) == 1 && len(st.Fields.List[0].Names) == 1 {
			t.hashFld = st.Fields.List[0].Names[0].Name
		}
	}
	if t.hashFld == "" {
		bad(f.fd, "hash.Hash is not a struct with one field")
	}
	if t.mode == "?" {
		bad(f.fd, "no translation mode for this function")
	}
	if f.fd.Recv != nil && len(f.fd.Recv.List[0].Names) == 1 {
		t.recvName = f.fd.Recv.List[0].Names[0].Name
	}
	out.recv = t.recvName
	if f.dir == "pkg/hash" && f.recv == "Hash" {
		t.hashes[t.recvName] = true
	}
	if rs := f.fd.Type.Results; rs != nil {
		for i, r := range rs.List {
			for _, n := range r.Names {
				if isIdent(r.Type, "error") {
					if n.Name != "err" {
						bad(f.fd, "named error result %s", n.Name)
					}
					t.errNamed = true
				} else if t.mode == "writer" && i == 0 {
					t.cntNamed = n.Name
					t.counts[n.Name] = true
				} else {
					bad(f.fd, "named result %s", n.Name)
				}
			}
		}
	}
	if t.mode == "writer" {
		ps := f.fd.Type.Params.List
		if len(ps) != 1 || !isSel(ps[0].Type, "io", "Writer") || t.writerParam() == "" {
			bad(f.fd, "WriteTo does not take one io.Writer")
		}
		if t.writerParam() != "w" {
			bad(f.fd, "the writer parameter is not named w")
		}
	}
	out.ops = t.block(f.fd.Body.List)
	out.lets = t.letList
	return
}

func parseKey(k string) (dir, recv, name string) {
	i := strings.LastIndex(k, ".")
	name = k[i+1:]
	rest := k[:i]
	j := strings.LastIndex(rest, ".")
	// dir never contains a dot; a key has either one or two dots after the directory
	if j >= 0 && !strings.Contains(rest[j+1:], "/") {
		return rest[:j], rest[j+1:], name
	}
	return rest, "", name
}

func genWriters() {
	// constants that may occur as widths: every integer constant of internal/params, and those of the writer packages
	_, vals := guardConsts()
	for k := range vals {
		if strings.HasPrefix(k, "params.") {
			wconsts["internal/params."+strings.TrimPrefix(k, "params.")] = true
		}
		if strings.HasPrefix(k, "hash.") {
			wconsts["pkg/hash."+strings.TrimPrefix(k, "hash.")] = true
		}
	}
	// worklist: pkg/hash functions, every WriteTo and every Domain of the tree, then statically resolved callees
	var work []*wfunc
	seen := map[string]bool{}
	add := func(dir, recv, name string) {
		fd, file := findFuncFile(dir, recv, name)
		f := &wfunc{dir: dir, recv: recv, name: name, fd: fd, file: file}
		if seen[f.key()] {
			return
		}
		seen[f.key()] = true
		work = append(work, f)
	}
	for _, n := range []string{"WriteAny", "Digest", "Sum", "Clone", "Fork", "Commit", "Decommit"} {
		add("pkg/hash", "Hash", n)
	}
	add("pkg/hash", "", "New")
	// Exponent.WriteTo delegates to MarshalBinary today; keep its translation whatever WriteTo calls
	add("pkg/math/polynomial", "Exponent", "MarshalBinary")
	var dirs []string
	for d := range pkgs {
		dirs = append(dirs, d)
	}
	sort.Strings(dirs)
	var writerTypes, domainTypes []string
	for _, meth := range []string{"WriteTo", "Domain"} {
		for _, d := range dirs {
			var names []string
			for _, f := range pkgs[d] {
				for _, dc := range f.Decls {
					fd, ok := dc.(*ast.FuncDecl)
					if !ok || fd.Body == nil || fd.Recv == nil || fd.Name.Name != meth {
						continue
					}
					if meth == "WriteTo" {
						ps := fd.Type.Params.List
						if len(ps) != 1 || !isSel(ps[0].Type, "io", "Writer") {
							continue
						}
					} else if fd.Type.Params.NumFields() != 0 || fd.Type.Results.NumFields() != 1 || !isIdent(fd.Type.Results.List[0].Type, "string") {
						continue
					}
					names = append(names, recvType(fd))
				}
			}
			sort.Strings(names)
			for _, n := range names {
				add(d, n, meth)
				if meth == "WriteTo" {
					writerTypes = append(writerTypes, d+"."+n)
				} else {
					domainTypes = append(domainTypes, d+"."+n)
				}
			}
		}
	}
	var outs []pwout
	var called []string
	for i := 0; i < len(work); i++ {
		f := work[i]
		if f.fd == nil {
			outs = append(outs, pwout{f: f, mode: modeOf(f), why: "function not found"})
			continue
		}
		outs = append(outs, translateWriter(f, &called))
		for _, k := range called {
			if !seen[k] {
				d, r, n := parseKey(k)
				add(d, r, n)
			}
		}
		called = called[:0]
	}

	var sb strings.Builder
	sb.WriteString("From Coq Require Import String List NArith.\nImport ListNotations.\nLocal Open Scope string_scope.\nLocal Open Scope N_scope.\n\n")
	sb.WriteString(`(* write programs translated from function bodies (verifgen/gen_writers.go).  Atoms (EAtom, NVal, NBits, CNil, CEmpty,
   receivers of calls, ranges) are canonical source text of PATHS: x, x.f, x[i], x.f(), T(x).  Locals live in a store of
   byte strings (EVar); "err" is the one error variable.  See Proofs/WritersBase.v for the interpreter. *)
Inductive wexp :=                         (* byte-string valued *)
| EAtom (a : string)                      (* a component of the value in scope; []byte(a) and a[:] are a *)
| EVar (x : string)                       (* a local byte slice / array / bytes.Buffer / field of a local struct *)
| ELit (s : string)                       (* string literal *)
| EMinBytes (a : string)                  (* a.Bytes() of a number: big endian, as short as possible *)
| EDomain (a : string)                    (* a.Domain(), through the interface *)
| ETypeName (a : string).                 (* reflect.TypeOf(a).String() *)
Inductive wnum :=
| NLit (n : N)
| NConst (c : string)                     (* a named integer constant of the source *)
| NLen (e : wexp)                         (* len(e), buf.Len() *)
| NVal (a : string)                       (* a numeric component *)
| NBits (a : string)                      (* a.TrueLen() *)
| NAdd (a b : wnum)
| NConv (bits : N) (a : wnum).            (* uintN(a), intN(a) *)
Inductive wcond :=
| CNil (a : string)                       (* a == nil *)
| CEmpty (a : string)                     (* a == "" *)
| CGt (a b : wnum)                        (* a > b *)
| CNot (c : wcond) | CAnd (a b : wcond) | COr (a b : wcond).
Inductive warg := AAtom (a : string) | ALocal (ty : string) (x : string).
Inductive wop :=
| WFailIf (c : wcond)                                   (* if c { return ..., <non-nil error> } *)
| WFail                                                 (* return ..., <non-nil error> / return false *)
| WCheck                                                (* if err != nil { return ..., err } *)
| WCheckPanic                                           (* if err != nil { panic(..) } *)
| WWrite (dst : string) (e : wexp) (seterr : bool)      (* [_, err =] dst.Write(e) / dst.WriteString(e) *)
| WWriteInt (dst : string) (w : N) (v : wnum) (seterr : bool)   (* [err =] binary.Write(dst, binary.BigEndian, uint<8w>(v)) *)
| WMake (x : string) (n : wnum)                         (* x := make([]byte, n) / var x [n]byte *)
| WNewBuf (x : string)                                  (* var x bytes.Buffer / x := new(bytes.Buffer) *)
| WSet (x : string) (e : wexp)                          (* x = e *)
| WPutInt (w : N) (x : string) (v : wnum)               (* binary.BigEndian.PutUint<8w>(x, uint<8w>(v)) *)
| WFill (x : string) (a : string)                       (* a.FillBytes(x) *)
| WCopy (x : string) (off : N) (e : wexp)               (* copy(x[off:], e) *)
| WMarshal (x : string) (a : string) (seterr : bool)    (* x, err := a.MarshalBinary(), through the interface *)
| WCallB (x : string) (f : string) (a : string) (seterr : bool)   (* x, err := a.M(), M = the translated function f *)
| WGob (x : string) (a : string)                        (* x, _ := a.GobEncode() *)
| WCbor (x : string) (fields : list (string * string * string)) (seterr : bool)
                                                        (* x, err := cbor.Marshal(T{..}): (key, Go type, value) per field *)
| WCall (f : string) (a : string) (dst : string) (seterr : bool)   (* _, err = a.WriteTo(dst), statically the function f *)
| WCallDyn (a : string) (dst : string) (seterr : bool)  (* _, err = a.WriteTo(dst), through the interface *)
| WCount (s : string)                                   (* bookkeeping of the returned byte count: no effect on the bytes *)
| WIf (c : wcond) (a b : list wop)
| WFor (x : string) (range : string) (body : list wop)
| WSwitch (t : string) (d : string) (cases : list (string * list wop)) (default : list wop)
| WReturn (count : string)                              (* return count, nil / return nil *)
| WRetErr (count : string)                              (* return count, err / naked return with named results *)
| WReturnB (es : list wexp)                             (* return e.., nil / return e *)
| WHashNew (x : string)                                 (* x := &Hash{h: blake3.New()} *)
| WHashCopy (x y : string)                              (* &Hash{h: y.h.Clone()} *)
| WHashClone (x y : string)                             (* x := y.Clone() *)
| WAny (h : string) (arg : warg) (spread : bool) (seterr : bool)   (* [err =] h.WriteAny(arg) / h.WriteAny(arg...) *)
| WReadFull (x : string) (h : string)                   (* _, err := io.ReadFull(h.Digest(), x) *)
| WSum (x : string) (h : string)                        (* x := h.Sum() *)
| WRand (x : string) (seterr : bool)                    (* _, err = rand.Read(x) *)
| WTry (a : string)                                     (* err = a   (a call that returns an error) *)
| WRetEq (a b : wexp)                                   (* return bytes.Equal(a, b) *)
| WRetHash (x : string)                                 (* return x  (a *Hash) *)
| WRetDigest (x : string).                              (* return x.h.Digest() *)

`)
	var untr, table, names []string
	for _, o := range outs {
		recv := ""
		if o.f.recv != "" {
			recv = "(" + o.f.recv + ")."
		}
		file := ""
		if o.f.fd != nil {
			file = fileOf(o.f.fd)
		}
		fmt.Fprintf(&sb, "(* %s: %s%s  [%s]  receiver %s *)\n", file, recv, o.f.name, o.mode, o.recv)
		name := o.f.coqName()
		if o.why != "" {
			untr = append(untr, fmt.Sprintf("%s: %s", o.f.key(), o.why))
			fmt.Fprintf(&sb, "Definition %s : list wop := [WCount %s; WFail].\n", name, q("UNTRANSLATABLE: "+o.why))
		} else {
			fmt.Fprintf(&sb, "Definition %s : list wop :=\n   %s.\n", name, coqOps(o.ops, ""))
		}
		var ls []string
		for _, l := range o.lets {
			ls = append(ls, "("+q(l[0])+", "+q(l[1])+")")
		}
		fmt.Fprintf(&sb, "Definition %s_lets : list (string * string) := [%s].\n\n", name, strings.Join(ls, "; "))
		table = append(table, "("+q(o.f.key())+", "+name+")")
		names = append(names, o.f.key())
	}
	sb.WriteString("(* every translated function, by key `dir.Type.Method` *)\nDefinition go_writers : list (string * list wop) := [\n  " +
		strings.Join(table, ";\n  ") + "\n].\n\n")
	sb.WriteString("(* every type of the tree with a method WriteTo(io.Writer) / Domain() string *)\n")
	sb.WriteString("Definition go_writer_types : list string := " + coqStrList(writerTypes) + ".\n")
	sb.WriteString("Definition go_domain_types : list string := " + coqStrList(domainTypes) + ".\n\n")
	sb.WriteString("(* functions whose body is outside the translated fragment (or missing): must be empty *)\n")
	sb.WriteString("Definition writers_untranslatable : list string := " + coqStrList(untr) + ".\n")
	writeFile("Writers.v", sb.String())
	for _, u := range untr {
		fmt.Println("verifgen: writers: UNTRANSLATABLE:", u)
	}
}
