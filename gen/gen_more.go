package main

import (
	"fmt"
	"go/ast"
	"go/token"
	"sort"
	"strconv"
	"strings"
)

func init() {
	extraGens = append(extraGens, genProtocolIDs, genParams, genLocks)
}

// ---- protocol identifiers: every string that ends up in round.Info.ProtocolID ----
func genProtocolIDs() {
	type ent struct{ pkg, val string }
	var ents []ent
	for dir, files := range pkgs {
		if !strings.HasPrefix(dir, "protocols") {
			continue
		}
		consts := map[string]string{}
		for _, f := range files {
			for _, d := range f.Decls {
				gd, ok := d.(*ast.GenDecl)
				if !ok || gd.Tok != token.CONST {
					continue
				}
				for _, sp := range gd.Specs {
					vs := sp.(*ast.ValueSpec)
					for i, n := range vs.Names {
						if i < len(vs.Values) {
							if bl, ok := vs.Values[i].(*ast.BasicLit); ok && bl.Kind == token.STRING {
								consts[n.Name] = strings.Trim(bl.Value, "\"")
							}
						}
					}
				}
			}
		}
		resolve := func(e ast.Expr) (string, bool) {
			switch v := e.(type) {
			case *ast.BasicLit:
				if v.Kind == token.STRING {
					return strings.Trim(v.Value, "\""), true
				}
			case *ast.Ident:
				if s, ok := consts[v.Name]; ok {
					return s, true
				}
			}
			return "", false
		}
		for _, f := range files {
			ast.Inspect(f, func(n ast.Node) bool {
				switch x := n.(type) {
				case *ast.KeyValueExpr:
					if id, ok := x.Key.(*ast.Ident); ok && id.Name == "ProtocolID" {
						if s, ok := resolve(x.Value); ok {
							ents = append(ents, ent{dir, s})
							used[fileOf(x)] = true
						}
					}
				case *ast.AssignStmt:
					for i, l := range x.Lhs {
						if se, ok := l.(*ast.SelectorExpr); ok && se.Sel.Name == "ProtocolID" && i < len(x.Rhs) {
							if s, ok := resolve(x.Rhs[i]); ok {
								ents = append(ents, ent{dir, s})
								used[fileOf(x)] = true
							}
						}
					}
				}
				return true
			})
		}
	}
	seen := map[ent]bool{}
	var uniq []ent
	for _, e := range ents {
		if !seen[e] {
			seen[e] = true
			uniq = append(uniq, e)
		}
	}
	sort.Slice(uniq, func(i, j int) bool {
		if uniq[i].pkg != uniq[j].pkg {
			return uniq[i].pkg < uniq[j].pkg
		}
		return uniq[i].val < uniq[j].val
	})
	var sb strings.Builder
	sb.WriteString("From Coq Require Import String List.\nImport ListNotations.\nLocal Open Scope string_scope.\n\n")
	sb.WriteString("(* (package dir, protocol id) for every value assigned to round.Info.ProtocolID *)\nDefinition go_protocol_ids : list (string * string) := [\n")
	for i, e := range uniq {
		if i > 0 {
			sb.WriteString(";\n")
		}
		fmt.Fprintf(&sb, "  (%s, %s)", coqStr(e.pkg), coqStr(e.val))
	}
	sb.WriteString("\n].\n")
	writeFile("ProtocolIDs.v", sb.String())
}

// ---- integer constants of internal/params ----
func genParams() {
	vals := map[string]int64{}
	var order []string
	var eval func(e ast.Expr) (int64, bool)
	eval = func(e ast.Expr) (int64, bool) {
		switch v := e.(type) {
		case *ast.BasicLit:
			if v.Kind == token.INT {
				n, err := strconv.ParseInt(v.Value, 0, 64)
				return n, err == nil
			}
		case *ast.Ident:
			n, ok := vals[v.Name]
			return n, ok
		case *ast.ParenExpr:
			return eval(v.X)
		case *ast.BinaryExpr:
			a, ok1 := eval(v.X)
			b, ok2 := eval(v.Y)
			if !ok1 || !ok2 {
				return 0, false
			}
			switch v.Op {
			case token.ADD:
				return a + b, true
			case token.SUB:
				return a - b, true
			case token.MUL:
				return a * b, true
			case token.QUO:
				if b != 0 {
					return a / b, true
				}
			}
		}
		return 0, false
	}
	for _, f := range pkgs["internal/params"] {
		for _, d := range f.Decls {
			gd, ok := d.(*ast.GenDecl)
			if !ok || gd.Tok != token.CONST {
				continue
			}
			for _, sp := range gd.Specs {
				vs := sp.(*ast.ValueSpec)
				for i, n := range vs.Names {
					if i < len(vs.Values) {
						if x, ok := eval(vs.Values[i]); ok {
							vals[n.Name] = x
							order = append(order, n.Name)
							used[fileOf(vs)] = true
						}
					}
				}
			}
		}
	}
	var sb strings.Builder
	sb.WriteString("From Coq Require Import ZArith.\nOpen Scope Z_scope.\n\n(* integer constants of internal/params/params.go *)\n")
	for _, n := range order {
		fmt.Fprintf(&sb, "Definition go_param_%s : Z := %d.\n", n, vals[n])
	}
	writeFile("Params.v", sb.String())
}

// ---- lock discipline of the two handlers: which exported methods touch shared state, and whether they lock first ----
func genLocks() {
	type ent struct {
		typ, method     string
		exported, locks bool
		fields          []string
	}
	shared := map[string]bool{"currentRound": true, "round": true, "rounds": true, "err": true, "result": true, "messages": true,
		"broadcast": true, "broadcastHashes": true, "out": true}
	var ents []ent
	for _, f := range pkgs["pkg/protocol"] {
		for _, d := range f.Decls {
			fd, ok := d.(*ast.FuncDecl)
			if !ok || fd.Recv == nil || fd.Body == nil {
				continue
			}
			typ := recvType(fd)
			if typ != "MultiHandler" && typ != "TwoPartyHandler" {
				continue
			}
			recvName := ""
			if len(fd.Recv.List[0].Names) > 0 {
				recvName = fd.Recv.List[0].Names[0].Name
			}
			e := ent{typ: typ, method: fd.Name.Name, exported: ast.IsExported(fd.Name.Name)}
			// locks: the first statement is  h.mtx.Lock()
			if len(fd.Body.List) > 0 {
				if es, ok := fd.Body.List[0].(*ast.ExprStmt); ok {
					if ce, ok := es.X.(*ast.CallExpr); ok {
						if se, ok := ce.Fun.(*ast.SelectorExpr); ok && se.Sel.Name == "Lock" {
							if se2, ok := se.X.(*ast.SelectorExpr); ok && se2.Sel.Name == "mtx" {
								e.locks = true
							}
						}
					}
				}
			}
			fs := map[string]bool{}
			ast.Inspect(fd.Body, func(n ast.Node) bool {
				if se, ok := n.(*ast.SelectorExpr); ok {
					if id, ok := se.X.(*ast.Ident); ok && id.Name == recvName && shared[se.Sel.Name] {
						fs[se.Sel.Name] = true
					}
				}
				return true
			})
			for k := range fs {
				e.fields = append(e.fields, k)
			}
			sort.Strings(e.fields)
			ents = append(ents, e)
			used[fileOf(fd)] = true
		}
	}
	sort.Slice(ents, func(i, j int) bool {
		if ents[i].typ != ents[j].typ {
			return ents[i].typ < ents[j].typ
		}
		return ents[i].method < ents[j].method
	})
	var sb strings.Builder
	sb.WriteString("From Coq Require Import String List Bool.\nImport ListNotations.\nLocal Open Scope string_scope.\n\n")
	sb.WriteString("(* (type, method, exported, takes h.mtx first, shared fields it touches directly) for every method of the two handlers.\n   Unexported methods are only called with the lock held (they are reached from exported ones). *)\n")
	sb.WriteString("Definition go_handler_methods : list (string * string * bool * bool * list string) := [\n")
	for i, e := range ents {
		if i > 0 {
			sb.WriteString(";\n")
		}
		var fl []string
		for _, f := range e.fields {
			fl = append(fl, coqStr(f))
		}
		fmt.Fprintf(&sb, "  (%s, %s, %v, %v, [%s])", coqStr(e.typ), coqStr(e.method), e.exported, e.locks, strings.Join(fl, "; "))
	}
	sb.WriteString("\n].\n")
	writeFile("Locks.v", sb.String())
}
