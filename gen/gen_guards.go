package main

// gen_guards.go -- Generated/Guards.v: the DECISION LOGIC of the handlers and validators, translated from the
// function bodies into a small boolean-expression AST (gexp).  The Coq side (Proofs/GuardsProofs.v,
// Properties/C07_guards.v, C17_guards.v, C19_guards.v, C20_guards.v) interprets these expressions over the MODEL
// state and proves them equal to the model functions, so a changed guard in the code breaks a theorem at once.
//
// Fragment (anything else makes the function "untranslatable", which is itself an obligation `= []` on the Coq side):
//   statements   x := e                      (single new name; recorded in go_<fn>_lets, the name is kept in atoms)
//                var x T                     (declared, assigned later by `x = e`; uses are replaced by the assigned
//                                             expression on each path)
//                x = e                       (only for names declared by `var x T`)
//                if [x := e;] c { S } [else { S }]     (S in the fragment; fall-through continues with the rest)
//                for _, x := range xs { if c { return K } ... }          (K a constant result, the same in every if)
//                for i := a; i < n; i++ { if c { return K } ... }        (likewise; also `<=`)
//                return e
//   conditions   !, &&, ||, parentheses, true, false; every other expression is an ATOM = its canonical source text.
//   loops        become ONE atom "any x in xs: c1 || c2" / "any i in [a, n): c" (the Coq environment interprets it as
//                the corresponding existsb and proves that equal to the model's recursive function).
// Results: mode "bool":  gexp for "returns true";  mode "err": gexp for "returns a nil error";
//          mode "guard": the first statement after the Lock/defer preamble must be `if c { return }`: gexp of c
//                        ("returns early"), plus the preamble and (optionally) the statements after the guard as text;
//          mode "errprefix": like "err" for the statements before a marker statement (NewSession's validation part):
//                        gexp for "no check of the prefix returns an error".
// Purity of the atoms (calls such as h.duplicate(msg)) is NOT checked here: it is part of the trusted reading.

import (
	"bytes"
	"fmt"
	"go/ast"
	"go/printer"
	"go/token"
	"sort"
	"strconv"
	"strings"
)

func init() {
	extraGens = append(extraGens, genGuards)
}

type guardSpec struct {
	dir, recv, fn string // package dir, receiver type ("" = plain function), function name
	mode          string // bool | err | guard | errprefix
	name          string // Coq name suffix: go_<name>
	marker        string // errprefix: canonical text of the first statement AFTER the prefix
	rest          bool   // guard: also emit the statements after the guard
}

var guardSpecs = []guardSpec{
	{dir: "pkg/protocol", recv: "MultiHandler", fn: "canAccept", mode: "bool", name: "MultiHandler_canAccept"},
	{dir: "pkg/protocol", recv: "MultiHandler", fn: "Accept", mode: "guard", name: "MultiHandler_Accept_guard"},
	{dir: "pkg/protocol", recv: "MultiHandler", fn: "Stop", mode: "guard", name: "MultiHandler_Stop_guard", rest: true},
	{dir: "pkg/protocol", recv: "MultiHandler", fn: "duplicate", mode: "bool", name: "MultiHandler_duplicate"},
	{dir: "pkg/protocol", recv: "MultiHandler", fn: "sameBroadcastView", mode: "bool", name: "MultiHandler_sameBroadcastView"},
	{dir: "pkg/protocol", recv: "", fn: "expectsNormalMessage", mode: "bool", name: "expectsNormalMessage"},
	{dir: "pkg/protocol", recv: "TwoPartyHandler", fn: "canAccept", mode: "bool", name: "TwoPartyHandler_canAccept"},
	{dir: "pkg/protocol", recv: "TwoPartyHandler", fn: "Accept", mode: "guard", name: "TwoPartyHandler_Accept_guard"},
	{dir: "pkg/protocol", recv: "TwoPartyHandler", fn: "Stop", mode: "guard", name: "TwoPartyHandler_Stop_guard", rest: true},
	{dir: "pkg/protocol", recv: "TwoPartyHandler", fn: "canAdvance", mode: "bool", name: "TwoPartyHandler_canAdvance"},
	{dir: "pkg/protocol", recv: "Message", fn: "IsFor", mode: "bool", name: "Message_IsFor"},
	{dir: "pkg/hash", recv: "Commitment", fn: "Validate", mode: "err", name: "Commitment_Validate"},
	{dir: "pkg/hash", recv: "Decommitment", fn: "Validate", mode: "err", name: "Decommitment_Validate"},
	{dir: "pkg/party", recv: "IDSlice", fn: "Valid", mode: "bool", name: "IDSlice_Valid"},
	{dir: "internal/round", recv: "", fn: "NewSession", mode: "errprefix", name: "NewSession_checks", marker: "var err error"},
}

// ---- gexp ----
type gexp struct {
	k    byte // 'a' atom, 't', 'f', '!', '&', '|'
	s    string
	a, b *gexp
}

var (
	gT = &gexp{k: 't'}
	gF = &gexp{k: 'f'}
)

func gAtom(s string) *gexp { return &gexp{k: 'a', s: s} }
func gNot(a *gexp) *gexp {
	switch a.k {
	case 't':
		return gF
	case 'f':
		return gT
	case '!':
		return a.a // !!x = x (same value, same definedness)
	}
	return &gexp{k: '!', a: a}
}
func gAnd(a, b *gexp) *gexp {
	if b.k == 't' {
		return a // a && true
	}
	if a.k == 't' {
		return b
	}
	return &gexp{k: '&', a: a, b: b}
}
func gOr(a, b *gexp) *gexp {
	if b.k == 'f' {
		return a // a || false
	}
	if a.k == 'f' {
		return b
	}
	return &gexp{k: '|', a: a, b: b}
}

// if c then a else b, with Go's evaluation order (c first)
func gIte(c, a, b *gexp) *gexp {
	switch {
	case c.k == 't':
		return a
	case c.k == 'f':
		return b
	case a.k == 't':
		return gOr(c, b)
	case a.k == 'f':
		return gAnd(gNot(c), b)
	case b.k == 't':
		return gOr(gNot(c), a)
	case b.k == 'f':
		return gAnd(c, a)
	}
	return gOr(gAnd(c, a), gAnd(gNot(c), b))
}

func (g *gexp) coq() string {
	switch g.k {
	case 'a':
		return "GAtom " + coqStr(g.s)
	case 't':
		return "GTrue"
	case 'f':
		return "GFalse"
	case '!':
		return "GNot (" + g.a.coq() + ")"
	case '&':
		return "GAnd (" + g.a.coq() + ")\n    (" + g.b.coq() + ")"
	default:
		return "GOr (" + g.a.coq() + ")\n    (" + g.b.coq() + ")"
	}
}

func (g *gexp) atoms(out map[string]bool) {
	switch g.k {
	case 'a':
		out[g.s] = true
	case '!':
		g.a.atoms(out)
	case '&', '|':
		g.a.atoms(out)
		g.b.atoms(out)
	}
}

// ---- translation ----
type untranslatable struct{ why string }

func bad(n ast.Node, format string, args ...interface{}) {
	pos := ""
	if n != nil {
		p := fset.Position(n.Pos())
		pos = fmt.Sprintf(" (line %d)", p.Line)
	}
	panic(untranslatable{fmt.Sprintf(format, args...) + pos})
}

type gtr struct {
	mode     string
	lets     [][2]string         // (name, defining expression) in order of appearance
	declared map[string]bool     // names bound by := (must be unique) or var
	vars     map[string]bool     // names declared by `var x T`
	params   map[string]bool     // receiver and parameter names
	subst    map[string]ast.Expr // current path: var name -> assigned expression (already substituted)
}

// cloneExpr rebuilds e without positions (so that it prints on one line) and replaces assigned `var` names.
func (t *gtr) cloneExpr(e ast.Expr) ast.Expr {
	switch v := e.(type) {
	case nil:
		return nil
	case *ast.Ident:
		if t.vars[v.Name] {
			if r, ok := t.subst[v.Name]; ok {
				return r
			}
			bad(v, "variable %s read before it is assigned", v.Name)
		}
		return &ast.Ident{Name: v.Name}
	case *ast.BasicLit:
		return &ast.BasicLit{Kind: v.Kind, Value: v.Value}
	case *ast.ParenExpr:
		return &ast.ParenExpr{X: t.cloneExpr(v.X)}
	case *ast.SelectorExpr:
		return &ast.SelectorExpr{X: t.cloneExpr(v.X), Sel: &ast.Ident{Name: v.Sel.Name}}
	case *ast.IndexExpr:
		return &ast.IndexExpr{X: t.cloneExpr(v.X), Index: t.cloneExpr(v.Index)}
	case *ast.StarExpr:
		return &ast.StarExpr{X: t.cloneExpr(v.X)}
	case *ast.UnaryExpr:
		if v.Op == token.ARROW || v.Op == token.AND {
			bad(v, "operator %s in a condition", v.Op)
		}
		return &ast.UnaryExpr{Op: v.Op, X: t.cloneExpr(v.X)}
	case *ast.BinaryExpr:
		return &ast.BinaryExpr{X: t.cloneExpr(v.X), Op: v.Op, Y: t.cloneExpr(v.Y)}
	case *ast.CallExpr:
		c := &ast.CallExpr{Fun: t.cloneExpr(v.Fun)}
		for _, a := range v.Args {
			c.Args = append(c.Args, t.cloneExpr(a))
		}
		if v.Ellipsis != token.NoPos {
			c.Ellipsis = 1
		}
		return c
	case *ast.TypeAssertExpr:
		return &ast.TypeAssertExpr{X: t.cloneExpr(v.X), Type: t.cloneExpr(v.Type)}
	case *ast.ArrayType:
		return &ast.ArrayType{Len: t.cloneExpr(v.Len), Elt: t.cloneExpr(v.Elt)}
	}
	bad(e, "expression %T outside the fragment", e)
	return nil
}

func printNode(n interface{}) string {
	var b bytes.Buffer
	if err := printer.Fprint(&b, token.NewFileSet(), n); err != nil {
		panic(untranslatable{"printer: " + err.Error()})
	}
	return strings.Join(strings.Fields(b.String()), " ")
}

func (t *gtr) text(e ast.Expr) string { return printNode(t.cloneExpr(e)) }

// condition -> gexp
func (t *gtr) cond(e ast.Expr) *gexp {
	switch v := e.(type) {
	case *ast.ParenExpr:
		return t.cond(v.X)
	case *ast.UnaryExpr:
		if v.Op == token.NOT {
			return gNot(t.cond(v.X))
		}
	case *ast.BinaryExpr:
		if v.Op == token.LAND {
			return gAnd(t.cond(v.X), t.cond(v.Y))
		}
		if v.Op == token.LOR {
			return gOr(t.cond(v.X), t.cond(v.Y))
		}
	case *ast.Ident:
		if v.Name == "true" {
			return gT
		}
		if v.Name == "false" {
			return gF
		}
	}
	return gAtom(t.text(e))
}

func (t *gtr) define(id *ast.Ident, rhs ast.Expr) {
	if id.Name == "_" {
		bad(id, "blank definition")
	}
	txt := t.text(rhs)
	for _, l := range t.lets {
		if l[0] == id.Name && l[1] == txt && !t.vars[id.Name] {
			return // the same binding reached again on another path
		}
	}
	if t.declared[id.Name] || t.params[id.Name] {
		bad(id, "name %s bound twice", id.Name)
	}
	t.declared[id.Name] = true
	t.lets = append(t.lets, [2]string{id.Name, txt})
}

// constant result of a return statement: 't' / 'f' (bool: literal; err: nil / non-nil error), 0 if not constant
func (t *gtr) constResult(r *ast.ReturnStmt) byte {
	if len(r.Results) == 0 {
		return 0
	}
	last := r.Results[len(r.Results)-1]
	switch t.mode {
	case "bool":
		if id, ok := last.(*ast.Ident); ok && len(r.Results) == 1 {
			if id.Name == "true" {
				return 't'
			}
			if id.Name == "false" {
				return 'f'
			}
		}
		return 0
	default: // err, errprefix: "returns a nil error"
		if id, ok := last.(*ast.Ident); ok && id.Name == "nil" {
			return 't'
		}
		// a non-nil error: a call constructing one (fmt.Errorf, errors.New) or a named error value is NOT decidable here,
		// only constructor calls are accepted
		if ce, ok := last.(*ast.CallExpr); ok {
			if se, ok := ce.Fun.(*ast.SelectorExpr); ok {
				if x, ok := se.X.(*ast.Ident); ok && ((x.Name == "fmt" && se.Sel.Name == "Errorf") || (x.Name == "errors" && se.Sel.Name == "New")) {
					return 'f'
				}
			}
		}
		return 0
	}
}

func (t *gtr) leaf(r *ast.ReturnStmt) *gexp {
	switch t.constResult(r) {
	case 't':
		return gT
	case 'f':
		return gF
	}
	if t.mode == "bool" && len(r.Results) == 1 {
		return t.cond(r.Results[0])
	}
	bad(r, "return value outside the fragment")
	return nil
}

// loop body: a sequence of `if c { return K }` with one constant K; returns the disjunction text and K
func (t *gtr) loopBody(body *ast.BlockStmt) (string, byte) {
	if len(body.List) == 0 {
		bad(body, "empty loop body")
	}
	var parts []string
	var k byte
	for _, s := range body.List {
		is, ok := s.(*ast.IfStmt)
		if !ok || is.Init != nil || is.Else != nil || len(is.Body.List) != 1 {
			bad(s, "loop body statement is not `if c { return K }`")
		}
		r, ok := is.Body.List[0].(*ast.ReturnStmt)
		if !ok {
			bad(s, "loop body statement is not `if c { return K }`")
		}
		c := t.constResult(r)
		if c == 0 {
			bad(r, "loop returns a non-constant result")
		}
		if k != 0 && k != c {
			bad(r, "loop returns different results")
		}
		k = c
		parts = append(parts, t.text(is.Cond))
	}
	return strings.Join(parts, " || "), k
}

func constLeaf(k byte) *gexp {
	if k == 't' {
		return gT
	}
	return gF
}

func (t *gtr) withSubst(f func() *gexp) *gexp {
	saved := map[string]ast.Expr{}
	for k, v := range t.subst {
		saved[k] = v
	}
	g := f()
	t.subst = saved
	return g
}

// seq: gexp for "the result is true / nil" of executing the statements (which must end in a return on every path)
func (t *gtr) seq(stmts []ast.Stmt, end func() *gexp) *gexp {
	if len(stmts) == 0 {
		return end()
	}
	s, rest := stmts[0], stmts[1:]
	switch v := s.(type) {
	case *ast.ReturnStmt:
		return t.leaf(v)
	case *ast.AssignStmt:
		if len(v.Lhs) != 1 || len(v.Rhs) != 1 {
			bad(v, "multiple assignment")
		}
		id, ok := v.Lhs[0].(*ast.Ident)
		if !ok {
			bad(v, "assignment to a non-local")
		}
		switch v.Tok {
		case token.DEFINE:
			t.define(id, v.Rhs[0])
		case token.ASSIGN:
			if !t.vars[id.Name] {
				bad(v, "assignment to %s, which is not declared by `var`", id.Name)
			}
			t.subst[id.Name] = t.cloneExpr(v.Rhs[0])
		default:
			bad(v, "assignment operator %s", v.Tok)
		}
		return t.seq(rest, end)
	case *ast.DeclStmt:
		gd, ok := v.Decl.(*ast.GenDecl)
		if !ok || gd.Tok != token.VAR {
			bad(v, "declaration outside the fragment")
		}
		for _, sp := range gd.Specs {
			vs := sp.(*ast.ValueSpec)
			if len(vs.Values) != 0 {
				bad(v, "var with initial value")
			}
			for _, n := range vs.Names {
				if t.declared[n.Name] || t.params[n.Name] {
					bad(n, "name %s bound twice", n.Name)
				}
				t.declared[n.Name] = true
				t.vars[n.Name] = true
			}
		}
		return t.seq(rest, end)
	case *ast.IfStmt:
		if v.Init != nil {
			as, ok := v.Init.(*ast.AssignStmt)
			if !ok || as.Tok != token.DEFINE || len(as.Lhs) != 1 || len(as.Rhs) != 1 {
				bad(v.Init, "if-initialiser outside the fragment")
			}
			id, ok := as.Lhs[0].(*ast.Ident)
			if !ok {
				bad(v.Init, "if-initialiser outside the fragment")
			}
			t.define(id, as.Rhs[0])
		}
		c := t.cond(v.Cond)
		cont := func() *gexp { return t.seq(rest, end) }
		thenG := t.withSubst(func() *gexp { return t.seq(v.Body.List, cont) })
		var elseG *gexp
		switch e := v.Else.(type) {
		case nil:
			elseG = t.withSubst(cont)
		case *ast.BlockStmt:
			elseG = t.withSubst(func() *gexp { return t.seq(e.List, cont) })
		case *ast.IfStmt:
			elseG = t.withSubst(func() *gexp { return t.seq([]ast.Stmt{e}, cont) })
		default:
			bad(v, "else branch outside the fragment")
		}
		return gIte(c, thenG, elseG)
	case *ast.RangeStmt:
		if v.Tok != token.DEFINE || v.Value == nil {
			bad(v, "range loop is not `for _, x := range xs`")
		}
		if k, ok := v.Key.(*ast.Ident); !ok || k.Name != "_" {
			bad(v, "range loop is not `for _, x := range xs`")
		}
		x, ok := v.Value.(*ast.Ident)
		if !ok || t.declared[x.Name] || t.params[x.Name] {
			bad(v, "range variable")
		}
		xs := t.text(v.X)
		body, k := t.loopBody(v.Body)
		atom := gAtom(fmt.Sprintf("any %s in %s: %s", x.Name, xs, body))
		return gIte(atom, constLeaf(k), t.seq(rest, end))
	case *ast.ForStmt:
		ini, ok1 := v.Init.(*ast.AssignStmt)
		cnd, ok2 := v.Cond.(*ast.BinaryExpr)
		pst, ok3 := v.Post.(*ast.IncDecStmt)
		if !ok1 || !ok2 || !ok3 || ini.Tok != token.DEFINE || len(ini.Lhs) != 1 || len(ini.Rhs) != 1 || pst.Tok != token.INC {
			bad(v, "for loop is not `for i := a; i < n; i++`")
		}
		i, ok := ini.Lhs[0].(*ast.Ident)
		ci, okc := cnd.X.(*ast.Ident)
		pi, okp := pst.X.(*ast.Ident)
		if !ok || !okc || !okp || ci.Name != i.Name || pi.Name != i.Name || (cnd.Op != token.LSS && cnd.Op != token.LEQ) ||
			t.declared[i.Name] || t.params[i.Name] {
			bad(v, "for loop is not `for i := a; i < n; i++`")
		}
		closing := ")"
		if cnd.Op == token.LEQ {
			closing = "]"
		}
		body, k := t.loopBody(v.Body)
		atom := gAtom(fmt.Sprintf("any %s in [%s, %s%s: %s", i.Name, t.text(ini.Rhs[0]), t.text(cnd.Y), closing, body))
		return gIte(atom, constLeaf(k), t.seq(rest, end))
	case *ast.BlockStmt:
		return t.seq(append(append([]ast.Stmt{}, v.List...), rest...), end)
	case *ast.EmptyStmt:
		return t.seq(rest, end)
	}
	bad(s, "statement %T outside the fragment", s)
	return nil
}

func stmtText(s ast.Stmt) string {
	if d, ok := s.(*ast.DeferStmt); ok {
		if _, ok := d.Call.Fun.(*ast.FuncLit); ok {
			return "defer func() {...}()"
		}
	}
	var b bytes.Buffer
	printer.Fprint(&b, fset, s)
	return strings.Join(strings.Fields(b.String()), " ")
}

func isPreamble(s ast.Stmt) bool {
	switch v := s.(type) {
	case *ast.DeferStmt:
		return true
	case *ast.ExprStmt:
		// h.mtx.Lock()
		if ce, ok := v.X.(*ast.CallExpr); ok && len(ce.Args) == 0 {
			if se, ok := ce.Fun.(*ast.SelectorExpr); ok && se.Sel.Name == "Lock" {
				if se2, ok := se.X.(*ast.SelectorExpr); ok && se2.Sel.Name == "mtx" {
					return true
				}
			}
		}
	}
	return false
}

type guardOut struct {
	spec     guardSpec
	g        *gexp
	lets     [][2]string
	preamble []string
	rest     []string
	why      string // non-empty: untranslatable
	file     string
}

func findFunc(dir, recv, name string) *ast.FuncDecl {
	for _, f := range pkgs[dir] {
		for _, d := range f.Decls {
			fd, ok := d.(*ast.FuncDecl)
			if !ok || fd.Name.Name != name || fd.Body == nil {
				continue
			}
			if recvType(fd) == recv {
				return fd
			}
		}
	}
	return nil
}

func translateGuard(sp guardSpec) (out guardOut) {
	out.spec = sp
	fd := findFunc(sp.dir, sp.recv, sp.fn)
	if fd == nil {
		out.why = "function not found"
		return
	}
	used[fileOf(fd)] = true
	out.file = fileOf(fd)
	defer func() {
		if r := recover(); r != nil {
			u, ok := r.(untranslatable)
			if !ok {
				panic(r)
			}
			out.why = u.why
			out.g = nil
		}
	}()
	t := &gtr{mode: sp.mode, declared: map[string]bool{}, vars: map[string]bool{}, params: map[string]bool{}, subst: map[string]ast.Expr{}}
	if fd.Recv != nil {
		for _, f := range fd.Recv.List {
			for _, n := range f.Names {
				t.params[n.Name] = true
			}
		}
	}
	for _, f := range fd.Type.Params.List {
		for _, n := range f.Names {
			t.params[n.Name] = true
		}
	}
	// result type sanity
	res := fd.Type.Results
	lastResult := func() string {
		if res == nil || len(res.List) == 0 {
			return ""
		}
		return printNode(res.List[len(res.List)-1].Type)
	}
	noEnd := func() *gexp { bad(fd, "control reaches the end of the function"); return nil }
	switch sp.mode {
	case "bool":
		if res == nil || len(res.List) != 1 || lastResult() != "bool" {
			bad(fd, "not a bool-returning function")
		}
		out.g = t.seq(fd.Body.List, noEnd)
	case "err":
		if lastResult() != "error" {
			bad(fd, "last result is not error")
		}
		out.g = t.seq(fd.Body.List, noEnd)
	case "errprefix":
		if lastResult() != "error" {
			bad(fd, "last result is not error")
		}
		k := -1
		for i, s := range fd.Body.List {
			if stmtText(s) == sp.marker {
				k = i
				break
			}
		}
		if k < 0 {
			bad(fd, "marker statement `%s` not found", sp.marker)
		}
		out.g = t.seq(fd.Body.List[:k], func() *gexp { return gT })
	case "guard":
		if res != nil && len(res.List) != 0 {
			bad(fd, "guard mode needs a function without results")
		}
		i := 0
		for i < len(fd.Body.List) && isPreamble(fd.Body.List[i]) {
			out.preamble = append(out.preamble, stmtText(fd.Body.List[i]))
			i++
		}
		if i >= len(fd.Body.List) {
			bad(fd, "no statement after the preamble")
		}
		is, ok := fd.Body.List[i].(*ast.IfStmt)
		if !ok || is.Init != nil || is.Else != nil || len(is.Body.List) != 1 {
			bad(fd.Body.List[i], "first statement after the preamble is not `if c { return }`")
		}
		if r, ok := is.Body.List[0].(*ast.ReturnStmt); !ok || len(r.Results) != 0 {
			bad(is, "first statement after the preamble is not `if c { return }`")
		}
		out.g = t.cond(is.Cond)
		for _, s := range fd.Body.List[i+1:] {
			out.rest = append(out.rest, stmtText(s))
		}
	default:
		bad(fd, "unknown mode %s", sp.mode)
	}
	out.lets = t.lets
	return
}

// integer constants usable in atoms: internal/params and `const X = <expr over params>` of pkg/hash
func guardConsts() (names []string, vals map[string]int64) {
	vals = map[string]int64{}
	var eval func(prefix string, e ast.Expr) (int64, bool)
	eval = func(prefix string, e ast.Expr) (int64, bool) {
		switch v := e.(type) {
		case *ast.BasicLit:
			if v.Kind == token.INT {
				n, err := strconv.ParseInt(v.Value, 0, 64)
				return n, err == nil
			}
		case *ast.Ident:
			n, ok := vals[prefix+v.Name]
			return n, ok
		case *ast.SelectorExpr:
			if x, ok := v.X.(*ast.Ident); ok {
				n, ok := vals[x.Name+"."+v.Sel.Name]
				return n, ok
			}
		case *ast.ParenExpr:
			return eval(prefix, v.X)
		case *ast.BinaryExpr:
			a, ok1 := eval(prefix, v.X)
			b, ok2 := eval(prefix, v.Y)
			if ok1 && ok2 {
				switch v.Op {
				case token.ADD:
					return a + b, true
				case token.SUB:
					return a - b, true
				case token.MUL:
					return a * b, true
				case token.QUO:
					if b != 0 {
						return a / b, true
					}
				}
			}
		}
		return 0, false
	}
	scan := func(dir, prefix string, want func(string) bool) {
		for _, f := range pkgs[dir] {
			for _, d := range f.Decls {
				gd, ok := d.(*ast.GenDecl)
				if !ok || gd.Tok != token.CONST {
					continue
				}
				for _, sp := range gd.Specs {
					vs := sp.(*ast.ValueSpec)
					for i, n := range vs.Names {
						if i < len(vs.Values) {
							if x, ok := eval(prefix, vs.Values[i]); ok {
								vals[prefix+n.Name] = x
								if want(n.Name) {
									names = append(names, prefix+n.Name)
									used[fileOf(vs)] = true
								}
							}
						}
					}
				}
			}
		}
	}
	scan("internal/params", "params.", func(string) bool { return false })
	scan("pkg/hash", "hash.", func(n string) bool { return n == "DigestLengthBytes" })
	return
}

func coqStrList(l []string) string {
	var q []string
	for _, s := range l {
		q = append(q, coqStr(s))
	}
	return "[" + strings.Join(q, "; ") + "]"
}

func genGuards() {
	var sb strings.Builder
	sb.WriteString("From Coq Require Import String List ZArith.\nImport ListNotations.\nLocal Open Scope string_scope.\n\n")
	sb.WriteString("(* boolean decision expressions translated from function bodies; atoms are the canonical source text of the\n" +
		"   comparison / call leaves (receiver, parameter and local names kept; locals are listed in go_<fn>_lets).\n" +
		"   Evaluation order is Go's: left to right, short-circuit (see geval in Proofs/GuardsProofs.v). *)\n")
	sb.WriteString("Inductive gexp := GAtom (s : string) | GTrue | GFalse | GNot (e : gexp) | GAnd (a b : gexp) | GOr (a b : gexp).\n\n")
	var untr, untrNames []string
	var table []string
	allAtoms := map[string]bool{}
	for _, sp := range guardSpecs {
		o := translateGuard(sp)
		what := map[string]string{"bool": "returns true", "err": "returns a nil error", "guard": "returns early (guard of the first if after the Lock/defer preamble)",
			"errprefix": "no check before `" + sp.marker + "` returns an error"}[sp.mode]
		recv := sp.recv
		if recv != "" {
			recv = "(" + recv + ")."
		}
		fmt.Fprintf(&sb, "(* %s: %s%s -- %s *)\n", o.file, recv, sp.fn, what)
		if o.why != "" {
			untr = append(untr, fmt.Sprintf("%s %s%s: %s", sp.dir, recv, sp.fn, o.why))
			untrNames = append(untrNames, sp.name)
			fmt.Fprintf(&sb, "Definition go_%s : gexp := GAtom %s.\n", sp.name, coqStr("UNTRANSLATABLE: "+o.why))
			fmt.Fprintf(&sb, "Definition go_%s_lets : list (string * string) := [].\n", sp.name)
			if sp.mode == "guard" {
				fmt.Fprintf(&sb, "Definition go_%s_preamble : list string := [].\n", sp.name)
				if sp.rest {
					fmt.Fprintf(&sb, "Definition go_%s_rest : list string := [].\n", sp.name)
				}
			}
			sb.WriteString("\n")
			continue
		}
		fmt.Fprintf(&sb, "Definition go_%s : gexp :=\n  %s.\n", sp.name, o.g.coq())
		var ls []string
		for _, l := range o.lets {
			ls = append(ls, "("+coqStr(l[0])+", "+coqStr(l[1])+")")
		}
		fmt.Fprintf(&sb, "Definition go_%s_lets : list (string * string) := [%s].\n", sp.name, strings.Join(ls, "; "))
		if sp.mode == "guard" {
			fmt.Fprintf(&sb, "Definition go_%s_preamble : list string := %s.\n", sp.name, coqStrList(o.preamble))
			if sp.rest {
				fmt.Fprintf(&sb, "Definition go_%s_rest : list string := %s.\n", sp.name, coqStrList(o.rest))
			}
		}
		sb.WriteString("\n")
		o.g.atoms(allAtoms)
		table = append(table, "("+coqStr(sp.name)+", go_"+sp.name+")")
	}
	names, vals := guardConsts()
	sb.WriteString("(* integer constants that occur in atoms *)\n")
	for _, n := range names {
		fmt.Fprintf(&sb, "Definition go_const_%s : Z := %d%%Z.\n", strings.ReplaceAll(n, ".", "_"), vals[n])
	}
	sb.WriteString("\n(* every translated function *)\nDefinition go_guards : list (string * gexp) := [\n  " + strings.Join(table, ";\n  ") + "\n].\n\n")
	var at []string
	for a := range allAtoms {
		at = append(at, a)
	}
	sort.Strings(at)
	sb.WriteString("(* every atom that occurs above (sorted) *)\nDefinition go_guard_atoms : list string := [\n")
	for i, a := range at {
		if i > 0 {
			sb.WriteString(";\n")
		}
		sb.WriteString("  " + coqStr(a))
	}
	sb.WriteString("\n].\n\n")
	sb.WriteString("(* listed functions whose body is outside the translated fragment (or missing): must be empty *)\n")
	sb.WriteString("Definition guards_untranslatable : list string := " + coqStrList(untr) + ".\n")
	sb.WriteString("(* the same, by name in go_guards *)\nDefinition guards_untranslatable_names : list string := " + coqStrList(untrNames) + ".\n")
	writeFile("Guards.v", sb.String())
	for _, u := range untr {
		fmt.Println("verifgen: guards: UNTRANSLATABLE:", u)
	}
}
