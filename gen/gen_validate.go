package main

// gen_validate.go -- Generated/Validators.v: the restore-time validation of stored key material (C15) and the
// start-time guards of every protocol entry point (C20), translated from the function bodies into the gexp type of
// Generated/Guards.v.  Same idea as gen_guards.go / gen_zk.go; the fragment is wider ("w-modes"):
//
//   result modes   wbool    bool function:               gexp for "returns true"
//                  werr     last result is error:        gexp for "returns a nil error"
//                  wsess    the function is `return func(sessionID []byte) (round.Session, error) { B }`; B is translated:
//                                                        gexp for "returns a session and a nil error"
//                  wstart   result protocol.StartFunc:   gexp for "the returned StartFunc is not a constant refusal";
//                                                        `return startError(..)` and `return func(..) (.., error) { return nil, e }`
//                                                        are refusals, `return pkg.Start..(args)` is the ATOM "pkg.Start..(args)"
//   statements     return e          werr: nil / fmt.Errorf / errors.New / package sentinel / `err` inside `if err != nil { }` are
//                                    constants; `return f(x)` (an error-valued call) is the atom "f(x) == nil"
//                  if [init;] c { S } [else { S' }]     with a return inside: any shape; a branch may fall through to the
//                                    statements that follow (the atoms of c carry " where <init>")
//                  for .. range / for i := a; i < n; i++   with a return inside:
//                       simple body (every returning statement is `if [init;] c { return K }`, one constant K):
//                                    ONE atom "any x in xs: [step] c1 || (c2 where init)"   (as in gen_zk.go)
//                       any other body: the atom "every <head>: go_<name>_loop<k>" and a SEPARATE gexp go_<name>_loop<k> for
//                                    "one iteration completes without returning" (`continue` and falling off the end complete
//                                    it; a return must be a refusal)
//                  defer f()         recorded as a step with its full text (the recover handlers)
//                  any other statement without a return: a STEP (not interpreted; canonical text in go_<name>_trace)
//   go_<name>_trace  the ordered skeleton of the body (do / if / else / loop / return), as in gen_zk.go
//   go_<name>_lits   every composite literal of type round.Info / keygen.Config in the function, as (field, value) lists:
//                    what a start function hands to NewSession / to the generic signing code
//   go_<name>_body   (mode text) the canonical text of a helper's body (startError)

import (
	"fmt"
	"go/ast"
	"go/token"
	"sort"
	"strings"
)

func init() {
	extraGens = append(extraGens, genValidators)
}

type wspec struct {
	dir, recv, fn string
	mode          string // wbool | werr | wsess | wstart | text
	name          string
	lits          bool
}

var wspecs = []wspec{
	// ---- C15: restore-time validation
	{dir: "internal/types", recv: "RID", fn: "Validate", mode: "werr", name: "RID_Validate"},
	{dir: "protocols/frost/keygen", recv: "Config", fn: "Validate", mode: "werr", name: "frost_Config_Validate"},
	{dir: "protocols/frost/keygen", recv: "Config", fn: "UnmarshalCBOR", mode: "werr", name: "frost_Config_UnmarshalCBOR"},
	{dir: "protocols/frost/keygen", recv: "TaprootConfig", fn: "Validate", mode: "werr", name: "frost_TaprootConfig_Validate"},
	{dir: "protocols/frost/keygen", recv: "TaprootConfig", fn: "UnmarshalCBOR", mode: "werr", name: "frost_TaprootConfig_UnmarshalCBOR"},
	{dir: "protocols/doerner/keygen", fn: "validateConfig", mode: "werr", name: "doerner_validateConfig"},
	{dir: "protocols/doerner/keygen", recv: "ConfigReceiver", fn: "Validate", mode: "werr", name: "doerner_ConfigReceiver_Validate"},
	{dir: "protocols/doerner/keygen", recv: "ConfigReceiver", fn: "UnmarshalCBOR", mode: "werr", name: "doerner_ConfigReceiver_UnmarshalCBOR"},
	{dir: "protocols/doerner/keygen", recv: "ConfigSender", fn: "Validate", mode: "werr", name: "doerner_ConfigSender_Validate"},
	{dir: "protocols/doerner/keygen", recv: "ConfigSender", fn: "UnmarshalCBOR", mode: "werr", name: "doerner_ConfigSender_UnmarshalCBOR"},
	{dir: "protocols/cmp/config", recv: "Config", fn: "UnmarshalBinary", mode: "werr", name: "cmp_Config_UnmarshalBinary"},
	{dir: "pkg/ecdsa", recv: "PreSignature", fn: "Validate", mode: "werr", name: "ecdsa_PreSignature_Validate"},
	{dir: "pkg/ecdsa", recv: "PreSignature", fn: "UnmarshalCBOR", mode: "werr", name: "ecdsa_PreSignature_UnmarshalCBOR"},
	{dir: "pkg/ecdsa", recv: "Signature", fn: "Validate", mode: "werr", name: "ecdsa_Signature_Validate"},
	{dir: "pkg/ecdsa", recv: "Signature", fn: "UnmarshalCBOR", mode: "werr", name: "ecdsa_Signature_UnmarshalCBOR"},
	{dir: "pkg/math/polynomial", recv: "Exponent", fn: "UnmarshalBinary", mode: "werr", name: "polynomial_Exponent_UnmarshalBinary"},
	{dir: "pkg/protocol", recv: "Message", fn: "UnmarshalBinary", mode: "werr", name: "protocol_Message_UnmarshalBinary"},
	{dir: "pkg/taproot", recv: "PublicKey", fn: "Verify", mode: "wbool", name: "taproot_PublicKey_Verify"},
	// ---- C20: start-time guards
	{dir: "protocols/cmp/config", fn: "ValidThreshold", mode: "wbool", name: "cmp_ValidThreshold"},
	{dir: "protocols/cmp/config", recv: "Config", fn: "CanSign", mode: "wbool", name: "cmp_Config_CanSign"},
	{dir: "protocols/cmp/config", recv: "Config", fn: "ValidateBasic", mode: "werr", name: "cmp_Config_ValidateBasic"},
	{dir: "protocols/cmp", fn: "Keygen", mode: "wstart", name: "cmp_Keygen", lits: true},
	{dir: "protocols/cmp", fn: "Refresh", mode: "wstart", name: "cmp_Refresh", lits: true},
	{dir: "protocols/cmp", fn: "Sign", mode: "wstart", name: "cmp_Sign", lits: true},
	{dir: "protocols/cmp", fn: "Presign", mode: "wstart", name: "cmp_Presign", lits: true},
	{dir: "protocols/cmp", fn: "PresignOnline", mode: "wstart", name: "cmp_PresignOnline", lits: true},
	{dir: "protocols/cmp/keygen", fn: "Start", mode: "wsess", name: "cmp_keygen_Start", lits: true},
	{dir: "protocols/cmp/sign", fn: "StartSign", mode: "wsess", name: "cmp_sign_StartSign", lits: true},
	{dir: "protocols/cmp/presign", fn: "StartPresign", mode: "wsess", name: "cmp_presign_StartPresign", lits: true},
	{dir: "protocols/cmp/presign", fn: "StartPresignOnline", mode: "wsess", name: "cmp_presign_StartPresignOnline", lits: true},
	{dir: "protocols/frost", fn: "startError", mode: "text", name: "frost_startError"},
	{dir: "protocols/frost", fn: "sameParties", mode: "wbool", name: "frost_sameParties"},
	{dir: "protocols/frost", fn: "Keygen", mode: "wstart", name: "frost_Keygen", lits: true},
	{dir: "protocols/frost", fn: "KeygenTaproot", mode: "wstart", name: "frost_KeygenTaproot", lits: true},
	{dir: "protocols/frost", fn: "Refresh", mode: "wstart", name: "frost_Refresh", lits: true},
	{dir: "protocols/frost", fn: "RefreshTaproot", mode: "wstart", name: "frost_RefreshTaproot", lits: true},
	{dir: "protocols/frost", fn: "Sign", mode: "wstart", name: "frost_Sign", lits: true},
	{dir: "protocols/frost", fn: "SignTaproot", mode: "wstart", name: "frost_SignTaproot", lits: true},
	{dir: "protocols/frost/keygen", fn: "StartKeygenCommon", mode: "wsess", name: "frost_keygen_StartKeygenCommon", lits: true},
	{dir: "protocols/frost/sign", fn: "StartSignCommon", mode: "wsess", name: "frost_sign_StartSignCommon", lits: true},
	{dir: "protocols/doerner", fn: "startError", mode: "text", name: "doerner_startError"},
	{dir: "protocols/doerner", fn: "Keygen", mode: "wstart", name: "doerner_Keygen", lits: true},
	{dir: "protocols/doerner", fn: "RefreshReceiver", mode: "wstart", name: "doerner_RefreshReceiver", lits: true},
	{dir: "protocols/doerner", fn: "RefreshSender", mode: "wstart", name: "doerner_RefreshSender", lits: true},
	{dir: "protocols/doerner", fn: "SignReceiver", mode: "wstart", name: "doerner_SignReceiver", lits: true},
	{dir: "protocols/doerner", fn: "SignSender", mode: "wstart", name: "doerner_SignSender", lits: true},
	{dir: "protocols/doerner/keygen", fn: "StartKeygen", mode: "wsess", name: "doerner_keygen_StartKeygen", lits: true},
	{dir: "protocols/doerner/sign", fn: "StartSignReceiver", mode: "wsess", name: "doerner_sign_StartSignReceiver", lits: true},
	{dir: "protocols/doerner/sign", fn: "StartSignSender", mode: "wsess", name: "doerner_sign_StartSignSender", lits: true},
	{dir: "protocols/example", fn: "StartXOR", mode: "wsess", name: "example_StartXOR", lits: true},
}

// composite literal types that are reported in go_<name>_lits
var litTypes = map[string]bool{"round.Info": true, "keygen.Config": true}

// ---- gexp with a FALL leaf ("control continues with the statement that follows") ----

var gFall = &gexp{k: 'h'}

func hasFall(g *gexp) bool {
	switch g.k {
	case 'h':
		return true
	case '!':
		return hasFall(g.a)
	case '&', '|':
		return hasFall(g.a) || hasFall(g.b)
	}
	return false
}

// replace every FALL leaf by r, rebuilding with the simplifying constructors
func fillFall(g, r *gexp) *gexp {
	switch g.k {
	case 'h':
		return r
	case '!':
		return gNot(fillFall(g.a, r))
	case '&':
		return gAnd(fillFall(g.a, r), fillFall(g.b, r))
	case '|':
		return gOr(fillFall(g.a, r), fillFall(g.b, r))
	}
	return g
}

// ---- translator ----

type loopOut struct {
	head string
	g    *gexp
}

type wtr struct {
	mode   string
	errs   map[string]bool
	trace  []string
	locals map[string]bool
	nonnil map[string]int // identifiers known to be non-nil in the current branch
	nstep  int
	last   map[string]int
	occ    map[string]int
	inBody int // > 0: inside a loop body translated as its own gexp
	loops  []loopOut
}

func (t *wtr) tr(format string, args ...interface{}) {
	t.trace = append(t.trace, fmt.Sprintf(format, args...))
}

func (t *wtr) assigned(s ast.Stmt) {
	v := &vtr{locals: t.locals}
	v.assigned(s)
}

func deferText(d *ast.DeferStmt) string { return src(d) }

func (t *wtr) step(s ast.Stmt) {
	if d, ok := s.(*ast.DeferStmt); ok {
		t.tr("do %s", deferText(d))
		t.nstep++
		return
	}
	if hasJump(s) {
		bad(s, "statement with a jump (break/continue/goto/go/defer/select)")
	}
	t.tr("do %s", src(s))
	t.assigned(s)
	t.nstep++
}

func (t *wtr) atom(e ast.Node, text string) *gexp {
	dep := false
	for id := range identsOf(e) {
		if t.locals[id] {
			dep = true
		}
	}
	if dep {
		if n, seen := t.last[text]; !seen {
			t.occ[text] = 1
		} else if n != t.nstep {
			t.occ[text]++
		}
		t.last[text] = t.nstep
		if t.occ[text] > 1 {
			text = fmt.Sprintf("%s#%d", text, t.occ[text])
		}
	}
	return gAtom(text)
}

func (t *wtr) cond(e ast.Expr, suffix string) *gexp {
	switch v := e.(type) {
	case *ast.ParenExpr:
		return t.cond(v.X, suffix)
	case *ast.UnaryExpr:
		if v.Op == token.NOT {
			return gNot(t.cond(v.X, suffix))
		}
	case *ast.BinaryExpr:
		if v.Op == token.LAND {
			return gAnd(t.cond(v.X, suffix), t.cond(v.Y, suffix))
		}
		if v.Op == token.LOR {
			return gOr(t.cond(v.X, suffix), t.cond(v.Y, suffix))
		}
	case *ast.Ident:
		if v.Name == "true" {
			return gT
		}
		if v.Name == "false" {
			return gF
		}
	}
	return t.atom(e, src(e)+suffix)
}

func isErrCtor(e ast.Expr) bool {
	if ce, ok := e.(*ast.CallExpr); ok {
		if se, ok := ce.Fun.(*ast.SelectorExpr); ok {
			if x, ok := se.X.(*ast.Ident); ok && ((x.Name == "fmt" && se.Sel.Name == "Errorf") || (x.Name == "errors" && se.Sel.Name == "New")) {
				return true
			}
		}
	}
	return false
}

func isNilIdent(e ast.Expr) bool {
	id, ok := e.(*ast.Ident)
	return ok && id.Name == "nil"
}

// a non-nil error value: constructor call, package sentinel, or an identifier known to be non-nil here
func (t *wtr) nonNilErr(e ast.Expr) bool {
	if isErrCtor(e) {
		return true
	}
	if id, ok := e.(*ast.Ident); ok {
		return t.errs[id.Name] || t.nonnil[id.Name] > 0
	}
	return false
}

// a StartFunc that refuses whatever the session id: startError(..) or func(..) (.., error) { return nil, e } with e not nil
func (t *wtr) refusal(e ast.Expr) bool {
	switch v := e.(type) {
	case *ast.CallExpr:
		if id, ok := v.Fun.(*ast.Ident); ok && id.Name == "startError" {
			return true
		}
	case *ast.FuncLit:
		if len(v.Body.List) != 1 {
			return false
		}
		r, ok := v.Body.List[0].(*ast.ReturnStmt)
		if !ok || len(r.Results) != 2 || !isNilIdent(r.Results[0]) {
			return false
		}
		return !isNilIdent(r.Results[1])
	}
	return false
}

// constant result of a return statement: 't' / 'f', 0 if not constant
func (t *wtr) constResult(r *ast.ReturnStmt) byte {
	if len(r.Results) == 0 {
		return 0
	}
	last := r.Results[len(r.Results)-1]
	switch t.mode {
	case "wbool":
		if id, ok := last.(*ast.Ident); ok && len(r.Results) == 1 {
			switch id.Name {
			case "true":
				return 't'
			case "false":
				return 'f'
			}
		}
		return 0
	case "werr":
		if isNilIdent(last) {
			return 't'
		}
		if t.nonNilErr(last) {
			return 'f'
		}
		return 0
	case "wsess":
		if len(r.Results) != 2 {
			return 0
		}
		if isNilIdent(r.Results[0]) && t.nonNilErr(last) {
			return 'f'
		}
		if isNilIdent(last) && !isNilIdent(r.Results[0]) {
			return 't'
		}
		return 0
	case "wstart":
		if len(r.Results) == 1 && t.refusal(last) {
			return 'f'
		}
		return 0
	}
	return 0
}

func (t *wtr) resultText(k byte) string {
	switch t.mode {
	case "wbool":
		if k == 't' {
			return "true"
		}
		return "false"
	case "werr":
		if k == 't' {
			return "nil"
		}
		return "error"
	case "wsess":
		if k == 't' {
			return "session"
		}
		return "error"
	}
	if k == 't' {
		return "start"
	}
	return "refusal"
}

func constLeafW(k byte) *gexp {
	if k == 't' {
		return gT
	}
	return gF
}

// the leaf of a return statement
func (t *wtr) leaf(v *ast.ReturnStmt) *gexp {
	if k := t.constResult(v); k != 0 {
		if t.inBody > 0 && k == 't' {
			bad(v, "a loop body translated on its own returns success")
		}
		t.tr("return %s", t.resultText(k))
		return constLeafW(k)
	}
	if t.inBody > 0 {
		bad(v, "a loop body translated on its own returns a non-constant result")
	}
	switch t.mode {
	case "wbool":
		if len(v.Results) == 1 {
			t.tr("return %s", src(v.Results[0]))
			return t.cond(v.Results[0], "")
		}
	case "werr":
		if len(v.Results) == 1 {
			if ce, ok := v.Results[0].(*ast.CallExpr); ok {
				t.tr("return %s", src(ce))
				return t.atom(ce, src(ce)+" == nil")
			}
		}
	case "wstart":
		if len(v.Results) == 1 {
			if ce, ok := v.Results[0].(*ast.CallExpr); ok {
				t.tr("return %s", src(ce))
				return t.atom(ce, src(ce))
			}
		}
	}
	bad(v, "return value outside the fragment")
	return nil
}

func (t *wtr) initSuffix(init ast.Stmt) string {
	if init == nil {
		return ""
	}
	as, ok := init.(*ast.AssignStmt)
	if !ok || (as.Tok != token.DEFINE && as.Tok != token.ASSIGN) {
		bad(init, "if-initialiser is not an assignment")
	}
	t.assigned(init)
	t.nstep++
	return " where " + src(init)
}

// `X != nil` with X an identifier: X is non-nil inside the branch
func nonNilTest(e ast.Expr) string {
	if be, ok := e.(*ast.BinaryExpr); ok && be.Op == token.NEQ && isNilIdent(be.Y) {
		if id, ok := be.X.(*ast.Ident); ok {
			return id.Name
		}
	}
	return ""
}

// simple loop body: every returning statement is `if [init;] c { return K }` with one constant K
func (t *wtr) simpleBody(body *ast.BlockStmt) (string, byte, bool) {
	var sb strings.Builder
	var k byte
	first := true
	pending := ""
	for _, s := range body.List {
		if !hasReturn(s) {
			if hasJump(s) {
				return "", 0, false
			}
			pending += "[" + src(s) + "] "
			continue
		}
		is, ok := s.(*ast.IfStmt)
		if !ok || is.Else != nil || len(is.Body.List) != 1 {
			return "", 0, false
		}
		r, ok := is.Body.List[0].(*ast.ReturnStmt)
		if !ok {
			return "", 0, false
		}
		c := t.constResult(r)
		if c == 0 || (k != 0 && k != c) {
			return "", 0, false
		}
		k = c
		if !first {
			sb.WriteString(" || ")
		}
		first = false
		sb.WriteString(pending)
		pending = ""
		if is.Init != nil {
			sb.WriteString("(" + src(is.Cond) + " where " + src(is.Init) + ")")
		} else {
			sb.WriteString(src(is.Cond))
		}
	}
	if pending != "" {
		sb.WriteString(" " + strings.TrimSpace(pending))
	}
	if k == 0 {
		return "", 0, false
	}
	return sb.String(), k, true
}

func rangeVars(v *ast.RangeStmt) string {
	if v.Tok != token.DEFINE {
		bad(v, "range loop without :=")
	}
	switch {
	case v.Value != nil:
		if k, ok := v.Key.(*ast.Ident); ok && k.Name == "_" {
			return src(v.Value)
		}
		return src(v.Key) + ", " + src(v.Value)
	case v.Key != nil:
		return "index " + src(v.Key)
	}
	bad(v, "range loop without variables")
	return ""
}

func forHead(v *ast.ForStmt) (string, ast.Expr) {
	ini, ok1 := v.Init.(*ast.AssignStmt)
	cnd, ok2 := v.Cond.(*ast.BinaryExpr)
	pst, ok3 := v.Post.(*ast.IncDecStmt)
	if !ok1 || !ok2 || !ok3 || ini.Tok != token.DEFINE || len(ini.Lhs) != 1 || len(ini.Rhs) != 1 || pst.Tok != token.INC {
		bad(v, "for loop is not `for i := a; i < n; i++`")
	}
	i, ok := ini.Lhs[0].(*ast.Ident)
	ci, okc := cnd.X.(*ast.Ident)
	pi, okp := pst.X.(*ast.Ident)
	if !ok || !okc || !okp || ci.Name != i.Name || pi.Name != i.Name || (cnd.Op != token.LSS && cnd.Op != token.LEQ) {
		bad(v, "for loop is not `for i := a; i < n; i++`")
	}
	closing := ")"
	if cnd.Op == token.LEQ {
		closing = "]"
	}
	return fmt.Sprintf("%s in [%s, %s%s", i.Name, src(ini.Rhs[0]), src(cnd.Y), closing), cnd.Y
}

// a loop with a return inside; vars = "x in xs", dep = the expression the range depends on
func (t *wtr) loop(s ast.Stmt, body *ast.BlockStmt, vars string, dep ast.Node) *gexp {
	if text, k, ok := t.simpleBody(body); ok {
		a := t.atom(dep, fmt.Sprintf("any %s: %s", vars, text))
		t.tr("loop %s -> return %s", a.s, t.resultText(k))
		if t.inBody > 0 && k == 't' {
			bad(s, "a loop body translated on its own returns success")
		}
		return gIte(a, constLeafW(k), gFall)
	}
	// the body becomes a gexp of its own: "one iteration completes"
	idx := len(t.loops) + 1
	t.loops = append(t.loops, loopOut{}) // reserve the number (nested loops come later)
	a := t.atom(dep, fmt.Sprintf("every %s: loop%d", vars, idx))
	t.tr("loop%d every %s {", idx, vars)
	t.inBody++
	g := t.block(body.List)
	t.inBody--
	t.tr("}")
	g = fillFall(g, gT)
	t.loops[idx-1] = loopOut{head: vars, g: g}
	return gIte(a, gFall, gF)
}

func (t *wtr) ifStmt(v *ast.IfStmt) *gexp {
	suffix := t.initSuffix(v.Init)
	c := t.cond(v.Cond, suffix)
	nn := nonNilTest(v.Cond)
	var thenG *gexp
	if r, ok := v.Body.List[0].(*ast.ReturnStmt); ok && len(v.Body.List) == 1 && v.Else == nil {
		if nn != "" {
			t.nonnil[nn]++
		}
		k := t.constResult(r)
		if nn != "" {
			t.nonnil[nn]--
		}
		if k != 0 && !(t.inBody > 0 && k == 't') {
			t.tr("if %s%s -> return %s", src(v.Cond), suffix, t.resultText(k))
			return gIte(c, constLeafW(k), gFall)
		}
	}
	t.tr("if %s%s {", src(v.Cond), suffix)
	if nn != "" {
		t.nonnil[nn]++
	}
	thenG = t.block(v.Body.List)
	if nn != "" {
		t.nonnil[nn]--
	}
	t.tr("}")
	elseG := gFall
	switch e := v.Else.(type) {
	case nil:
	case *ast.BlockStmt:
		t.tr("else {")
		elseG = t.block(e.List)
		t.tr("}")
	case *ast.IfStmt:
		t.tr("else {")
		elseG = t.stmt(e)
		t.tr("}")
	default:
		bad(v, "else branch outside the fragment")
	}
	return gIte(c, thenG, elseG)
}

// one statement: gexp with FALL leaves where control continues with the next statement
func (t *wtr) stmt(s ast.Stmt) *gexp {
	switch v := s.(type) {
	case *ast.ReturnStmt:
		return t.leaf(v)
	case *ast.BranchStmt:
		if v.Tok == token.CONTINUE && v.Label == nil && t.inBody > 0 {
			t.tr("continue")
			return gT
		}
		bad(v, "jump outside the fragment")
	case *ast.IfStmt:
		if !hasReturn(v) && !(t.inBody > 0 && hasContinue(v)) {
			t.step(v)
			return gFall
		}
		return t.ifStmt(v)
	case *ast.RangeStmt:
		if !hasReturn(v) {
			t.step(v)
			return gFall
		}
		return t.loop(v, v.Body, rangeVars(v)+" in "+src(v.X), v.X)
	case *ast.ForStmt:
		if !hasReturn(v) {
			t.step(v)
			return gFall
		}
		head, dep := forHead(v)
		return t.loop(v, v.Body, head, dep)
	case *ast.BlockStmt:
		t.tr("{")
		g := t.block(v.List)
		t.tr("}")
		return g
	case *ast.EmptyStmt:
		return gFall
	case *ast.DeferStmt:
		t.step(v)
		return gFall
	}
	if hasReturn(s) {
		bad(s, "statement %T with a return outside the fragment", s)
	}
	t.step(s)
	return gFall
}

func hasContinue(n ast.Node) bool {
	found := false
	ast.Inspect(n, func(x ast.Node) bool {
		switch v := x.(type) {
		case *ast.FuncLit, *ast.RangeStmt, *ast.ForStmt:
			if x != n {
				return false
			}
		case *ast.BranchStmt:
			if v.Tok == token.CONTINUE && v.Label == nil {
				found = true
			}
		}
		return !found
	})
	return found
}

func (t *wtr) block(stmts []ast.Stmt) *gexp {
	if len(stmts) == 0 {
		return gFall
	}
	g := t.stmt(stmts[0])
	if !hasFall(g) {
		if len(stmts) > 1 {
			bad(stmts[1], "unreachable statement")
		}
		return g
	}
	return fillFall(g, t.block(stmts[1:]))
}

type wout struct {
	spec  wspec
	g     *gexp
	trace []string
	loops []loopOut
	lits  []string
	body  string
	why   string
	file  string
}

func litsOf(fd *ast.FuncDecl) []string {
	var out []string
	ast.Inspect(fd.Body, func(x ast.Node) bool {
		cl, ok := x.(*ast.CompositeLit)
		if !ok || cl.Type == nil {
			return true
		}
		ty := src(cl.Type)
		if !litTypes[ty] {
			return true
		}
		var fs []string
		for _, e := range cl.Elts {
			if kv, ok := e.(*ast.KeyValueExpr); ok {
				fs = append(fs, "("+coqStr(src(kv.Key))+", "+coqStr(src(kv.Value))+")")
			} else {
				fs = append(fs, "("+coqStr("?")+", "+coqStr(src(e))+")")
			}
		}
		out = append(out, "("+coqStr(ty)+", ["+strings.Join(fs, "; ")+"])")
		return true
	})
	return out
}

func translateW(sp wspec) (out wout) {
	out.spec = sp
	fd := findFunc(sp.dir, sp.recv, sp.fn)
	if fd == nil {
		out.why = "function not found"
		return
	}
	used[fileOf(fd)] = true
	out.file = fileOf(fd)
	t := &wtr{mode: sp.mode, errs: sentinelErrors(sp.dir), locals: map[string]bool{}, nonnil: map[string]int{}, last: map[string]int{}, occ: map[string]int{}}
	defer func() {
		if r := recover(); r != nil {
			u, ok := r.(untranslatable)
			if !ok {
				panic(r)
			}
			out.why = u.why
			out.g = nil
			out.trace = nil
			out.loops = nil
		}
	}()
	if sp.lits {
		out.lits = litsOf(fd)
	}
	if sp.mode == "text" {
		out.body = src(fd.Body)
		return
	}
	kind := resultKind(fd)
	body := fd.Body.List
	switch sp.mode {
	case "wbool":
		if kind != "bool" || len(fd.Type.Results.List) != 1 {
			bad(fd, "not a bool-returning function")
		}
	case "werr":
		if kind != "error" {
			bad(fd, "last result is not error")
		}
	case "wstart":
		if kind != "protocol.StartFunc" {
			bad(fd, "result is not protocol.StartFunc")
		}
	case "wsess":
		if kind != "protocol.StartFunc" || len(body) != 1 {
			bad(fd, "not a function of the form `return func(sessionID []byte) (round.Session, error) {...}`")
		}
		r, ok := body[0].(*ast.ReturnStmt)
		if !ok || len(r.Results) != 1 {
			bad(fd, "not a function of the form `return func(sessionID []byte) (round.Session, error) {...}`")
		}
		fl, ok := r.Results[0].(*ast.FuncLit)
		if !ok || fl.Type.Results == nil || len(fl.Type.Results.List) != 2 || src(fl.Type.Results.List[1].Type) != "error" {
			bad(fd, "not a function of the form `return func(sessionID []byte) (round.Session, error) {...}`")
		}
		body = fl.Body.List
	default:
		bad(fd, "unknown mode %s", sp.mode)
	}
	g := t.block(body)
	if hasFall(g) {
		bad(fd, "control reaches the end of the function")
	}
	out.g = g
	out.trace = t.trace
	out.loops = t.loops
	return
}

// integer literal constants used in atoms: (Coq name suffix, value)
func validatorConsts() [][2]string {
	var out [][2]string
	want := map[string]map[string]string{"pkg/taproot": {"SignatureLen": "taproot_SignatureLen"}}
	var dirs []string
	for d := range want {
		dirs = append(dirs, d)
	}
	sort.Strings(dirs)
	for _, dir := range dirs {
		for _, f := range pkgs[dir] {
			for _, d := range f.Decls {
				gd, ok := d.(*ast.GenDecl)
				if !ok || gd.Tok != token.CONST {
					continue
				}
				for _, sp := range gd.Specs {
					vs := sp.(*ast.ValueSpec)
					for i, n := range vs.Names {
						name, ok := want[dir][n.Name]
						if !ok || i >= len(vs.Values) {
							continue
						}
						if bl, ok := vs.Values[i].(*ast.BasicLit); ok && bl.Kind == token.INT {
							out = append(out, [2]string{name, bl.Value})
							used[fileOf(vs)] = true
						}
					}
				}
			}
		}
	}
	return out
}

// "dir: Func" of every function below protocols/ that returns a protocol.StartFunc
func startFuncs() []string {
	var out []string
	for _, dir := range sortedDirs("protocols/") {
		for _, f := range pkgs[dir] {
			for _, d := range f.Decls {
				fd, ok := d.(*ast.FuncDecl)
				if !ok || fd.Body == nil || fd.Recv != nil || resultKind(fd) != "protocol.StartFunc" {
					continue
				}
				out = append(out, dir+": "+fd.Name.Name)
				used[fileOf(fd)] = true
			}
		}
	}
	sort.Strings(out)
	return out
}

func genValidators() {
	var sb strings.Builder
	sb.WriteString("From Coq Require Import String List ZArith.\nFrom MPS Require Import Generated.Guards.\nImport ListNotations.\nLocal Open Scope string_scope.\n\n")
	sb.WriteString("(* restore-time validation of key material (C15) and start-time guards (C20), translated by gen/gen_validate.go:\n" +
		"   go_<name> is the gexp for \"returns true\" / \"returns a nil error\" / \"returns a session\" / \"is not a constant refusal\",\n" +
		"   go_<name>_trace the ordered skeleton of the body, go_<name>_loop<k> the gexp for \"one iteration of loop k completes\",\n" +
		"   go_<name>_lits the round.Info / keygen.Config literals the function builds. *)\n\n")
	var untr, untrNames, table, traces []string
	allAtoms := map[string]bool{}
	for _, sp := range wspecs {
		o := translateW(sp)
		recv := sp.recv
		if recv != "" {
			recv = "(" + recv + ")."
		}
		what := map[string]string{"wbool": "returns true", "werr": "returns a nil error", "wsess": "the returned StartFunc returns a session",
			"wstart": "the returned StartFunc is not a constant refusal", "text": "body text"}[sp.mode]
		fmt.Fprintf(&sb, "(* %s: %s%s -- %s *)\n", o.file, recv, sp.fn, what)
		if o.why != "" {
			untr = append(untr, fmt.Sprintf("%s %s%s: %s", sp.dir, recv, sp.fn, o.why))
			untrNames = append(untrNames, sp.name)
			if sp.mode == "text" {
				fmt.Fprintf(&sb, "Definition go_%s_body : string := %s.\n\n", sp.name, coqStr("UNTRANSLATABLE: "+o.why))
				continue
			}
			fmt.Fprintf(&sb, "Definition go_%s : gexp := GAtom %s.\n", sp.name, coqStr("UNTRANSLATABLE: "+o.why))
			fmt.Fprintf(&sb, "Definition go_%s_trace : list string := [].\n", sp.name)
			if sp.lits {
				fmt.Fprintf(&sb, "Definition go_%s_lits : list (string * list (string * string)) := [].\n", sp.name)
			}
			sb.WriteString("\n")
			continue
		}
		if sp.mode == "text" {
			fmt.Fprintf(&sb, "Definition go_%s_body : string := %s.\n\n", sp.name, coqStr(o.body))
			continue
		}
		fmt.Fprintf(&sb, "Definition go_%s : gexp :=\n  %s.\n", sp.name, o.g.coq())
		for i, l := range o.loops {
			fmt.Fprintf(&sb, "Definition go_%s_loop%d : gexp :=\n  %s.\n", sp.name, i+1, l.g.coq())
			l.g.atoms(allAtoms)
		}
		fmt.Fprintf(&sb, "Definition go_%s_trace : list string := %s.\n", sp.name, coqStrLines(o.trace, "  "))
		if sp.lits {
			fmt.Fprintf(&sb, "Definition go_%s_lits : list (string * list (string * string)) := [%s].\n", sp.name, strings.Join(o.lits, ";\n  "))
		}
		sb.WriteString("\n")
		o.g.atoms(allAtoms)
		table = append(table, "("+coqStr(sp.name)+", go_"+sp.name+")")
		traces = append(traces, "("+coqStr(sp.name)+", go_"+sp.name+"_trace)")
	}
	sb.WriteString("(* every function below protocols/ whose result is protocol.StartFunc (auto-discovered): a new entry point shows up here *)\n")
	sb.WriteString("Definition go_start_functions : list string := " + coqStrLines(startFuncs(), "  ") + ".\n\n")
	sb.WriteString("(* integer constants that occur in atoms *)\n")
	for _, c := range validatorConsts() {
		fmt.Fprintf(&sb, "Definition go_const_%s : Z := %s%%Z.\n", c[0], c[1])
	}
	sb.WriteString("\n(* every translated function *)\nDefinition go_validators : list (string * gexp) := [\n  " + strings.Join(table, ";\n  ") + "\n].\n\n")
	sb.WriteString("(* ... and its skeleton *)\nDefinition go_validator_traces : list (string * list string) := [\n  " + strings.Join(traces, ";\n  ") + "\n].\n\n")
	var at []string
	for a := range allAtoms {
		at = append(at, a)
	}
	sort.Strings(at)
	sb.WriteString("(* every atom that occurs above (sorted) *)\nDefinition go_validator_atoms : list string := " + coqStrLines(at, "  ") + ".\n\n")
	sb.WriteString("(* functions whose body is outside the translated fragment (or missing): must be empty *)\n")
	sb.WriteString("Definition validators_untranslatable : list string := " + coqStrList(untr) + ".\n")
	sb.WriteString("Definition validators_untranslatable_names : list string := " + coqStrList(untrNames) + ".\n")
	writeFile("Validators.v", sb.String())
	for _, u := range untr {
		fmt.Println("verifgen: validators: UNTRANSLATABLE:", u)
	}
}
