package main

import (
	"fmt"
	"go/ast"
	"go/token"
	"sort"
	"strconv"
	"strings"
)

func init() { extraGens = append(extraGens, genRounds) }

// genRounds: for every protocol package, the round types (Number(), is BroadcastRound, expects p2p content) and every
// value assigned to round.Info.FinalRoundNumber.
func genRounds() {
	type rt struct {
		pkg, typ   string
		number     int
		bcast, p2p bool
	}
	type fin struct {
		pkg string
		val int
	}
	var rounds []rt
	var finals []fin
	for dir, files := range pkgs {
		if !strings.HasPrefix(dir, "protocols") {
			continue
		}
		numbers := map[string]int{}
		bcast := map[string]bool{}
		p2p := map[string]bool{}
		consts := map[string]int{}
		for _, f := range files {
			for _, d := range f.Decls {
				if gd, ok := d.(*ast.GenDecl); ok && gd.Tok == token.CONST {
					for _, sp := range gd.Specs {
						vs := sp.(*ast.ValueSpec)
						for i, n := range vs.Names {
							if i < len(vs.Values) {
								if bl, ok := vs.Values[i].(*ast.BasicLit); ok && bl.Kind == token.INT {
									v, _ := strconv.Atoi(bl.Value)
									consts[n.Name] = v
								}
							}
						}
					}
				}
			}
		}
		for _, f := range files {
			for _, d := range f.Decls {
				fd, ok := d.(*ast.FuncDecl)
				if !ok || fd.Recv == nil || fd.Body == nil {
					continue
				}
				typ := recvType(fd)
				switch fd.Name.Name {
				case "Number":
					for _, st := range fd.Body.List {
						if r, ok := st.(*ast.ReturnStmt); ok && len(r.Results) == 1 {
							if bl, ok := r.Results[0].(*ast.BasicLit); ok && bl.Kind == token.INT {
								v, _ := strconv.Atoi(bl.Value)
								numbers[typ] = v
								used[fileOf(fd)] = true
							}
						}
					}
				case "StoreBroadcastMessage":
					bcast[typ] = true
				case "MessageContent":
					// p2p content unless the body is exactly `return nil`
					isNil := false
					if len(fd.Body.List) == 1 {
						if r, ok := fd.Body.List[0].(*ast.ReturnStmt); ok && len(r.Results) == 1 {
							if id, ok := r.Results[0].(*ast.Ident); ok && id.Name == "nil" {
								isNil = true
							}
						}
					}
					p2p[typ] = !isNil
				}
			}
			ast.Inspect(f, func(n ast.Node) bool {
				res := func(e ast.Expr) (int, bool) {
					switch v := e.(type) {
					case *ast.BasicLit:
						if v.Kind == token.INT {
							x, _ := strconv.Atoi(v.Value)
							return x, true
						}
					case *ast.Ident:
						x, ok := consts[v.Name]
						return x, ok
					case *ast.SelectorExpr:
						// keygen.Rounds
						if v.Sel.Name == "Rounds" {
							for d2, fs := range pkgs {
								if strings.HasSuffix(d2, "cmp/keygen") {
									for _, f2 := range fs {
										for _, dd := range f2.Decls {
											if gd, ok := dd.(*ast.GenDecl); ok && gd.Tok == token.CONST {
												for _, sp := range gd.Specs {
													vs := sp.(*ast.ValueSpec)
													for i, nn := range vs.Names {
														if nn.Name == "Rounds" && i < len(vs.Values) {
															if bl, ok := vs.Values[i].(*ast.BasicLit); ok {
																x, _ := strconv.Atoi(bl.Value)
																return x, true
															}
														}
													}
												}
											}
										}
									}
								}
							}
						}
					}
					return 0, false
				}
				switch x := n.(type) {
				case *ast.KeyValueExpr:
					if id, ok := x.Key.(*ast.Ident); ok && id.Name == "FinalRoundNumber" {
						if v, ok := res(x.Value); ok {
							finals = append(finals, fin{dir, v})
							used[fileOf(x)] = true
						}
					}
				case *ast.AssignStmt:
					for i, l := range x.Lhs {
						if se, ok := l.(*ast.SelectorExpr); ok && se.Sel.Name == "FinalRoundNumber" && i < len(x.Rhs) {
							if v, ok := res(x.Rhs[i]); ok {
								finals = append(finals, fin{dir, v})
								used[fileOf(x)] = true
							}
						}
					}
				}
				return true
			})
		}
		for typ, n := range numbers {
			rounds = append(rounds, rt{dir, typ, n, bcast[typ], p2p[typ]})
		}
	}
	sort.Slice(rounds, func(i, j int) bool {
		if rounds[i].pkg != rounds[j].pkg {
			return rounds[i].pkg < rounds[j].pkg
		}
		if rounds[i].number != rounds[j].number {
			return rounds[i].number < rounds[j].number
		}
		return rounds[i].typ < rounds[j].typ
	})
	// a package without round types of its own (cmp, example) governs the round types of the package its constant comes from /
	// of its sub-packages that have no FinalRoundNumber of their own
	hasRounds := map[string]bool{}
	for _, r := range rounds {
		hasRounds[r.pkg] = true
	}
	hasFinal := map[string]bool{}
	for _, f := range finals {
		if hasRounds[f.pkg] {
			hasFinal[f.pkg] = true
		}
	}
	var moved []fin
	for _, f := range finals {
		if hasRounds[f.pkg] {
			moved = append(moved, f)
			continue
		}
		for p := range hasRounds {
			if strings.HasPrefix(p, f.pkg+"/") && !hasFinal[p] {
				// choose the sub-package whose maximal round number equals the value when several qualify
				max := 0
				for _, r := range rounds {
					if r.pkg == p && r.number > max {
						max = r.number
					}
				}
				if max == f.val {
					moved = append(moved, fin{p, f.val})
				}
			}
		}
	}
	finals = moved
	seen := map[fin]bool{}
	var uf []fin
	for _, f := range finals {
		if !seen[f] {
			seen[f] = true
			uf = append(uf, f)
		}
	}
	sort.Slice(uf, func(i, j int) bool {
		if uf[i].pkg != uf[j].pkg {
			return uf[i].pkg < uf[j].pkg
		}
		return uf[i].val < uf[j].val
	})
	var sb strings.Builder
	sb.WriteString("From Coq Require Import String List Bool.\nImport ListNotations.\nLocal Open Scope string_scope.\n\n")
	sb.WriteString("(* (package dir, round type, Number(), has StoreBroadcastMessage, MessageContent() != nil) *)\nDefinition go_rounds : list (string * string * nat * bool * bool) := [\n")
	for i, r := range rounds {
		if i > 0 {
			sb.WriteString(";\n")
		}
		fmt.Fprintf(&sb, "  (%s, %s, %d, %v, %v)", coqStr(r.pkg), coqStr(r.typ), r.number, r.bcast, r.p2p)
	}
	sb.WriteString("\n].\n\n(* (package dir, value) of every FinalRoundNumber assigned in that package *)\nDefinition go_final_rounds : list (string * nat) := [\n")
	for i, f := range uf {
		if i > 0 {
			sb.WriteString(";\n")
		}
		fmt.Fprintf(&sb, "  (%s, %d)", coqStr(f.pkg), f.val)
	}
	sb.WriteString("\n].\n")
	writeFile("Rounds.v", sb.String())
}
