package main

// gen_zk.go -- Generated/ZKGuards.v and Generated/Challenges.v.
//
// ZKGuards.v: the decision logic of the validators that work on numbers -- every IsValid / Verify method of pkg/zk/*,
// the predicates of pkg/math/arith/int.go, paillier.ValidateCiphertexts / ValidateN / ValidatePrime,
// pedersen.ValidateParameters / Parameters.Verify -- translated into the gexp type of Generated/Guards.v.
// These bodies interleave checks with computations (`lhs := ...`, `e, err := challenge(...)`), so the fragment of
// gen_guards.go is extended ("v-modes", result bool or error):
//   statements   return e                                   (bool: any condition; error: nil / fmt.Errorf / errors.New /
//                                                            a package-level `ErrX = errors.New(..)` sentinel)
//                if [init;] c { S }                         S contains a return: S must end in a return on every path
//                                                            (the check); the atoms of c carry " where <init>"
//                for _, x := range xs { B } / for i := a; i < n; i++ { B }
//                                                            B contains a return: every statement of B is either
//                                                            `if [init;] c { return K }` (one constant K) or a statement
//                                                            without return; ONE atom "any x in xs: [step] c1 || c2"
//                { S }                                      flattened
//                any other statement without a return       a STEP: not interpreted, its canonical text is recorded
//   Every function gets, besides its gexp, go_<name>_trace: the ordered skeleton "do <step>" / "if <c> {" / "}" /
//   "loop <atom> -> return K" / "return <e>" of the whole body, so that the position of every computation relative to
//   the checks is pinned (the Coq side states the trace literally where the meaning of an atom depends on steps).
//   An atom that mentions a local assigned by a step, and occurs again after further steps, is numbered ("lhs.Equal(rhs)#2").
//
// Challenges.v: what is written into hashes, in order: for every `challenge` function of pkg/zk/* the arguments of the
// WriteAny calls, the sampling calls, the whole body and every call site; for NewSession, HashForID, the FROST signing
// nonce / binding factor / challenge and the Doerner signing transcript the slice of statements that touch the hash
// state (by tracked identifier) and the written expressions with their conditions.

import (
	"bytes"
	"fmt"
	"go/ast"
	"go/printer"
	"go/token"
	"regexp"
	"sort"
	"strings"
)

func init() {
	extraGens = append(extraGens, genZKGuards, genChallenges)
}

// ---- canonical source text ----
var compositeOpen = regexp.MustCompile(`(\w)\{ `)

func src(n interface{}) string {
	if node, ok := n.(ast.Node); ok {
		// doc / line comments attached to declarations are not part of the canonical text
		ast.Inspect(node, func(x ast.Node) bool {
			switch v := x.(type) {
			case *ast.GenDecl:
				v.Doc = nil
			case *ast.ValueSpec:
				v.Doc, v.Comment = nil, nil
			case *ast.TypeSpec:
				v.Doc, v.Comment = nil, nil
			case *ast.Field:
				v.Doc, v.Comment = nil, nil
			}
			return true
		})
	}
	var b bytes.Buffer
	if err := printer.Fprint(&b, fset, n); err != nil {
		panic(untranslatable{"printer: " + err.Error()})
	}
	s := strings.Join(strings.Fields(b.String()), " ")
	for _, r := range [][2]string{{", )", ")"}, {"( ", "("}, {", }", "}"}, {",)", ")"}, {",}", "}"}} {
		s = strings.ReplaceAll(s, r[0], r[1])
	}
	s = compositeOpen.ReplaceAllString(s, "$1{")
	return s
}

func hasReturn(n ast.Node) bool {
	found := false
	ast.Inspect(n, func(x ast.Node) bool {
		switch x.(type) {
		case *ast.FuncLit:
			return false
		case *ast.ReturnStmt:
			found = true
		}
		return !found
	})
	return found
}

func hasJump(n ast.Node) bool {
	found := false
	ast.Inspect(n, func(x ast.Node) bool {
		switch x.(type) {
		case *ast.FuncLit:
			return false
		case *ast.BranchStmt, *ast.GoStmt, *ast.DeferStmt, *ast.SelectStmt, *ast.LabeledStmt:
			found = true
		}
		return !found
	})
	return found
}

func terminates(stmts []ast.Stmt) bool {
	if len(stmts) == 0 {
		return false
	}
	switch v := stmts[len(stmts)-1].(type) {
	case *ast.ReturnStmt:
		return true
	case *ast.BlockStmt:
		return terminates(v.List)
	case *ast.IfStmt:
		if v.Else == nil || !terminates(v.Body.List) {
			return false
		}
		switch e := v.Else.(type) {
		case *ast.BlockStmt:
			return terminates(e.List)
		case *ast.IfStmt:
			return terminates([]ast.Stmt{e})
		}
	}
	return false
}

func identsOf(n ast.Node) map[string]bool {
	out := map[string]bool{}
	ast.Inspect(n, func(x ast.Node) bool {
		if se, ok := x.(*ast.SelectorExpr); ok {
			// only the base of a selector chain is a variable
			ast.Inspect(se.X, func(y ast.Node) bool {
				if id, ok := y.(*ast.Ident); ok {
					out[id.Name] = true
				}
				return true
			})
			return false
		}
		if id, ok := x.(*ast.Ident); ok {
			out[id.Name] = true
		}
		return true
	})
	return out
}

// ---- v-mode translator ----
type vtr struct {
	mode   string          // vbool | verr
	errs   map[string]bool // sentinel errors of the package
	trace  []string
	locals map[string]bool
	nstep  int
	last   map[string]int
	occ    map[string]int
}

func (t *vtr) tr(format string, args ...interface{}) {
	t.trace = append(t.trace, fmt.Sprintf(format, args...))
}

func (t *vtr) assigned(s ast.Stmt) {
	switch v := s.(type) {
	case *ast.AssignStmt:
		for _, l := range v.Lhs {
			if id, ok := l.(*ast.Ident); ok && id.Name != "_" {
				t.locals[id.Name] = true
			}
		}
	case *ast.DeclStmt:
		if gd, ok := v.Decl.(*ast.GenDecl); ok {
			for _, sp := range gd.Specs {
				if vs, ok := sp.(*ast.ValueSpec); ok {
					for _, n := range vs.Names {
						t.locals[n.Name] = true
					}
				}
			}
		}
	case *ast.ExprStmt:
		// x.Method(...) may update the local x
		if ce, ok := v.X.(*ast.CallExpr); ok {
			if se, ok := ce.Fun.(*ast.SelectorExpr); ok {
				if id, ok := se.X.(*ast.Ident); ok {
					t.locals[id.Name] = true
				}
			}
		}
	case *ast.IfStmt, *ast.RangeStmt, *ast.ForStmt, *ast.BlockStmt:
		ast.Inspect(v, func(x ast.Node) bool {
			if st, ok := x.(ast.Stmt); ok && st != s {
				switch st.(type) {
				case *ast.AssignStmt, *ast.DeclStmt, *ast.ExprStmt:
					t.assigned(st)
				}
			}
			return true
		})
	}
}

func (t *vtr) step(s ast.Stmt) {
	if hasJump(s) {
		bad(s, "statement with a jump (break/continue/goto/go/defer/select)")
	}
	t.tr("do %s", src(s))
	t.assigned(s)
	t.nstep++
}

func (t *vtr) atom(e ast.Expr, text string) *gexp {
	dep := false
	for id := range identsOf(e) {
		if t.locals[id] {
			dep = true
		}
	}
	if dep {
		if n, seen := t.last[text]; !seen {
			t.occ[text] = 1
		} else if n != t.nstep {
			t.occ[text]++
		}
		t.last[text] = t.nstep
		if t.occ[text] > 1 {
			text = fmt.Sprintf("%s#%d", text, t.occ[text])
		}
	}
	return gAtom(text)
}

func (t *vtr) cond(e ast.Expr, suffix string) *gexp {
	switch v := e.(type) {
	case *ast.ParenExpr:
		return t.cond(v.X, suffix)
	case *ast.UnaryExpr:
		if v.Op == token.NOT {
			return gNot(t.cond(v.X, suffix))
		}
	case *ast.BinaryExpr:
		if v.Op == token.LAND {
			return gAnd(t.cond(v.X, suffix), t.cond(v.Y, suffix))
		}
		if v.Op == token.LOR {
			return gOr(t.cond(v.X, suffix), t.cond(v.Y, suffix))
		}
	case *ast.Ident:
		if v.Name == "true" {
			return gT
		}
		if v.Name == "false" {
			return gF
		}
	}
	return t.atom(e, src(e)+suffix)
}

func (t *vtr) constResult(r *ast.ReturnStmt) byte {
	if len(r.Results) == 0 {
		return 0
	}
	last := r.Results[len(r.Results)-1]
	if t.mode == "vbool" {
		if id, ok := last.(*ast.Ident); ok && len(r.Results) == 1 {
			switch id.Name {
			case "true":
				return 't'
			case "false":
				return 'f'
			}
		}
		return 0
	}
	switch v := last.(type) {
	case *ast.Ident:
		if v.Name == "nil" {
			return 't'
		}
		if t.errs[v.Name] {
			return 'f'
		}
	case *ast.CallExpr:
		if se, ok := v.Fun.(*ast.SelectorExpr); ok {
			if x, ok := se.X.(*ast.Ident); ok && ((x.Name == "fmt" && se.Sel.Name == "Errorf") || (x.Name == "errors" && se.Sel.Name == "New")) {
				return 'f'
			}
		}
	}
	return 0
}

func (t *vtr) initSuffix(init ast.Stmt) string {
	if init == nil {
		return ""
	}
	as, ok := init.(*ast.AssignStmt)
	if !ok || as.Tok != token.DEFINE {
		bad(init, "if-initialiser is not a short variable declaration")
	}
	t.assigned(init)
	t.nstep++
	return " where " + src(init)
}

// the body of a loop that contains a return
func (t *vtr) loopBody(body *ast.BlockStmt) (string, byte) {
	var sb strings.Builder
	var k byte
	first := true
	pendingSteps := ""
	for _, s := range body.List {
		if !hasReturn(s) {
			if hasJump(s) {
				bad(s, "loop body statement with a jump")
			}
			pendingSteps += "[" + src(s) + "] "
			continue
		}
		is, ok := s.(*ast.IfStmt)
		if !ok || is.Else != nil || len(is.Body.List) != 1 {
			bad(s, "loop body statement is not `if c { return K }`")
		}
		r, ok := is.Body.List[0].(*ast.ReturnStmt)
		if !ok {
			bad(s, "loop body statement is not `if c { return K }`")
		}
		c := t.constResult(r)
		if c == 0 {
			bad(r, "loop returns a non-constant result")
		}
		if k != 0 && k != c {
			bad(r, "loop returns different results")
		}
		k = c
		if !first {
			sb.WriteString(" || ")
		}
		first = false
		sb.WriteString(pendingSteps)
		pendingSteps = ""
		if is.Init != nil {
			sb.WriteString("(" + src(is.Cond) + " where " + src(is.Init) + ")")
		} else {
			sb.WriteString(src(is.Cond))
		}
	}
	if pendingSteps != "" {
		sb.WriteString(" " + strings.TrimSpace(pendingSteps))
	}
	if k == 0 {
		bad(body, "loop without a check")
	}
	return sb.String(), k
}

func constLeafV(k byte) *gexp {
	if k == 't' {
		return gT
	}
	return gF
}

func (t *vtr) resultText(k byte) string {
	if t.mode == "vbool" {
		if k == 't' {
			return "true"
		}
		return "false"
	}
	if k == 't' {
		return "nil"
	}
	return "error"
}

func (t *vtr) seq(stmts []ast.Stmt, end func() *gexp) *gexp {
	if len(stmts) == 0 {
		return end()
	}
	s, rest := stmts[0], stmts[1:]
	cont := func() *gexp { return t.seq(rest, end) }
	noEnd := func() *gexp { bad(s, "a checked branch falls through"); return nil }
	switch v := s.(type) {
	case *ast.ReturnStmt:
		if k := t.constResult(v); k != 0 {
			t.tr("return %s", t.resultText(k))
			return constLeafV(k)
		}
		if t.mode == "vbool" && len(v.Results) == 1 {
			t.tr("return %s", src(v.Results[0]))
			return t.cond(v.Results[0], "")
		}
		bad(v, "return value outside the fragment")
	case *ast.IfStmt:
		if !hasReturn(v) {
			t.step(v)
			return cont()
		}
		suffix := t.initSuffix(v.Init)
		c := t.cond(v.Cond, suffix)
		if !terminates(v.Body.List) {
			bad(v, "if body with a return does not end in a return")
		}
		var thenG *gexp
		if r, ok := v.Body.List[0].(*ast.ReturnStmt); ok && len(v.Body.List) == 1 && t.constResult(r) != 0 {
			t.tr("if %s%s -> return %s", src(v.Cond), suffix, t.resultText(t.constResult(r)))
			thenG = constLeafV(t.constResult(r))
		} else {
			t.tr("if %s%s {", src(v.Cond), suffix)
			thenG = t.seq(v.Body.List, noEnd)
			t.tr("}")
		}
		var elseG *gexp
		switch e := v.Else.(type) {
		case nil:
			elseG = cont()
		case *ast.BlockStmt:
			if !terminates(e.List) || len(rest) != 0 {
				bad(v, "else branch that falls through")
			}
			t.tr("else {")
			elseG = t.seq(e.List, noEnd)
			t.tr("}")
		default:
			bad(v, "else-if outside the fragment")
		}
		return gIte(c, thenG, elseG)
	case *ast.RangeStmt:
		if !hasReturn(v) {
			t.step(v)
			return cont()
		}
		var x string
		switch {
		case v.Tok != token.DEFINE:
			bad(v, "range loop without :=")
		case v.Value != nil:
			if k, ok := v.Key.(*ast.Ident); !ok || k.Name != "_" {
				bad(v, "range loop is not `for _, x := range xs`")
			}
			x = src(v.Value)
		default:
			x = "index " + src(v.Key)
		}
		body, k := t.loopBody(v.Body)
		text := fmt.Sprintf("any %s in %s: %s", x, src(v.X), body)
		a := t.atom(v.X, text)
		t.tr("loop %s -> return %s", a.s, t.resultText(k))
		return gIte(a, constLeafV(k), cont())
	case *ast.ForStmt:
		if !hasReturn(v) {
			t.step(v)
			return cont()
		}
		ini, ok1 := v.Init.(*ast.AssignStmt)
		cnd, ok2 := v.Cond.(*ast.BinaryExpr)
		pst, ok3 := v.Post.(*ast.IncDecStmt)
		if !ok1 || !ok2 || !ok3 || ini.Tok != token.DEFINE || len(ini.Lhs) != 1 || len(ini.Rhs) != 1 || pst.Tok != token.INC {
			bad(v, "for loop is not `for i := a; i < n; i++`")
		}
		i, ok := ini.Lhs[0].(*ast.Ident)
		ci, okc := cnd.X.(*ast.Ident)
		pi, okp := pst.X.(*ast.Ident)
		if !ok || !okc || !okp || ci.Name != i.Name || pi.Name != i.Name || (cnd.Op != token.LSS && cnd.Op != token.LEQ) {
			bad(v, "for loop is not `for i := a; i < n; i++`")
		}
		closing := ")"
		if cnd.Op == token.LEQ {
			closing = "]"
		}
		body, k := t.loopBody(v.Body)
		text := fmt.Sprintf("any %s in [%s, %s%s: %s", i.Name, src(ini.Rhs[0]), src(cnd.Y), closing, body)
		a := t.atom(cnd.Y, text)
		t.tr("loop %s -> return %s", a.s, t.resultText(k))
		return gIte(a, constLeafV(k), cont())
	case *ast.BlockStmt:
		t.tr("{")
		return t.seq(v.List, func() *gexp { t.tr("}"); return cont() })
	case *ast.EmptyStmt:
		return cont()
	default:
		if hasReturn(s) {
			bad(s, "statement %T with a return outside the fragment", s)
		}
		t.step(s)
		return cont()
	}
	return nil
}

type vspec struct {
	dir, recv, fn string
	mode          string
	name          string
}

type vout struct {
	spec  vspec
	g     *gexp
	trace []string
	why   string
	file  string
}

// package-level `var ErrX = errors.New(...)` / fmt.Errorf sentinels
func sentinelErrors(dir string) map[string]bool {
	out := map[string]bool{}
	// types with an Error() method: a constant of such a type is a non-nil error
	errTypes := map[string]bool{}
	for _, f := range pkgs[dir] {
		for _, d := range f.Decls {
			if fd, ok := d.(*ast.FuncDecl); ok && fd.Recv != nil && fd.Name.Name == "Error" && resultKind(fd) == "string" {
				errTypes[recvType(fd)] = true
			}
		}
	}
	for _, f := range pkgs[dir] {
		for _, d := range f.Decls {
			gd, ok := d.(*ast.GenDecl)
			if ok && gd.Tok == token.CONST {
				for _, sp := range gd.Specs {
					vs := sp.(*ast.ValueSpec)
					if id, ok := vs.Type.(*ast.Ident); ok && errTypes[id.Name] {
						for _, n := range vs.Names {
							out[n.Name] = true
						}
					}
				}
			}
			if !ok || gd.Tok != token.VAR {
				continue
			}
			for _, sp := range gd.Specs {
				vs := sp.(*ast.ValueSpec)
				for i, n := range vs.Names {
					if i >= len(vs.Values) {
						continue
					}
					if ce, ok := vs.Values[i].(*ast.CallExpr); ok {
						if se, ok := ce.Fun.(*ast.SelectorExpr); ok {
							if x, ok := se.X.(*ast.Ident); ok && ((x.Name == "errors" && se.Sel.Name == "New") || (x.Name == "fmt" && se.Sel.Name == "Errorf")) {
								out[n.Name] = true
							}
						}
					}
				}
			}
		}
	}
	return out
}

func translateV(sp vspec) (out vout) {
	out.spec = sp
	fd := findFunc(sp.dir, sp.recv, sp.fn)
	if fd == nil {
		out.why = "function not found"
		return
	}
	used[fileOf(fd)] = true
	out.file = fileOf(fd)
	t := &vtr{mode: sp.mode, errs: sentinelErrors(sp.dir), locals: map[string]bool{}, last: map[string]int{}, occ: map[string]int{}}
	defer func() {
		if r := recover(); r != nil {
			u, ok := r.(untranslatable)
			if !ok {
				panic(r)
			}
			out.why = u.why
			out.g = nil
			out.trace = nil
		}
	}()
	res := fd.Type.Results
	last := ""
	if res != nil && len(res.List) > 0 {
		last = src(res.List[len(res.List)-1].Type)
	}
	if sp.mode == "vbool" && (last != "bool" || len(res.List) != 1) {
		bad(fd, "not a bool-returning function")
	}
	if sp.mode == "verr" && last != "error" {
		bad(fd, "last result is not error")
	}
	out.g = t.seq(fd.Body.List, func() *gexp { bad(fd, "control reaches the end of the function"); return nil })
	out.trace = t.trace
	return
}

func sortedDirs(prefix string) []string {
	var ds []string
	for d := range pkgs {
		if strings.HasPrefix(d, prefix) {
			ds = append(ds, d)
		}
	}
	sort.Strings(ds)
	return ds
}

func resultKind(fd *ast.FuncDecl) string {
	res := fd.Type.Results
	if res == nil || len(res.List) == 0 {
		return ""
	}
	return src(res.List[len(res.List)-1].Type)
}

func zkSpecs() []vspec {
	var specs []vspec
	// every IsValid / Verify method below pkg/zk
	for _, dir := range sortedDirs("pkg/zk/") {
		sys := strings.TrimPrefix(dir, "pkg/zk/")
		var local []vspec
		for _, f := range pkgs[dir] {
			for _, d := range f.Decls {
				fd, ok := d.(*ast.FuncDecl)
				if !ok || fd.Body == nil || fd.Recv == nil || (fd.Name.Name != "IsValid" && fd.Name.Name != "Verify") {
					continue
				}
				if resultKind(fd) != "bool" {
					continue
				}
				local = append(local, vspec{dir: dir, recv: recvType(fd), fn: fd.Name.Name, mode: "vbool",
					name: "zk" + sys + "_" + recvType(fd) + "_" + fd.Name.Name})
			}
		}
		sort.Slice(local, func(i, j int) bool { return local[i].name < local[j].name })
		specs = append(specs, local...)
	}
	// every exported bool function of pkg/math/arith/int.go
	var ar []vspec
	for _, f := range pkgs["pkg/math/arith"] {
		if !strings.HasSuffix(fset.Position(f.Pos()).Filename, "int.go") {
			continue
		}
		for _, d := range f.Decls {
			fd, ok := d.(*ast.FuncDecl)
			if !ok || fd.Body == nil || fd.Recv != nil || !ast.IsExported(fd.Name.Name) || resultKind(fd) != "bool" {
				continue
			}
			ar = append(ar, vspec{dir: "pkg/math/arith", fn: fd.Name.Name, mode: "vbool", name: "arith_" + fd.Name.Name})
		}
	}
	sort.Slice(ar, func(i, j int) bool { return ar[i].name < ar[j].name })
	specs = append(specs, ar...)
	specs = append(specs,
		vspec{dir: "pkg/paillier", recv: "PublicKey", fn: "ValidateCiphertexts", mode: "vbool", name: "paillier_ValidateCiphertexts"},
		vspec{dir: "pkg/paillier", fn: "ValidateN", mode: "verr", name: "paillier_ValidateN"},
		vspec{dir: "pkg/paillier", fn: "ValidatePrime", mode: "verr", name: "paillier_ValidatePrime"},
		vspec{dir: "pkg/pedersen", fn: "ValidateParameters", mode: "verr", name: "pedersen_ValidateParameters"},
		vspec{dir: "pkg/pedersen", recv: "Parameters", fn: "Verify", mode: "vbool", name: "pedersen_Verify"},
	)
	return specs
}

func coqStrLines(l []string, indent string) string {
	if len(l) == 0 {
		return "[]"
	}
	var q []string
	for _, s := range l {
		q = append(q, indent+coqStr(s))
	}
	return "[\n" + strings.Join(q, ";\n") + "\n]"
}

func genZKGuards() {
	var sb strings.Builder
	sb.WriteString("From Coq Require Import String List ZArith.\nFrom MPS Require Import Generated.Guards.\nImport ListNotations.\nLocal Open Scope string_scope.\n\n")
	sb.WriteString("(* decision logic of the numeric validators (pkg/zk/*, pkg/math/arith, pkg/paillier, pkg/pedersen), translated by\n" +
		"   gen/gen_zk.go: go_<name> is the gexp for \"returns true\" (\"returns a nil error\"), go_<name>_trace the ordered\n" +
		"   skeleton of the body: do <computation> / if <check> { / } / loop <atom> -> return K / return <e>. *)\n\n")
	var untr, untrNames, table, traces []string
	allAtoms := map[string]bool{}
	for _, sp := range zkSpecs() {
		o := translateV(sp)
		recv := sp.recv
		if recv != "" {
			recv = "(" + recv + ")."
		}
		what := "returns true"
		if sp.mode == "verr" {
			what = "returns a nil error"
		}
		fmt.Fprintf(&sb, "(* %s: %s%s -- %s *)\n", o.file, recv, sp.fn, what)
		if o.why != "" {
			untr = append(untr, fmt.Sprintf("%s %s%s: %s", sp.dir, recv, sp.fn, o.why))
			untrNames = append(untrNames, sp.name)
			fmt.Fprintf(&sb, "Definition go_%s : gexp := GAtom %s.\n", sp.name, coqStr("UNTRANSLATABLE: "+o.why))
			fmt.Fprintf(&sb, "Definition go_%s_trace : list string := [].\n\n", sp.name)
			continue
		}
		fmt.Fprintf(&sb, "Definition go_%s : gexp :=\n  %s.\n", sp.name, o.g.coq())
		fmt.Fprintf(&sb, "Definition go_%s_trace : list string := %s.\n\n", sp.name, coqStrLines(o.trace, "  "))
		o.g.atoms(allAtoms)
		table = append(table, "("+coqStr(sp.name)+", go_"+sp.name+")")
		traces = append(traces, "("+coqStr(sp.name)+", go_"+sp.name+"_trace)")
	}
	sb.WriteString("(* every translated function *)\nDefinition go_zkguards : list (string * gexp) := [\n  " + strings.Join(table, ";\n  ") + "\n].\n\n")
	sb.WriteString("(* ... and its skeleton *)\nDefinition go_zkguard_traces : list (string * list string) := [\n  " + strings.Join(traces, ";\n  ") + "\n].\n\n")
	var at []string
	for a := range allAtoms {
		at = append(at, a)
	}
	sort.Strings(at)
	sb.WriteString("(* every atom that occurs above (sorted) *)\nDefinition go_zkguard_atoms : list string := " + coqStrLines(at, "  ") + ".\n\n")
	sb.WriteString("(* functions whose body is outside the translated fragment (or missing): must be empty *)\n")
	sb.WriteString("Definition zkguards_untranslatable : list string := " + coqStrList(untr) + ".\n")
	sb.WriteString("Definition zkguards_untranslatable_names : list string := " + coqStrList(untrNames) + ".\n")
	writeFile("ZKGuards.v", sb.String())
	for _, u := range untr {
		fmt.Println("verifgen: zkguards: UNTRANSLATABLE:", u)
	}
}

// =====================================================================================================
// Challenges.v

type fentry struct {
	ctx  []string
	stmt ast.Stmt
}

func (e fentry) text() string {
	var sb strings.Builder
	for _, c := range e.ctx {
		sb.WriteString("[" + c + "] ")
	}
	sb.WriteString(src(e.stmt))
	return sb.String()
}

func isContinueGuard(s ast.Stmt) (string, bool) {
	is, ok := s.(*ast.IfStmt)
	if !ok || is.Init != nil || is.Else != nil || len(is.Body.List) != 1 {
		return "", false
	}
	if b, ok := is.Body.List[0].(*ast.BranchStmt); ok && b.Tok == token.CONTINUE && b.Label == nil {
		return src(is.Cond), true
	}
	return "", false
}

func withCtx(ctx []string, c string) []string {
	return append(append([]string{}, ctx...), c)
}

// flatten: leaf statements in source order, each with the conditions / loops that enclose it
func flatten(stmts []ast.Stmt, ctx []string) []fentry {
	var out []fentry
	for _, s := range stmts {
		if c, ok := isContinueGuard(s); ok {
			ctx = withCtx(ctx, "unless "+c)
			continue
		}
		switch v := s.(type) {
		case *ast.BlockStmt:
			out = append(out, flatten(v.List, ctx)...)
		case *ast.IfStmt:
			if v.Init != nil {
				out = append(out, fentry{ctx, v.Init})
			}
			c := src(v.Cond)
			out = append(out, flatten(v.Body.List, withCtx(ctx, "if "+c))...)
			switch e := v.Else.(type) {
			case *ast.BlockStmt:
				out = append(out, flatten(e.List, withCtx(ctx, "if !("+c+")"))...)
			case *ast.IfStmt:
				out = append(out, flatten([]ast.Stmt{e}, withCtx(ctx, "if !("+c+")"))...)
			}
		case *ast.RangeStmt:
			h := "for "
			if v.Key != nil {
				h += src(v.Key)
				if v.Value != nil {
					h += ", " + src(v.Value)
				}
				h += " " + v.Tok.String() + " "
			}
			h += "range " + src(v.X)
			out = append(out, flatten(v.Body.List, withCtx(ctx, h))...)
		case *ast.ForStmt:
			h := "for "
			if v.Init != nil {
				h += src(v.Init)
			}
			h += "; "
			if v.Cond != nil {
				h += src(v.Cond)
			}
			h += "; "
			if v.Post != nil {
				h += src(v.Post)
			}
			out = append(out, flatten(v.Body.List, withCtx(ctx, h))...)
		default:
			out = append(out, fentry{ctx, s})
		}
	}
	return out
}

func mentions(n ast.Node, tracked map[string]bool) bool {
	found := false
	ast.Inspect(n, func(x ast.Node) bool {
		if se, ok := x.(*ast.SelectorExpr); ok {
			// do not look at field names, only at the base
			if mentions(se.X, tracked) {
				found = true
			}
			return false
		}
		if kv, ok := x.(*ast.KeyValueExpr); ok {
			if mentions(kv.Value, tracked) {
				found = true
			}
			return false
		}
		if id, ok := x.(*ast.Ident); ok && tracked[id.Name] {
			found = true
		}
		return !found
	})
	return found
}

// written expressions: the arguments of every <recv>.WriteAny(...) / <recv>.Write(...) call, and of the hash constructors that
// take their input as arguments, in source order
type warg struct {
	recv, prefix string
	e            ast.Expr
}

func writeArgs(entries []fentry, tracked map[string]bool) []warg {
	var out []warg
	for _, e := range entries {
		prefix := ""
		for _, c := range e.ctx {
			if c == "if err != nil" {
				continue
			}
			prefix += "[" + c + "] "
		}
		ast.Inspect(e.stmt, func(x ast.Node) bool {
			ce, ok := x.(*ast.CallExpr)
			if !ok {
				return true
			}
			se, ok := ce.Fun.(*ast.SelectorExpr)
			if !ok {
				return true
			}
			switch se.Sel.Name {
			case "WriteAny", "Write":
				if tracked != nil && !mentions(se.X, tracked) {
					return true
				}
				for _, a := range ce.Args {
					out = append(out, warg{src(se.X), prefix, a})
				}
			case "TaggedHash", "DeriveKey", "NewKeyed":
				for _, a := range ce.Args {
					out = append(out, warg{src(se.X) + "." + se.Sel.Name, prefix, a})
				}
			}
			return true
		})
	}
	return out
}

func writesOf(entries []fentry, tracked map[string]bool) []string {
	var out []string
	for _, w := range writeArgs(entries, tracked) {
		out = append(out, fmt.Sprintf("%s <- %s%s", w.recv, w.prefix, src(w.e)))
	}
	return out
}

// declared type of a written expression of a challenge function: a parameter, a field of a parameter whose type is a struct
// of the same package, or the variable of a range loop over an array parameter; "?" otherwise
func structField(dir, typ, field string) string {
	for _, f := range pkgs[dir] {
		for _, d := range f.Decls {
			gd, ok := d.(*ast.GenDecl)
			if !ok || gd.Tok != token.TYPE {
				continue
			}
			for _, sp := range gd.Specs {
				ts := sp.(*ast.TypeSpec)
				st, ok := ts.Type.(*ast.StructType)
				if !ok || ts.Name.Name != typ {
					continue
				}
				for _, fl := range st.Fields.List {
					for _, n := range fl.Names {
						if n.Name == field {
							return src(fl.Type)
						}
					}
				}
			}
		}
	}
	return "?"
}

func declaredType(dir string, fd *ast.FuncDecl, e ast.Expr) string {
	params := map[string]ast.Expr{}
	for _, f := range fd.Type.Params.List {
		for _, n := range f.Names {
			params[n.Name] = f.Type
		}
	}
	switch v := e.(type) {
	case *ast.Ident:
		if t, ok := params[v.Name]; ok {
			return src(t)
		}
		res := "?"
		ast.Inspect(fd.Body, func(x ast.Node) bool {
			if rs, ok := x.(*ast.RangeStmt); ok {
				if id, ok := rs.Value.(*ast.Ident); ok && id.Name == v.Name {
					if xs, ok := rs.X.(*ast.Ident); ok {
						if at, ok := params[xs.Name].(*ast.ArrayType); ok {
							res = src(at.Elt)
						}
					}
				}
			}
			return true
		})
		return res
	case *ast.SelectorExpr:
		if x, ok := v.X.(*ast.Ident); ok {
			t := params[x.Name]
			if st, ok := t.(*ast.StarExpr); ok {
				t = st.X
			}
			if id, ok := t.(*ast.Ident); ok {
				return structField(dir, id.Name, v.Sel.Name)
			}
		}
	}
	return "?"
}

func samplesOf(fd *ast.FuncDecl) []string {
	var out []string
	ast.Inspect(fd.Body, func(x ast.Node) bool {
		ce, ok := x.(*ast.CallExpr)
		if !ok {
			return true
		}
		if se, ok := ce.Fun.(*ast.SelectorExpr); ok {
			if id, ok := se.X.(*ast.Ident); ok && (id.Name == "sample" || (id.Name == "io" && se.Sel.Name == "ReadFull")) {
				out = append(out, src(ce))
			}
		}
		return true
	})
	return out
}

type hashSpec struct {
	dir, recv, fn, name string
	tracked             []string
}

var hashSpecs = []hashSpec{
	{"internal/round", "", "NewSession", "NewSession", []string{"h"}},
	{"internal/round", "Helper", "HashForID", "Helper_HashForID", []string{"cloned"}},
	{"internal/round", "Helper", "UpdateHashState", "Helper_UpdateHashState", []string{"h"}},
	{"protocols/frost/sign", "round1", "Finalize", "frost_sign_round1", []string{"s_iBytes", "hashKey", "nonceHasher", "a", "nonceDigest"}},
	{"protocols/frost/sign", "round2", "Finalize", "frost_sign_round2", []string{"rhoPreHash", "rhoHash", "cHash", "RBytes", "PBytes"}},
	{"protocols/doerner/sign", "round1S", "Finalize", "doerner_sign_round1S", []string{"H", "tag0", "tag1", "tag2"}},
	{"protocols/doerner/sign", "round2R", "Finalize", "doerner_sign_round2R", []string{"hash"}},
	{"protocols/doerner/sign", "round1R", "Finalize", "doerner_sign_round1R", []string{"tag0", "tag1", "tag2"}},
}

// hash slice: the leaf statements that mention a tracked identifier; a local assigned from <tracked>.Clone() / .Digest() / .Fork()
// becomes tracked itself
func hashSlice(fd *ast.FuncDecl, names []string) ([]fentry, map[string]bool) {
	tracked := map[string]bool{}
	for _, n := range names {
		tracked[n] = true
	}
	var out []fentry
	for _, e := range flatten(fd.Body.List, nil) {
		if !mentions(e.stmt, tracked) {
			continue
		}
		out = append(out, e)
		if as, ok := e.stmt.(*ast.AssignStmt); ok && len(as.Rhs) == 1 {
			if ce, ok := as.Rhs[0].(*ast.CallExpr); ok {
				if se, ok := ce.Fun.(*ast.SelectorExpr); ok && (se.Sel.Name == "Clone" || se.Sel.Name == "Digest" || se.Sel.Name == "Fork") && mentions(se.X, tracked) {
					for _, l := range as.Lhs {
						if id, ok := l.(*ast.Ident); ok && id.Name != "_" {
							tracked[id.Name] = true
						}
					}
				}
			}
		}
	}
	return out, tracked
}

func genChallenges() {
	var sb strings.Builder
	sb.WriteString("From Coq Require Import String List.\nImport ListNotations.\nLocal Open Scope string_scope.\n\n")
	sb.WriteString("(* what the code writes into its hashes, in order (gen/gen_zk.go).\n" +
		"   go_zk<sys>_challenge_writes : \"<hash> <- <expression>\" for every argument of every WriteAny call of challenge(), in order\n" +
		"                                 (a loop is \"[for ...] <expression>\");\n" +
		"   ..._samples : the sample.* / io.ReadFull calls, in order;  ..._params : the parameters;\n" +
		"   ..._body : every leaf statement of the function with its enclosing conditions;  ..._calls : every call site in the package. *)\n\n")
	var systems []string
	for _, dir := range sortedDirs("pkg/zk/") {
		sys := strings.TrimPrefix(dir, "pkg/zk/")
		fd := findFunc(dir, "", "challenge")
		if fd == nil {
			continue
		}
		used[fileOf(fd)] = true
		systems = append(systems, sys)
		entries := flatten(fd.Body.List, nil)
		var params, body, calls []string
		for _, f := range fd.Type.Params.List {
			for _, n := range f.Names {
				params = append(params, n.Name+" "+src(f.Type))
			}
		}
		for _, e := range entries {
			body = append(body, e.text())
		}
		for _, f := range pkgs[dir] {
			for _, d := range f.Decls {
				g, ok := d.(*ast.FuncDecl)
				if !ok || g.Body == nil {
					continue
				}
				ast.Inspect(g.Body, func(x ast.Node) bool {
					if ce, ok := x.(*ast.CallExpr); ok {
						if id, ok := ce.Fun.(*ast.Ident); ok && id.Name == "challenge" {
							r := recvType(g)
							if r != "" {
								r = "(" + r + ")."
							}
							calls = append(calls, r+g.Name.Name+": "+src(ce))
						}
					}
					return true
				})
			}
		}
		fmt.Fprintf(&sb, "(* %s *)\n", fileOf(fd))
		fmt.Fprintf(&sb, "Definition go_zk%s_challenge_params : list string := %s.\n", sys, coqStrList(params))
		fmt.Fprintf(&sb, "Definition go_zk%s_challenge_writes : list string := %s.\n", sys, coqStrLines(writesOf(entries, nil), "  "))
		var wtypes []string
		for _, w := range writeArgs(entries, nil) {
			wtypes = append(wtypes, declaredType(dir, fd, w.e))
		}
		fmt.Fprintf(&sb, "Definition go_zk%s_challenge_write_types : list string := %s.\n", sys, coqStrList(wtypes))
		fmt.Fprintf(&sb, "Definition go_zk%s_challenge_samples : list string := %s.\n", sys, coqStrList(samplesOf(fd)))
		fmt.Fprintf(&sb, "Definition go_zk%s_challenge_body : list string := %s.\n", sys, coqStrLines(body, "  "))
		fmt.Fprintf(&sb, "Definition go_zk%s_challenge_calls : list string := %s.\n\n", sys, coqStrLines(calls, "  "))
	}
	sb.WriteString("(* the packages below pkg/zk that have a challenge function *)\nDefinition go_zk_systems : list string := " + coqStrList(systems) + ".\n\n")

	sb.WriteString("(* hash slices: go_<f>_hash_trace = the leaf statements of <f> that mention the tracked hash identifiers (with enclosing\n" +
		"   conditions; `if c { continue }` is \"unless c\"), go_<f>_writes = the written expressions, go_<f>_tracked = the identifiers *)\n\n")
	var missing []string
	for _, hs := range hashSpecs {
		fd := findFunc(hs.dir, hs.recv, hs.fn)
		if fd == nil {
			missing = append(missing, hs.name)
			fmt.Fprintf(&sb, "Definition go_%s_hash_trace : list string := [].\nDefinition go_%s_writes : list string := [].\nDefinition go_%s_tracked : list string := [].\n\n", hs.name, hs.name, hs.name)
			continue
		}
		used[fileOf(fd)] = true
		entries, tracked := hashSlice(fd, hs.tracked)
		var tr, tn []string
		for _, e := range entries {
			tr = append(tr, e.text())
		}
		for n := range tracked {
			tn = append(tn, n)
		}
		sort.Strings(tn)
		recv := hs.recv
		if recv != "" {
			recv = "(" + recv + ")."
		}
		fmt.Fprintf(&sb, "(* %s: %s%s *)\n", fileOf(fd), recv, hs.fn)
		fmt.Fprintf(&sb, "Definition go_%s_hash_trace : list string := %s.\n", hs.name, coqStrLines(tr, "  "))
		fmt.Fprintf(&sb, "Definition go_%s_writes : list string := %s.\n", hs.name, coqStrLines(writesOf(entries, tracked), "  "))
		fmt.Fprintf(&sb, "Definition go_%s_tracked : list string := %s.\n\n", hs.name, coqStrList(tn))
	}
	sb.WriteString("(* listed functions that were not found: must be empty *)\nDefinition challenges_missing : list string := " + coqStrList(missing) + ".\n")
	writeFile("Challenges.v", sb.String())
	for _, m := range missing {
		fmt.Println("verifgen: challenges: MISSING:", m)
	}
}
