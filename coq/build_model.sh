#!/bin/sh
# extracts Model/Dispatch.run and builds the OCaml driver  coq/Extract/out/mpsmodel
set -e
# the extracted file is large (big constants become nested expressions): the OCaml compiler needs a deep stack
ulimit -s unlimited 2>/dev/null || ulimit -s 1000000 2>/dev/null || true
mkdir -p "$(dirname "$0")/Extract/out"
cd "$(dirname "$0")/Extract/out"
rm -f mpsmodel.ml mpsmodel.mli
coqc -Q ../.. MPS -w -extraction ../Extract.v >/dev/null
rm -f ../Extract.vo ../Extract.glob ../.Extract.aux ../Extract.vos ../Extract.vok
cp ../driver.ml driver.ml
ocamlfind ocamlopt -O3 -package zarith -linkpkg mpsmodel.mli mpsmodel.ml driver.ml -o mpsmodel 2>/dev/null \
 || ocamlfind ocamlopt -package zarith -linkpkg mpsmodel.mli mpsmodel.ml driver.ml -o mpsmodel
