#!/bin/sh
# regenerates _CoqProject (file list) and Makefile.coq; files listed in EXCLUDE (work in progress) are left out
cd "$(dirname "$0")"
touch EXCLUDE
{ cat _CoqProject.base; find Model Proofs Properties Generated -name '*.v' | grep -v '/_cases_' | sort | grep -v -x -F -f EXCLUDE; } > _CoqProject.new
if ! cmp -s _CoqProject.new _CoqProject 2>/dev/null || [ ! -f Makefile.coq ]; then
  mv _CoqProject.new _CoqProject
  coq_makefile -f _CoqProject -o Makefile.coq >/dev/null
else
  rm -f _CoqProject.new
fi
