#!/bin/sh
# regenerates _CoqProject (file list) and Makefile.coq
cd "$(dirname "$0")"
{ cat _CoqProject.base; find Model Proofs Properties Generated -name '*.v' | sort; } > _CoqProject
coq_makefile -f _CoqProject -o Makefile.coq >/dev/null
