(* C05 (handler level) -- no message can crash the handler; invalid messages end in a clean abort; a message on
   which the round code PANICS (while decoding / verifying / storing it, or later in Finalize of its round) ends in a
   clean abort naming nobody.
   Model: Model/Handler.v.  What the round code does with a message is the oracle pair [m_valid] (decode +
   Verify/Store succeed) and [m_panic] (the round code panics on it, and where); totality of the per-round
   decoders/verifiers is the subject of the other C05 files.  [accept] = Accept as it is (deferred recoverToAbort),
   [accept_v0] = Accept before that fix (its body, nothing recovered).
   Only statements, each closed by [exact] of a lemma proved in Proofs/HandlerProofs.v. *)
From Coq Require Import List NArith ZArith Bool Arith Lia.
From MPS Require Import Model.Handler Proofs.HandlerProofs.
Import ListNotations.

(* CanAccept is exactly a conjunction of header conditions ... *)
Theorem C05_can_accept_total_spec : forall s m,
  can_accept s m = true <->
  ( m_from m <> h_self s
    /\ (m_to m = None \/ m_to m = Some (h_self s))
    /\ m_proto m = h_proto s
    /\ m_ssid m = h_ssid s
    /\ m_from m < h_n s
    /\ m_data m = true
    /\ m_round m <= sh_final (h_shape s)
    /\ (m_round m = 0 \/ h_cur s <= m_round m) ).
Proof. exact can_accept_total_spec. Qed.
Print Assumptions C05_can_accept_total_spec.

(* ... and never looks at the payload, its validity, the broadcast flag or the attached view hash *)
Theorem C05_can_accept_header_only : forall s m m',
  m_ssid m = m_ssid m' /\ m_proto m = m_proto m' /\ m_from m = m_from m' /\ m_to m = m_to m'
  /\ m_round m = m_round m' /\ m_data m = m_data m' ->
  can_accept s m = can_accept s m'.
Proof. exact can_accept_header_only. Qed.

(* Accept of ANY message in ANY reachable state (repaired Stop guard) does not panic *)
Theorem C05_accept_no_panic : forall vh ofp self n ssid proto sh s m,
  reachable true vh ofp self n ssid proto sh s ->
  forall w, h_rt (accept vh ofp s m) <> Panicked w.
Proof. exact accept_no_panic. Qed.
Print Assumptions C05_accept_no_panic.

(* An accepted, fresh message of the current round that the round rejects, that was sent under our own
   broadcast view ([same_view]: the attached digest equals ours for the previous round, if we have one), and
   that is processed now (a broadcast; or a p2p message whose round has no broadcast or whose sender's
   broadcast is already stored -- otherwise it waits), ends the session in a clean abort naming exactly the sender. *)
Theorem C05_invalid_message_clean_abort : forall vh ofp self n ssid proto sh s m,
  reachable true vh ofp self n ssid proto sh s ->
  h_rt s = Running -> terminal s = false ->
  can_accept s m = true -> duplicate s m = false ->
  0 < m_round m -> m_round m = h_cur s -> m_valid m = false -> same_view s m = true ->
  (m_bcast m = true \/ sh_bcast (h_shape s) (m_round m) = false \/ slot s true (m_round m) (m_from m) <> None) ->
  let s' := accept vh ofp s m in
  h_closes s' = 1 /\ result_class s' = 2 /\ h_err s' = Some ([m_from m], EVerify) /\ h_rt s' = Running.
Proof. exact invalid_message_clean_abort. Qed.
Print Assumptions C05_invalid_message_clean_abort.

(* The same message sent under a DIFFERENT broadcast view (valid or not) also ends in a clean abort, naming nobody. *)
Theorem C05_foreign_view_clean_abort : forall vh ofp self n ssid proto sh s m,
  reachable true vh ofp self n ssid proto sh s ->
  h_rt s = Running -> terminal s = false ->
  can_accept s m = true -> duplicate s m = false ->
  0 < m_round m -> m_round m = h_cur s -> same_view s m = false ->
  (m_bcast m = true \/ sh_bcast (h_shape s) (m_round m) = false \/ slot s true (m_round m) (m_from m) <> None) ->
  let s' := accept vh ofp s m in
  h_closes s' = 1 /\ result_class s' = 2 /\ h_err s' = Some ([], EBroadcastHash) /\ h_rt s' = Running.
Proof. exact foreign_view_clean_abort. Qed.
Print Assumptions C05_foreign_view_clean_abort.

(* -- a panic of the round code is contained --
   Whenever the call would have crashed the handler without the recovery ([accept_v0] ends [Panicked]), on ANY
   reachable running state and for ANY message (whichever message of whichever round the round code panics on, in
   verify or in Finalize, directly or through a queued message after a round change):
   it is the round code that panicked (code 3), never a channel operation; the session had not ended; and Accept
   leaves: runtime Running (no escaping panic), error "panic while processing message" with NO culprit, no result,
   channel closed exactly once, abort notice sent iff the channel had room; round number, reached rounds, both
   queues (the message panicked on stays stored) and view digests are exactly what the body had done up to the panic. *)
Theorem C05_handler_panic_contained : forall vh ofp self n ssid proto sh s m,
  reachable true vh ofp self n ssid proto sh s -> h_rt s = Running ->
  is_panicked (h_rt (accept_v0 vh ofp s m)) = true ->
  let b := accept_v0 vh ofp s m in
  let s' := accept vh ofp s m in
  h_rt b = Panicked 3
  /\ terminal s = false /\ h_closes s = 0
  /\ h_rt s' = Running
  /\ h_err s' = Some ([], EPanic) /\ h_res s' = false /\ result_class s' = 2 /\ terminal s' = true
  /\ h_closes s' = 1
  /\ h_cur s' = h_cur b /\ h_reached s' = h_reached b /\ h_qb s' = h_qb b /\ h_qp s' = h_qp b
  /\ h_hashes s' = h_hashes b
  /\ h_out s' = (if h_pending b <? capacity b then h_out b ++ [mkOut None 0 false 0%N] else h_out b)
  /\ h_pending s' = (if h_pending b <? capacity b then S (h_pending b) else h_pending b).
Proof. exact panic_contained. Qed.
Print Assumptions C05_handler_panic_contained.

(* the same for any state satisfying the lifecycle invariant (no reachability needed) *)
Theorem C05_handler_panic_contained_inv : forall vh ofp s m,
  life_ok s -> h_rt s = Running ->
  is_panicked (h_rt (accept_v0 vh ofp s m)) = true ->
  h_rt (accept_v0 vh ofp s m) = Panicked 3
  /\ terminal s = false /\ h_closes s = 0
  /\ recovered_from (accept_v0 vh ofp s m) (accept vh ofp s m).
Proof. exact panic_contained_inv. Qed.
Print Assumptions C05_handler_panic_contained_inv.

(* on every other call the two handlers do the same *)
Theorem C05_handler_accept_v0_agrees : forall vh ofp s m,
  is_panicked (h_rt (accept_v0 vh ofp s m)) = false -> accept vh ofp s m = accept_v0 vh ofp s m.
Proof. exact accept_v0_agrees. Qed.
Print Assumptions C05_handler_accept_v0_agrees.

(* The direct case: a fresh message of the current round that the round would accept, sent under our broadcast
   view, of a kind the round expects, processed now, on which the round code panics: the message is stored
   (handler.go stores before it verifies), then the session is aborted in exactly that state. *)
Theorem C05_handler_panicking_message_current : forall vh ofp self n ssid proto sh s m,
  reachable true vh ofp self n ssid proto sh s ->
  h_rt s = Running -> terminal s = false ->
  can_accept s m = true -> duplicate s m = false ->
  0 < m_round m -> m_round m = h_cur s ->
  m_valid m = true -> panics_verify m = true -> same_view s m = true ->
  (if m_bcast m then sh_bcast (h_shape s) (m_round m) = true
   else sh_p2p (h_shape s) (m_round m) <> NoP2P
        /\ (sh_bcast (h_shape s) (m_round m) = false \/ slot s true (m_round m) (m_from m) <> None)) ->
  let s' := accept vh ofp s m in
  s' = abort (store s m) (Some ([], EPanic))
  /\ h_rt (accept_v0 vh ofp s m) = Panicked 3
  /\ h_closes s' = 1 /\ result_class s' = 2 /\ h_err s' = Some ([], EPanic) /\ h_rt s' = Running
  /\ h_cur s' = h_cur s
  /\ slot s' (m_bcast m) (m_round m) (m_from m) = Some m.
Proof. exact panicking_message_current. Qed.
Print Assumptions C05_handler_panicking_message_current.

(* conversely the error "panic while processing message" is reported ONLY for a call in which the round code
   panicked, and it names nobody *)
Theorem C05_handler_epanic_only_by_recovery : forall fixed vh ofp self n ssid proto sh s m c,
  reachable fixed vh ofp self n ssid proto sh s ->
  h_err s = None ->
  h_err (accept vh ofp s m) = Some (c, EPanic) ->
  c = [] /\ is_panicked (h_rt (accept_v0 vh ofp s m)) = true.
Proof. exact epanic_only_by_recovery. Qed.
Print Assumptions C05_handler_epanic_only_by_recovery.

(* while no queued or arriving message makes the round code panic ([calm]), the recovery never fires *)
Theorem C05_handler_calm_accept : forall vh ofp s m,
  m_panic m = NoPanic -> calm s -> life_ok s ->
  accept vh ofp s m = accept_v0 vh ofp s m /\ calm (accept vh ofp s m).
Proof. exact calm_accept. Qed.
Print Assumptions C05_handler_calm_accept.

(* -- non-vacuity: an invalid broadcast, and an invalid p2p message after the sender's broadcast -- *)
Example C05_ex_invalid_broadcast :
  let m := ex_b 1 2 0 false in
  reachable true ex_vh ex_ofp 0 3 7 9 ex_shape ex_start
  /\ h_rt ex_start = Running /\ terminal ex_start = false
  /\ can_accept ex_start m = true /\ duplicate ex_start m = false
  /\ 0 < m_round m /\ m_round m = h_cur ex_start /\ m_valid m = false /\ same_view ex_start m = true /\ m_bcast m = true
  /\ h_err (accept ex_vh ex_ofp ex_start m) = Some ([1], EVerify).
Proof. split; [exists []; reflexivity|]. vm_compute. repeat split; lia. Qed.

Example C05_ex_invalid_p2p_after_broadcast :
  let s := run_api true ex_vh ex_ofp ex_start [Accept (ex_b 2 2 0 true)] in
  let m := ex_p 2 2 0 false in
  can_accept s m = true /\ duplicate s m = false /\ m_round m = h_cur s /\ same_view s m = true
  /\ slot s true (m_round m) (m_from m) <> None
  /\ h_err (accept ex_vh ex_ofp s m) = Some ([2], EVerify) /\ h_closes (accept ex_vh ex_ofp s m) = 1.
Proof. vm_compute. repeat split; discriminate. Qed.

(* the same p2p message BEFORE the sender's broadcast is only queued (the "processed now" premise matters) *)
Example C05_ex_invalid_p2p_waits :
  let m := ex_p 2 2 0 false in
  h_err (accept ex_vh ex_ofp ex_start m) = None /\ length (h_qp (accept ex_vh ex_ofp ex_start m)) = 1.
Proof. vm_compute. repeat split. Qed.

(* a round-3 broadcast carrying a view digest different from ours (ours is 102): clean abort, nobody named,
   whether or not the round would have accepted the payload *)
Example C05_ex_foreign_view :
  let s := run_api true ex_vh ex_ofp ex_start (firstn 5 ex_honest) in
  let m := ex_b 1 3 999 false in
  h_rt s = Running /\ terminal s = false /\ can_accept s m = true /\ duplicate s m = false
  /\ m_round m = h_cur s /\ same_view s m = false
  /\ h_err (accept ex_vh ex_ofp s m) = Some ([], EBroadcastHash) /\ h_closes (accept ex_vh ex_ofp s m) = 1.
Proof. vm_compute. repeat split. Qed.

(* -- non-vacuity for the recovered panics (n = 3, party 0; rounds: 2 = broadcast + p2p, 3 = broadcast) -- *)
(* (a) the round code panics on a broadcast of the current round: stored, then clean abort; round not advanced *)
Example C05_ex_panic_on_current_broadcast :
  let m := ex_bx 1 2 0 PanicVerify in
  reachable true ex_vh ex_ofp 0 3 7 9 ex_shape ex_start
  /\ h_rt ex_start = Running /\ terminal ex_start = false
  /\ can_accept ex_start m = true /\ duplicate ex_start m = false /\ m_round m = h_cur ex_start
  /\ m_valid m = true /\ panics_verify m = true /\ same_view ex_start m = true
  /\ sh_bcast (h_shape ex_start) (m_round m) = true
  /\ h_rt (accept_v0 ex_vh ex_ofp ex_start m) = Panicked 3
  /\ h_rt (accept ex_vh ex_ofp ex_start m) = Running
  /\ h_err (accept ex_vh ex_ofp ex_start m) = Some ([], EPanic)
  /\ h_closes (accept ex_vh ex_ofp ex_start m) = 1
  /\ h_cur (accept ex_vh ex_ofp ex_start m) = 2
  /\ slot (accept ex_vh ex_ofp ex_start m) true 2 1 = Some m.
Proof. split; [exists []; reflexivity|]. vm_compute. repeat split. Qed.

(* (b) the round code panics on a QUEUED round-3 broadcast when round 2 completes: by then the round-3 message of
   this party has been forwarded and the round has advanced; the abort notice follows it *)
Example C05_ex_panic_on_queued_message :
  let early := ex_bx 1 3 102 PanicVerify in
  let s := run_api true ex_vh ex_ofp ex_start
             [Accept early; Accept (ex_b 1 2 0 true); Accept (ex_p 1 2 0 true); Accept (ex_p 2 2 0 true); Drain 3] in
  let m := ex_b 2 2 0 true in            (* the last round-2 message: a perfectly good one *)
  h_err s = None /\ h_cur s = 2 /\ m_panic m = NoPanic
  /\ h_rt (accept_v0 ex_vh ex_ofp s m) = Panicked 3
  /\ h_rt (accept ex_vh ex_ofp s m) = Running
  /\ h_err (accept ex_vh ex_ofp s m) = Some ([], EPanic)
  /\ h_closes (accept ex_vh ex_ofp s m) = 1
  /\ h_cur (accept ex_vh ex_ofp s m) = 3
  /\ skipn (length (h_out s)) (h_out (accept ex_vh ex_ofp s m)) = [mkOut None 3 true 102%N; mkOut None 0 false 0%N]
  /\ map fst (h_hashes (accept ex_vh ex_ofp s m)) = [2].
Proof. vm_compute. repeat split. Qed.

(* (c) Finalize of round 2 panics on an input that passed verification: the view digest of round 2 has been recorded,
   nothing of round 3 was forwarded, the round did not advance *)
Example C05_ex_panic_in_finalize :
  let s := run_api true ex_vh ex_ofp ex_start
             [Accept (ex_b 1 2 0 true); Accept (ex_px 1 2 0 PanicFinalize); Accept (ex_p 2 2 0 true); Drain 3] in
  let m := ex_b 2 2 0 true in
  h_err s = None /\ h_cur s = 2 /\ h_hashes s = []
  /\ h_rt (accept_v0 ex_vh ex_ofp s m) = Panicked 3
  /\ h_rt (accept ex_vh ex_ofp s m) = Running
  /\ h_err (accept ex_vh ex_ofp s m) = Some ([], EPanic)
  /\ h_closes (accept ex_vh ex_ofp s m) = 1
  /\ h_cur (accept ex_vh ex_ofp s m) = 2
  /\ skipn (length (h_out s)) (h_out (accept ex_vh ex_ofp s m)) = [mkOut None 0 false 0%N]
  /\ map fst (h_hashes (accept ex_vh ex_ofp s m)) = [2].
Proof. vm_compute. repeat split. Qed.

(* (d) a message the round REJECTS is rejected whatever its panic flag says; one sent under a foreign view is never
   handed to the round code *)
Example C05_ex_rejected_before_panic :
  h_err (accept ex_vh ex_ofp ex_start (mkMsg 7 9 1 None 2 true true 0 21 false PanicVerify)) = Some ([1], EVerify)
  /\ (let s := run_api true ex_vh ex_ofp ex_start (firstn 5 ex_honest) in
      h_err (accept ex_vh ex_ofp s (ex_bx 1 3 999 PanicVerify)) = Some ([], EBroadcastHash)).
Proof. vm_compute. repeat split. Qed.
