(* C05 (handler level) -- no message can crash the handler; invalid messages end in a clean abort.
   Model: Model/Handler.v.  The validity of a message for its round (decode + Verify/Store succeed) is the
   oracle bit [m_valid]; totality of the per-round decoders/verifiers is the subject of the other C05 files.
   Only statements, each closed by [exact] of a lemma proved in Proofs/HandlerProofs.v. *)
From Coq Require Import List NArith ZArith Bool Arith Lia.
From MPS Require Import Model.Handler Proofs.HandlerProofs.
Import ListNotations.

(* CanAccept is exactly a conjunction of header conditions ... *)
Theorem C05_can_accept_total_spec : forall s m,
  can_accept s m = true <->
  ( m_from m <> h_self s
    /\ (m_to m = None \/ m_to m = Some (h_self s))
    /\ m_proto m = h_proto s
    /\ m_ssid m = h_ssid s
    /\ m_from m < h_n s
    /\ m_data m = true
    /\ m_round m <= sh_final (h_shape s)
    /\ (m_round m = 0 \/ h_cur s <= m_round m) ).
Proof. exact can_accept_total_spec. Qed.
Print Assumptions C05_can_accept_total_spec.

(* ... and never looks at the payload, its validity, the broadcast flag or the attached view hash *)
Theorem C05_can_accept_header_only : forall s m m',
  m_ssid m = m_ssid m' /\ m_proto m = m_proto m' /\ m_from m = m_from m' /\ m_to m = m_to m'
  /\ m_round m = m_round m' /\ m_data m = m_data m' ->
  can_accept s m = can_accept s m'.
Proof. exact can_accept_header_only. Qed.

(* Accept of ANY message in ANY reachable state (repaired Stop guard) does not panic *)
Theorem C05_accept_no_panic : forall vh ofp self n ssid proto sh s m,
  reachable true vh ofp self n ssid proto sh s ->
  forall w, h_rt (accept vh ofp s m) <> Panicked w.
Proof. exact accept_no_panic. Qed.
Print Assumptions C05_accept_no_panic.

(* An accepted, fresh message of the current round that the round rejects, that was sent under our own
   broadcast view ([same_view]: the attached digest equals ours for the previous round, if we have one), and
   that is processed now (a broadcast; or a p2p message whose round has no broadcast or whose sender's
   broadcast is already stored -- otherwise it waits), ends the session in a clean abort naming exactly the sender. *)
Theorem C05_invalid_message_clean_abort : forall vh ofp self n ssid proto sh s m,
  reachable true vh ofp self n ssid proto sh s ->
  h_rt s = Running -> terminal s = false ->
  can_accept s m = true -> duplicate s m = false ->
  0 < m_round m -> m_round m = h_cur s -> m_valid m = false -> same_view s m = true ->
  (m_bcast m = true \/ sh_bcast (h_shape s) (m_round m) = false \/ slot s true (m_round m) (m_from m) <> None) ->
  let s' := accept vh ofp s m in
  h_closes s' = 1 /\ result_class s' = 2 /\ h_err s' = Some ([m_from m], EVerify) /\ h_rt s' = Running.
Proof. exact invalid_message_clean_abort. Qed.
Print Assumptions C05_invalid_message_clean_abort.

(* The same message sent under a DIFFERENT broadcast view (valid or not) also ends in a clean abort, naming nobody. *)
Theorem C05_foreign_view_clean_abort : forall vh ofp self n ssid proto sh s m,
  reachable true vh ofp self n ssid proto sh s ->
  h_rt s = Running -> terminal s = false ->
  can_accept s m = true -> duplicate s m = false ->
  0 < m_round m -> m_round m = h_cur s -> same_view s m = false ->
  (m_bcast m = true \/ sh_bcast (h_shape s) (m_round m) = false \/ slot s true (m_round m) (m_from m) <> None) ->
  let s' := accept vh ofp s m in
  h_closes s' = 1 /\ result_class s' = 2 /\ h_err s' = Some ([], EBroadcastHash) /\ h_rt s' = Running.
Proof. exact foreign_view_clean_abort. Qed.
Print Assumptions C05_foreign_view_clean_abort.

(* -- non-vacuity: an invalid broadcast, and an invalid p2p message after the sender's broadcast -- *)
Example C05_ex_invalid_broadcast :
  let m := ex_b 1 2 0 false in
  reachable true ex_vh ex_ofp 0 3 7 9 ex_shape ex_start
  /\ h_rt ex_start = Running /\ terminal ex_start = false
  /\ can_accept ex_start m = true /\ duplicate ex_start m = false
  /\ 0 < m_round m /\ m_round m = h_cur ex_start /\ m_valid m = false /\ same_view ex_start m = true /\ m_bcast m = true
  /\ h_err (accept ex_vh ex_ofp ex_start m) = Some ([1], EVerify).
Proof. split; [exists []; reflexivity|]. vm_compute. repeat split; lia. Qed.

Example C05_ex_invalid_p2p_after_broadcast :
  let s := run_api true ex_vh ex_ofp ex_start [Accept (ex_b 2 2 0 true)] in
  let m := ex_p 2 2 0 false in
  can_accept s m = true /\ duplicate s m = false /\ m_round m = h_cur s /\ same_view s m = true
  /\ slot s true (m_round m) (m_from m) <> None
  /\ h_err (accept ex_vh ex_ofp s m) = Some ([2], EVerify) /\ h_closes (accept ex_vh ex_ofp s m) = 1.
Proof. vm_compute. repeat split; discriminate. Qed.

(* the same p2p message BEFORE the sender's broadcast is only queued (the "processed now" premise matters) *)
Example C05_ex_invalid_p2p_waits :
  let m := ex_p 2 2 0 false in
  h_err (accept ex_vh ex_ofp ex_start m) = None /\ length (h_qp (accept ex_vh ex_ofp ex_start m)) = 1.
Proof. vm_compute. repeat split. Qed.

(* a round-3 broadcast carrying a view digest different from ours (ours is 102): clean abort, nobody named,
   whether or not the round would have accepted the payload *)
Example C05_ex_foreign_view :
  let s := run_api true ex_vh ex_ofp ex_start (firstn 5 ex_honest) in
  let m := ex_b 1 3 999 false in
  h_rt s = Running /\ terminal s = false /\ can_accept s m = true /\ duplicate s m = false
  /\ m_round m = h_cur s /\ same_view s m = false
  /\ h_err (accept ex_vh ex_ofp s m) = Some ([], EBroadcastHash) /\ h_closes (accept ex_vh ex_ofp s m) = 1.
Proof. vm_compute. repeat split. Qed.
