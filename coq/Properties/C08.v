(* C08 -- Refresh preserves the key and retires old shares, across any history (algebra).
   Only statements, each closed by [exact] of a lemma proved in Proofs/Sharing.v, followed by Print Assumptions,
   plus Examples in Z_101.  [GoodSharing sk st] is the conjunction of the C02 conditions: distinct non-zero party
   scalars, t < n, share_i . g = table_i, pk = sk . g, and every subset of >= t+1 parties interpolates to sk. *)
From Coq Require Import List Arith Lia Field Permutation Bool ZArith.
From MPS Require Import Model.Poly Proofs.FieldPoly Proofs.Sharing.
Import ListNotations.

Section Abstract.
(* the scalars: an arbitrary field with decidable equality; the group: an arbitrary module over it with a base point *)
Variable F : Type.
Variables (f0 f1 : F) (fadd fmul fsub : F -> F -> F) (fopp : F -> F) (fdiv : F -> F -> F) (finv : F -> F).
Hypothesis FT : field_theory f0 f1 fadd fmul fsub fopp fdiv finv eq.
Hypothesis Feq_dec : forall a b : F, {a = b} + {a <> b}.
Variable G : Type.
Variables (gadd : G -> G -> G) (gzero : G) (gopp : G -> G) (smul : F -> G -> G).
Hypothesis ML : module_laws f1 fadd fmul gadd gzero gopp smul.
Variable g : G.

Notation "0" := f0 : F_scope.
Notation "1" := f1 : F_scope.
Notation "a + b" := (fadd a b) : F_scope.
Notation "a * b" := (fmul a b) : F_scope.
Notation "a - b" := (fsub a b) : F_scope.
Notation "- a" := (fopp a) : F_scope.
Local Open Scope F_scope.
Notation peval := (FieldPoly.peval F f0 fadd fmul).
Notation fsum := (FieldPoly.fsum F f0 fadd).
Notation psum := (FieldPoly.psum F fadd).
Notation lagrange := (FieldPoly.lagrange F f1 fmul fsub finv Feq_dec).
Notation basis_at := (FieldPoly.basis_at F f1 fmul fsub fdiv Feq_dec).
Notation gsum := (FieldPoly.gsum G gadd gzero).
Notation act := (FieldPoly.act F G smul g).
Notation erep := (FieldPoly.erep G).
Notation eeval := (FieldPoly.eeval F G gadd gzero smul).
Notation efull := (FieldPoly.efull G gzero).
Notation econst := (FieldPoly.econst G gzero).
Notation eofpoly := (FieldPoly.eofpoly F f0 Feq_dec G smul g).
Notation esum := (FieldPoly.esum G gadd).
Notation dealt_share := (Sharing.dealt_share F f0 fadd fmul).
Notation Phi := (Sharing.Phi F G gadd gzero smul).
Notation code_table := (Sharing.code_table F G gadd gzero smul).
Notation sum_constants := (Sharing.sum_constants G gadd gzero).
Notation sstate := (Sharing.sstate F G).
Notation GoodSharing := (Sharing.GoodSharing F f0 f1 fadd fmul fsub finv Feq_dec G smul g).
Notation g_faithful := (Sharing.g_faithful F f0 G gzero smul g).
Notation keygen_state := (Sharing.keygen_state F f0 fadd fmul Feq_dec G gadd gzero smul g).
Notation neg_state := (Sharing.neg_state F fopp G gopp).
Notation refresh_state := (Sharing.refresh_state F f0 fadd fmul Feq_dec G gadd gzero smul g).
Notation derive_state := (Sharing.derive_state F fadd G gadd smul g).
Notation op := (Sharing.op F).
Notation step := (Sharing.step F f0 fadd fmul fopp Feq_dec G gadd gzero gopp smul g).
Notation key_step := (Sharing.key_step F fadd fopp).
Notation op_ok := (Sharing.op_ok F f0).
Notation run := (Sharing.run F f0 fadd fmul fopp Feq_dec G gadd gzero gopp smul g).
Notation key_run := (Sharing.key_run F fadd fopp).
Notation frost_share_check := (Sharing.frost_share_check F G gadd smul g).
Notation cmp_round3_shape_ok := (Sharing.cmp_round3_shape_ok G).

(* histories: op := Refresh polys | Derive adj | DeriveTaproot adj odd | Restore;
   op_ok t (Refresh polys) = every polynomial has degree <= t and zero constant (what the code enforces) *)
Theorem C08_history_preserves_sharing : forall ops sk st,
  GoodSharing sk st -> Forall (op_ok (st_t st)) ops -> GoodSharing (key_run sk ops) (run st ops).
Proof. exact (history_preserves_sharing FT Feq_dec ML g). Qed.

(* the key moves only by Derive: a history of refreshes and restores keeps sk and the group public key *)
Theorem C08_key_unchanged_without_derive : forall ops sk st,
  Forall (fun o => match o with Refresh _ | Restore => True | _ => False end) ops ->
  key_run sk ops = sk /\ st_pk (run st ops) = st_pk st.
Proof. exact (fun ops sk st h => conj (key_run_no_derive ops sk h) (run_no_derive_pk Feq_dec g ops st h)). Qed.

(* one refresh step (cmp/frost: zero-constant polynomials, previous share and previous table entry added) *)
Theorem C08_refresh_zero_constant_preserves_key : forall sk st polys,
  GoodSharing sk st -> op_ok (st_t st) (Refresh polys) ->
  GoodSharing sk (refresh_state st polys) /\ st_pk (refresh_state st polys) = st_pk st.
Proof. exact (fun sk st polys h1 h2 => conj (refresh_good FT Feq_dec ML g sk st polys h1 h2) eq_refl). Qed.
(* ... even when other dealers cheat but pass the constant / degree / Feldman checks *)
Theorem C08_refresh_adversarial_preserves_key : forall sk st es (us : F -> list F),
  g_faithful ->
  GoodSharing sk st ->
  Forall (fun e => fst e = true /\ (length (efull e) <= st_t st + 1)%nat) es ->
  (forall x, In x (st_xs st) -> Forall2 (fun u e => act u = eeval e x) (us x) es) ->
  GoodSharing sk (mkSt (st_xs st) (st_t st)
                       (fun x => st_sh st x + fsum (us x))
                       (fun x => gadd (Phi es x) (st_tb st x))
                       (st_pk st)).
Proof. exact (refresh_adversarial_good FT Feq_dec ML g). Qed.
(* Doerner: s_R' = s_R + r_R - r_S, s_S' = s_S + r_S - r_R; Public untouched *)
Theorem C08_doerner_refresh_preserves_key : forall sR sS rR rS pub,
  act (sR + sS) = pub -> act ((sR + rR - rS) + (sS + rS - rR)) = pub.
Proof. exact (doerner_refresh_preserves_key FT g). Qed.

(* with G = sum of the refresh polynomials: party x keeps its share iff G vanishes at x *)
Theorem C08_share_changed_iff : forall st polys x,
  st_sh (refresh_state st polys) x = st_sh st x <-> peval (psum polys) x = 0.
Proof. exact (share_changed_iff FT Feq_dec g). Qed.

(* reconstruction from S = A ++ B with OLD shares on A and NEW shares on B gives sk iff the defect vanishes *)
Theorem C08_mixed_epoch_reconstruct_iff : forall sk st polys A B,
  GoodSharing sk st -> NoDup (A ++ B) -> incl (A ++ B) (st_xs st) -> (st_t st + 1 <= length (A ++ B))%nat ->
  let S := A ++ B in
  let st' := refresh_state st polys in
  (fsum (map (fun x => lagrange S x * st_sh st x) A) + fsum (map (fun x => lagrange S x * st_sh st' x) B) = sk
   <-> fsum (map (fun x => lagrange S x * peval (psum polys) x) B) = 0).
Proof. exact (mixed_epoch_reconstruct_iff FT Feq_dec g). Qed.
(* ... and for a (t+1)-set with both epochs present that defect is not identically zero on admissible refreshes *)
Theorem C08_mixed_defect_nondegenerate : forall A B t,
  NoDup (A ++ B) -> ~ In 0 (A ++ B) -> length (A ++ B) = (t + 1)%nat -> A <> [] -> B <> [] ->
  exists Gp, (length Gp <= t + 1)%nat /\ hd 0 Gp = 0 /\
             fsum (map (fun x => lagrange (A ++ B) x * peval Gp x) B) <> 0.
Proof. exact (mixed_defect_nondegenerate FT Feq_dec). Qed.

(* t = 0: every share equals sk and no admissible refresh changes any share
   (so "every share has changed" cannot hold for threshold 0) *)
Theorem C08_threshold0_shares_fixed : forall sk st,
  GoodSharing sk st -> st_t st = 0%nat ->
  (forall x, In x (st_xs st) -> st_sh st x = sk) /\
  (forall polys, op_ok (st_t st) (Refresh polys) ->
     forall x, st_sh (refresh_state st polys) x = st_sh st x).
Proof. exact (threshold0_shares_fixed FT Feq_dec g). Qed.

(* FROST per-share check  z_i . g == c . (lambda_i . Y_i) + R_i  with a signer still on its pre-refresh share
   and the verifier on the refreshed table: passes iff the refresh polynomial vanishes at x_i *)
Theorem C08_stale_frost_share_rejected_iff : forall s_old Gx c lam d e rho,
  g_faithful -> c <> 0 -> lam <> 0 ->
  let Y_new := act (s_old + Gx) in
  let R := gadd (smul rho (act e)) (act d) in
  let z := lam * s_old * c + d + rho * e in
  frost_share_check c lam Y_new R z <-> Gx = 0.
Proof. exact (stale_frost_share_rejected_iff FT Feq_dec ML g). Qed.

End Abstract.

Print Assumptions C08_history_preserves_sharing.
Print Assumptions C08_key_unchanged_without_derive.
Print Assumptions C08_refresh_zero_constant_preserves_key.
Print Assumptions C08_refresh_adversarial_preserves_key.
Print Assumptions C08_doerner_refresh_preserves_key.
Print Assumptions C08_share_changed_iff.
Print Assumptions C08_mixed_epoch_reconstruct_iff.
Print Assumptions C08_mixed_defect_nondegenerate.
Print Assumptions C08_threshold0_shares_fixed.
Print Assumptions C08_stale_frost_share_rejected_iff.

(* ---- Examples in Z_101 (F = G = Z_101, g = 1), n = 4, t = 2 ---- *)
Section Examples.
Open Scope Z_scope.
Let xs := map z101 [1; 2; 3; 4].
Let fs := [map z101 [5; 7; 9]; map z101 [11; 0; 3]; map z101 [20; 100; 1]].
Let rs := [map z101 [0; 3; 1]; map z101 [0; 8; 8]; map z101 [0; 100; 2]; map z101 [0; 0; 7]].
Let st0 := Sharing.keygen_state _ (zq0 q101) (zqadd q101) (zqmul q101) dec101 _ (zqadd q101) (zq0 q101) (zqmul q101) g101 xs 2 fs.
Let history : list (Sharing.op F101) := [Refresh rs; Restore; Derive (z101 50); Refresh rs; DeriveTaproot (z101 7) true].

Local Notation Good := (Sharing.GoodSharing _ (zq0 q101) (zq1 q101) (zqadd q101) (zqmul q101) (zqsub q101) (zqinv q101) dec101 _ (zqmul q101) g101).
Local Notation Run := (Sharing.run _ (zq0 q101) (zqadd q101) (zqmul q101) (zqopp q101) dec101 _ (zqadd q101) (zq0 q101) (zqopp q101) (zqmul q101) g101).

Lemma C08_ex_st0_good : Good (z101 36) st0.
Proof.
  replace (z101 36) with (FieldPoly.fsum _ (zq0 q101) (zqadd q101) (map (hd (zq0 q101)) fs)) by z101_eq.
  apply (keygen_good FT101 dec101 ML101 g101); [z101_nodup|z101_notin0|cbn; lia|repeat constructor].
Qed.
Lemma C08_ex_history_ok : Forall (Sharing.op_ok _ (zq0 q101) 2) history.
Proof.
  repeat constructor; cbn; try lia; z101_eq.
Qed.
(* C08_history_preserves_sharing: after the whole history the key is -(36 + 50 + 7) = 8 (mod 101) *)
Example C08_ex_history : Good (z101 8) (Run st0 history).
Proof.
  replace (z101 8) with (Sharing.key_run _ (zqadd q101) (zqopp q101) (z101 36) history) by z101_eq.
  exact (C08_history_preserves_sharing _ _ _ _ _ _ _ _ _ FT101 dec101 _ _ _ _ _ ML101 g101 history _ st0
           C08_ex_st0_good C08_ex_history_ok).
Qed.

Local Notation Lag := (FieldPoly.lagrange _ (zq1 q101) (zqmul q101) (zqsub q101) (zqinv q101) dec101).
Local Notation Refr := (Sharing.refresh_state _ (zq0 q101) (zqadd q101) (zqmul q101) dec101 _ (zqadd q101) (zq0 q101) (zqmul q101) g101).
Local Notation Fsum := (FieldPoly.fsum _ (zq0 q101) (zqadd q101)).

(* C08_refresh_zero_constant_preserves_key *)
Example C08_ex_refresh : Good (z101 36) (Refr st0 rs) /\ st_pk (Refr st0 rs) = st_pk st0.
Proof.
  apply (C08_refresh_zero_constant_preserves_key _ _ _ _ _ _ _ _ _ FT101 dec101 _ _ _ _ _ ML101 g101);
    [exact C08_ex_st0_good|]. repeat constructor; cbn; try lia; z101_eq.
Qed.
(* C08_share_changed_iff: G(1) = 28 <> 0, so party 1's share changes *)
Example C08_ex_share_changed : st_sh (Refr st0 rs) (z101 1) <> st_sh st0 (z101 1).
Proof.
  intro H. apply (C08_share_changed_iff _ _ _ _ _ _ _ _ _ FT101 dec101 _ _ _ _ g101) in H. revert H. z101_neq.
Qed.
(* C08_mixed_epoch_reconstruct_iff: old share of party 1 with new shares of parties 2 and 4 does not give the key *)
Example C08_ex_mixed_epoch :
  let S := map z101 [1] ++ map z101 [2; 4] in
  zqadd q101 (Fsum (map (fun x => zqmul q101 (Lag S x) (st_sh st0 x)) (map z101 [1])))
             (Fsum (map (fun x => zqmul q101 (Lag S x) (st_sh (Refr st0 rs) x)) (map z101 [2; 4])))
  <> z101 36.
Proof.
  intros S H.
  apply (C08_mixed_epoch_reconstruct_iff _ _ _ _ _ _ _ _ _ FT101 dec101 _ _ _ _ g101 (z101 36) st0 rs
           (map z101 [1]) (map z101 [2; 4]) C08_ex_st0_good) in H;
    [revert H; z101_neq|z101_nodup|z101_incl|cbn; lia].
Qed.
(* C08_mixed_defect_nondegenerate: hypotheses satisfiable *)
Example C08_ex_nondegenerate :
  exists Gp, (length Gp <= 2 + 1)%nat /\ hd (zq0 q101) Gp = zq0 q101 /\
    Fsum (map (fun x => zqmul q101 (Lag (map z101 [1] ++ map z101 [2; 4]) x)
                                   (FieldPoly.peval _ (zq0 q101) (zqadd q101) (zqmul q101) Gp x)) (map z101 [2; 4]))
    <> zq0 q101.
Proof.
  apply (C08_mixed_defect_nondegenerate _ _ _ _ _ _ _ _ _ FT101 dec101 (map z101 [1]) (map z101 [2; 4]) 2%nat);
    [z101_nodup|z101_notin0|reflexivity|discriminate|discriminate].
Qed.
(* C08_threshold0_shares_fixed: n = 3, t = 0, one dealer with the constant polynomial 36 *)
Example C08_ex_threshold0 :
  let st := Sharing.keygen_state _ (zq0 q101) (zqadd q101) (zqmul q101) dec101 _ (zqadd q101) (zq0 q101) (zqmul q101) g101
              (map z101 [1; 2; 3]) 0 [map z101 [36]] in
  Good (z101 36) st /\ forall x, In x (st_xs st) -> st_sh st x = z101 36.
Proof.
  intros st.
  assert (Hg : Good (z101 36) st).
  { replace (z101 36) with (Fsum (map (hd (zq0 q101)) [map z101 [36]])) by z101_eq.
    apply (keygen_good FT101 dec101 ML101 g101); [z101_nodup|z101_notin0|cbn; lia|repeat constructor]. }
  split; [exact Hg|].
  exact (proj1 (C08_threshold0_shares_fixed _ _ _ _ _ _ _ _ _ FT101 dec101 _ (zqadd q101) (zq0 q101) (zqmul q101) g101 _ st Hg eq_refl)).
Qed.
(* C08_stale_frost_share_rejected_iff: c = 3, lambda = 70, refresh moved the share by 28: the check fails *)
Example C08_ex_stale_frost :
  ~ Sharing.frost_share_check _ _ (zqadd q101) (zqmul q101) g101 (z101 3) (z101 70)
      (zqmul q101 (zqadd q101 (z101 55) (z101 28)) g101)
      (zqadd q101 (zqmul q101 (z101 9) (zqmul q101 (z101 13) g101)) (zqmul q101 (z101 21) g101))
      (zqadd q101 (zqadd q101 (zqmul q101 (zqmul q101 (z101 70) (z101 55)) (z101 3)) (z101 21)) (zqmul q101 (z101 9) (z101 13))).
Proof.
  intro H.
  apply (C08_stale_frost_share_rejected_iff _ _ _ _ _ _ _ _ _ FT101 dec101 _ _ _ _ _ ML101 g101
           (z101 55) (z101 28) (z101 3) (z101 70) (z101 21) (z101 13) (z101 9) faithful101) in H;
    [revert H|..]; z101_neq.
Qed.
End Examples.

Open Scope Z_scope.
(* the same through the executable model: refresh with zero-constant polynomials *)
Example C08_ex_model_refresh :
  let fs := [[5; 7; 9]; [11; 0; 3]; [20; 100; 1]] in
  let rs := [[0; 3; 1]; [0; 8; 8]; [0; 100; 2]; [0; 0; 7]] in
  let old := map (share_of 101 0 fs) [1; 2; 3; 4] in
  let new := map (fun x => share_of 101 (share_of 101 0 fs x) rs x) [1; 2; 3; 4] in
  old = [55; 100; 70; 66] /\ new = [83; 91; 60; 91] /\
  (* all-new and all-old reconstruct 36; every share changed; mixing epochs fails *)
  interpolate0 101 [1; 2; 4] [83; 91; 91] = 36 /\
  interpolate0 101 [1; 2; 4] [55; 100; 66] = 36 /\
  interpolate0 101 [1; 2; 4] [55; 91; 91] <> 36 /\
  interpolate0 101 [1; 2; 4] [83; 100; 66] <> 36 /\
  (* the refresh polynomial G = sum rs has no root among the party scalars *)
  map (horner 101 (Poly.psum 101 rs)) [1; 2; 3; 4] = [28; 92; 91; 25].
Proof. vm_compute. repeat split; discriminate. Qed.
(* t = 0: the only admissible refresh polynomial is [0]; shares stay equal to the key *)
Example C08_ex_model_threshold0 :
  map (fun x => share_of 101 (share_of 101 0 [[36]] x) [[0]; [0]] x) [1; 2; 3] = [36; 36; 36].
Proof. vm_compute. reflexivity. Qed.
