(* C19 -- Transcript hashing is injective and commitments are binding.
   Only statements, each closed by [exact] of a lemma proved in Proofs/, followed by Print Assumptions. *)
From Coq Require Import String.
From Coq Require Import List NArith ZArith Bool.
From MPS Require Import Model.Bytes Model.Framing Proofs.BytesProofs Proofs.FramingProofs Proofs.ListUtil.
From MPS Require Import Generated.Domains.
Import ListNotations.

(* -- framing: the absorbed byte stream determines the item sequence, for every sequence length -- *)
Theorem C19_stream_inj : forall st l1 l2,
  forallb wf_item l1 = true -> forallb wf_item l2 = true ->
  stream st l1 = stream st l2 -> l1 = l2.
Proof. exact stream_inj. Qed.
Print Assumptions C19_stream_inj.

Theorem C19_frame_prefix_free : forall i1 i2 r1 r2,
  wf_item i1 = true -> wf_item i2 = true ->
  frame i1 ++ r1 = frame i2 ++ r2 -> i1 = i2 /\ r1 = r2.
Proof. exact frame_prefix_free. Qed.
Print Assumptions C19_frame_prefix_free.

(* equal digests => equal item sequences, or an explicit collision of the digest function *)
Theorem C19_digest_binding : forall (H : bytes -> bytes) st l1 l2,
  forallb wf_item l1 = true -> forallb wf_item l2 = true ->
  H (stream st l1) = H (stream st l2) ->
  l1 = l2 \/ collision H (stream st l1) (stream st l2).
Proof. exact digest_binding. Qed.
Print Assumptions C19_digest_binding.

(* Clone/Fork are prefix extension; a strict extension never has the same stream *)
Theorem C19_stream_app : forall st l1 l2, stream st (l1 ++ l2) = stream (stream st l1) l2.
Proof. exact stream_app. Qed.
Theorem C19_stream_ext_neq : forall st l i l', stream st l <> stream st (l ++ i :: l').
Proof. exact stream_ext_neq. Qed.
Print Assumptions C19_stream_ext_neq.

(* the attack shapes named in the property *)
Theorem C19_shift_boundary : forall st d1 d2 a b x pre post,
  forallb wf_item (pre ++ it d1 (a ++ [x]) :: it d2 b :: post) = true ->
  forallb wf_item (pre ++ it d1 a :: it d2 (x :: b) :: post) = true ->
  stream st (pre ++ it d1 (a ++ [x]) :: it d2 b :: post)
  <> stream st (pre ++ it d1 a :: it d2 (x :: b) :: post).
Proof. exact shift_boundary_changes_stream. Qed.
Theorem C19_move_between_tag_and_data : forall st d t x pre post,
  forallb wf_item (pre ++ it (d ++ [x]) t :: post) = true ->
  forallb wf_item (pre ++ it d (x :: t) :: post) = true ->
  stream st (pre ++ it (d ++ [x]) t :: post) <> stream st (pre ++ it d (x :: t) :: post).
Proof. exact move_between_tag_and_data_changes_stream. Qed.
Theorem C19_split_merge : forall st d a b d' pre post,
  forallb wf_item (pre ++ it d (a ++ b) :: post) = true ->
  forallb wf_item (pre ++ it d a :: it d' b :: post) = true ->
  stream st (pre ++ it d (a ++ b) :: post) <> stream st (pre ++ it d a :: it d' b :: post).
Proof. exact split_merge_changes_stream. Qed.
Theorem C19_retag : forall st d d' t pre post,
  d <> d' ->
  forallb wf_item (pre ++ it d t :: post) = true ->
  forallb wf_item (pre ++ it d' t :: post) = true ->
  stream st (pre ++ it d t :: post) <> stream st (pre ++ it d' t :: post).
Proof. exact retag_changes_stream. Qed.
Theorem C19_permute : forall st l1 l2,
  l1 <> l2 -> forallb wf_item l1 = true -> forallb wf_item l2 = true ->
  stream st l1 <> stream st l2.
Proof. exact permute_changes_stream. Qed.
Print Assumptions C19_permute.

(* -- commitments -- *)
Theorem C19_commit_binding : forall (H : bytes -> bytes) st c d d' vs vs' l l',
  enc_all vs = Some l -> enc_all vs' = Some l' ->
  forallb wf_item l = true -> forallb wf_item l' = true ->
  wf_bytes d = true -> wf_bytes d' = true ->
  decommit H st c d vs = true -> decommit H st c d' vs' = true ->
  (l = l' /\ d = d') \/
  exists x y, commit_input st vs d = Some x /\ commit_input st vs' d' = Some y /\ collision H x y.
Proof. exact commit_binding. Qed.
Print Assumptions C19_commit_binding.

Theorem C19_decommit_validates_lengths : forall (H : bytes -> bytes) st c d vs,
  decommit H st c d vs = true ->
  length c = 64%nat /\ length d = 32%nat /\ all_zero c = false /\ all_zero d = false.
Proof. exact decommit_validates_lengths. Qed.
Print Assumptions C19_decommit_validates_lengths.

(* -- the one hand-written payload encoder with variable-length parts: party.IDSlice -- *)
Theorem C19_idslice_data_inj : forall l1 l2,
  Forall (fun id => (len id < 256 ^ N.of_nat 8)%N) l1 ->
  Forall (fun id => (len id < 256 ^ N.of_nat 8)%N) l2 ->
  (N.of_nat (length l1) < 256 ^ N.of_nat 8)%N -> (N.of_nat (length l2) < 256 ^ N.of_nat 8)%N ->
  idslice_data l1 = idslice_data l2 -> l1 = l2.
Proof. exact idslice_data_inj. Qed.
Print Assumptions C19_idslice_data_inj.
(* regression witness for the pre-fix encoder (count + raw concatenation) *)
Theorem C19_idslice_v0_refuted : exists a b : list bytes, a <> b /\ idslice_data_v0 a = idslice_data_v0 b.
Proof. exact idslice_v0_not_injective. Qed.

(* -- obligations over facts regenerated from /repo on every run (Generated/Domains.v) -- *)
Definition go_domain_strings : list string :=
  map (fun e => snd e) go_domains ++ go_builtin_domains.

(* "changing an item's type changes the digest": all type tags are pairwise distinct *)
Theorem C19_gen_domains_nodup : NoDup go_domain_strings.
Proof. apply nodupb_str_sound. vm_compute. reflexivity. Qed.

(* every fixed tag the model writes is a tag the code defines *)
Definition model_domain_strings : list string :=
  ["[]byte"; "big.Int"; "ID"; "IDSlice"; "RID"; "Commitment"; "Decommitment"; "Threshold";
   "Round Number"; "Signature Message"; "Empty Message"; "Paillier Ciphertext";
   "Paillier PublicKey"; "Pedersen Parameters"]%string.
Theorem C19_gen_model_domains_in_code :
  forallb (fun s => inb_str s go_domain_strings) model_domain_strings = true.
Proof. vm_compute. reflexivity. Qed.

(* non-vacuity: a concrete well-formed sequence *)
Example C19_wf_example :
  forallb wf_item [mkItem (str "ID") [97]%N; mkItem (str "[]byte") []] = true.
Proof. reflexivity. Qed.
