(* C15 -- Stored key material round-trips; malformed material is refused.
   Only statements, each closed by [exact] of a lemma proved in Proofs/CborProofs.v, followed by
   Print Assumptions; small Examples show that the hypotheses are satisfiable.
   Models: Model/Cbor.v (CBOR subset emitted by fxamacker/cbor v2.4.0, protocol.Message, polynomial.Exponent,
   secp256k1 scalar/point codecs, cmp config.UnmarshalBinary validation, FROST config restore).
   [_refuted] theorems are findings about the code as written; [_v0] names refer to the code BEFORE the fix:
   commits 3cad471 (Message), 7b3b4da (Exponent), 96ab1f0 (point prefix), 8307514 (ValidatePrime), 3216d4d (cmp
   Config.UnmarshalBinary), and the six C15 patches (OT setup marshalling; validating UnmarshalCBOR for frost,
   taproot, doerner configs, PreSignature and Signature; Message refuses empty sender / protocol; NewSession refuses
   ids that are not valid UTF-8): the models of the old code are kept as small *_v0 / *_v1 definitions and their
   refutations stay here as regression examples, next to the positive theorems that hold for the repaired code. *)
From Coq Require Import String.
From Coq Require Import List NArith ZArith Bool Znumtheory.
From MPS Require Import Model.Bytes Model.Sx Model.Secp256k1 Model.Cbor Proofs.CborProofs.
Import ListNotations.

(* ---- CBOR: every well-formed data item (any size, any nesting) decodes back, whatever follows it ---- *)
Theorem C15_cbor_roundtrip : forall v rest,
  wf_cbor v = true -> decode (encode v ++ rest) = Some (v, rest).
Proof. exact cbor_roundtrip. Qed.
Print Assumptions C15_cbor_roundtrip.

Theorem C15_encode_inj : forall v1 v2,
  wf_cbor v1 = true -> wf_cbor v2 = true -> encode v1 = encode v2 -> v1 = v2.
Proof. exact encode_inj. Qed.
Print Assumptions C15_encode_inj.

Theorem C15_encode_prefix_free : forall v1 v2 r1 r2,
  wf_cbor v1 = true -> wf_cbor v2 = true -> encode v1 ++ r1 = encode v2 ++ r2 -> v1 = v2 /\ r1 = r2.
Proof. exact encode_prefix_free. Qed.
Print Assumptions C15_encode_prefix_free.

(* ---- protocol.Message ---- *)
(* restoring into any receiver gives back exactly the message (nil and empty slices stay distinct) *)
Theorem C15_message_roundtrip : forall m0 m rest,
  wf_message m = true -> message_decode m0 (message_encode m ++ rest) = Some m.
Proof. exact message_roundtrip. Qed.
Print Assumptions C15_message_roundtrip.

Theorem C15_message_unmarshal_roundtrip : forall m0 m,
  real_message m = true -> message_unmarshal m0 (message_encode m) = (m, false).
Proof. exact message_unmarshal_roundtrip. Qed.
Print Assumptions C15_message_unmarshal_roundtrip.

Theorem C15_message_encode_inj : forall m1 m2,
  wf_message m1 = true -> wf_message m2 = true -> message_encode m1 = message_encode m2 -> m1 = m2.
Proof. exact message_encode_inj. Qed.
Print Assumptions C15_message_encode_inj.

(* a decoding failure is reported and leaves the receiver as it was (holds since fix 3cad471) *)
Theorem C15_message_unmarshal_reports_errors : forall m0 bs,
  message_decode empty_message bs = None -> message_unmarshal m0 bs = (m0, true).
Proof. exact message_unmarshal_reports_errors. Qed.
Print Assumptions C15_message_unmarshal_reports_errors.

Theorem C15_message_unmarshal_ok_iff : forall m0 bs m,
  message_unmarshal m0 bs = (m, false) <->
  message_decode empty_message bs = Some m /\ nonempty (m_from m) && nonempty (m_protocol m) = true.
Proof. exact message_unmarshal_ok_iff. Qed.
Print Assumptions C15_message_unmarshal_ok_iff.

(* never a silently empty object (holds since the patch that refuses messages without sender or protocol) *)
Theorem C15_message_unmarshal_never_empty : forall m0 bs m,
  message_unmarshal m0 bs = (m, false) -> m_from m <> [] /\ m_protocol m <> [].
Proof. exact message_unmarshal_never_empty. Qed.
Print Assumptions C15_message_unmarshal_never_empty.
Theorem C15_message_null_refused : forall m0,
  message_unmarshal m0 [246%N] = (m0, true) /\ message_unmarshal m0 [160%N] = (m0, true).
Proof. exact message_null_refused. Qed.

(* at the level of Message alone it is still true that a From which is not valid UTF-8 is written without complaint
   and cannot be restored (reported as an error); no session produces such a message: round.NewSession refuses ids
   that are not valid UTF-8 (checked by the harness, class session-ids) *)
Theorem C15_message_invalid_utf8_not_restorable :
  exists m, message_decode empty_message (message_encode m) = None /\
            message_unmarshal empty_message (message_encode m) = (empty_message, true).
Proof. exact message_invalid_utf8_not_restorable. Qed.
Print Assumptions C15_message_invalid_utf8_not_restorable.

(* the code between fix 3cad471 and the patch: 0xf6 gave an empty Message and a nil error *)
Theorem C15_message_v1_null_silently_empty_refuted :
  message_unmarshal_v1 empty_message [246%N] = (empty_message, false).
Proof. exact message_unmarshal_v1_null_silently_empty. Qed.
Print Assumptions C15_message_v1_null_silently_empty_refuted.

(* the old code: UnmarshalBinary returned nil whatever happened *)
Theorem C15_message_unmarshal_v0_never_errors : forall m0 bs, snd (message_unmarshal_v0 m0 bs) = false.
Proof. exact message_unmarshal_v0_never_errors. Qed.
Theorem C15_message_unmarshal_v0_reports_errors_refuted :
  exists bs, message_decode empty_message bs = None /\
             message_unmarshal_v0 empty_message bs = (empty_message, false).
Proof. exact message_unmarshal_v0_reports_errors_refuted. Qed.
Print Assumptions C15_message_unmarshal_v0_reports_errors_refuted.
Theorem C15_message_invalid_utf8_v0_refuted :
  exists m, message_decode empty_message (message_encode m) = None /\
            message_unmarshal_v0 empty_message (message_encode m) = (empty_message, false).
Proof. exact message_invalid_utf8_v0_refuted. Qed.

(* ---- scalars ---- *)
Theorem C15_scalar_decode_iff : forall b s,
  scalar_decode b = Some s <->
  length b = 32%nat /\ wf_bytes b = true /\ s = Z.of_N (be_val b) /\ (s < secp_q)%Z.
Proof. exact scalar_decode_iff. Qed.
Print Assumptions C15_scalar_decode_iff.

Theorem C15_scalar_roundtrip : forall s, (0 <= s < secp_q)%Z -> scalar_decode (scalar_encode s) = Some s.
Proof. exact scalar_roundtrip. Qed.
Theorem C15_scalar_canonical : forall b s, scalar_decode b = Some s -> scalar_encode s = b.
Proof. exact scalar_decode_encode. Qed.
Print Assumptions C15_scalar_canonical.

(* ---- points ---- *)
(* refusal conditions: anything that decodes has 33 bytes and is a finite point of the curve *)
Theorem C15_point_decode_valid : forall b P,
  point_decode b = Some P -> length b = 33%nat /\ valid_point P.
Proof. exact point_decode_valid. Qed.
Print Assumptions C15_point_decode_valid.

(* the identity has no encoding: decoding never yields it, and the 33 bytes MarshalBinary writes for it
   (02 00..00, without an error) are refused by UnmarshalBinary *)
Theorem C15_point_decode_never_identity : forall b, point_decode b <> Some None.
Proof. exact point_decode_never_identity. Qed.
Theorem C15_point_identity_not_restorable : point_decode (point_encode None) = None.
Proof. exact point_identity_not_restorable. Qed.
Print Assumptions C15_point_identity_not_restorable.

(* round trip for every finite curve point; premise: the field characteristic is prime (DESIGN 1.3) *)
Theorem C15_point_roundtrip : prime secp_p -> forall x y,
  on_curve (Some (x, y)) = true -> point_decode (point_encode (Some (x, y))) = Some (Some (x, y)).
Proof. exact point_roundtrip. Qed.
Print Assumptions C15_point_roundtrip.

Theorem C15_point_decode_extends_strict : forall b P, decompress b = Some P -> point_decode b = Some P.
Proof. exact point_decode_extends_strict. Qed.

(* the accepted encoding is canonical (holds since fix 96ab1f0).  y <> 0 is true of every point of secp256k1
   (no point of order two); that fact about the curve is not proved here, hence a hypothesis *)
Theorem C15_point_decode_canonical : forall b x y,
  wf_bytes b = true -> point_decode b = Some (Some (x, y)) -> y <> 0%Z -> point_encode (Some (x, y)) = b.
Proof. exact point_decode_canonical. Qed.
Print Assumptions C15_point_decode_canonical.
Theorem C15_point_decode_inj : forall b1 b2 x y,
  wf_bytes b1 = true -> wf_bytes b2 = true -> y <> 0%Z ->
  point_decode b1 = Some (Some (x, y)) -> point_decode b2 = Some (Some (x, y)) -> b1 = b2.
Proof. exact point_decode_inj. Qed.

(* the old code: the first byte was only compared with 3 *)
Theorem C15_point_decode_v0_prefix_unchecked : forall pre xb,
  pre <> 3%N -> point_decode_v0 (pre :: xb) = point_decode_v0 (2%N :: xb).
Proof. exact point_decode_v0_prefix_unchecked. Qed.
Theorem C15_point_decode_v0_canonical_refuted : exists b P, point_decode_v0 b = Some P /\ point_encode P <> b.
Proof. exact point_decode_v0_canonical_refuted. Qed.
Print Assumptions C15_point_decode_v0_canonical_refuted.
Theorem C15_point_decode_refuses_v0_witness : point_decode (0%N :: bytes32_of_Z secp_Gx) = None.
Proof. exact point_decode_refuses_v0_witness. Qed.

(* ---- polynomial.Exponent ---- *)
Theorem C15_exponent_roundtrip : prime secp_p -> forall c pts,
  Forall finite_on_curve pts -> (lenN pts < 4294967296)%N ->
  exponent_decode (exponent_encode c (Some pts)) = Ok (c, pts).
Proof. exact exponent_roundtrip. Qed.
Print Assumptions C15_exponent_roundtrip.

Theorem C15_exponent_roundtrip_nil : forall c, exponent_decode (exponent_encode c None) = Ok (c, []).
Proof. exact exponent_roundtrip_nil. Qed.

(* the 4-byte count is still not compared with the array: anything between the number of coefficients and the
   length of the input is accepted (harmless: it only sizes an allocation that is now bounded by the input) *)
Theorem C15_exponent_count_bounded : prime secp_p -> forall c pts size,
  Forall finite_on_curve pts -> (lenN pts <= size)%N -> (size < 4294967296)%N ->
  (size <= lenN (be_bytes 4 size ++ encode (exponent_tree c (Some pts))))%N ->
  exponent_decode (be_bytes 4 size ++ encode (exponent_tree c (Some pts))) = Ok (c, pts).
Proof. exact exponent_roundtrip_gen. Qed.

(* UnmarshalBinary never panics (holds since fix 7b3b4da) *)
Theorem C15_exponent_decode_total : forall bs, exponent_decode bs <> Panic.
Proof. exact exponent_decode_total. Qed.
Print Assumptions C15_exponent_decode_total.
Theorem C15_exponent_decode_short_errors : forall bs, (length bs < 4)%nat -> exponent_decode bs = Err 1.
Proof. exact exponent_decode_short_errors. Qed.
Theorem C15_exponent_decode_count_checked : forall bs,
  (lenN bs < be_val (firstn 4 bs))%N -> exists c, exponent_decode bs = Err c.
Proof. exact exponent_decode_count_checked. Qed.

(* the old code: index panic below four bytes, any count below 2^32 accepted (allocation of that size) *)
Theorem C15_exponent_decode_v0_short_panics_refuted : forall bs,
  (length bs < 4)%nat -> exponent_decode_v0 bs = Panic.
Proof. exact exponent_decode_v0_short_panics. Qed.
Print Assumptions C15_exponent_decode_v0_short_panics_refuted.
Theorem C15_exponent_v0_count_unchecked : prime secp_p -> forall c pts size,
  Forall finite_on_curve pts -> (lenN pts <= size)%N -> (size < 4294967296)%N ->
  exponent_decode_v0 (be_bytes 4 size ++ encode (exponent_tree c (Some pts))) = Ok (c, pts).
Proof. exact exponent_v0_count_unchecked. Qed.

(* ---- cmp config ---- *)
(* whatever the repaired UnmarshalBinary accepts satisfies the validity rules (holds since fixes 8307514 + 3216d4d).
   The two hypotheses are about the outside world, not about the code: the primality test is sound, and k.G is a
   finite curve point for 0 < k < q. *)
Theorem C15_config_unmarshal_sound : forall (pt : Z -> bool) (ab : Z -> point),
  (forall k, (0 < k < secp_q)%Z -> valid_point (ab k)) ->
  (forall p, pt p = true -> prime p) ->
  forall bs c, config_unmarshal pt ab bs = Ok c -> valid_config c.
Proof. exact config_unmarshal_sound. Qed.
Print Assumptions C15_config_unmarshal_sound.

(* the same on decoded records, and everything else the checks establish (P <> Q, non-zero RID / chain key, ...) *)
Theorem C15_config_checks_sound : forall (pt : Z -> bool) (ab : Z -> point),
  (forall k, (0 < k < secp_q)%Z -> valid_point (ab k)) ->
  (forall p, pt p = true -> prime p) ->
  forall cm c, wf_config_m cm -> config_checks pt ab cm = Ok c -> valid_config c.
Proof. exact config_checks_sound. Qed.
Theorem C15_config_checks_more : forall (pt : Z -> bool) (ab : Z -> point) cm c,
  wf_config_m cm -> config_checks pt ab cm = Ok c ->
  c_P c <> c_Q c /\ bitlen (c_P c * c_Q c) = bits_paillier /\ nonzero_rid (c_rid c) /\ nonzero_rid (c_chain c).
Proof.
  intros pt ab cm c Hwf H.
  destruct (config_checks_facts pt ab cm c Hwf H)
    as (_ & _ & _ & _ & _ & _ & _ & _ & _ & _ & Hne & HN & _ & _ & _ & _ & _ & _ & Hr & Hc).
  exact (conj Hne (conj HN (conj Hr Hc))).
Qed.

(* restoring never panics, whatever the bytes (deferred recover + nil checks) *)
Theorem C15_config_unmarshal_total : forall pt ab bs, config_unmarshal pt ab bs <> Panic.
Proof. exact config_unmarshal_total. Qed.
Print Assumptions C15_config_unmarshal_total.
Theorem C15_config_unmarshal_null_is_error : forall pt ab, config_unmarshal pt ab [246%N] = Err 12.
Proof. exact config_unmarshal_null_is_error. Qed.

(* the old code: for every primality oracle that says "prime" on the two/one given integers (Go's ProbablyPrime
   does; the harness checks it) there was a decoded config that passed every check and is not valid *)
Theorem C15_config_unmarshal_sound_v0_refuted : forall (pt : Z -> bool) (ab : Z -> point),
  pt (P0 / 2)%Z = true -> pt (Q0 / 2)%Z = true ->
  exists cm c, wf_config_m cm /\ config_checks_v0 pt ab cm = Ok c /\ ~ valid_config c.
Proof. exact config_unmarshal_sound_v0_refuted. Qed.      (* own Pedersen S, T nil *)
Print Assumptions C15_config_unmarshal_sound_v0_refuted.

Theorem C15_config_rid_v0_refuted : forall (pt : Z -> bool) (ab : Z -> point),
  pt (P0 / 2)%Z = true -> pt (Q0 / 2)%Z = true ->
  exists cm c, wf_config_m cm /\ config_checks_v0 pt ab cm = Ok c /\ ~ valid_config c.
Proof. exact config_rid_v0_refuted. Qed.                  (* RID / ChainKey nil *)

Theorem C15_config_composite_prime_v0_refuted : forall (pt : Z -> bool) (ab : Z -> point),
  pt (PC / 2)%Z = true -> pt (Q0 / 2)%Z = true ->
  exists cm c, wf_config_m cm /\ config_checks_v0 pt ab cm = Ok c /\ ~ valid_config c.
Proof. exact config_composite_v0_refuted. Qed.            (* P = PC is divisible by 3 *)
Print Assumptions C15_config_composite_prime_v0_refuted.

Theorem C15_config_modulus_size_v0_refuted : forall (pt : Z -> bool) (ab : Z -> point),
  pt (PS / 2)%Z = true ->
  exists cm c, wf_config_m cm /\ config_checks_v0 pt ab cm = Ok c /\ ~ valid_config c.
Proof. exact config_modulus_size_v0_refuted. Qed.         (* P = Q = PS: N has 2047 bits (and is a square) *)
Print Assumptions C15_config_modulus_size_v0_refuted.

(* ... and the repaired code refuses the composite PC as soon as the primality test is sound *)
Theorem C15_validate_prime_refuses_composite : forall pt : Z -> bool,
  (forall p, pt p = true -> prime p) -> validate_prime pt (Some PC) = false.
Proof. exact validate_prime_refuses_composite. Qed.

Theorem C15_config_unmarshal_v0_null_panics_refuted : forall pt ab, config_unmarshal_v0 pt ab [246%N] = Panic.
Proof. exact config_unmarshal_v0_null_panics. Qed.
Print Assumptions C15_config_unmarshal_v0_null_panics_refuted.
Theorem C15_config_v0_zero_modulus_panics_refuted :
  pub_of_tree (CMap [ (CText k_id, CText [98%N]); (CText k_ecdsa, CNull); (CText k_elgamal, CNull);
                      (CText k_N, CBytes []); (CText k_S, CNull); (CText k_T, CNull) ]) = Panic
  /\ forall ab id x y NN l acc, process_publics_v0 ab id x y NN (Panic :: l) acc = Panic.
Proof. exact (conj pub_entry_zero_modulus_panics process_publics_v0_panic_propagates). Qed.

(* ---- the other stored types: each has a validating UnmarshalCBOR now; whatever it accepts is valid, and it never
        panics (recover) ---- *)
Theorem C15_frost_unmarshal_sound : forall bs c, frost_unmarshal bs = Ok c -> valid_frost c.
Proof. exact frost_unmarshal_sound. Qed.
Print Assumptions C15_frost_unmarshal_sound.
Theorem C15_frost_unmarshal_total : forall bs, frost_unmarshal bs <> Panic.
Proof. exact frost_unmarshal_total. Qed.

Theorem C15_taproot_unmarshal_sound : forall bs c, taproot_unmarshal bs = Ok c -> valid_taproot c.
Proof. exact taproot_unmarshal_sound. Qed.
Print Assumptions C15_taproot_unmarshal_sound.
Theorem C15_taproot_unmarshal_total : forall bs, taproot_unmarshal bs <> Panic.
Proof. exact taproot_unmarshal_total. Qed.

Theorem C15_doerner_unmarshal_sound : forall n bs c, doerner_unmarshal n bs = Ok c -> valid_doerner n c.
Proof. exact doerner_unmarshal_sound. Qed.
Print Assumptions C15_doerner_unmarshal_sound.
Theorem C15_doerner_unmarshal_total : forall n bs, doerner_unmarshal n bs <> Panic.
Proof. exact doerner_unmarshal_total. Qed.

Theorem C15_signature_unmarshal_sound : forall bs sg, signature_unmarshal bs = Ok sg -> valid_signature sg.
Proof. exact signature_unmarshal_sound. Qed.
Print Assumptions C15_signature_unmarshal_sound.
Theorem C15_signature_unmarshal_total : forall bs, signature_unmarshal bs <> Panic.
Proof. exact signature_unmarshal_total. Qed.

Theorem C15_presig_unmarshal_sound : forall bs p, presig_unmarshal bs = Ok p -> valid_presig p.
Proof. exact presig_unmarshal_sound. Qed.
Print Assumptions C15_presig_unmarshal_sound.
Theorem C15_presig_unmarshal_total : forall bs, presig_unmarshal bs <> Panic.
Proof. exact presig_unmarshal_total. Qed.

(* the old FROST restore (plain cbor.Unmarshal): nothing was validated; the witness is refused now *)
Theorem C15_frost_unmarshal_sound_v0_refuted :
  exists bs c, frost_unmarshal_v0 bs = Ok c /\ ~ valid_frost c /\
               f_share c = 0%Z /\ f_threshold c = (-1)%Z /\ f_shares c = [] /\ f_chain c = None.
Proof. exact frost_unmarshal_sound_v0_refuted. Qed.
Print Assumptions C15_frost_unmarshal_sound_v0_refuted.
Theorem C15_frost_unmarshal_refuses_v0_witness : frost_unmarshal (encode frost_bad_tree) = Err 2.
Proof. exact frost_unmarshal_refuses_v0_witness. Qed.

(* ---- CBOR null in a field of Go interface type (curve.Scalar, curve.Point) that the Empty* constructor
        pre-set: the decoder panics; seen on cmp.Config (ECDSA, ElGamal, every public point) and on
        frost.Config / doerner configs / PreSignature / Signature.  For cmp.Config the panic is recovered into an
        error since fix 3216d4d (C15_config_unmarshal_total) and for the other types by their validating
        UnmarshalCBOR (C15_*_unmarshal_total); the panic of the field decoders themselves is what the recover catches *)
Theorem C15_null_interface_field_panics_refuted :
  fld_scalar CNull = Panic /\ fld_point CNull = Panic /\
  config_of_tree (CMap [ (CText k_id, CNull); (CText k_threshold, CNull); (CText k_ecdsa, CNull);
                         (CText k_elgamal, CBytes (scalar_encode 1)); (CText k_P, CNull); (CText k_Q, CNull);
                         (CText k_rid, CNull); (CText k_chainkey, CNull); (CText k_public, CNull) ]) = Panic /\
  frost_of_tree (CMap [ (CText k_id, CNull); (CText k_threshold, CNull); (CText k_privateshare, CNull);
                        (CText k_publickey, CNull); (CText k_chainkey, CNull); (CText k_vshares, CNull) ]) = Panic.
Proof. exact null_interface_field_panics. Qed.
Print Assumptions C15_null_interface_field_panics_refuted.

(* ---- non-vacuity ---- *)
Example C15_ex_wf_nested :
  wf_cbor (CMap [ (CText (tstr "a"), CArr [CUint 0; CNeg 23; CUint 18446744073709551615; CBytes []; CNull]);
                  (CText (tstr "b"), CMap [ (CUint 1, CBool true) ]) ]) = true.
Proof. reflexivity. Qed.
Example C15_ex_roundtrip_nested :
  let v := CMap [ (CText (tstr "a"), CArr [CUint 0; CNeg 23; CUint 65536; CBytes [1; 2; 3]%N; CNull]);
                  (CText (tstr "b"), CMap [ (CUint 1, CBool true) ]) ] in
  decode (encode v ++ [255%N]) = Some (v, [255%N]).
Proof. vm_compute. reflexivity. Qed.
Example C15_ex_wf_message :
  wf_message (mkMessage None (tstr "alice") [] (tstr "cmp/sign") 3 (Some []) true (Some [1%N; 2%N])) = true.
Proof. reflexivity. Qed.
Example C15_ex_message_bytes :       (* the very bytes Go writes for this message (checked by the harness too) *)
  message_encode (mkMessage None [97; 255]%N [] (tstr "p") 300 (Some []) true None)
  = hexs "a86453534944f66446726f6d6261ff62546f606850726f746f636f6c61706b526f756e644e756d62657219012c6444617461406942726f616463617374f57542726f616463617374566572696669636174696f6ef6".
Proof. vm_compute. reflexivity. Qed.
Example C15_ex_on_curve : finite_on_curve secp_G.
Proof. exists secp_Gx, secp_Gy. split; [reflexivity | vm_compute; reflexivity]. Qed.
Example C15_ex_point_roundtrip_G : point_decode (point_encode secp_G) = Some secp_G.
Proof. vm_compute. reflexivity. Qed.
Example C15_ex_scalar : scalar_decode (scalar_encode 5) = Some 5%Z /\ scalar_decode (scalar_encode secp_q) = None.
Proof. split; vm_compute; reflexivity. Qed.
(* the oracle premises of the refutations are satisfiable (trivially by the constant oracle; the extracted
   model's Miller-Rabin and Go's ProbablyPrime agree that the three numbers are prime: harness class "oracle") *)
Example C15_ex_oracle : exists pt : Z -> bool,
  pt (P0 / 2)%Z = true /\ pt (Q0 / 2)%Z = true /\ pt (PC / 2)%Z = true /\ pt (PS / 2)%Z = true.
Proof. exists (fun _ => true). repeat split. Qed.
Example C15_ex_real_message :
  real_message (mkMessage None (tstr "alice") [] (tstr "cmp/sign") 3 (Some []) true (Some [1%N; 2%N])) = true.
Proof. reflexivity. Qed.
Example C15_ex_signature_accepts :
  signature_unmarshal (encode (CMap [ (CText k_R, CBytes (point_encode secp_G)); (CText k_S, CBytes (scalar_encode 5)) ]))
  = Ok (secp_G, 5%Z).
Proof. vm_compute. reflexivity. Qed.
Example C15_ex_valid_pedersen : valid_pedersen 15 (Some 2%Z) (Some 4%Z).
Proof. exists 2%Z, 4%Z. repeat split; try reflexivity; try discriminate; vm_compute; congruence. Qed.
