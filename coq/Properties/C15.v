(* C15 -- Stored key material round-trips; malformed material is refused.
   Only statements, each closed by [exact] of a lemma proved in Proofs/CborProofs.v, followed by
   Print Assumptions; small Examples show that the hypotheses are satisfiable.
   Models: Model/Cbor.v (CBOR subset emitted by fxamacker/cbor v2.4.0, protocol.Message, polynomial.Exponent,
   secp256k1 scalar/point codecs, cmp config.UnmarshalBinary validation, FROST config restore).
   [_refuted] theorems are findings about the code as written; [_partial] theorems carry, as explicit
   hypotheses, exactly what the code does not establish. *)
From Coq Require Import String.
From Coq Require Import List NArith ZArith Bool Znumtheory.
From MPS Require Import Model.Bytes Model.Sx Model.Secp256k1 Model.Cbor Proofs.CborProofs.
Import ListNotations.

(* ---- CBOR: every well-formed data item (any size, any nesting) decodes back, whatever follows it ---- *)
Theorem C15_cbor_roundtrip : forall v rest,
  wf_cbor v = true -> decode (encode v ++ rest) = Some (v, rest).
Proof. exact cbor_roundtrip. Qed.
Print Assumptions C15_cbor_roundtrip.

Theorem C15_encode_inj : forall v1 v2,
  wf_cbor v1 = true -> wf_cbor v2 = true -> encode v1 = encode v2 -> v1 = v2.
Proof. exact encode_inj. Qed.
Print Assumptions C15_encode_inj.

Theorem C15_encode_prefix_free : forall v1 v2 r1 r2,
  wf_cbor v1 = true -> wf_cbor v2 = true -> encode v1 ++ r1 = encode v2 ++ r2 -> v1 = v2 /\ r1 = r2.
Proof. exact encode_prefix_free. Qed.
Print Assumptions C15_encode_prefix_free.

(* ---- protocol.Message ---- *)
(* restoring into any receiver gives back exactly the message (nil and empty slices stay distinct) *)
Theorem C15_message_roundtrip : forall m0 m rest,
  wf_message m = true -> message_decode m0 (message_encode m ++ rest) = Some m.
Proof. exact message_roundtrip. Qed.
Print Assumptions C15_message_roundtrip.

Theorem C15_message_unmarshal_roundtrip : forall m0 m,
  wf_message m = true -> message_unmarshal m0 (message_encode m) = (m, false).
Proof. exact message_unmarshal_roundtrip. Qed.

Theorem C15_message_encode_inj : forall m1 m2,
  wf_message m1 = true -> wf_message m2 = true -> message_encode m1 = message_encode m2 -> m1 = m2.
Proof. exact message_encode_inj. Qed.
Print Assumptions C15_message_encode_inj.

(* todo-statement of the property:  C15_message_unmarshal_reports_errors_todo :
     forall m0 bs, message_decode m0 bs = None -> snd (message_unmarshal m0 bs) = true.
   REFUTED for the code as written: UnmarshalBinary returns nil whatever happens and leaves the receiver
   unchanged (silently empty for a fresh Message). *)
Theorem C15_message_unmarshal_never_errors : forall m0 bs, snd (message_unmarshal m0 bs) = false.
Proof. exact message_unmarshal_never_errors. Qed.
Theorem C15_message_unmarshal_silent : forall m0 bs,
  message_decode m0 bs = None -> message_unmarshal m0 bs = (m0, false).
Proof. exact message_unmarshal_silent. Qed.
Theorem C15_message_unmarshal_reports_errors_refuted :
  exists bs, message_decode empty_message bs = None /\
             message_unmarshal empty_message bs = (empty_message, false).
Proof. exact message_unmarshal_reports_errors_refuted. Qed.
Print Assumptions C15_message_unmarshal_reports_errors_refuted.

(* a Message whose From is not valid UTF-8 (party.ID is an arbitrary Go string) is written without complaint
   and cannot be restored; together with the above: restored as an empty message with a nil error *)
Theorem C15_message_invalid_utf8_refuted :
  exists m, message_decode empty_message (message_encode m) = None /\
            message_unmarshal empty_message (message_encode m) = (empty_message, false).
Proof. exact message_invalid_utf8_refuted. Qed.
Print Assumptions C15_message_invalid_utf8_refuted.

(* ---- scalars ---- *)
Theorem C15_scalar_decode_iff : forall b s,
  scalar_decode b = Some s <->
  length b = 32%nat /\ wf_bytes b = true /\ s = Z.of_N (be_val b) /\ (s < secp_q)%Z.
Proof. exact scalar_decode_iff. Qed.
Print Assumptions C15_scalar_decode_iff.

Theorem C15_scalar_roundtrip : forall s, (0 <= s < secp_q)%Z -> scalar_decode (scalar_encode s) = Some s.
Proof. exact scalar_roundtrip. Qed.
Theorem C15_scalar_canonical : forall b s, scalar_decode b = Some s -> scalar_encode s = b.
Proof. exact scalar_decode_encode. Qed.
Print Assumptions C15_scalar_canonical.

(* ---- points ---- *)
(* refusal conditions: anything that decodes has 33 bytes and is a finite point of the curve *)
Theorem C15_point_decode_valid : forall b P,
  point_decode b = Some P -> length b = 33%nat /\ valid_point P.
Proof. exact point_decode_valid. Qed.
Print Assumptions C15_point_decode_valid.

(* the identity has no encoding: decoding never yields it, and the 33 bytes MarshalBinary writes for it
   (02 00..00, without an error) are refused by UnmarshalBinary *)
Theorem C15_point_decode_never_identity : forall b, point_decode b <> Some None.
Proof. exact point_decode_never_identity. Qed.
Theorem C15_point_identity_not_restorable : point_decode (point_encode None) = None.
Proof. exact point_identity_not_restorable. Qed.
Print Assumptions C15_point_identity_not_restorable.

(* round trip for every finite curve point; premise: the field characteristic is prime (DESIGN 1.3) *)
Theorem C15_point_roundtrip : prime secp_p -> forall x y,
  on_curve (Some (x, y)) = true -> point_decode (point_encode (Some (x, y))) = Some (Some (x, y)).
Proof. exact point_roundtrip. Qed.
Print Assumptions C15_point_roundtrip.

Theorem C15_point_decode_extends_strict : forall b P, decompress b = Some P -> point_decode b = Some P.
Proof. exact point_decode_extends_strict. Qed.

(* todo-statement:  C15_point_decode_canonical_todo : point_decode b = Some P -> point_encode P = b.
   REFUTED: the first byte is only compared with 3. *)
Theorem C15_point_decode_prefix_unchecked : forall pre xb,
  pre <> 3%N -> point_decode (pre :: xb) = point_decode (2%N :: xb).
Proof. exact point_decode_prefix_unchecked. Qed.
Theorem C15_point_decode_canonical_refuted : exists b P, point_decode b = Some P /\ point_encode P <> b.
Proof. exact point_decode_canonical_refuted. Qed.
Print Assumptions C15_point_decode_canonical_refuted.

(* ---- polynomial.Exponent ---- *)
Theorem C15_exponent_roundtrip : prime secp_p -> forall c pts,
  Forall finite_on_curve pts -> (lenN pts < 4294967296)%N ->
  exponent_decode (exponent_encode c (Some pts)) = Ok (c, pts).
Proof. exact exponent_roundtrip. Qed.
Print Assumptions C15_exponent_roundtrip.

Theorem C15_exponent_roundtrip_nil : forall c, exponent_decode (exponent_encode c None) = Ok (c, []).
Proof. exact exponent_roundtrip_nil. Qed.

(* the 4-byte count is not compared with the array: any count >= the number of coefficients is accepted *)
Theorem C15_exponent_count_unchecked : prime secp_p -> forall c pts size,
  Forall finite_on_curve pts -> (lenN pts <= size)%N -> (size < 4294967296)%N ->
  exponent_decode (be_bytes 4 size ++ encode (exponent_tree c (Some pts))) = Ok (c, pts).
Proof. exact exponent_roundtrip_gen. Qed.

(* todo-statement:  C15_exponent_decode_total_todo : forall bs, exponent_decode bs <> Panic.   REFUTED: *)
Theorem C15_exponent_decode_short_panics_refuted : forall bs, (length bs < 4)%nat -> exponent_decode bs = Panic.
Proof. exact exponent_decode_short_panics. Qed.
Print Assumptions C15_exponent_decode_short_panics_refuted.

(* ---- cmp config ---- *)
(* todo-statement of the property:
     C15_config_unmarshal_sound_todo : config_unmarshal pt ab bs = Ok c -> valid_config c.
   It does not hold for the code as written (see the _refuted theorems below); what holds is: *)
Theorem C15_config_unmarshal_sound_partial : forall (pt : Z -> bool) (ab : Z -> point),
  (forall k, (0 < k < secp_q)%Z -> valid_point (ab k)) ->       (* group fact: k.G is a finite curve point *)
  forall bs c,
  config_unmarshal pt ab bs = Ok c ->
  prime (c_P c) -> prime (c_Q c) ->                             (* ValidatePrime tests (p-1)/2, never p *)
  bitlen (c_P c * c_Q c) = bits_paillier ->                     (* size of the own modulus never checked *)
  (forall p, In p (c_public c) -> pc_id p = c_id c ->
             valid_pedersen (pc_N p) (pc_S p) (pc_T p)) ->      (* own Pedersen S, T copied unchecked *)
  valid_rid (c_rid c) -> valid_rid (c_chain c) ->               (* RID / ChainKey copied unchecked *)
  valid_config c.
Proof. exact config_unmarshal_sound_partial. Qed.
Print Assumptions C15_config_unmarshal_sound_partial.

(* the same on decoded records: checks_as_written + the missing hypotheses => valid_config *)
Theorem C15_config_checks_sound_partial : forall (pt : Z -> bool) (ab : Z -> point),
  (forall k, (0 < k < secp_q)%Z -> valid_point (ab k)) ->
  forall cm c,
  wf_config_m cm -> config_checks pt ab cm = Ok c ->
  prime (c_P c) -> prime (c_Q c) -> bitlen (c_P c * c_Q c) = bits_paillier ->
  (forall p, In p (c_public c) -> pc_id p = c_id c -> valid_pedersen (pc_N p) (pc_S p) (pc_T p)) ->
  valid_rid (c_rid c) -> valid_rid (c_chain c) ->
  valid_config c.
Proof. exact config_checks_sound_partial. Qed.

(* the refutations: for every primality oracle that says "prime" on the two/one given integers (Go's
   ProbablyPrime does; the harness checks it and feeds the same configs to Go) there is a decoded config
   that passes every check of UnmarshalBinary and is not valid *)
Theorem C15_config_unmarshal_sound_refuted : forall (pt : Z -> bool) (ab : Z -> point),
  pt (P0 / 2)%Z = true -> pt (Q0 / 2)%Z = true ->
  exists cm c, wf_config_m cm /\ config_checks pt ab cm = Ok c /\ ~ valid_config c.
Proof. exact config_unmarshal_sound_refuted. Qed.      (* own Pedersen S, T nil *)
Print Assumptions C15_config_unmarshal_sound_refuted.

Theorem C15_config_rid_refuted : forall (pt : Z -> bool) (ab : Z -> point),
  pt (P0 / 2)%Z = true -> pt (Q0 / 2)%Z = true ->
  exists cm c, wf_config_m cm /\ config_checks pt ab cm = Ok c /\ ~ valid_config c.
Proof. exact config_rid_refuted. Qed.                  (* RID / ChainKey nil *)

Theorem C15_config_composite_prime_refuted : forall (pt : Z -> bool) (ab : Z -> point),
  pt (PC / 2)%Z = true -> pt (Q0 / 2)%Z = true ->
  exists cm c, wf_config_m cm /\ config_checks pt ab cm = Ok c /\ ~ valid_config c.
Proof. exact config_composite_refuted. Qed.            (* P = PC is divisible by 3 *)
Print Assumptions C15_config_composite_prime_refuted.

Theorem C15_config_modulus_size_refuted : forall (pt : Z -> bool) (ab : Z -> point),
  pt (PS / 2)%Z = true ->
  exists cm c, wf_config_m cm /\ config_checks pt ab cm = Ok c /\ ~ valid_config c.
Proof. exact config_modulus_size_refuted. Qed.         (* P = Q = PS: N has 2047 bits (and is a square) *)
Print Assumptions C15_config_modulus_size_refuted.

(* todo-statement:  C15_config_unmarshal_total_todo : config_unmarshal pt ab bs <> Panic.   REFUTED: *)
Theorem C15_config_unmarshal_null_panics_refuted : forall pt ab, config_unmarshal pt ab [246%N] = Panic.
Proof. exact config_unmarshal_null_panics. Qed.
Print Assumptions C15_config_unmarshal_null_panics_refuted.
Theorem C15_config_zero_modulus_panics_refuted :
  pub_of_tree (CMap [ (CText k_id, CText [98%N]); (CText k_ecdsa, CNull); (CText k_elgamal, CNull);
                      (CText k_N, CBytes []); (CText k_S, CNull); (CText k_T, CNull) ]) = Panic
  /\ forall ab id x y NN l acc, process_publics ab id x y NN (Panic :: l) acc = Panic.
Proof. exact (conj pub_entry_zero_modulus_panics process_publics_panic_propagates). Qed.

(* ---- FROST keygen.Config: nothing is validated on restore ---- *)
Theorem C15_frost_unmarshal_sound_refuted :
  exists bs c, frost_unmarshal bs = Ok c /\ ~ valid_frost c /\
               f_share c = 0%Z /\ f_threshold c = (-1)%Z /\ f_shares c = [] /\ f_chain c = None.
Proof. exact frost_unmarshal_sound_refuted. Qed.
Print Assumptions C15_frost_unmarshal_sound_refuted.

(* ---- CBOR null in a field of Go interface type (curve.Scalar, curve.Point) that the Empty* constructor
        pre-set: the decoder panics; seen on cmp.Config (ECDSA, ElGamal, every public point) and on
        frost.Config / doerner configs / PreSignature / Signature.  todo-statement "restore never panics": REFUTED *)
Theorem C15_null_interface_field_panics_refuted :
  fld_scalar CNull = Panic /\ fld_point CNull = Panic /\
  config_of_tree (CMap [ (CText k_id, CNull); (CText k_threshold, CNull); (CText k_ecdsa, CNull);
                         (CText k_elgamal, CBytes (scalar_encode 1)); (CText k_P, CNull); (CText k_Q, CNull);
                         (CText k_rid, CNull); (CText k_chainkey, CNull); (CText k_public, CNull) ]) = Panic /\
  frost_of_tree (CMap [ (CText k_id, CNull); (CText k_threshold, CNull); (CText k_privateshare, CNull);
                        (CText k_publickey, CNull); (CText k_chainkey, CNull); (CText k_vshares, CNull) ]) = Panic.
Proof. exact null_interface_field_panics. Qed.
Print Assumptions C15_null_interface_field_panics_refuted.

(* ---- non-vacuity ---- *)
Example C15_ex_wf_nested :
  wf_cbor (CMap [ (CText (tstr "a"), CArr [CUint 0; CNeg 23; CUint 18446744073709551615; CBytes []; CNull]);
                  (CText (tstr "b"), CMap [ (CUint 1, CBool true) ]) ]) = true.
Proof. reflexivity. Qed.
Example C15_ex_roundtrip_nested :
  let v := CMap [ (CText (tstr "a"), CArr [CUint 0; CNeg 23; CUint 65536; CBytes [1; 2; 3]%N; CNull]);
                  (CText (tstr "b"), CMap [ (CUint 1, CBool true) ]) ] in
  decode (encode v ++ [255%N]) = Some (v, [255%N]).
Proof. vm_compute. reflexivity. Qed.
Example C15_ex_wf_message :
  wf_message (mkMessage None (tstr "alice") [] (tstr "cmp/sign") 3 (Some []) true (Some [1%N; 2%N])) = true.
Proof. reflexivity. Qed.
Example C15_ex_message_bytes :       (* the very bytes Go writes for this message (checked by the harness too) *)
  message_encode (mkMessage None [97; 255]%N [] (tstr "p") 300 (Some []) true None)
  = hexs "a86453534944f66446726f6d6261ff62546f606850726f746f636f6c61706b526f756e644e756d62657219012c6444617461406942726f616463617374f57542726f616463617374566572696669636174696f6ef6".
Proof. vm_compute. reflexivity. Qed.
Example C15_ex_on_curve : finite_on_curve secp_G.
Proof. exists secp_Gx, secp_Gy. split; [reflexivity | vm_compute; reflexivity]. Qed.
Example C15_ex_point_roundtrip_G : point_decode (point_encode secp_G) = Some secp_G.
Proof. vm_compute. reflexivity. Qed.
Example C15_ex_scalar : scalar_decode (scalar_encode 5) = Some 5%Z /\ scalar_decode (scalar_encode secp_q) = None.
Proof. split; vm_compute; reflexivity. Qed.
(* the oracle premises of the refutations are satisfiable (trivially by the constant oracle; the extracted
   model's Miller-Rabin and Go's ProbablyPrime agree that the three numbers are prime: harness class "oracle") *)
Example C15_ex_oracle : exists pt : Z -> bool,
  pt (P0 / 2)%Z = true /\ pt (Q0 / 2)%Z = true /\ pt (PC / 2)%Z = true /\ pt (PS / 2)%Z = true.
Proof. exists (fun _ => true). repeat split. Qed.
Example C15_ex_valid_pedersen : valid_pedersen 15 (Some 2%Z) (Some 4%Z).
Proof. exists 2%Z, 4%Z. repeat split; try reflexivity; try discriminate; vm_compute; congruence. Qed.
