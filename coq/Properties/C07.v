(* C07 -- Outcome independent of delivery order, duplication and early arrival (system level).
   Only statements, each closed by [exact] of a lemma proved in Proofs/SystemProofs.v.

   All-honest system of n >= 2 handlers (Model/System.v), any wf shape, any oracles.  A schedule may
   deliver the in-flight copies in ANY order (Deliver to k), re-deliver any copy ever sent any number of
   times at any later moment (Dup to k), and inject any message that CanAccept of the addressee refuses
   at that moment (junk_onlyb: stale round, foreign session/protocol, wrong recipient, unknown sender, own
   message, no payload, round beyond the last one -- see C07_junk_classes).  "Complete" = nothing is left
   in flight, i.e. every copy sent was delivered at least once.  The Listen() channel is drained after each
   Accept.  Then every party ends with the result, without error, and its emitted message sequence is
   exactly the ideal (lockstep) one -- in particular the emitted multiset is the lockstep one.
   n = 1 is excluded: see C07_single_party_refuted. *)
From Coq Require Import List NArith ZArith Bool Arith Permutation.
From MPS Require Import Model.Handler Model.System Proofs.SystemProofs.
Import ListNotations.

Theorem C07_schedule_independent :
  forall (view_hash : nat -> list N -> N) (fp : party -> bool -> option party -> nat -> N)
         (validity : hstate -> msg -> bool) (n : nat) (ssid proto : N) (sh : shape),
  2 <= n -> wf_shapeb sh = true ->
  (forall s m, m_valid m = true -> validity s m = true) ->
  forall (sched : list sched_ev) (i : party),
  junk_onlyb view_hash fp validity n (init_sys view_hash fp n ssid proto sh) sched = true ->
  complete (run view_hash fp validity n (init_sys view_hash fp n ssid proto sh) sched) = true ->
  i < n ->
  h_res (s_h (run view_hash fp validity n (init_sys view_hash fp n ssid proto sh) sched) i) = true
  /\ h_err (s_h (run view_hash fp validity n (init_sys view_hash fp n ssid proto sh) sched) i) = None
  /\ h_rt (s_h (run view_hash fp validity n (init_sys view_hash fp n ssid proto sh) sched) i) = Running
  /\ h_out (s_h (run view_hash fp validity n (init_sys view_hash fp n ssid proto sh) sched) i)
     = ideal_out view_hash fp n ssid proto sh i.
Proof. exact schedule_independent. Qed.
Print Assumptions C07_schedule_independent.

(* compared with the lockstep (FIFO, round by round) run of the same system *)
Theorem C07_schedule_independent_vs_lockstep :
  forall (view_hash : nat -> list N -> N) (fp : party -> bool -> option party -> nat -> N)
         (validity : hstate -> msg -> bool) (n : nat) (ssid proto : N) (sh : shape),
  2 <= n -> wf_shapeb sh = true ->
  (forall s m, m_valid m = true -> validity s m = true) ->
  forall (sched : list sched_ev) (fuel : nat) (i : party),
  let st0 := init_sys view_hash fp n ssid proto sh in
  let lock := lockstep_sched view_hash fp validity n fuel st0 in
  junk_onlyb view_hash fp validity n st0 sched = true ->
  complete (run view_hash fp validity n st0 sched) = true ->
  complete (run view_hash fp validity n st0 lock) = true -> i < n ->
  h_res (s_h (run view_hash fp validity n st0 sched) i) = true
  /\ h_err (s_h (run view_hash fp validity n st0 sched) i) = None
  /\ h_rt (s_h (run view_hash fp validity n st0 sched) i) = Running
  /\ h_out (s_h (run view_hash fp validity n st0 sched) i) = h_out (s_h (run view_hash fp validity n st0 lock) i)
  /\ Permutation (h_out (s_h (run view_hash fp validity n st0 sched) i))
                 (h_out (s_h (run view_hash fp validity n st0 lock) i)).
Proof. exact schedule_independent_vs_lockstep. Qed.
Print Assumptions C07_schedule_independent_vs_lockstep.

Theorem C07_any_two_complete_schedules_agree :
  forall (view_hash : nat -> list N -> N) (fp : party -> bool -> option party -> nat -> N)
         (validity : hstate -> msg -> bool) (n : nat) (ssid proto : N) (sh : shape),
  2 <= n -> wf_shapeb sh = true ->
  (forall s m, m_valid m = true -> validity s m = true) ->
  forall (sched1 sched2 : list sched_ev) (i : party),
  let st0 := init_sys view_hash fp n ssid proto sh in
  junk_onlyb view_hash fp validity n st0 sched1 = true -> complete (run view_hash fp validity n st0 sched1) = true ->
  junk_onlyb view_hash fp validity n st0 sched2 = true -> complete (run view_hash fp validity n st0 sched2) = true ->
  i < n ->
  h_out (s_h (run view_hash fp validity n st0 sched1) i) = h_out (s_h (run view_hash fp validity n st0 sched2) i)
  /\ h_res (s_h (run view_hash fp validity n st0 sched1) i) = h_res (s_h (run view_hash fp validity n st0 sched2) i)
  /\ h_err (s_h (run view_hash fp validity n st0 sched1) i) = h_err (s_h (run view_hash fp validity n st0 sched2) i).
Proof. exact schedule_independent_pair. Qed.

(* the lockstep schedule itself is admissible (it injects nothing) *)
Theorem C07_lockstep_admissible :
  forall view_hash fp validity n fuel st,
  junk_onlyb view_hash fp validity n st (lockstep_sched view_hash fp validity n fuel st) = true.
Proof. exact lockstep_junk. Qed.

(* what may be injected: each of these classes is refused by CanAccept, whatever its validity flag *)
Theorem C07_junk_classes : forall s m b,
  ((0 < m_round m < h_cur s) \/ m_ssid m <> h_ssid s \/ m_proto m <> h_proto s \/ h_n s <= m_from m
   \/ m_from m = h_self s \/ (exists t, m_to m = Some t /\ t <> h_self s) \/ m_data m = false
   \/ sh_final (h_shape s) < m_round m) ->
  can_accept s (set_valid m b) = false.
Proof. exact junk_msg_rejected. Qed.
Print Assumptions C07_junk_classes.

(* n = 1 is genuinely excluded: with three broadcast rounds NewMultiHandler runs through all rounds at
   construction and blocks on its own out channel of capacity 2n = 2 *)
Theorem C07_single_party_refuted :
  wf_shapeb shape_b5 = true
  /\ h_rt (s_h (init_sys vh_pos fp_cantor 1 7 9 shape_b5) 0) = BlockedOnSend
  /\ h_res (s_h (init_sys vh_pos fp_cantor 1 7 9 shape_b5) 0) = false.
Proof. exact single_party_blocks. Qed.

(* ---- Examples (non-vacuity) ---- *)
Definition ex_stale   : msg := mkMsg 7 9 1 None 1 true true 0 5 true NoPanic.       (* round 1 < current round 2 *)
Definition ex_foreign : msg := mkMsg 8 9 1 None 2 true true 0 5 true NoPanic.       (* other session *)
Definition ex_wrongto : msg := mkMsg 7 9 1 (Some 2) 2 true false 0 5 true NoPanic.  (* addressed to party 2 *)
Definition ex_unknown : msg := mkMsg 7 9 5 None 2 true true 0 5 true NoPanic.       (* sender 5 of 3 *)
Definition ex_init : sys := init_sys vh_pos fp_cantor 3 7 9 shape_bp3.
(* p2p before the sender's broadcast, reverse order, a duplicate of an undelivered copy, a round-3 message
   before any round-2 message, duplicates, junk at several positions; then everything else FIFO *)
Definition ex_prefix : list sched_ev :=
  [Inject 0 ex_stale; Inject 1 ex_foreign; Inject 0 ex_wrongto; Inject 2 ex_unknown;
   Deliver 0 1; Deliver 0 2; Dup 0 3; Deliver 0 1; Deliver 0 0;
   Deliver 1 4; Dup 1 0; Dup 1 0; Inject 1 ex_foreign].
Definition ex_sched : list sched_ev :=
  ex_prefix ++ lockstep_sched vh_pos fp_cantor keep_valid 3 100 (run vh_pos fp_cantor keep_valid 3 ex_init ex_prefix).

Example C07_hypotheses_satisfiable :
  wf_shapeb shape_bp3 = true
  /\ junk_onlyb vh_pos fp_cantor keep_valid 3 ex_init ex_sched = true
  /\ complete (run vh_pos fp_cantor keep_valid 3 ex_init ex_sched) = true
  /\ length ex_sched = 26
  (* party 0 is already in round 3 while 1 and 2 are in round 2 after the prefix *)
  /\ map (fun i => h_cur (s_h (run vh_pos fp_cantor keep_valid 3 ex_init ex_prefix) i)) [0; 1; 2] = [3; 2; 2].
Proof. vm_compute. repeat split; reflexivity. Qed.

Example C07_instance :
  h_out (s_h (run vh_pos fp_cantor keep_valid 3 ex_init ex_sched) 1) = ideal_out vh_pos fp_cantor 3 7 9 shape_bp3 1
  /\ all_done 3 (run vh_pos fp_cantor keep_valid 3 ex_init ex_sched) = true.
Proof. vm_compute. split; reflexivity. Qed.

Example C07_lockstep_complete :
  complete (run vh_pos fp_cantor keep_valid 3 ex_init (lockstep_sched vh_pos fp_cantor keep_valid 3 100 ex_init)) = true.
Proof. vm_compute. reflexivity. Qed.
