(* C15 (tie to the source): the restore-time validation of stored key material, translated from /repo on every run
   (Generated/Validators.v, gen/gen_validate.go), IS the validation of the model (Model/Cbor.v) that the C15 theorems are about.
   geval (Proofs/GuardsBase.v) evaluates a translated body with Go's short-circuit order over an environment atom -> model
   boolean (Proofs/ValidatorsBase.v); [None] = the Go code would dereference nil / index out of range there.  Every theorem is
   for ALL inputs, nil receivers and nil fields included.  A dropped check, a changed comparison, a moved nil test, a removed
   recover handler or an untranslatable rewrite fails here before any harness run. *)
From Coq Require Import String List Bool Arith NArith ZArith.
From MPS Require Import Model.Bytes Model.Secp256k1 Model.Cbor.
From MPS Require Model.ZK.
From MPS Require Import Generated.Params Generated.Guards Generated.Validators.
From MPS Require Import Proofs.GuardsBase Proofs.ZKGuardsBase Proofs.ValidatorsBase Proofs.ValidatorsProofs.
Import ListNotations.
Local Open Scope string_scope.
Local Open Scope Z_scope.

Theorem C15_guards_translated :
  vtranslated ["RID_Validate"; "frost_Config_Validate"; "frost_Config_UnmarshalCBOR"; "frost_TaprootConfig_Validate";
               "frost_TaprootConfig_UnmarshalCBOR"; "doerner_validateConfig"; "doerner_ConfigReceiver_Validate";
               "doerner_ConfigReceiver_UnmarshalCBOR"; "doerner_ConfigSender_Validate"; "doerner_ConfigSender_UnmarshalCBOR";
               "cmp_Config_UnmarshalBinary"; "ecdsa_PreSignature_Validate"; "ecdsa_PreSignature_UnmarshalCBOR";
               "ecdsa_Signature_Validate"; "ecdsa_Signature_UnmarshalCBOR"; "polynomial_Exponent_UnmarshalBinary";
               "protocol_Message_UnmarshalBinary"; "taproot_PublicKey_Verify"] = true.
Proof. exact restore_translated. Qed.
Print Assumptions C15_guards_translated.

Theorem C15_guards_params : go_param_SecBytes = Z.of_nat sec_bytes /\ go_const_taproot_SignatureLen = 64.
Proof. exact restore_params_ok. Qed.
Print Assumptions C15_guards_params.

(* ---- types.RID.Validate (RID of a cmp config, chain key, presignature id): 32 bytes, not all zero; nil refused *)
Theorem C15_guards_RID_Validate : forall r, geval (alookup (env_rid r)) go_RID_Validate = Some (rid_validate r).
Proof. exact RID_Validate. Qed.
Print Assumptions C15_guards_RID_Validate.

(* ---- frost keygen.Config.Validate = frost_validate; nil receiver / share / key / share map refused without a dereference;
        a nil verification share counts like the identity *)
Theorem C15_guards_frost_Config_Validate : forall nl id thr x Y ck shares,
  geval (alookup (env_frost_validate nl id thr x Y shares)) go_frost_Config_Validate
  = Some (nn nl frost_names && frost_validate (mkFrost id thr x Y ck (collapse shares))).
Proof. exact frost_Config_Validate. Qed.
Print Assumptions C15_guards_frost_Config_Validate.

Theorem C15_guards_frost_Config_Validate_trace :
  go_frost_Config_Validate_trace =
  [ "if r == nil || r.PrivateShare == nil || r.PublicKey == nil || r.VerificationShares == nil -> return error";
    "if r.PrivateShare.IsZero() -> return error";
    "if r.PublicKey.IsIdentity() -> return error";
    "do n := len(r.VerificationShares.Points)";
    "if r.Threshold < 0 || r.Threshold > n-1 -> return error";
    "if !ok where _, ok := r.VerificationShares.Points[r.ID] -> return error";
    "loop any id, share in r.VerificationShares.Points: share == nil || share.IsIdentity() -> return error";
    "return nil" ].
Proof. exact frost_Config_Validate_trace_ok. Qed.
Print Assumptions C15_guards_frost_Config_Validate_trace.

Theorem C15_guards_share_loop_meaning : forall m, bad_share m = negb (shares_ok (collapse m)).
Proof. exact bad_share_collapse. Qed.
Print Assumptions C15_guards_share_loop_meaning.

(* ---- frost keygen.TaprootConfig.Validate = taproot_validate *)
Theorem C15_guards_frost_TaprootConfig_Validate : forall nl id thr x pk ck shares,
  geval (alookup (env_taproot_validate nl id thr x pk shares)) go_frost_TaprootConfig_Validate
  = Some (negb (nl "r") && taproot_validate (mkTaproot id thr x pk ck (collapse shares))).
Proof. exact frost_TaprootConfig_Validate. Qed.
Print Assumptions C15_guards_frost_TaprootConfig_Validate.

Theorem C15_guards_frost_TaprootConfig_Validate_trace :
  go_frost_TaprootConfig_Validate_trace =
  [ "if r == nil || r.PrivateShare == nil -> return error";
    "if r.PrivateShare.IsZero() -> return error";
    "if len(r.PublicKey) != 32 -> return error";
    "if err != nil where _, err := (curve.Secp256k1{}).LiftX(r.PublicKey) -> return error";
    "do n := len(r.VerificationShares)";
    "if r.Threshold < 0 || r.Threshold > n-1 -> return error";
    "if !ok where _, ok := r.VerificationShares[r.ID] -> return error";
    "loop any id, share in r.VerificationShares: share == nil || share.IsIdentity() -> return error";
    "return nil" ].
Proof. exact frost_TaprootConfig_Validate_trace_ok. Qed.
Print Assumptions C15_guards_frost_TaprootConfig_Validate_trace.

(* ---- doerner keygen: validateConfig = doerner_validate; ConfigReceiver / ConfigSender .Validate refuse nil and delegate *)
Theorem C15_guards_doerner_validateConfig : forall noSetup x Y ck,
  geval (alookup (env_doerner_validate noSetup x Y ck)) go_doerner_validateConfig
  = Some (match x, Y with Some x, Some Y => doerner_validate (doerner_of noSetup x Y ck) | _, _ => false end).
Proof. exact doerner_validateConfig. Qed.
Print Assumptions C15_guards_doerner_validateConfig.

Theorem C15_guards_doerner_Config_Validate : forall nl v,
  geval (alookup (env_doerner_cfg nl v)) go_doerner_ConfigReceiver_Validate = Some (negb (nl "c") && v) /\
  geval (alookup (env_doerner_cfg nl v)) go_doerner_ConfigSender_Validate = Some (negb (nl "c") && v).
Proof. exact doerner_Config_Validate. Qed.
Print Assumptions C15_guards_doerner_Config_Validate.

(* ---- the validating UnmarshalCBOR methods: Ok exactly when the decoding is Ok and Validate accepts, i.e. the model's [validated] *)
Theorem C15_guards_UnmarshalCBOR : forall (A : Type) (f : A -> bool) (o : outcome A),
  geval (alookup (env_unmarshal_cbor f o)) go_frost_Config_UnmarshalCBOR = Some (is_okb (validated f o)) /\
  geval (alookup (env_unmarshal_cbor f o)) go_frost_TaprootConfig_UnmarshalCBOR = Some (is_okb (validated f o)) /\
  geval (alookup (env_unmarshal_cbor f o)) go_doerner_ConfigReceiver_UnmarshalCBOR = Some (is_okb (validated f o)) /\
  geval (alookup (env_unmarshal_cbor f o)) go_doerner_ConfigSender_UnmarshalCBOR = Some (is_okb (validated f o)) /\
  geval (alookup (env_unmarshal_cbor f o)) go_ecdsa_Signature_UnmarshalCBOR = Some (is_okb (validated f o)).
Proof. exact @unmarshal_cbor_generic. Qed.
Print Assumptions C15_guards_UnmarshalCBOR.

Theorem C15_guards_restore_functions_validated : forall bs,
  frost_unmarshal bs = match decode bs with Some (t, _) => validated frost_validate (frost_of_tree t) | None => Err 1 end /\
  taproot_unmarshal bs = match decode bs with Some (t, _) => validated taproot_validate (taproot_of_tree t) | None => Err 1 end /\
  (forall n, doerner_unmarshal n bs = match decode bs with Some (t, _) => validated doerner_validate (doerner_of_tree n t) | None => Err 1 end) /\
  signature_unmarshal bs = match decode bs with Some (t, _) => validated signature_validate (signature_of_tree t) | None => Err 1 end /\
  presig_unmarshal bs = match decode bs with Some (t, _) => validated presig_validate (presig_of_tree t) | None => Err 1 end.
Proof. exact restore_functions_validated. Qed.
Print Assumptions C15_guards_restore_functions_validated.

(* each body is: recover handler, default decoding, Validate (a panic of the decoder becomes an error: [recovered]) *)
Theorem C15_guards_UnmarshalCBOR_traces :
  go_frost_Config_UnmarshalCBOR_trace =
  [ "do defer func() { if p := recover(); p != nil { err = fmt.Errorf(""frost config: malformed data: %v"", p) } }()";
    "do type plain Config";
    "if err != nil where err := cbor.Unmarshal(data, (*plain)(r)) -> return error";
    "return r.Validate()" ] /\
  go_frost_TaprootConfig_UnmarshalCBOR_trace =
  [ "do defer func() { if p := recover(); p != nil { err = fmt.Errorf(""frost taproot config: malformed data: %v"", p) } }()";
    "do type plain TaprootConfig";
    "if err != nil where err := cbor.Unmarshal(data, (*plain)(r)) -> return error";
    "return r.Validate()" ] /\
  go_doerner_ConfigReceiver_UnmarshalCBOR_trace =
  [ "do defer func() { if p := recover(); p != nil { err = fmt.Errorf(""doerner config: malformed data: %v"", p) } }()";
    "do type plain ConfigReceiver";
    "if err != nil where err := cbor.Unmarshal(data, (*plain)(c)) -> return error";
    "return c.Validate()" ] /\
  go_doerner_ConfigSender_UnmarshalCBOR_trace =
  [ "do defer func() { if p := recover(); p != nil { err = fmt.Errorf(""doerner config: malformed data: %v"", p) } }()";
    "do type plain ConfigSender";
    "if err != nil where err := cbor.Unmarshal(data, (*plain)(c)) -> return error";
    "return c.Validate()" ] /\
  go_ecdsa_Signature_UnmarshalCBOR_trace =
  [ "do defer func() { if p := recover(); p != nil { err = fmt.Errorf(""signature: malformed data: %v"", p) } }()";
    "do type plain Signature";
    "if err != nil where err := cbor.Unmarshal(data, (*plain)(sig)) -> return error";
    "return sig.Validate()" ] /\
  go_ecdsa_PreSignature_UnmarshalCBOR_trace =
  [ "do defer func() { if p := recover(); p != nil { err = fmt.Errorf(""presignature: malformed data: %v"", p) } }()";
    "do type plain PreSignature";
    "if err != nil where err := cbor.Unmarshal(data, (*plain)(sig)) -> return error";
    "if err != nil where err := sig.Validate() -> return error";
    "if len(sig.RBar.Points) == 0 -> return error";
    "return nil" ].
Proof. exact unmarshal_cbor_traces_ok. Qed.
Print Assumptions C15_guards_UnmarshalCBOR_traces.

(* ---- ecdsa.Signature.Validate = signature_validate *)
Theorem C15_guards_ecdsa_Signature_Validate : forall nl R s,
  geval (alookup (env_signature_validate nl R s)) go_ecdsa_Signature_Validate
  = Some (nn nl sig_names && signature_validate (R, s)).
Proof. exact ecdsa_Signature_Validate. Qed.
Print Assumptions C15_guards_ecdsa_Signature_Validate.

(* ---- ecdsa.PreSignature.Validate: refuses nil fields and nil map entries without dereferencing them; otherwise the model's
        presig_validate up to "at least one signer", which UnmarshalCBOR adds *)
Theorem C15_guards_ecdsa_PreSignature_Validate : forall nl id R rb sm k chi,
  geval (alookup (env_presig_validate nl id R rb sm k chi)) go_ecdsa_PreSignature_Validate
  = Some (nn nl presig_names && no_nil_entries rb sm && presig_validate_go (presig_of id R rb sm k chi)).
Proof. exact ecdsa_PreSignature_Validate. Qed.
Print Assumptions C15_guards_ecdsa_PreSignature_Validate.

Theorem C15_guards_presig_validate_split : forall p,
  presig_validate p = presig_validate_go p && match ps_RBar p with Some rb => negb (Nat.eqb (length rb) 0) | None => false end.
Proof. exact presig_validate_split. Qed.
Print Assumptions C15_guards_presig_validate_split.

Theorem C15_guards_presig_loop_meaning : forall sm rb,
  existsb (presig_pair_refused sm) rb
  = negb (forallb (fun e => negb (is_identity (snd e))
                            && match find_share (fst e) sm with Some Sj => negb (is_identity Sj) | None => false end) rb).
Proof. exact presig_pairs_meaning. Qed.
Print Assumptions C15_guards_presig_loop_meaning.

Theorem C15_guards_ecdsa_PreSignature_UnmarshalCBOR : forall o,
  geval (alookup (env_presig_unmarshal o)) go_ecdsa_PreSignature_UnmarshalCBOR = Some (is_okb (validated presig_validate o)).
Proof. exact ecdsa_PreSignature_UnmarshalCBOR. Qed.
Print Assumptions C15_guards_ecdsa_PreSignature_UnmarshalCBOR.

(* ---- polynomial.Exponent.UnmarshalBinary: the bounds of exponent_decode (length >= 4 before the count is read, count <= length) *)
Theorem C15_guards_Exponent_UnmarshalBinary : forall nl bs,
  geval (alookup (env_exponent nl bs)) go_polynomial_Exponent_UnmarshalBinary
  = Some (nn nl exp_names && is_okb (exponent_decode bs)).
Proof. exact polynomial_Exponent_UnmarshalBinary. Qed.
Print Assumptions C15_guards_Exponent_UnmarshalBinary.

Theorem C15_guards_Exponent_UnmarshalBinary_trace :
  go_polynomial_Exponent_UnmarshalBinary_trace =
  [ "if e == nil || e.group == nil -> return error";
    "do group := e.group";
    "if len(data) < 4 -> return error";
    "do size := binary.BigEndian.Uint32(data)";
    "if uint64(size) > uint64(len(data)) -> return error";
    "do e.coefficients = make([]curve.Point, int(size))";
    "do for i := 0; i < len(e.coefficients); i++ { e.coefficients[i] = group.NewPoint() }";
    "do rawExponent := rawExponentData{Coefficients: e.coefficients}";
    "if err != nil where err := cbor.Unmarshal(data[4:], &rawExponent) -> return error";
    "do e.group = group";
    "do e.coefficients = rawExponent.Coefficients";
    "do e.IsConstant = rawExponent.IsConstant";
    "return nil" ].
Proof. exact polynomial_Exponent_UnmarshalBinary_trace_ok. Qed.
Print Assumptions C15_guards_Exponent_UnmarshalBinary_trace.

(* ---- protocol.Message.UnmarshalBinary: reports an error exactly when message_unmarshal does *)
Theorem C15_guards_Message_UnmarshalBinary : forall m0 bs,
  geval (alookup (env_message (message_decode empty_message bs))) go_protocol_Message_UnmarshalBinary
  = Some (negb (snd (message_unmarshal m0 bs))).
Proof. exact protocol_Message_UnmarshalBinary. Qed.
Print Assumptions C15_guards_Message_UnmarshalBinary.

Theorem C15_guards_Message_UnmarshalBinary_trace :
  go_protocol_Message_UnmarshalBinary_trace =
  [ "do deserialized := new(marshallableMessage)";
    "if err != nil where err := cbor.Unmarshal(data, deserialized) -> return error";
    "if deserialized.From == """" || deserialized.Protocol == """" -> return error";
    "do m.SSID = deserialized.SSID";
    "do m.From = deserialized.From";
    "do m.To = deserialized.To";
    "do m.Protocol = deserialized.Protocol";
    "do m.RoundNumber = deserialized.RoundNumber";
    "do m.Data = deserialized.Data";
    "do m.Broadcast = deserialized.Broadcast";
    "do m.BroadcastVerification = deserialized.BroadcastVerification";
    "return nil" ].
Proof. exact protocol_Message_UnmarshalBinary_trace_ok. Qed.
Print Assumptions C15_guards_Message_UnmarshalBinary_trace.

(* ---- cmp config.UnmarshalBinary: accepts exactly when config_checks is Ok on the decoded configMarshal.
        The loop over the public entries is evaluated with its TRANSLATED body (cmp_loop_run), iteration by iteration,
        and that run is the model's process_publics. *)
Theorem C15_guards_cmp_loop_body : forall id NN acc e,
  geval (alookup (env_cmp_iter id NN acc e)) go_cmp_Config_UnmarshalBinary_loop1 = Some (cmp_iter_ok id NN acc e).
Proof. exact cmp_iter_body. Qed.
Print Assumptions C15_guards_cmp_loop_body.

Theorem C15_guards_cmp_loop_is_process_publics : forall ab id x y NN l acc,
  cmp_loop_run ab id x y NN l acc = out_opt (process_publics ab id x y NN l acc).
Proof. exact cmp_loop_run_model. Qed.
Print Assumptions C15_guards_cmp_loop_is_process_publics.

Theorem C15_guards_cmp_Config_UnmarshalBinary : forall pt ab group_nil o,
  geval (alookup (env_cmp_unmarshal pt ab group_nil o)) go_cmp_Config_UnmarshalBinary
  = Some (negb group_nil && cmp_unmarshal_ok pt ab o).
Proof. exact cmp_Config_UnmarshalBinary. Qed.
Print Assumptions C15_guards_cmp_Config_UnmarshalBinary.

Theorem C15_guards_cmp_unmarshal_model : forall pt ab bs,
  is_okb (config_unmarshal pt ab bs) = cmp_unmarshal_ok pt ab (cmp_decoded bs).
Proof. exact cmp_unmarshal_ok_model. Qed.
Print Assumptions C15_guards_cmp_unmarshal_model.

Theorem C15_guards_cmp_Config_UnmarshalBinary_trace :
  go_cmp_Config_UnmarshalBinary_trace =
  [ "if c.Group == nil -> return error";
    "do defer func() { if r := recover(); r != nil { err = fmt.Errorf(""config: malformed data: %v"", r) } }()";
    "do cm := &configMarshal{ECDSA: c.Group.NewScalar(), ElGamal: c.Group.NewScalar()}";
    "if err != nil where err := cbor.Unmarshal(data, &cm) -> return error";
    "if cm == nil || cm.ECDSA == nil || cm.ElGamal == nil || cm.P == nil || cm.Q == nil -> return error";
    "if err != nil where err := cm.RID.Validate() -> return error";
    "if err != nil where err := cm.ChainKey.Validate() -> return error";
    "if cm.ECDSA.IsZero() || cm.ElGamal.IsZero() -> return error";
    "if err != nil where err := paillier.ValidatePrime(cm.P) -> return error";
    "if err != nil where err := paillier.ValidatePrime(cm.Q) -> return error";
    "if cm.P.Eq(cm.Q) == 1 -> return error";
    "do paillierSecret := paillier.NewSecretKeyFromPrimes(cm.P, cm.Q)";
    "if err != nil where err := paillier.ValidateN(paillierSecret.PublicKey.N()) -> return error";
    "do ps := make(map[party.ID]*Public, len(cm.Public))";
    "loop1 every pm in cm.Public {";
    "do p := &publicMarshal{ECDSA: c.Group.NewPoint(), ElGamal: c.Group.NewPoint()}";
    "if err != nil where err := cbor.Unmarshal(pm, p) -> return error";
    "if ok where _, ok := ps[p.ID] -> return error";
    "if p.ECDSA == nil || p.ElGamal == nil || p.S == nil || p.T == nil -> return error";
    "if p.ID == cm.ID {";
    "if err != nil where err := pedersen.ValidateParameters(paillierSecret.PublicKey.N(), p.S, p.T) -> return error";
    "do ps[p.ID] = &Public{ECDSA: cm.ECDSA.ActOnBase(), ElGamal: cm.ElGamal.ActOnBase(), Paillier: paillierSecret.PublicKey, Pedersen: pedersen.New(paillierSecret.Modulus(), p.S, p.T)}";
    "continue";
    "}";
    "if p.N == nil -> return error";
    "if err != nil where err := paillier.ValidateN(p.N) -> return error";
    "if err != nil where err := pedersen.ValidateParameters(p.N, p.S, p.T) -> return error";
    "if p.ECDSA.IsIdentity() || p.ElGamal.IsIdentity() -> return error";
    "do paillierPublic := paillier.NewPublicKey(p.N)";
    "do ps[p.ID] = &Public{ECDSA: p.ECDSA, ElGamal: p.ElGamal, Paillier: paillierPublic, Pedersen: pedersen.New(paillierPublic.Modulus(), p.S, p.T)}";
    "}";
    "if !ValidThreshold(cm.Threshold, len(ps)) -> return error";
    "if !ok where _, ok := ps[cm.ID] -> return error";
    "do *c = Config{Group: c.Group, ID: cm.ID, Threshold: cm.Threshold, ECDSA: cm.ECDSA, ElGamal: cm.ElGamal, Paillier: paillierSecret, RID: cm.RID, ChainKey: cm.ChainKey, Public: ps}";
    "return nil" ].
Proof. exact cmp_Config_UnmarshalBinary_trace_ok. Qed.
Print Assumptions C15_guards_cmp_Config_UnmarshalBinary_trace.

(* ... and what it accepts satisfies the validity rules of the property (composition with C15_config_unmarshal_sound; the two
   hypotheses are the ones stated there: a sound primality test, k.G a finite point) *)
Theorem C15_guards_cmp_translated_accepts_valid : forall (pt : Z -> bool) (ab : Z -> point),
  (forall k, 0 < k < secp_q -> valid_point (ab k)) ->
  (forall p, pt p = true -> Znumtheory.prime p) ->
  forall bs,
    geval (alookup (env_cmp_unmarshal pt ab false (cmp_decoded bs))) go_cmp_Config_UnmarshalBinary = Some true ->
    exists c, config_unmarshal pt ab bs = Ok c /\ valid_config c.
Proof. exact cmp_translated_accepts_valid. Qed.
Print Assumptions C15_guards_cmp_translated_accepts_valid.

(* the Pedersen call atoms are the function proved in C12_guards (pedersen.ValidateParameters = ZK.ped_validate) *)
Theorem C15_guards_validate_pedersen_ped_validate : forall n s t, 0 < n ->
  validate_pedersen (Some n) (Some s) (Some t) = ZK.ped_validate n s t.
Proof. exact validate_pedersen_ped_validate. Qed.
Print Assumptions C15_guards_validate_pedersen_ped_validate.

(* ---- taproot.PublicKey.Verify refuses a signature that is not 64 bytes and a key that is not 32 bytes before anything else *)
Theorem C15_guards_taproot_Verify_lengths : forall sig_len pk_len rest,
  (sig_len <> 64 \/ pk_len <> 32)%nat ->
  geval (env_taproot_lengths sig_len pk_len rest) go_taproot_PublicKey_Verify = Some false.
Proof. exact taproot_Verify_lengths. Qed.
Print Assumptions C15_guards_taproot_Verify_lengths.

(* ---- non-vacuity: concrete material through the translated code *)
Definition ex_G : point := Some (55066263022277343669578718895168534326250603453777594175500187360389116729240,
                                 32670510020758816978083085130507043184471273380659243275938904335757337482424).
Definition ex_shares : pmap := [([97%N], Some ex_G); ([98%N], Some ex_G); ([99%N], Some ex_G)].
Example C15_guards_ex_frost :
  (* a 1-of-3 config of party "a" is accepted *)
  geval (alookup (env_frost_validate no_nil [97%N] 1 5 ex_G ex_shares)) go_frost_Config_Validate = Some true /\
  (* threshold 3 for 3 parties, threshold -1 *)
  geval (alookup (env_frost_validate no_nil [97%N] 3 5 ex_G ex_shares)) go_frost_Config_Validate = Some false /\
  geval (alookup (env_frost_validate no_nil [97%N] (-1) 5 ex_G ex_shares)) go_frost_Config_Validate = Some false /\
  (* zero share, identity key, no share for this party, a nil share, an identity share *)
  geval (alookup (env_frost_validate no_nil [97%N] 1 0 ex_G ex_shares)) go_frost_Config_Validate = Some false /\
  geval (alookup (env_frost_validate no_nil [97%N] 1 5 None ex_shares)) go_frost_Config_Validate = Some false /\
  geval (alookup (env_frost_validate no_nil [100%N] 1 5 ex_G ex_shares)) go_frost_Config_Validate = Some false /\
  geval (alookup (env_frost_validate no_nil [97%N] 1 5 ex_G (([100%N], None) :: ex_shares))) go_frost_Config_Validate = Some false /\
  geval (alookup (env_frost_validate no_nil [97%N] 1 5 ex_G (([100%N], Some None) :: ex_shares))) go_frost_Config_Validate = Some false /\
  (* nil receiver, nil share map: refused, nothing dereferenced *)
  geval (alookup (env_frost_validate (fun s => String.eqb s "r") [97%N] 1 5 ex_G ex_shares)) go_frost_Config_Validate = Some false /\
  geval (alookup (env_frost_validate (fun s => String.eqb s "r.VerificationShares") [97%N] 1 5 ex_G ex_shares)) go_frost_Config_Validate = Some false.
Proof. repeat split; vm_compute; reflexivity. Qed.

Definition ex_rid : bytes := repeat 7%N 32.
Example C15_guards_ex_others :
  geval (alookup (env_rid (Some ex_rid))) go_RID_Validate = Some true /\
  geval (alookup (env_rid (Some (repeat 0%N 32)))) go_RID_Validate = Some false /\
  geval (alookup (env_rid (Some (repeat 7%N 31)))) go_RID_Validate = Some false /\
  geval (alookup (env_rid None)) go_RID_Validate = Some false /\
  geval (alookup (env_doerner_validate false (Some 5) (Some ex_G) (Some ex_rid))) go_doerner_validateConfig = Some true /\
  geval (alookup (env_doerner_validate true (Some 5) (Some ex_G) (Some ex_rid))) go_doerner_validateConfig = Some false /\
  geval (alookup (env_doerner_validate false (Some 5) (Some ex_G) None)) go_doerner_validateConfig = Some false /\
  geval (alookup (env_signature_validate no_nil ex_G 9)) go_ecdsa_Signature_Validate = Some true /\
  geval (alookup (env_signature_validate no_nil ex_G 0)) go_ecdsa_Signature_Validate = Some false /\
  (* a presignature of two signers; the same with the S entry of "b" missing / the identity / an S that is the identity *)
  geval (alookup (env_presig_validate no_nil (Some ex_rid) ex_G (Some [([97%N], Some ex_G); ([98%N], Some ex_G)])
                    (Some [([97%N], Some ex_G); ([98%N], Some ex_G)]) 3 4)) go_ecdsa_PreSignature_Validate = Some true /\
  geval (alookup (env_presig_validate no_nil (Some ex_rid) ex_G (Some [([97%N], Some ex_G); ([98%N], Some ex_G)])
                    (Some [([97%N], Some ex_G); ([99%N], Some ex_G)]) 3 4)) go_ecdsa_PreSignature_Validate = Some false /\
  geval (alookup (env_presig_validate no_nil (Some ex_rid) ex_G (Some [([97%N], Some ex_G); ([98%N], Some ex_G)])
                    (Some [([97%N], Some ex_G); ([98%N], Some None)]) 3 4)) go_ecdsa_PreSignature_Validate = Some false /\
  geval (alookup (env_presig_validate no_nil (Some ex_rid) ex_G (Some [([97%N], Some ex_G); ([98%N], Some ex_G)])
                    (Some [([97%N], Some ex_G); ([98%N], None)]) 3 4)) go_ecdsa_PreSignature_Validate = Some false /\
  (* Exponent: 3 bytes, a count larger than the data *)
  geval (alookup (env_exponent no_nil [1; 2; 3]%N)) go_polynomial_Exponent_UnmarshalBinary = Some false /\
  geval (alookup (env_exponent no_nil [0; 0; 1; 0; 160]%N)) go_polynomial_Exponent_UnmarshalBinary = Some false /\
  (* Message: CBOR null *)
  geval (alookup (env_message (message_decode empty_message [246%N]))) go_protocol_Message_UnmarshalBinary = Some false.
Proof. repeat split; vm_compute; reflexivity. Qed.
