(* C11 -- Signing nonces never repeat across contexts, even if the RNG fails.
   Only statements, each closed by [exact] of a lemma proved in Proofs/NonceProofs.v, followed by Print Assumptions.

   What is modelled (Model/Nonce.v) is the byte strings the two nonce derivations of the library hash:
     FROST round 1:   key material = share bytes (32);  keyed-hash stream = session digest (64) || message || random (32)
     taproot.Sign:    SHA256( T || T || (bytes(d) xor TaggedHash_aux(a)) || P (32) || m ),  T = SHA256("BIP0340/nonce"),
                      a = 32 bytes from the reader, or be64(counter) || 0^24 when the reader is nil.
   The fixed lengths (64, 32, 32 / 32, 32) are guaranteed by the code (hash.Sum, make([]byte,32), sha256, XBytes)
   and appear as the boolean premises [frost_lens_ok] / length premises.  The hash functions are arbitrary. *)
From Coq Require Import String.
From Coq Require Import List NArith ZArith Bool.
From MPS Require Import Model.Bytes Model.Framing Model.Nonce.
From MPS Require Import Proofs.BytesProofs Proofs.FramingProofs Proofs.NonceProofs.
Import ListNotations.
Open Scope N_scope.

(* ---------------- FROST ---------------- *)

(* the assembled hash input is an injective function of (share, session digest, message, randomness) *)
Theorem C11_frost_nonce_input_inj : forall s dg msg rnd s' dg' msg' rnd',
  s < 2^256 -> s' < 2^256 ->
  frost_lens_ok dg rnd = true -> frost_lens_ok dg' rnd' = true ->
  frost_nonce_input s dg msg rnd = frost_nonce_input s' dg' msg' rnd' ->
  s = s' /\ dg = dg' /\ msg = msg' /\ rnd = rnd'.
Proof. exact frost_nonce_input_inj. Qed.
Print Assumptions C11_frost_nonce_input_inj.

(* contexts differing in any of share / session digest / message give different inputs, also with identical randomness *)
Theorem C11_frost_nonce_input_neq : forall s dg msg rnd s' dg' msg' rnd',
  s < 2^256 -> s' < 2^256 ->
  frost_lens_ok dg rnd = true -> frost_lens_ok dg' rnd' = true ->
  (s, dg, msg, rnd) <> (s', dg', msg', rnd') ->
  frost_nonce_input s dg msg rnd <> frost_nonce_input s' dg' msg' rnd'.
Proof. exact frost_nonce_input_neq. Qed.

(* for ANY key-derivation function and ANY keyed hash: equal nonce digests => equal tuples, or an exhibited collision *)
Theorem C11_frost_nonce_binding : forall (T : Type) (KDF : bytes -> bytes -> bytes) (KH : bytes -> bytes -> T)
    s dg msg rnd s' dg' msg' rnd',
  s < 2^256 -> s' < 2^256 ->
  frost_lens_ok dg rnd = true -> frost_lens_ok dg' rnd' = true ->
  frost_nonce KDF KH s dg msg rnd = frost_nonce KDF KH s' dg' msg' rnd' ->
  (s = s' /\ dg = dg' /\ msg = msg' /\ rnd = rnd')
  \/ kdf_collision KDF (scalar_bytes s) (scalar_bytes s')
  \/ kh_collision KH (KDF frost_kdf_context (scalar_bytes s)) (frost_stream dg msg rnd)
                     (KDF frost_kdf_context (scalar_bytes s')) (frost_stream dg' msg' rnd').
Proof. intros T. exact (@frost_nonce_binding T). Qed.
Print Assumptions C11_frost_nonce_binding.

(* the RNG returns the same bytes in both attempts *)
Theorem C11_frost_rng_failure : forall (T : Type) (KDF : bytes -> bytes -> bytes) (KH : bytes -> bytes -> T)
    s dg msg s' dg' msg' rnd,
  s < 2^256 -> s' < 2^256 ->
  frost_lens_ok dg rnd = true -> frost_lens_ok dg' rnd = true ->
  frost_nonce KDF KH s dg msg rnd = frost_nonce KDF KH s' dg' msg' rnd ->
  (s = s' /\ dg = dg' /\ msg = msg')
  \/ kdf_collision KDF (scalar_bytes s) (scalar_bytes s')
  \/ kh_collision KH (KDF frost_kdf_context (scalar_bytes s)) (frost_stream dg msg rnd)
                     (KDF frost_kdf_context (scalar_bytes s')) (frost_stream dg' msg' rnd).
Proof. intros T. exact (@frost_nonce_binding_same_rand T). Qed.

(* a working RNG: identical inputs, different random bytes *)
Theorem C11_frost_fresh : forall (T : Type) (KDF : bytes -> bytes -> bytes) (KH : bytes -> bytes -> T) s dg msg rnd rnd',
  s < 2^256 -> frost_lens_ok dg rnd = true -> frost_lens_ok dg rnd' = true -> rnd <> rnd' ->
  frost_nonce KDF KH s dg msg rnd = frost_nonce KDF KH s dg msg rnd' ->
  kh_collision KH (KDF frost_kdf_context (scalar_bytes s)) (frost_stream dg msg rnd)
                  (KDF frost_kdf_context (scalar_bytes s)) (frost_stream dg msg rnd').
Proof. intros T. exact (@frost_nonce_fresh T). Qed.

(* composed with the session hash (C19 framing; Properties/C09.v turns equal item lists into equal session id,
   protocol id [= taproot flag], group, sorted signer set, threshold) *)
Theorem C11_frost_session_binding : forall (T : Type) (KDF : bytes -> bytes -> bytes) (KH : bytes -> bytes -> T)
    (Hs : bytes -> bytes), (forall x, length (Hs x) = 64%nat) ->
  forall s l msg rnd s' l' msg' rnd',
  s < 2^256 -> s' < 2^256 -> length rnd = 32%nat -> length rnd' = 32%nat ->
  forallb wf_item l = true -> forallb wf_item l' = true ->
  frost_nonce KDF KH s (Hs (stream init_state l)) msg rnd
    = frost_nonce KDF KH s' (Hs (stream init_state l')) msg' rnd' ->
  (s = s' /\ l = l' /\ msg = msg' /\ rnd = rnd')
  \/ collision Hs (stream init_state l) (stream init_state l')
  \/ kdf_collision KDF (scalar_bytes s) (scalar_bytes s')
  \/ kh_collision KH (KDF frost_kdf_context (scalar_bytes s)) (frost_stream (Hs (stream init_state l)) msg rnd)
                     (KDF frost_kdf_context (scalar_bytes s')) (frost_stream (Hs (stream init_state l')) msg' rnd').
Proof. intros T. exact (@frost_nonce_session_binding T). Qed.
Print Assumptions C11_frost_session_binding.

(* ---------------- BIP-340 ---------------- *)

Theorem C11_bip340_nonce_input_inj : forall d ah pk msg d' ah' pk' msg',
  bip340_lens_ok ah pk = true -> bip340_lens_ok ah' pk' = true ->
  snd (bip340_nonce_input d ah pk msg) = snd (bip340_nonce_input d' ah' pk' msg') ->
  bip340_t d ah = bip340_t d' ah' /\ pk = pk' /\ msg = msg'.
Proof. exact bip340_nonce_input_inj. Qed.
Print Assumptions C11_bip340_nonce_input_inj.

Theorem C11_bip340_nonce_input_inj_same_aux : forall d ah pk msg d' pk' msg',
  d < 2^256 -> d' < 2^256 ->
  bip340_lens_ok ah pk = true -> bip340_lens_ok ah pk' = true ->
  snd (bip340_nonce_input d ah pk msg) = snd (bip340_nonce_input d' ah pk' msg') ->
  d = d' /\ pk = pk' /\ msg = msg'.
Proof. exact bip340_nonce_input_inj_same_aux. Qed.

Theorem C11_bip340_nonce_input_inj_same_key : forall d ah pk msg ah' pk' msg',
  bip340_lens_ok ah pk = true -> bip340_lens_ok ah' pk' = true ->
  snd (bip340_nonce_input d ah pk msg) = snd (bip340_nonce_input d ah' pk' msg') ->
  ah = ah' /\ pk = pk' /\ msg = msg'.
Proof. exact bip340_nonce_input_inj_same_key. Qed.

(* for ANY hash with 32-byte output in the place of SHA-256 *)
Theorem C11_bip340_rand_binding : forall (H : bytes -> bytes), (forall x, length (H x) = 32%nat) ->
  forall d pk msg a d' pk' msg' a',
  length pk = 32%nat -> length pk' = 32%nat ->
  bip340_rand H d pk msg a = bip340_rand H d' pk' msg' a' ->
  (bip340_t d (tagged H tag_aux a) = bip340_t d' (tagged H tag_aux a') /\ pk = pk' /\ msg = msg')
  \/ collision H (bip340_nonce_preimage H d pk msg a) (bip340_nonce_preimage H d' pk' msg' a').
Proof. exact bip340_rand_binding. Qed.
Print Assumptions C11_bip340_rand_binding.

(* the reader returns the same 32 bytes in both calls *)
Theorem C11_bip340_rng_failure : forall (H : bytes -> bytes), (forall x, length (H x) = 32%nat) ->
  forall d pk msg d' pk' msg' a,
  d < 2^256 -> d' < 2^256 -> length pk = 32%nat -> length pk' = 32%nat ->
  bip340_rand H d pk msg a = bip340_rand H d' pk' msg' a ->
  (d = d' /\ pk = pk' /\ msg = msg')
  \/ collision H (bip340_nonce_preimage H d pk msg a) (bip340_nonce_preimage H d' pk' msg' a).
Proof. exact bip340_binding_same_aux. Qed.

Theorem C11_bip340_same_key : forall (H : bytes -> bytes), (forall x, length (H x) = 32%nat) ->
  forall d pk msg a pk' msg' a',
  length pk = 32%nat -> length pk' = 32%nat ->
  bip340_rand H d pk msg a = bip340_rand H d pk' msg' a' ->
  (a = a' /\ pk = pk' /\ msg = msg')
  \/ collision H (tagged_input H tag_aux a) (tagged_input H tag_aux a')
  \/ collision H (bip340_nonce_preimage H d pk msg a) (bip340_nonce_preimage H d pk' msg' a').
Proof. exact bip340_binding_same_key. Qed.

(* general case; the injectivity of key -> x-only public key on normalised keys is a premise (elliptic-curve fact) *)
Theorem C11_bip340_binding_full : forall (H : bytes -> bytes), (forall x, length (H x) = 32%nat) ->
  forall (pubx : N -> bytes) d msg a d' msg' a',
  (forall x y, pubx x = pubx y -> x = y) ->
  length (pubx d) = 32%nat -> length (pubx d') = 32%nat ->
  bip340_rand H d (pubx d) msg a = bip340_rand H d' (pubx d') msg' a' ->
  (d = d' /\ msg = msg' /\ a = a')
  \/ collision H (tagged_input H tag_aux a) (tagged_input H tag_aux a')
  \/ collision H (bip340_nonce_preimage H d (pubx d) msg a) (bip340_nonce_preimage H d' (pubx d') msg' a').
Proof. exact bip340_binding_full. Qed.
Print Assumptions C11_bip340_binding_full.

Theorem C11_bip340_fresh : forall (H : bytes -> bytes), (forall x, length (H x) = 32%nat) ->
  forall d pk msg a a', length pk = 32%nat -> a <> a' ->
  bip340_rand H d pk msg a = bip340_rand H d pk msg a' ->
  collision H (tagged_input H tag_aux a) (tagged_input H tag_aux a')
  \/ collision H (bip340_nonce_preimage H d pk msg a) (bip340_nonce_preimage H d pk msg a').
Proof. exact bip340_fresh. Qed.

(* rand == nil: up to 2^64 successive calls use pairwise different aux values, from any counter value *)
Theorem C11_bip340_counter_fresh : forall k c, N.of_nat k <= 2^64 -> NoDup (bip340_nil_calls k c).
Proof. exact bip340_counter_fresh. Qed.
Print Assumptions C11_bip340_counter_fresh.

Theorem C11_bip340_nth_counter_fresh : forall i j,
  i < j -> j < i + 2^64 -> bip340_nth_counter_aux i <> bip340_nth_counter_aux j.
Proof. exact bip340_nth_counter_fresh_window. Qed.

(* the limit of the counter hedge, stated rather than hidden: it wraps after 2^64 calls (and restarts with the process) *)
Theorem C11_bip340_counter_wraps : forall i, bip340_nth_counter_aux (i + 2^64) = bip340_nth_counter_aux i.
Proof. exact bip340_counter_wraps. Qed.

(* ---------------- non-vacuity ---------------- *)

Definition ex_dg : bytes := repeat 7 64.
Definition ex_rnd : bytes := repeat 90 32.     (* the constant reader of the harness: 0x5a *)

Example C11_ex_lens_ok : frost_lens_ok ex_dg ex_rnd = true.
Proof. reflexivity. Qed.
Example C11_ex_checked : frost_nonce_input_checked 5 ex_dg [1;2;3] ex_rnd
  = Some (scalar_bytes 5, ex_dg ++ [1;2;3] ++ ex_rnd).
Proof. reflexivity. Qed.
(* same randomness, message differs in one byte / message extended by a byte that could be mistaken for randomness *)
Example C11_ex_msg_differs :
  frost_nonce_input 5 ex_dg [1;2;3] ex_rnd <> frost_nonce_input 5 ex_dg [1;2;4] ex_rnd.
Proof. vm_compute. discriminate. Qed.
Example C11_ex_msg_extended :
  frost_nonce_input 5 ex_dg [1;2;3] ex_rnd <> frost_nonce_input 5 ex_dg [1;2;3;90] ex_rnd.
Proof. vm_compute. discriminate. Qed.
Example C11_ex_share_differs :
  frost_nonce_input 5 ex_dg [1;2;3] ex_rnd <> frost_nonce_input 6 ex_dg [1;2;3] ex_rnd.
Proof. vm_compute. discriminate. Qed.
(* the length premises are needed: without the fixed length of the random part the stream is ambiguous *)
Example C11_ex_lengths_needed :
  frost_stream ex_dg [1;2;3] [4] = frost_stream ex_dg [1;2] [3;4].
Proof. reflexivity. Qed.
(* the collision disjunct is needed: a constant "hash" makes all nonces equal *)
Example C11_ex_collision_branch :
  frost_nonce (fun _ _ => []) (fun _ _ => 0) 5 ex_dg [1] ex_rnd = frost_nonce (fun _ _ => []) (fun _ _ => 0) 6 ex_dg [2] ex_rnd
  /\ kdf_collision (fun _ _ => []) (scalar_bytes 5) (scalar_bytes 6).
Proof. split; [reflexivity|]. split; [vm_compute; discriminate|reflexivity]. Qed.
(* the hash-length premises are satisfiable *)
Example C11_ex_Hs_len : forall x : bytes, length ((fun _ => repeat 0 64) x) = 64%nat.
Proof. reflexivity. Qed.
Example C11_ex_H_len : forall x : bytes, length ((fun _ => repeat 0 32) x) = 32%nat.
Proof. reflexivity. Qed.

Example C11_ex_bip340_rejects :
  bip340_nonce_input_checked 0 true (repeat 1 32) (repeat 2 32) [9] = None /\
  bip340_nonce_input_checked secp_n true (repeat 1 32) (repeat 2 32) [9] = None /\
  bip340_nonce_input_checked 3 true (repeat 1 32) (repeat 2 32) [9] <> None /\
  bip340_nonce_input_checked 3 true (repeat 1 31) (repeat 2 32) [9] = None.
Proof. vm_compute. repeat split; try reflexivity. discriminate. Qed.
Example C11_ex_bip340_msg_differs :
  snd (bip340_nonce_input 3 (repeat 1 32) (repeat 2 32) [9]) <> snd (bip340_nonce_input 3 (repeat 1 32) (repeat 2 32) [8]).
Proof. vm_compute. discriminate. Qed.
(* counter: first calls of a process *)
Example C11_ex_counter : bip340_nil_calls 2 0 = [bip340_nth_counter_aux 1; bip340_nth_counter_aux 2]
  /\ bip340_nth_counter_aux 1 = be_bytes 7 0 ++ [1] ++ repeat 0 24.
Proof. split; reflexivity. Qed.
(* wrap-around of the uint64 counter *)
Example C11_ex_counter_wrap : bip340_nil_calls 1 (2^64 - 1) = [bip340_counter_aux 0].
Proof. reflexivity. Qed.
