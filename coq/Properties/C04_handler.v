(* C04 (handler level) -- who is named in the culprit list of a handler-detected abort.
   Model: Model/Handler.v.  (Model of the handler after the D7 repair: the attached view digest is compared before a
   message is processed.  The system-level statement about equivocation is in C04_equiv / C06; here: single
   handler, arbitrary history.)
   Only statements, each closed by [exact] of a lemma proved in Proofs/HandlerProofs.v. *)
From Coq Require Import List NArith ZArith Bool Arith Lia.
From MPS Require Import Model.Handler Proofs.HandlerProofs.
Import ListNotations.

(* a round-0 message is a relayed abort: the culprit is its sender and nobody else *)
Theorem C04_abort_notice_attribution : forall vh ofp self n ssid proto sh s m,
  reachable true vh ofp self n ssid proto sh s ->
  h_rt s = Running -> terminal s = false -> can_accept s m = true -> m_round m = 0 ->
  let s' := accept vh ofp s m in
  h_err s' = Some ([m_from m], EAbortNotice) /\ h_closes s' = 1 /\ result_class s' = 2.
Proof. exact abort_notice_attribution. Qed.
Print Assumptions C04_abort_notice_attribution.

(* A verification abort names exactly one party j <> self, and j is the sender of a message m0 that is
   stored in the handler's queues, was sent under OUR broadcast view ([same_view]: its attached digest equals our
   digest of the previous round's broadcasts, if we have one), and is bad: rejected by the round
   ([m_valid m0 = false]) or of a kind the round does not expect (broadcast to a non-broadcast round / p2p to a
   round without p2p content).
     bad_msg sh m0 = if m_bcast m0 then negb (sh_bcast sh (m_round m0)) || negb (m_valid m0)
                     else (sh_p2p sh (m_round m0) is NoP2P) || negb (m_valid m0)                      *)
Theorem C04_verify_failure_blames_sender : forall fixed vh ofp self n ssid proto sh s m c,
  reachable fixed vh ofp self n ssid proto sh s ->
  h_err s = None ->
  h_err (accept vh ofp s m) = Some (c, EVerify) ->
  exists j m0, c = [j] /\ j <> h_self (accept vh ofp s m) /\ m_from m0 = j
               /\ stored (accept vh ofp s m) m0 /\ bad_msg (h_shape (accept vh ofp s m)) m0 = true
               /\ same_view (accept vh ofp s m) m0 = true.
Proof. exact verify_failure_blames_sender. Qed.
Print Assumptions C04_verify_failure_blames_sender.

(* hence a sender whose stored messages are -- as far as they were sent under our view -- all valid and expected
   is never named by EVerify *)
Theorem C04_honest_sender_never_blamed_by_verify : forall fixed vh ofp self n ssid proto sh s m c j,
  reachable fixed vh ofp self n ssid proto sh s ->
  h_err s = None ->
  h_err (accept vh ofp s m) = Some (c, EVerify) ->
  (forall m0, stored (accept vh ofp s m) m0 -> m_from m0 = j -> same_view (accept vh ofp s m) m0 = true ->
              bad_msg (h_shape s) m0 = false) ->
  ~ In j c.
Proof. exact honest_sender_never_blamed_by_verify. Qed.
Print Assumptions C04_honest_sender_never_blamed_by_verify.

(* in particular a party all of whose stored messages were sent under a different view (the honest victim of an
   equivocated broadcast, defect D7) is never named, whatever the round thinks of its payloads *)
Theorem C04_different_view_never_blamed_by_verify : forall fixed vh ofp self n ssid proto sh s m c j,
  reachable fixed vh ofp self n ssid proto sh s ->
  h_err s = None ->
  h_err (accept vh ofp s m) = Some (c, EVerify) ->
  (forall m0, stored (accept vh ofp s m) m0 -> m_from m0 = j -> same_view (accept vh ofp s m) m0 = false) ->
  ~ In j c.
Proof. exact different_view_never_blamed_by_verify. Qed.
Print Assumptions C04_different_view_never_blamed_by_verify.

(* a failed view-hash comparison names nobody *)
Theorem C04_broadcast_hash_failure_names_nobody : forall fixed vh ofp self n ssid proto sh s c,
  reachable fixed vh ofp self n ssid proto sh s ->
  h_err s = Some (c, EBroadcastHash) -> c = [].
Proof. exact broadcast_hash_failure_names_nobody. Qed.
Print Assumptions C04_broadcast_hash_failure_names_nobody.

(* all error kinds the control logic can produce, with the shape of their culprit lists
   (EPanic: a panic of the round code recovered by Accept names nobody) *)
Theorem C04_error_kinds_and_culprits : forall fixed vh ofp self n ssid proto sh s c k,
  reachable fixed vh ofp self n ssid proto sh s ->
  h_err s = Some (c, k) ->
  match k with
  | EBroadcastHash | EPanic => c = []
  | EUser => c = [h_self s]
  | EAbortNotice | EVerify => exists j, c = [j] /\ j <> h_self s
  | _ => False
  end.
Proof. exact error_kinds_and_culprits. Qed.
Print Assumptions C04_error_kinds_and_culprits.

(* -- non-vacuity -- *)
Example C04_ex_abort_notice :
  let m := mkMsg 7 9 2 None 0 true false 0 1 true NoPanic in
  reachable true ex_vh ex_ofp 0 3 7 9 ex_shape ex_start
  /\ h_rt ex_start = Running /\ terminal ex_start = false /\ can_accept ex_start m = true /\ m_round m = 0
  /\ h_err (accept ex_vh ex_ofp ex_start m) = Some ([2], EAbortNotice).
Proof. split; [exists []; reflexivity|]. vm_compute. repeat split. Qed.

(* a queued invalid p2p message of party 2 is detected when party 2's broadcast arrives *)
Example C04_ex_verify_failure_chained :
  let s := run_api true ex_vh ex_ofp ex_start [Accept (ex_p 2 2 0 false)] in
  h_err s = None /\ h_err (accept ex_vh ex_ofp s (ex_b 2 2 0 true)) = Some ([2], EVerify).
Proof. vm_compute. repeat split. Qed.

(* a queued invalid round-3 broadcast of party 1 is detected when round 3 is reached (first_bad) *)
Example C04_ex_verify_failure_queued :
  let s := run_api true ex_vh ex_ofp ex_start
             [Accept (ex_b 1 3 102 false); Accept (ex_b 1 2 0 true); Accept (ex_p 1 2 0 true); Accept (ex_p 2 2 0 true); Drain 3] in
  h_err s = None /\ h_cur s = 2
  /\ h_err (accept ex_vh ex_ofp s (ex_b 2 2 0 true)) = Some ([1], EVerify).
Proof. vm_compute. repeat split. Qed.

(* a wrong attached view hash: abort without culprit *)
Example C04_ex_broadcast_hash_failure :
  let s := run_api true ex_vh ex_ofp ex_start (firstn 5 ex_honest ++ [Accept (ex_b 1 3 999 true); Accept (ex_b 2 3 102 true)]) in
  reachable true ex_vh ex_ofp 0 3 7 9 ex_shape s /\ h_err s = Some ([], EBroadcastHash) /\ h_closes s = 1.
Proof. split; [eexists; reflexivity|]. vm_compute. repeat split. Qed.

(* regression for D7 (equivocation): party 1 computed its round-3 broadcast under a different round-2 view
   (digest 999, ours is 102), so under OUR view its payload does not verify ([m_valid = false]).  The handler
   as found verified first and named party 1; the repaired handler compares the view first and names nobody --
   on arrival, and likewise when the message was queued before round 3 was reached. *)
Example C04_ex_equivocation_victim_not_blamed :
  let s := run_api true ex_vh ex_ofp ex_start (firstn 5 ex_honest) in
  h_cur s = 3 /\ h_err (accept ex_vh ex_ofp s (ex_b 1 3 999 false)) = Some ([], EBroadcastHash).
Proof. vm_compute. repeat split. Qed.

Example C04_ex_equivocation_victim_not_blamed_queued :
  let s := run_api true ex_vh ex_ofp ex_start
             [Accept (ex_b 1 3 999 false); Accept (ex_b 1 2 0 true); Accept (ex_p 1 2 0 true); Accept (ex_p 2 2 0 true); Drain 3] in
  h_err s = None /\ h_cur s = 2
  /\ h_err (accept ex_vh ex_ofp s (ex_b 2 2 0 true)) = Some ([], EBroadcastHash).
Proof. vm_compute. repeat split. Qed.
