(* C09 -- Sessions are isolated from one another (session-tag part; handler part is in C09_handler.v). *)
From Coq Require Import String.
From Coq Require Import List NArith ZArith Bool.
From MPS Require Import Model.Bytes Model.Framing Model.Session Proofs.BytesProofs Proofs.FramingProofs Proofs.SessionProofs.
Import ListNotations.

(* the item list fed to the session hash determines every session parameter *)
Theorem C09_ssid_items_inj : forall p1 p2 l1 l2 a1 a2,
  enc_all (ssid_vals p1) = Some l1 -> enc_all (ssid_vals p2) = Some l2 ->
  enc_all (sp_aux p1) = Some a1 -> enc_all (sp_aux p2) = Some a2 ->
  ids_small (sort_ids (sp_ids p1)) -> ids_small (sort_ids (sp_ids p2)) ->
  l1 = l2 ->
  sp_sid p1 = sp_sid p2 /\ sp_proto p1 = sp_proto p2 /\ sp_group p1 = sp_group p2 /\
  sort_ids (sp_ids p1) = sort_ids (sp_ids p2) /\
  (Z.to_N (sp_thr p1) mod 2^32 = Z.to_N (sp_thr p2) mod 2^32)%N /\ a1 = a2.
Proof. exact ssid_items_inj. Qed.
Print Assumptions C09_ssid_items_inj.

(* ... hence so does the hashed byte stream (by C19's framing injectivity) *)
Theorem C09_ssid_stream_inj : forall p1 p2 l1 l2 a1 a2,
  enc_all (ssid_vals p1) = Some l1 -> enc_all (ssid_vals p2) = Some l2 ->
  enc_all (sp_aux p1) = Some a1 -> enc_all (sp_aux p2) = Some a2 ->
  forallb wf_item l1 = true -> forallb wf_item l2 = true ->
  ids_small (sort_ids (sp_ids p1)) -> ids_small (sort_ids (sp_ids p2)) ->
  stream init_state l1 = stream init_state l2 ->
  sp_sid p1 = sp_sid p2 /\ sp_proto p1 = sp_proto p2 /\ sp_group p1 = sp_group p2 /\
  sort_ids (sp_ids p1) = sort_ids (sp_ids p2) /\
  (Z.to_N (sp_thr p1) mod 2^32 = Z.to_N (sp_thr p2) mod 2^32)%N /\ a1 = a2.
Proof. exact ssid_stream_inj. Qed.
Print Assumptions C09_ssid_stream_inj.

(* different parameters give different tags, or an explicit digest collision *)
Theorem C09_ssid_digest_binding : forall (H : bytes -> bytes) l1 l2,
  forallb wf_item l1 = true -> forallb wf_item l2 = true ->
  H (stream init_state l1) = H (stream init_state l2) ->
  l1 = l2 \/ collision H (stream init_state l1) (stream init_state l2).
Proof. intros H. exact (digest_binding H init_state). Qed.

(* per-party Fiat-Shamir contexts differ between parties and from the bare session context *)
Theorem C09_hash_for_id_inj : forall st a b,
  a <> [] -> b <> [] -> wf_bytes a = true -> wf_bytes b = true ->
  (len a < 2^64)%N -> (len b < 2^64)%N ->
  hash_for_id st a = hash_for_id st b -> a = b.
Proof. exact hash_for_id_inj. Qed.
Theorem C09_hash_for_id_ext : forall st a, a <> [] -> hash_for_id st a <> st.
Proof. exact hash_for_id_ext. Qed.
Print Assumptions C09_hash_for_id_inj.

(* nil vs empty session id are distinguished *)
Example C09_nil_vs_empty_sid :
  new_session (mkSess None (str "p") None [[97]]%N [97]%N 0 []) <>
  new_session (mkSess (Some []) (str "p") None [[97]]%N [97]%N 0 []).
Proof. vm_compute. discriminate. Qed.
