(* C20 (tie to the source): the parameter checks of round.NewSession (everything before the hash is started) and
   IDSlice.Valid, translated from /repo on every run (Generated/Guards.v), are the model's new_session_ok / ids_valid
   (Model/Session.v).  Loops are single atoms carrying the loop's range and condition text; the environment reads them as
   the existsb they are, and that is proved equal to the model's recursive definitions. *)
From Coq Require Import String List Bool Arith NArith ZArith.
From MPS Require Import Model.Bytes Model.Session Generated.Guards Proofs.GuardsBase Proofs.GuardsSessionProofs.
Import ListNotations.
Local Open Scope string_scope.
Local Open Scope nat_scope.
Local Open Scope list_scope.

Theorem C20_guards_session_translated : translated ["IDSlice_Valid"; "NewSession_checks"] = true.
Proof. exact guards_session_translated. Qed.
Print Assumptions C20_guards_session_translated.

Theorem C20_guards_session_lets :
  go_IDSlice_Valid_lets = [("n", "len(partyIDs)")] /\
  go_NewSession_checks_lets = [("partyIDs", "party.NewIDSlice(info.PartyIDs)"); ("n", "len(partyIDs)")].
Proof. exact guards_session_lets_ok. Qed.
Print Assumptions C20_guards_session_lets.

Theorem C20_guards_idslice_Valid : forall l,
  geval (alookup (env_idslice l)) go_IDSlice_Valid = Some (ids_valid l).
Proof. exact idslice_Valid. Qed.
Print Assumptions C20_guards_idslice_Valid.

Theorem C20_guards_valid_loop_meaning : forall l, any_unsorted l = negb (ids_valid l).
Proof. exact any_unsorted_ids_valid. Qed.
Print Assumptions C20_guards_valid_loop_meaning.

Theorem C20_guards_newSession_checks : forall p,
  geval (alookup (env_session p)) go_NewSession_checks = Some (new_session_ok p).
Proof. exact newSession_checks. Qed.
Print Assumptions C20_guards_newSession_checks.

Theorem C20_guards_id_loop_meaning : forall grp ids,
  existsb (id_refused grp) ids = negb (forallb (id_ok grp) ids).
Proof. exact existsb_refused. Qed.
Print Assumptions C20_guards_id_loop_meaning.

Definition ex_sess (ids : list bytes) (self : bytes) (t : Z) : sess_params := mkSess None [112%N] (Some [115%N]) ids self t [].
Example C20_guards_ex :
  geval (alookup (env_idslice [[97%N]; [98%N]])) go_IDSlice_Valid = Some true /\
  geval (alookup (env_idslice [[97%N]; [97%N]])) go_IDSlice_Valid = Some false /\
  geval (alookup (env_idslice [[98%N]; [97%N]])) go_IDSlice_Valid = Some false /\
  geval (alookup (env_session (ex_sess [[98%N]; [97%N]] [97%N] 1))) go_NewSession_checks = Some true /\
  geval (alookup (env_session (ex_sess [[98%N]; [97%N]] [97%N] 2))) go_NewSession_checks = Some false /\   (* t > n-1 *)
  geval (alookup (env_session (ex_sess [[98%N]; [97%N]] [99%N] 1))) go_NewSession_checks = Some false /\   (* self absent *)
  geval (alookup (env_session (ex_sess [[97%N]; [97%N]] [97%N] 1))) go_NewSession_checks = Some false /\   (* duplicate id *)
  geval (alookup (env_session (ex_sess [[98%N]; []] [98%N] 1))) go_NewSession_checks = Some false /\       (* empty id *)
  geval (alookup (env_session (ex_sess [[98%N]; [97%N]] [97%N] (-1)))) go_NewSession_checks = Some false.
Proof. repeat split; vm_compute; reflexivity. Qed.
