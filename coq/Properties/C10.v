(* C10 -- ZK proofs are complete on their domain and bound to statement and context.
   Only statements, each closed by [exact] of a lemma proved in Proofs/ZKProofs.v, followed by Print Assumptions;
   then small examples showing that the hypotheses are satisfiable.
   Model: Model/ZK.v (the 15 verifiers of pkg/zk check by check, the provers, the challenge item lists).
   The group is abstract: [module_laws] (Proofs/RefSigProofs.v) are the Z-module laws of a group of exponent q;
   [unit n x] is gcd(x, n) = 1; no primality of any modulus is needed for completeness (except zkprm's order
   hypothesis t^phi = 1 and zkmod).  Verdicts: Some true = accept, Some false = reject, None = Go panics. *)
From Coq Require Import String.
From Coq Require Import List NArith ZArith Bool Lia.
From MPS Require Import Model.Bytes Model.Framing Model.Paillier Model.ZK Proofs.RefSigProofs Proofs.ZKProofs.
Import ListNotations.
Local Open Scope Z_scope.


(* ==================================================================================================== *)
(* Completeness: honest proofs verify, provided the responses pass the verifier's validity / range / size checks (Go's completeness error: a zero response, an identity commitment, a mask at the edge of its range) *)

Theorem C10_sch_complete :
  forall (G : Type) (gadd : G -> G -> G) (gneg : G -> G) (gzero : G) (smul : Z -> G -> G) (q : Z),
  module_laws q gadd gneg gzero smul ->
  forall geqb : G -> G -> bool,
  (forall a b : G, geqb a b = true <-> a = b) ->
  forall (gis_id : G -> bool) (gen : G) (x a e : Z),
  let X := act smul q x gen in
  let C := sch_commit smul q gen a in
  let z := sch_respond q x a e in
  sc_zero q z = false ->
  gis_id C = false -> gis_id X = false -> sch_verify gadd smul geqb gis_id q gen X C z e = Some true.
Proof. exact @sch_complete. Qed.
Print Assumptions C10_sch_complete.

Theorem C10_log_complete :
  forall (G : Type) (gadd : G -> G -> G) (gneg : G -> G) (gzero : G) (smul : Z -> G -> G) (q : Z),
  module_laws q gadd gneg gzero smul ->
  forall geqb : G -> G -> bool,
  (forall a b : G, geqb a b = true <-> a = b) ->
  forall (gis_id : G -> bool) (gbase : G) (a b alpha beta e : Z),
  let H := act smul q b gbase in
  let X := act smul q a gbase in
  let Y := act smul q a H in
  let
  '(A, B, C) := log_commit smul gbase q H alpha beta in
   let
   '(z1, z2) := log_respond q a b alpha beta e in
    gis_id A = false ->
    gis_id B = false ->
    gis_id C = false ->
    sc_zero q z1 = false ->
    sc_zero q z2 = false -> log_verify gadd smul geqb gis_id gbase q H X Y A B C z1 z2 e = Some true.
Proof. exact @log_complete. Qed.
Print Assumptions C10_log_complete.

Theorem C10_elog_complete :
  forall (G : Type) (gadd : G -> G -> G) (gneg : G -> G) (gzero : G) (smul : Z -> G -> G) (q : Z),
  module_laws q gadd gneg gzero smul ->
  forall geqb : G -> G -> bool,
  (forall a b : G, geqb a b = true <-> a = b) ->
  forall (gis_id : G -> bool) (gbase X H : G) (y lambda alpha m e : Z),
  let L := act smul q lambda gbase in
  let M := gadd (act smul q y gbase) (act smul q lambda X) in
  let Y := act smul q y H in
  let
  '(A, Np, B) := elog_commit gadd smul gbase q X H alpha m in
   let
   '(z, u) := elog_respond q y lambda alpha m e in
    gis_id A = false ->
    gis_id Np = false ->
    gis_id B = false ->
    sc_zero q z = false ->
    sc_zero q u = false -> elog_verify gadd smul geqb gis_id gbase q L M X H Y A Np B z u e = Some true.
Proof. exact @elog_complete. Qed.
Print Assumptions C10_elog_complete.

Theorem C10_nth_complete :
  forall n rho alpha e : Z,
  1 < n ->
  unit n rho ->
  unit n alpha -> nth_verify n (iota n rho) (nth_commit n alpha) (nth_respond n rho alpha e) e = Some true.
Proof. exact nth_complete. Qed.
Print Assumptions C10_nth_complete.

Theorem C10_enc_complete :
  forall nh s t n0 k rho alpha r mu gamma e K S A C z1 z2 z3 : Z,
  1 < nh ->
  unit nh s ->
  unit nh t ->
  1 < n0 ->
  2 ^ 769 <= n0 ->
  unit n0 rho ->
  unit n0 r ->
  enc n0 k rho = Some K ->
  enc_commit nh s t n0 k alpha r mu gamma = Some (S, A, C) ->
  enc_respond n0 k rho alpha r mu gamma e = (z1, z2, z3) ->
  in_leps z1 = true -> zk_bounded z3 = true -> enc_verify nh s t n0 K S A C z1 z2 z3 e = Some true.
Proof. exact enc_complete. Qed.
Print Assumptions C10_enc_complete.

Theorem C10_logstar_complete :
  forall (G : Type) (gadd : G -> G -> G) (gneg : G -> G) (gzero : G) (smul : Z -> G -> G) (q : Z),
  module_laws q gadd gneg gzero smul ->
  forall geqb : G -> G -> bool,
  (forall a b : G, geqb a b = true <-> a = b) ->
  forall (gis_id : G -> bool) (nh s t n0 : Z) (Gb : G) (x rho alpha r mu gamma e C S A : Z) 
    (Y : G) (D z1 z2 z3 : Z),
  1 < nh ->
  unit nh s ->
  unit nh t ->
  1 < n0 ->
  2 ^ 769 <= n0 ->
  unit n0 rho ->
  unit n0 r ->
  enc n0 x rho = Some C ->
  logstar_commit smul q nh s t n0 Gb x alpha r mu gamma = Some (S, A, Y, D) ->
  enc_respond n0 x rho alpha r mu gamma e = (z1, z2, z3) ->
  gis_id Y = false ->
  in_leps z1 = true ->
  zk_bounded z3 = true ->
  logstar_verify gadd smul geqb gis_id q nh s t n0 C (act smul q x Gb) Gb S A Y D z1 z2 z3 e = Some true.
Proof. exact @logstar_complete. Qed.
Print Assumptions C10_logstar_complete.


(* zkdec and zkmul have NO l+eps range check in Verify: the provisos are the plaintext range of EncWithNonce, |z| <= N/2, and the size bound of pedersen.Verify. *)
Theorem C10_dec_complete :
  forall q : Z,
  1 < q ->
  forall nh s t n0 y rho alpha mu nu r e C S T A Gamma z1 z2 w : Z,
  1 < nh ->
  unit nh s ->
  unit nh t ->
  1 < n0 ->
  unit n0 rho ->
  unit n0 r ->
  enc n0 y rho = Some C ->
  dec_commit q nh s t n0 y alpha mu nu r = Some (S, T, A, Gamma) ->
  dec_respond n0 y rho alpha mu nu r e = (z1, z2, w) ->
  sc_zero q Gamma = false ->
  in_plaintext n0 z1 = true ->
  zk_bounded z1 = true ->
  zk_bounded z2 = true -> dec_verify q nh s t n0 C (y mod q) S T A Gamma z1 z2 w e = Some true.
Proof. exact dec_complete. Qed.
Print Assumptions C10_dec_complete.

Theorem C10_mul_complete :
  forall n Y x rho rhox alpha r sn e X C A B z u v : Z,
  1 < n ->
  unit (n * n) Y ->
  unit n rho ->
  unit n rhox ->
  unit n r ->
  unit n sn ->
  enc n x rhox = Some X ->
  C = randomize n (mul n x Y) rho ->
  mul_commit n Y alpha r sn = Some (A, B) ->
  mul_respond n x rho rhox alpha r sn e = (z, u, v) ->
  in_plaintext n z = true -> mul_verify n X Y C A B z u v e = Some true.
Proof. exact mul_complete. Qed.
Print Assumptions C10_mul_complete.

Theorem C10_affg_complete :
  forall (G : Type) (gadd : G -> G -> G) (gneg : G -> G) (gzero : G) (smul : Z -> G -> G) (q : Z),
  module_laws q gadd gneg gzero smul ->
  forall geqb : G -> G -> bool,
  (forall a b : G, geqb a b = true <-> a = b) ->
  forall (gis_id : G -> bool) (gbase : G)
    (nh s t n1 n0 Kv x y sn r alpha beta rho rhoy gamma m delta mu e Dv Fp A : Z) (Bx : G)
    (By E S F T z1 z2 z3 z4 w wy : Z),
  1 < nh ->
  unit nh s ->
  unit nh t ->
  1 < n0 ->
  2 ^ 1793 <= n0 ->
  1 < n1 ->
  2 ^ 1793 <= n1 ->
  unit (n0 * n0) Kv ->
  unit n0 sn ->
  unit n0 rho ->
  unit n1 r ->
  unit n1 rhoy ->
  enc n0 y sn = Some Dv ->
  enc n1 y r = Some Fp ->
  affg_commit smul gbase q nh s t n1 n0 Kv x y alpha beta rho rhoy gamma m delta mu =
  Some (A, Bx, By, E, S, F, T) ->
  affg_respond n1 n0 x y sn r alpha beta rho rhoy gamma m delta mu e = (z1, z2, z3, z4, w, wy) ->
  gis_id Bx = false ->
  in_leps z1 = true ->
  in_lprimeeps z2 = true ->
  zk_bounded z3 = true ->
  zk_bounded z4 = true ->
  affg_verify gadd smul geqb gis_id gbase q nh s t n1 n0 Kv (add n0 (mul n0 x Kv) Dv) Fp 
    (act smul q x gbase) A Bx By E S F T z1 z2 z3 z4 w wy e = Some true.
Proof. exact @affg_complete. Qed.
Print Assumptions C10_affg_complete.

Theorem C10_affp_complete :
  forall
    nh s t n1 n0 Kv x y sn rx r alpha beta rho rhox rhoy gamma m delta mu e Dv Fp Xp A Bx By E S F T z1 z2 z3 z4
     w wx wy : Z,
  1 < nh ->
  unit nh s ->
  unit nh t ->
  1 < n0 ->
  2 ^ 1793 <= n0 ->
  1 < n1 ->
  2 ^ 1793 <= n1 ->
  unit (n0 * n0) Kv ->
  unit n0 sn ->
  unit n0 rho ->
  unit n1 rx ->
  unit n1 r ->
  unit n1 rhox ->
  unit n1 rhoy ->
  enc n0 y sn = Some Dv ->
  enc n1 y r = Some Fp ->
  enc n1 x rx = Some Xp ->
  affp_commit nh s t n1 n0 Kv x y alpha beta rho rhox rhoy gamma m delta mu = Some (A, Bx, By, E, S, F, T) ->
  affp_respond n1 n0 x y sn rx r alpha beta rho rhox rhoy gamma m delta mu e = (z1, z2, z3, z4, w, wx, wy) ->
  in_leps z1 = true ->
  in_lprimeeps z2 = true ->
  zk_bounded z3 = true ->
  zk_bounded z4 = true ->
  affp_verify nh s t n1 n0 Kv (add n0 (mul n0 x Kv) Dv) Fp Xp A Bx By E S F T z1 z2 z3 z4 w wx wy e = Some true.
Proof. exact affp_complete. Qed.
Print Assumptions C10_affp_complete.

Theorem C10_mulstar_complete :
  forall (G : Type) (gadd : G -> G -> G) (gneg : G -> G) (gzero : G) (smul : Z -> G -> G) (q : Z),
  module_laws q gadd gneg gzero smul ->
  forall geqb : G -> G -> bool,
  (forall a b : G, geqb a b = true <-> a = b) ->
  forall (gis_id : G -> bool) (gbase : G) (nh s t n0 C x rho alpha r gamma m e D A : Z) 
    (Bx : G) (E S z1 z2 w : Z),
  1 < nh ->
  unit nh s ->
  unit nh t ->
  1 < n0 ->
  unit (n0 * n0) C ->
  unit n0 rho ->
  unit n0 r ->
  D = randomize n0 (mul n0 x C) rho ->
  mulstar_commit smul gbase q nh s t n0 C x alpha r gamma m = (A, Bx, E, S) ->
  mulstar_respond n0 x rho alpha r gamma m e = (z1, z2, w) ->
  gis_id Bx = false ->
  in_leps z1 = true ->
  zk_bounded z2 = true ->
  mulstar_verify gadd smul geqb gis_id gbase q nh s t n0 C D (act smul q x gbase) A Bx E S z1 z2 w e = Some true.
Proof. exact @mulstar_complete. Qed.
Print Assumptions C10_mulstar_complete.

Theorem C10_encelg_complete :
  forall (G : Type) (gadd : G -> G -> G) (gneg : G -> G) (gzero : G) (smul : Z -> G -> G) (q : Z),
  1 < q ->
  module_laws q gadd gneg gzero smul ->
  forall geqb : G -> G -> bool,
  (forall a b : G, geqb a b = true <-> a = b) ->
  forall (gis_id : G -> bool) (gbase : G) (nh s t n0 a b x rho alpha mu r beta gamma e C S D : Z) 
    (Y Zp : G) (T z1 w z2 z3 : Z),
  1 < nh ->
  unit nh s ->
  unit nh t ->
  1 < n0 ->
  2 ^ 769 <= n0 ->
  unit n0 rho ->
  unit n0 r ->
  enc n0 x rho = Some C ->
  let A := act smul q a gbase in
  encelg_commit gadd smul gbase q nh s t n0 A x alpha mu r beta gamma = Some (S, D, Y, Zp, T) ->
  encelg_respond q n0 x rho b alpha mu r beta gamma e = (z1, w, z2, z3) ->
  sc_zero q w = false ->
  gis_id Y = false ->
  gis_id Zp = false ->
  in_leps z1 = true ->
  zk_bounded z3 = true ->
  encelg_verify gadd smul geqb gis_id gbase q nh s t n0 C A (act smul q b gbase) (act smul q (a * b + x) gbase)
    S D Y Zp T z1 w z2 z3 e = Some true.
Proof. exact @encelg_complete. Qed.
Print Assumptions C10_encelg_complete.

Theorem C10_fac_complete :
  forall nh s t pp qq alpha beta mu nu sigma r x y e P Q A B T z1 z2 w1 w2 v : Z,
  1 < nh ->
  unit nh s ->
  unit nh t ->
  0 <= pp * qq ->
  fac_commit nh s t pp qq alpha beta mu nu r x y = (P, Q, A, B, T) ->
  fac_respond pp qq alpha beta mu nu sigma r x y e = (z1, z2, w1, w2, v) ->
  in_leps1rootn z1 = true ->
  in_leps1rootn z2 = true ->
  zk_bounded sigma = true ->
  zk_bounded w1 = true ->
  zk_bounded w2 = true ->
  zk_bounded v = true -> fac_verify (pp * qq) nh s t P Q A B T sigma z1 z2 w1 w2 v e = Some true.
Proof. exact fac_complete. Qed.
Print Assumptions C10_fac_complete.

Theorem C10_prm_complete :
  forall n t phi lambda : Z,
  1 < n ->
  0 < phi ->
  0 <= lambda ->
  unit n t ->
  powmod n t phi = 1 ->
  let s := powmod n t lambda in
  ped_validate n s t = true ->
  forall (al : list Z) (es : list bool),
  Datatypes.length al = Datatypes.length es ->
  Forall (fun a : Z => 0 <= a) al ->
  Forall (fun a : Z => a <> 1) (prm_commit n t al) ->
  Forall (fun z : Z => valid_big n z = true) (prm_respond phi lambda al es) ->
  prm_verify n s t (prm_commit n t al) (prm_respond phi lambda al es) es = Some true.
Proof. exact prm_complete. Qed.
Print Assumptions C10_prm_complete.


(* zkmod, one repetition of the honest prover (partial).
   C10_mod_complete_todo:
     forall p q w ys, prime p -> prime q -> p <> q -> p mod 4 = 3 -> q mod 4 = 3 -> Z.gcd (p*q) ((p-1)*(q-1)) = 1 ->
       jacobi w (p*q) = -1 -> 0 < w < p*q -> Forall (fun y => 0 <= y < p*q /\ Z.gcd y (p*q) = 1) ys ->
       mod_verify (p*q) w (mod_respond p q w ys) ys = Some true.
   Proved below: every repetition verifies when the candidate chosen by makeQuadraticResidue passes isQRmodPQ
   (by construction for the first three candidates) and Euler's theorem holds for y.  Missing: X and Z are units in
   [1, N) (Proof.IsValid, called by Verify since the zkmod fix; negligible failure for y sharing a factor with N),
   the quadratic-residuosity fact that the fourth candidate is a residue when the first three are not (Euler's criterion
   modulo p and q and jacobi w = -1), probably_prime (p*q) = false, and the instantiation of Euler's theorem
   (PaillierProofs.euler_N). *)
Theorem C10_mod_complete_partial :
  forall p q : Z,
  1 < p ->
  1 < q ->
  Z.gcd p q = 1 ->
  p mod 4 = 3 ->
  q mod 4 = 3 ->
  forall w y : Z,
  0 <= y < p * q ->
  y ^ ((p - 1) * (q - 1)) mod (p * q) = 1 mod (p * q) ->
  (modinv ((p - 1) * (q - 1)) (p * q) * (p * q)) mod ((p - 1) * (q - 1)) = 1 ->
  (let '(_, _, y') := make_qr p q w y in is_qr_pq p q y' = true) ->
  mod_response (p * q) w y (mod_respond1 p q w y) = true.
Proof. exact mod_response_complete. Qed.
Print Assumptions C10_mod_complete_partial.


(* ==================================================================================================== *)
(* Range slack: the proviso on the masked responses holds whenever the mask leaves room for |e|*|witness|: all but a 2^-255 fraction of the sampler's range (IntervalLEps draws |alpha| < 2^768).  zksch, zklog, zkelog, zknth, zkprm, zkmod have no integer ranges. *)

Theorem C10_challenge_range :
  forall d : bytes, wf_bytes d = true -> Z.abs (e_interval d) < 2 ^ 256.
Proof. exact e_interval_range. Qed.
Print Assumptions C10_challenge_range.

Theorem C10_enc_range_slack :
  forall n0 k rho alpha r mu gamma e : Z,
  Z.abs e < 2 ^ 256 ->
  Z.abs k <= 2 ^ 256 ->
  Z.abs alpha <= 2 ^ 768 - 2 ^ 512 -> in_leps (fst (fst (enc_respond n0 k rho alpha r mu gamma e))) = true.
Proof. exact enc_range_slack. Qed.
Print Assumptions C10_enc_range_slack.

Theorem C10_logstar_range_slack :
  forall n0 k rho alpha r mu gamma e : Z,
  Z.abs e < 2 ^ 256 ->
  Z.abs k <= 2 ^ 256 ->
  Z.abs alpha <= 2 ^ 768 - 2 ^ 512 -> in_leps (fst (fst (enc_respond n0 k rho alpha r mu gamma e))) = true.
Proof. exact enc_range_slack. Qed.
Print Assumptions C10_logstar_range_slack.

Theorem C10_dec_range_slack :
  forall n0 y rho alpha mu nu r e : Z,
  Z.abs e < 2 ^ 256 ->
  Z.abs y <= 2 ^ 256 ->
  Z.abs alpha <= n0 / 2 - 2 ^ 512 -> in_plaintext n0 (fst (fst (dec_respond n0 y rho alpha mu nu r e))) = true.
Proof. exact dec_range_slack. Qed.
Print Assumptions C10_dec_range_slack.

Theorem C10_mul_range_slack :
  forall n x rho rhox alpha r s e : Z,
  Z.abs e < 2 ^ 256 ->
  Z.abs x <= 2 ^ 256 ->
  Z.abs alpha <= n / 2 - 2 ^ 512 -> in_plaintext n (fst (fst (mul_respond n x rho rhox alpha r s e))) = true.
Proof. exact mul_range_slack. Qed.
Print Assumptions C10_mul_range_slack.

Theorem C10_affg_range_slack :
  forall n1 n0 x y sn r alpha beta rho rhoy gamma m delta mu e : Z,
  Z.abs e < 2 ^ 256 ->
  Z.abs x <= 2 ^ 256 ->
  Z.abs y <= 2 ^ 1280 ->
  Z.abs alpha <= 2 ^ 768 - 2 ^ 512 ->
  Z.abs beta <= 2 ^ 1792 - 2 ^ 1536 ->
  let
  '(z1, z2, _, _, _, _) := affg_respond n1 n0 x y sn r alpha beta rho rhoy gamma m delta mu e in
   in_leps z1 = true /\ in_lprimeeps z2 = true.
Proof. exact affg_range_slack. Qed.
Print Assumptions C10_affg_range_slack.

Theorem C10_affp_range_slack :
  forall n1 n0 x y sn rx r alpha beta rho rhox rhoy gamma m delta mu e : Z,
  Z.abs e < 2 ^ 256 ->
  Z.abs x <= 2 ^ 256 ->
  Z.abs y <= 2 ^ 1280 ->
  Z.abs alpha <= 2 ^ 768 - 2 ^ 512 ->
  Z.abs beta <= 2 ^ 1792 - 2 ^ 1536 ->
  let
  '(z1, z2, _, _, _, _, _) := affp_respond n1 n0 x y sn rx r alpha beta rho rhox rhoy gamma m delta mu e in
   in_leps z1 = true /\ in_lprimeeps z2 = true.
Proof. exact affp_range_slack. Qed.
Print Assumptions C10_affp_range_slack.

Theorem C10_mulstar_range_slack :
  forall n0 x rho alpha r gamma m e : Z,
  Z.abs e < 2 ^ 256 ->
  Z.abs x <= 2 ^ 256 ->
  Z.abs alpha <= 2 ^ 768 - 2 ^ 512 -> in_leps (fst (fst (mulstar_respond n0 x rho alpha r gamma m e))) = true.
Proof. exact mulstar_range_slack. Qed.
Print Assumptions C10_mulstar_range_slack.

Theorem C10_encelg_range_slack :
  forall q n0 x rho b alpha mu r beta gamma e : Z,
  Z.abs e < 2 ^ 256 ->
  Z.abs x <= 2 ^ 256 ->
  Z.abs alpha <= 2 ^ 768 - 2 ^ 512 ->
  in_leps (fst (fst (fst (encelg_respond q n0 x rho b alpha mu r beta gamma e)))) = true.
Proof. exact encelg_range_slack. Qed.
Print Assumptions C10_encelg_range_slack.

Theorem C10_fac_range_slack :
  forall p q alpha beta mu nu sigma r x y e : Z,
  Z.abs e < 2 ^ 256 ->
  Z.abs p <= 2 ^ 1024 ->
  Z.abs q <= 2 ^ 1024 ->
  Z.abs alpha <= 2 ^ 1792 ->
  Z.abs beta <= 2 ^ 1792 ->
  let
  '(z1, z2, _, _, _) := fac_respond p q alpha beta mu nu sigma r x y e in
   in_leps1rootn z1 = true /\ in_leps1rootn z2 = true.
Proof. exact fac_range_slack. Qed.
Print Assumptions C10_fac_range_slack.


(* ==================================================================================================== *)
(* Responses outside the verifier's range are rejected (never a panic before the range check) *)

Theorem C10_sch_response_range_enforced :
  forall (G : Type) (gadd : G -> G -> G) (smul : Z -> G -> G) (geqb : G -> G -> bool) 
    (gis_id : G -> bool) (q : Z) (gen X C : G) (z e : Z),
  sc_zero q z = true -> sch_verify gadd smul geqb gis_id q gen X C z e = Some false.
Proof. exact @sch_zero_rejected. Qed.
Print Assumptions C10_sch_response_range_enforced.

Theorem C10_log_response_range_enforced :
  forall (G : Type) (gadd : G -> G -> G) (smul : Z -> G -> G) (geqb : G -> G -> bool) 
    (gis_id : G -> bool) (gbase : G) (q : Z) (H X Y A B C : G) (z1 z2 e : Z),
  sc_zero q z1 = true \/ sc_zero q z2 = true ->
  log_verify gadd smul geqb gis_id gbase q H X Y A B C z1 z2 e = Some false.
Proof. exact @log_zero_rejected. Qed.
Print Assumptions C10_log_response_range_enforced.

Theorem C10_elog_response_range_enforced :
  forall (G : Type) (gadd : G -> G -> G) (smul : Z -> G -> G) (geqb : G -> G -> bool) 
    (gis_id : G -> bool) (gbase : G) (q : Z) (L M X H Y A Np B : G) (z u e : Z),
  sc_zero q z = true \/ sc_zero q u = true ->
  elog_verify gadd smul geqb gis_id gbase q L M X H Y A Np B z u e = Some false.
Proof. exact @elog_zero_rejected. Qed.
Print Assumptions C10_elog_response_range_enforced.

Theorem C10_nth_response_range_enforced :
  forall n R A z e : Z, ~ 0 <= z < n -> nth_verify n R A z e = Some false.
Proof. exact nth_range_enforced. Qed.
Print Assumptions C10_nth_response_range_enforced.

Theorem C10_enc_response_range_enforced :
  forall nh s t n0 K S A C z1 z2 z3 e : Z,
  2 ^ 768 <= Z.abs z1 -> enc_verify nh s t n0 K S A C z1 z2 z3 e = Some false.
Proof. exact enc_range_enforced. Qed.
Print Assumptions C10_enc_response_range_enforced.

Theorem C10_logstar_response_range_enforced :
  forall (G : Type) (gadd : G -> G -> G) (smul : Z -> G -> G) (geqb : G -> G -> bool) 
    (gis_id : G -> bool) (q nh s t n0 C : Z) (X Gb : G) (S A : Z) (Y : G) (D z1 z2 z3 e : Z),
  2 ^ 768 <= Z.abs z1 -> logstar_verify gadd smul geqb gis_id q nh s t n0 C X Gb S A Y D z1 z2 z3 e = Some false.
Proof. exact @logstar_range_enforced. Qed.
Print Assumptions C10_logstar_response_range_enforced.

Theorem C10_affg_response_range_enforced :
  forall (G : Type) (gadd : G -> G -> G) (smul : Z -> G -> G) (geqb : G -> G -> bool) 
    (gis_id : G -> bool) (gbase : G) (q nh s t n1 n0 Kv Dv Fp : Z) (Xp : G) (A : Z) 
    (Bx : G) (By E S F T z1 z2 z3 z4 w wy e : Z),
  2 ^ 768 <= Z.abs z1 \/ 2 ^ 1792 <= Z.abs z2 ->
  affg_verify gadd smul geqb gis_id gbase q nh s t n1 n0 Kv Dv Fp Xp A Bx By E S F T z1 z2 z3 z4 w wy e =
  Some false.
Proof. exact @affg_range_enforced. Qed.
Print Assumptions C10_affg_response_range_enforced.

Theorem C10_affp_response_range_enforced :
  forall nh s t n1 n0 Kv Dv Fp Xp A Bx By E S F T z1 z2 z3 z4 w wx wy e : Z,
  2 ^ 768 <= Z.abs z1 \/ 2 ^ 1792 <= Z.abs z2 ->
  affp_verify nh s t n1 n0 Kv Dv Fp Xp A Bx By E S F T z1 z2 z3 z4 w wx wy e = Some false.
Proof. exact affp_range_enforced. Qed.
Print Assumptions C10_affp_response_range_enforced.

Theorem C10_mulstar_response_range_enforced :
  forall (G : Type) (gadd : G -> G -> G) (smul : Z -> G -> G) (geqb : G -> G -> bool) 
    (gis_id : G -> bool) (gbase : G) (q nh s t n0 C D : Z) (X : G) (A : Z) (Bx : G) 
    (E S z1 z2 w e : Z),
  2 ^ 768 <= Z.abs z1 ->
  mulstar_verify gadd smul geqb gis_id gbase q nh s t n0 C D X A Bx E S z1 z2 w e = Some false.
Proof. exact @mulstar_range_enforced. Qed.
Print Assumptions C10_mulstar_response_range_enforced.

Theorem C10_encelg_response_range_enforced :
  forall (G : Type) (gadd : G -> G -> G) (smul : Z -> G -> G) (geqb : G -> G -> bool) 
    (gis_id : G -> bool) (gbase : G) (q nh s t n0 C : Z) (A B X : G) (S D : Z) (Y Zp : G) 
    (T z1 w z2 z3 e : Z),
  2 ^ 768 <= Z.abs z1 ->
  encelg_verify gadd smul geqb gis_id gbase q nh s t n0 C A B X S D Y Zp T z1 w z2 z3 e = Some false.
Proof. exact @encelg_range_enforced. Qed.
Print Assumptions C10_encelg_response_range_enforced.

Theorem C10_fac_response_range_enforced :
  forall n0 nh s t P Q A B T sigma z1 z2 w1 w2 v e : Z,
  2 ^ 1793 <= Z.abs z1 \/ 2 ^ 1793 <= Z.abs z2 ->
  fac_verify n0 nh s t P Q A B T sigma z1 z2 w1 w2 v e = Some false.
Proof. exact fac_range_enforced. Qed.
Print Assumptions C10_fac_response_range_enforced.

Theorem C10_prm_response_range_enforced :
  forall (n s t : Z) (As Zs : list Z) (es : list bool),
  Exists (fun z : Z => ~ 0 < z < n) Zs -> prm_verify n s t As Zs es = Some false.
Proof. exact prm_range_enforced. Qed.
Print Assumptions C10_prm_response_range_enforced.


(* zkdec, zkmul (with work/zkfix/01-zk-validate.diff): a response that EncWithNonce would refuse (|z| > N/2) is REJECTED, and
   the verifiers can no longer panic.  The l+eps range of the paper's sibling proofs is not checked:
   C10_dec_response_range_enforced_todo:  2^768 <= |z1| -> dec_verify ... = Some false   does not hold (C10_dec_complete). *)
Theorem C10_dec_response_range_enforced_partial :
  forall q nh s t n0 C X S T A Gamma z1 z2 w e : Z,
  n0 / 2 < Z.abs z1 -> dec_verify q nh s t n0 C X S T A Gamma z1 z2 w e = Some false.
Proof. exact dec_range_enforced. Qed.
Print Assumptions C10_dec_response_range_enforced_partial.

Theorem C10_dec_never_panics :
  forall q nh s t n0 C X S T A Gamma z1 z2 w e : Z, dec_verify q nh s t n0 C X S T A Gamma z1 z2 w e <> None.
Proof. exact dec_never_panics. Qed.
Print Assumptions C10_dec_never_panics.

Theorem C10_mul_response_range_enforced_partial :
  forall n X Y C A B z u v e : Z, n / 2 < Z.abs z -> mul_verify n X Y C A B z u v e = Some false.
Proof. exact mul_range_enforced. Qed.
Print Assumptions C10_mul_response_range_enforced_partial.

Theorem C10_mul_never_panics :
  forall n X Y C A B z u v e : Z, mul_verify n X Y C A B z u v e <> None.
Proof. exact mul_never_panics. Qed.
Print Assumptions C10_mul_never_panics.


(* bounded work: integers of more than 4865 bits (|n| >= 2^(1+l+eps) N^2) are refused by pedersen.Verify and zkfac before any exponentiation *)
Theorem C10_pedersen_oversized_refused :
  forall n s t a b e S T : Z, 2 ^ 4865 <= Z.abs a \/ 2 ^ 4865 <= Z.abs b -> ped_verify n s t a b e S T = false.
Proof. exact ped_oversized_refused. Qed.
Print Assumptions C10_pedersen_oversized_refused.

Theorem C10_fac_oversized_refused :
  forall n0 nh s t P Q A B T sigma z1 z2 w1 w2 v e : Z,
  2 ^ 4865 <= Z.abs sigma \/ 2 ^ 4865 <= Z.abs w1 \/ 2 ^ 4865 <= Z.abs w2 \/ 2 ^ 4865 <= Z.abs v ->
  fac_verify n0 nh s t P Q A B T sigma z1 z2 w1 w2 v e = Some false.
Proof. exact fac_oversized_refused. Qed.
Print Assumptions C10_fac_oversized_refused.


(* zkmod: since the fix "zkmod.Verify validates W and the responses" (Verify calls Proof.IsValid) every X and Z must be
   in [1, N); a response outside is rejected.  The verifier before the fix is kept as [mod_verify_v0] with its
   refutation witness as a regression example (ex_mod_v0_range_refuted below). *)
Theorem C10_mod_response_range_enforced :
  forall (n w : Z) (rs : list (bool * bool * Z * Z)) (ys : list Z),
  Exists (fun '(_, _, x, z) => ~ 0 < x < n \/ ~ 0 < z < n) rs -> mod_verify n w rs ys = Some false.
Proof. exact mod_range_enforced. Qed.
Print Assumptions C10_mod_response_range_enforced.


(* zkfac: Proof.Sigma (part of the first message in the paper) is not an input of the challenge; proofs are malleable in (Sigma, V). *)
Theorem C10_fac_sigma_not_bound :
  forall n0 nh s t P Q A B T sigma z1 z2 w1 w2 v e d : Z,
  1 < nh ->
  unit nh s ->
  unit nh t ->
  0 <= n0 ->
  zk_bounded (sigma + d) = true ->
  zk_bounded (v + d * e) = true ->
  fac_verify n0 nh s t P Q A B T sigma z1 z2 w1 w2 v e = Some true ->
  fac_verify n0 nh s t P Q A B T (sigma + d) z1 z2 w1 w2 (v + d * e) e = Some true.
Proof. exact fac_sigma_not_bound. Qed.
Print Assumptions C10_fac_sigma_not_bound.


(* ==================================================================================================== *)
(* The Fiat-Shamir input determines the statement and the commitment: whatever the hash absorbed before (context), two different (public fields, commitment fields) tuples give different byte streams (with C19_stream_inj inside). *)

Theorem C10_transcript_inj :
  forall (st : bytes) (l1 l2 : list fld),
  forallb fld_wf l1 = true ->
  forallb fld_wf l2 = true ->
  fst (write_any st (map fld_hval l1)) = fst (write_any st (map fld_hval l2)) -> l1 = l2.
Proof. exact flds_stream_inj. Qed.
Print Assumptions C10_transcript_inj.

Theorem C10_sch_challenge_inj :
  forall (G : Type) (pt_enc : G -> Z * bool),
  (forall P Q : G, pt_enc P = pt_enc Q -> P = Q) ->
  forall (st : bytes) (gen X C gen' X' C' : G),
  forallb fld_wf (sch_fields pt_enc gen X C) = true ->
  forallb fld_wf (sch_fields pt_enc gen' X' C') = true ->
  fst (write_any st (sch_challenge_items pt_enc gen X C)) =
  fst (write_any st (sch_challenge_items pt_enc gen' X' C')) -> gen = gen' /\ X = X' /\ C = C'.
Proof. exact @sch_challenge_inj. Qed.
Print Assumptions C10_sch_challenge_inj.

Theorem C10_log_challenge_inj :
  forall (G : Type) (pt_enc : G -> Z * bool),
  (forall P Q : G, pt_enc P = pt_enc Q -> P = Q) ->
  forall (st : bytes) (H X Y A B C H' X' Y' A' B' C' : G),
  forallb fld_wf (log_fields pt_enc H X Y A B C) = true ->
  forallb fld_wf (log_fields pt_enc H' X' Y' A' B' C') = true ->
  fst (write_any st (log_challenge_items pt_enc H X Y A B C)) =
  fst (write_any st (log_challenge_items pt_enc H' X' Y' A' B' C')) ->
  H = H' /\ X = X' /\ Y = Y' /\ A = A' /\ B = B' /\ C = C'.
Proof. exact @log_challenge_inj. Qed.
Print Assumptions C10_log_challenge_inj.

Theorem C10_elog_challenge_inj :
  forall (G : Type) (pt_enc : G -> Z * bool),
  (forall P Q : G, pt_enc P = pt_enc Q -> P = Q) ->
  forall (st : bytes) (L M X H Y A Np B L' M' X' H' Y' A' Np' B' : G),
  forallb fld_wf (elog_fields pt_enc L M X H Y A Np B) = true ->
  forallb fld_wf (elog_fields pt_enc L' M' X' H' Y' A' Np' B') = true ->
  fst (write_any st (elog_challenge_items pt_enc L M X H Y A Np B)) =
  fst (write_any st (elog_challenge_items pt_enc L' M' X' H' Y' A' Np' B')) ->
  L = L' /\ M = M' /\ X = X' /\ H = H' /\ Y = Y' /\ A = A' /\ Np = Np' /\ B = B'.
Proof. exact @elog_challenge_inj. Qed.
Print Assumptions C10_elog_challenge_inj.

Theorem C10_nth_challenge_inj :
  forall (st : bytes) (n R A n' R' A' : Z),
  forallb fld_wf (nth_fields n R A) = true ->
  forallb fld_wf (nth_fields n' R' A') = true ->
  fst (write_any st (nth_challenge_items n R A)) = fst (write_any st (nth_challenge_items n' R' A')) ->
  (n, R, A) = (n', R', A').
Proof. exact nth_challenge_inj. Qed.
Print Assumptions C10_nth_challenge_inj.

Theorem C10_enc_challenge_inj :
  forall (st : bytes) (nh s t n0 K S A C nh' s' t' n0' K' S' A' C' : Z),
  forallb fld_wf (enc_fields nh s t n0 K S A C) = true ->
  forallb fld_wf (enc_fields nh' s' t' n0' K' S' A' C') = true ->
  fst (write_any st (enc_challenge_items nh s t n0 K S A C)) =
  fst (write_any st (enc_challenge_items nh' s' t' n0' K' S' A' C')) ->
  (nh, s, t, n0, K, S, A, C) = (nh', s', t', n0', K', S', A', C').
Proof. exact enc_challenge_inj. Qed.
Print Assumptions C10_enc_challenge_inj.

Theorem C10_logstar_challenge_inj :
  forall (G : Type) (pt_enc : G -> Z * bool),
  (forall P Q : G, pt_enc P = pt_enc Q -> P = Q) ->
  forall (st : bytes) (nh s t n0 C : Z) (X Gb : G) (S A : Z) (Y : G) (D nh' s' t' n0' C' : Z) 
    (X' Gb' : G) (S' A' : Z) (Y' : G) (D' : Z),
  forallb fld_wf (logstar_fields pt_enc nh s t n0 C X Gb S A Y D) = true ->
  forallb fld_wf (logstar_fields pt_enc nh' s' t' n0' C' X' Gb' S' A' Y' D') = true ->
  fst (write_any st (logstar_challenge_items pt_enc nh s t n0 C X Gb S A Y D)) =
  fst (write_any st (logstar_challenge_items pt_enc nh' s' t' n0' C' X' Gb' S' A' Y' D')) ->
  (nh, s, t, n0, C, S, A, D) = (nh', s', t', n0', C', S', A', D') /\ X = X' /\ Gb = Gb' /\ Y = Y'.
Proof. exact @logstar_challenge_inj. Qed.
Print Assumptions C10_logstar_challenge_inj.

Theorem C10_dec_challenge_inj :
  forall (st : bytes) (nh s t n0 C X S T A Gamma nh' s' t' n0' C' X' S' T' A' Gamma' : Z),
  forallb fld_wf (dec_fields nh s t n0 C X S T A Gamma) = true ->
  forallb fld_wf (dec_fields nh' s' t' n0' C' X' S' T' A' Gamma') = true ->
  fst (write_any st (dec_challenge_items nh s t n0 C X S T A Gamma)) =
  fst (write_any st (dec_challenge_items nh' s' t' n0' C' X' S' T' A' Gamma')) ->
  (nh, s, t, n0, C, X, S, T, A, Gamma) = (nh', s', t', n0', C', X', S', T', A', Gamma').
Proof. exact dec_challenge_inj. Qed.
Print Assumptions C10_dec_challenge_inj.

Theorem C10_mul_challenge_inj :
  forall (st : bytes) (n X Y C A B n' X' Y' C' A' B' : Z),
  forallb fld_wf (mul_fields n X Y C A B) = true ->
  forallb fld_wf (mul_fields n' X' Y' C' A' B') = true ->
  fst (write_any st (mul_challenge_items n X Y C A B)) =
  fst (write_any st (mul_challenge_items n' X' Y' C' A' B')) -> (n, X, Y, C, A, B) = (n', X', Y', C', A', B').
Proof. exact mul_challenge_inj. Qed.
Print Assumptions C10_mul_challenge_inj.

Theorem C10_affg_challenge_inj :
  forall (G : Type) (pt_enc : G -> Z * bool),
  (forall P Q : G, pt_enc P = pt_enc Q -> P = Q) ->
  forall (st : bytes) (nh s t n1 n0 Kv Dv Fp : Z) (Xp : G) (A : Z) (Bx : G)
    (By E S F T nh' s' t' n1' n0' Kv' Dv' Fp' : Z) (Xp' : G) (A' : Z) (Bx' : G) (By' E' S' F' T' : Z),
  forallb fld_wf (affg_fields pt_enc nh s t n1 n0 Kv Dv Fp Xp A Bx By E S F T) = true ->
  forallb fld_wf (affg_fields pt_enc nh' s' t' n1' n0' Kv' Dv' Fp' Xp' A' Bx' By' E' S' F' T') = true ->
  fst (write_any st (affg_challenge_items pt_enc nh s t n1 n0 Kv Dv Fp Xp A Bx By E S F T)) =
  fst (write_any st (affg_challenge_items pt_enc nh' s' t' n1' n0' Kv' Dv' Fp' Xp' A' Bx' By' E' S' F' T')) ->
  (nh, s, t, n1, n0, Kv, Dv, Fp, A, By, E, S, F, T) =
  (nh', s', t', n1', n0', Kv', Dv', Fp', A', By', E', S', F', T') /\ Xp = Xp' /\ Bx = Bx'.
Proof. exact @affg_challenge_inj. Qed.
Print Assumptions C10_affg_challenge_inj.

Theorem C10_affp_challenge_inj :
  forall (st : bytes)
    (nh s t n1 n0 Kv Dv Fp Xp A Bx By E S F T nh' s' t' n1' n0' Kv' Dv' Fp' Xp' A' Bx' By' E' S' F' T' : Z),
  forallb fld_wf (affp_fields nh s t n1 n0 Kv Dv Fp Xp A Bx By E S F T) = true ->
  forallb fld_wf (affp_fields nh' s' t' n1' n0' Kv' Dv' Fp' Xp' A' Bx' By' E' S' F' T') = true ->
  fst (write_any st (affp_challenge_items nh s t n1 n0 Kv Dv Fp Xp A Bx By E S F T)) =
  fst (write_any st (affp_challenge_items nh' s' t' n1' n0' Kv' Dv' Fp' Xp' A' Bx' By' E' S' F' T')) ->
  (nh, s, t, n1, n0, Kv, Dv, Fp, Xp, A, Bx, By, E, S, F, T) =
  (nh', s', t', n1', n0', Kv', Dv', Fp', Xp', A', Bx', By', E', S', F', T').
Proof. exact affp_challenge_inj. Qed.
Print Assumptions C10_affp_challenge_inj.

Theorem C10_mulstar_challenge_inj :
  forall (G : Type) (pt_enc : G -> Z * bool),
  (forall P Q : G, pt_enc P = pt_enc Q -> P = Q) ->
  forall (st : bytes) (nh s t n0 C D : Z) (X : G) (A : Z) (Bx : G) (E S nh' s' t' n0' C' D' : Z) 
    (X' : G) (A' : Z) (Bx' : G) (E' S' : Z),
  forallb fld_wf (mulstar_fields pt_enc nh s t n0 C D X A Bx E S) = true ->
  forallb fld_wf (mulstar_fields pt_enc nh' s' t' n0' C' D' X' A' Bx' E' S') = true ->
  fst (write_any st (mulstar_challenge_items pt_enc nh s t n0 C D X A Bx E S)) =
  fst (write_any st (mulstar_challenge_items pt_enc nh' s' t' n0' C' D' X' A' Bx' E' S')) ->
  (nh, s, t, n0, C, D, A, E, S) = (nh', s', t', n0', C', D', A', E', S') /\ X = X' /\ Bx = Bx'.
Proof. exact @mulstar_challenge_inj. Qed.
Print Assumptions C10_mulstar_challenge_inj.

Theorem C10_encelg_challenge_inj :
  forall (G : Type) (pt_enc : G -> Z * bool),
  (forall P Q : G, pt_enc P = pt_enc Q -> P = Q) ->
  forall (st : bytes) (nh s t n0 C : Z) (A B X : G) (S D : Z) (Y Zp : G) (T nh' s' t' n0' C' : Z) 
    (A' B' X' : G) (S' D' : Z) (Y' Zp' : G) (T' : Z),
  forallb fld_wf (encelg_fields pt_enc nh s t n0 C A B X S D Y Zp T) = true ->
  forallb fld_wf (encelg_fields pt_enc nh' s' t' n0' C' A' B' X' S' D' Y' Zp' T') = true ->
  fst (write_any st (encelg_challenge_items pt_enc nh s t n0 C A B X S D Y Zp T)) =
  fst (write_any st (encelg_challenge_items pt_enc nh' s' t' n0' C' A' B' X' S' D' Y' Zp' T')) ->
  (nh, s, t, n0, C, S, D, T) = (nh', s', t', n0', C', S', D', T') /\
  A = A' /\ B = B' /\ X = X' /\ Y = Y' /\ Zp = Zp'.
Proof. exact @encelg_challenge_inj. Qed.
Print Assumptions C10_encelg_challenge_inj.

Theorem C10_fac_challenge_inj :
  forall (st : bytes) (n0 nh s t P Q A B T n0' nh' s' t' P' Q' A' B' T' : Z),
  forallb fld_wf (fac_fields n0 nh s t P Q A B T) = true ->
  forallb fld_wf (fac_fields n0' nh' s' t' P' Q' A' B' T') = true ->
  fst (write_any st (fac_challenge_items n0 nh s t P Q A B T)) =
  fst (write_any st (fac_challenge_items n0' nh' s' t' P' Q' A' B' T')) ->
  (n0, nh, s, t, P, Q, A, B, T) = (n0', nh', s', t', P', Q', A', B', T').
Proof. exact fac_challenge_inj. Qed.
Print Assumptions C10_fac_challenge_inj.

Theorem C10_prm_challenge_inj :
  forall (st : bytes) (n s t : Z) (As : list Z) (n' s' t' : Z) (As' : list Z),
  forallb fld_wf (prm_fields n s t As) = true ->
  forallb fld_wf (prm_fields n' s' t' As') = true ->
  fst (write_any st (prm_challenge_items n s t As)) = fst (write_any st (prm_challenge_items n' s' t' As')) ->
  (n, s, t) = (n', s', t') /\ As = As'.
Proof. exact prm_challenge_inj. Qed.
Print Assumptions C10_prm_challenge_inj.

Theorem C10_mod_challenge_inj :
  forall (st : bytes) (n w n' w' : Z),
  forallb fld_wf (mod_fields n w) = true ->
  forallb fld_wf (mod_fields n' w') = true ->
  fst (write_any st (mod_challenge_items n w)) = fst (write_any st (mod_challenge_items n' w')) ->
  (n, w) = (n', w').
Proof. exact mod_challenge_inj. Qed.
Print Assumptions C10_mod_challenge_inj.

(* ==================================================================================================== *)
(* Non-vacuity: the hypotheses are satisfiable, and the model's verifiers accept / reject concrete toy proofs.
   Group: Z/101 (Proofs/RefSigProofs.v), generator 2.  Paillier / Pedersen: N = 7 * 11 = 77 (both primes = 3 mod 4),
   s = 64 = 4^3, t = 4.  (Go's verifiers cannot run at this size; the harness exercises them with 2048-bit moduli.) *)
Definition pt_enc101 (a : F101) : Z * bool := (val101 a, false).
Definition is_id101 (a : F101) : bool := val101 a =? 0.

Example group_hyps_satisfiable :
  module_laws 101 add101 neg101 zero101 smul101 /\ (forall a b, eqb101 a b = true <-> a = b) /\
  (forall P Q, pt_enc101 P = pt_enc101 Q -> P = Q).
Proof.
  split; [exact laws101|]. split; [exact eqb101_spec|].
  intros P Q H. apply F101_eq. unfold pt_enc101 in H. congruence.
Qed.

Example ex_sch :   (* x = 7, a = 30, e = 55: z = (55*7 + 30) mod 101 = 11 *)
  let '(C, z) := sch_prove smul101 101 g101 7 30 55 in
  z = 11 /\ sch_verify add101 smul101 eqb101 is_id101 101 g101 (smul101 7 g101) C z 55 = Some true
  /\ sch_verify add101 smul101 eqb101 is_id101 101 g101 (smul101 7 g101) C (z + 1) 55 = Some false
  /\ sch_verify add101 smul101 eqb101 is_id101 101 g101 (smul101 7 g101) C z 56 = Some false.
Proof. vm_compute. repeat split. Qed.

Example ex_sch_instance :   (* the theorem applied: its hypotheses hold for this instance *)
  sch_verify add101 smul101 eqb101 is_id101 101 g101 (act smul101 101 7 g101) (sch_commit smul101 101 g101 30)
             (sch_respond 101 7 30 55) 55 = Some true.
Proof.
  apply (C10_sch_complete F101 add101 neg101 zero101 smul101 101 laws101 eqb101 eqb101_spec is_id101 g101 7 30 55);
    vm_compute; reflexivity.
Qed.

Example ex_units : unit 77 64 /\ unit 77 4 /\ unit 77 5 /\ unit 77 9 /\ unit (77 * 77) 1234 /\ 1 < 77.
Proof. unfold unit. vm_compute. repeat split. Qed.

Example ex_nth :   (* rho = 5, alpha = 9, e = -3 *)
  nth_verify 77 (iota 77 5) (nth_commit 77 9) (nth_respond 77 5 9 (-3)) (-3) = Some true
  /\ nth_verify 77 (iota 77 5) (nth_commit 77 9) (nth_respond 77 5 9 (-3)) (-2) = Some false
  /\ nth_verify 77 (iota 77 5) (nth_commit 77 9) (nth_respond 77 5 9 (-3) + 77) (-3) = Some false.
Proof. vm_compute. repeat split. Qed.

Example ex_ped :   (* s^(e x + a) t^(e y + b) = S T^e with a negative challenge and negative openings *)
  ped_verify 77 64 4 ((-5) * 11 + (-20)) ((-5) * (-3) + 17) (-5) (ped_commit 77 64 4 (-20) 17) (ped_commit 77 64 4 11 (-3)) = true
  /\ ped_verify 77 64 4 ((-5) * 11 + (-20) + 1) ((-5) * (-3) + 17) (-5) (ped_commit 77 64 4 (-20) 17) (ped_commit 77 64 4 11 (-3)) = false.
Proof. vm_compute. split; reflexivity. Qed.

(* zkenc at toy size: the range bound 2^768 is far above N/2, so the guard of EncWithNonce is what is hit *)
Example ex_enc_toy :
  match enc 77 3 5, enc_commit 77 64 4 77 3 10 9 6 (-8) with
  | Some K, Some (Sc, A, C) =>
      let '(z1, z2, z3) := enc_respond 77 3 5 10 9 6 (-8) (-4) in
      enc_verify 77 64 4 77 K Sc A C z1 z2 z3 (-4) = Some true
      /\ enc_verify 77 64 4 77 K Sc A C (z1 + 1) z2 z3 (-4) = Some false
      /\ enc_verify 77 64 4 77 K Sc A C z1 z2 z3 (-5) = Some false
      /\ enc_verify 77 64 4 77 K Sc A C (2 ^ 768) z2 z3 (-4) = Some false
  | _, _ => False
  end.
Proof. vm_compute. repeat split. Qed.

(* zkdec at toy size: a response above N/2 that satisfies the Pedersen check is REJECTED (before work/zkfix/01-zk-validate.diff
   the verifier panicked in EncWithNonce) *)
Example ex_dec_oversized_rejected :
  exists Sc T A Gamma z1 z2 w e,
    dec_verify 101 77 64 4 77 (encval 77 3 5) 3 Sc T A Gamma z1 z2 w e = Some false /\ 77 / 2 < Z.abs z1 /\
    ped_verify 77 64 4 z1 z2 e T Sc = true.
Proof.
  exists (ped_commit 77 64 4 3 6), (ped_commit 77 64 4 50 (-8)), (encval 77 50 9), 50,
         (2 * 3 + 50), (2 * 6 + (-8)), ((expI 77 5 2 * 9) mod 77), 2.
  vm_compute. repeat split.
Qed.

Example ex_oversized_exponent_refused :   (* 2^4865 as second exponent *)
  ped_verify 77 64 4 1 (2 ^ 4865) 1 (ped_commit 77 64 4 1 1) (ped_commit 77 64 4 1 1) = false /\
  zk_bounded (2 ^ 4865 - 1) = true /\ zk_bounded (2 ^ 4865) = false.
Proof. vm_compute. repeat split. Qed.

Example ex_prm_hyps_satisfiable :   (* N = 77, phi = 60, t = 4 has order 15 | 60, lambda = 3 *)
  powmod 77 4 60 = 1 /\ ped_validate 77 (powmod 77 4 3) 4 = true /\
  prm_verify 77 64 4 (prm_commit 77 4 [7; 12]) (prm_respond 60 3 [7; 12] [true; false]) [true; false] = Some true.
Proof. vm_compute. repeat split. Qed.

Example ex_mod_honest : mod_verify 77 2 mod_example_rs mod_example_ys = Some true.
Proof. exact mod_example_honest. Qed.

(* regression: the verifier before the zkmod fix accepted responses shifted by N (outside [0, N)); the current one rejects them *)
Example ex_mod_v0_range_refuted :
  exists (n w : Z) (rs : list (bool * bool * Z * Z)) (ys : list Z),
    mod_verify_v0 n w rs ys = Some true /\
    Forall (fun '(_, _, x, z) => ~ 0 <= x < n /\ ~ 0 <= z < n) rs /\ rs <> [] /\
    mod_verify n w rs ys = Some false.
Proof. exact mod_v0_response_range_refuted. Qed.

Example ex_challenge_fields :   (* the item list of zkenc and the well-formedness of its fields *)
  forallb fld_wf (enc_fields 77 64 4 77 100 5 6 7) = true /\
  length (enc_challenge_items 77 64 4 77 100 5 6 7) = 6%nat /\
  snd (write_any init_state (enc_challenge_items 77 64 4 77 100 5 6 7)) = true.
Proof. vm_compute. repeat split. Qed.
