(* C19 (tie to the source): Commitment.Validate / Decommitment.Validate (pkg/hash/commit.go), translated from /repo on
   every run (Generated/Guards.v), are the model's commitment_valid / decommitment_valid (Model/Framing.v) that the
   binding theorem's decommit uses: right length (64 = hash.DigestLengthBytes, 32 = params.SecBytes, both read from the
   source) and not all zero.  The loop `for _, b := range c { if b != 0 { return nil } }` is one atom, interpreted as
   the existsb it is and proved equal to the model's negb (all_zero c). *)
From Coq Require Import String List Bool Arith NArith ZArith.
From MPS Require Import Model.Bytes Model.Framing Generated.Guards Generated.Params Proofs.GuardsBase Proofs.GuardsHashProofs.
Import ListNotations.
Local Open Scope string_scope.
Local Open Scope nat_scope.
Local Open Scope list_scope.

Theorem C19_guards_hash_translated : translated ["Commitment_Validate"; "Decommitment_Validate"] = true.
Proof. exact guards_hash_translated. Qed.
Print Assumptions C19_guards_hash_translated.

Theorem C19_guards_hash_lets : go_Commitment_Validate_lets = [("l", "len(c)")] /\ go_Decommitment_Validate_lets = [("l", "len(d)")].
Proof. exact guards_hash_lets_ok. Qed.
Print Assumptions C19_guards_hash_lets.

Theorem C19_guards_hash_consts : go_const_hash_DigestLengthBytes = 64%Z /\ go_param_SecBytes = 32%Z.
Proof. exact guards_hash_consts. Qed.
Print Assumptions C19_guards_hash_consts.

Theorem C19_guards_commitment_Validate : forall c,
  geval (alookup (env_commitment c)) go_Commitment_Validate = Some (commitment_valid c).
Proof. exact commitment_Validate. Qed.
Print Assumptions C19_guards_commitment_Validate.

Theorem C19_guards_decommitment_Validate : forall d,
  geval (alookup (env_decommitment d)) go_Decommitment_Validate = Some (decommitment_valid d).
Proof. exact decommitment_Validate. Qed.
Print Assumptions C19_guards_decommitment_Validate.

Theorem C19_guards_loop_meaning : forall c, any_nonzero c = negb (all_zero c).
Proof. exact any_nonzero_all_zero. Qed.
Print Assumptions C19_guards_loop_meaning.

Example C19_guards_ex :
  geval (alookup (env_commitment (repeat 1%N 64))) go_Commitment_Validate = Some true /\
  geval (alookup (env_commitment (repeat 0%N 64))) go_Commitment_Validate = Some false /\
  geval (alookup (env_commitment (repeat 1%N 63))) go_Commitment_Validate = Some false /\
  geval (alookup (env_decommitment (repeat 0%N 31 ++ [7%N]))) go_Decommitment_Validate = Some true /\
  geval (alookup (env_decommitment (repeat 1%N 64))) go_Decommitment_Validate = Some false.
Proof. repeat split; vm_compute; reflexivity. Qed.
(* the length check dropped: a short non-zero string would pass, the model refuses it *)
Example C19_guards_mutant_no_length :
  geval (alookup (env_commitment [1%N])) (GAtom "any b in c: b != 0") = Some true /\ commitment_valid [1%N] = false.
Proof. split; reflexivity. Qed.
