(* C16_ref -- the reference side of the standards properties (C16; also used by C01, C14).
   Only statements, each closed by [exact] of a lemma proved in Proofs/RefSigProofs.v, followed by
   Print Assumptions; then Examples showing that the hypotheses are satisfiable (Z/101).

   The abstract theorems quantify over ANY group G written additively with a Z-action factoring through Z/q
   ([module_laws], hypotheses), q prime (hypothesis), any generator g, any "x coordinate" xof : G -> Z, and are
   about [ecdsa_verify_gen], [ecdsa_sign_gen], [ecdsa_recover_gen], [schnorr_verify_gen] of Model/RefSig.v: the very
   definitions that, instantiated with the textbook secp256k1 of Model/Secp256k1.v, form the executable reference
   verifier ([C16_ref_verifier_is_generic]).  That secp256k1 satisfies [module_laws] is not proved. *)
From Coq Require Import List NArith ZArith Bool Znumtheory.
From MPS Require Import Model.Bytes Model.Sha Model.Secp256k1 Model.RefSig Proofs.RefSigProofs.
Import ListNotations.
Open Scope Z_scope.

(* ---- scalar arithmetic: the inverse computed by extended Euclid with fuel is an inverse, for every modulus ---- *)
Theorem C16_ref_modinv_spec : forall a m,
  1 < m -> Z.gcd a m = 1 -> (a * modinv a m) mod m = 1.
Proof. exact modinv_spec. Qed.
Print Assumptions C16_ref_modinv_spec.

Theorem C16_ref_modinv_prime : forall q, prime q -> forall s,
  s mod q <> 0 -> (s * modinv s q) mod q = 1.
Proof. exact inv_spec. Qed.
Print Assumptions C16_ref_modinv_prime.

(* ---- ECDSA, full-point variant (as ecdsa.Signature{R,S}.Verify in /repo) ---- *)
Theorem C16_ref_ecdsa_verify_iff :
  forall (q : Z) (G : Type) (gadd : G -> G -> G) (gneg : G -> G) (gzero : G) (smul : Z -> G -> G),
  module_laws q gadd gneg gzero smul ->
  forall geqb : G -> G -> bool, (forall a b, geqb a b = true <-> a = b) ->
  forall (xof : G -> Z) (g X R : G) (s m : Z),
  ecdsa_verify_gen gadd smul geqb xof g q X R s m = true <->
  xof R mod q <> 0 /\ s mod q <> 0 /\
  smul (modinv s q) (gadd (smul m g) (smul (xof R mod q) X)) = R.
Proof. exact @ecdsa_verify_iff. Qed.
Print Assumptions C16_ref_ecdsa_verify_iff.

(* whatever the signing equation outputs (it outputs something exactly when k, r, s are non-zero mod q) verifies
   under the public key d.g *)
Theorem C16_ref_ecdsa_sign_verify :
  forall q : Z, prime q ->
  forall (G : Type) (gadd : G -> G -> G) (gneg : G -> G) (gzero : G) (smul : Z -> G -> G),
  module_laws q gadd gneg gzero smul ->
  forall geqb : G -> G -> bool, (forall a b, geqb a b = true <-> a = b) ->
  forall (xof : G -> Z) (g : G) (k d m : Z) (R : G) (s : Z),
  ecdsa_sign_gen smul xof g q k d m = Some (R, s) ->
  ecdsa_verify_gen gadd smul geqb xof g q (smul d g) R s m = true.
Proof. exact @ecdsa_sign_verify. Qed.
Print Assumptions C16_ref_ecdsa_sign_verify.

Theorem C16_ref_ecdsa_sign_verify_explicit :
  forall q : Z, prime q ->
  forall (G : Type) (gadd : G -> G -> G) (gneg : G -> G) (gzero : G) (smul : Z -> G -> G),
  module_laws q gadd gneg gzero smul ->
  forall geqb : G -> G -> bool, (forall a b, geqb a b = true <-> a = b) ->
  forall (xof : G -> Z) (g : G) (k d m : Z),
  let R := smul k g in
  let r := xof R mod q in
  let s := (modinv k q * (m + r * d)) mod q in
  k mod q <> 0 -> r <> 0 -> s <> 0 ->
  ecdsa_verify_gen gadd smul geqb xof g q (smul d g) R s m = true.
Proof. exact @ecdsa_sign_verify_explicit. Qed.
Print Assumptions C16_ref_ecdsa_sign_verify_explicit.

(* (R, s) valid => (-R, -s) valid: what the in-place low-s normalisation of SigEthereum relies on *)
Theorem C16_ref_neg_sig_still_valid :
  forall q : Z, prime q ->
  forall (G : Type) (gadd : G -> G -> G) (gneg : G -> G) (gzero : G) (smul : Z -> G -> G),
  module_laws q gadd gneg gzero smul ->
  forall geqb : G -> G -> bool, (forall a b, geqb a b = true <-> a = b) ->
  forall (xof : G -> Z) (g X R : G) (s m : Z),
  (forall P, xof (gneg P) = xof P) ->
  ecdsa_verify_gen gadd smul geqb xof g q X R s m = true ->
  ecdsa_verify_gen gadd smul geqb xof g q X (gneg R) (- s) m = true.
Proof. exact @neg_sig_still_valid. Qed.
Print Assumptions C16_ref_neg_sig_still_valid.

(* public key recovery from a valid signature returns the key it verifies under *)
Theorem C16_ref_ecdsa_recover_correct :
  forall q : Z, prime q ->
  forall (G : Type) (gadd : G -> G -> G) (gneg : G -> G) (gzero : G) (smul : Z -> G -> G),
  module_laws q gadd gneg gzero smul ->
  forall geqb : G -> G -> bool, (forall a b, geqb a b = true <-> a = b) ->
  forall (xof : G -> Z) (g X R : G) (s m : Z),
  ecdsa_verify_gen gadd smul geqb xof g q X R s m = true ->
  ecdsa_recover_gen gadd gneg smul xof g q R s m = X.
Proof. exact @ecdsa_recover_correct. Qed.
Print Assumptions C16_ref_ecdsa_recover_correct.

(* ---- Schnorr with the challenge given (FROST, BIP-340 after the even-Y normalisations) ---- *)
Theorem C16_ref_schnorr_sign_verify :
  forall (q : Z) (G : Type) (gadd : G -> G -> G) (gneg : G -> G) (gzero : G) (smul : Z -> G -> G),
  module_laws q gadd gneg gzero smul ->
  forall geqb : G -> G -> bool, (forall a b, geqb a b = true <-> a = b) ->
  forall (g : G) (k x c z : Z),
  z mod q = (k + c * x) mod q ->
  schnorr_verify_gen gadd smul geqb g q (smul x g) (smul k g) z c = true.
Proof. exact @schnorr_sign_verify. Qed.
Print Assumptions C16_ref_schnorr_sign_verify.

Theorem C16_ref_schnorr_verify_sound :
  forall (q : Z) (G : Type) (gadd : G -> G -> G) (gneg : G -> G) (gzero : G) (smul : Z -> G -> G),
  module_laws q gadd gneg gzero smul ->
  forall geqb : G -> G -> bool, (forall a b, geqb a b = true <-> a = b) ->
  forall (g : G) (k x c z : Z),
  schnorr_verify_gen gadd smul geqb g q (smul x g) (smul k g) z c = true ->
  smul z g = smul (k + c * x) g.
Proof. exact @schnorr_verify_sound. Qed.
Print Assumptions C16_ref_schnorr_verify_sound.

(* ---- the executable reference at secp256k1 ---- *)
Theorem C16_ref_verifier_is_generic : forall X R s m,
  ecdsa_verify X R s m = true ->
  ecdsa_verify_gen pt_add pt_mul pt_eqb pt_x secp_G secp_q X R s m = true.
Proof. exact ecdsa_verify_ref_is_generic. Qed.

Theorem C16_ref_ecdsa_verify_ref_iff : forall X R s m,
  ecdsa_verify X R s m = true <->
  X <> infinity /\ R <> infinity /\ on_curve X = true /\ on_curve R = true /\
  pt_x R mod secp_q <> 0 /\ s mod secp_q <> 0 /\
  pt_mul (modinv s secp_q)
         (pt_add (pt_mul (m mod secp_q) secp_G) (pt_mul (pt_x R mod secp_q) X)) = R.
Proof. exact ecdsa_verify_ref_iff. Qed.
Print Assumptions C16_ref_ecdsa_verify_ref_iff.

(* strict point decoding: 33 bytes, prefix 02/03 only, a finite point of the curve with the encoded abscissa and
   the parity announced by the prefix *)
Theorem C16_ref_decompress_strict : forall b P,
  decompress b = Some P ->
  length b = 33%nat /\ on_curve P = true /\
  exists x y, P = Some (x, y) /\ x = Z_of_bytes (tl b) /\
              (hd 0%N b = 2%N /\ Z.even y = true \/ hd 0%N b = 3%N /\ Z.even y = false).
Proof. exact decompress_strict. Qed.
Print Assumptions C16_ref_decompress_strict.

Theorem C16_ref_compress_length : forall P b, compress P = Some b -> length b = 33%nat.
Proof. exact compress_length. Qed.
Theorem C16_ref_compress_none_iff : forall P, compress P = None <-> P = infinity.
Proof. exact compress_none_iff. Qed.

(* every finite point of the curve survives compress-then-decompress (needs p prime: square roots via
   Euler's criterion, Fermat's little theorem proved in Proofs/RefSigProofs.v) *)
Theorem C16_ref_decompress_compress :
  prime secp_p ->
  forall x y, on_curve (Some (x, y)) = true ->
  exists b, compress (Some (x, y)) = Some b /\ decompress b = Some (Some (x, y)).
Proof. exact decompress_compress. Qed.
Print Assumptions C16_ref_decompress_compress.

(* BIP-340 lift_x finds the even-Y point for every abscissa that has a point *)
Theorem C16_ref_lift_x_complete :
  prime secp_p ->
  forall x y, on_curve (Some (x, y)) = true ->
  exists y', lift_x x = Some (Some (x, y')) /\ Z.even y' = true /\ (y' = y \/ y' = secp_p - y).
Proof. exact lift_x_complete. Qed.
Theorem C16_ref_lift_x_sound : forall x P,
  lift_x x = Some P -> on_curve P = true /\ exists y, P = Some (x, y) /\ Z.even y = true.
Proof. exact lift_x_on_curve. Qed.
Print Assumptions C16_ref_lift_x_complete.

(* ---- BIP-340 reference: by construction ---- *)
Theorem C16_ref_bip340_sign_verifies : forall sk msg aux sig,
  bip340_sign sk msg aux = Some sig ->
  exists pk, bip340_pubkey sk = Some pk /\ bip340_verify pk msg sig = true.
Proof. exact bip340_sign_verifies. Qed.
Print Assumptions C16_ref_bip340_sign_verifies.

(* the reference verifier accepts only: 32-byte keys, 64-byte signatures, r < p, s < n, a key abscissa on the curve,
   and R = s.G - e.P finite with even Y and abscissa r *)
Theorem C16_ref_bip340_verify_accepts_only : forall pk msg sig,
  bip340_verify pk msg sig = true ->
  length pk = 32%nat /\ length sig = 64%nat /\
  let r := Z_of_bytes (firstn 32 sig) in
  let s := Z_of_bytes (skipn 32 sig) in
  let e := Z_of_bytes (tagged_hash tag_challenge (firstn 32 sig ++ pk ++ msg)) mod secp_q in
  r < secp_p /\ s < secp_q /\
  exists P y, lift_x (Z_of_bytes pk) = Some P /\
              pt_sub (base_mul s) (pt_mul e P) = Some (r, y) /\ Z.even y = true.
Proof. exact bip340_verify_accepts_only. Qed.
Print Assumptions C16_ref_bip340_verify_accepts_only.

(* ---- non-vacuity: the hypotheses of the abstract theorems hold for Z/101 acting on itself ---- *)
Example C16_ref_prime_101 : prime 101.
Proof. exact prime_101. Qed.
Example C16_ref_laws_101 : module_laws 101 add101 neg101 zero101 smul101.
Proof. exact laws101. Qed.
Example C16_ref_eqb_101 : forall a b, eqb101 a b = true <-> a = b.
Proof. exact eqb101_spec. Qed.
Example C16_ref_xof_neg_101 : forall P, xof101 (neg101 P) = xof101 P.
Proof. exact xof101_neg. Qed.

(* a signature in that instance: nonce 7, secret 5, message 33 gives (R, s) = (14, 87); it verifies, its negation
   verifies, recovery returns the key, a perturbed s does not verify *)
Example C16_ref_sign_101 :
  option_map (fun Rs : F101 * Z => (val101 (fst Rs), snd Rs)) (ecdsa_sign_gen smul101 xof101 g101 101 7 5 33)
  = Some (14, 87).
Proof. vm_compute. reflexivity. Qed.
Example C16_ref_verify_101 :
  ecdsa_verify_gen add101 smul101 eqb101 xof101 g101 101 (smul101 5 g101) (mk101 14) 87 33 = true.
Proof. vm_compute. reflexivity. Qed.
Example C16_ref_verify_neg_101 :
  ecdsa_verify_gen add101 smul101 eqb101 xof101 g101 101 (smul101 5 g101) (neg101 (mk101 14)) (- 87) 33 = true.
Proof.
  exact (neg_sig_still_valid 101 prime_101 add101 neg101 zero101 smul101 laws101 eqb101 eqb101_spec
           xof101 g101 _ _ _ _ xof101_neg C16_ref_verify_101).
Qed.
Example C16_ref_recover_101 :
  val101 (ecdsa_recover_gen add101 neg101 smul101 xof101 g101 101 (mk101 14) 87 33) = val101 (smul101 5 g101).
Proof. vm_compute. reflexivity. Qed.
Example C16_ref_verify_rejects_101 :
  ecdsa_verify_gen add101 smul101 eqb101 xof101 g101 101 (smul101 5 g101) (mk101 14) 88 33 = false.
Proof. vm_compute. reflexivity. Qed.
Example C16_ref_schnorr_101 :
  schnorr_verify_gen add101 smul101 eqb101 g101 101 (smul101 5 g101) (smul101 7 g101) ((7 + 9 * 5) mod 101) 9 = true.
Proof. vm_compute. reflexivity. Qed.
