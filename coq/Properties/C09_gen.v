(* C09: obligation over the protocol identifiers regenerated from /repo (Generated/ProtocolIDs.v):
   two different protocol packages never use the same protocol id (a message of one protocol is then refused by the
   protocol-id comparison of CanAccept in any session of another). *)
From Coq Require Import String List Bool.
From MPS Require Import Generated.ProtocolIDs.
Import ListNotations.
Local Open Scope string_scope.

Definition ids_functional (l : list (string * string)) : bool :=
  forallb (fun a => forallb (fun b => negb (String.eqb (snd a) (snd b)) || String.eqb (fst a) (fst b)) l) l.

Theorem C09_gen_protocol_ids_distinct : ids_functional go_protocol_ids = true.
Proof. vm_compute. reflexivity. Qed.

Theorem C09_gen_protocol_ids_nonempty : Nat.leb 10 (List.length go_protocol_ids) = true.
Proof. vm_compute. reflexivity. Qed.

(* sign and keygen of every protocol family have different ids *)
Theorem C09_gen_doerner_sign_has_own_id :
  existsb (fun e => String.eqb (fst e) "protocols/doerner/sign" && negb (String.eqb (snd e) "doerner/keygen")) go_protocol_ids = true /\
  negb (existsb (fun e => String.eqb (fst e) "protocols/doerner/sign" && String.eqb (snd e) "doerner/keygen") go_protocol_ids) = true.
Proof. vm_compute. split; reflexivity. Qed.
