(* C19 (typed values) -- the transcript stream determines the TYPED VALUES that were hashed, not only the items.
   Only statements, each closed by [exact] of a lemma proved in Proofs/HvalProofs.v, followed by Print Assumptions;
   obligations over Generated/Domains.v are closed by computation.

   Model: Model/Framing.v [hval] (25 Go types, kinds 0..24), [enc_hval] (the (domain, payload) item per type),
   [wf_hval] (ranges the Go types enforce).  Announced lengths: for *saferith.Nat and *saferith.Int the announced byte
   length is part of the value ([HNat blen n], [HInt blen z]); for every other type the value is the mathematical object
   and the width written is fixed by the type. *)
From Coq Require Import String.
From Coq Require Import List NArith ZArith Bool.
From MPS Require Import Model.Bytes Model.Framing Proofs.BytesProofs Proofs.FramingProofs Proofs.HvalProofs Proofs.ListUtil.
From MPS Require Import Generated.Domains.
Import ListNotations.

(* -- one type: the item determines the value -- *)
Theorem C19_value_inj : forall v1 v2 i,
  wf_hval v1 = true -> wf_hval v2 = true ->
  enc_hval v1 = Some i -> enc_hval v2 = Some i -> same_kind v1 v2 -> v1 = v2.
Proof. exact value_inj. Qed.
Print Assumptions C19_value_inj.

(* a well-formed value is written as an item inside the framing's domain (so C19_stream_inj applies) *)
Theorem C19_value_item_wf : forall v i, wf_hval v = true -> enc_hval v = Some i -> wf_item i = true.
Proof. exact wf_hval_item. Qed.

(* -- two types: different fixed-domain types never give the same item -- *)
Theorem C19_fixed_domain_kinds_distinct : forall v1 v2 i1 i2,
  ~ caller_domain v1 -> ~ caller_domain v2 -> hval_kind v1 <> hval_kind v2 ->
  enc_hval v1 = Some i1 -> enc_hval v2 = Some i2 -> dom i1 <> dom i2.
Proof. exact fixed_domain_kinds_distinct. Qed.
Print Assumptions C19_fixed_domain_kinds_distinct.

(* the exception is hash.BytesWithDomain (kind 15): its domain is an argument.  It coincides with a value of another
   type exactly when the caller passes that type's own domain string ... *)
Theorem C19_with_domain_alias_only_on_fixed_domain : forall d o v i,
  ~ caller_domain v -> enc_hval (HWithDomain d o) = Some i -> enc_hval v = Some i ->
  fixed_kind_of_domain d = Some (hval_kind v).
Proof. exact with_domain_alias_only_on_fixed_domain. Qed.
(* ... and then it does (BytesWithDomain{"RID", x} is written exactly like RID(x)) *)
Theorem C19_with_domain_alias_witness :
  exists v1 v2, hval_kind v1 <> hval_kind v2 /\ wf_hval v1 = true /\ wf_hval v2 = true /\
                enc_hval v1 = enc_hval v2 /\ enc_hval v1 <> None.
Proof. exact with_domain_alias_witness. Qed.

(* -- sequences: equal streams from the same state => the same typed values, element by element
      ([same_value a b] := a = b \/ (different kinds, one of them a BytesWithDomain)) -- *)
Theorem C19_values_stream_inj : forall st vs1 vs2 s,
  forallb wf_hval vs1 = true -> forallb wf_hval vs2 = true ->
  write_any st vs1 = (s, true) -> write_any st vs2 = (s, true) ->
  Forall2 same_value vs1 vs2.
Proof. exact values_stream_inj. Qed.
Print Assumptions C19_values_stream_inj.

Theorem C19_values_digest_binding : forall (H : bytes -> bytes) st vs1 vs2 s1 s2,
  forallb wf_hval vs1 = true -> forallb wf_hval vs2 = true ->
  write_any st vs1 = (s1, true) -> write_any st vs2 = (s2, true) ->
  H s1 = H s2 ->
  Forall2 same_value vs1 vs2 \/ collision H s1 s2.
Proof. exact values_digest_binding. Qed.
Print Assumptions C19_values_digest_binding.

(* without a BytesWithDomain that borrows a fixed type domain: the sequences are EQUAL *)
Theorem C19_values_stream_inj_strict : forall st vs1 vs2 s,
  forallb wf_hval vs1 = true -> forallb wf_hval vs2 = true ->
  forallb no_alias vs1 = true -> forallb no_alias vs2 = true ->
  write_any st vs1 = (s, true) -> write_any st vs2 = (s, true) -> vs1 = vs2.
Proof. exact values_stream_inj_strict. Qed.
Print Assumptions C19_values_stream_inj_strict.

(* -- the hand-written composite payloads -- *)

(* pedersen.Parameters.WriteTo: three 256-byte fields, or an error when a value does not fit: injective with no
   range clause *)
Theorem C19_pedersen_data_inj : forall n s t n' s' t' d,
  pedersen_data_opt n s t = Some d -> pedersen_data_opt n' s' t' = Some d -> n = n' /\ s = s' /\ t = t'.
Proof. exact pedersen_data_opt_inj. Qed.
Print Assumptions C19_pedersen_data_inj.

(* config.Public.WriteTo (point, point, 8-byte length + modulus, Pedersen): injective, and prefix-free *)
Theorem C19_public_data_inj : forall p q d,
  wf_public p = true -> wf_public q = true -> public_data p = Some d -> public_data q = Some d -> p = q.
Proof. exact public_data_inj. Qed.
Print Assumptions C19_public_data_inj.

(* config.Config.WriteTo (threshold, IDSlice, 8-byte length + RID, 8-byte length + chain key, each Public -- in ONE
   item): injective with NO hypothesis on the sizes of the Paillier moduli, of the Pedersen values, of the RID or of the
   chain key (nil and empty chain key are one value: length 0).  wf_config = threshold in uint32 range, keys strictly
   sorted (canonical form of the map), point coordinates in range, lengths below 2^64 *)
Theorem C19_config_data_inj : forall c1 c2 d,
  wf_config c1 = true -> wf_config c2 = true ->
  config_data c1 = Some d -> config_data c2 = Some d -> c1 = c2.
Proof. exact config_data_inj. Qed.
Print Assumptions C19_config_data_inj.

(* regression: Config.WriteTo before the chain key was written (fix: chain key in config.go): two well-formed configs
   that differ ONLY in their chain key had the same bytes, hence the same transcript digest / session tag; the repaired
   encoder separates them.  Everything else was already determined: *)
Theorem C19_config_v1_chainkey_refuted :
  exists c1 c2 : cmp_config,
    c1 <> c2 /\ wf_config c1 = true /\ wf_config c2 = true /\
    cc_threshold c1 = cc_threshold c2 /\ cc_rid c1 = cc_rid c2 /\ cc_public c1 = cc_public c2 /\
    cc_chainkey c1 <> cc_chainkey c2 /\
    item_ok_v1 (HCmpConfig (Some c1)) = true /\
    enc_hval_v1 (HCmpConfig (Some c1)) = enc_hval_v1 (HCmpConfig (Some c2)) /\
    enc_hval (HCmpConfig (Some c1)) <> None /\
    enc_hval (HCmpConfig (Some c1)) <> enc_hval (HCmpConfig (Some c2)).
Proof. exact config_v1_chainkey_refuted. Qed.
Print Assumptions C19_config_v1_chainkey_refuted.
Theorem C19_config_data_v1_inj : forall c1 c2 d,
  wf_config c1 = true -> wf_config c2 = true -> cc_chainkey c1 = cc_chainkey c2 ->
  config_data_v1 c1 = Some d -> config_data_v1 c2 = Some d -> c1 = c2.
Proof. exact config_data_v1_inj. Qed.

(* regression: the encoders before the framing repairs (fix: length prefixes in config.go; fix: ErrTooLarge in
   pedersen.go); they did not write the chain key either *)

(* pre-fix Config.WriteTo was injective only for one common byte length w of all Paillier moduli ... *)
Theorem C19_config_data_v0_inj : forall w c1 c2 d,
  wf_config_w w c1 = true -> wf_config_w w c2 = true -> cc_chainkey c1 = cc_chainkey c2 ->
  config_data_v0 c1 = Some d -> config_data_v0 c2 = Some d -> c1 = c2.
Proof. exact config_data_v0_inj. Qed.
(* ... and collided otherwise: two different configs (same threshold, parties, 32-byte RID; all ranges respected) *)
Theorem C19_config_v0_refuted :
  exists c1 c2 : cmp_config,
    c1 <> c2 /\
    wf_config c1 = true /\ wf_config c2 = true /\ peds_in_range c1 = true /\ peds_in_range c2 = true /\
    item_ok_v0 (HCmpConfig (Some c1)) = true /\
    cc_threshold c1 = cc_threshold c2 /\ cc_rid c1 = cc_rid c2 /\ map fst (cc_public c1) = map fst (cc_public c2) /\
    enc_hval_v0 (HCmpConfig (Some c1)) = enc_hval_v0 (HCmpConfig (Some c2)).
Proof. exact config_v0_refuted. Qed.
Print Assumptions C19_config_v0_refuted.
(* the repaired encoder separates that pair *)
Theorem C19_config_witness_repaired :
  wf_hval (HCmpConfig (Some wit_config_a)) = true /\ wf_hval (HCmpConfig (Some wit_config_b)) = true /\
  enc_hval (HCmpConfig (Some wit_config_a)) <> None /\
  enc_hval (HCmpConfig (Some wit_config_a)) <> enc_hval (HCmpConfig (Some wit_config_b)).
Proof. exact config_witness_repaired. Qed.
Theorem C19_config_v0_one_party_refuted :
  exists c1 c2 : cmp_config,
    c1 <> c2 /\ wf_config c1 = true /\ wf_config c2 = true /\ peds_in_range c1 = true /\ peds_in_range c2 = true /\
    length (cc_public c1) = 1%nat /\ length (cc_public c2) = 1%nat /\
    item_ok_v0 (HCmpConfig (Some c1)) = true /\
    enc_hval_v0 (HCmpConfig (Some c1)) = enc_hval_v0 (HCmpConfig (Some c2)) /\
    enc_hval (HCmpConfig (Some c1)) <> enc_hval (HCmpConfig (Some c2)).
Proof. exact config_v0_one_party_refuted. Qed.

(* pre-fix Parameters.WriteTo truncated: N and N + 2^2048 were written identically; now the second is refused *)
Theorem C19_pedersen_v0_truncation_refuted :
  exists v1 v2, v1 <> v2 /\ same_kind v1 v2 /\ item_ok_v0 v1 = true /\
                enc_hval_v0 v1 = enc_hval_v0 v2 /\
                enc_hval v1 <> None /\ enc_hval v2 = None.
Proof. exact pedersen_v0_truncation_refuted. Qed.
Print Assumptions C19_pedersen_v0_truncation_refuted.

(* polynomial.Exponent.MarshalBinary (uint32 count + CBOR map) *)
Theorem C19_exponent_data_inj : forall c1 co1 c2 co2,
  wf_coeffs co1 -> wf_coeffs co2 -> exponent_data c1 co1 = exponent_data c2 co2 -> c1 = c2 /\ co1 = co2.
Proof. exact exponent_data_inj. Qed.
Print Assumptions C19_exponent_data_inj.

(* -- obligations over facts regenerated from /repo on every run (Generated/Domains.v) -- *)

(* which model kind stands for which Go type that has a Domain() method *)
Definition model_kind_of_go_type : list (string * string * nat) :=
  [ ("internal/elgamal", "Ciphertext", 20); ("internal/round", "Number", 13); ("internal/types", "RID", 9);
    ("internal/types", "SigningMessage", 14); ("internal/types", "ThresholdWrapper", 12);
    ("pkg/hash", "Commitment", 10); ("pkg/hash", "Decommitment", 11); ("pkg/math/polynomial", "Exponent", 19);
    ("pkg/paillier", "Ciphertext", 16); ("pkg/paillier", "PublicKey", 17); ("pkg/party", "ID", 7);
    ("pkg/party", "IDSlice", 8); ("pkg/pedersen", "Parameters", 18); ("pkg/zk/sch", "Commitment", 21);
    ("protocols/cmp/config", "Config", 24); ("protocols/cmp/config", "Public", 23);
    ("protocols/frost/sign", "messageHash", 22) ]%string%nat.

(* kind k writes domain string d (table proved against enc_hval: HvalProofs.enc_fixed_domain) *)
Definition kind_writes (k : nat) (d : string) : bool :=
  existsb (fun e => String.eqb (fst e) d && Nat.eqb (snd e) k) kind_domain_table.

Definition writer_modelled (e : string * string * string) : bool :=
  let '(pkg, ty, d) := e in
  existsb (fun m => let '(pkg', ty', k) := m in String.eqb pkg pkg' && String.eqb ty ty' && kind_writes k d)
          model_kind_of_go_type.

(* every (package, type, domain literal) with a Domain() method in the code has a model kind writing exactly that
   domain string: a hashed type added to (or renamed in) the code without a model breaks this *)
Theorem C19_gen_every_writer_modelled : forallb writer_modelled go_domains = true.
Proof. vm_compute. reflexivity. Qed.

Theorem C19_gen_builtin_domains_modelled :
  forallb (fun d => existsb (fun e => String.eqb (fst e) d) kind_domain_table) go_builtin_domains = true.
Proof. vm_compute. reflexivity. Qed.

(* conversely: every fixed domain the model writes is defined by the code, except the reflect type names of the
   BinaryMarshaler types (they are Go type names, not Domain() literals) *)
Definition reflect_type_names : list string :=
  ["*saferith.Nat"; "*saferith.Int"; "*saferith.Modulus"; "*curve.Secp256k1Scalar"; "*curve.Secp256k1Point"]%string.
Theorem C19_gen_model_value_domains_in_code :
  forallb (fun e => inb_str (fst e) reflect_type_names
                    || inb_str (fst e) (map (fun g => snd g) go_domains ++ go_builtin_domains)) kind_domain_table = true.
Proof. vm_compute. reflexivity. Qed.

(* the table is what enc_hval writes *)
Theorem C19_kind_domain_table_sound : forall v i,
  enc_hval v = Some i -> ~ caller_domain v -> fixed_kind_of_domain (dom i) = Some (hval_kind v).
Proof. exact enc_fixed_domain. Qed.
Print Assumptions C19_kind_domain_table_sound.

(* -- non-vacuity: well-formed values of each new kind, written successfully -- *)
Example C19_values_wf_example :
  forallb wf_hval ex_values = true /\ forallb no_alias ex_values = true /\
  snd (write_any init_state ex_values) = true.
Proof. exact ex_values_wf. Qed.
