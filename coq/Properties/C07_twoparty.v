(* C07 / C09 (TwoPartyHandler) -- what rejected, duplicate, stale, future and post-termination messages do.
   Model: Model/TwoParty.v (pkg/protocol/twoparty.go as written).  Differences to MultiHandler (C07_noop.v):
     * h.messages is a map round -> message: the LAST message for a round wins (MultiHandler: the first);
     * CanAccept has no stale-round check: a message for a round the handler has left long ago is accepted and
       stored; consumed entries are never deleted and never read again.
   The theorems say exactly what such messages do: an identical duplicate is literally a no-op; a different message for
   a round that has not been consumed replaces the stored one; ANY message for a consumed round changes only a dead
   entry of the map -- the handler stays indistinguishable from one that never got it, under every later history.
   Only statements, each closed by [exact] of a lemma proved in Proofs/TwoPartyProofs.v. *)
From Coq Require Import List NArith ZArith Bool Arith Lia.
From MPS Require Import Model.Handler Model.TwoParty Proofs.TwoPartyProofs.
Import ListNotations.

(* -- no-ops -- *)
Theorem C07_twoparty_reject_noop : forall s m, tp_can_accept s m = false -> tp_accept s m = s.
Proof. exact tp_reject_noop. Qed.
Print Assumptions C07_twoparty_reject_noop.

Theorem C07_twoparty_terminal_noop : forall s m, tp_terminal s = true -> tp_accept s m = s.
Proof. exact tp_accept_terminal_any_rt. Qed.

Theorem C07_twoparty_future_round_rejected : forall s m, ts_final (t_shape s) < m_round m -> tp_can_accept s m = false.
Proof. exact tp_future_round_rejected. Qed.

(* -- CanAccept is exactly a conjunction of header conditions; the handler's progress does not occur in it -- *)
Theorem C07_twoparty_can_accept_total_spec : forall s m,
  tp_can_accept s m = true <->
  ( m_from m <> t_self s
    /\ (m_to m = None \/ m_to m = Some (t_self s))
    /\ m_proto m = t_proto s
    /\ m_ssid m = t_ssid s
    /\ m_from m < t_n s
    /\ m_data m = true
    /\ m_round m <= ts_final (t_shape s) ).
Proof. exact tp_can_accept_total_spec. Qed.
Print Assumptions C07_twoparty_can_accept_total_spec.

Theorem C07_twoparty_can_accept_header_only : forall s m m',
  m_ssid m = m_ssid m' /\ m_proto m = m_proto m' /\ m_from m = m_from m' /\ m_to m = m_to m'
  /\ m_round m = m_round m' /\ m_data m = m_data m' ->
  tp_can_accept s m = tp_can_accept s m'.
Proof. exact tp_can_accept_header_only. Qed.

(* no stale check: two states of the same session give the same verdict, whatever rounds they are in *)
Theorem C07_twoparty_can_accept_ignores_progress : forall s s' m,
  static s' = static s -> tp_can_accept s' m = tp_can_accept s m.
Proof. exact tp_can_accept_ignores_progress. Qed.

(* -- C09: foreign session / protocol / unknown sender / other recipient -- *)
Theorem C09_twoparty_foreign_session_rejected : forall s m,
  m_ssid m <> t_ssid s \/ m_proto m <> t_proto s \/ ~ (m_from m < t_n s) \/ is_for (t_self s) m = false ->
  tp_can_accept s m = false.
Proof. exact tp_foreign_session_rejected. Qed.
Print Assumptions C09_twoparty_foreign_session_rejected.

Theorem C09_twoparty_foreign_session_noop : forall s m,
  m_ssid m <> t_ssid s \/ m_proto m <> t_proto s \/ ~ (m_from m < t_n s) \/ is_for (t_self s) m = false ->
  tp_accept s m = s.
Proof. exact tp_foreign_session_noop. Qed.

Theorem C09_twoparty_session_parameters_fixed : forall fixed leader self n ssid proto sh s,
  tp_reachable fixed leader self n ssid proto sh s ->
  t_self s = self /\ t_n s = n /\ t_ssid s = ssid /\ t_proto s = proto /\ t_shape s = sh /\ t_leader s = leader.
Proof. exact tp_reachable_static. Qed.
Print Assumptions C09_twoparty_session_parameters_fixed.

(* -- a waiting handler (canAdvance() false) offered an acceptable message for ANY round other than its current one
      (later, or long consumed) performs exactly messages[m.RoundNumber] = m -- *)
Theorem C07_twoparty_other_round_store_only : forall s m,
  t_rt s = Running -> tp_terminal s = false -> tp_can_accept s m = true ->
  0 < m_round m -> tp_can_advance s = false -> m_round m <> rnum (t_round s) ->
  tp_accept s m = tp_store s m.
Proof. exact tp_waiting_other_round_store_only. Qed.
Print Assumptions C07_twoparty_other_round_store_only.

(* -- the LAST message for a round wins: whatever was stored for that round before (nothing, the same message or a
      different one) is replaced; no other entry and no other field changes ... -- *)
Theorem C07_twoparty_overwrite : forall s m',
  t_rt s = Running -> tp_terminal s = false -> tp_can_accept s m' = true ->
  0 < m_round m' -> tp_can_advance s = false -> m_round m' <> rnum (t_round s) ->
  let s' := tp_accept s m' in
  tget (t_msgs s') (m_round m') = Some m'
  /\ (forall r, r <> m_round m' -> tget (t_msgs s') r = tget (t_msgs s) r)
  /\ s' = set_tmsgs s (t_msgs s').
Proof. exact tp_overwrite. Qed.
Print Assumptions C07_twoparty_overwrite.

(* ... so of two messages for the same pending round only the second one counts *)
Theorem C07_twoparty_second_message_replaces_first : forall s m m',
  t_rt s = Running -> tp_terminal s = false -> tp_can_accept s m = true -> tp_can_accept s m' = true ->
  0 < m_round m -> m_round m' = m_round m -> tp_can_advance s = false -> m_round m <> rnum (t_round s) ->
  tp_accept (tp_accept s m) m' = tp_accept s m'.
Proof. exact tp_second_message_replaces_first. Qed.

(* -- an identical copy of a stored message is literally a no-op: harmless for honest duplicates, pending or consumed -- *)
Theorem C07_twoparty_duplicate_noop : forall s m,
  0 < m_round m -> tp_can_advance s = false -> tget (t_msgs s) (m_round m) = Some m ->
  tp_accept s m = s.
Proof. exact tp_duplicate_noop. Qed.
Print Assumptions C07_twoparty_duplicate_noop.

Theorem C07_twoparty_duplicate_after_consumption_noop : forall s m,
  0 < m_round m < rnum (t_round s) -> tp_can_advance s = false -> tget (t_msgs s) (m_round m) = Some m ->
  tp_accept s m = s.
Proof. exact tp_duplicate_after_consumption_noop. Qed.

(* -- ANY message for a consumed round (no stale check: it is accepted) is stored and that is all: after every later
      API history the handler differs from one that never got it only in map entries below the round it was in -- *)
Theorem C07_twoparty_stale_message_invisible : forall fixed s m es,
  shape_increasing (t_shape s) ->
  t_rt s = Running -> tp_terminal s = false -> tp_can_accept s m = true -> tp_can_advance s = false ->
  tget (t_msgs s) 0 = None ->
  0 < m_round m < rnum (t_round s) ->
  tp_accept s m = tp_store s m
  /\ same_but_msgs (tp_run_api fixed s es) (tp_run_api fixed (tp_accept s m) es)
  /\ (forall r, rnum (t_round s) <= r ->
        tget (t_msgs (tp_run_api fixed (tp_accept s m) es)) r = tget (t_msgs (tp_run_api fixed s es)) r).
Proof. exact tp_stale_message_invisible. Qed.
Print Assumptions C07_twoparty_stale_message_invisible.

(* the premise "nothing stored for round 0" holds in every reachable state (abort notices are never stored) *)
Theorem C07_twoparty_round_zero_never_stored : forall fixed leader self n ssid proto sh s,
  tp_reachable fixed leader self n ssid proto sh s -> tget (t_msgs s) 0 = None.
Proof. exact tp_reachable_no_zero. Qed.

(* -- non-vacuity, on the Doerner keygen sender (not leader, waits in round 1) -- *)
(* good1 good2 good3: valid messages of the receiver for rounds 1-3; bad2: one that round 2 rejects (Proofs/TwoPartyProofs.v) *)
(* an invalid message for the pending round 2 followed by the valid one: the valid one replaces it, the run completes;
   in the other order the invalid one replaces the valid one and the session aborts when round 2 is reached *)
Example C07_twoparty_ex_overwrite_both_ways :
  t_rt dk_send_start = Running /\ tp_terminal dk_send_start = false /\ tp_can_advance dk_send_start = false
  /\ tp_can_accept dk_send_start bad2 = true /\ tp_can_accept dk_send_start good2 = true
  /\ m_round bad2 <> rnum (t_round dk_send_start)
  /\ tp_result_class (tp_run_api true dk_send_start [TAccept bad2; TAccept good2; TAccept good1; TAccept good3]) = 1
  /\ t_err (tp_run_api true dk_send_start [TAccept good2; TAccept bad2; TAccept good1]) = Some TEVerify
  /\ t_round (tp_run_api true dk_send_start [TAccept good2; TAccept bad2; TAccept good1]) = RNum 2.
Proof. vm_compute. repeat split; discriminate. Qed.

(* in round 3: a copy of the consumed round-1 message is a no-op; a DIFFERENT (invalid) round-1 message is accepted,
   replaces the dead entry, and the run still completes *)
Example C07_twoparty_ex_stale :
  let s := tp_run_api true dk_send_start [TAccept good1; TAccept good2] in
  let stale := dmsg 0 1 901 false in
  t_round s = RNum 3 /\ tp_can_advance s = false /\ tget (t_msgs s) 0 = None
  /\ tp_can_accept s good1 = true /\ tp_accept s good1 = s
  /\ tp_can_accept s stale = true /\ tp_accept s stale <> s /\ tget (t_msgs (tp_accept s stale)) 1 = Some stale
  /\ tp_result_class (tp_run_api true s [TAccept stale; TAccept good3]) = 1.
Proof. vm_compute. repeat split; discriminate. Qed.

Example C09_twoparty_ex_foreign :
  tp_can_accept dk_send_start good1 = true
  /\ tp_can_accept dk_send_start (mkMsg 8 9 0 None 1 true false 0 12 true NoPanic) = false      (* other session tag *)
  /\ tp_can_accept dk_send_start (mkMsg 7 10 0 None 1 true false 0 12 true NoPanic) = false     (* other protocol id *)
  /\ tp_can_accept dk_send_start (mkMsg 7 9 5 None 1 true false 0 12 true NoPanic) = false      (* unknown sender *)
  /\ tp_can_accept dk_send_start (mkMsg 7 9 0 (Some 0) 1 true false 0 12 true NoPanic) = false  (* addressed to someone else *)
  /\ tp_can_accept dk_send_start (mkMsg 7 9 1 None 1 true false 0 12 true NoPanic) = false      (* own message *)
  /\ tp_can_accept dk_send_start (mkMsg 7 9 0 None 4 true false 0 12 true NoPanic) = false.     (* round beyond the last *)
Proof. vm_compute. repeat split. Qed.
