(* C12 (tie to the source, generated): the range and validity predicates the Paillier / MtA model relies on are the ones
   /repo's source has NOW.  pkg/math/arith/int.go (IsValidNatModN, IsValidBigModN, IsBoundedInt, IsInPlaintextRange,
   IsInIntervalLEps, IsInIntervalLPrimeEps, IsInIntervalLEpsPlus1RootN), paillier.PublicKey.ValidateCiphertexts, paillier.ValidateN,
   paillier.ValidatePrime, pedersen.ValidateParameters, pedersen.Parameters.Verify are translated by verifgen on every run
   (Generated/ZKGuards.v) and proved equal, for all inputs including nil, to Model/ZK.v in_leps / in_lprimeeps / in_leps1rootn /
   zk_bounded / in_plaintext / valid_mod / valid_big / ped_validate / ped_verify, Model/Paillier.v validate_ct / validate_n and
   Model/Cbor.v validate_N / validate_prime.  The element loops are one atom each, read as the existsb they are (nat_refused,
   big_refused, ct_refused) and proved equal to the model's per-element predicate (C12_guards_loops_meaning).
   Only statements; proofs in Proofs/ArithGuardsProofs.v. *)
From Coq Require Import String List Bool NArith ZArith.
From MPS Require Import Model.Bytes Model.Framing Model.Paillier Model.ZK.
From MPS Require Import Generated.Params Generated.Guards Generated.ZKGuards Proofs.GuardsBase Proofs.ZKGuardsBase Proofs.ArithGuardsProofs.
Import ListNotations.
Local Open Scope string_scope.
Local Open Scope list_scope.
Local Open Scope Z_scope.

Theorem C12_guards_arith_translated :
  ztranslated
      ["arith_IsBoundedInt"; "arith_IsInIntervalLEps"; "arith_IsInIntervalLEpsPlus1RootN";
       "arith_IsInIntervalLPrimeEps"; "arith_IsInPlaintextRange"; "arith_IsValidBigModN";
       "arith_IsValidNatModN"; "paillier_ValidateCiphertexts"; "paillier_ValidateN";
       "paillier_ValidatePrime"; "pedersen_ValidateParameters"; "pedersen_Verify"] = true.
Proof. exact (@arith_translated). Qed.
Print Assumptions C12_guards_arith_translated.

Theorem C12_guards_arith_params_ok :
  go_param_LPlusEpsilon = zk_LEps /\
    go_param_LPrimePlusEpsilon = zk_LPrimeEps /\
    go_param_BitsIntModN = zk_BitsN /\
    go_param_BitsPaillier = Cbor.bits_paillier /\
    go_param_BitsBlumPrime = Cbor.bits_blum_prime /\ Cbor.bits_paillier = bits_paillier.
Proof. exact (@arith_params_ok). Qed.
Print Assumptions C12_guards_arith_params_ok.

Theorem C12_guards_arith_IsInIntervalLEps :
  forall n : option Z,
    geval (alookup (env_interval n)) go_arith_IsInIntervalLEps = Some (some_and n in_leps).
Proof. exact (@arith_IsInIntervalLEps). Qed.
Print Assumptions C12_guards_arith_IsInIntervalLEps.

Theorem C12_guards_arith_IsInIntervalLPrimeEps :
  forall n : option Z,
    geval (alookup (env_interval n)) go_arith_IsInIntervalLPrimeEps = Some (some_and n in_lprimeeps).
Proof. exact (@arith_IsInIntervalLPrimeEps). Qed.
Print Assumptions C12_guards_arith_IsInIntervalLPrimeEps.

Theorem C12_guards_arith_IsInIntervalLEpsPlus1RootN :
  forall n : option Z,
    geval (alookup (env_interval n)) go_arith_IsInIntervalLEpsPlus1RootN = Some (some_and n in_leps1rootn).
Proof. exact (@arith_IsInIntervalLEpsPlus1RootN). Qed.
Print Assumptions C12_guards_arith_IsInIntervalLEpsPlus1RootN.

Theorem C12_guards_arith_IsBoundedInt :
  forall n : option Z,
    geval (alookup (env_interval n)) go_arith_IsBoundedInt = Some (some_and n zk_bounded).
Proof. exact (@arith_IsBoundedInt). Qed.
Print Assumptions C12_guards_arith_IsBoundedInt.

Theorem C12_guards_arith_IsInPlaintextRange :
  forall N n : option Z,
    match N with
    | Some N1 => 0 < N1
    | None => True
    end ->
    geval (alookup (env_plaintext N n)) go_arith_IsInPlaintextRange =
    Some
      match N with
      | Some N1 => match n with
                   | Some z => in_plaintext N1 z
                   | None => false
                   end
      | None => false
      end.
Proof. exact (@arith_IsInPlaintextRange). Qed.
Print Assumptions C12_guards_arith_IsInPlaintextRange.

Theorem C12_guards_arith_IsInPlaintextRange_trace_ok :
  go_arith_IsInPlaintextRange_trace =
    ["if N == nil || n == nil -> return false"; "if !hasBoundedAnnouncedLen(n) || n.TrueLen() > N.BitLen() -> return false";
     "do nHalf := new(saferith.Nat).SetNat(N.Nat())"; "do nHalf.Rsh(nHalf, 1, -1)";
     "do gt, _, _ := n.Abs().Cmp(nHalf)"; "return gt != 1"].
Proof. exact (@arith_IsInPlaintextRange_trace_ok). Qed.
Print Assumptions C12_guards_arith_IsInPlaintextRange_trace_ok.

Theorem C12_guards_arith_IsValidNatModN :
  forall (N : Z) (ints : list (option Z)),
    nats_nonneg ints = true ->
    geval (alookup (env_natmodn N ints)) go_arith_IsValidNatModN =
    Some (forallb (fun i : option Z => some_and i (valid_mod N)) ints).
Proof. exact (@arith_IsValidNatModN). Qed.
Print Assumptions C12_guards_arith_IsValidNatModN.

Theorem C12_guards_arith_IsValidBigModN :
  forall (N : Z) (ints : list (option Z)),
    geval (alookup (env_bigmodn N ints)) go_arith_IsValidBigModN =
    Some (forallb (fun i : option Z => some_and i (valid_big N)) ints).
Proof. exact (@arith_IsValidBigModN). Qed.
Print Assumptions C12_guards_arith_IsValidBigModN.

Theorem C12_guards_paillier_ValidateCiphertexts :
  forall (N : Z) (cts : list (option Z)),
    nats_nonneg cts = true ->
    geval (alookup (env_validate_cts N cts)) go_paillier_ValidateCiphertexts =
    Some (forallb (fun c : option Z => some_and c (validate_ct N)) cts).
Proof. exact (@paillier_ValidateCiphertexts). Qed.
Print Assumptions C12_guards_paillier_ValidateCiphertexts.

Theorem C12_guards_loops_meaning :
  forall N : Z,
    (forall x : Z, nat_refused N (Some x) = negb ((x <? N) && (gcd_mod N x =? 1))) /\
    (forall x : Z, big_refused N (Some x) = negb (valid_big N x)) /\
    (forall c : Z, 0 <= c -> ct_refused N (Some c) = negb (validate_ct N c)) /\
    nat_refused N None = true /\ big_refused N None = true /\ ct_refused N None = true.
Proof. exact (@loops_meaning). Qed.
Print Assumptions C12_guards_loops_meaning.

Theorem C12_guards_paillier_ValidateN :
  forall n : option Z,
    geval (alookup (env_validate_n n)) go_paillier_ValidateN = Some (Cbor.validate_N n).
Proof. exact (@paillier_ValidateN). Qed.
Print Assumptions C12_guards_paillier_ValidateN.

Theorem C12_guards_validate_N_validate_n :
  forall n : Z, Cbor.validate_N (Some n) = validate_n n.
Proof. exact (@validate_N_validate_n). Qed.
Print Assumptions C12_guards_validate_N_validate_n.

Theorem C12_guards_paillier_ValidateN_trace_ok :
  go_paillier_ValidateN_trace =
    ["if n == nil -> return error"; "do nBig := n.Big()";
     "if bits != params.BitsPaillier where bits := nBig.BitLen() -> return error";
     "if nBig.Bit(0) != 1 -> return error"; "return nil"].
Proof. exact (@paillier_ValidateN_trace_ok). Qed.
Print Assumptions C12_guards_paillier_ValidateN_trace_ok.

Theorem C12_guards_paillier_ValidatePrime :
  forall (prime_test : Z -> bool) (p : option Z),
    geval (alookup (env_validate_prime prime_test p)) go_paillier_ValidatePrime =
    Some (Cbor.validate_prime prime_test p).
Proof. exact (@paillier_ValidatePrime). Qed.
Print Assumptions C12_guards_paillier_ValidatePrime.

Theorem C12_guards_paillier_ValidatePrime_trace_ok :
  go_paillier_ValidatePrime_trace =
    ["if p == nil -> return error"; "do const bitsWant = params.BitsBlumPrime";
     "if bits != bitsWant where bits := p.TrueLen() -> return error";
     "if p.Byte(0)&0b11 != 3 -> return error"; "do pMinus1Div2 := new(saferith.Nat).Rsh(p, 1, -1)";
     "if !pMinus1Div2.Big().ProbablyPrime(1) -> return error";
     "if !p.Big().ProbablyPrime(1) -> return error"; "return nil"].
Proof. exact (@paillier_ValidatePrime_trace_ok). Qed.
Print Assumptions C12_guards_paillier_ValidatePrime_trace_ok.

Theorem C12_guards_pedersen_ValidateParameters :
  forall n s t : option Z,
    geval (alookup (env_ped_validate n s t)) go_pedersen_ValidateParameters =
    Some
      match n with
      | Some n0 =>
          match s with
          | Some s0 => match t with
                       | Some t0 => ped_validate n0 s0 t0
                       | None => false
                       end
          | None => false
          end
      | None => false
      end.
Proof. exact (@pedersen_ValidateParameters). Qed.
Print Assumptions C12_guards_pedersen_ValidateParameters.

Theorem C12_guards_pedersen_Verify :
  forall (n s t : Z) (a b e S T : option Z),
    geval (alookup (env_ped_verify n s t a b e S T)) go_pedersen_Verify =
    Some
      match a with
      | Some a0 =>
          match b with
          | Some b0 =>
              match e with
              | Some e0 =>
                  match S with
                  | Some cS =>
                      match T with
                      | Some cT => ped_verify n s t a0 b0 e0 cS cT
                      | None => false
                      end
                  | None => false
                  end
              | None => false
              end
          | None => false
          end
      | None => false
      end.
Proof. exact (@pedersen_Verify). Qed.
Print Assumptions C12_guards_pedersen_Verify.

Theorem C12_guards_pedersen_Verify_trace_ok :
  go_pedersen_Verify_trace =
    ["if a == nil || b == nil || S == nil || T == nil || e == nil -> return false";
     "if !arith.IsBoundedInt(a) || !arith.IsBoundedInt(b) -> return false"; "do nMod := p.n.Modulus";
     "if !arith.IsValidNatModN(nMod, S, T) -> return false"; "do sa := p.n.ExpI(p.s, a)";
     "do tb := p.n.ExpI(p.t, b)"; "do lhs := sa.ModMul(sa, tb, nMod)"; "do te := p.n.ExpI(T, e)";
     "do rhs := te.ModMul(te, S, nMod)"; "return lhs.Eq(rhs) == 1"].
Proof. exact (@pedersen_Verify_trace_ok). Qed.
Print Assumptions C12_guards_pedersen_Verify_trace_ok.

(* ---------------------------------------------------------------- non-vacuity *)

(* N = 15: 4 is a valid ciphertext (below 225, unit), 225 and 15 are not; nil is refused; a value of 769 bits is outside +-2^768 *)
Example C12_guards_ex :
  geval (alookup (env_validate_cts 15 [Some 4; Some 224])) go_paillier_ValidateCiphertexts = Some true /\
  geval (alookup (env_validate_cts 15 [Some 4; Some 225])) go_paillier_ValidateCiphertexts = Some false /\
  geval (alookup (env_validate_cts 15 [Some 15])) go_paillier_ValidateCiphertexts = Some false /\
  geval (alookup (env_validate_cts 15 [Some 4; None])) go_paillier_ValidateCiphertexts = Some false /\
  geval (alookup (env_natmodn 15 [Some 2; Some 14])) go_arith_IsValidNatModN = Some true /\
  geval (alookup (env_natmodn 15 [Some 2; Some 5])) go_arith_IsValidNatModN = Some false /\
  geval (alookup (env_bigmodn 15 [Some 0])) go_arith_IsValidBigModN = Some false /\
  geval (alookup (env_interval (Some (2 ^ 768 - 1)))) go_arith_IsInIntervalLEps = Some true /\
  geval (alookup (env_interval (Some (- 2 ^ 768)))) go_arith_IsInIntervalLEps = Some false /\
  geval (alookup (env_interval None)) go_arith_IsInIntervalLEps = Some false /\
  geval (alookup (env_plaintext (Some 15) (Some (-7)))) go_arith_IsInPlaintextRange = Some true /\
  geval (alookup (env_plaintext (Some 15) (Some 8))) go_arith_IsInPlaintextRange = Some false /\
  geval (alookup (env_validate_n (Some (2 ^ 2047 + 1)))) go_paillier_ValidateN = Some true /\
  geval (alookup (env_validate_n (Some (2 ^ 2047)))) go_paillier_ValidateN = Some false /\
  geval (alookup (env_ped_validate (Some 15) (Some 2) (Some 2))) go_pedersen_ValidateParameters = Some false /\
  geval (alookup (env_ped_validate (Some 15) (Some 2) (Some 4))) go_pedersen_ValidateParameters = Some true.
Proof. repeat split; vm_compute; reflexivity. Qed.

(* ValidateCiphertexts without the `< N^2` test accepts c + N^2, which the model refuses *)
Example C12_guards_mutant_no_upper_bound :
  existsb (fun c => match c with None => true | Some c => negb (gcd_mod (15 * 15) c =? 1) end) [Some (4 + 225)] = false /\
  validate_ct 15 (4 + 225) = false.
Proof. split; vm_compute; reflexivity. Qed.
