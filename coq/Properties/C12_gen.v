(* C12: the range constants used by the model equal internal/params (regenerated from /repo) and give the MtA range premise. *)
From Coq Require Import ZArith Lia.
From MPS Require Import Model.Paillier Generated.Params.
Open Scope Z_scope.

Theorem C12_gen_lprime_matches : lprime = go_param_LPrime.
Proof. vm_compute. reflexivity. Qed.

(* q^2 + 2^LPrime fits below (N-1)/2 for every N of BitsPaillier bits with q < 2^SecParam *)
Theorem C12_gen_mta_range : 2 ^ (2 * go_param_SecParam) + 2 ^ go_param_LPrime <= (2 ^ (go_param_BitsPaillier - 1) - 1) / 2.
Proof. vm_compute. discriminate. Qed.

Theorem C12_gen_sizes_consistent :
  go_param_BitsPaillier = 2 * go_param_BitsBlumPrime /\ go_param_BytesCiphertext * 8 = 2 * go_param_BitsPaillier /\
  go_param_LPrime = 5 * go_param_SecParam /\ go_param_LPlusEpsilon = go_param_L + go_param_Epsilon.
Proof. vm_compute. repeat split; reflexivity. Qed.
