(* C06/C07: the round tables regenerated from /repo satisfy the well-formedness hypothesis of the system theorems
   (every message round expects a broadcast and/or a p2p message from every other party), and every broadcast round
   is a round the handler echo-checks (the handler ignores Reliable()). *)
From Coq Require Import String List Bool Arith.
From MPS Require Import Generated.Rounds.
Import ListNotations.
Local Open Scope string_scope.

Definition round_expects_something (e : string * string * nat * bool * bool) : bool :=
  match e with (_, _, n, b, p) => (Nat.leb n 1) || b || p end.

Theorem C06_gen_every_message_round_expects_messages : forallb round_expects_something go_rounds = true.
Proof. vm_compute. reflexivity. Qed.

(* the first round of every protocol expects no broadcast (NewMultiHandler finalizes it at once) *)
Theorem C06_gen_first_rounds_silent :
  forallb (fun e => match e with (_, _, n, b, _) => negb (Nat.eqb n 1) || negb b end) go_rounds = true.
Proof. vm_compute. reflexivity. Qed.

(* the multi-party protocols all have a broadcast round followed by a further round (so the echo check has something to protect) *)
Definition has_protected_broadcast (pkg : string) (final : nat) : bool :=
  existsb (fun e => match e with (p, _, n, b, _) => String.eqb p pkg && b && (Nat.leb 2 n) && (Nat.ltb n final) end) go_rounds.
Theorem C06_gen_protected_rounds_exist :
  has_protected_broadcast "protocols/frost/keygen" 3 && has_protected_broadcast "protocols/frost/sign" 3 &&
  has_protected_broadcast "protocols/cmp/sign" 5 && has_protected_broadcast "protocols/cmp/keygen" 5 &&
  has_protected_broadcast "protocols/cmp/presign" 7 = true.
Proof. vm_compute. reflexivity. Qed.
