(* C11 (tie to the source, generated): the inputs of the FROST signing nonce.  protocols/frost/sign round1.Finalize, transcribed
   from the source on every run (Generated/Challenges.v go_frost_sign_round1_writes / _hash_trace: the statements that touch the
   key-derivation input, the keyed hasher and its digest), feeds the KDF with the share bytes and the keyed hash with
   session digest || message || 32 random bytes, in this order: exactly the model's [frost_nonce_input] (Model/Nonce.v), the
   function C11_frost_nonce_input_inj / C11_frost_nonce_binding / C11_frost_rng_failure are about.  Losing the message (or the
   session digest) from the hashed input breaks C11_fields_go_frost_round1_nonce_fields.  Round 2: the binding factors hash the
   message, every (D_l, E_l) in party order, then l; the challenge hashes R, Y and the message (BIP-340 tagged hash on the
   taproot path): pinned as lists, and the message is in all of them.
   Only statements; proofs in Proofs/ChallengesProofs.v. *)
From Coq Require Import String List Bool NArith ZArith.
From MPS Require Import Model.Bytes Model.Framing Model.Nonce.
From MPS Require Import Generated.Challenges Proofs.FieldsBase Proofs.NonceFieldsProofs.
Import ListNotations.
Local Open Scope string_scope.
Local Open Scope list_scope.
Local Open Scope Z_scope.

Theorem C11_fields_go_frost_round1_nonce_fields :
  forall (share : N) (digest msg rnd : bytes),
    match collect (tbl_frost_nonce share digest msg rnd) go_frost_sign_round1_writes with
    | Some parts => frost_nonce_input share digest msg rnd = (scalar_bytes share, concat parts)
    | None => False
    end.
Proof. exact (@go_frost_round1_nonce_fields). Qed.
Print Assumptions C11_fields_go_frost_round1_nonce_fields.

Theorem C11_fields_go_frost_round1_hash_trace_ok :
  go_frost_sign_round1_hash_trace =
    ["s_iBytes, err := r.s_i.MarshalBinary()"; "hashKey := make([]byte, 32)";
     "blake3.DeriveKey(deriveHashKeyContext, s_iBytes[:], hashKey)";
     "nonceHasher, _ := blake3.NewKeyed(hashKey)"; "_, _ = nonceHasher.Write(r.Hash().Sum())";
     "_, _ = nonceHasher.Write(r.M)"; "a := make([]byte, 32)"; "_, _ = rand.Read(a)";
     "_, _ = nonceHasher.Write(a)"; "nonceDigest := nonceHasher.Digest()";
     "d_i := sample.ScalarUnit(nonceDigest, r.Group())";
     "e_i := sample.ScalarUnit(nonceDigest, r.Group())"].
Proof. exact (@go_frost_round1_hash_trace_ok). Qed.
Print Assumptions C11_fields_go_frost_round1_hash_trace_ok.

Theorem C11_fields_go_frost_round2_writes_ok :
  go_frost_sign_round2_writes =
    ["rhoPreHash <- r.M"; "rhoPreHash <- [for _, l := range r.PartyIDs()] r.D[l]";
     "rhoPreHash <- [for _, l := range r.PartyIDs()] r.E[l]";
     "rhoHash <- [for _, l := range r.PartyIDs()] l";
     "taproot.TaggedHash <- [if r.taproot] ""BIP0340/challenge""";
     "taproot.TaggedHash <- [if r.taproot] RBytes"; "taproot.TaggedHash <- [if r.taproot] PBytes";
     "taproot.TaggedHash <- [if r.taproot] r.M"; "cHash <- [if !(r.taproot)] R";
     "cHash <- [if !(r.taproot)] r.Y"; "cHash <- [if !(r.taproot)] r.M"].
Proof. exact (@go_frost_round2_writes_ok). Qed.
Print Assumptions C11_fields_go_frost_round2_writes_ok.

Theorem C11_fields_go_frost_round2_hash_trace_ok :
  go_frost_sign_round2_hash_trace =
    ["rhoPreHash := hash.New()"; "_ = rhoPreHash.WriteAny(r.M)";
     "[for _, l := range r.PartyIDs()] _ = rhoPreHash.WriteAny(r.D[l], r.E[l])";
     "[for _, l := range r.PartyIDs()] rhoHash := rhoPreHash.Clone()";
     "[for _, l := range r.PartyIDs()] _ = rhoHash.WriteAny(l)";
     "[for _, l := range r.PartyIDs()] rho[l] = sample.Scalar(rhoHash.Digest(), r.Group())";
     "[if r.taproot] RBytes := RSecp.XBytes()";
     "[if r.taproot] PBytes := r.Y.(*curve.Secp256k1Point).XBytes()";
     "[if r.taproot] cHash := taproot.TaggedHash(""BIP0340/challenge"", RBytes, PBytes, r.M)";
     "[if r.taproot] c = r.Group().NewScalar().SetNat(new(saferith.Nat).SetBytes(cHash))";
     "[if !(r.taproot)] cHash := hash.New()"; "[if !(r.taproot)] _ = cHash.WriteAny(R, r.Y, r.M)";
     "[if !(r.taproot)] c = sample.Scalar(cHash.Digest(), r.Group())"].
Proof. exact (@go_frost_round2_hash_trace_ok). Qed.
Print Assumptions C11_fields_go_frost_round2_hash_trace_ok.

Theorem C11_fields_go_frost_message_is_hashed :
  mem "nonceHasher <- r.M" go_frost_sign_round1_writes = true /\
    mem "rhoPreHash <- r.M" go_frost_sign_round2_writes = true /\
    mem "taproot.TaggedHash <- [if r.taproot] r.M" go_frost_sign_round2_writes = true /\
    mem "cHash <- [if !(r.taproot)] r.M" go_frost_sign_round2_writes = true.
Proof. exact (@go_frost_message_is_hashed). Qed.
Print Assumptions C11_fields_go_frost_message_is_hashed.

(* ---------------------------------------------------------------- non-vacuity *)

Example C11_fields_ex :
  collect (tbl_frost_nonce 5 (repeat 1%N 64) [9%N; 9%N] (repeat 2%N 32)) go_frost_sign_round1_writes
  = Some [repeat 1%N 64; [9%N; 9%N]; repeat 2%N 32] /\
  snd (frost_nonce_input 5 (repeat 1%N 64) [9%N; 9%N] (repeat 2%N 32)) = repeat 1%N 64 ++ [9%N; 9%N] ++ repeat 2%N 32.
Proof. split; vm_compute; reflexivity. Qed.

(* without the write of r.M the collected stream differs from the model's for every non-empty message *)
Example C11_fields_mutant_no_message :
  match collect (tbl_frost_nonce 5 (repeat 1%N 64) [9%N] (repeat 2%N 32))
          (filter (fun w => negb (String.eqb w "nonceHasher <- r.M")) go_frost_sign_round1_writes) with
  | Some parts => concat parts <> snd (frost_nonce_input 5 (repeat 1%N 64) [9%N] (repeat 2%N 32))
  | None => False
  end.
Proof. vm_compute. discriminate. Qed.
