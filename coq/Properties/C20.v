(* C20 -- Invalid session parameters are refused at start.  (first part: the shared NewSession / CanSign guards;
   the per-start-function guard sequences are in C20_start.v) *)
From Coq Require Import String.
From Coq Require Import List NArith ZArith Bool.
From MPS Require Import Model.Bytes Model.Framing Model.Session Proofs.SessionProofs.
Import ListNotations.

(* NewSession accepts exactly: pairwise distinct, non-empty ids that are non-zero evaluation points, self among them,
   0 <= t <= min(n-1, 2^32-1) -- any n, any order *)
Theorem C20_new_session_ok_iff : forall p,
  new_session_ok p = true <->
  NoDup (sp_ids p) /\ (forall id, In id (sp_ids p) -> id_ok (sp_group p) id = true) /\ In (sp_self p) (sp_ids p) /\
  (0 <= sp_thr p <= max_uint32)%Z /\ (sp_thr p <= Z.of_nat (length (sp_ids p)) - 1)%Z.
Proof. exact new_session_ok_iff. Qed.
Print Assumptions C20_new_session_ok_iff.

Theorem C20_valid_threshold_iff : forall t n,
  valid_threshold t n = true <-> (0 <= t <= max_uint32 /\ t <= Z.of_nat n - 1)%Z.
Proof. exact valid_threshold_iff. Qed.

(* Config.CanSign: signer set strictly sorted (no duplicates), larger than t, contains self, only shareholders *)
Theorem C20_can_sign_iff : forall t self sh sg,
  can_sign t self sh sg = true <->
  (0 <= t <= max_uint32)%Z /\ (t < Z.of_nat (length sg))%Z /\ ids_valid sg = true /\ In self sg /\
  (forall j, In j sg -> In j sh).
Proof. exact can_sign_iff. Qed.
Print Assumptions C20_can_sign_iff.

(* the sort used by NewIDSlice is a sort, and Valid on its output means "no duplicates" *)
Theorem C20_ids_valid_sort_iff : forall l, ids_valid (sort_ids l) = true <-> NoDup l.
Proof. exact ids_valid_sort_iff. Qed.
Print Assumptions C20_ids_valid_sort_iff.

Example C20_ok_example :
  new_session_ok (mkSess None (str "p") None [[98]; [97]; [99]]%N [97]%N 2 []) = true.
Proof. reflexivity. Qed.
Example C20_reject_examples :
  new_session_ok (mkSess None (str "p") None [[98]; [97]; [98]]%N [97]%N 1 []) = false /\
  new_session_ok (mkSess None (str "p") None [[98]; [97]]%N [99]%N 1 []) = false /\
  new_session_ok (mkSess None (str "p") None [[98]; [97]]%N [97]%N 2 []) = false /\
  new_session_ok (mkSess None (str "p") None [[98]; [97]]%N [97]%N (-1) []) = false.
Proof. repeat split; reflexivity. Qed.
