(* C10 (tie to the source, generated): the Fiat-Shamir transcripts and the validity / range checks of the 15 proof systems of
   pkg/zk, as /repo's source has them NOW (Generated/Challenges.v, Generated/ZKGuards.v: written by verifgen on every run), are
   the ones of the model the C10 theorems are about (Model/ZK.v).  Only statements; proofs in Proofs/ChallengesProofs.v,
   Proofs/ZKGuardsProofs.v, Proofs/ZKTraces.v.

   Part 1 -- challenge field lists.  The model hashes  X_challenge_items args = map fld_hval (X_fields args)  (Model/ZK.v;
   Model/DispatchZK.v op "zk.X.items" feeds exactly this list to Framing.write_any).  go_zkX_challenge_writes is the list of
   expressions the Go function `challenge` passes to hash.WriteAny, in order.  C10_gen_go_zkX_challenge_fields: looking every
   written expression up in the table tbl_X (source expression -> model field, one row per expression) gives X_fields, for
   all values: same length, same order, nothing twice.  ..._kinds: the declared Go type of each written expression encodes
   as the model field's constructor does.  C10_gen_go_zk_challenge_samplers: what is drawn from the digest.
   Part 2 -- IsValid and Verify.  C10_gen_zkX_IsValid: for every nil-ness assignment, IsValid = "nothing nil and the model's
   validity predicate", never dereferencing nil.  C10_gen_zkX_Verify: the translated Verify equals the model verifier as
   option bool (None = EncWithNonce panics): every range test is where the model has it.  C10_gen_zk_traces_ok pins the
   computing statements the equation atoms are read from. *)
From Coq Require Import String List Bool NArith ZArith.
From MPS Require Import Model.Bytes Model.Framing Model.Paillier Model.ZK.
From MPS Require Import Generated.Params Generated.Guards Generated.ZKGuards Generated.Challenges
  Proofs.GuardsBase Proofs.ZKGuardsBase Proofs.ZKGuardsProofs Proofs.ZKTraces Proofs.FieldsBase Proofs.ChallengesProofs.
Import ListNotations.
Local Open Scope string_scope.
Local Open Scope list_scope.
Local Open Scope Z_scope.

(* ---------------------------------------------------------------- Part 1: challenge field lists *)

Theorem C10_gen_go_zk_systems_ok :
  go_zk_systems =
    ["affg"; "affp"; "dec"; "elog"; "enc"; "encelg"; "fac"; "log"; "logstar"; "mod"; "mul"; "mulstar";
     "nth"; "prm"; "sch"].
Proof. exact (@go_zk_systems_ok). Qed.
Print Assumptions C10_gen_go_zk_systems_ok.

Theorem C10_gen_go_zkaffg_challenge_fields :
  forall (G : Type) (pt_enc : G -> Z * bool) (nh s t n1 n0 Kv Dv Fp : Z) (Xp : G)
      (A : Z) (Bx : G) (By E S F T : Z),
    collect (tbl_affg pt_enc nh s t n1 n0 Kv Dv Fp Xp A Bx By E S F T) go_zkaffg_challenge_writes =
    Some (affg_fields pt_enc nh s t n1 n0 Kv Dv Fp Xp A Bx By E S F T).
Proof. exact (@go_zkaffg_challenge_fields). Qed.
Print Assumptions C10_gen_go_zkaffg_challenge_fields.

Theorem C10_gen_go_zkaffg_challenge_kinds :
  forall (G : Type) (pt_enc : G -> Z * bool) (nh s t n1 n0 Kv Dv Fp : Z) (Xp : G)
      (A : Z) (Bx : G) (By E S F T : Z),
    kinds_ok (tbl_affg pt_enc nh s t n1 n0 Kv Dv Fp Xp A Bx By E S F T) go_zkaffg_challenge_writes
      go_zkaffg_challenge_write_types = true.
Proof. exact (@go_zkaffg_challenge_kinds). Qed.
Print Assumptions C10_gen_go_zkaffg_challenge_kinds.

Theorem C10_gen_go_zkaffp_challenge_fields :
  forall nh s t n1 n0 Kv Dv Fp Xp A Bx By E S F T : Z,
    collect (tbl_affp nh s t n1 n0 Kv Dv Fp Xp A Bx By E S F T) go_zkaffp_challenge_writes =
    Some (affp_fields nh s t n1 n0 Kv Dv Fp Xp A Bx By E S F T).
Proof. exact (@go_zkaffp_challenge_fields). Qed.
Print Assumptions C10_gen_go_zkaffp_challenge_fields.

Theorem C10_gen_go_zkaffp_challenge_kinds :
  forall nh s t n1 n0 Kv Dv Fp Xp A Bx By E S F T : Z,
    kinds_ok (tbl_affp nh s t n1 n0 Kv Dv Fp Xp A Bx By E S F T) go_zkaffp_challenge_writes
      go_zkaffp_challenge_write_types = true.
Proof. exact (@go_zkaffp_challenge_kinds). Qed.
Print Assumptions C10_gen_go_zkaffp_challenge_kinds.

Theorem C10_gen_go_zkdec_challenge_fields :
  forall nh s t n0 C X S T A Gamma : Z,
    collect (tbl_dec nh s t n0 C X S T A Gamma) go_zkdec_challenge_writes =
    Some (dec_fields nh s t n0 C X S T A Gamma).
Proof. exact (@go_zkdec_challenge_fields). Qed.
Print Assumptions C10_gen_go_zkdec_challenge_fields.

Theorem C10_gen_go_zkdec_challenge_kinds :
  forall nh s t n0 C X S T A Gamma : Z,
    kinds_ok (tbl_dec nh s t n0 C X S T A Gamma) go_zkdec_challenge_writes go_zkdec_challenge_write_types =
    true.
Proof. exact (@go_zkdec_challenge_kinds). Qed.
Print Assumptions C10_gen_go_zkdec_challenge_kinds.

Theorem C10_gen_go_zkelog_challenge_fields :
  forall (G : Type) (pt_enc : G -> Z * bool) (L M X H Y A Np B : G),
    collect (tbl_elog pt_enc L M X H Y A Np B) go_zkelog_challenge_writes =
    Some (elog_fields pt_enc L M X H Y A Np B).
Proof. exact (@go_zkelog_challenge_fields). Qed.
Print Assumptions C10_gen_go_zkelog_challenge_fields.

Theorem C10_gen_go_zkelog_challenge_kinds :
  forall (G : Type) (pt_enc : G -> Z * bool) (L M X H Y A Np B : G),
    kinds_ok (tbl_elog pt_enc L M X H Y A Np B) go_zkelog_challenge_writes go_zkelog_challenge_write_types =
    true.
Proof. exact (@go_zkelog_challenge_kinds). Qed.
Print Assumptions C10_gen_go_zkelog_challenge_kinds.

Theorem C10_gen_go_zkenc_challenge_fields :
  forall nh s t n0 K S A C : Z,
    collect (tbl_enc nh s t n0 K S A C) go_zkenc_challenge_writes = Some (enc_fields nh s t n0 K S A C).
Proof. exact (@go_zkenc_challenge_fields). Qed.
Print Assumptions C10_gen_go_zkenc_challenge_fields.

Theorem C10_gen_go_zkenc_challenge_kinds :
  forall nh s t n0 K S A C : Z,
    kinds_ok (tbl_enc nh s t n0 K S A C) go_zkenc_challenge_writes go_zkenc_challenge_write_types = true.
Proof. exact (@go_zkenc_challenge_kinds). Qed.
Print Assumptions C10_gen_go_zkenc_challenge_kinds.

Theorem C10_gen_go_zkencelg_challenge_fields :
  forall (G : Type) (pt_enc : G -> Z * bool) (nh s t n0 C : Z) (A B X : G) (S D : Z) (Y Zp : G) (T : Z),
    collect (tbl_encelg pt_enc nh s t n0 C A B X S D Y Zp T) go_zkencelg_challenge_writes =
    Some (encelg_fields pt_enc nh s t n0 C A B X S D Y Zp T).
Proof. exact (@go_zkencelg_challenge_fields). Qed.
Print Assumptions C10_gen_go_zkencelg_challenge_fields.

Theorem C10_gen_go_zkencelg_challenge_kinds :
  forall (G : Type) (pt_enc : G -> Z * bool) (nh s t n0 C : Z) (A B X : G) (S D : Z) (Y Zp : G) (T : Z),
    kinds_ok (tbl_encelg pt_enc nh s t n0 C A B X S D Y Zp T) go_zkencelg_challenge_writes
      go_zkencelg_challenge_write_types = true.
Proof. exact (@go_zkencelg_challenge_kinds). Qed.
Print Assumptions C10_gen_go_zkencelg_challenge_kinds.

Theorem C10_gen_go_zkfac_challenge_fields :
  forall n0 nh s t P Q A B T : Z,
    collect (tbl_fac n0 nh s t P Q A B T) go_zkfac_challenge_writes =
    Some (fac_fields n0 nh s t P Q A B T).
Proof. exact (@go_zkfac_challenge_fields). Qed.
Print Assumptions C10_gen_go_zkfac_challenge_fields.

Theorem C10_gen_go_zkfac_challenge_kinds :
  forall n0 nh s t P Q A B T : Z,
    kinds_ok (tbl_fac n0 nh s t P Q A B T) go_zkfac_challenge_writes go_zkfac_challenge_write_types = true.
Proof. exact (@go_zkfac_challenge_kinds). Qed.
Print Assumptions C10_gen_go_zkfac_challenge_kinds.

Theorem C10_gen_go_zklog_challenge_fields :
  forall (G : Type) (pt_enc : G -> Z * bool) (H X Y A B C : G),
    collect (tbl_log pt_enc H X Y A B C) go_zklog_challenge_writes = Some (log_fields pt_enc H X Y A B C).
Proof. exact (@go_zklog_challenge_fields). Qed.
Print Assumptions C10_gen_go_zklog_challenge_fields.

Theorem C10_gen_go_zklog_challenge_kinds :
  forall (G : Type) (pt_enc : G -> Z * bool) (H X Y A B C : G),
    kinds_ok (tbl_log pt_enc H X Y A B C) go_zklog_challenge_writes go_zklog_challenge_write_types = true.
Proof. exact (@go_zklog_challenge_kinds). Qed.
Print Assumptions C10_gen_go_zklog_challenge_kinds.

Theorem C10_gen_go_zklogstar_challenge_fields :
  forall (G : Type) (pt_enc : G -> Z * bool) (nh s t n0 C : Z) (X Gb : G) (S A : Z) (Y : G) (D : Z),
    collect (tbl_logstar pt_enc nh s t n0 C X Gb S A Y D) go_zklogstar_challenge_writes =
    Some (logstar_fields pt_enc nh s t n0 C X Gb S A Y D).
Proof. exact (@go_zklogstar_challenge_fields). Qed.
Print Assumptions C10_gen_go_zklogstar_challenge_fields.

Theorem C10_gen_go_zklogstar_challenge_kinds :
  forall (G : Type) (pt_enc : G -> Z * bool) (nh s t n0 C : Z) (X Gb : G) (S A : Z) (Y : G) (D : Z),
    kinds_ok (tbl_logstar pt_enc nh s t n0 C X Gb S A Y D) go_zklogstar_challenge_writes
      go_zklogstar_challenge_write_types = true.
Proof. exact (@go_zklogstar_challenge_kinds). Qed.
Print Assumptions C10_gen_go_zklogstar_challenge_kinds.

Theorem C10_gen_go_zkmod_challenge_fields :
  forall n w : Z, collect (tbl_mod n w) go_zkmod_challenge_writes = Some (mod_fields n w).
Proof. exact (@go_zkmod_challenge_fields). Qed.
Print Assumptions C10_gen_go_zkmod_challenge_fields.

Theorem C10_gen_go_zkmod_challenge_kinds :
  forall n w : Z, kinds_ok (tbl_mod n w) go_zkmod_challenge_writes go_zkmod_challenge_write_types = true.
Proof. exact (@go_zkmod_challenge_kinds). Qed.
Print Assumptions C10_gen_go_zkmod_challenge_kinds.

Theorem C10_gen_go_zkmul_challenge_fields :
  forall n X Y C A B : Z,
    collect (tbl_mul n X Y C A B) go_zkmul_challenge_writes = Some (mul_fields n X Y C A B).
Proof. exact (@go_zkmul_challenge_fields). Qed.
Print Assumptions C10_gen_go_zkmul_challenge_fields.

Theorem C10_gen_go_zkmul_challenge_kinds :
  forall n X Y C A B : Z,
    kinds_ok (tbl_mul n X Y C A B) go_zkmul_challenge_writes go_zkmul_challenge_write_types = true.
Proof. exact (@go_zkmul_challenge_kinds). Qed.
Print Assumptions C10_gen_go_zkmul_challenge_kinds.

Theorem C10_gen_go_zkmulstar_challenge_fields :
  forall (G : Type) (pt_enc : G -> Z * bool) (nh s t n0 C D : Z) (X : G) (A : Z) (Bx : G) (E S : Z),
    collect (tbl_mulstar pt_enc nh s t n0 C D X A Bx E S) go_zkmulstar_challenge_writes =
    Some (mulstar_fields pt_enc nh s t n0 C D X A Bx E S).
Proof. exact (@go_zkmulstar_challenge_fields). Qed.
Print Assumptions C10_gen_go_zkmulstar_challenge_fields.

Theorem C10_gen_go_zkmulstar_challenge_kinds :
  forall (G : Type) (pt_enc : G -> Z * bool) (nh s t n0 C D : Z) (X : G) (A : Z) (Bx : G) (E S : Z),
    kinds_ok (tbl_mulstar pt_enc nh s t n0 C D X A Bx E S) go_zkmulstar_challenge_writes
      go_zkmulstar_challenge_write_types = true.
Proof. exact (@go_zkmulstar_challenge_kinds). Qed.
Print Assumptions C10_gen_go_zkmulstar_challenge_kinds.

Theorem C10_gen_go_zknth_challenge_fields :
  forall n R A : Z, collect (tbl_nth n R A) go_zknth_challenge_writes = Some (nth_fields n R A).
Proof. exact (@go_zknth_challenge_fields). Qed.
Print Assumptions C10_gen_go_zknth_challenge_fields.

Theorem C10_gen_go_zknth_challenge_kinds :
  forall n R A : Z,
    kinds_ok (tbl_nth n R A) go_zknth_challenge_writes go_zknth_challenge_write_types = true.
Proof. exact (@go_zknth_challenge_kinds). Qed.
Print Assumptions C10_gen_go_zknth_challenge_kinds.

Theorem C10_gen_go_zkprm_challenge_fields :
  forall (n s t : Z) (As : list Z),
    collect (tbl_prm n s t As) go_zkprm_challenge_writes = Some (prm_fields n s t As).
Proof. exact (@go_zkprm_challenge_fields). Qed.
Print Assumptions C10_gen_go_zkprm_challenge_fields.

Theorem C10_gen_go_zkprm_challenge_kinds :
  forall (n s t : Z) (As : list Z),
    kinds_ok (tbl_prm n s t As) go_zkprm_challenge_writes go_zkprm_challenge_write_types = true.
Proof. exact (@go_zkprm_challenge_kinds). Qed.
Print Assumptions C10_gen_go_zkprm_challenge_kinds.

Theorem C10_gen_go_zksch_challenge_fields :
  forall (G : Type) (pt_enc : G -> Z * bool) (gen X C : G),
    collect (tbl_sch pt_enc gen X C) go_zksch_challenge_writes = Some (sch_fields pt_enc gen X C).
Proof. exact (@go_zksch_challenge_fields). Qed.
Print Assumptions C10_gen_go_zksch_challenge_fields.

Theorem C10_gen_go_zksch_challenge_kinds :
  forall (G : Type) (pt_enc : G -> Z * bool) (gen X C : G),
    kinds_ok (tbl_sch pt_enc gen X C) go_zksch_challenge_writes go_zksch_challenge_write_types = true.
Proof. exact (@go_zksch_challenge_kinds). Qed.
Print Assumptions C10_gen_go_zksch_challenge_kinds.

Theorem C10_gen_go_zk_challenge_samplers :
  map fst go_zk_samples = go_zk_systems /\ forallb sampler_ok go_zk_samples = true.
Proof. exact (@go_zk_challenge_samplers). Qed.
Print Assumptions C10_gen_go_zk_challenge_samplers.

Theorem C10_gen_go_zk_challenge_calls_ok :
  go_zk_calls =
    [("affg",
      ["NewProof: challenge(hash, group, public, commitment)";
       "(Proof).Verify: challenge(hash, p.group, public, p.Commitment)"]);
     ("affp",
      ["NewProof: challenge(hash, group, public, commitment)";
       "(Proof).Verify: challenge(hash, group, public, p.Commitment)"]);
     ("dec",
      ["NewProof: challenge(hash, group, public, commitment)";
       "(Proof).Verify: challenge(hash, p.group, public, p.Commitment)"]);
     ("elog",
      ["NewProof: challenge(hash, group, public, commitment)";
       "(Proof).Verify: challenge(hash, p.group, public, p.Commitment)"]);
     ("enc",
      ["NewProof: challenge(hash, group, public, commitment)";
       "(Proof).Verify: challenge(hash, group, public, p.Commitment)"]);
     ("encelg",
      ["NewProof: challenge(hash, group, public, commitment)";
       "(Proof).Verify: challenge(hash, p.group, public, p.Commitment)"]);
     ("fac",
      ["NewProof: challenge(hash, public, comm)"; "(Proof).Verify: challenge(hash, public, p.Comm)"]);
     ("log",
      ["NewProof: challenge(hash, group, public, commitment)";
       "(Proof).Verify: challenge(hash, p.group, public, p.Commitment)"]);
     ("logstar",
      ["NewProof: challenge(hash, group, public, commitment)";
       "(Proof).Verify: challenge(hash, p.group, public, p.Commitment)"]);
     ("mod", ["NewProof: challenge(hash, n, w.Big())"; "(Proof).Verify: challenge(hash, nMod, p.W)"]);
     ("mul",
      ["NewProof: challenge(hash, group, public, commitment)";
       "(Proof).Verify: challenge(hash, group, public, p.Commitment)"]);
     ("mulstar",
      ["NewProof: challenge(group, hash, public, commitment)";
       "(Proof).Verify: challenge(group, hash, public, p.Commitment)"]);
     ("nth",
      ["NewProof: challenge(hash, public, commitment)";
       "(Proof).Verify: challenge(hash, public, p.Commitment)"]);
     ("prm", ["NewProof: challenge(hash, public, As)"; "(Proof).Verify: challenge(hash, public, p.As)"]);
     ("sch",
      ["(Randomness).Prove: challenge(hash, group, &r.commitment, public, gen)";
       "(Response).Verify: challenge(hash, z.group, commitment, public, gen)"])].
Proof. exact (@go_zk_challenge_calls_ok). Qed.
Print Assumptions C10_gen_go_zk_challenge_calls_ok.

Theorem C10_gen_go_zk_challenge_bodies_simple :
  forallb simple_body go_zk_bodies = true.
Proof. exact (@go_zk_challenge_bodies_simple). Qed.
Print Assumptions C10_gen_go_zk_challenge_bodies_simple.

Theorem C10_gen_go_zk_challenge_bodies_other :
  go_zkfac_challenge_body =
    ["err := hash.WriteAny(public.N, public.Aux, commitment.P, commitment.Q, commitment.A, commitment.B, commitment.T)";
     "[if err != nil] return nil, err"; "return sample.IntervalL(hash.Digest()), nil"] /\
    go_zkmod_challenge_body =
    ["err = hash.WriteAny(n, w)"; "es = make([]*saferith.Nat, params.StatParam)";
     "var digest = hash.Digest()"; "[for i := range es] es[i] = sample.ModN(digest, n)"; "return"] /\
    go_zkprm_challenge_body =
    ["err = hash.WriteAny(public.Aux)"; "[for _, a := range A] _ = hash.WriteAny(a)";
     "tmpBytes := make([]byte, params.StatParam)"; "_, _ = io.ReadFull(hash.Digest(), tmpBytes)";
     "es = make([]bool, params.StatParam)"; "[for i := range es] b := (tmpBytes[i] & 1) == 1";
     "[for i := range es] es[i] = b"; "return"].
Proof. exact (@go_zk_challenge_bodies_other). Qed.
Print Assumptions C10_gen_go_zk_challenge_bodies_other.

(* ---------------------------------------------------------------- Part 2: IsValid / Verify *)

Theorem C10_gen_zk_translated :
  map fst go_zkguards =
    ["zkaffg_Proof_IsValid"; "zkaffg_Proof_Verify"; "zkaffp_Proof_IsValid"; "zkaffp_Proof_Verify";
     "zkdec_Proof_IsValid"; "zkdec_Proof_Verify"; "zkelog_Proof_IsValid"; "zkelog_Proof_Verify";
     "zkenc_Proof_IsValid"; "zkenc_Proof_Verify"; "zkencelg_Proof_IsValid"; "zkencelg_Proof_Verify";
     "zkfac_Proof_Verify"; "zklog_Proof_IsValid"; "zklog_Proof_Verify"; "zklogstar_Proof_IsValid";
     "zklogstar_Proof_Verify"; "zkmod_Proof_IsValid"; "zkmod_Proof_Verify"; "zkmod_Response_Verify";
     "zkmul_Proof_IsValid"; "zkmul_Proof_Verify"; "zkmulstar_Proof_IsValid"; "zkmulstar_Proof_Verify";
     "zknth_Proof_IsValid"; "zknth_Proof_Verify"; "zkprm_Proof_IsValid"; "zkprm_Proof_Verify";
     "zksch_Commitment_IsValid"; "zksch_Proof_IsValid"; "zksch_Proof_Verify"; "zksch_Response_IsValid";
     "zksch_Response_Verify"; "arith_IsBoundedInt"; "arith_IsInIntervalLEps";
     "arith_IsInIntervalLEpsPlus1RootN"; "arith_IsInIntervalLPrimeEps"; "arith_IsInPlaintextRange";
     "arith_IsValidBigModN"; "arith_IsValidNatModN"; "paillier_ValidateCiphertexts"; "paillier_ValidateN";
     "paillier_ValidatePrime"; "pedersen_ValidateParameters"; "pedersen_Verify"] /\
    zkguards_untranslatable = [].
Proof. exact (@zk_translated). Qed.
Print Assumptions C10_gen_zk_translated.

Theorem C10_gen_zksch_Commitment_IsValid :
  forall (G : Type) (gis_id : G -> bool) (nl : nilmap) (C : G),
    geval (alookup (env_sch_commitment gis_id nl C)) go_zksch_Commitment_IsValid =
    Some (nn nl ["c"; "c.C"] && negb (gis_id C)).
Proof. exact (@zksch_Commitment_IsValid). Qed.
Print Assumptions C10_gen_zksch_Commitment_IsValid.

Theorem C10_gen_zksch_Response_IsValid :
  forall (q : Z) (nl : nilmap) (z : Z),
    geval (alookup (env_sch_response q nl z)) go_zksch_Response_IsValid =
    Some (nn nl ["z"; "z.Z"] && negb (sc_zero q z)).
Proof. exact (@zksch_Response_IsValid). Qed.
Print Assumptions C10_gen_zksch_Response_IsValid.

Theorem C10_gen_zksch_Proof_IsValid :
  forall (G : Type) (gis_id : G -> bool) (q : Z) (nl : nilmap) (C : G) (z : Z),
    geval (alookup (env_sch_proof gis_id q nl C z)) go_zksch_Proof_IsValid =
    Some (nn nl ["p"; "p.Z.Z"; "p.C.C"] && negb (sc_zero q z) && negb (gis_id C)).
Proof. exact (@zksch_Proof_IsValid). Qed.
Print Assumptions C10_gen_zksch_Proof_IsValid.

Theorem C10_gen_zksch_Response_Verify :
  forall (G : Type) (gadd : G -> G -> G) (smul : Z -> G -> G) (geqb : G -> G -> bool)
      (gis_id : G -> bool) (q : Z) (gen X C : G) (z e : Z),
    geval (alookup (env_sch_response_verify gadd smul geqb gis_id q gen X C z e)) go_zksch_Response_Verify =
    Some (sch_response_verify gadd smul geqb gis_id q gen X C z e).
Proof. exact (@zksch_Response_Verify). Qed.
Print Assumptions C10_gen_zksch_Response_Verify.

Theorem C10_gen_zksch_Verify :
  forall (G : Type) (gadd : G -> G -> G) (smul : Z -> G -> G) (geqb : G -> G -> bool)
      (gis_id : G -> bool) (q : Z) (gen X C : G) (z e : Z),
    geval (alookup (env_sch_verify gadd smul geqb gis_id q gen X C z e)) go_zksch_Proof_Verify =
    sch_verify gadd smul geqb gis_id q gen X C z e.
Proof. exact (@zksch_Verify). Qed.
Print Assumptions C10_gen_zksch_Verify.

Theorem C10_gen_zklog_IsValid :
  forall (G : Type) (gis_id : G -> bool) (q : Z) (nl : nilmap) (A B C : G) (z1 z2 : Z),
    geval (alookup (env_log_valid gis_id q nl A B C z1 z2)) go_zklog_Proof_IsValid =
    Some (nn nl log_names && log_valid gis_id q A B C z1 z2).
Proof. exact (@zklog_IsValid). Qed.
Print Assumptions C10_gen_zklog_IsValid.

Theorem C10_gen_zklog_Verify :
  forall (G : Type) (gadd : G -> G -> G) (smul : Z -> G -> G) (geqb : G -> G -> bool)
      (gis_id : G -> bool) (gbase : G) (q : Z) (H X Y A B C : G) (z1 z2 e : Z),
    geval (alookup (env_log_verify gadd smul geqb gis_id gbase q H X Y A B C z1 z2 e))
      go_zklog_Proof_Verify = log_verify gadd smul geqb gis_id gbase q H X Y A B C z1 z2 e.
Proof. exact (@zklog_Verify). Qed.
Print Assumptions C10_gen_zklog_Verify.

Theorem C10_gen_zkelog_IsValid :
  forall (G : Type) (gis_id : G -> bool) (q : Z) (nl : nilmap) (A Np B : G) (z u : Z),
    geval (alookup (env_elog_valid gis_id q nl A Np B z u)) go_zkelog_Proof_IsValid =
    Some (nn nl elog_names && elog_valid gis_id q A Np B z u).
Proof. exact (@zkelog_IsValid). Qed.
Print Assumptions C10_gen_zkelog_IsValid.

Theorem C10_gen_zkelog_Verify :
  forall (G : Type) (gadd : G -> G -> G) (smul : Z -> G -> G) (geqb : G -> G -> bool)
      (gis_id : G -> bool) (gbase : G) (q : Z) (L M X H Y A Np B : G) (z u e : Z),
    geval (alookup (env_elog_verify gadd smul geqb gis_id gbase q L M X H Y A Np B z u e))
      go_zkelog_Proof_Verify = elog_verify gadd smul geqb gis_id gbase q L M X H Y A Np B z u e.
Proof. exact (@zkelog_Verify). Qed.
Print Assumptions C10_gen_zkelog_Verify.

Theorem C10_gen_zknth_IsValid :
  forall (nl : nilmap) (n A z : Z),
    geval (alookup (env_nth_valid nl n A z)) go_zknth_Proof_IsValid =
    Some (nn nl nth_names && nth_valid n A z).
Proof. exact (@zknth_IsValid). Qed.
Print Assumptions C10_gen_zknth_IsValid.

Theorem C10_gen_zknth_Verify :
  forall n R A z e : Z,
    geval (alookup (env_nth_verify n R A z e)) go_zknth_Proof_Verify = nth_verify n R A z e.
Proof. exact (@zknth_Verify). Qed.
Print Assumptions C10_gen_zknth_Verify.

Theorem C10_gen_zkenc_IsValid :
  forall (nl : nilmap) (nh n0 S A C z2 : Z),
    geval (alookup (env_enc_valid nl nh n0 S A C z2)) go_zkenc_Proof_IsValid =
    Some (nn nl enc_names && enc_valid nh n0 S A C z2).
Proof. exact (@zkenc_IsValid). Qed.
Print Assumptions C10_gen_zkenc_IsValid.

Theorem C10_gen_zkenc_Verify :
  forall nh s t n0 K S A C z1 z2 z3 e : Z,
    geval (alookup (env_enc_verify nh s t n0 K S A C z1 z2 z3 e)) go_zkenc_Proof_Verify =
    enc_verify nh s t n0 K S A C z1 z2 z3 e.
Proof. exact (@zkenc_Verify). Qed.
Print Assumptions C10_gen_zkenc_Verify.

Theorem C10_gen_zklogstar_IsValid :
  forall (G : Type) (gis_id : G -> bool) (nl : nilmap) (nh n0 S A : Z) (Y : G) (D z2 : Z),
    geval (alookup (env_logstar_valid gis_id nl nh n0 S A Y D z2)) go_zklogstar_Proof_IsValid =
    Some (nn nl logstar_names && logstar_valid gis_id nh n0 S A Y D z2).
Proof. exact (@zklogstar_IsValid). Qed.
Print Assumptions C10_gen_zklogstar_IsValid.

Theorem C10_gen_zklogstar_Verify :
  forall (G : Type) (gadd : G -> G -> G) (smul : Z -> G -> G) (geqb : G -> G -> bool)
      (gis_id : G -> bool) (q nh s t n0 C : Z) (X Gb : G) (S A : Z) (Y : G) (D z1 z2 z3 e : Z),
    geval (alookup (env_logstar_verify gadd smul geqb gis_id q nh s t n0 C X Gb S A Y D z1 z2 z3 e))
      go_zklogstar_Proof_Verify =
    logstar_verify gadd smul geqb gis_id q nh s t n0 C X Gb S A Y D z1 z2 z3 e.
Proof. exact (@zklogstar_Verify). Qed.
Print Assumptions C10_gen_zklogstar_Verify.

Theorem C10_gen_zkdec_IsValid :
  forall (q : Z) (nl : nilmap) (nh n0 S T A Gamma w : Z),
    geval (alookup (env_dec_valid q nl nh n0 S T A Gamma w)) go_zkdec_Proof_IsValid =
    Some (nn nl dec_names && dec_valid q nh n0 S T A Gamma w).
Proof. exact (@zkdec_IsValid). Qed.
Print Assumptions C10_gen_zkdec_IsValid.

Theorem C10_gen_zkdec_Verify :
  forall q nh s t n0 C X S T A Gamma z1 z2 w e : Z,
    geval (alookup (env_dec_verify q nh s t n0 C X S T A Gamma z1 z2 w e)) go_zkdec_Proof_Verify =
    dec_verify q nh s t n0 C X S T A Gamma z1 z2 w e.
Proof. exact (@zkdec_Verify). Qed.
Print Assumptions C10_gen_zkdec_Verify.

Theorem C10_gen_zkmul_IsValid :
  forall (nl : nilmap) (n A B u v : Z),
    geval (alookup (env_mul_valid nl n A B u v)) go_zkmul_Proof_IsValid =
    Some (nn nl mul_names && mul_valid n A B u v).
Proof. exact (@zkmul_IsValid). Qed.
Print Assumptions C10_gen_zkmul_IsValid.

Theorem C10_gen_zkmul_Verify :
  forall n X Y C A B z u v e : Z,
    geval (alookup (env_mul_verify n X Y C A B z u v e)) go_zkmul_Proof_Verify =
    mul_verify n X Y C A B z u v e.
Proof. exact (@zkmul_Verify). Qed.
Print Assumptions C10_gen_zkmul_Verify.

Theorem C10_gen_zkaffg_IsValid :
  forall (G : Type) (gis_id : G -> bool) (nl : nilmap) (nh n1 n0 A : Z) (Bx : G) (By E S F T w wy : Z),
    geval (alookup (env_affg_valid gis_id nl nh n1 n0 A Bx By E S F T w wy)) go_zkaffg_Proof_IsValid =
    Some (nn nl affg_names && affg_valid gis_id nh n1 n0 A Bx By E S F T w wy).
Proof. exact (@zkaffg_IsValid). Qed.
Print Assumptions C10_gen_zkaffg_IsValid.

Theorem C10_gen_zkaffg_Verify :
  forall (G : Type) (gadd : G -> G -> G) (smul : Z -> G -> G) (geqb : G -> G -> bool)
      (gis_id : G -> bool) (gbase : G) (q nh s t n1 n0 Kv Dv Fp : Z) (Xp : G) 
      (A : Z) (Bx : G) (By E S F T z1 z2 z3 z4 w wy e : Z),
    geval
      (alookup
         (env_affg_verify gadd smul geqb gis_id gbase q nh s t n1 n0 Kv Dv Fp Xp A Bx By E S F T z1 z2 z3
            z4 w wy e)) go_zkaffg_Proof_Verify =
    affg_verify gadd smul geqb gis_id gbase q nh s t n1 n0 Kv Dv Fp Xp A Bx By E S F T z1 z2 z3 z4 w wy e.
Proof. exact (@zkaffg_Verify). Qed.
Print Assumptions C10_gen_zkaffg_Verify.

Theorem C10_gen_zkaffp_IsValid :
  forall (nl : nilmap) (nh n1 n0 A Bx By E S F T w wx wy : Z),
    geval (alookup (env_affp_valid nl nh n1 n0 A Bx By E S F T w wx wy)) go_zkaffp_Proof_IsValid =
    Some (nn nl affp_names && affp_valid nh n1 n0 A Bx By E S F T w wx wy).
Proof. exact (@zkaffp_IsValid). Qed.
Print Assumptions C10_gen_zkaffp_IsValid.

Theorem C10_gen_zkaffp_Verify :
  forall nh s t n1 n0 Kv Dv Fp Xp A Bx By E S F T z1 z2 z3 z4 w wx wy e : Z,
    geval (alookup (env_affp_verify nh s t n1 n0 Kv Dv Fp Xp A Bx By E S F T z1 z2 z3 z4 w wx wy e))
      go_zkaffp_Proof_Verify = affp_verify nh s t n1 n0 Kv Dv Fp Xp A Bx By E S F T z1 z2 z3 z4 w wx wy e.
Proof. exact (@zkaffp_Verify). Qed.
Print Assumptions C10_gen_zkaffp_Verify.

Theorem C10_gen_zkmulstar_IsValid :
  forall (G : Type) (gis_id : G -> bool) (nl : nilmap) (nh n0 A : Z) (Bx : G) (E S w : Z),
    geval (alookup (env_mulstar_valid gis_id nl nh n0 A Bx E S w)) go_zkmulstar_Proof_IsValid =
    Some (nn nl mulstar_names && mulstar_valid gis_id nh n0 A Bx E S w).
Proof. exact (@zkmulstar_IsValid). Qed.
Print Assumptions C10_gen_zkmulstar_IsValid.

Theorem C10_gen_zkmulstar_Verify :
  forall (G : Type) (gadd : G -> G -> G) (smul : Z -> G -> G) (geqb : G -> G -> bool)
      (gis_id : G -> bool) (gbase : G) (q nh s t n0 C D : Z) (X : G) (A : Z) (Bx : G) 
      (E S z1 z2 w e : Z),
    geval (alookup (env_mulstar_verify gadd smul geqb gis_id gbase q nh s t n0 C D X A Bx E S z1 z2 w e))
      go_zkmulstar_Proof_Verify =
    mulstar_verify gadd smul geqb gis_id gbase q nh s t n0 C D X A Bx E S z1 z2 w e.
Proof. exact (@zkmulstar_Verify). Qed.
Print Assumptions C10_gen_zkmulstar_Verify.

Theorem C10_gen_zkencelg_IsValid :
  forall (G : Type) (gis_id : G -> bool) (q : Z) (nl : nilmap) (nh n0 S D : Z) (Y Zp : G) (T w z2 : Z),
    geval (alookup (env_encelg_valid gis_id q nl nh n0 S D Y Zp T w z2)) go_zkencelg_Proof_IsValid =
    Some (nn nl encelg_names && encelg_valid gis_id q nh n0 S D Y Zp T w z2).
Proof. exact (@zkencelg_IsValid). Qed.
Print Assumptions C10_gen_zkencelg_IsValid.

Theorem C10_gen_zkencelg_Verify :
  forall (G : Type) (gadd : G -> G -> G) (smul : Z -> G -> G) (geqb : G -> G -> bool)
      (gis_id : G -> bool) (gbase : G) (q nh s t n0 C : Z) (A B X : G) (S D : Z) 
      (Y Zp : G) (T z1 w z2 z3 e : Z),
    geval
      (alookup (env_encelg_verify gadd smul geqb gis_id gbase q nh s t n0 C A B X S D Y Zp T z1 w z2 z3 e))
      go_zkencelg_Proof_Verify =
    encelg_verify gadd smul geqb gis_id gbase q nh s t n0 C A B X S D Y Zp T z1 w z2 z3 e.
Proof. exact (@zkencelg_Verify). Qed.
Print Assumptions C10_gen_zkencelg_Verify.

Theorem C10_gen_zkfac_Verify :
  forall n0 nh s t P Q A B T sigma z1 z2 w1 w2 v e : Z,
    geval (alookup (env_fac_verify n0 nh s t P Q A B T sigma z1 z2 w1 w2 v e)) go_zkfac_Proof_Verify =
    fac_verify n0 nh s t P Q A B T sigma z1 z2 w1 w2 v e.
Proof. exact (@zkfac_Verify). Qed.
Print Assumptions C10_gen_zkfac_Verify.

Theorem C10_gen_zkprm_IsValid :
  forall (nl : nilmap) (n : Z) (As Zs : list Z),
    geval (alookup (env_prm_valid nl n As Zs)) go_zkprm_Proof_IsValid =
    Some (nn nl prm_names && prm_valid n As Zs).
Proof. exact (@zkprm_IsValid). Qed.
Print Assumptions C10_gen_zkprm_IsValid.

Theorem C10_gen_zkprm_Verify :
  forall (n s t : Z) (As Zs : list Z) (es : list bool),
    Datatypes.length As = Datatypes.length Zs ->
    Datatypes.length Zs = Datatypes.length es ->
    geval (alookup (env_prm_verify n s t As Zs es)) go_zkprm_Proof_Verify = prm_verify n s t As Zs es.
Proof. exact (@zkprm_Verify). Qed.
Print Assumptions C10_gen_zkprm_Verify.

Theorem C10_gen_prm_rounds_existsb :
  forall (n s t : Z) (As Zs : list Z) (es : list bool),
    Datatypes.length As = Datatypes.length Zs ->
    Datatypes.length Zs = Datatypes.length es ->
    existsb (fun aze : Z * Z * bool => negb (prm_round n s t aze)) (combine (combine As Zs) es) =
    negb (prm_rounds n s t As Zs es).
Proof. exact (@prm_rounds_existsb). Qed.
Print Assumptions C10_gen_prm_rounds_existsb.

Theorem C10_gen_zkmod_IsValid :
  forall (nl : nilmap) (n w : Z) (rs : list (bool * bool * Z * Z)),
    geval (alookup (env_mod_valid nl n w rs)) go_zkmod_Proof_IsValid =
    Some (nn nl mod_names && mod_valid n w rs).
Proof. exact (@zkmod_IsValid). Qed.
Print Assumptions C10_gen_zkmod_IsValid.

Theorem C10_gen_zkmod_Verify :
  forall (n w : Z) (rs : list (bool * bool * Z * Z)) (ys : list Z),
    Datatypes.length ys = Datatypes.length rs ->
    geval (alookup (env_mod_verify n w rs ys)) go_zkmod_Proof_Verify = mod_verify n w rs ys.
Proof. exact (@zkmod_Verify). Qed.
Print Assumptions C10_gen_zkmod_Verify.

Theorem C10_gen_zkmod_Response_Verify :
  forall (n w y : Z) (r : bool * bool * Z * Z),
    geval (alookup (env_mod_response n w y r)) go_zkmod_Response_Verify = Some (mod_response n w y r).
Proof. exact (@zkmod_Response_Verify). Qed.
Print Assumptions C10_gen_zkmod_Response_Verify.

Theorem C10_gen_mod_rounds_existsb :
  forall (n w : Z) (ys : list Z) (rs : list (bool * bool * Z * Z)),
    Datatypes.length ys = Datatypes.length rs ->
    existsb (fun yr : Z * (bool * bool * Z * Z) => negb (mod_response n w (fst yr) (snd yr)))
      (combine ys rs) = negb (mod_rounds n w ys rs).
Proof. exact (@mod_rounds_existsb). Qed.
Print Assumptions C10_gen_mod_rounds_existsb.

Theorem C10_gen_zk_traces_ok :
  Forall (fun p : string * list string * list string => snd (fst p) = snd p) zk_trace_pairs.
Proof. exact (@zk_traces_ok). Qed.
Print Assumptions C10_gen_zk_traces_ok.

Theorem C10_gen_zk_trace_pairs_complete :
  map fst (filter (fun p : string * list string => is_zk (fst p) && has_step (snd p)) go_zkguard_traces) =
    map (fun p : string * list string * list string => fst (fst p)) zk_trace_pairs.
Proof. exact (@zk_trace_pairs_complete). Qed.
Print Assumptions C10_gen_zk_trace_pairs_complete.

(* ---------------------------------------------------------------- non-vacuity *)

(* a genuine nth proof (N = 15, rho = 2, alpha = 4, e = 3): valid, accepted by the translated Verify and by the model; a nil
   field or an out-of-range response is refused *)
Example C10_gen_ex_nth :
  geval (alookup (env_nth_valid no_nil 15 199 2)) go_zknth_Proof_IsValid = Some true /\
  geval (alookup (env_nth_valid (fun s => String.eqb s "p.A") 15 199 2)) go_zknth_Proof_IsValid = Some false /\
  geval (alookup (env_nth_valid (fun s => String.eqb s "public.N") 15 199 2)) go_zknth_Proof_IsValid = Some false /\
  geval (alookup (env_nth_valid no_nil 15 199 17)) go_zknth_Proof_IsValid = Some false /\
  geval (alookup (env_nth_verify 15 143 199 2 3)) go_zknth_Proof_Verify = Some true /\
  nth_verify 15 143 199 2 3 = Some true /\
  geval (alookup (env_nth_verify 15 143 199 2 4)) go_zknth_Proof_Verify = Some false.
Proof. repeat split; vm_compute; reflexivity. Qed.

(* the table look-up is not vacuous: a transcript that writes commitment.Bx twice (in place of By) collects a different list *)
Example C10_gen_ex_affp_bx_twice :
  collect (tbl_affp 1 2 3 4 5 6 7 8 9 10 11 12 13 14 15 16)
    (map (fun w => if String.eqb w "hash <- commitment.By" then "hash <- commitment.Bx" else w) go_zkaffp_challenge_writes)
  <> Some (affp_fields 1 2 3 4 5 6 7 8 9 10 11 12 13 14 15 16).
Proof. vm_compute. discriminate. Qed.

(* a verifier that range-checks Z1 twice and never Z2 accepts what the model refuses *)
Example C10_gen_ex_mutant_z1_twice :
  let env := env_affg_verify (G := unit) (fun _ _ => tt) (fun _ _ => tt) (fun _ _ => true) (fun _ => false) tt 7
               1 1 1 1 1 1 1 1 tt 1 tt 1 1 1 1 1 0 (2 ^ 1792) 0 0 1 1 0 in
  geval (alookup env) (GAnd (GAtom "arith.IsInIntervalLEps(p.Z1)") (GAtom "arith.IsInIntervalLEps(p.Z1)")) = Some true /\
  geval (alookup env) (GAnd (GAtom "arith.IsInIntervalLEps(p.Z1)") (GAtom "arith.IsInIntervalLPrimeEps(p.Z2)")) = Some false.
Proof. split; vm_compute; reflexivity. Qed.

(* moving the nil test of p.Bx behind its use makes the evaluation undefined *)
Example C10_gen_ex_nil_after_use :
  geval (alookup (env_affg_valid (G := unit) (fun _ => false) (fun s => String.eqb s "p.Bx") 1 1 1 1 tt 1 1 1 1 1 1 1))
        (GNot (GOr (GAtom "p.Bx.IsIdentity()") (GAtom "curve.IsNilPoint(p.Bx)"))) = None /\
  geval (alookup (env_affg_valid (G := unit) (fun _ => false) (fun s => String.eqb s "p.Bx") 1 1 1 1 tt 1 1 1 1 1 1 1))
        (GNot (GOr (GAtom "curve.IsNilPoint(p.Bx)") (GAtom "p.Bx.IsIdentity()"))) = Some false.
Proof. split; vm_compute; reflexivity. Qed.
