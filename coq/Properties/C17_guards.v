(* C17 (tie to the source): the guard of Stop of both handlers, translated from /repo on every run (Generated/Guards.v),
   is "already finished or aborted" -- the [fixed = true] reading of the model's stop.  The inverted guard of the pinned
   commit (`h.err == nil && h.result == nil`... i.e. acting only when finished) would make these theorems fail.
   Also: both guards (Stop, Accept) are the first test after taking the lock, and Stop does nothing but abort after it. *)
From Coq Require Import String List Bool Arith NArith ZArith.
From MPS Require Import Model.Handler Model.TwoParty Generated.Guards Proofs.GuardsBase Proofs.GuardsStopProofs.
Import ListNotations.
Local Open Scope string_scope.
Local Open Scope nat_scope.
Local Open Scope list_scope.

Theorem C17_guards_stop_translated : translated ["MultiHandler_Stop_guard"; "TwoPartyHandler_Stop_guard"] = true.
Proof. exact guards_stop_translated. Qed.
Print Assumptions C17_guards_stop_translated.

Theorem C17_guards_stop_lets : go_MultiHandler_Stop_guard_lets = [] /\ go_TwoPartyHandler_Stop_guard_lets = [].
Proof. exact guards_stop_lets_ok. Qed.
Print Assumptions C17_guards_stop_lets.

Theorem C17_guards_mh_stop_guard : forall s om,
  geval (alookup (env_mh s om)) go_MultiHandler_Stop_guard = Some (terminal s).
Proof. exact mh_stop_guard. Qed.
Print Assumptions C17_guards_mh_stop_guard.

Theorem C17_guards_mh_stop_early_return : forall s om,
  geval (alookup (env_mh s om)) go_MultiHandler_Stop_guard = Some true -> stop true s = s.
Proof. exact mh_stop_guard_early_return. Qed.
Print Assumptions C17_guards_mh_stop_early_return.

Theorem C17_guards_mh_stop_acts : forall s om,
  geval (alookup (env_mh s om)) go_MultiHandler_Stop_guard = Some false -> h_rt s = Running ->
  stop true s = abort s (Some ([h_self s], EUser)).
Proof. exact mh_stop_guard_acts. Qed.
Print Assumptions C17_guards_mh_stop_acts.

Theorem C17_guards_tp_stop_guard : forall s om,
  geval (alookup (env_tp s om)) go_TwoPartyHandler_Stop_guard = Some (tp_terminal s).
Proof. exact tp_stop_guard. Qed.
Print Assumptions C17_guards_tp_stop_guard.

Theorem C17_guards_tp_stop_early_return : forall s om,
  geval (alookup (env_tp s om)) go_TwoPartyHandler_Stop_guard = Some true -> tp_stop true s = s.
Proof. exact tp_stop_guard_early_return. Qed.
Print Assumptions C17_guards_tp_stop_early_return.

Theorem C17_guards_tp_stop_acts : forall s om,
  geval (alookup (env_tp s om)) go_TwoPartyHandler_Stop_guard = Some false -> t_rt s = Running ->
  tp_stop true s = tp_abort s (Some TEUser).
Proof. exact tp_stop_guard_acts. Qed.
Print Assumptions C17_guards_tp_stop_acts.

Theorem C17_guards_preambles :
  go_MultiHandler_Accept_guard_preamble = ["h.mtx.Lock()"; "defer h.mtx.Unlock()"; "defer h.recoverToAbort()"] /\
  go_MultiHandler_Stop_guard_preamble = ["h.mtx.Lock()"; "defer h.mtx.Unlock()"] /\
  go_TwoPartyHandler_Accept_guard_preamble = ["h.mtx.Lock()"; "defer h.mtx.Unlock()"; "defer func() {...}()"] /\
  go_TwoPartyHandler_Stop_guard_preamble = ["h.mtx.Lock()"; "defer h.mtx.Unlock()"].
Proof. exact guards_preambles_ok. Qed.
Print Assumptions C17_guards_preambles.

Theorem C17_guards_stop_rest :
  go_MultiHandler_Stop_guard_rest = ["h.abort(errors.New(""aborted by user""), h.currentRound.SelfID())"] /\
  go_TwoPartyHandler_Stop_guard_rest = ["h.abort(errors.New(""aborted by user""))"].
Proof. exact guards_stop_rest_ok. Qed.
Print Assumptions C17_guards_stop_rest.

(* non-vacuity: a running handler is stopped, a finished one is left alone; the inverted guard is refuted *)
Definition ex_run : hstate := mkH 0 3 7 9 (mkShape 3 (fun _ => false) (fun _ => NoP2P)) 2 [2; 1] [] [] [] None false [] 0 0 Running.
Definition ex_done : hstate := mkH 0 3 7 9 (mkShape 3 (fun _ => false) (fun _ => NoP2P)) 0 [0; 3; 2; 1] [] [] [] None true [] 0 1 Running.
Example C17_guards_ex_stop :
  geval (alookup (env_mh ex_run None)) go_MultiHandler_Stop_guard = Some false /\
  geval (alookup (env_mh ex_done None)) go_MultiHandler_Stop_guard = Some true /\
  h_err (stop true ex_run) = Some ([0], EUser) /\ stop true ex_done = ex_done.
Proof. repeat split; vm_compute; reflexivity. Qed.
Example C17_guards_mutant_inverted :
  geval (alookup (env_mh ex_run None)) (GAnd (GNot (GAtom "h.err != nil")) (GNot (GAtom "h.result != nil")))
  <> Some (terminal ex_run).
Proof. vm_compute. discriminate. Qed.
