(* C02 -- Key generation yields one consistent, reconstructible sharing (algebra).
   Only statements, each closed by [exact] of a lemma proved in Proofs/FieldPoly.v or Proofs/Sharing.v, followed by
   Print Assumptions (after the section, where the field/module parameters are universally quantified), plus
   Examples in Z_101 showing that the hypotheses are satisfiable.
   Model of the code: Polynomial.Evaluate = [peval] (Horner), Exponent.Evaluate = [eeval] on the (IsConstant, coefficients)
   representation, NewPolynomialExponent = [eofpoly], polynomial.Sum = [esum], lagrange.go = [lagrange]. *)
From Coq Require Import List Arith Lia Field Permutation Bool ZArith Znumtheory.
From MPS Require Import Model.Poly Proofs.FieldPoly Proofs.Sharing.
Import ListNotations.

Section Abstract.
(* the scalars: an arbitrary field with decidable equality; the group: an arbitrary module over it with a base point *)
Variable F : Type.
Variables (f0 f1 : F) (fadd fmul fsub : F -> F -> F) (fopp : F -> F) (fdiv : F -> F -> F) (finv : F -> F).
Hypothesis FT : field_theory f0 f1 fadd fmul fsub fopp fdiv finv eq.
Hypothesis Feq_dec : forall a b : F, {a = b} + {a <> b}.
Variable G : Type.
Variables (gadd : G -> G -> G) (gzero : G) (gopp : G -> G) (smul : F -> G -> G).
Hypothesis ML : module_laws f1 fadd fmul gadd gzero gopp smul.
Variable g : G.

Notation "0" := f0 : F_scope.
Notation "1" := f1 : F_scope.
Notation "a + b" := (fadd a b) : F_scope.
Notation "a * b" := (fmul a b) : F_scope.
Notation "a - b" := (fsub a b) : F_scope.
Notation "- a" := (fopp a) : F_scope.
Local Open Scope F_scope.
Notation peval := (FieldPoly.peval F f0 fadd fmul).
Notation fsum := (FieldPoly.fsum F f0 fadd).
Notation psum := (FieldPoly.psum F fadd).
Notation lagrange := (FieldPoly.lagrange F f1 fmul fsub finv Feq_dec).
Notation basis_at := (FieldPoly.basis_at F f1 fmul fsub fdiv Feq_dec).
Notation gsum := (FieldPoly.gsum G gadd gzero).
Notation act := (FieldPoly.act F G smul g).
Notation erep := (FieldPoly.erep G).
Notation eeval := (FieldPoly.eeval F G gadd gzero smul).
Notation efull := (FieldPoly.efull G gzero).
Notation econst := (FieldPoly.econst G gzero).
Notation eofpoly := (FieldPoly.eofpoly F f0 Feq_dec G smul g).
Notation esum := (FieldPoly.esum G gadd).
Notation dealt_share := (Sharing.dealt_share F f0 fadd fmul).
Notation Phi := (Sharing.Phi F G gadd gzero smul).
Notation code_table := (Sharing.code_table F G gadd gzero smul).
Notation sum_constants := (Sharing.sum_constants G gadd gzero).
Notation sstate := (Sharing.sstate F G).
Notation GoodSharing := (Sharing.GoodSharing F f0 f1 fadd fmul fsub finv Feq_dec G smul g).
Notation g_faithful := (Sharing.g_faithful F f0 G gzero smul g).
Notation keygen_state := (Sharing.keygen_state F f0 fadd fmul Feq_dec G gadd gzero smul g).
Notation neg_state := (Sharing.neg_state F fopp G gopp).
Notation refresh_state := (Sharing.refresh_state F f0 fadd fmul Feq_dec G gadd gzero smul g).
Notation derive_state := (Sharing.derive_state F fadd G gadd smul g).
Notation op := (Sharing.op F).
Notation step := (Sharing.step F f0 fadd fmul fopp Feq_dec G gadd gzero gopp smul g).
Notation key_step := (Sharing.key_step F fadd fopp).
Notation op_ok := (Sharing.op_ok F f0).
Notation run := (Sharing.run F f0 fadd fmul fopp Feq_dec G gadd gzero gopp smul g).
Notation key_run := (Sharing.key_run F fadd fopp).
Notation frost_share_check := (Sharing.frost_share_check F G gadd smul g).
Notation cmp_round3_shape_ok := (Sharing.cmp_round3_shape_ok G).

(* ---- polynomial algebra the rest stands on ---- *)
Theorem C02_root_counting : forall roots f,
  NoDup roots -> (length f <= length roots)%nat ->
  (forall r, In r roots -> peval f r = 0) -> Forall (fun a => a = 0) f.
Proof. exact (root_counting FT Feq_dec). Qed.

(* the code's numerator/denominator expression is the textbook Lagrange basis polynomial at 0 *)
Theorem C02_lagrange_code_formula : forall xs xj,
  NoDup xs -> ~ In 0 xs -> In xj xs -> lagrange xs xj = basis_at xs xj 0.
Proof. exact (lagrange_code_formula FT Feq_dec). Qed.

Theorem C02_lagrange_interp : forall xs f,
  NoDup xs -> ~ In 0 xs -> (length f <= length xs)%nat ->
  fsum (map (fun xj => lagrange xs xj * peval f xj) xs) = peval f 0.
Proof. exact (lagrange_interp FT Feq_dec). Qed.

Theorem C02_sum_lagrange_eq_1 : forall xs,
  NoDup xs -> ~ In 0 xs -> xs <> [] -> fsum (map (lagrange xs) xs) = 1.
Proof. exact (sum_lagrange_eq_1 FT Feq_dec). Qed.

(* Exponent.Evaluate agrees with Polynomial.Evaluate, with and without the IsConstant representation *)
Theorem C02_exponent_eval : forall f x, eeval (eofpoly f) x = act (peval f x).
Proof. exact (eeval_eofpoly FT Feq_dec ML g). Qed.

(* interpolation in the exponent, for ANY exponent polynomial (either representation) of length <= |xs| *)
Theorem C02_lagrange_interp_exponent : forall xs (e : erep),
  NoDup xs -> ~ In 0 xs -> (length (efull e) <= length xs)%nat ->
  gsum (map (fun xj => smul (lagrange xs xj) (eeval e xj)) xs) = econst e.
Proof. exact (lagrange_interp_erep FT Feq_dec ML). Qed.

(* polynomial.Sum: when it succeeds all summands have its shape and it evaluates to the sum of evaluations *)
Theorem C02_sum_spec : forall es s, esum es = Some s ->
  Forall (fun e => fst e = fst s /\ length (snd e) = length (snd s)) es /\
  forall x, eeval s x = gsum (map (fun e => eeval e x) es).
Proof. exact (esum_spec ML). Qed.
(* ... and it does succeed for honest dealers (equal degree, constants all non-zero or all zero) *)
Theorem C02_sum_succeeds : forall f fs (z : bool),
  f <> [] -> Forall (fun f' => length f' = length f) fs ->
  Forall (fun f' => (if Feq_dec (hd 0 f') 0 then true else false) = z) (f :: fs) ->
  exists s, esum (map eofpoly (f :: fs)) = Some s.
Proof. exact (honest_sum_succeeds Feq_dec g). Qed.

(* ---- the keygen relations ---- *)
(* s_i . g = X_i, with the table computed as sum of evaluations ... *)
Theorem C02_share_matches_table : forall fs x, act (dealt_share fs x) = Phi (map eofpoly fs) x.
Proof. exact (share_matches_table FT Feq_dec ML g). Qed.
(* ... and as the code computes it (Sum, then Evaluate) *)
Theorem C02_share_matches_code_table : forall fs x T,
  code_table (map eofpoly fs) x = Some T -> act (dealt_share fs x) = T.
Proof. exact (share_matches_code_table FT Feq_dec ML g). Qed.

(* every set S of >= t+1 distinct non-zero party scalars reconstructs the key from the shares and, in the
   exponent, from the table *)
Theorem C02_every_subset_reconstructs : forall S t fs,
  NoDup S -> ~ In 0 S -> Forall (fun f => (length f <= t + 1)%nat) fs -> (t + 1 <= length S)%nat ->
  fsum (map (fun x => lagrange S x * dealt_share fs x) S) = fsum (map (hd 0) fs) /\
  gsum (map (fun x => smul (lagrange S x) (Phi (map eofpoly fs) x)) S) = act (fsum (map (hd 0) fs)).
Proof.
  exact (fun S t fs h1 h2 h3 h4 =>
           conj (subset_reconstructs_share FT Feq_dec S t fs h1 h2 h3 h4)
                (subset_reconstructs_table FT Feq_dec ML g S t fs h1 h2 h3 h4)).
Qed.
(* the same in the exponent for arbitrary (cheating) dealers' polynomials of degree <= t *)
Theorem C02_every_subset_reconstructs_any_dealer : forall S t es,
  NoDup S -> ~ In 0 S -> Forall (fun e => (length (efull e) <= t + 1)%nat) es -> (t + 1 <= length S)%nat ->
  gsum (map (fun x => smul (lagrange S x) (Phi es x)) S) = sum_constants es.
Proof. exact (subset_reconstructs_table_any FT Feq_dec ML). Qed.

(* frost: PublicKey = sum_j F_j.Constant() is (sum_j f_j(0)) . g *)
Theorem C02_frost_public_key : forall fs, sum_constants (map eofpoly fs) = act (fsum (map (hd 0) fs)).
Proof. exact (sum_constants_eofpoly FT Feq_dec ML g). Qed.

(* honest keygen establishes the invariant *)
Theorem C02_keygen_good : forall xs t fs,
  NoDup xs -> ~ In 0 xs -> (t < length xs)%nat -> Forall (fun f => (length f <= t + 1)%nat) fs ->
  GoodSharing (fsum (map (hd 0) fs)) (keygen_state xs t fs).
Proof. exact (keygen_good FT Feq_dec ML g). Qed.

(* cmp: Config.PublicPoint interpolates ALL n table entries; for a good sharing that is the key (needs only t < n) *)
Theorem C02_cmp_public_point : forall sk st,
  GoodSharing sk st ->
  gsum (map (fun x => smul (lagrange (st_xs st) x) (st_tb st x)) (st_xs st)) = st_pk st.
Proof. exact (cmp_public_point FT Feq_dec ML g). Qed.
Theorem C02_good_table_reconstructs : forall sk st S,
  GoodSharing sk st -> NoDup S -> incl S (st_xs st) -> (st_t st + 1 <= length S)%nat ->
  gsum (map (fun x => smul (lagrange S x) (st_tb st x)) S) = st_pk st.
Proof. exact (good_table_reconstructs FT Feq_dec ML g). Qed.

(* equal broadcast views (in any order: the code ranges over a Go map) give equal tables and keys *)
Theorem C02_table_is_function_of_broadcasts : forall es es' s s',
  Permutation es es' -> esum es = Some s -> esum es' = Some s' ->
  (forall x, eeval s x = eeval s' x) /\ sum_constants es = sum_constants es'.
Proof. exact (table_is_function_of_broadcasts ML). Qed.

(* Feldman check: share_j . g = F_j(x) for all j  =>  the summed share matches the table, whatever the F_j *)
Theorem C02_vss_check_sound : forall es us x,
  Forall2 (fun u e => act u = eeval e x) us es -> act (fsum us) = Phi es x.
Proof. exact (vss_check_sound FT ML g). Qed.
(* hence keygen with cheating dealers passing all checks still yields a good sharing *)
Theorem C02_vss_keygen_adversarial_good : forall xs t es (us : F -> list F) sk,
  g_faithful ->
  NoDup xs -> ~ In 0 xs -> (t < length xs)%nat ->
  Forall (fun e => (length (efull e) <= t + 1)%nat) es ->
  (forall x, In x xs -> Forall2 (fun u e => act u = eeval e x) (us x) es) ->
  act sk = sum_constants es ->
  GoodSharing sk (mkSt xs t (fun x => fsum (us x)) (Phi es) (sum_constants es)).
Proof. exact (keygen_adversarial_good FT Feq_dec ML g). Qed.

(* the degree / constant-kind checks of cmp round3 accept exactly the right shape *)
Theorem C02_cmp_round3_accepts_iff : forall own_zero t (e : erep),
  cmp_round3_shape_ok own_zero t e = true <-> fst e = own_zero /\ length (efull e) = S t.
Proof. exact (cmp_round3_accepts_iff (G:=G) (gzero:=gzero)). Qed.

(* Doerner: what the two parties hold is an ADDITIVE sharing: Public = (s_R + s_S) . g, the refresh scalars cancel *)
Theorem C02_doerner_keygen_consistent : forall sR sS rR rS,
  let sR' := sR + rR - rS in
  let sS' := sS + rS - rR in
  let pubR := gadd (act sR) (act sS) in
  let pubS := gadd (act sS) (act sR) in
  pubR = pubS /\ act (sR' + sS') = pubR.
Proof. exact (doerner_keygen_consistent FT ML g). Qed.

(* Taproot: negating every share and every table entry gives a good sharing of -sk *)
Theorem C02_taproot_negation : forall sk st, GoodSharing sk st -> GoodSharing (- sk) (neg_state st).
Proof. exact (taproot_negation_good FT Feq_dec ML g). Qed.

End Abstract.

Print Assumptions C02_root_counting.
Print Assumptions C02_lagrange_code_formula.
Print Assumptions C02_lagrange_interp.
Print Assumptions C02_sum_lagrange_eq_1.
Print Assumptions C02_exponent_eval.
Print Assumptions C02_lagrange_interp_exponent.
Print Assumptions C02_sum_spec.
Print Assumptions C02_sum_succeeds.
Print Assumptions C02_share_matches_table.
Print Assumptions C02_share_matches_code_table.
Print Assumptions C02_every_subset_reconstructs.
Print Assumptions C02_every_subset_reconstructs_any_dealer.
Print Assumptions C02_frost_public_key.
Print Assumptions C02_keygen_good.
Print Assumptions C02_cmp_public_point.
Print Assumptions C02_good_table_reconstructs.
Print Assumptions C02_table_is_function_of_broadcasts.
Print Assumptions C02_vss_check_sound.
Print Assumptions C02_vss_keygen_adversarial_good.
Print Assumptions C02_cmp_round3_accepts_iff.
Print Assumptions C02_doerner_keygen_consistent.
Print Assumptions C02_taproot_negation.

(* ---- the executable model (Model/Poly.v, checked against the Go code) meets the abstract theory ---- *)
(* for every prime modulus the model's interpolation at 0 recovers the constant coefficient exactly *)
Theorem C02_model_interpolation_exact : forall q xs f,
  prime q -> canon q xs -> canon q f -> NoDup xs -> ~ In 0%Z xs -> (length f <= length xs)%nat ->
  interpolate0 q xs (map (horner q f) xs) = poly_constant q f.
Proof. exact prime_interpolate0_exact. Qed.
Print Assumptions C02_model_interpolation_exact.
Theorem C02_model_lagrange_is_abstract : forall q (Hq : (1 < q)%Z) xs xj,
  zval q (FieldPoly.lagrange (Zq q) (zq1 q) (zqmul q) (zqsub q) (zqinv q) (Zq_eq_dec q) xs xj)
  = lagrange_coef q (map (zval q) xs) (zval q xj).
Proof. exact (fun q _ => zval_lagrange q). Qed.
Theorem C02_model_modinv_inverts : forall p, prime p -> inv_ok p.
Proof. exact prime_inv_ok. Qed.
Print Assumptions C02_model_modinv_inverts.

(* the id-keyed (map-based) code of LagrangeFor agrees with the value-keyed function the theorems speak about
   whenever the ids' scalars are pairwise distinct (the quantifier of C02) *)
Theorem C02_model_lagrange_ids_value_keyed : forall q ids j,
  NoDup (map (id_scalar q) ids) -> In j ids ->
  lagrange_ids q ids j = Some (lagrange_coef q (map (id_scalar q) ids) (id_scalar q j)).
Proof. exact lagrange_ids_value_keyed. Qed.
Print Assumptions C02_model_lagrange_ids_value_keyed.
(* outside that domain: ids "a" and "\x00a" have the same scalar and get coefficient 0; an id outside the
   interpolation domain makes LagrangeFor panic (None) *)
Example C02_ex_model_colliding_ids :
  lagrange_ids 101 [[97]; [0; 97]; [98]]%N [97]%N = Some 0%Z /\ lagrange_ids 101 [[97]; [98]]%N [99]%N = None.
Proof. split; vm_compute; reflexivity. Qed.

(* ---- Examples: every theorem above instantiated in Z_101 (F = G = Z_101, g = 1), n = 4, t = 2 ---- *)
Section Examples.
Open Scope Z_scope.
Let xs := map z101 [1; 2; 3; 4].
Let S3 := map z101 [4; 1; 3].
Let fs := [map z101 [5; 7; 9]; map z101 [11; 0; 3]; map z101 [20; 100; 1]].

Example C02_ex_hyps : NoDup xs /\ ~ In (zq0 q101) xs /\ NoDup S3 /\ ~ In (zq0 q101) S3 /\ incl S3 xs /\
  Forall (fun f => (length f <= 2 + 1)%nat) fs.
Proof.
  repeat split; [z101_nodup|z101_notin0|z101_nodup|z101_notin0|z101_incl|repeat constructor].
Qed.

(* C02_every_subset_reconstructs at S = {4,1,3}: the key is 5 + 11 + 20 = 36 *)
Example C02_ex_subset_reconstructs :
  FieldPoly.fsum _ (zq0 q101) (zqadd q101)
    (map (fun x => zqmul q101 (FieldPoly.lagrange _ (zq1 q101) (zqmul q101) (zqsub q101) (zqinv q101) dec101 S3 x)
                              (Sharing.dealt_share _ (zq0 q101) (zqadd q101) (zqmul q101) fs x)) S3)
  = z101 36.
Proof.
  destruct C02_ex_hyps as (_ & _ & H1 & H2 & _ & H3).
  rewrite (proj1 (C02_every_subset_reconstructs _ _ _ _ _ _ _ _ _ FT101 dec101 _ _ _ _ _ ML101 g101
                    S3 2%nat fs H1 H2 H3 (le_n _))).
  z101_eq.
Qed.
(* C02_keygen_good, C02_cmp_public_point, C02_taproot_negation: the hypotheses are satisfiable *)
Example C02_ex_keygen_good :
  Sharing.GoodSharing _ (zq0 q101) (zq1 q101) (zqadd q101) (zqmul q101) (zqsub q101) (zqinv q101) dec101 _ (zqmul q101) g101
    (z101 36)
    (Sharing.keygen_state _ (zq0 q101) (zqadd q101) (zqmul q101) dec101 _ (zqadd q101) (zq0 q101) (zqmul q101) g101 xs 2 fs).
Proof.
  destruct C02_ex_hyps as (H1 & H2 & _ & _ & _ & H3).
  replace (z101 36) with (FieldPoly.fsum _ (zq0 q101) (zqadd q101) (map (hd (zq0 q101)) fs)) by z101_eq.
  apply (C02_keygen_good _ _ _ _ _ _ _ _ _ FT101 dec101 _ _ _ _ _ ML101 g101); [exact H1|exact H2|cbn; lia|exact H3].
Qed.
Example C02_ex_cmp_public_point :
  let st := Sharing.keygen_state _ (zq0 q101) (zqadd q101) (zqmul q101) dec101 _ (zqadd q101) (zq0 q101) (zqmul q101) g101 xs 2 fs in
  FieldPoly.gsum _ (zqadd q101) (zq0 q101)
    (map (fun x => zqmul q101 (FieldPoly.lagrange _ (zq1 q101) (zqmul q101) (zqsub q101) (zqinv q101) dec101 xs x) (st_tb st x)) xs)
  = z101 36.
Proof.
  intros st.
  etransitivity; [exact (C02_cmp_public_point _ _ _ _ _ _ _ _ _ FT101 dec101 _ _ _ _ _ ML101 g101 _ _ C02_ex_keygen_good)|].
  z101_eq.
Qed.
Example C02_ex_taproot_negation :
  Sharing.GoodSharing _ (zq0 q101) (zq1 q101) (zqadd q101) (zqmul q101) (zqsub q101) (zqinv q101) dec101 _ (zqmul q101) g101
    (z101 65)
    (Sharing.neg_state _ (zqopp q101) _ (zqopp q101)
       (Sharing.keygen_state _ (zq0 q101) (zqadd q101) (zqmul q101) dec101 _ (zqadd q101) (zq0 q101) (zqmul q101) g101 xs 2 fs)).
Proof.
  replace (z101 65) with (zqopp q101 (z101 36)) by z101_eq.
  apply (C02_taproot_negation _ _ _ _ _ _ _ _ _ FT101 dec101 _ _ _ _ _ ML101 g101), C02_ex_keygen_good.
Qed.
(* the base point of the instance is faithful (hypothesis of the adversarial theorems) *)
Example C02_ex_faithful : Sharing.g_faithful _ (zq0 q101) _ (zq0 q101) (zqmul q101) g101.
Proof. exact faithful101. Qed.

Local Notation Lag := (FieldPoly.lagrange _ (zq1 q101) (zqmul q101) (zqsub q101) (zqinv q101) dec101).
Local Notation Fsum := (FieldPoly.fsum _ (zq0 q101) (zqadd q101)).
Local Notation Peval := (FieldPoly.peval _ (zq0 q101) (zqadd q101) (zqmul q101)).
Local Notation Eofpoly := (FieldPoly.eofpoly _ (zq0 q101) dec101 _ (zqmul q101) g101).
Local Notation Eeval := (FieldPoly.eeval _ _ (zqadd q101) (zq0 q101) (zqmul q101)).
Local Notation Esum := (FieldPoly.esum _ (zqadd q101)).
Local Notation Act := (FieldPoly.act _ _ (zqmul q101) g101).

(* C02_sum_lagrange_eq_1, C02_lagrange_code_formula, C02_lagrange_interp at S = {4,1,3} *)
Example C02_ex_sum_lagrange : Fsum (map (Lag S3) S3) = zq1 q101.
Proof.
  destruct C02_ex_hyps as (_ & _ & H1 & H2 & _).
  apply (C02_sum_lagrange_eq_1 _ _ _ _ _ _ _ _ _ FT101 dec101 S3 H1 H2). discriminate.
Qed.
Example C02_ex_lagrange_code_formula :
  Lag S3 (z101 1) = FieldPoly.basis_at _ (zq1 q101) (zqmul q101) (zqsub q101) (zqdiv q101) dec101 S3 (z101 1) (zq0 q101)
  /\ Lag S3 (z101 1) = z101 2.
Proof.
  destruct C02_ex_hyps as (_ & _ & H1 & H2 & _). split.
  - apply (C02_lagrange_code_formula _ _ _ _ _ _ _ _ _ FT101 dec101 S3 (z101 1) H1 H2). cbn. auto.
  - z101_eq.
Qed.
Example C02_ex_lagrange_interp :
  Fsum (map (fun xj => zqmul q101 (Lag S3 xj) (Peval (map z101 [5; 7; 9]) xj)) S3) = z101 5.
Proof.
  destruct C02_ex_hyps as (_ & _ & H1 & H2 & _).
  rewrite (C02_lagrange_interp _ _ _ _ _ _ _ _ _ FT101 dec101 S3 (map z101 [5; 7; 9]) H1 H2 (le_n _)). z101_eq.
Qed.
(* C02_root_counting: a polynomial of length 2 with the two roots 1, 2 (it is the zero polynomial) *)
Example C02_ex_root_counting : Forall (fun a => a = zq0 q101) (map z101 [0; 101]).
Proof.
  apply (C02_root_counting _ _ _ _ _ _ _ _ _ FT101 dec101 (map z101 [1; 2])); [z101_nodup|cbn; lia|].
  intros r [<-|[<-|[]]]; z101_eq.
Qed.
(* C02_sum_succeeds + C02_table_is_function_of_broadcasts: the honest exponent polynomials, in two different orders *)
Example C02_ex_table_function_of_broadcasts :
  exists s s', Esum (map Eofpoly fs) = Some s /\ Esum (rev (map Eofpoly fs)) = Some s' /\
               forall x, Eeval s x = Eeval s' x.
Proof.
  assert (Hflag : forall f, In f fs -> (if dec101 (hd (zq0 q101) f) (zq0 q101) then true else false) = false).
  { intros f Hf. destruct (dec101 (hd (zq0 q101) f) (zq0 q101)) as [E|]; [exfalso|reflexivity].
    revert E. cbn in Hf. destruct Hf as [<-|[<-|[<-|[]]]]; z101_neq. }
  destruct (C02_sum_succeeds _ (zq0 q101) dec101 _ (zqadd q101) (zqmul q101) g101 (map z101 [5; 7; 9])
              [map z101 [11; 0; 3]; map z101 [20; 100; 1]] false) as [s Hs];
    [discriminate|repeat constructor|rewrite Forall_forall; exact Hflag|].
  destruct (C02_sum_succeeds _ (zq0 q101) dec101 _ (zqadd q101) (zqmul q101) g101 (map z101 [20; 100; 1])
              [map z101 [11; 0; 3]; map z101 [5; 7; 9]] false) as [s' Hs'];
    [discriminate|repeat constructor|rewrite Forall_forall; intros f Hf; apply Hflag; cbn in Hf |- *; tauto|].
  exists s, s'. split; [exact Hs|]. split; [exact Hs'|].
  apply (C02_table_is_function_of_broadcasts _ _ _ _ _ _ _ _ _ ML101 _ _ s s' (Permutation_rev _) Hs Hs').
Qed.
(* C02_vss_check_sound / C02_vss_keygen_adversarial_good: the checks are passable (here by the honest values) *)
Example C02_ex_vss_adversarial_hyps :
  let es := map Eofpoly fs in
  let us := fun x => map (fun f => Peval f x) fs in
  Sharing.GoodSharing _ (zq0 q101) (zq1 q101) (zqadd q101) (zqmul q101) (zqsub q101) (zqinv q101) dec101 _ (zqmul q101) g101
    (z101 36)
    (mkSt xs 2 (fun x => Fsum (us x)) (Sharing.Phi _ _ (zqadd q101) (zq0 q101) (zqmul q101) es)
          (Sharing.sum_constants _ (zqadd q101) (zq0 q101) es)).
Proof.
  intros es us. destruct C02_ex_hyps as (H1 & H2 & _).
  apply (C02_vss_keygen_adversarial_good _ _ _ _ _ _ _ _ _ FT101 dec101 _ _ _ _ _ ML101 g101 xs 2%nat es us (z101 36)
           faithful101 H1 H2).
  - cbn; lia.
  - repeat constructor.
  - intros x _. unfold us, es. clear. induction fs as [|f l IH]; cbn [map]; constructor; [|exact IH].
    symmetry. apply (eeval_eofpoly FT101 dec101 ML101 g101).
  - z101_eq.
Qed.
(* C02_cmp_round3_accepts_iff: an honest degree-2 exponent polynomial has the accepted shape for t = 2 *)
Example C02_ex_round3_accepts :
  Sharing.cmp_round3_shape_ok _ false 2 (Eofpoly (map z101 [5; 7; 9])) = true /\
  Sharing.cmp_round3_shape_ok _ false 2 (Eofpoly (map z101 [5; 7])) = false /\
  Sharing.cmp_round3_shape_ok _ false 2 (Eofpoly (map z101 [0; 7; 9])) = false /\
  Sharing.cmp_round3_shape_ok _ true 2 (Eofpoly (map z101 [0; 7; 9])) = true.
Proof. vm_compute. repeat split. Qed.
End Examples.

(* the same numbers through the executable model (the functions compared with the Go code) *)
Example C02_ex_model_shares :
  map (share_of 101 0 [[5; 7; 9]; [11; 0; 3]; [20; 100; 1]]) [1; 2; 3; 4] = [55; 100; 70; 66]%Z.
Proof. vm_compute. reflexivity. Qed.
Example C02_ex_model_every_3_subset :
  map (fun S => interpolate0 101 S (map (share_of 101 0 [[5; 7; 9]; [11; 0; 3]; [20; 100; 1]]) S))
      [[1; 2; 3]; [1; 2; 4]; [1; 3; 4]; [2; 3; 4]; [4; 1; 3]; [1; 2; 3; 4]]%Z
  = [36; 36; 36; 36; 36; 36]%Z.
Proof. vm_compute. reflexivity. Qed.
(* two shares (fewer than t+1 = 3) do not determine the key by interpolation *)
Example C02_ex_model_too_few :
  interpolate0 101 [1; 2] (map (share_of 101 0 [[5; 7; 9]; [11; 0; 3]; [20; 100; 1]]) [1; 2]) = 10%Z.
Proof. vm_compute. reflexivity. Qed.
(* share . g = table entry, table computed by Sum + Evaluate on the broadcast exponents (stand-in group) *)
Example C02_ex_model_table :
  map (table_of 101 0 (map (exp_of_poly 101) [[5; 7; 9]; [11; 0; 3]; [20; 100; 1]])) [1; 2; 3; 4]
  = [Some 55; Some 100; Some 70; Some 66]%Z.
Proof. vm_compute. reflexivity. Qed.
(* Polynomial.Evaluate refuses the zero index; Sum refuses mixed IsConstant kinds / lengths *)
Example C02_ex_model_eval0 : eval 101 [5; 7; 9] 101 = None.
Proof. reflexivity. Qed.
Example C02_ex_model_sum_mismatch :
  exp_sum 101 [exp_of_poly 101 [5; 7; 9]; exp_of_poly 101 [0; 7; 9]] = None /\
  exp_sum 101 [exp_of_poly 101 [5; 7; 9]; exp_of_poly 101 [5; 7]] = None.
Proof. split; reflexivity. Qed.
