(* C09 (tie to the source, generated): what goes into the session tag.  The items internal/round.NewSession writes into the
   session hash -- transcribed from the source on every run (Generated/Challenges.v go_NewSession_writes: every argument of every
   h.WriteAny in order, with the condition it is written under) -- are, item by item and in order, the model's [ssid_vals]
   (Model/Session.v) that C09_ssid_binding / C09_ssid_distinct are about: session id (when given), protocol id, group name
   (when a group is given), the sorted party set, the threshold, the caller's extra values (nil entries skipped).  A dropped,
   duplicated or reordered item breaks C09_fields_go_NewSession_ssid_fields; ..._hash_trace_ok pins where the hash comes from
   (hash.New()) and that the SSID is the digest of a clone while the state itself is kept for HashForID.
   Helper.HashForID is the model's [hash_for_id].  Doerner signing: sender and receiver hash the same three values in the same
   order, each into a fresh copy of the session hash; the fork tags of the three OT multiplications agree on both sides -- and
   two of them are equal (finding, recorded as ..._distinct_refuted).
   Only statements; proofs in Proofs/ChallengesProofs.v. *)
From Coq Require Import String List Bool NArith ZArith.
From MPS Require Import Model.Bytes Model.Framing Model.Session.
From MPS Require Import Generated.Challenges Proofs.FieldsBase Proofs.SessionFieldsProofs.
Import ListNotations.
Local Open Scope string_scope.
Local Open Scope list_scope.
Local Open Scope Z_scope.

Theorem C09_fields_go_NewSession_ssid_fields :
  forall p : sess_params, collect (tbl_session p) go_NewSession_writes = Some (ssid_vals p).
Proof. exact (@go_NewSession_ssid_fields). Qed.
Print Assumptions C09_fields_go_NewSession_ssid_fields.

Theorem C09_fields_tbl_session_keys_distinct :
  forall p : sess_params, distinctb (map fst (tbl_session p)) = true.
Proof. exact (@tbl_session_keys_distinct). Qed.
Print Assumptions C09_fields_tbl_session_keys_distinct.

Theorem C09_fields_go_NewSession_hash_trace_ok :
  go_NewSession_hash_trace =
    ["h := hash.New()";
     "[if sessionID != nil] err = h.WriteAny(&hash.BytesWithDomain{TheDomain: ""Session ID"", Bytes: sessionID})";
     "err = h.WriteAny(&hash.BytesWithDomain{TheDomain: ""Protocol ID"", Bytes: []byte(info.ProtocolID)})";
     "[if info.Group != nil] err = h.WriteAny(&hash.BytesWithDomain{TheDomain: ""Group Name"", Bytes: []byte(info.Group.Name())})";
     "err = h.WriteAny(partyIDs)"; "err = h.WriteAny(types.ThresholdWrapper(info.Threshold))";
     "[for _, a := range auxInfo] [unless a == nil] err = h.WriteAny(a)";
     "return &Helper{info: info, Pool: pl, partyIDs: partyIDs, otherPartyIDs: partyIDs.Remove(info.SelfID), ssid: h.Clone().Sum(), hash: h}, nil"].
Proof. exact (@go_NewSession_hash_trace_ok). Qed.
Print Assumptions C09_fields_go_NewSession_hash_trace_ok.

Theorem C09_fields_go_HashForID_fields :
  forall ssid_stream id : bytes,
    go_Helper_HashForID_hash_trace =
    ["cloned := h.hash.Clone()"; "[if id != """"] _ = cloned.WriteAny(id)"; "return cloned"] /\
    match collect (tbl_hash_for_id id) go_Helper_HashForID_writes with
    | Some items => hash_for_id ssid_stream id = ssid_stream ++ concat (map frame items)
    | None => False
    end.
Proof. exact (@go_HashForID_fields). Qed.
Print Assumptions C09_fields_go_HashForID_fields.

Theorem C09_fields_go_doerner_sign_transcripts_agree :
  map strip_recv go_doerner_sign_round1S_writes = ["RPrime"; "Gamma1"; "Gamma2"] /\
    map strip_recv go_doerner_sign_round2R_writes = ["RPrime"; "Gamma1"; "Gamma2"].
Proof. exact (@go_doerner_sign_transcripts_agree). Qed.
Print Assumptions C09_fields_go_doerner_sign_transcripts_agree.

Theorem C09_fields_go_doerner_sign_hash_traces_ok :
  go_doerner_sign_round1S_hash_trace =
    ["H := r.Hash()"; "_ = H.WriteAny(RPrime)"; "kA := sample.Scalar(H.Digest(), group).Add(kAPrime)";
     "tag0 := &hash.BytesWithDomain{TheDomain: ""Multiply0"", Bytes: nil}";
     "multiply0 := ot.NewMultiplySender(r.Hash().Fork(tag0), r.config.Setup, alpha0)";
     "tag1 := &hash.BytesWithDomain{TheDomain: ""Multiply1"", Bytes: nil}";
     "multiply1 := ot.NewMultiplySender(r.Hash().Fork(tag1), r.config.Setup, alpha1)";
     "tag2 := &hash.BytesWithDomain{TheDomain: ""Multiply1"", Bytes: nil}";
     "multiply2 := ot.NewMultiplySender(r.Hash().Fork(tag2), r.config.Setup, alpha2)"; "H = r.Hash()";
     "_ = H.WriteAny(Gamma1)"; "HGamma1 := sample.Scalar(H.Digest(), group)"; "H = r.Hash()";
     "_ = H.WriteAny(Gamma2)"; "HGamma2 := sample.Scalar(H.Digest(), group)"] /\
    go_doerner_sign_round2R_hash_trace =
    ["hash := r.Hash()"; "_ = hash.WriteAny(r.RPrime)";
     "R := sample.Scalar(hash.Digest(), group).Act(r.D).Add(r.RPrime)"; "hash = r.Hash()";
     "_ = hash.WriteAny(Gamma1)"; "HGamma1 := sample.Scalar(hash.Digest(), group)"; "hash = r.Hash()";
     "_ = hash.WriteAny(Gamma2)"; "HGamma2 := sample.Scalar(hash.Digest(), group)"] /\
    go_doerner_sign_round1R_hash_trace =
    ["tag0 := &hash.BytesWithDomain{TheDomain: ""Multiply0"", Bytes: nil}";
     "multiply0, err := ot.NewMultiplyReceiver(r.Hash().Fork(tag0), r.config.Setup, kB)";
     "tag1 := &hash.BytesWithDomain{TheDomain: ""Multiply1"", Bytes: nil}";
     "multiply1, err := ot.NewMultiplyReceiver(r.Hash().Fork(tag1), r.config.Setup, kB)";
     "tag2 := &hash.BytesWithDomain{TheDomain: ""Multiply1"", Bytes: nil}";
     "multiply2, err := ot.NewMultiplyReceiver(r.Hash().Fork(tag2), r.config.Setup, beta)"].
Proof. exact (@go_doerner_sign_hash_traces_ok). Qed.
Print Assumptions C09_fields_go_doerner_sign_hash_traces_ok.

Theorem C09_fields_go_doerner_fork_tags_agree :
  fork_domains go_doerner_sign_round1S_hash_trace = fork_domains go_doerner_sign_round1R_hash_trace.
Proof. exact (@go_doerner_fork_tags_agree). Qed.
Print Assumptions C09_fields_go_doerner_fork_tags_agree.

Theorem C09_fields_go_doerner_fork_tags_distinct_refuted :
  exists a b : string,
      a <> b /\
      nth_error (fork_domains go_doerner_sign_round1S_hash_trace) 1 = Some a /\
      nth_error (fork_domains go_doerner_sign_round1S_hash_trace) 2 = Some b /\
      substring 8 (String.length a) a = substring 8 (String.length b) b.
Proof. exact (@go_doerner_fork_tags_distinct_refuted). Qed.
Print Assumptions C09_fields_go_doerner_fork_tags_distinct_refuted.

Theorem C09_fields_challenges_none_missing :
  challenges_missing = [].
Proof. exact (@challenges_none_missing). Qed.
Print Assumptions C09_fields_challenges_none_missing.

(* ---------------------------------------------------------------- non-vacuity *)

Definition ex_sess : sess_params :=
  mkSess (Some [1%N; 2%N]) (str "cmp/sign") (Some (str "secp256k1")) [str "b"; str "a"] (str "a") 1 [HRound 7].

(* every kind of item is present for this parameter set, and the collected list is the model's, 6 items long *)
Example C09_fields_ex :
  collect (tbl_session ex_sess) go_NewSession_writes = Some (ssid_vals ex_sess) /\ length (ssid_vals ex_sess) = 6%nat /\
  length go_NewSession_writes = 6%nat.
Proof. repeat split; vm_compute; reflexivity. Qed.

(* dropping the threshold from the written items collects a different list *)
Example C09_fields_mutant_no_threshold :
  collect (tbl_session ex_sess) (filter (fun w => negb (String.eqb w "h <- types.ThresholdWrapper(info.Threshold)")) go_NewSession_writes)
  <> Some (ssid_vals ex_sess).
Proof. vm_compute. discriminate. Qed.
