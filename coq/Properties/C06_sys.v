(* C06_sys -- the system theorems (C06 no split, C07 schedule independence, C04 blame) stated for exactly what the
   op "sys.run" (Model/DispatchSystem.v) executes and reports.  Only statements, each closed by [exact] of a lemma
   proved in Proofs/DispatchSystemProofs.v, followed by Print Assumptions, plus computed Examples (non-vacuity).

   sys.run = [sys_render cfg (sys_exec cfg evs)]: the harness hands over the network events of a whole real session
   (in the order its pump executed them) and three oracle tables learned from the run; [sys_exec] resolves every event
   against the model's own network into a [System.sched_ev] and applies [System.step].  The reply carries every
   party's final observation and the facts below; the harness compares both with the real handlers.

     C06_sys_executes_system_model   the final state IS [System.run] of the resolved schedule from [System.init_sys]
                                     (and the reported junk flag IS [System.junk_onlyb] of it)
     C06_sys_no_split                reported: shape well-formed, view table injective, E authentic, A and B completers
                                     other than E  ==>  reported: A and B hold equal views of every protected round
     C07_sys_schedule_independent    reported: n >= 2, wf, no invalid message, only junk injected, nothing left in flight
                                     ==>  reported: every party completed and emitted the ideal sequence
     C04_sys_blame_sound             reported: E authentic, every invalid message is one of E
                                     ==>  a verification error names at most E, a view mismatch names nobody
   Stop() is not an event of System.v; the theorems speak of stop-free executions ([x_stopfree], reported). *)
From Coq Require Import List NArith ZArith Bool Arith.
From MPS Require Import Model.Bytes Model.Sx Model.Handler Model.System Model.DispatchHandler Model.DispatchSystem
                        Proofs.SystemProofs Proofs.DispatchSystemProofs.
Import ListNotations.
Local Open Scope nat_scope.

(* the executed function is the proved one *)
Theorem C06_sys_op_is_exec : forall arg out,
  op_sys_run arg = Some out ->
  exists cfg evs, parse_sys arg = Some (cfg, evs) /\ out = sys_render cfg (sys_exec cfg evs).
Proof. exact op_sys_run_is_exec. Qed.
Print Assumptions C06_sys_op_is_exec.

Theorem C06_sys_executes_system_model : forall (cfg : sys_cfg) (evs : list nev),
  x_stopfree (sys_exec cfg evs) = true ->
  x_sys (sys_exec cfg evs)
  = run (vh_table (c_vht cfg)) (fp_table (c_fpt cfg)) (validity_table (c_inval cfg)) (c_n cfg)
        (init_sys (vh_table (c_vht cfg)) (fp_table (c_fpt cfg)) (c_n cfg) (c_ssid cfg) (c_proto cfg) (c_sh cfg))
        (f_sched (sys_exec cfg evs))
  /\ x_junk (sys_exec cfg evs)
     = junk_onlyb (vh_table (c_vht cfg)) (fp_table (c_fpt cfg)) (validity_table (c_inval cfg)) (c_n cfg)
         (init_sys (vh_table (c_vht cfg)) (fp_table (c_fpt cfg)) (c_n cfg) (c_ssid cfg) (c_proto cfg) (c_sh cfg))
         (f_sched (sys_exec cfg evs)).
Proof. exact exec_is_run. Qed.
Print Assumptions C06_sys_executes_system_model.

(* a resolved delivery / re-delivery hands over exactly the copy the event names (all fields but the oracle flags) *)
Theorem C06_sys_resolved_deliver_named : forall st to m k,
  resolve st (NDeliver to m) = RStep (Deliver to k) true ->
  exists x rest, pick to k (s_net st) = Some (x, rest) /\ msg_same x m = true.
Proof. exact resolve_deliver_named. Qed.
Theorem C06_sys_resolved_dup_named : forall st to m k,
  resolve st (NDup to m) = RStep (Dup to k) true ->
  exists x rest, pick to k (s_sent st) = Some (x, rest) /\ msg_same x m = true.
Proof. exact resolve_dup_named. Qed.

(* the view-digest oracle built from the table of digests the real handlers computed is injective iff the table is *)
Theorem C06_sys_view_oracle_injective : forall t,
  vh_injb t = true -> forall r v v', vh_table t r v = vh_table t r v' -> v = v'.
Proof. exact vh_table_inj. Qed.
Print Assumptions C06_sys_view_oracle_injective.

(* C06: if sys.run reports two completers other than the (authentic) equivocator, it reports equal protected views *)
Theorem C06_sys_no_split : forall (cfg : sys_cfg) (evs : list nev) (E A B : party),
  x_stopfree (sys_exec cfg evs) = true ->
  f_wf cfg = true -> f_vh_inj cfg = true ->
  In E (f_authentic cfg (sys_exec cfg evs)) ->
  In A (f_completers cfg (sys_exec cfg evs)) -> In B (f_completers cfg (sys_exec cfg evs)) ->
  A <> E -> B <> E ->
  views_equalb cfg (x_sys (sys_exec cfg evs)) A B = true.
Proof. exact sys_no_split. Qed.
Print Assumptions C06_sys_no_split.

(* the same, read off the list of pairs in the reply *)
Theorem C06_sys_no_split_pairs : forall (cfg : sys_cfg) (evs : list nev) (E A B : party) (p q : bool),
  x_stopfree (sys_exec cfg evs) = true ->
  f_wf cfg = true -> f_vh_inj cfg = true ->
  In E (f_authentic cfg (sys_exec cfg evs)) ->
  In (A, B, p, q) (f_pairs cfg (sys_exec cfg evs)) ->
  A <> E -> B <> E -> p = true.
Proof. exact sys_no_split_pairs. Qed.
Print Assumptions C06_sys_no_split_pairs.

(* C07: all-honest, complete, junk-only executions end with everybody done and the ideal output *)
Theorem C07_sys_schedule_independent : forall (cfg : sys_cfg) (evs : list nev),
  x_stopfree (sys_exec cfg evs) = true ->
  f_n2 cfg = true -> f_wf cfg = true -> f_no_invalid cfg = true ->
  x_junk (sys_exec cfg evs) = true -> f_complete (sys_exec cfg evs) = true ->
  (forall i, i < c_n cfg ->
     h_res (s_h (x_sys (sys_exec cfg evs)) i) = true
     /\ h_err (s_h (x_sys (sys_exec cfg evs)) i) = None
     /\ h_rt (s_h (x_sys (sys_exec cfg evs)) i) = Running
     /\ h_out (s_h (x_sys (sys_exec cfg evs)) i)
        = ideal_out (vh_table (c_vht cfg)) (fp_table (c_fpt cfg)) (c_n cfg) (c_ssid cfg) (c_proto cfg) (c_sh cfg) i)
  /\ f_all_done cfg (sys_exec cfg evs) = true
  /\ f_completers cfg (sys_exec cfg evs) = seq 0 (c_n cfg)
  /\ (forall b, In b (f_ideal cfg (sys_exec cfg evs)) -> b = true).
Proof. exact sys_schedule_independent. Qed.
Print Assumptions C07_sys_schedule_independent.

(* C04: who can be named *)
Theorem C04_sys_blame_sound : forall (cfg : sys_cfg) (evs : list nev) (E A : party) (c : list party) (k : errkind),
  x_stopfree (sys_exec cfg evs) = true ->
  In E (f_authentic cfg (sys_exec cfg evs)) -> In E (f_inval_from cfg) ->
  h_err (s_h (x_sys (sys_exec cfg evs)) A) = Some (c, k) ->
  (k = EVerify -> incl c [E]) /\ (k = EBroadcastHash -> c = []).
Proof. exact sys_blame_sound. Qed.
Print Assumptions C04_sys_blame_sound.

(* ---- Examples (non-vacuity) ---- *)
(* n = 3, rounds 2 and 3 are broadcast rounds (final = 3): round 2 is protected.  Fingerprints 10 r + i;
   digest 100 for the honest round-2 view, 101 for the view in which party 2's broadcast has fingerprint 29. *)
Definition ex_fp (i r : nat) : N := N.of_nat (10 * r + i).
Definition ex_fpt : list fp_entry :=
  flat_map (fun r => map (fun i => (i, true, None, r, ex_fp i r)) [0; 1; 2]) [2; 3]
  ++ map (fun i => (i, false, None, 0, N.of_nat (90 + i))) [0; 1; 2].
Definition ex_vht : list vh_entry :=
  [ (2, [20; 21; 22]%N, 100%N); (2, [20; 21; 29]%N, 101%N); (3, [30; 31; 32]%N, 102%N) ].
Definition ex_cfg : sys_cfg := mkCfg 3 7 9 shape_bb3 ex_vht ex_fpt [] true.
Definition ex_m (from r : nat) (bv fpv : N) : msg := mkMsg 7 9 from None r true true bv fpv true NoPanic.
Definition ex_round (r : nat) (bv : N) : list nev :=
  flat_map (fun to => map (fun from => NDeliver to (ex_m from r bv (ex_fp from r)))
                          (filter (fun j => negb (j =? to)) [0; 1; 2])) [0; 1; 2].
(* every copy delivered, the round-2 copies once more at the end, one junk injection *)
Definition ex_honest : list nev :=
  NInject 1 (mkMsg 8 9 2 None 2 true true 0 5 true NoPanic) :: ex_round 2 0 ++ ex_round 3 100
  ++ [NDup 0 (ex_m 1 2 0 21); NDrop 2 (ex_m 1 2 0 21)].

Example C07_sys_hypotheses_satisfiable :
  let X := sys_exec ex_cfg ex_honest in
  x_stopfree X = true /\ f_n2 ex_cfg = true /\ f_wf ex_cfg = true /\ f_no_invalid ex_cfg = true
  /\ x_junk X = true /\ f_complete X = true /\ x_unres X = []
  /\ f_completers ex_cfg X = [0; 1; 2] /\ f_all_done ex_cfg X = true
  /\ f_pairs ex_cfg X = [(0, 1, true, true); (0, 2, true, true); (1, 2, true, true)]
  /\ length (f_sched X) = 14.
Proof. vm_compute. repeat split; reflexivity. Qed.

(* the hypotheses of C06_sys_no_split hold in the honest run for E = 2, A = 0, B = 1 *)
Example C06_sys_hypotheses_satisfiable :
  let X := sys_exec ex_cfg ex_honest in
  f_vh_inj ex_cfg = true /\ In 2 (f_authentic ex_cfg X) /\ In 0 (f_completers ex_cfg X) /\ In 1 (f_completers ex_cfg X).
Proof. vm_compute. repeat split; auto. Qed.

(* party 2 equivocates on the protected round 2: party 1 is handed fingerprint 29 instead of 22; when the honest
   parties' round-3 broadcasts cross, the echo fails at both of them: nobody completes, nobody is named *)
Definition ex_equiv : list nev :=
  [ NDeliver 0 (ex_m 1 2 0 21); NDeliver 0 (ex_m 2 2 0 22);
    NDeliver 1 (ex_m 0 2 0 20); NInject 1 (ex_m 2 2 0 29);
    NDeliver 1 (ex_m 0 3 100 30); NDeliver 0 (ex_m 1 3 101 31) ].

Example C06_sys_equivocation_stops_both :
  let X := sys_exec ex_cfg ex_equiv in
  x_unres X = [] /\ f_authentic ex_cfg X = [2] /\ f_completers ex_cfg X = []
  /\ h_err (s_h (x_sys X) 0) = Some ([], EBroadcastHash) /\ h_err (s_h (x_sys X) 1) = Some ([], EBroadcastHash)
  /\ stored_fp (s_h (x_sys X) 0) 2 2 = Some 22%N /\ stored_fp (s_h (x_sys X) 1) 2 2 = Some 29%N
  /\ x_junk X = false.
Proof. vm_compute. repeat split; reflexivity. Qed.

(* a table in which two different views have the same digest is reported as not injective *)
Example C06_sys_colliding_table_detected :
  vh_injb [ (2, [20; 21; 22]%N, 100%N); (2, [20; 21; 29]%N, 100%N) ] = false.
Proof. vm_compute. reflexivity. Qed.

(* an event that names a copy the model's network does not contain is reported (index 0) and executed as an injection *)
Example C06_sys_unresolved_reported :
  x_unres (sys_exec ex_cfg [NDeliver 0 (ex_m 1 2 0 77)]) = [0].
Proof. vm_compute. reflexivity. Qed.

(* the op on the wire: parse, execute, render *)
Example C06_sys_op_example :
  op_sys_run (Li [At 2; At 1; At 2; Li [At 2; Li [Li [At 0; At 0]; Li [At 0; At 0]; Li [At 1; At 0]; Li [At 0; At 0]]];
                  Li []; Li [Li [At 0; At 1; At (-1); At 2; At 11]; Li [At 1; At 1; At (-1); At 2; At 12]]; Li []; At 1;
                  Li [Li [At 0; At 1; Li [At 1; At 2; At 0; At (-1); At 2; At 1; At 1; At 0; At 11; At 1]];
                      Li [At 0; At 0; Li [At 1; At 2; At 1; At (-1); At 2; At 1; At 1; At 0; At 12; At 1]]]]%Z)
  <> None.
Proof. vm_compute. discriminate. Qed.
