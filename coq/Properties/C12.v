(* C12 -- Paillier encryption and MtA are exact on their full domain.
   Only statements, each closed by [exact] of a lemma proved in Proofs/PaillierProofs.v, followed by Print Assumptions.
   Hypotheses on the key: N = p*q with p, q distinct primes and gcd(N, phi(N)) = 1 (N odd follows); nonces are units mod N.
   Nothing is assumed about sizes. *)
From Coq Require Import ZArith Znumtheory List Bool Lia.
From MPS Require Import Model.Paillier Proofs.PaillierProofs.
Local Open Scope Z_scope.

(* -- modular exponentiation -- *)
Theorem C12_powmod_spec : forall n x e, 0 < n -> 0 <= e -> powmod n x e = x ^ e mod n.
Proof. exact powmod_spec. Qed.
Print Assumptions C12_powmod_spec.

(* signed exponent, as Go's ExpI: power of |e|, then the modular inverse *)
Theorem C12_expI_nonneg : forall n x e, 0 < n -> 0 <= e -> expI n x e = x ^ e mod n.
Proof. exact expI_nonneg. Qed.
Theorem C12_expI_neg : forall n x e, 1 < n -> Z.gcd x n = 1 -> e < 0 ->
  expI n x e = modinv n (powmod n x (- e)) /\
  0 <= expI n x e < n /\ (expI n x e * x ^ (- e)) mod n = 1.
Proof. exact expI_neg. Qed.
Print Assumptions C12_expI_neg.

Theorem C12_modinv_spec : forall n x, 1 < n -> Z.gcd x n = 1 ->
  0 <= modinv n x < n /\ (modinv n x * x) mod n = 1.
Proof. exact modinv_full_spec. Qed.
Print Assumptions C12_modinv_spec.

(* arith.Modulus.Exp / ExpI with known factorisation = plain exponentiation, for ANY coprime factors > 1
   (direct CRT uniqueness argument: the exponent is not reduced in the Go code, no Fermat needed) *)
Theorem C12_crt_exp_eq : forall p q x e, 1 < p -> 1 < q -> Z.gcd p q = 1 -> 0 <= e ->
  exp_crt p q x e = powmod (p * q) x e.
Proof. exact exp_crt_eq. Qed.
Print Assumptions C12_crt_exp_eq.
Theorem C12_crt_expI_eq : forall p q x e, 1 < p -> 1 < q -> Z.gcd p q = 1 ->
  expI_crt p q x e = expI (p * q) x e.
Proof. exact expI_crt_eq. Qed.
Print Assumptions C12_crt_expI_eq.

(* -- ciphertext validation: what ValidateCiphertexts accepts, for any modulus n > 1:
      exactly the units of Z_{n^2} in [1, n^2 - 1]; 0, n^2 and everything above, and all non-units are rejected -- *)
Theorem C12_validate_ct_iff : forall n c, 1 < n ->
  (validate_ct n c = true <-> 0 < c < n * n /\ Z.gcd c (n * n) = 1).
Proof. exact validate_ct_iff. Qed.
Print Assumptions C12_validate_ct_iff.

Section Key.
Variables p q : Z.
Hypothesis Pp : prime p.
Hypothesis Pq : prime q.
Hypothesis Hneq : p <> q.
Hypothesis Hgcd : Z.gcd (p * q) ((p - 1) * (q - 1)) = 1.
Local Notation N := (p * q).

(* -- range guard: Enc refuses (Go: panics) exactly outside [-(N-1)/2, (N-1)/2] -- *)
Theorem C12_enc_refuses : forall m rho,
  (Z.abs m > (N - 1) / 2 -> enc N m rho = None) /\
  (Z.abs m <= (N - 1) / 2 -> enc N m rho = Some (encv p q m rho)).
Proof. exact (enc_refuses p q Pp Pq Hneq Hgcd). Qed.

(* -- the main one: Dec inverts Enc on the whole range, endpoints included -- *)
Theorem C12_dec_enc : forall m rho, Z.gcd rho N = 1 -> Z.abs m <= (N - 1) / 2 ->
  exists c, enc N m rho = Some c /\ dec p q c = Some m.
Proof. exact (dec_enc p q Pp Pq Hneq Hgcd). Qed.

(* the public key embedded in the secret key (CRT route) encrypts to the same ciphertext *)
Theorem C12_enc_sk_eq : forall m rho, enc_sk p q m rho = enc N m rho.
Proof. exact (enc_sk_eq p q Pp Pq Hneq). Qed.
Theorem C12_mul_sk_eq : forall k c, mul_sk p q k c = mul N k c.
Proof. exact (mul_sk_eq p q Pp Pq Hneq). Qed.

(* Dec fails exactly on what validation rejects *)
Theorem C12_dec_none_iff : forall c, dec p q c = None <-> validate_ct N c = false.
Proof. exact (dec_none_iff p q Pp Pq Hneq Hgcd). Qed.

(* -- homomorphy, for ARBITRARY valid ciphertexts (not only honest encryptions), with the exact wrap-around:
      the result is the representative of m1+m2 (resp. k*m) in [-(N-1)/2, (N-1)/2] -- *)
Theorem C12_add_hom : forall c1 c2 m1 m2, dec p q c1 = Some m1 -> dec p q c2 = Some m2 ->
  dec p q (add N c1 c2) = Some (symmod N (m1 + m2)).
Proof. exact (add_hom p q Pp Pq Hneq Hgcd). Qed.
Theorem C12_mul_hom : forall k c m, dec p q c = Some m ->
  dec p q (mul N k c) = Some (symmod N (k * m)).
Proof. exact (mul_hom p q Pp Pq Hneq Hgcd). Qed.
Theorem C12_symmod_closed : forall x, symmod N x = (x + (N - 1) / 2) mod N - (N - 1) / 2.
Proof. exact (symmod_N_closed p q Pp Pq Hneq Hgcd). Qed.
Theorem C12_add_hom_inrange : forall c1 c2 m1 m2, dec p q c1 = Some m1 -> dec p q c2 = Some m2 ->
  Z.abs (m1 + m2) <= (N - 1) / 2 -> dec p q (add N c1 c2) = Some (m1 + m2).
Proof. exact (add_hom_inrange p q Pp Pq Hneq Hgcd). Qed.
Theorem C12_mul_hom_inrange : forall k c m, dec p q c = Some m ->
  Z.abs (k * m) <= (N - 1) / 2 -> dec p q (mul N k c) = Some (k * m).
Proof. exact (mul_hom_inrange p q Pp Pq Hneq Hgcd). Qed.

(* -- DecWithRandomness: for EVERY valid ciphertext the recovered (m, r) re-encrypts to it;
      on an honest ciphertext the nonce itself is recovered -- *)
Theorem C12_dec_rand_reencrypts : forall c, validate_ct N c = true ->
  exists m r, dec_with_randomness p q c = Some (m, r) /\ dec p q c = Some m /\
              0 <= r < N /\ Z.gcd r N = 1 /\ enc N m r = Some c.
Proof. exact (dec_rand_reencrypts p q Pp Pq Hneq Hgcd). Qed.
Theorem C12_dec_rand_recovers_nonce : forall m rho, 0 <= rho < N -> Z.gcd rho N = 1 ->
  Z.abs m <= (N - 1) / 2 ->
  dec_with_randomness p q (encv p q m rho) = Some (m, rho).
Proof. exact (dec_rand_recovers_nonce p q Pp Pq Hneq Hgcd). Qed.

(* -- MtA: alpha + beta = a*b over Z.  beta_neg is the value drawn by IntervalLPrime (|.| <= 2^1280),
      qq the group order; the range condition is discharged for real key sizes by C12_mta_range_real below -- *)
Theorem C12_mta_exact : forall qq a b bn rk rs,
  Z.gcd rk N = 1 -> Z.gcd rs N = 1 ->
  0 <= a < qq -> 0 <= b < qq -> Z.abs bn <= 2 ^ lprime -> qq * qq + 2 ^ lprime <= (N - 1) / 2 ->
  exists K D alpha beta,
    mta N p q a b bn rk rs = Some (K, D, alpha, beta) /\ beta = - bn /\ alpha + beta = a * b.
Proof. exact (mta_exact_lprime p q Pp Pq Hneq Hgcd). Qed.
(* the same under the weakest range conditions (any signed a, b) *)
Theorem C12_mta_exact_gen : forall a b bn rk rs,
  Z.gcd rk N = 1 -> Z.gcd rs N = 1 ->
  Z.abs b <= (N - 1) / 2 -> Z.abs bn <= (N - 1) / 2 -> Z.abs (a * b + bn) <= (N - 1) / 2 ->
  exists K D alpha beta,
    mta N p q a b bn rk rs = Some (K, D, alpha, beta) /\
    beta = - bn /\ alpha = a * b + bn /\ alpha + beta = a * b.
Proof. exact (mta_exact_gen p q Pp Pq Hneq Hgcd). Qed.
End Key.

Print Assumptions C12_enc_refuses.
Print Assumptions C12_dec_enc.
Print Assumptions C12_enc_sk_eq.
Print Assumptions C12_dec_none_iff.
Print Assumptions C12_add_hom.
Print Assumptions C12_mul_hom.
Print Assumptions C12_add_hom_inrange.
Print Assumptions C12_mul_hom_inrange.
Print Assumptions C12_dec_rand_reencrypts.
Print Assumptions C12_dec_rand_recovers_nonce.
Print Assumptions C12_mta_exact.
Print Assumptions C12_mta_exact_gen.

(* the MtA range condition at the real parameter sizes: ValidateN forces 2^2047 <= N, group order < 2^256 *)
Theorem C12_validate_n_bounds : forall n, validate_n n = true -> 2 ^ 2047 <= n < 2 ^ 2048 /\ Z.odd n = true.
Proof. exact validate_n_bounds. Qed.
Theorem C12_mta_range_real : forall n qq, 2 ^ 2047 <= n -> 0 <= qq < 2 ^ 256 ->
  qq * qq + 2 ^ lprime <= (n - 1) / 2.
Proof. exact mta_range_real. Qed.
Print Assumptions C12_mta_range_real.

(* -- non-vacuity: the key hypotheses are satisfiable and the functions compute (p = 11, q = 13) -- *)
Example key_hyps_satisfiable :
  prime 11 /\ prime 13 /\ 11 <> 13 /\ Z.gcd (11 * 13) ((11 - 1) * (13 - 1)) = 1.
Proof. split; [exact prime_11|]. split; [exact prime_13|]. split; [lia | reflexivity]. Qed.

Example ex_enc_dec_endpoints :
  enc 143 71 7 = Some 6866 /\ dec 11 13 6866 = Some 71 /\
  enc 143 (-71) 7 = Some 7152 /\ dec 11 13 7152 = Some (-71) /\
  enc 143 72 7 = None /\ enc 143 (-72) 7 = None.
Proof. vm_compute. repeat split. Qed.
Example ex_dec_enc_instance : exists c, enc (11 * 13) 5 7 = Some c /\ dec 11 13 c = Some 5.
Proof. apply (C12_dec_enc 11 13 prime_11 prime_13); [lia | reflexivity | reflexivity | vm_compute; discriminate]. Qed.
Example ex_validate :
  validate_ct 143 0 = false /\ validate_ct 143 1 = true /\ validate_ct 143 11 = false /\
  validate_ct 143 (143 * 143 - 1) = true /\ validate_ct 143 (143 * 143) = false /\ validate_ct 143 (143 * 143 + 1) = false.
Proof. vm_compute. repeat split. Qed.
Example ex_add_wraps :   (* 71 + 1 wraps to -71 *)
  dec 11 13 (add 143 6866 (match enc 143 1 2 with Some c => c | None => 0 end)) = Some (-71).
Proof. vm_compute. reflexivity. Qed.
Example ex_dec_rand : dec_with_randomness 11 13 7152 = Some (-71, 7) /\ dec_with_randomness 11 13 12345 = Some (11, 31)
  /\ enc 143 11 31 = Some 12345.
Proof. vm_compute. repeat split. Qed.
Example ex_crt : exp_crt 11 13 7 100 = powmod 143 7 100 /\ expI_crt 11 13 7 (-3) = 138 /\ (138 * 7 ^ 3) mod 143 = 1.
Proof. vm_compute. repeat split. Qed.
Example ex_mta : mta 143 11 13 3 4 (-9) 2 5 = Some (943, 17668, 3, 9).   (* alpha + beta = 3 + 9 = 3*4 *)
Proof. vm_compute. reflexivity. Qed.
Example ex_mta_hyps_satisfiable :   (* qq = 5, bound 40 instead of 2^1280 for this toy key *)
  5 * 5 + 40 <= (11 * 13 - 1) / 2.
Proof. vm_compute. discriminate. Qed.
