(* C04 (protocol level) / C03 share checks -- identifiable abort in CMP presign and the per-share checks,
   over ANY scalar field F and F-module G.  Only statements ([exact] of lemmas of Proofs/SigningAlgebra.v)
   with Print Assumptions, and Examples over Z/101.

   Reading of "sound"/"complete":  sound = a party that behaved honestly is never named;
   complete = exactly the parties whose announced value differs from the public recomputation are named
   (and, where stated, a deviation is always named).  The recomputations use broadcast data only, so every
   honest signer names the same parties.  What ties the revealed k_j, gamma_j, alpha_jl to the ciphertexts
   (zknth openings, zklog, zkelog) is C10/C12 and appears here as the hypotheses on the revealed tables.

   DEFECT (D14, stated at the end of this file): abort1.go:60 and abort2.go:62 check the Nth-root openings
   against ct[from][id] while the prover (presign6.go:97, presign7.go:115) opened ct[id][from]. *)
From Coq Require Import List NArith ZArith Bool Permutation.
From MPS Require Import Model.SigEq Proofs.SigningAlgebra.
Import ListNotations.

(* ---------------------------------------------------------------------------------------------------- *)
(* abort1: recomputation of delta_j from revealed k, gamma, alpha                                         *)
(* sound: if j's beta_jl satisfy the MtA relation with the revealed alpha_lj, k_l (which the Nth-root openings
   and C12 guarantee whenever j formed its MtA messages honestly) and j announced the delta it computed,
   then j is not named -- whatever the other parties did. *)
Theorem C04_abort1_sound : forall A, alg_laws A ->
  forall (S : list party) (self : party) (kf gf : party -> Sc A) (al be : party -> party -> Sc A)
         (dsh : party -> Sc A) (j : party),
  (forall l, In l S -> l <> j -> mta_rel al be gf kf l j) ->
  dsh j = mta_loop (scmul A (gf j) (kf j)) (al j) (be j) (others S j) ->
  ~ In j (abort1_culprits S self kf gf al dsh).
Proof. exact abort1_sound. Qed.
Print Assumptions C04_abort1_sound.

(* complete: the named parties are exactly the other signers whose announced delta differs from the recomputation *)
Theorem C04_abort1_complete : forall A, alg_laws A ->
  forall (S : list party) (self : party) (kf gf : party -> Sc A) (al : party -> party -> Sc A)
         (dsh : party -> Sc A) (j : party),
  In j (abort1_culprits S self kf gf al dsh)
  <-> In j S /\ j <> self /\ dsh j <> abort1_recompute S kf gf al j.
Proof. exact abort1_complete. Qed.
Print Assumptions C04_abort1_complete.

(* the recomputations always add up to gamma*k; hence whenever the announced delta shares do not
   (which is what made presign6 abort), somebody is named by every signer whose own share is consistent *)
Theorem C04_abort1_identifies : forall A, alg_laws A ->
  forall (S : list party) (self : party) (kf gf : party -> Sc A) (al : party -> party -> Sc A)
         (dsh : party -> Sc A),
  NoDup S -> In self S ->
  dsh self = abort1_recompute S kf gf al self ->
  sumF dsh S <> scmul A (sumF gf S) (sumF kf S) ->
  abort1_culprits S self kf gf al dsh <> [].
Proof. exact abort1_identifies. Qed.
Print Assumptions C04_abort1_identifies.

Example C04_abort1_sound_ex : ~ In 2%N (@abort1_culprits A101 ex_S 1%N ex_k ex_gam ex_ad ex_dsh_bad).
Proof.
  exact (C04_abort1_sound A101 A101_laws ex_S 1%N ex_k ex_gam ex_ad ex_bd ex_dsh_bad 2%N
           (fun l _ _ => ex_mta_delta l 2%N) eq_refl).
Qed.
Example C04_abort1_complete_ex :
  @abort1_culprits A101 ex_S 1%N ex_k ex_gam ex_ad ex_dsh = []          (* all honest: nobody named *)
  /\ @abort1_culprits A101 ex_S 1%N ex_k ex_gam ex_ad ex_dsh_bad = [3%N]  (* party 3 announced delta_3 + 1 *)
  /\ @abort1_culprits A101 ex_S 2%N ex_k ex_gam ex_ad ex_dsh_bad = [3%N]. (* every honest signer names the same party *)
Proof. vm_compute. repeat split. Qed.
Example C04_abort1_identifies_ex : @abort1_culprits A101 ex_S 1%N ex_k ex_gam ex_ad ex_dsh_bad <> [].
Proof.
  apply (C04_abort1_identifies A101 A101_laws ex_S 1%N ex_k ex_gam ex_ad ex_dsh_bad ex_S_nodup).
  - now left.
  - vm_compute. reflexivity.
  - z101_neq.
Qed.

(* ---------------------------------------------------------------------------------------------------- *)
(* abort2: recomputation of chi_j "in the exponent" against the ElGamal commitment ElGamalChi[j].M        *)
Theorem C04_abort2_sound : forall A, alg_laws A ->
  forall (S : list party) (self : party) (kf : party -> Sc A) (al be : party -> party -> Sc A)
         (YHat Xs ChiM : party -> Pt A) (w : party -> Sc A) (Y : Pt A) (bh : Sc A) (j : party),
  (forall l, In l S -> l <> j -> mta_rel al be w kf l j) ->
  Xs j = act A (w j) (base A) ->                      (* ECDSA[j] = (lambda_j x_j) G *)
  YHat j = act A bh Y ->                              (* YHat_j = b_j * ElGamal[j] *)
  ChiM j = snd (elg_enc Y (mta_loop (scmul A (w j) (kf j)) (al j) (be j) (others S j)) bh) ->
  ~ In j (abort2_culprits S self kf al YHat Xs ChiM).
Proof. exact abort2_sound. Qed.
Print Assumptions C04_abort2_sound.

Theorem C04_abort2_complete : forall A, alg_laws A ->
  forall (S : list party) (self : party) (kf : party -> Sc A) (al : party -> party -> Sc A)
         (YHat Xs ChiM : party -> Pt A) (j : party),
  In j (abort2_culprits S self kf al YHat Xs ChiM)
  <-> In j S /\ j <> self /\ ChiM j <> abort2_recompute S kf al YHat Xs j.
Proof. exact abort2_complete. Qed.
Print Assumptions C04_abort2_complete.

(* a commitment to a chi different from the recomputed one is named (generator with trivial annihilator) *)
Theorem C04_abort2_binding : forall A, alg_laws A ->
  forall (S : list party) (self : party) (kf : party -> Sc A) (al : party -> party -> Sc A)
         (YHat Xs ChiM : party -> Pt A) (w : party -> Sc A) (chi' : Sc A) (j : party),
  base_free A ->
  Xs j = act A (w j) (base A) ->
  ChiM j = ptadd A (act A chi' (base A)) (YHat j) ->
  In j S -> j <> self ->
  chi' <> abort1_recompute S kf w al j ->
  In j (abort2_culprits S self kf al YHat Xs ChiM).
Proof. exact abort2_binding. Qed.
Print Assumptions C04_abort2_binding.

Example C04_abort2_sound_ex :
  ~ In 2%N (@abort2_culprits A101 ex_S 1%N ex_k ex_ac ex_YHat (cmp_ECDSA ex_cmp) ex_ChiM_bad).
Proof.
  apply (C04_abort2_sound A101 A101_laws ex_S 1%N ex_k ex_ac ex_bc ex_YHat (cmp_ECDSA ex_cmp) ex_ChiM_bad
           (cmp_secret ex_cmp) (ps_ElGamalPub ex_cmp 2%N) (c_bchi ex_cmp 2%N) 2%N
           (fun l _ _ => ex_mta_chi l 2%N)).
  - vm_compute. reflexivity.
  - reflexivity.
  - reflexivity.
Qed.
Example C04_abort2_complete_ex :
  @abort2_culprits A101 ex_S 1%N ex_k ex_ac ex_YHat (cmp_ECDSA ex_cmp) ex_ChiM = []
  /\ @abort2_culprits A101 ex_S 1%N ex_k ex_ac ex_YHat (cmp_ECDSA ex_cmp) ex_ChiM_bad = [3%N]
  /\ @abort2_culprits A101 ex_S 2%N ex_k ex_ac ex_YHat (cmp_ECDSA ex_cmp) ex_ChiM_bad = [3%N].
Proof. vm_compute. repeat split. Qed.
Example C04_abort2_binding_ex :
  In 3%N (@abort2_culprits A101 ex_S 1%N ex_k ex_ac ex_YHat (cmp_ECDSA ex_cmp) ex_ChiM_bad).
Proof.
  apply (C04_abort2_binding A101 A101_laws ex_S 1%N ex_k ex_ac ex_YHat (cmp_ECDSA ex_cmp) ex_ChiM_bad
           (cmp_secret ex_cmp) (z101_add (cmp_chi_share ex_cmp 3%N) (z101 1)) 3%N A101_base_free).
  - vm_compute. reflexivity.
  - reflexivity.
  - right; right; now left.
  - discriminate.
  - z101_neq.
Qed.

(* ---------------------------------------------------------------------------------------------------- *)
(* PreSignature.VerifySignatureShares                                                                     *)
(* sound: whoever is named did send a share different from  m k_j + r chi_j  (an honest share always passes) *)
Theorem C04_sigma_share_check_sound : forall A, alg_laws A ->
  forall (S' : list party) (p : presignature A) (shares : party -> Sc A) (m : Sc A)
         (kf chif : party -> Sc A) (j : party),
  pRBar p j = act A (kf j) (pR p) -> pS p j = act A (chif j) (pR p) ->
  In j (verify_signature_shares S' p shares m) ->
  In j S' /\ shares j <> scadd A (scmul A m (kf j)) (scmul A (xsc A (pR p)) (chif j)).
Proof. exact sigma_share_check_sound. Qed.
Print Assumptions C04_sigma_share_check_sound.

(* complete: every share different from the honest one is named (R with trivial annihilator, e.g. R = k^-1 G) *)
Theorem C04_sigma_share_check_complete : forall A, alg_laws A ->
  forall (S' : list party) (p : presignature A) (shares : party -> Sc A) (m : Sc A)
         (kf chif : party -> Sc A) (j : party),
  act_free A (pR p) ->
  pRBar p j = act A (kf j) (pR p) -> pS p j = act A (chif j) (pR p) ->
  In j S' ->
  shares j <> scadd A (scmul A m (kf j)) (scmul A (xsc A (pR p)) (chif j)) ->
  In j (verify_signature_shares S' p shares m).
Proof. exact sigma_share_check_complete. Qed.
Print Assumptions C04_sigma_share_check_complete.

Example C04_sigma_share_check_ex_values :
  verify_signature_shares ex_S (ex_pre 1%N) ex_shares (c_m ex_cmp) = []
  /\ verify_signature_shares ex_S (ex_pre 1%N) ex_shares_bad (c_m ex_cmp) = [2%N]
  /\ verify_signature_shares [3; 1; 2]%N (ex_pre 3%N) ex_shares_bad (c_m ex_cmp) = [2%N].
Proof. vm_compute. repeat split. Qed.
Example C04_sigma_share_check_sound_ex :
  ex_shares_bad 2%N <> scadd A101 (scmul A101 (c_m ex_cmp) (ex_k 2%N))
                             (scmul A101 (xsc A101 (pR (ex_pre 1%N))) (cmp_chi_share ex_cmp 2%N)).
Proof.
  apply (C04_sigma_share_check_sound A101 A101_laws ex_S (ex_pre 1%N) ex_shares_bad (c_m ex_cmp)
           ex_k (cmp_chi_share ex_cmp) 2%N).
  - vm_compute. reflexivity.
  - reflexivity.
  - vm_compute. now left.
Qed.
Example C04_sigma_share_check_complete_ex :
  In 2%N (verify_signature_shares ex_S (ex_pre 1%N) ex_shares_bad (c_m ex_cmp)).
Proof.
  apply (C04_sigma_share_check_complete A101 A101_laws ex_S (ex_pre 1%N) ex_shares_bad (c_m ex_cmp)
           ex_k (cmp_chi_share ex_cmp) 2%N ex_cmp_R_free).
  - vm_compute. reflexivity.
  - reflexivity.
  - right; now left.
  - z101_neq.
Qed.

(* ---------------------------------------------------------------------------------------------------- *)
(* FROST round 3 (the C03 safety lemma): if every share was accepted by the per-share check, the assembled
   signature satisfies the verification equation -- for ARBITRARY z_l, R_l, Y_l (nothing assumed honest) *)
Theorem C04_frost_share_check_sound : forall A, alg_laws A ->
  forall (S : list party) (c : Sc A) (lam : party -> Sc A) (Ysh Rsh : party -> Pt A)
         (z : party -> Sc A) (Y R : Pt A),
  (forall l, In l S -> frost_share_ok c (lam l) (Ysh l) (Rsh l) (z l) = true) ->
  R = sumG Rsh S ->
  Y = sumG (fun l => act A (lam l) (Ysh l)) S ->
  frost_verify c Y R (sumF z S) = true
  /\ act A (sumF z S) (base A) = ptadd A R (act A c Y).
Proof. exact frost_share_check_sound. Qed.
Print Assumptions C04_frost_share_check_sound.

Example C04_frost_share_check_sound_ex :
  let c := z101 33 in
  let Rsh := frost_Rshare (f_rho ex_frost) (frost_D ex_frost) (frost_E ex_frost) in
  let z l := frost_z (f_lam ex_frost l) (f_s ex_frost l) c (f_d ex_frost l) (f_e ex_frost l) (f_rho ex_frost l) in
  @frost_verify A101 c (sumG (fun l => act A101 (ex_lam l) (frost_Yshare ex_frost l)) ex_S)
                (sumG Rsh ex_S) (sumF z ex_S) = true.
Proof.
  intros c Rsh z.
  exact (proj1 (C04_frost_share_check_sound A101 A101_laws ex_S c ex_lam (frost_Yshare ex_frost) Rsh z _ _
                  (fun l _ => frost_share_honest A101 A101_laws ex_frost c l) eq_refl eq_refl)).
Qed.

(* ---------------------------------------------------------------------------------------------------- *)
(* D14: which ciphertext the Nth-root openings are checked against.
   ct from to  = DeltaCiphertext[from][to] / ChiCiphertext[from][to]: the D sent by [from] to [to], a Paillier
   ciphertext under [to]'s key (presign2.go:177,179; decrypted by [to] in presign3.go:141,147).
   [opens p c v] = abortNth.Verify with p's Paillier key against ciphertext c and plaintext v.
   Hypotheses: the owner's true opening verifies (C12), and an opening under p's key does not verify against
   a ciphertext formed under another party's key (cExpected is an element mod N_to^2, cActual mod N_p^2). *)
Theorem C04_abort_openings_swapped_accept : forall A (C : Type) (opens : party -> C -> Sc A -> bool)
         (S : list party) (ct : party -> party -> C) (alpha : party -> party -> Sc A),
  (forall from to, In from S -> In to S -> from <> to -> opens to (ct from to) (alpha to from) = true) ->
  forall from, In from S -> abort_open_check_swapped C opens S ct from (alpha from) = true.
Proof. exact abort_open_swapped_accepts. Qed.
Print Assumptions C04_abort_openings_swapped_accept.

(* the check as written (abort1.go:60, abort2.go:62) rejects EVERY abort broadcast of EVERY party as soon as
   there is a second signer, whatever plaintexts are presented: an honest party that follows the protocol
   into the abort branch is itself reported as the culprit by all its honest peers *)
Theorem C04_abort_openings_as_written_reject : forall A (C : Type) (opens : party -> C -> Sc A -> bool)
         (S : list party) (ct : party -> party -> C),
  (forall p from to v, In p S -> In from S -> In to S -> p <> to -> opens p (ct from to) v = false) ->
  forall from plain, In from S -> others S from <> [] ->
  abort_open_check_as_written C opens S ct from plain = false.
Proof. exact abort_open_as_written_rejects. Qed.
Print Assumptions C04_abort_openings_as_written_reject.

(* "an honest opening is accepted" is refuted for the index choice of the code, in the toy model where a
   ciphertext records its key owner and plaintext; with the indices swapped the same opening is accepted *)
Example C04_abort_openings_as_written_refuted :
  exists (S : list party) (ct : party -> party -> C101) (alpha : party -> party -> Z101) (from : party),
    In from S
    /\ (forall f t, opens101 t (ct f t) (alpha t f) = true)
    /\ @abort_open_check_as_written A101 C101 opens101 S ct from (alpha from) = false
    /\ @abort_open_check_swapped A101 C101 opens101 S ct from (alpha from) = true.
Proof.
  exists ex_S, ex_ct, ex_ad, 1%N.
  split; [now left|]. split; [exact ex_opens_own|]. split; vm_compute; reflexivity.
Qed.
Example C04_abort_openings_ex :
  @abort_open_check_as_written A101 C101 opens101 ex_S ex_ct 2%N (ex_ad 2%N) = false
  /\ @abort_open_check_swapped A101 C101 opens101 ex_S ex_ct 2%N (ex_ad 2%N) = true.
Proof.
  split.
  - apply (C04_abort_openings_as_written_reject A101 C101 opens101 ex_S ex_ct).
    + intros p from to v _ _ _ H. now apply ex_opens_sep.
    + right; now left.
    + discriminate.
  - apply (C04_abort_openings_swapped_accept A101 C101 opens101 ex_S ex_ct ex_ad).
    + intros from to _ _ _. apply ex_opens_own.
    + right; now left.
Qed.
