(* C17 (TwoPartyHandler) -- handler lifecycle is well-defined and safe (sequential part), plus the handler-level
   parts of C05 for the two-party handler.
   Model: Model/TwoParty.v (pkg/protocol/twoparty.go, control logic as written); [tp_stop true] = the repaired
   Stop guard, [tp_stop false] = the guard as found at the pinned commit.
   Shape conditions (all satisfied by the Doerner shapes, see the Examples):
     shape_clean      : no round's Finalize returns (nil, nil), an Abort round without error or an Output round
                        without result (what happens otherwise: C17_twoparty_unclean_shapes_refuted);
     shape_increasing : round numbers strictly increase and stay <= FinalRoundNumber;
     shape_busy       : every round from the second on expects a message.
   All theorems hold for arbitrary such shapes, arbitrary messages and arbitrary API histories
   (lists of Accept m | Stop | Drain k, no length bound), for leader and non-leader.
   Only statements, each closed by [exact] of a lemma proved in Proofs/TwoPartyProofs.v. *)
From Coq Require Import List NArith ZArith Bool Arith Lia.
From MPS Require Import Model.Handler Model.TwoParty Proofs.TwoPartyProofs.
Import ListNotations.

(* -- lifecycle invariant on every reachable state (repaired guard) -- *)
Theorem C17_twoparty_lifecycle_inv : forall leader self n ssid proto sh s,
  shape_clean sh ->
  tp_reachable true leader self n ssid proto sh s ->
  t_closes s <= 1
  /\ (t_closes s = 1 <-> tp_terminal s = true)
  /\ ~ (t_res s = true /\ t_err s <> None)
  /\ (forall w, t_rt s <> Panicked w).
Proof. exact tp_lifecycle_inv. Qed.
Print Assumptions C17_twoparty_lifecycle_inv.

(* -- once terminal, every further call leaves the state unchanged (Drain only touches t_pending) -- *)
Theorem C17_twoparty_terminal_stable_step : forall s e,
  tp_terminal s = true ->
  let s' := tp_api_step true s e in
  t_same_but_pending s s' /\ ((forall k, e <> TDrain k) -> s' = s).
Proof. exact tp_terminal_stable_step. Qed.

Theorem C17_twoparty_terminal_stable : forall es s,
  tp_terminal s = true ->
  let s' := tp_run_api true s es in
  t_same_but_pending s s' /\ tp_terminal s' = true /\ tp_result_class s' = tp_result_class s.
Proof. exact tp_terminal_stable. Qed.
Print Assumptions C17_twoparty_terminal_stable.

(* -- Stop -- *)
Theorem C17_twoparty_stop_ends_running : forall leader self n ssid proto sh s,
  shape_clean sh ->
  tp_reachable true leader self n ssid proto sh s ->
  tp_terminal s = false -> t_rt s = Running ->
  let s' := tp_stop true s in
  tp_result_class s' = 2 /\ t_closes s' = 1 /\ t_err s' = Some TEUser /\ t_rt s' = Running.
Proof. exact tp_stop_ends_running. Qed.
Print Assumptions C17_twoparty_stop_ends_running.

Theorem C17_twoparty_stop_finished_noop : forall s, tp_terminal s = true -> tp_stop true s = s.
Proof. exact tp_stop_finished_noop. Qed.

(* -- the guard as found at the pinned commit (inverted), witnesses by computation on the Doerner keygen receiver -- *)
Theorem C17_twoparty_stop_v0_running_refuted :
  exists s, tp_reachable false true 0 2 7 9 dk_recv_shape s
            /\ t_rt s = Running /\ tp_terminal s = false
            /\ tp_stop false s = s
            /\ tp_result_class (tp_stop false s) = 0 /\ t_closes (tp_stop false s) = 0.
Proof. exact tp_stop_v0_running_refuted. Qed.
Print Assumptions C17_twoparty_stop_v0_running_refuted.

Theorem C17_twoparty_stop_v0_finished_panics_refuted :
  exists s, tp_reachable false true 0 2 7 9 dk_recv_shape s
            /\ t_rt s = Running /\ tp_terminal s = true /\ tp_result_class s = 1
            /\ t_rt (tp_stop false s) = Panicked 2
            /\ t_res (tp_stop false s) = true /\ t_err (tp_stop false s) = Some TEUser.
Proof. exact tp_stop_v0_finished_panics_refuted. Qed.
Print Assumptions C17_twoparty_stop_v0_finished_panics_refuted.

Theorem C17_twoparty_lifecycle_inv_v0_refuted :
  exists s, tp_reachable false true 0 2 7 9 dk_recv_shape s
            /\ t_rt s = Panicked 2 /\ t_res s = true /\ t_err s <> None.
Proof. exact tp_lifecycle_inv_v0_refuted. Qed.

(* the same two facts in general form: Stop as found is a no-op on EVERY unfinished state; on EVERY finished one it
   first overwrites the error (a finished session then has a result AND an error) and then panics *)
Theorem C17_twoparty_stop_v0_running_noop : forall s, tp_terminal s = false -> tp_stop false s = s.
Proof. exact tp_stop_v0_running_noop. Qed.
Theorem C17_twoparty_stop_v0_finished_panics : forall s,
  t_rt s = Running -> tp_terminal s = true -> 0 < t_closes s ->
  let s' := tp_stop false s in
  t_rt s' = Panicked 2 /\ t_err s' = Some TEUser /\ t_res s' = t_res s.
Proof. exact tp_stop_v0_finished_panics. Qed.

(* -- C05 (handler level): no message can crash the handler; invalid messages and abort notices end in a clean abort -- *)
Theorem C05_twoparty_accept_no_panic : forall leader self n ssid proto sh s m,
  shape_clean sh -> tp_reachable true leader self n ssid proto sh s ->
  forall w, t_rt (tp_accept s m) <> Panicked w.
Proof. exact tp_accept_no_panic. Qed.
Print Assumptions C05_twoparty_accept_no_panic.

(* an accepted message for the current round that the round rejects ([m_valid] = false: decoding, VerifyMessage or
   StoreMessage fail or panic), or that arrives for a round that expects none, ends the session at once *)
Theorem C05_twoparty_invalid_message_clean_abort : forall leader self n ssid proto sh s m,
  shape_clean sh -> tp_reachable true leader self n ssid proto sh s ->
  t_rt s = Running -> tp_terminal s = false -> tp_can_accept s m = true ->
  0 < m_round m -> m_round m = rnum (t_round s) -> tp_expects s && m_valid m = false ->
  let s' := tp_accept s m in
  t_closes s' = 1 /\ tp_result_class s' = 2 /\ t_err s' = Some TEVerify /\ t_rt s' = Running
  /\ t_round s' = t_round s /\ length (t_out s') <= S (length (t_out s)).
Proof. exact tp_invalid_message_clean_abort. Qed.
Print Assumptions C05_twoparty_invalid_message_clean_abort.

Theorem C05_twoparty_abort_notice_ends_session : forall leader self n ssid proto sh s m,
  shape_clean sh -> tp_reachable true leader self n ssid proto sh s ->
  t_rt s = Running -> tp_terminal s = false -> tp_can_accept s m = true -> m_round m = 0 ->
  let s' := tp_accept s m in
  t_closes s' = 1 /\ tp_result_class s' = 2 /\ t_err s' = Some TEAbortNotice /\ t_rt s' = Running.
Proof. exact tp_abort_notice_ends_session. Qed.

(* -- the loop in advance() terminates: the fuel of the model is never exhausted -- *)
Theorem C17_twoparty_advance_fuel_enough : forall k s,
  shape_increasing (t_shape s) -> tp_advance (tp_fuel s + k) s = tp_advance (tp_fuel s) s.
Proof. exact tp_advance_fuel_enough. Qed.

(* -- capacity of the out channel (2) --
   If nothing is stored for round cur+k or later and the delivered message is for a round below cur+k, one Accept
   passes at most k rounds (each Finalize emits at most one message: its channel has capacity 1): it does not block
   provided the channel has room for k messages, and emits at most k round messages plus possibly one abort notice. *)
Theorem C17_twoparty_out_capacity : forall s m k cur,
  shape_clean (t_shape s) -> shape_increasing (t_shape s) -> shape_busy (t_shape s) ->
  t_life_ok s -> t_rt s = Running -> t_round s = RNum cur ->
  quiet_from s (cur + k) -> m_round m < cur + k -> 2 <= cur + k -> t_pending s + k <= tp_capacity ->
  t_rt (tp_accept s m) = Running /\ length (t_out (tp_accept s m)) <= length (t_out s) + k + 1.
Proof. exact tp_out_capacity. Qed.
Print Assumptions C17_twoparty_out_capacity.

(* Well-drained history: the user empties Listen() after every call.  Honest-shaped traffic: every delivered message
   is for a round at most one ahead.  Then the handler never blocks on its channel of capacity 2. *)
Theorem C17_twoparty_no_block_when_drained : forall leader self n ssid proto sh es,
  shape_clean sh -> shape_increasing sh -> shape_busy sh ->
  let s0 := tp_drain_all (tp_new leader self n ssid proto sh) in
  tp_peers_one_ahead s0 es ->
  let s := tp_run_api_drained true s0 es in
  t_rt s = Running /\ t_rt s <> BlockedOnSend.
Proof. exact tp_no_block_when_drained. Qed.
Print Assumptions C17_twoparty_no_block_when_drained.

(* Without the traffic hypothesis blocking IS reachable: a peer that pre-sends its messages for all later rounds
   makes a single Accept cascade through three rounds; the third message does not fit although the user drained
   before the call. *)
Theorem C17_twoparty_block_reachable_with_presending_peer :
  let s0 := tp_drain_all (tp_new false 0 2 7 9 chain3_shape) in
  shape_clean chain3_shape /\ shape_increasing chain3_shape /\ shape_busy chain3_shape
  /\ t_rt s0 = Running /\ t_pending s0 = 0
  /\ t_rt (tp_run_api_drained true s0 chain3_presend) = BlockedOnSend
  /\ ~ tp_peers_one_ahead s0 chain3_presend.
Proof. exact tp_block_reachable_with_presending_peer. Qed.
Print Assumptions C17_twoparty_block_reachable_with_presending_peer.

(* -- latent (shape_clean is necessary): with a round whose Finalize returns (nil, nil), an Abort round without
      error or an Output round without result, abort(nil) closes the channel without recording an outcome; the state
      is reachable with the repaired guard, Result() says "not finished", and the next Stop or Accept panics -- *)
Theorem C17_twoparty_unclean_shapes_refuted :
  unclean_witness nil_fin_shape /\ unclean_witness abort_noerr_shape /\ unclean_witness output_nil_shape.
Proof. exact tp_unclean_shapes_refuted. Qed.
Print Assumptions C17_twoparty_unclean_shapes_refuted.

(* -- non-vacuity: the Doerner keygen shapes satisfy all shape conditions; reachable running states; complete honest
      runs of receiver (leader) and sender; Stop on the running state; the no-block hypotheses -- *)
Example C17_twoparty_ex_shapes :
  shape_clean dk_recv_shape /\ shape_increasing dk_recv_shape /\ shape_busy dk_recv_shape
  /\ shape_clean dk_send_shape /\ shape_increasing dk_send_shape /\ shape_busy dk_send_shape.
Proof.
  exact (conj dk_recv_clean (conj dk_recv_increasing (conj dk_recv_busy
        (conj dk_send_clean (conj dk_send_increasing dk_send_busy))))).
Qed.

Example C17_twoparty_ex_running :
  tp_reachable true true 0 2 7 9 dk_recv_shape dk_recv_start
  /\ t_rt dk_recv_start = Running /\ tp_terminal dk_recv_start = false
  /\ t_round dk_recv_start = RNum 2 /\ t_pending dk_recv_start = 1
  /\ tp_reachable true false 1 2 7 9 dk_send_shape dk_send_start
  /\ t_round dk_send_start = RNum 1 /\ t_pending dk_send_start = 0.
Proof.
  split; [exists []; reflexivity|]. split; [reflexivity|]. split; [reflexivity|]. split; [reflexivity|].
  split; [reflexivity|]. split; [exists []; reflexivity|]. split; reflexivity.
Qed.

Example C17_twoparty_ex_honest_runs_finish :
  let r := tp_run_api true dk_recv_start dk_recv_honest in
  let s := tp_run_api true dk_send_start dk_send_honest in
  tp_terminal r = true /\ tp_result_class r = 1 /\ t_closes r = 1 /\ t_rt r = Running /\ length (t_out r) = 3
  /\ tp_terminal s = true /\ tp_result_class s = 1 /\ t_closes s = 1 /\ t_rt s = Running /\ length (t_out s) = 2.
Proof. vm_compute. repeat split. Qed.

(* the receiver's three messages do not fit into the channel if the user never reads it *)
Example C17_twoparty_ex_undrained_blocks :
  t_rt (tp_run_api true dk_recv_start [TAccept (dmsg 1 2 102 true); TAccept (dmsg 1 3 103 true)]) = BlockedOnSend.
Proof. vm_compute. reflexivity. Qed.

Example C17_twoparty_ex_stop_running :
  let s := tp_stop true dk_recv_start in tp_result_class s = 2 /\ t_closes s = 1 /\ t_err s = Some TEUser.
Proof. vm_compute. repeat split. Qed.

Example C17_twoparty_ex_hypotheses_no_block :
  tp_peers_one_ahead (tp_drain_all dk_recv_start) [TAccept (dmsg 1 2 102 true); TAccept (dmsg 1 3 103 true)]
  /\ tp_peers_one_ahead (tp_drain_all dk_send_start) dk_send_honest.
Proof. split; cbn [tp_peers_one_ahead dk_send_honest]; repeat split; vm_compute; lia. Qed.

Example C05_twoparty_ex_invalid_and_notice :
  let bad := dmsg 1 2 999 false in
  let notice := dmsg 1 0 998 true in
  tp_can_accept dk_recv_start bad = true /\ m_round bad = rnum (t_round dk_recv_start)
  /\ tp_expects dk_recv_start && m_valid bad = false
  /\ t_err (tp_accept dk_recv_start bad) = Some TEVerify /\ t_closes (tp_accept dk_recv_start bad) = 1
  /\ tp_can_accept dk_recv_start notice = true
  /\ t_err (tp_accept dk_recv_start notice) = Some TEAbortNotice /\ t_closes (tp_accept dk_recv_start notice) = 1.
Proof. vm_compute. repeat split. Qed.
