(* C07 (tie to the source): the decision logic of the two handlers -- which messages are accepted, which are dropped as
   duplicates, when a message is for us, when the p2p queue is consulted, when a two-party round may advance -- is
   TRANSLATED FROM /repo ON EVERY RUN (Generated/Guards.v, by verifgen/gen_guards.go) and proved equal to the model
   functions that the C06/C07/C17 theorems are about.  A guard changed in the code (dropped term, && for ||, another
   comparison, a reordered early return that changes the result or dereferences a nil message) breaks a theorem here at
   compile time, before any harness run.
   [geval] is Go's evaluation (left to right, short-circuit); an environment maps each atom (source text) to the model
   boolean, or to None where the atom must not be evaluated (nil message, absent digest). *)
From Coq Require Import String List Bool Arith NArith ZArith.
From MPS Require Import Model.Handler Model.TwoParty Generated.Guards Proofs.GuardsBase Proofs.GuardsProofs.
Import ListNotations.
Local Open Scope string_scope.
Local Open Scope nat_scope.
Local Open Scope list_scope.

(* ---- obligations on the generated file ---- *)
Theorem C07_guards_handlers_translated :
  translated ["MultiHandler_canAccept"; "MultiHandler_Accept_guard"; "MultiHandler_duplicate"; "MultiHandler_sameBroadcastView";
              "expectsNormalMessage"; "TwoPartyHandler_canAccept"; "TwoPartyHandler_Accept_guard"; "TwoPartyHandler_canAdvance";
              "Message_IsFor"] = true.
Proof. exact guards_handlers_translated. Qed.
Print Assumptions C07_guards_handlers_translated.

Theorem C07_guards_table :
  map fst go_guards =
  ["MultiHandler_canAccept"; "MultiHandler_Accept_guard"; "MultiHandler_Stop_guard"; "MultiHandler_duplicate";
   "MultiHandler_sameBroadcastView"; "expectsNormalMessage"; "TwoPartyHandler_canAccept"; "TwoPartyHandler_Accept_guard";
   "TwoPartyHandler_Stop_guard"; "TwoPartyHandler_canAdvance"; "Message_IsFor"; "Commitment_Validate";
   "Decommitment_Validate"; "IDSlice_Valid"; "NewSession_checks"].
Proof. exact guards_table_ok. Qed.
Print Assumptions C07_guards_table.

(* the local names that occur in atoms are bound to the expressions the environments read them as *)
Theorem C07_guards_lets :
  go_MultiHandler_canAccept_lets = [("r", "h.currentRound")] /\
  go_MultiHandler_sameBroadcastView_lets = [("previousHash", "h.broadcastHashes[msg.RoundNumber-1]")] /\
  go_TwoPartyHandler_canAccept_lets = [("r", "h.round")] /\
  go_MultiHandler_Accept_guard_lets = [] /\ go_MultiHandler_duplicate_lets = [] /\
  go_expectsNormalMessage_lets = [] /\ go_TwoPartyHandler_Accept_guard_lets = [] /\
  go_TwoPartyHandler_canAdvance_lets = [] /\ go_Message_IsFor_lets = [].
Proof. exact guards_handler_lets_ok. Qed.
Print Assumptions C07_guards_lets.

(* ---- MultiHandler ---- *)
(* canAccept, including the nil test coming first ([om = None] is a nil *Message) *)
Theorem C07_guards_mh_canAccept : forall s om,
  geval (alookup (env_mh s om)) go_MultiHandler_canAccept
  = Some (match om with Some m => can_accept s m | None => false end).
Proof. exact mh_canAccept. Qed.
Print Assumptions C07_guards_mh_canAccept.

(* the early-return guard of Accept is the test under which the model's accept leaves the state unchanged *)
Theorem C07_guards_mh_accept_guard : forall s om,
  geval (alookup (env_mh s om)) go_MultiHandler_Accept_guard = Some (mh_accept_guard_model s om).
Proof. exact mh_accept_guard. Qed.
Print Assumptions C07_guards_mh_accept_guard.

Theorem C07_guards_mh_accept_structure : forall vh ofp s m,
  accept vh ofp s m =
  match h_rt s with
  | Running =>
      recover_abort      (* "defer h.recoverToAbort()": see C17_guards_preambles *)
        (if mh_accept_guard_model s (Some m) then s
         else if m_round m =? 0 then abort s (Some ([m_from m], EAbortNotice))
         else let s1 := store s m in
              if negb (h_cur s1 =? m_round m) then s1
              else match (if m_bcast m then verify_bcast s1 m else verify_p2p s1 m) with
                   | VOk => finalize vh ofp (fuel_of s1) s1
                   | VBad => abort s1 (Some ([m_from m], EVerify))
                   | VHash => abort s1 (Some ([], EBroadcastHash))
                   | VPanic => raise_panic s1
                   end)
  | _ => s
  end.
Proof. exact mh_accept_guard_is_models. Qed.
Print Assumptions C07_guards_mh_accept_structure.

Theorem C07_guards_mh_accept_early_return : forall vh ofp s m,
  geval (alookup (env_mh s (Some m))) go_MultiHandler_Accept_guard = Some true -> accept vh ofp s m = s.
Proof. exact mh_accept_early_return. Qed.
Print Assumptions C07_guards_mh_accept_early_return.

Theorem C07_guards_mh_duplicate : forall s m,
  geval (alookup (env_mh s (Some m))) go_MultiHandler_duplicate = Some (duplicate s m).
Proof. exact mh_duplicate. Qed.
Print Assumptions C07_guards_mh_duplicate.

Theorem C07_guards_mh_sameBroadcastView : forall s m,
  geval (alookup (env_mh s (Some m))) go_MultiHandler_sameBroadcastView = Some (same_view s m).
Proof. exact mh_sameBroadcastView. Qed.
Print Assumptions C07_guards_mh_sameBroadcastView.

Theorem C07_guards_expectsNormalMessage : forall sh r,
  geval (alookup (env_round sh r)) go_expectsNormalMessage = Some (expects_p2p sh r).
Proof. exact mh_expectsNormalMessage. Qed.
Print Assumptions C07_guards_expectsNormalMessage.

Theorem C07_guards_msg_IsFor : forall self m,
  geval (alookup (env_isfor self m)) go_Message_IsFor = Some (is_for self m).
Proof. exact msg_IsFor. Qed.
Print Assumptions C07_guards_msg_IsFor.

(* ---- TwoPartyHandler ---- *)
Theorem C07_guards_tp_canAccept : forall s om,
  geval (alookup (env_tp s om)) go_TwoPartyHandler_canAccept
  = Some (match om with Some m => tp_can_accept s m | None => false end).
Proof. exact tp_canAccept. Qed.
Print Assumptions C07_guards_tp_canAccept.

Theorem C07_guards_tp_accept_guard : forall s om,
  geval (alookup (env_tp s om)) go_TwoPartyHandler_Accept_guard = Some (tp_accept_guard_model s om).
Proof. exact tp_accept_guard. Qed.
Print Assumptions C07_guards_tp_accept_guard.

Theorem C07_guards_tp_accept_early_return : forall s m,
  geval (alookup (env_tp s (Some m))) go_TwoPartyHandler_Accept_guard = Some true -> tp_accept s m = s.
Proof. exact tp_accept_early_return. Qed.
Print Assumptions C07_guards_tp_accept_early_return.

Theorem C07_guards_tp_canAdvance : forall s om,
  geval (alookup (env_tp s om)) go_TwoPartyHandler_canAdvance = Some (tp_can_advance s).
Proof. exact tp_canAdvance. Qed.
Print Assumptions C07_guards_tp_canAdvance.

(* every atom of every translated handler function is known to its environment *)
Theorem C07_guards_atoms_known :
  known (env_mh dummy_h (Some dummy_msg)) go_MultiHandler_canAccept &&
  known (env_mh dummy_h (Some dummy_msg)) go_MultiHandler_Accept_guard &&
  known (env_mh dummy_h (Some dummy_msg)) go_MultiHandler_duplicate &&
  known (env_mh dummy_h (Some dummy_msg)) go_MultiHandler_sameBroadcastView &&
  known (env_round (h_shape dummy_h) 0) go_expectsNormalMessage &&
  known (env_tp dummy_t (Some dummy_msg)) go_TwoPartyHandler_canAccept &&
  known (env_tp dummy_t (Some dummy_msg)) go_TwoPartyHandler_Accept_guard &&
  known (env_tp dummy_t (Some dummy_msg)) go_TwoPartyHandler_canAdvance &&
  known (env_isfor 0 dummy_msg) go_Message_IsFor = true.
Proof. exact guards_handler_atoms_known. Qed.
Print Assumptions C07_guards_atoms_known.

(* ---- non-vacuity: the environments discriminate ---- *)
(* party 0 of 3, protocol 9, session 7, in round 2 of 3 (round 2 broadcast, round 3 p2p) *)
Definition ex_shape := mkShape 3 (fun r => Nat.eqb r 2) (fun r => if Nat.eqb r 3 then P2PAll else NoP2P).
Definition ex_h : hstate := mkH 0 3 7 9 ex_shape 2 [2; 1] [] [] [(1, 5%N)] None false [] 0 0 Running.
Definition ex_m (from rnd : nat) (bv : N) : msg := mkMsg 7 9 from None rnd true true bv 11 true NoPanic.

Example C07_guards_ex_accepts :
  geval (alookup (env_mh ex_h (Some (ex_m 1 2 5)))) go_MultiHandler_canAccept = Some true /\
  geval (alookup (env_mh ex_h (Some (ex_m 1 2 5)))) go_MultiHandler_Accept_guard = Some false.
Proof. split; vm_compute; reflexivity. Qed.
Example C07_guards_ex_rejects :
  (* stale round, own message, unknown sender, round beyond the last, nil *)
  geval (alookup (env_mh ex_h (Some (ex_m 1 1 5)))) go_MultiHandler_canAccept = Some false /\
  geval (alookup (env_mh ex_h (Some (ex_m 0 2 5)))) go_MultiHandler_canAccept = Some false /\
  geval (alookup (env_mh ex_h (Some (ex_m 3 2 5)))) go_MultiHandler_canAccept = Some false /\
  geval (alookup (env_mh ex_h (Some (ex_m 1 4 5)))) go_MultiHandler_canAccept = Some false /\
  geval (alookup (env_mh ex_h None)) go_MultiHandler_canAccept = Some false /\
  geval (alookup (env_mh ex_h None)) go_MultiHandler_Accept_guard = Some true.
Proof. repeat split; vm_compute; reflexivity. Qed.
Example C07_guards_ex_view :
  geval (alookup (env_mh ex_h (Some (ex_m 1 2 5)))) go_MultiHandler_sameBroadcastView = Some true /\
  geval (alookup (env_mh ex_h (Some (ex_m 1 2 6)))) go_MultiHandler_sameBroadcastView = Some false /\
  geval (alookup (env_mh ex_h (Some (ex_m 1 3 6)))) go_MultiHandler_sameBroadcastView = Some true.   (* no digest of round 2 yet *)
Proof. repeat split; vm_compute; reflexivity. Qed.
(* a round-1 message has no queue: duplicate says "already received" *)
Example C07_guards_ex_duplicate :
  geval (alookup (env_mh ex_h (Some (ex_m 1 1 5)))) go_MultiHandler_duplicate = Some true /\
  geval (alookup (env_mh ex_h (Some (ex_m 1 2 5)))) go_MultiHandler_duplicate = Some false /\
  geval (alookup (env_mh (store ex_h (ex_m 1 2 5)) (Some (ex_m 1 2 5)))) go_MultiHandler_duplicate = Some true.
Proof. repeat split; vm_compute; reflexivity. Qed.

(* what the theorems exclude, shown on mutants of the generated expressions: *)
(* an atom with another comparison operator is unknown *)
Example C07_guards_mutant_operator :
  geval (alookup (env_mh ex_h (Some (ex_m 1 2 5)))) (GNot (GAtom "msg.RoundNumber >= r.FinalRoundNumber()")) = None.
Proof. reflexivity. Qed.
(* the nil test moved behind a dereference is undefined on a nil message *)
Example C07_guards_mutant_order :
  geval (alookup (env_mh ex_h None)) (GAnd (GAtom "msg.IsFor(r.SelfID())") (GNot (GAtom "msg == nil"))) = None.
Proof. reflexivity. Qed.
(* `h.result != nil` dropped from Accept's guard: differs from the model once the handler holds a result *)
Example C07_guards_mutant_dropped_term :
  let s := mkH 0 3 7 9 ex_shape 2 [2; 1] [] [] [(1, 5%N)] None true [] 0 0 Running in
  geval (alookup (env_mh s (Some (ex_m 1 2 5))))
        (GOr (GOr (GNot (GAtom "h.canAccept(msg)")) (GAtom "h.err != nil")) (GAtom "h.duplicate(msg)"))
  <> Some (mh_accept_guard_model s (Some (ex_m 1 2 5))).
Proof. vm_compute. discriminate. Qed.
(* two checks of canAccept joined by || instead of &&: a message of another session gets through *)
Example C07_guards_mutant_or :
  let m := mkMsg 8 9 1 None 2 true true 5 11 true NoPanic in
  geval (alookup (env_mh ex_h (Some m)))
        (GAnd (GNot (GAtom "msg == nil")) (GAnd (GAtom "msg.IsFor(r.SelfID())")
          (GOr (GNot (GAtom "msg.Protocol != r.ProtocolID()")) (GAtom "bytes.Equal(msg.SSID, r.SSID())"))))
  = Some true /\ can_accept ex_h m = false.
Proof. split; vm_compute; reflexivity. Qed.

(* two-party: receiver in round 1 waiting for the leader's message *)
Definition ex_tshape := mkTShape 3 (fun r => negb (Nat.eqb r 0)) (fun _ => TFNil).
Definition ex_t : tstate := mkT 1 2 7 9 ex_tshape false (RNum 1) [] None false [] 0 0 Running.
Example C07_guards_ex_twoparty :
  geval (alookup (env_tp ex_t (Some (ex_m 0 1 0)))) go_TwoPartyHandler_canAccept = Some true /\
  geval (alookup (env_tp ex_t (Some (ex_m 0 4 0)))) go_TwoPartyHandler_canAccept = Some false /\
  geval (alookup (env_tp ex_t None)) go_TwoPartyHandler_Accept_guard = Some true /\
  geval (alookup (env_tp ex_t None)) go_TwoPartyHandler_canAdvance = Some false /\
  geval (alookup (env_tp (tp_store ex_t (ex_m 0 1 0)) None)) go_TwoPartyHandler_canAdvance = Some true.
Proof. repeat split; vm_compute; reflexivity. Qed.

(* ---- the loud-failure obligation for the WHOLE list of functions given to the translator (kept last in this file): a listed
   function whose body leaves the translated fragment (or disappears) is reported here, whatever property it belongs to;
   the per-property files state the same for their own functions ([translated ...]). ---- *)
Theorem C07_guards_all_translated : guards_untranslatable = [].
Proof. exact guards_all_translated. Qed.
Print Assumptions C07_guards_all_translated.
