(* C04 (handler level, equivocation) -- who can be named by an honest party's own verification failure.
   Only statements, each closed by [exact] of a lemma proved in Proofs/SystemProofs.v.

   Finding (defect D7): with the handler as it is, the view-digest comparison (checkBroadcastHash) is only
   evaluated in finalize(), AFTER verifyBroadcastMessage/verifyMessage of the arriving message.  If the
   validity of a round-(k+1) message depends on the round-k view (FROST sign round 3, CMP sign round 4),
   an equivocating E makes honest A reject honest B's authentic message and NAME B.
   [m_valid] is an oracle in the model; "validity depends on the view" is expressed by the recipient-side
   oracle [view_dependent_valid]: a round-(k+1) message is valid at a recipient iff the digest it carries
   equals the recipient's digest of round k. *)
From Coq Require Import List NArith ZArith Bool Arith.
From MPS Require Import Model.Handler Model.System Proofs.SystemProofs.
Import ListNotations.

(* REFUTED: "an honest party is never named".  n = 3, A = 0, B = 1 honest, E = 2; shape: rounds 2 and 3 are
   broadcast rounds.  E sends fingerprint 111 to A and 222 to B as its round-2 broadcast. *)
Theorem C04_handler_blame_refuted :
  authenticb 2 (equiv_sched ++ [Deliver 0 1; Deliver 1 1]) = true
  /\ In (0, blame_msgB) (s_net blame_run0)
  /\ m_from blame_msgB = 1 /\ m_round blame_msgB = 3 /\ m_valid blame_msgB = true
  /\ blame_msgB = msg_of_out fp_cantor (s_h blame_run0 1) (mkOut None 3 true (m_bv blame_msgB))
  /\ In (mkOut None 3 true (m_bv blame_msgB)) (h_out (s_h blame_run0 1))
  /\ stored_fp (s_h blame_run0 0) 2 2 <> stored_fp (s_h blame_run0 1) 2 2
  /\ view_dependent_valid (s_h blame_run0 0) blame_msgB = false
  /\ view_dependent_valid (s_h blame_run0 1) blame_msgB = true
  /\ check_broadcast_hash (store (s_h blame_run0 0) blame_msgB) = false
  /\ h_err (s_h blame_run 0) = Some ([1], EVerify)
  /\ h_err (s_h blame_run 1) = Some ([0], EVerify).
Proof. exact handler_blame_refuted. Qed.
Print Assumptions C04_handler_blame_refuted.

(* the same equivocation when validity does not depend on the view: the comparison in finalize fires and
   nobody is named *)
Theorem C04_equivocation_without_view_dependence :
  h_err (s_h blame_run_keep 0) = Some ([], EBroadcastHash).
Proof. exact equivocation_without_view_dependence. Qed.

(* SOUND under the hypothesis that the defect violates: if no valid message of an honest party is ever
   rejected by a recipient's round (validity oracle), then for ANY n, shape, schedule with arbitrary
   injections by E, any party's EVerify culprits are within {E}. *)
Theorem C04_handler_blame_sound_given_valid :
  forall (view_hash : nat -> list N -> N) (fp : party -> bool -> option party -> nat -> N)
         (validity : hstate -> msg -> bool) (n : nat) (ssid proto : N) (sh : shape) (E : party),
  (forall s m, m_from m <> E -> m_valid m = true -> validity s m = true) ->
  forall (sched : list sched_ev) (A : party) (c : list party),
  authenticb E sched = true ->
  h_err (s_h (run view_hash fp validity n (init_sys view_hash fp n ssid proto sh) sched) A) = Some (c, EVerify) ->
  incl c [E].
Proof. exact blame_sound_given_valid. Qed.
Print Assumptions C04_handler_blame_sound_given_valid.

(* ---- Examples (non-vacuity) ---- *)
(* keep_valid satisfies the hypothesis *)
Example C04_keep_valid_ok : forall E s m, m_from m <> E -> m_valid m = true -> keep_valid s m = true.
Proof. intros E s m _ H. exact H. Qed.
(* view_dependent_valid does NOT (that is the defect): B's valid message is rejected at A *)
Example C04_view_dependent_violates :
  m_from blame_msgB <> 2 /\ m_valid blame_msgB = true /\ view_dependent_valid (s_h blame_run0 0) blame_msgB = false.
Proof. vm_compute. repeat split; try reflexivity; discriminate. Qed.
(* a run in which the conclusion is non-trivial: E injects an invalid round-2 broadcast, A names E *)
Example C04_invalid_message_of_E_names_E :
  let st := run vh_pos fp_cantor keep_valid 3 (init_sys vh_pos fp_cantor 3 7 9 shape_bb3)
                [Inject 0 (mkMsg 7 9 2 None 2 true true 0 111 false)] in
  h_err (s_h st 0) = Some ([2], EVerify).
Proof. vm_compute. reflexivity. Qed.
