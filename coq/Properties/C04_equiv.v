(* C04 (handler level, equivocation) -- who can be named by an honest party's abort.
   Only statements, each closed by [exact] of a lemma proved in Proofs/SystemProofs.v.

   History: at the pinned commit the view-digest comparison was made only in finalize(), AFTER
   verification of the arriving message, so an equivocating E made honest A reject honest B's authentic
   message and NAME B (defect D7; the model of that handler refuted this file's main theorem by the run
   [blame_run] below).  The handler now compares the attached view digest right before a message is
   processed (verdict VHash => abort without culprit); Model/Handler.v models the repaired handler and
   the theorem holds.  No model of the old verification order is kept, so there is no _v0 statement.

   VALIDITY ASSUMPTION of C04_handler_blame_sound (view-dependent validity): a message of an honest
   party that is valid as sent (m_valid = true) is accepted by the recipient's round whenever the view
   digest attached to it equals the recipient's own digest of the previous round (same_view) -- i.e.
   honest messages may be rejected ONLY because the two parties saw different broadcasts.  The oracle
   [view_dependent_valid] of Model/System.v (valid iff flagged valid and same view) is the weakest such
   oracle.  [m_valid]/[validity] are oracles in the model; soundness of the rounds' own checks is not
   part of this theorem. *)
From Coq Require Import List NArith ZArith Bool Arith.
From MPS Require Import Model.Handler Model.System Proofs.SystemProofs.
Import ListNotations.

(* any n, any shape, any oracles satisfying the assumption, corrupted E with arbitrary injections, any
   schedule: whatever error ANY party ends with, EVerify names at most E and EBroadcastHash names nobody *)
Theorem C04_handler_blame_sound :
  forall (view_hash : nat -> list N -> N) (fp : party -> bool -> option party -> nat -> N)
         (validity : hstate -> msg -> bool) (n : nat) (ssid proto : N) (sh : shape) (E : party),
  (forall s m, m_from m <> E -> m_valid m = true -> same_view s m = true -> validity s m = true) ->
  forall (sched : list sched_ev) (A : party) (c : list party) (k : errkind),
  authenticb E sched = true ->
  h_err (s_h (run view_hash fp validity n (init_sys view_hash fp n ssid proto sh) sched) A) = Some (c, k) ->
  (k = EVerify -> incl c [E]) /\ (k = EBroadcastHash -> c = []).
Proof. exact blame_sound. Qed.
Print Assumptions C04_handler_blame_sound.

(* the instance for the view-dependent oracle of Model/System.v *)
Theorem C04_handler_blame_sound_view_dependent :
  forall (view_hash : nat -> list N -> N) (fp : party -> bool -> option party -> nat -> N)
         (n : nat) (ssid proto : N) (sh : shape) (E : party)
         (sched : list sched_ev) (A : party) (c : list party) (k : errkind),
  authenticb E sched = true ->
  h_err (s_h (run view_hash fp view_dependent_valid n (init_sys view_hash fp n ssid proto sh) sched) A) = Some (c, k) ->
  (k = EVerify -> incl c [E]) /\ (k = EBroadcastHash -> c = []).
Proof. exact blame_sound_view_dependent. Qed.
Print Assumptions C04_handler_blame_sound_view_dependent.

(* special case (stronger assumption): the oracle never rejects a valid message of an honest party *)
Theorem C04_handler_blame_sound_given_valid :
  forall (view_hash : nat -> list N -> N) (fp : party -> bool -> option party -> nat -> N)
         (validity : hstate -> msg -> bool) (n : nat) (ssid proto : N) (sh : shape) (E : party),
  (forall s m, m_from m <> E -> m_valid m = true -> validity s m = true) ->
  forall (sched : list sched_ev) (A : party) (c : list party),
  authenticb E sched = true ->
  h_err (s_h (run view_hash fp validity n (init_sys view_hash fp n ssid proto sh) sched) A) = Some (c, EVerify) ->
  incl c [E].
Proof. exact blame_sound_given_valid. Qed.

(* the run that refuted the theorem for the old handler: n = 3, A = 0, B = 1 honest, E = 2; rounds 2 and 3
   are broadcast rounds; E sends fingerprint 111 to A and 222 to B as its round-2 broadcast; then A gets
   B's authentic round-3 broadcast (not valid AT A, views differ) and vice versa.  Now: nobody is named. *)
Theorem C04_equivocation_names_nobody :
  authenticb 2 (equiv_sched ++ [Deliver 0 1; Deliver 1 1]) = true
  /\ In (0, blame_msgB) (s_net blame_run0)
  /\ m_from blame_msgB = 1 /\ m_round blame_msgB = 3 /\ m_valid blame_msgB = true
  /\ blame_msgB = msg_of_out fp_cantor (s_h blame_run0 1) (mkOut None 3 true (m_bv blame_msgB))
  /\ In (mkOut None 3 true (m_bv blame_msgB)) (h_out (s_h blame_run0 1))
  /\ stored_fp (s_h blame_run0 0) 2 2 <> stored_fp (s_h blame_run0 1) 2 2
  /\ view_dependent_valid (s_h blame_run0 0) blame_msgB = false
  /\ view_dependent_valid (s_h blame_run0 1) blame_msgB = true
  /\ same_view (s_h blame_run0 0) blame_msgB = false
  /\ h_err (s_h blame_run 0) = Some ([], EBroadcastHash)
  /\ h_err (s_h blame_run 1) = Some ([], EBroadcastHash).
Proof. exact equivocation_names_nobody. Qed.
Print Assumptions C04_equivocation_names_nobody.

(* same when B's message was queued before A completed round 2 (examined in finalize) *)
Theorem C04_equivocation_names_nobody_queued :
  authenticb 2 early_sched = true /\ h_err (s_h early_run 0) = Some ([], EBroadcastHash).
Proof. exact equivocation_names_nobody_queued. Qed.

(* and when validity does not depend on the view: the comparison in finalize fires *)
Theorem C04_equivocation_without_view_dependence :
  h_err (s_h blame_run_keep 0) = Some ([], EBroadcastHash).
Proof. exact equivocation_without_view_dependence. Qed.

(* ---- Examples (non-vacuity) ---- *)
(* both oracles of Model/System.v satisfy the validity assumption *)
Example C04_view_dependent_valid_ok : forall E s m,
  m_from m <> E -> m_valid m = true -> same_view s m = true -> view_dependent_valid s m = true.
Proof. exact view_dependent_valid_ok. Qed.
Example C04_keep_valid_ok : forall E s m,
  m_from m <> E -> m_valid m = true -> same_view s m = true -> keep_valid s m = true.
Proof. intros E s m _ H _. exact H. Qed.
(* the assumption is not "honest messages are always valid": B's valid message IS rejected at A *)
Example C04_view_dependent_rejects_honest :
  m_from blame_msgB <> 2 /\ m_valid blame_msgB = true /\ view_dependent_valid (s_h blame_run0 0) blame_msgB = false.
Proof. vm_compute. repeat split; try reflexivity; discriminate. Qed.
(* a run in which the EVerify conclusion is non-trivial: E injects an invalid round-2 broadcast, A names E *)
Example C04_invalid_message_of_E_names_E :
  let st := run vh_pos fp_cantor view_dependent_valid 3 (init_sys vh_pos fp_cantor 3 7 9 shape_bb3)
                [Inject 0 (mkMsg 7 9 2 None 2 true true 0 111 false NoPanic)] in
  h_err (s_h st 0) = Some ([2], EVerify).
Proof. vm_compute. reflexivity. Qed.
