(* C17 -- Handler lifecycle is well-defined and safe (sequential part, handler level).
   Model: Model/Handler.v (MultiHandler control logic); [stop true] = the repaired Stop guard,
   [stop false] = the guard as found at the pinned commit.  All theorems hold for an arbitrary shape,
   arbitrary oracles vh/ofp, arbitrary n, arbitrary messages and arbitrary API histories
   (lists of Accept m | Stop | Drain k, no length bound); "arbitrary messages" includes messages on which the round
   code panics ([m_panic]): [accept] recovers such a panic into a clean abort, [accept_v0] (Accept before that fix) does not.
   Only statements, each closed by [exact] of a lemma proved in Proofs/HandlerProofs.v. *)
From Coq Require Import List NArith ZArith Bool Arith Lia.
From MPS Require Import Model.Handler Proofs.HandlerProofs.
Import ListNotations.

(* -- lifecycle invariant on every reachable state (repaired guard) -- *)
Theorem C17_lifecycle_inv : forall vh ofp self n ssid proto sh s,
  reachable true vh ofp self n ssid proto sh s ->
  h_closes s <= 1
  /\ (h_closes s = 1 <-> terminal s = true)
  /\ ~ (h_res s = true /\ h_err s <> None)
  /\ (forall w, h_rt s <> Panicked w).
Proof. exact lifecycle_inv. Qed.
Print Assumptions C17_lifecycle_inv.

(* the invariant covers histories in which the round code panics on messages: the runtime state [Panicked] is not
   reachable with the recovery in place (above), and IS reachable without it (C17_panic_v0_escapes_refuted below) *)

(* -- once terminal, every further call leaves the state unchanged (Drain only touches h_pending) -- *)
Theorem C17_terminal_stable_step : forall vh ofp s e,
  terminal s = true ->
  let s' := api_step true vh ofp s e in
  same_but_pending s s' /\ ((forall k, e <> Drain k) -> s' = s).
Proof. exact terminal_stable_step. Qed.

Theorem C17_terminal_stable : forall vh ofp es s,
  terminal s = true ->
  let s' := run_api true vh ofp s es in
  same_but_pending s s' /\ terminal s' = true /\ result_class s' = result_class s.
Proof. exact terminal_stable. Qed.
Print Assumptions C17_terminal_stable.

(* -- the end reached through a recovered panic of the round code is an end like any other: whatever is called
   afterwards (any message, Stop, Drain), the answer of Result() stays "panic while processing message", nobody named,
   the channel stays closed exactly once, nothing panics -- *)
Theorem C17_panic_contained_stable : forall vh ofp s m es,
  life_ok s -> h_rt s = Running ->
  is_panicked (h_rt (accept_v0 vh ofp s m)) = true ->
  let s1 := accept vh ofp s m in
  let s2 := run_api true vh ofp s1 es in
  same_but_pending s1 s2
  /\ h_rt s2 = Running /\ h_err s2 = Some ([], EPanic) /\ h_res s2 = false /\ result_class s2 = 2 /\ h_closes s2 = 1.
Proof. exact panic_contained_stable. Qed.
Print Assumptions C17_panic_contained_stable.

(* -- Accept without the deferred recover (before the fix): the panic escapes, the handler is left crashed in the
   middle of the session, never closed, Result() still "not finished" -- *)
Theorem C17_panic_v0_escapes_refuted : forall vh ofp,
  exists s, reachable_v0rec vh ofp 0 2 7 9 xor_shape s
            /\ h_rt s = Panicked 3 /\ result_class s = 0 /\ h_closes s = 0.
Proof. exact panic_v0_escapes_refuted. Qed.
Print Assumptions C17_panic_v0_escapes_refuted.

(* the same history through Accept as it is *)
Theorem C17_panic_contained_witness : forall vh ofp,
  let s := run_api true vh ofp (xor_start vh ofp) [Accept xor_panic_msg] in
  reachable true vh ofp 0 2 7 9 xor_shape s
  /\ h_rt s = Running /\ h_err s = Some ([], EPanic) /\ result_class s = 2 /\ h_closes s = 1
  /\ h_cur s = 2 /\ h_qp s = [(2, 1, xor_panic_msg)]
  /\ h_out s = [mkOut None 2 false 0%N; mkOut None 0 false 0%N].
Proof. exact panic_contained_witness. Qed.
Print Assumptions C17_panic_contained_witness.

(* -- Stop -- *)
Theorem C17_stop_ends_running : forall vh ofp self n ssid proto sh s,
  reachable true vh ofp self n ssid proto sh s ->
  terminal s = false -> h_rt s = Running ->
  let s' := stop true s in
  result_class s' = 2 /\ h_closes s' = 1 /\ h_err s' = Some ([h_self s], EUser).
Proof. exact stop_ends_running. Qed.
Print Assumptions C17_stop_ends_running.

Theorem C17_stop_finished_noop : forall s, terminal s = true -> stop true s = s.
Proof. exact stop_finished_noop. Qed.

(* -- the guard as found at the pinned commit (inverted) -- *)
Theorem C17_stop_v0_running_refuted : forall vh ofp,
  exists s, reachable false vh ofp 0 2 7 9 xor_shape s
            /\ h_rt s = Running /\ terminal s = false
            /\ stop false s = s
            /\ result_class (stop false s) = 0 /\ h_closes (stop false s) = 0.
Proof. exact stop_v0_running_refuted. Qed.
Print Assumptions C17_stop_v0_running_refuted.

Theorem C17_stop_v0_finished_panics_refuted : forall vh ofp,
  exists s, reachable false vh ofp 0 2 7 9 xor_shape s
            /\ h_rt s = Running /\ terminal s = true /\ result_class s = 1
            /\ h_rt (stop false s) = Panicked 2.
Proof. exact stop_v0_finished_panics_refuted. Qed.
Print Assumptions C17_stop_v0_finished_panics_refuted.

Theorem C17_lifecycle_inv_v0_refuted : forall vh ofp,
  exists s, reachable false vh ofp 0 2 7 9 xor_shape s /\ h_rt s = Panicked 2.
Proof. exact lifecycle_inv_v0_refuted. Qed.

(* the same two facts in general form: Stop as found is a no-op on EVERY unfinished state and panics
   ("send on closed channel") on EVERY finished one *)
Theorem C17_stop_v0_running_noop : forall s, terminal s = false -> stop false s = s.
Proof. exact stop_v0_running_noop. Qed.
Theorem C17_stop_v0_finished_panics : forall s,
  h_rt s = Running -> terminal s = true -> 0 < h_closes s -> h_rt (stop false s) = Panicked 2.
Proof. exact stop_v0_finished_panics. Qed.

(* -- capacity of the out channel --
   If no peer message is queued for round cur+k or later and the delivered message is for a round below
   cur+k, one Accept finalizes at most k rounds: it does not block provided the channel has room for k*n
   messages, and it emits at most k*n round messages plus possibly one abort notice.
   (n >= 2, self a party, every queued round expects something from the peers.) *)
Theorem C17_out_capacity : forall vh ofp s m k,
  life_ok s -> h_rt s = Running -> 1 <= h_cur s -> 1 <= k ->
  h_self s < h_n s -> 2 <= h_n s -> busy_shape (h_shape s) ->
  quiet_from s (h_cur s + k) -> m_round m < h_cur s + k ->
  h_pending s + k * h_n s <= capacity s ->
  let s' := accept vh ofp s m in
  h_rt s' = Running /\ length (h_out s') <= length (h_out s) + k * h_n s + 1.
Proof. exact out_capacity. Qed.
Print Assumptions C17_out_capacity.

(* Well-drained history: the user empties Listen() after every call ([api_step_drained] sets h_pending := 0).
   Honest-shaped traffic: every delivered message is for a round at most one ahead ([peers_one_ahead]).
   Then the runtime never becomes BlockedOnSend (corollary of out_capacity with k = 2: 2n = capacity). *)
Theorem C17_no_block_when_drained : forall vh ofp self n ssid proto sh es,
  self < n -> 2 <= n -> busy_shape sh ->
  let s0 := drain_all (new_handler vh ofp self n ssid proto sh) in
  peers_one_ahead vh ofp s0 es ->
  let s := run_api_drained true vh ofp s0 es in
  h_rt s = Running /\ h_rt s <> BlockedOnSend.
Proof. exact no_block_when_drained. Qed.
Print Assumptions C17_no_block_when_drained.

(* Without the traffic hypothesis blocking IS reachable: a peer (n = 2) that pre-sends its messages for all
   later rounds makes a single Accept cascade through 5 rounds; the 5th message does not fit into the
   channel of capacity 2n = 4 although the user drained before the call. *)
Theorem C17_block_reachable_with_presending_peer : forall vh ofp,
  let s0 := drain_all (new_handler vh ofp 0 2 7 9 chain_shape) in
  0 < 2 /\ 2 <= 2 /\ busy_shape chain_shape
  /\ h_rt s0 = Running /\ h_pending s0 = 0
  /\ h_rt (run_api_drained true vh ofp s0 presend) = BlockedOnSend
  /\ ~ peers_one_ahead vh ofp s0 presend.
Proof. exact block_reachable_with_presending_peer. Qed.
Print Assumptions C17_block_reachable_with_presending_peer.

(* -- non-vacuity: a reachable running state, a complete honest run, Stop on the running state -- *)
Example C17_ex_running :
  reachable true ex_vh ex_ofp 0 3 7 9 ex_shape ex_start
  /\ h_rt ex_start = Running /\ terminal ex_start = false /\ h_cur ex_start = 2 /\ h_pending ex_start = 3.
Proof. split; [exists []; reflexivity|]. vm_compute. repeat split. Qed.

Example C17_ex_honest_run_finishes :
  let s := run_api true ex_vh ex_ofp ex_start ex_honest in
  terminal s = true /\ result_class s = 1 /\ h_closes s = 1 /\ h_rt s = Running /\ length (h_out s) = 4.
Proof. vm_compute. repeat split. Qed.

Example C17_ex_stop_running :
  let s := stop true ex_start in result_class s = 2 /\ h_closes s = 1 /\ h_err s = Some ([0], EUser).
Proof. vm_compute. repeat split. Qed.

Example C17_ex_hypotheses_no_block :
  0 < 3 /\ 2 <= 3 /\ busy_shape ex_shape /\ peers_one_ahead ex_vh ex_ofp (drain_all ex_start) ex_honest.
Proof.
  split; [lia|]. split; [lia|]. split.
  - intros r [H1 H2]. cbn in H2. assert (r = 2 \/ r = 3) as [->| ->] by lia; left; reflexivity.
  - cbn [peers_one_ahead ex_honest]. repeat split; vm_compute; lia.
Qed.

(* a history with messages the round code panics on (a queued one and a current one), Stop and Drain: the lifecycle
   invariant in concrete numbers, before and after *)
Example C17_ex_history_with_panics :
  let es := [Accept (ex_bx 1 3 102 PanicVerify); Accept (ex_b 1 2 0 true); Drain 1;
             Accept (ex_px 1 2 0 PanicVerify);                  (* <- the round code panics here *)
             Accept (ex_p 2 2 0 true); Stop; Accept (ex_bx 2 2 0 PanicFinalize); Drain 5] in
  let s := run_api true ex_vh ex_ofp ex_start es in
  reachable true ex_vh ex_ofp 0 3 7 9 ex_shape s
  /\ h_closes s = 1 /\ terminal s = true /\ h_res s = false /\ h_err s = Some ([], EPanic) /\ h_rt s = Running
  /\ h_cur s = 2 /\ length (h_qb s) = 3 /\ length (h_qp s) = 1.
Proof. cbv zeta. split; [eexists; reflexivity|]. vm_compute. repeat split. Qed.
