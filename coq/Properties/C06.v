(* C06 -- Equivocation on a broadcast round cannot split honest parties (handler/system level).
   Only statements, each closed by [exact] of a lemma proved in Proofs/SystemProofs.v, followed by
   Print Assumptions, plus computed Examples (non-vacuity).

   Model: Model/Handler.v (MultiHandler, validated against handler.go) + Model/System.v
   (n handlers, network, schedules Deliver/Dup/Inject).  Party E is corrupted: the schedule may inject
   ANY message whose m_from is E (authenticated channels), at any time, to any party, in any order with
   the honest traffic.  [view_hash] is an arbitrary function; collision-freeness is never assumed:
   the conclusion has the explicit disjunct "a collision of view_hash is exhibited".
   The validity oracle (which messages the rounds accept) is arbitrary.  The theorem holds for every n
   (the property is stated for n >= 3; no lower bound on n is needed). *)
From Coq Require Import List NArith ZArith Bool Arith.
From MPS Require Import Model.Handler Model.System Proofs.SystemProofs.
Import ListNotations.

(* honest A and B both finished  ==>  for every broadcast round k that is followed by a further message
   round (2 <= k < final) and every party j, A and B stored the same fingerprint of j's round-k broadcast *)
Theorem C06_no_split :
  forall (view_hash : nat -> list N -> N) (fp : party -> bool -> option party -> nat -> N)
         (validity : hstate -> msg -> bool) (n : nat) (ssid proto : N) (sh : shape)
         (E : party) (sched : list sched_ev) (A B : party) (k : nat) (j : party),
  wf_shapeb sh = true -> authenticb E sched = true ->
  A < n -> B < n -> A <> E -> B <> E ->
  h_res (s_h (run view_hash fp validity n (init_sys view_hash fp n ssid proto sh) sched) A) = true ->
  h_res (s_h (run view_hash fp validity n (init_sys view_hash fp n ssid proto sh) sched) B) = true ->
  sh_bcast sh k = true -> 2 <= k < sh_final sh -> j < n ->
  (stored_fp (s_h (run view_hash fp validity n (init_sys view_hash fp n ssid proto sh) sched) A) k j
   = stored_fp (s_h (run view_hash fp validity n (init_sys view_hash fp n ssid proto sh) sched) B) k j
   /\ stored_fp (s_h (run view_hash fp validity n (init_sys view_hash fp n ssid proto sh) sched) A) k j <> None)
  \/ exists r v v', v <> v' /\ view_hash r v = view_hash r v'.
Proof. exact no_split. Qed.
Print Assumptions C06_no_split.

(* the same with the collision disjunct discharged by an explicit injectivity hypothesis *)
Theorem C06_no_split_assuming_injective_view_hash :
  forall (view_hash : nat -> list N -> N) fp validity n ssid proto sh E sched A B k j,
  (forall r v v', view_hash r v = view_hash r v' -> v = v') ->
  wf_shapeb sh = true -> authenticb E sched = true ->
  A < n -> B < n -> A <> E -> B <> E ->
  h_res (s_h (run view_hash fp validity n (init_sys view_hash fp n ssid proto sh) sched) A) = true ->
  h_res (s_h (run view_hash fp validity n (init_sys view_hash fp n ssid proto sh) sched) B) = true ->
  sh_bcast sh k = true -> 2 <= k < sh_final sh -> j < n ->
  stored_fp (s_h (run view_hash fp validity n (init_sys view_hash fp n ssid proto sh) sched) A) k j
  = stored_fp (s_h (run view_hash fp validity n (init_sys view_hash fp n ssid proto sh) sched) B) k j
  /\ stored_fp (s_h (run view_hash fp validity n (init_sys view_hash fp n ssid proto sh) sched) A) k j <> None.
Proof. exact no_split_assuming_injective_view_hash. Qed.
Print Assumptions C06_no_split_assuming_injective_view_hash.

(* the limit of the mechanism: the LAST message round is not protected.  example/xor shape (one broadcast
   round, final = 2), n = 3, E = 2 sends fingerprint 111 to A = 0 and 222 to B = 1: both finish without
   error and hold different views of E's broadcast. *)
Theorem C06_last_round_not_covered :
  authenticb 2 equiv_sched = true
  /\ h_res (s_h last_round_run 0) = true /\ h_res (s_h last_round_run 1) = true
  /\ h_err (s_h last_round_run 0) = None /\ h_err (s_h last_round_run 1) = None
  /\ stored_fp (s_h last_round_run 0) 2 2 = Some 111%N
  /\ stored_fp (s_h last_round_run 1) 2 2 = Some 222%N.
Proof. exact last_round_not_covered. Qed.
Print Assumptions C06_last_round_not_covered.

(* wf shapes: every round 2..final expects a broadcast and/or a p2p message from every other party *)
Theorem C06_wf_shape_spec : forall sh,
  wf_shapeb sh = true <->
  forall r, 2 <= r <= sh_final sh -> sh_bcast sh r = true \/ sh_p2p sh r <> NoP2P.
Proof. exact wf_shapeb_iff. Qed.
Theorem C06_wf_shape_examples :
  wf_shapeb shape_xor = true /\ wf_shapeb shape_bp3 = true /\ wf_shapeb shape_mix4 = true
  /\ wf_shapeb shape_bb3 = true.
Proof. exact wf_shape_examples. Qed.

(* the fingerprint assignment used in the examples is injective in (sender, kind, addressee, round) *)
Theorem C06_example_fingerprints_injective : forall f bc to r f' bc' to' r',
  fp_cantor f bc to r = fp_cantor f' bc' to' r' -> f = f' /\ bc = bc' /\ to = to' /\ r = r'.
Proof. exact fp_cantor_inj. Qed.

(* ---- Examples (non-vacuity) ---- *)
(* E = 2 behaves honestly, FIFO delivery: A = 0 and B = 1 finish; round 2 is a broadcast round with
   2 <= 2 < final = 3, so all hypotheses of C06_no_split hold and its first disjunct is the one realised *)
Example C06_hypotheses_satisfiable :
  let st0 := init_sys vh_pos fp_cantor 3 7 9 shape_bp3 in
  let sched := lockstep_sched vh_pos fp_cantor keep_valid 3 100 st0 in
  let st := run vh_pos fp_cantor keep_valid 3 st0 sched in
  wf_shapeb shape_bp3 = true /\ authenticb 2 sched = true
  /\ h_res (s_h st 0) = true /\ h_res (s_h st 1) = true /\ sh_bcast shape_bp3 2 = true
  /\ stored_fp (s_h st 0) 2 2 = stored_fp (s_h st 1) 2 2 /\ stored_fp (s_h st 0) 2 2 <> None.
Proof. vm_compute. repeat split; try reflexivity; discriminate. Qed.

(* E equivocates on round 2 of a 3-round shape (a NON-last broadcast round): when E's round-3 message
   arrives the digest comparison fails and A does not finish *)
Example C06_equivocation_on_covered_round_stops_A :
  h_res (s_h blame_run_keep 0) = false /\ h_err (s_h blame_run_keep 0) = Some ([], EBroadcastHash).
Proof. vm_compute. split; reflexivity. Qed.
