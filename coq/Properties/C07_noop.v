(* C07 (single handler) -- rejected, duplicate, stale, future and post-termination messages are no-ops;
   the first message per (round, sender, kind) wins.  These are the local lemmas the schedule-independence
   theorem (C07, System level) rests on.  Model: Model/Handler.v.
   Only statements, each closed by [exact] of a lemma proved in Proofs/HandlerProofs.v. *)
From Coq Require Import List NArith ZArith Bool Arith Lia.
From MPS Require Import Model.Handler Proofs.HandlerProofs.
Import ListNotations.

Theorem C07_reject_noop : forall vh ofp s m, can_accept s m = false -> accept vh ofp s m = s.
Proof. exact reject_noop. Qed.
Print Assumptions C07_reject_noop.

Theorem C07_duplicate_noop : forall vh ofp s m, duplicate s m = true -> accept vh ofp s m = s.
Proof. exact duplicate_noop. Qed.

Theorem C07_terminal_noop : forall vh ofp s m, terminal s = true -> accept vh ofp s m = s.
Proof. exact terminal_noop. Qed.

Theorem C07_stale_round_rejected : forall s m, 0 < m_round m < h_cur s -> can_accept s m = false.
Proof. exact stale_round_rejected. Qed.

Theorem C07_future_round_rejected : forall s m, sh_final (h_shape s) < m_round m -> can_accept s m = false.
Proof. exact future_round_rejected. Qed.
Print Assumptions C07_future_round_rejected.

(* Once a message is accepted for a slot (round, sender, broadcast-or-p2p) it stays there through any
   later history, and any other message for the same slot -- identical or different -- changes nothing. *)
Theorem C07_first_message_wins : forall fixed vh ofp s m m',
  h_rt s = Running -> can_accept s m = true -> terminal s = false -> duplicate s m = false -> 0 < m_round m ->
  m_round m' = m_round m -> m_from m' = m_from m -> m_bcast m' = m_bcast m ->
  let s1 := accept vh ofp s m in
  slot s1 (m_bcast m) (m_round m) (m_from m) = Some m
  /\ accept vh ofp s1 m' = s1
  /\ (forall es, let s2 := run_api fixed vh ofp s1 es in
                 slot s2 (m_bcast m) (m_round m) (m_from m) = Some m /\ accept vh ofp s2 m' = s2).
Proof. exact first_message_wins. Qed.
Print Assumptions C07_first_message_wins.

(* filled slots are never overwritten, by any API call *)
Theorem C07_slots_monotone : forall fixed vh ofp es s b r j x,
  slot s b r j = Some x -> slot (run_api fixed vh ofp s es) b r j = Some x.
Proof. exact run_api_slot_mono. Qed.

(* -- non-vacuity -- *)
Example C07_ex_first_wins :
  let m := ex_b 1 2 0 true in
  let m' := ex_b 1 2 999 false in   (* a different second broadcast of the same sender for the same round *)
  h_rt ex_start = Running /\ can_accept ex_start m = true /\ terminal ex_start = false
  /\ duplicate ex_start m = false /\ 0 < m_round m
  /\ can_accept (accept ex_vh ex_ofp ex_start m) m' = true
  /\ accept ex_vh ex_ofp (accept ex_vh ex_ofp ex_start m) m' = accept ex_vh ex_ofp ex_start m.
Proof.
  cbv zeta. repeat split; try (vm_compute; reflexivity); vm_compute; lia.
Qed.

Example C07_ex_stale_and_future :
  let s := run_api true ex_vh ex_ofp ex_start (firstn 5 ex_honest) in   (* now in round 3 *)
  h_cur s = 3 /\ can_accept s (ex_p 1 2 0 true) = false /\ can_accept s (ex_b 1 4 0 true) = false
  /\ can_accept s (ex_b 1 3 102 true) = true.
Proof. vm_compute. repeat split. Qed.
