(* C18 -- The worker pool always returns and never loses workers.
   Only statements, each closed by [exact] of a lemma of Proofs/PoolProofs.v, followed by Print Assumptions.

   V1 = pool.go with the repaired handshake (one notification per command, sent after the command is
   completely executed; the caller counts notifications instead of polling ctr).  All V1 theorems hold for
   every worker count w (>= 1 where stated), every task count, every task function of every call
   ([fp e i] = f(i) of the e-th call, [fs e n] = n-th answer of f during the e-th call, None = nil), every
   schedule (any list of goroutine ids, entries that are not enabled being skipped) and every number of
   consecutive calls: [reachable fp fs w] is the closure of the fresh pool under enabled steps and under
   starting a new call when the previous one has returned.
   V0 = pool.go as it is: refuted by explicit schedules. *)
From Coq Require Import List NArith ZArith Bool Arith Lia.
From MPS Require Import Model.Pool Proofs.PoolProofs.
Import ListNotations.
Open Scope nat_scope.

(* -- safety: a returned Parallelize returned exactly [f(0) .. f(count-1)] -- *)
Theorem C18_parallelize_safety : forall fp fs w s,
  reachable fp fs w s -> caller s = CReturn -> kind_of s = Par ->
  results (cur s) = map (fun i => Some (fp (epoch s) i)) (seq 0 (count s)).
Proof. exact pool_safety_par. Qed.
Print Assumptions C18_parallelize_safety.

(* -- safety: a returned Search returned count results, none nil, each an answer of f -- *)
Theorem C18_search_safety : forall fp fs w s, 1 <= w ->
  reachable fp fs w s -> caller s = CReturn -> kind_of s = Srch ->
  length (results (cur s)) = count s /\
  Forall (fun r => exists x n, r = Some x /\ fs (epoch s) n = Some x) (results (cur s)).
Proof. exact pool_safety_srch. Qed.
Print Assumptions C18_search_safety.

(* -- whenever the caller has returned: every worker is AT its `range commands` receive (not merely on its way),
      none is blocked on a notification, and no goroutine has a step left (so f is never invoked after return) -- *)
Theorem C18_workers_idle_after : forall fp fs w s,
  reachable fp fs w s -> caller s = CReturn ->
  all_idle s = true /\ existsb (blocked_forever s) (workers s) = false /\
  (forall g, enabled V1 fp fs s g = false).
Proof. exact pool_idle_after. Qed.
Print Assumptions C18_workers_idle_after.

(* -- no deadlock: while the caller has not returned, one of the w+1 goroutines can step -- *)
Theorem C18_progress : forall fp fs w s, 1 <= w ->
  reachable fp fs w s -> caller s <> CReturn -> exists g, g <= w /\ enabled V1 fp fs s g = true.
Proof. exact pool_progress. Qed.
Print Assumptions C18_progress.

(* -- termination.  Hypothesis on the Search task function only: from its (B e)-th invocation on, f of call e
      does not answer nil.  [measure B] strictly decreases on every enabled step; hence at most [measure B s]
      schedule entries of ANY schedule execute a step, and taking the goroutines in turn (round robin, the
      weakest fairness) for [measure B s] rounds returns.  No fairness assumption is needed for the bound. -- *)
Theorem C18_variant : forall fp fs B, (forall e n, B e <= n -> fs e n <> None) ->
  forall w s g, reachable fp fs w s -> enabled V1 fp fs s g = true ->
  measure B (step V1 fp fs s g) < measure B s.
Proof. exact pool_variant. Qed.
Print Assumptions C18_variant.

Theorem C18_exec_bound : forall fp fs B, (forall e n, B e <= n -> fs e n <> None) ->
  forall w s l, reachable fp fs w s ->
  effective fp fs s l + measure B (run V1 fp fs s l) <= measure B s.
Proof. exact pool_exec_bound. Qed.

Theorem C18_round_robin_returns : forall fp fs B, (forall e n, B e <= n -> fs e n <> None) ->
  forall w s n, 1 <= w -> reachable fp fs w s -> measure B s <= n ->
  caller (run V1 fp fs s (rr w n)) = CReturn.
Proof. exact pool_round_robin_returns. Qed.
Print Assumptions C18_round_robin_returns.

(* -- reuse: any list of consecutive calls (kind, count, schedule each) stays inside [reachable], so all of the
      above holds during and after every one of them ... -- *)
Theorem C18_reusable : forall fp fs w calls,
  reachable fp fs w (run_calls V1 fp fs (pool_init w) calls).
Proof. exact pool_reusable. Qed.
Print Assumptions C18_reusable.

(* ... explicitly: after any history that left the caller returned, the next call under any schedule, once
   returned, has the right result and all workers idle again ... *)
Theorem C18_reusable_parallelize : forall fp fs w calls c sched,
  let s0 := run_calls V1 fp fs (pool_init w) calls in
  let s := run V1 fp fs (start_call s0 Par c) sched in
  caller s0 = CReturn -> caller s = CReturn ->
  results (cur s) = map (fun i => Some (fp (S (epoch s0)) i)) (seq 0 c) /\ all_idle s = true.
Proof. exact pool_next_call_par. Qed.
Print Assumptions C18_reusable_parallelize.

Theorem C18_reusable_search : forall fp fs w calls c sched, 1 <= w ->
  let s0 := run_calls V1 fp fs (pool_init w) calls in
  let s := run V1 fp fs (start_call s0 Srch c) sched in
  caller s0 = CReturn -> caller s = CReturn ->
  length (results (cur s)) = c /\
  Forall (fun r => exists x n, r = Some x /\ fs (S (epoch s0)) n = Some x) (results (cur s)) /\
  all_idle s = true.
Proof. exact pool_next_call_srch. Qed.
Print Assumptions C18_reusable_search.

(* ... and it does return (round robin), ready for the call after it *)
Theorem C18_call_returns : forall fp fs B, (forall e n, B e <= n -> fs e n <> None) ->
  forall w s kd c n, 1 <= w -> reachable fp fs w s -> caller s = CReturn ->
  measure B (start_call s kd c) <= n ->
  let s' := run V1 fp fs (start_call s kd c) (rr w n) in
  reachable fp fs w s' /\ caller s' = CReturn /\ epoch s' = S (epoch s) /\ kind_of s' = kd /\ count s' = c.
Proof. exact pool_call_returns. Qed.
Print Assumptions C18_call_returns.

(* TearDown after a returned call terminates every worker goroutine *)
Theorem C18_teardown_clean : forall fp fs w s,
  reachable fp fs w s -> caller s = CReturn -> Forall (fun wk => snd wk = WExit) (workers (teardown s)).
Proof. exact pool_teardown_clean. Qed.

(* -- nil pool: Parallelize gives literally the same slice; Search satisfies the same specification
      (count non-nil answers of f).  Literal equality is not available for Search: with a pool the slots are
      filled from index count-1 downwards by whichever worker succeeds first. -- *)
Theorem C18_nil_pool_same_results : forall fp fs w s,
  reachable fp fs w s -> caller s = CReturn -> kind_of s = Par ->
  results (cur s) = parallelize_alone (fp (epoch s)) (count s).
Proof. exact pool_nil_same_par. Qed.
Print Assumptions C18_nil_pool_same_results.

Theorem C18_nil_pool_search : forall (f : nat -> option Z) Bn, (forall n, Bn <= n -> f n <> None) ->
  forall fuel c n, (Bn - n) + c <= fuel ->
  exists r, search_alone fuel f n c = Some r /\ length r = c /\
            Forall (fun y => exists x m, y = Some x /\ f m = Some x) r.
Proof. exact search_alone_spec. Qed.
Print Assumptions C18_nil_pool_search.

(* -- pool.go as it is (V0) -- *)
(* a worker is lost (blocked for ever on its notification although the result is right); it never becomes idle again;
   the next call on the same pool never returns.  One worker, one task, for every task function. *)
Theorem C18_v0_worker_leak_refuted : forall fp fs, exists w c sched,
  let s := run V0 fp fs (start_call (pool_init w) Par c) sched in
  caller s = CReturn /\ existsb (blocked_forever s) (workers s) = true /\
  (forall l, all_idle (run V0 fp fs s l) = false) /\
  (forall l, caller (run V0 fp fs (start_call s Par c) l) <> CReturn).
Proof. exact v0_worker_leak_refuted. Qed.
Print Assumptions C18_v0_worker_leak_refuted.

(* Search returns a nil slot although f never answers nil *)
Theorem C18_v0_search_nil_refuted : forall fp, exists fs w c sched,
  (forall e n, fs e n <> None) /\
  let s := run V0 fp fs (start_call (pool_init w) Srch c) sched in
  caller s = CReturn /\ In None (results (cur s)).
Proof. exact v0_search_nil_refuted. Qed.
Print Assumptions C18_v0_search_nil_refuted.

(* -- non-vacuity -- *)
Definition fp_ex (e i : nat) : Z := Z.of_nat (10 * e + i).
Definition fs_ex (e n : nat) : option Z := if n <? 2 then None else Some (Z.of_nat n).
Example C18_ex_fs_eventually : forall e n, 2 <= n -> fs_ex e n <> None.
Proof. intros e n H. unfold fs_ex. destruct (n <? 2) eqn:E; [apply Nat.ltb_lt in E; lia | discriminate]. Qed.

(* two calls on one pool of 2 workers: Parallelize(3), then Search(2) whose f answers nil twice; both return *)
Example C18_ex_two_calls :
  let s1 := run_calls V1 fp_ex fs_ex (pool_init 2) [(Par, 3, rr 2 12)] in
  let s2 := run_calls V1 fp_ex fs_ex (pool_init 2) [(Par, 3, rr 2 12); (Srch, 2, rr 2 12)] in
  caller s1 = CReturn /\ results (cur s1) = [Some 10; Some 11; Some 12]%Z /\
  caller s2 = CReturn /\ kind_of s2 = Srch /\ results (cur s2) = [Some 3; Some 2]%Z /\ all_idle s2 = true.
Proof. vm_compute. repeat split. Qed.

(* the schedule that loses the worker in V0 does not let the V1 caller return; two more steps finish the call cleanly *)
Example C18_ex_v1_on_leak_schedule :
  let s := run V1 fp_ex fs_ex (start_call (pool_init 1) Par 1) [1; 1; 1; 0] in
  caller s = CRecv /\ caller (run V1 fp_ex fs_ex s [1; 0]) = CReturn /\ all_idle (run V1 fp_ex fs_ex s [1; 0]) = true.
Proof. vm_compute. repeat split. Qed.

Example C18_ex_measure : measure (fun _ => 2) (start_call (pool_init 2) Srch 2) = 31.
Proof. reflexivity. Qed.
