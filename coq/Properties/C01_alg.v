(* C01 (algebra) -- every signature produced by an all-honest run of one of the five signing protocols
   verifies under the library's own verification equation, over ANY scalar field F and F-module G
   ([alg] + [alg_laws]), for any number of signers, any signer list, arbitrary hash outputs.
   Only statements, each closed by [exact] of a lemma of Proofs/SigningAlgebra.v, followed by
   Print Assumptions; Examples instantiate every theorem at Z/101 (scalars = points = Z/101, G = 1).

   Inputs that are theorems elsewhere and hypotheses here:
   * the MtA / OT-multiplication output relations ([cmp_mta_ok], [doerner_ot_ok])  -- C12 / C13;
   * sum_i lambda_i x_i = f(0) for the Lagrange coefficients the code computes      -- ALG1 (C01.5/C02);
     here x is DEFINED as sum_i lambda_i x_i ([cmp_x], [frost_sk]) and the theorems are about that x;
   * secp256k1 facts about x-only encodings ([tap_laws]) for the Taproot variant.
   The excluded events (k = 0, gamma = 0, r = 0, s = 0, R = identity) are explicit premises. *)
From Coq Require Import List NArith ZArith Bool Permutation.
From MPS Require Import Model.SigEq Proofs.SigningAlgebra.
Import ListNotations.

(* -- Go ranges over maps in arbitrary order: the accumulation loops do not depend on the order -- *)
Theorem C01_sum_order_irrelevant_scalars : forall A, alg_laws A ->
  forall (f : party -> Sc A) l l', Permutation l l' -> sumF f l = sumF f l'.
Proof. exact sumF_perm. Qed.
Theorem C01_sum_order_irrelevant_points : forall A, alg_laws A ->
  forall (f : party -> Pt A) l l', Permutation l l' -> sumG f l = sumG f l'.
Proof. exact sumG_perm. Qed.
Print Assumptions C01_sum_order_irrelevant_points.

(* -- CMP sign, rounds 1-5 -- *)
Theorem C01_cmp_sign_correct : forall A, alg_laws A ->
  forall (r : cmp_run A) (S' : list party),
  NoDup (cS r) -> Permutation (cS r) S' -> cmp_mta_ok r ->
  cmp_k r <> sc0 A -> cmp_gamma r <> sc0 A -> cmp_r r <> sc0 A -> cmp_s r <> sc0 A ->
  cmp_sign_view r S' = Some (cmp_R r, cmp_s r)
  /\ ecdsa_verify (cmp_PublicKey r) (c_m r) (cmp_R r) (cmp_s r) = true
  /\ act A (scinv A (cmp_s r))
         (ptadd A (act A (c_m r) (base A)) (act A (cmp_r r) (cmp_PublicKey r))) = cmp_R r
  /\ cmp_PublicKey r = act A (cmp_x r) (base A).
Proof. exact cmp_sign_correct_final. Qed.
Print Assumptions C01_cmp_sign_correct.

(* the round-4 check  Delta = delta G  passes (needs neither r <> 0 nor s <> 0) *)
Theorem C01_cmp_delta_check_passes : forall A, alg_laws A ->
  forall (r : cmp_run A) (S' : list party),
  NoDup (cS r) -> Permutation (cS r) S' -> cmp_mta_ok r ->
  cmp_k r <> sc0 A -> cmp_gamma r <> sc0 A ->
  cmp_round4 S' (sumG (cmp_BigGammaShare r) S') (cmp_delta_share r) (cmp_BigDeltaShare r)
  = Some (cmp_R r, cmp_r r).
Proof. exact cmp_round4_check_passes. Qed.
Print Assumptions C01_cmp_delta_check_passes.

Example C01_cmp_sign_correct_ex :
  cmp_sign_view ex_cmp [3; 1; 2]%N = Some (cmp_R ex_cmp, cmp_s ex_cmp)
  /\ ecdsa_verify (cmp_PublicKey ex_cmp) (c_m ex_cmp) (cmp_R ex_cmp) (cmp_s ex_cmp) = true
  /\ act A101 (scinv A101 (cmp_s ex_cmp))
         (ptadd A101 (act A101 (c_m ex_cmp) (base A101)) (act A101 (cmp_r ex_cmp) (cmp_PublicKey ex_cmp)))
     = cmp_R ex_cmp
  /\ cmp_PublicKey ex_cmp = act A101 (cmp_x ex_cmp) (base A101).
Proof.
  exact (C01_cmp_sign_correct A101 A101_laws ex_cmp [3; 1; 2]%N ex_S_nodup ex_perm_312 ex_cmp_mta_ok
           ex_cmp_k_ne ex_cmp_gamma_ne ex_cmp_r_ne ex_cmp_s_ne).
Qed.
(* the same by computation: k = 15, gamma = 27, x = 9 = f(0), R = 27, r = 29, s = 15 *)
Example C01_cmp_sign_correct_ex_values :
  (zv (cmp_k ex_cmp), zv (cmp_gamma ex_cmp), zv (cmp_x ex_cmp)) = (15, 27, 9)%Z
  /\ option_map (fun p => (zv (fst p), zv (snd p))) (cmp_sign_view ex_cmp [3; 1; 2]%N) = Some (27, 15)%Z
  /\ option_map (fun p => (zv (fst p), zv (snd p))) (cmp_sign_view ex_cmp [2; 1; 3]%N) = Some (27, 15)%Z.
Proof. vm_compute. repeat split. Qed.

(* -- CMP presign (7 rounds) + online signing (sign1, sign2) -- *)
Theorem C01_presign_online_correct : forall A, alg_laws A ->
  forall (r : cmp_run A) (S' : list party) (X : Pt A) (i : party),
  NoDup (cS r) -> Permutation (cS r) S' -> cmp_mta_ok r ->
  cmp_k r <> sc0 A -> cmp_gamma r <> sc0 A -> cmp_r r <> sc0 A -> cmp_s r <> sc0 A ->
  X = cmp_PublicKey r ->
  let DeltaInv := scinv A (scmul A (cmp_gamma r) (cmp_k r)) in
  ps_round6 S' (sumG (cmp_BigGammaShare r) S') (cmp_delta_share r) (cmp_BigDeltaShare r)
    = Some (cmp_R r, DeltaInv)
  /\ ps_round7 S' (cmp_PublicKey r) (fun l => act A (cmp_chi_share r l) (cmp_R r)) = true
  /\ (forall j, pRBar (ps_presig r (cmp_R r) DeltaInv i) j = act A (c_k r j) (cmp_R r))
  /\ (forall j, pS (ps_presig r (cmp_R r) DeltaInv i) j = act A (cmp_chi_share r j) (cmp_R r))
  /\ ps_view r S' X i = PsSig (cmp_R r) (cmp_s r)
  /\ ecdsa_verify X (c_m r) (cmp_R r) (cmp_s r) = true
  /\ verify_signature_shares S' (ps_presig r (cmp_R r) DeltaInv i)
       (fun j => signature_share (ps_presig r (cmp_R r) DeltaInv j) (c_m r)) (c_m r) = []
  /\ (forall j, elog_rel (ps_ElGamalK r j) (ps_ElGamalPub r j) (cmp_Gamma r) (cmp_BigDeltaShare r j)
                         (c_k r j) (c_bk r j))
  /\ (forall j, elog_rel (ps_ElGamalChi r j) (ps_ElGamalPub r j) (cmp_R r)
                         (act A (cmp_chi_share r j) (cmp_R r)) (cmp_chi_share r j) (c_bchi r j))
  /\ (forall j, log_rel (fst (ps_ElGamalChi r j)) (ps_ElGamalPub r j)
                        (act A (c_bchi r j) (ps_ElGamalPub r j)) (c_ea r j) (c_bchi r j)).
Proof. exact presign_online_correct_final. Qed.
Print Assumptions C01_presign_online_correct.

Example C01_presign_online_correct_ex :
  ps_view ex_cmp [2; 3; 1]%N (cmp_PublicKey ex_cmp) 2%N = PsSig (cmp_R ex_cmp) (cmp_s ex_cmp).
Proof.
  exact (proj1 (proj2 (proj2 (proj2 (proj2
    (C01_presign_online_correct A101 A101_laws ex_cmp [2; 3; 1]%N (cmp_PublicKey ex_cmp) 2%N
       ex_S_nodup ex_perm_231 ex_cmp_mta_ok ex_cmp_k_ne ex_cmp_gamma_ne ex_cmp_r_ne ex_cmp_s_ne eq_refl)))))).
Qed.
Example C01_presign_online_correct_ex_values :
  match ps_view ex_cmp [2; 3; 1]%N (cmp_PublicKey ex_cmp) 2%N with
  | PsSig R s => Some (zv R, zv s) | _ => None end = Some (27, 15)%Z.
Proof. vm_compute. reflexivity. Qed.

(* -- FROST -- *)
Theorem C01_frost_sign_correct : forall A, alg_laws A ->
  forall (Hc : Pt A -> Pt A -> Sc A) (r : frost_run A) (Y : Pt A) (S' : list party),
  Permutation (fS r) S' ->
  Y = act A (frost_sk r) (base A) ->
  let R := act A (frost_nonce r) (base A) in
  let c := Hc R Y in
  let z := scadd A (scmul A (frost_sk r) c) (frost_nonce r) in
  frost_view Hc r Y S' = Some (R, z)
  /\ frost_verify c Y R z = true
  /\ act A z (base A) = ptadd A R (act A c Y)
  /\ (forall l, frost_share_ok c (f_lam r l) (frost_Yshare r l)
                  (frost_Rshare (f_rho r) (frost_D r) (frost_E r) l)
                  (frost_z (f_lam r l) (f_s r l) c (f_d r l) (f_e r l) (f_rho r l)) = true).
Proof. exact frost_sign_correct_final. Qed.
Print Assumptions C01_frost_sign_correct.

Example C01_frost_sign_correct_ex :
  let R := act A101 (frost_nonce ex_frost) (base A101) in
  let c := ex_Hc R (z101 9) in
  @frost_view A101 ex_Hc ex_frost (z101 9) [3; 2; 1]%N
  = Some (R, scadd A101 (scmul A101 (frost_sk ex_frost) c) (frost_nonce ex_frost)).
Proof.
  exact (proj1 (C01_frost_sign_correct A101 A101_laws ex_Hc ex_frost (z101 9) [3; 2; 1]%N
                  ex_perm_321 ex_frost_Y)).
Qed.
Example C01_frost_sign_correct_ex_values :
  option_map (fun p => (zv (fst p), zv (snd p))) (@frost_view A101 ex_Hc ex_frost (z101 9) [3; 2; 1]%N)
  = Some (76, 17)%Z.
Proof. vm_compute. reflexivity. Qed.

(* -- FROST / Taproot: keygen's and signing's conditional negations, BIP-340 verification against the x-only key -- *)
Theorem C01_frost_sign_correct_taproot : forall A, alg_laws A ->
  forall (T : tapx A), tap_laws A T ->
  forall (Hc : Xb T -> Xb T -> Sc A) (r : frost_run A) (Yraw : Pt A) (S' : list party),
  Permutation (fS r) S' ->
  Yraw = act A (frost_sk r) (base A) ->
  Yraw <> pt0 A ->
  act A (frost_nonce r) (base A) <> pt0 A ->
  let R := act A (frost_nonce r) (base A) in
  let pk := tap_pubkey T Yraw in
  let c := Hc (xbytes T R) pk in
  let z := scadd A (scmul A (neg_if_sc (tap_key_flip T Yraw) (frost_sk r)) c)
                   (neg_if_sc (negb (has_even_y T R)) (frost_nonce r)) in
  frost_taproot_view T Hc (tap_stored_run T r Yraw) pk (tap_stored_vshares T r Yraw) S' = Some (xbytes T R, z)
  /\ taproot_verify T Hc pk (xbytes T R) z = true.
Proof. exact frost_taproot_correct_final. Qed.
Print Assumptions C01_frost_sign_correct_taproot.

(* raw key 60 and R = 76 are both "odd" (> 50) in the toy model, so both negations fire *)
Example C01_frost_sign_correct_taproot_ex :
  let R := act A101 (frost_nonce ex_frost_odd) (base A101) in
  let pk := tap_pubkey T101 (z101 60) in
  exists z,
  @frost_taproot_view A101 T101 ex_HcT (tap_stored_run T101 ex_frost_odd (z101 60)) pk
      (tap_stored_vshares T101 ex_frost_odd (z101 60)) [2; 1; 3]%N = Some (xbytes T101 R, z)
  /\ @taproot_verify A101 T101 ex_HcT pk (xbytes T101 R) z = true.
Proof.
  eexists.
  exact (C01_frost_sign_correct_taproot A101 A101_laws T101 T101_laws ex_HcT ex_frost_odd (z101 60)
           [2; 1; 3]%N ex_perm_213 ex_frost_odd_Y ex_frost_odd_Y_ne ex_frost_odd_R_ne).
Qed.
Example C01_frost_sign_correct_taproot_ex_values :
  (tap_key_flip T101 (z101 60), has_even_y T101 (act A101 (frost_nonce ex_frost_odd) (base A101))) = (true, false)
  /\ option_map (fun p => (fst p, zv (snd p)))
       (@frost_taproot_view A101 T101 ex_HcT (tap_stored_run T101 ex_frost_odd (z101 60))
          (tap_pubkey T101 (z101 60)) (tap_stored_vshares T101 ex_frost_odd (z101 60)) [2; 1; 3]%N)
     = Some (25, 32)%Z.
Proof. vm_compute. split; reflexivity. Qed.

(* -- Doerner two-party ECDSA -- *)
Theorem C01_doerner_sign_correct : forall A, alg_laws A ->
  forall (HR HG1 HG2 : Pt A -> Sc A) (r : doerner_run A),
  doerner_ot_ok HR r ->
  doerner_kA HR r <> sc0 A -> d_kB r <> sc0 A ->
  xsc A (doerner_R HR r) <> sc0 A -> doerner_s HR r <> sc0 A ->
  doerner_view HR HG1 HG2 r = Some (doerner_R HR r, doerner_s HR r)
  /\ ecdsa_verify (doerner_Public r) (d_m r) (doerner_R HR r) (doerner_s HR r) = true
  /\ act A (scinv A (doerner_s HR r))
         (ptadd A (act A (d_m r) (base A)) (act A (xsc A (doerner_R HR r)) (doerner_Public r)))
     = doerner_R HR r
  /\ doerner_R_S HR r = doerner_R HR r
  /\ doerner_R_R HR r = doerner_R HR r
  /\ doerner_Gamma1_R HR r = doerner_Gamma1_S HR r
  /\ doerner_Gamma2_R HR HG1 r = doerner_Gamma2_S r.
Proof. exact doerner_sign_correct_final. Qed.
Print Assumptions C01_doerner_sign_correct.

Example C01_doerner_sign_correct_ex :
  @doerner_view A101 ex_HR ex_HG1 ex_HG2 ex_doerner
  = Some (@doerner_R A101 ex_HR ex_doerner, @doerner_s A101 ex_HR ex_doerner).
Proof.
  exact (proj1 (C01_doerner_sign_correct A101 A101_laws ex_HR ex_HG1 ex_HG2 ex_doerner
                  ex_doerner_ot_ok ex_doerner_kA_ne ex_doerner_kB_ne ex_doerner_r_ne ex_doerner_s_ne)).
Qed.
Example C01_doerner_sign_correct_ex_values :
  option_map (fun p => (zv (fst p), zv (snd p))) (@doerner_view A101 ex_HR ex_HG1 ex_HG2 ex_doerner)
  = Some (94, 30)%Z.
Proof. vm_compute. reflexivity. Qed.

(* the structure hypotheses themselves are satisfiable: Z/101 is a field acting on itself *)
Example C01_laws_satisfiable : alg_laws A101 /\ base_free A101 /\ tap_laws A101 T101.
Proof. exact (conj A101_laws (conj A101_base_free T101_laws)). Qed.
Print Assumptions C01_laws_satisfiable.
