(* C03 -- a tampering participant cannot make an honest party accept a wrong result.
   Safety only (the property allows abort or waiting): the checks an honest party performs before it finishes imply that
   what it finishes with is correct, whatever the other inputs were.  The statements are those of the algebra files,
   collected here under the property they serve; the handler-level part (every path to Output passes the final round's
   guard; finishers hold equal broadcast views) is C05_/C06_/C07_ over Model/Handler.v and Model/System.v. *)
From Coq Require Import List.
From MPS Require Import Model.SigEq Proofs.SigningAlgebra Proofs.FieldPoly Proofs.Sharing.
From MPS Require Import Properties.C04_alg Properties.C02.

(* FROST: if every response share passed the per-share check against the verification shares, the aggregated
   signature satisfies the verification equation -- for ARBITRARY (adversarial) shares z_l, R_l, Y_l. *)
Theorem C03_frost_accepted_shares_give_valid_signature :
  forall A : SigEq.alg, SigningAlgebra.alg_laws A ->
  forall (S : list SigEq.party) (c : SigEq.Sc A) (lam : SigEq.party -> SigEq.Sc A)
         (Ysh Rsh : SigEq.party -> SigEq.Pt A) (z : SigEq.party -> SigEq.Sc A) (Y R : SigEq.Pt A),
  (forall l : SigEq.party, List.In l S -> SigEq.frost_share_ok c (lam l) (Ysh l) (Rsh l) (z l) = true) ->
  R = SigEq.sumG Rsh S ->
  Y = SigEq.sumG (fun l : SigEq.party => SigEq.act A (lam l) (Ysh l)) S ->
  SigEq.frost_verify c Y R (SigEq.sumF z S) = true /\
  SigEq.act A (SigEq.sumF z S) (SigEq.base A) = SigEq.ptadd A R (SigEq.act A c Y).
Proof. exact C04_frost_share_check_sound. Qed.
Print Assumptions C03_frost_accepted_shares_give_valid_signature.

(* Keygen / refresh: if every received share passed the Feldman check against the sender's (possibly adversarial)
   exponent polynomial, the party's summed share matches its entry of the public table. *)
Theorem C03_vss_checks_imply_share_matches_table :
  forall (F : Type) (f0 f1 : F) (fadd fmul fsub : F -> F -> F) (fopp : F -> F) (fdiv : F -> F -> F) (finv : F -> F),
  Field_theory.field_theory f0 f1 fadd fmul fsub fopp fdiv finv eq ->
  forall (G : Type) (gadd : G -> G -> G) (gzero : G) (gopp : G -> G) (smul : F -> G -> G),
  FieldPoly.module_laws f1 fadd fmul gadd gzero gopp smul ->
  forall (g : G) (es : list (FieldPoly.erep G)) (us : list F) (x : F),
  List.Forall2 (fun (u : F) (e : FieldPoly.erep G) =>
                  FieldPoly.act F G smul g u = FieldPoly.eeval F G gadd gzero smul e x) us es ->
  FieldPoly.act F G smul g (FieldPoly.fsum F f0 fadd us) = Sharing.Phi F G gadd gzero smul es x.
Proof. exact C02_vss_check_sound. Qed.
Print Assumptions C03_vss_checks_imply_share_matches_table.

(* Two honest parties that hold the same set of broadcast exponent polynomials (in any order: Go ranges over a map)
   compute the same public table and the same group key. *)
Theorem C03_equal_views_give_equal_tables :
  forall (F : Type) (f1 : F) (fadd fmul : F -> F -> F) (G : Type) (gadd : G -> G -> G) (gzero : G) (gopp : G -> G)
         (smul : F -> G -> G),
  FieldPoly.module_laws f1 fadd fmul gadd gzero gopp smul ->
  forall (es es' : list (FieldPoly.erep G)) (s s' : FieldPoly.erep G),
  Permutation.Permutation es es' ->
  FieldPoly.esum G gadd es = Some s -> FieldPoly.esum G gadd es' = Some s' ->
  (forall x : F, FieldPoly.eeval F G gadd gzero smul s x = FieldPoly.eeval F G gadd gzero smul s' x) /\
  Sharing.sum_constants G gadd gzero es = Sharing.sum_constants G gadd gzero es'.
Proof. exact C02_table_is_function_of_broadcasts. Qed.
Print Assumptions C03_equal_views_give_equal_tables.

(* CMP presign online: a signature share flagged by VerifySignatureShares really is wrong (so an honest share is never the
   reason for a failed final verification, and a wrong share cannot hide behind an honest one). *)
Theorem C03_flagged_sigma_share_is_wrong :
  forall A : SigEq.alg, SigningAlgebra.alg_laws A ->
  forall (S' : list SigEq.party) (p : SigEq.presignature A) (shares : SigEq.party -> SigEq.Sc A) (m : SigEq.Sc A)
         (kf chif : SigEq.party -> SigEq.Sc A) (j : SigEq.party),
  SigEq.pRBar p j = SigEq.act A (kf j) (SigEq.pR p) ->
  SigEq.pS p j = SigEq.act A (chif j) (SigEq.pR p) ->
  List.In j (SigEq.verify_signature_shares S' p shares m) ->
  List.In j S' /\
  shares j <> SigEq.scadd A (SigEq.scmul A m (kf j)) (SigEq.scmul A (SigEq.xsc A (SigEq.pR p)) (chif j)).
Proof. exact C04_sigma_share_check_sound. Qed.
Print Assumptions C03_flagged_sigma_share_is_wrong.
