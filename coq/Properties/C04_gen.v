(* C04/C05: every round type of a protocol package has a number within the window of rounds for which the handler keeps
   queues (2 <= r <= FinalRoundNumber) for EVERY FinalRoundNumber that package uses -- otherwise receivedAll is vacuously
   true for that round and its Finalize runs on empty inputs (the abort round of offline presigning at the pinned commit). *)
From Coq Require Import String List Bool Arith.
From MPS Require Import Generated.Rounds.
Import ListNotations.
Local Open Scope string_scope.

Definition finals_of (pkg : string) : list nat :=
  map snd (filter (fun f => String.eqb (fst f) pkg) go_final_rounds).

Definition round_in_window (e : string * string * nat * bool * bool) : bool :=
  match e with (pkg, _, n, _, _) => forallb (fun f => Nat.leb n f) (finals_of pkg) end.

Theorem C04_gen_abort_rounds_in_window : forallb round_in_window go_rounds = true.
Proof. vm_compute. reflexivity. Qed.

(* every protocol package with round types has at least one FinalRoundNumber *)
Theorem C04_gen_finals_known :
  forallb (fun e => match e with (pkg, _, _, _, _) => negb (match finals_of pkg with [] => true | _ => false end) end) go_rounds = true.
Proof. vm_compute. reflexivity. Qed.
