(* C05 (decoder level) -- the hand-written byte decoders that network input reaches are total, never panic and allocate
   at most linearly in their input; what they accept is characterised exactly.
   Models: Model/Decoders.v (secp256k1 scalar / point decoding, polynomial.Exponent.UnmarshalBinary, the fixed-length
   not-all-zero validators of hash.Commitment / hash.Decommitment / types.RID).
   For Exponent.UnmarshalBinary the statement is proved for the decoder as it is in /repo now (length and count checks,
   commit 7b3b4da) and REFUTED, with concrete witnesses, for the decoder as found at the pinned commit.
   Only statements, each closed by [exact] of a lemma proved in Proofs/DecodersProofs.v. *)
From Coq Require Import List NArith ZArith Bool Arith.
From MPS Require Import Model.Bytes Model.Decoders Proofs.DecodersProofs.
Import ListNotations.
Open Scope N_scope.

(* ---- the main statement: for EVERY input, no panic and a linear allocation bound ---- *)
Theorem C05_decoder_total_no_panic_bounded_alloc :
  (* scalars *)
  (forall data, r_out (scalar_unmarshal data) <> Panic /\ r_alloc (scalar_unmarshal data) <= 32) /\
  (* points *)
  (forall data, r_out (point_unmarshal data) <> Panic /\ r_alloc (point_unmarshal data) = 0) /\
  (* Exponent.UnmarshalBinary (repaired), for any total body decoder whose own allocation is linear in its input *)
  (forall (body_decode : bytes -> option (bool * list bytes) * N) (point_size cb cb' : N),
     (forall bs, snd (body_decode bs) <= cb * len bs + cb') ->
     forall data,
       r_out (exp_unmarshal body_decode point_size data) <> Panic /\
       r_alloc (exp_unmarshal body_decode point_size data) <= (point_size + cb) * len data + cb').
Proof.
  split; [|split].
  - intro data. split; [exact (scalar_unmarshal_no_panic data) | exact (scalar_unmarshal_alloc data)].
  - intro data. split; [exact (point_unmarshal_no_panic data) | exact (point_unmarshal_alloc data)].
  - intros bd ps cb cb' H data. split;
      [exact (exp_unmarshal_no_panic bd ps data) | exact (exp_unmarshal_alloc bd ps cb cb' H data)].
Qed.
Print Assumptions C05_decoder_total_no_panic_bounded_alloc.

(* ---- refuted for the decoder found at the pinned commit ---- *)

(* witness 1: a 3-byte input panics (index out of range in binary.BigEndian.Uint32); so does every input shorter than 4 bytes *)
Theorem C05_exponent_unmarshal_pinned_refuted_panic : forall body_decode point_size,
  exists data, r_out (exp_unmarshal_pinned body_decode point_size data) = Panic.
Proof. intros bd ps. exists [1; 2; 3]. exact (exp_unmarshal_pinned_panics bd ps). Qed.
Print Assumptions C05_exponent_unmarshal_pinned_refuted_panic.

Theorem C05_exponent_unmarshal_pinned_short_input_panics : forall body_decode point_size data,
  (length data < 4)%nat -> r_out (exp_unmarshal_pinned body_decode point_size data) = Panic.
Proof. exact exp_unmarshal_pinned_short_panics. Qed.

(* witness 2: the 4 bytes ff ff ff ff make it allocate 2^32 - 1 points: no linear bound holds *)
Theorem C05_exponent_unmarshal_pinned_refuted_alloc : forall body_decode point_size c c',
  1 <= point_size -> c * 4 + c' < 4294967295 ->
  exists data, len data = 4 /\ c * len data + c' < r_alloc (exp_unmarshal_pinned body_decode point_size data).
Proof. exact exp_unmarshal_pinned_alloc_unbounded. Qed.
Print Assumptions C05_exponent_unmarshal_pinned_refuted_alloc.

(* the repair is conservative: same result wherever the old code did not panic and the announced count fits the input *)
Theorem C05_exponent_unmarshal_repair_conservative : forall body_decode point_size data,
  (4 <= length data)%nat -> be_val (firstn 4 data) <= len data ->
  exp_unmarshal body_decode point_size data = exp_unmarshal_pinned body_decode point_size data.
Proof. exact exp_unmarshal_agrees. Qed.

(* ---- exact acceptance conditions ---- *)

Theorem C05_scalar_unmarshal_spec : forall data v,
  r_out (scalar_unmarshal data) = Ok v <-> (length data = 32%nat /\ v = be_val data /\ v < secp_q).
Proof. exact scalar_unmarshal_spec. Qed.
Print Assumptions C05_scalar_unmarshal_spec.

Theorem C05_scalar_encoding_canonical : forall a b v,
  wf_bytes a = true -> wf_bytes b = true ->
  r_out (scalar_unmarshal a) = Ok v -> r_out (scalar_unmarshal b) = Ok v -> a = b.
Proof. exact scalar_unmarshal_canonical. Qed.

Theorem C05_point_unmarshal_ok : forall data x y,
  r_out (point_unmarshal data) = Ok (x, y) ->
  length data = 33%nat /\
  (exists pre xs, data = pre :: xs /\ (pre = 2 \/ pre = 3) /\ x = be_val xs) /\
  x < secp_p /\ (y * y) mod secp_p = (x * x * x + 7) mod secp_p.
Proof. exact point_unmarshal_ok. Qed.
Print Assumptions C05_point_unmarshal_ok.

Theorem C05_validate_fixed_nonzero_spec : forall n data,
  validate_fixed_nonzero n data = true <-> (length data = n /\ exists b, In b data /\ b <> 0).
Proof. exact validate_fixed_nonzero_spec. Qed.

(* ---- non-vacuity: the decoders accept the genuine encodings ---- *)
Example scalar_one_accepted :
  r_out (scalar_unmarshal (be_bytes 32 1)) = Ok 1.
Proof. vm_compute. reflexivity. Qed.

Example scalar_q_rejected : r_out (scalar_unmarshal (be_bytes 32 secp_q)) = Err.
Proof. vm_compute. reflexivity. Qed.

(* the generator of secp256k1 in compressed form (02 || Gx) decodes to (Gx, Gy) *)
Definition secp_gx : N := 0x79be667ef9dcbbac55a06295ce870b07029bfcdb2dce28d959f2815b16f81798.
Definition secp_gy : N := 0x483ada7726a3c4655da4fbfc0e1108a8fd17b448a68554199c47d08ffb10d4b8.
Example point_generator_accepted :
  r_out (point_unmarshal (2 :: be_bytes 32 secp_gx)) = Ok (secp_gx, secp_gy).
Proof. vm_compute. reflexivity. Qed.

Example point_prefix_4_rejected : r_out (point_unmarshal (4 :: be_bytes 32 secp_gx)) = Err.
Proof. vm_compute. reflexivity. Qed.

Example point_x_not_on_curve_rejected : r_out (point_unmarshal (2 :: be_bytes 32 5)) = Err.
Proof. vm_compute. reflexivity. Qed.

Example commitment_zero_rejected : commitment_validate (repeat 0 64) = false.
Proof. vm_compute. reflexivity. Qed.

Example commitment_short_rejected : commitment_validate (repeat 1 63) = false.
Proof. vm_compute. reflexivity. Qed.

Example commitment_accepted : commitment_validate (repeat 1 64) = true.
Proof. vm_compute. reflexivity. Qed.

(* a body decoder satisfying the allocation hypothesis exists (e.g. one that rejects everything and allocates nothing) *)
Example exponent_hypothesis_satisfiable :
  forall bs, snd ((fun _ : bytes => (@None (bool * list bytes), 0)) bs) <= 0 * len bs + 0.
Proof. intro bs. cbn. apply N.le_refl. Qed.
