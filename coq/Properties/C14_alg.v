(* C14 (algebra only) -- derived shares are a valid sharing of the child key; chain keys agree.
   Only statements, each closed by [exact] of a lemma proved in Proofs/Sharing.v, followed by Print Assumptions,
   plus Examples in Z_101.  (The BIP-32 side -- HMAC-SHA512, CKDpub -- is in the reference model, not here.) *)
From Coq Require Import List Arith Lia Field Permutation Bool ZArith NArith.
From MPS Require Import Model.Bytes Model.Poly Proofs.FieldPoly Proofs.Sharing.
Import ListNotations.

Section Abstract.
(* the scalars: an arbitrary field with decidable equality; the group: an arbitrary module over it with a base point *)
Variable F : Type.
Variables (f0 f1 : F) (fadd fmul fsub : F -> F -> F) (fopp : F -> F) (fdiv : F -> F -> F) (finv : F -> F).
Hypothesis FT : field_theory f0 f1 fadd fmul fsub fopp fdiv finv eq.
Hypothesis Feq_dec : forall a b : F, {a = b} + {a <> b}.
Variable G : Type.
Variables (gadd : G -> G -> G) (gzero : G) (gopp : G -> G) (smul : F -> G -> G).
Hypothesis ML : module_laws f1 fadd fmul gadd gzero gopp smul.
Variable g : G.

Notation "0" := f0 : F_scope.
Notation "1" := f1 : F_scope.
Notation "a + b" := (fadd a b) : F_scope.
Notation "a * b" := (fmul a b) : F_scope.
Notation "a - b" := (fsub a b) : F_scope.
Notation "- a" := (fopp a) : F_scope.
Local Open Scope F_scope.
Notation peval := (FieldPoly.peval F f0 fadd fmul).
Notation fsum := (FieldPoly.fsum F f0 fadd).
Notation psum := (FieldPoly.psum F fadd).
Notation lagrange := (FieldPoly.lagrange F f1 fmul fsub finv Feq_dec).
Notation basis_at := (FieldPoly.basis_at F f1 fmul fsub fdiv Feq_dec).
Notation gsum := (FieldPoly.gsum G gadd gzero).
Notation act := (FieldPoly.act F G smul g).
Notation erep := (FieldPoly.erep G).
Notation eeval := (FieldPoly.eeval F G gadd gzero smul).
Notation efull := (FieldPoly.efull G gzero).
Notation econst := (FieldPoly.econst G gzero).
Notation eofpoly := (FieldPoly.eofpoly F f0 Feq_dec G smul g).
Notation esum := (FieldPoly.esum G gadd).
Notation dealt_share := (Sharing.dealt_share F f0 fadd fmul).
Notation Phi := (Sharing.Phi F G gadd gzero smul).
Notation code_table := (Sharing.code_table F G gadd gzero smul).
Notation sum_constants := (Sharing.sum_constants G gadd gzero).
Notation sstate := (Sharing.sstate F G).
Notation GoodSharing := (Sharing.GoodSharing F f0 f1 fadd fmul fsub finv Feq_dec G smul g).
Notation g_faithful := (Sharing.g_faithful F f0 G gzero smul g).
Notation keygen_state := (Sharing.keygen_state F f0 fadd fmul Feq_dec G gadd gzero smul g).
Notation neg_state := (Sharing.neg_state F fopp G gopp).
Notation refresh_state := (Sharing.refresh_state F f0 fadd fmul Feq_dec G gadd gzero smul g).
Notation derive_state := (Sharing.derive_state F fadd G gadd smul g).
Notation op := (Sharing.op F).
Notation step := (Sharing.step F f0 fadd fmul fopp Feq_dec G gadd gzero gopp smul g).
Notation key_step := (Sharing.key_step F fadd fopp).
Notation op_ok := (Sharing.op_ok F f0).
Notation run := (Sharing.run F f0 fadd fmul fopp Feq_dec G gadd gzero gopp smul g).
Notation key_run := (Sharing.key_run F fadd fopp).
Notation frost_share_check := (Sharing.frost_share_check F G gadd smul g).
Notation cmp_round3_shape_ok := (Sharing.cmp_round3_shape_ok G).

(* cmp Config.Derive, frost Config.Derive: adjust added to every share, adjust.g to every table entry and to the key *)
Theorem C14_derive_preserves_sharing : forall sk st adj,
  GoodSharing sk st -> GoodSharing (sk + adj) (derive_state st adj).
Proof. exact (derive_good FT Feq_dec ML g). Qed.

(* frost TaprootConfig.Derive: as above, then everything negated iff the new key has odd Y *)
Theorem C14_derive_taproot_preserves_sharing : forall sk st adj (odd : bool),
  GoodSharing sk st ->
  GoodSharing (if odd then - (sk + adj) else sk + adj)
              (if odd then neg_state (derive_state st adj) else derive_state st adj).
Proof.
  exact (fun sk st adj odd h => step_good FT Feq_dec ML g sk st (DeriveTaproot adj odd) h I).
Qed.

(* derivation along a path *)
Theorem C14_derive_iter : forall adjs sk st,
  GoodSharing sk st -> GoodSharing (fold_left fadd adjs sk) (fold_left derive_state adjs st).
Proof. exact (derive_iter FT Feq_dec ML g). Qed.

(* ... interleaved with refresh / restore in any order *)
Theorem C14_derive_interleaved_with_refresh : forall ops sk st,
  GoodSharing sk st -> Forall (op_ok (st_t st)) ops -> GoodSharing (key_run sk ops) (run st ops).
Proof. exact (history_preserves_sharing FT Feq_dec ML g). Qed.

(* Doerner: the secret is s_R + s_S (additive).  ConfigReceiver.Derive and ConfigSender.Derive EACH add adjust to
   their share while Public gets adjust.g once: the derived pair is consistent iff adjust.g is the identity *)
Theorem C14_doerner_derive_consistent_iff : forall sR sS adj pub,
  act (sR + sS) = pub ->
  (act ((sR + adj) + (sS + adj)) = gadd pub (act adj) <-> act adj = gzero).
Proof. exact (doerner_derive_consistent_iff FT ML g). Qed.
Theorem C14_doerner_derive_breaks_key : forall sR sS adj pub,
  g_faithful -> adj <> 0 -> act (sR + sS) = pub ->
  act ((sR + adj) + (sS + adj)) <> gadd pub (act adj).
Proof. exact (doerner_derive_breaks_key FT ML g). Qed.

End Abstract.

Print Assumptions C14_derive_preserves_sharing.
Print Assumptions C14_derive_taproot_preserves_sharing.
Print Assumptions C14_derive_iter.
Print Assumptions C14_derive_interleaved_with_refresh.
Print Assumptions C14_doerner_derive_consistent_iff.
Print Assumptions C14_doerner_derive_breaks_key.

(* chain key: every party XORs the same contributions; the result does not depend on the order *)
Theorem C14_chain_key_xor_agree : forall cks cks' acc,
  Permutation cks cks' -> chain_key_fold cks acc = chain_key_fold cks' acc.
Proof. exact (fun cks cks' acc h => chain_key_perm cks cks' h acc). Qed.
Print Assumptions C14_chain_key_xor_agree.
Theorem C14_chain_key_length : forall cks acc n,
  length acc = n -> Forall (fun c => length c = n) cks -> length (chain_key_fold cks acc) = n.
Proof. exact chain_key_length. Qed.
(* the model function compared with the code is that fold from 32 zero bytes *)
Theorem C14_chain_key_model : forall cks, chain_key cks = chain_key_fold cks (repeat 0%N 32).
Proof. exact (fun cks => eq_refl). Qed.

(* ---- REFUTED for the code as it is: Doerner Derive does not yield a sharing of the derived key ---- *)
(* witness in Z_101 (g = 1): s_R = 11, s_S = 31, adjust = 5: the parties now hold 16 + 36 = 52 but Public' = 47.
   (Confirmed on the Go code with secp256k1: (s_R' + s_S').G != Public' after ConfigReceiver.Derive / ConfigSender.Derive.) *)
Theorem C14_doerner_derive_refuted :
  exists (sR sS adj : F101),
    let act := FieldPoly.act F101 F101 (zqmul q101) g101 in
    let pub := act (zqadd q101 sR sS) in
    act (zqadd q101 (zqadd q101 sR adj) (zqadd q101 sS adj)) <> zqadd q101 pub (act adj).
Proof.
  exists (z101 11), (z101 31), (z101 5). cbv zeta.
  apply (C14_doerner_derive_breaks_key _ _ _ _ _ _ _ _ _ FT101 _ _ _ _ _ ML101 g101 _ _ _ _ faithful101);
    [z101_neq|reflexivity].
Qed.
Print Assumptions C14_doerner_derive_refuted.

(* ---- Examples in Z_101 (F = G = Z_101, g = 1), n = 4, t = 2 ---- *)
Section Examples.
Open Scope Z_scope.
Let xs := map z101 [1; 2; 3; 4].
Let fs := [map z101 [5; 7; 9]; map z101 [11; 0; 3]; map z101 [20; 100; 1]].
Let st0 := Sharing.keygen_state _ (zq0 q101) (zqadd q101) (zqmul q101) dec101 _ (zqadd q101) (zq0 q101) (zqmul q101) g101 xs 2 fs.
Local Notation Good := (Sharing.GoodSharing _ (zq0 q101) (zq1 q101) (zqadd q101) (zqmul q101) (zqsub q101) (zqinv q101) dec101 _ (zqmul q101) g101).
Local Notation Der := (Sharing.derive_state _ (zqadd q101) _ (zqadd q101) (zqmul q101) g101).

Lemma C14_ex_st0_good : Good (z101 36) st0.
Proof.
  replace (z101 36) with (FieldPoly.fsum _ (zq0 q101) (zqadd q101) (map (hd (zq0 q101)) fs)) by z101_eq.
  apply (keygen_good FT101 dec101 ML101 g101); [z101_nodup|z101_notin0|cbn; lia|repeat constructor].
Qed.
(* C14_derive_iter along the path [50; 7; 99]: child key 36 + 50 + 7 + 99 = 91 (mod 101) *)
Example C14_ex_derive_iter : Good (z101 91) (fold_left Der (map z101 [50; 7; 99]) st0).
Proof.
  replace (z101 91) with (fold_left (zqadd q101) (map z101 [50; 7; 99]) (z101 36)) by z101_eq.
  exact (C14_derive_iter _ _ _ _ _ _ _ _ _ FT101 dec101 _ _ _ _ _ ML101 g101 _ _ _ C14_ex_st0_good).
Qed.
(* C14_derive_taproot_preserves_sharing with the odd-Y branch *)
Example C14_ex_derive_taproot :
  Good (z101 15) (Sharing.neg_state _ (zqopp q101) _ (zqopp q101) (Der st0 (z101 50))).
Proof.
  replace (z101 15) with (zqopp q101 (zqadd q101 (z101 36) (z101 50))) by z101_eq.
  exact (C14_derive_taproot_preserves_sharing _ _ _ _ _ _ _ _ _ FT101 dec101 _ _ _ _ _ ML101 g101 _ _ _ true C14_ex_st0_good).
Qed.
End Examples.

(* the executable model: derive adds adjust to every share; any 3 derived shares reconstruct 36 + 50 = 86 *)
Example C14_ex_model_derive :
  (let shares := map (fun s => Poly.fadd 101 s 50) [55; 100; 70; 66] in
   map (fun idx => interpolate0 101 (map fst idx) (map snd idx))
       [ [(1, nth 0 shares 0); (2, nth 1 shares 0); (3, nth 2 shares 0)];
         [(4, nth 3 shares 0); (2, nth 1 shares 0); (1, nth 0 shares 0)] ] = [86; 86])%Z.
Proof. vm_compute. reflexivity. Qed.
(* chain keys: three contributions, two party orders *)
Example C14_ex_model_chain_key :
  let c1 := repeat 1%N 32 in let c2 := repeat 254%N 32 in let c3 := map N.of_nat (seq 0 32) in
  chain_key [c1; c2; c3] = chain_key [c3; c1; c2] /\ length (chain_key [c1; c2; c3]) = 32%nat /\
  nth 5 (chain_key [c1; c2; c3]) 0%N = 250%N.
Proof. vm_compute. repeat split. Qed.
(* Doerner derive on the model numbers: 16 + 36 = 52, Public' = 47 *)
Example C14_ex_model_doerner_derive :
  (Poly.fadd 101 (Poly.fadd 101 11 5) (Poly.fadd 101 31 5) = 52 /\ Poly.fadd 101 (Poly.fadd 101 11 31) 5 = 47)%Z.
Proof. split; reflexivity. Qed.
