(* C13 -- OT-based multiplication is correct for all inputs.
   Only statements, each closed by [exact] of a lemma proved in Proofs/OTProofs.v, followed by
   Print Assumptions; then examples (hypotheses are satisfiable, concrete runs).

   Model: Model/OT.v (executable; byte / bit conventions of bitAt and transposeBits; the
   fieldElement.accumulate loop as written; AdditiveOT.Round2 / Multiply Round2 of the REPAIRED code
   (/repo fix commit: mask loops bounded by the pad's own length, list-length checks); the code before
   the repair is kept as [*_v0] with its refutation witnesses as regression examples).  Hash / PRG / sampling functions are universally quantified.
   [okrow k r] : r has exactly k bytes, each < 256.   [res]: ROk / RErr (Go error) / RPanic (Go panic). *)
From Coq Require Import List NArith ZArith Bool Znumtheory.
From MPS Require Import Model.Bytes Model.OT Proofs.OTProofs.
Import ListNotations.

(* ------------------------------------------------------------------------------------------ *)
(** transposeBits *)

(* bit (i,j) of the transpose = bit (j,i) of the matrix, any size *)
Theorem C13_transpose_bits_spec : forall l M i j, (i < l)%nat ->
  bit_at j (nth i (transpose_bits l M) []) = bit_at i (nth j M []).
Proof. exact transpose_bits_spec. Qed.
Print Assumptions C13_transpose_bits_spec.

Theorem C13_transpose_involutive : forall M r8 c8,
  length M = (8 * r8)%nat -> Forall (okrow c8) M ->
  transpose_bits (8 * r8) (transpose_bits (8 * c8) M) = M.
Proof. exact transpose_bits_involutive. Qed.
Print Assumptions C13_transpose_involutive.

(* ------------------------------------------------------------------------------------------ *)
(** random OT: the receiver gets exactly the pad it chose *)

(* group part (abstract abelian group with scalar action): H is applied to the same point on both sides *)
Theorem C13_random_ot_group : forall (G S : Type) (add sub : G -> G -> G) (act : S -> G -> G) (base : G),
  (forall P Q, sub (add P Q) Q = P) ->
  (forall s P Q, act s (add P Q) = add (act s P) (act s Q)) ->
  (forall s t P, act s (act t P) = act t (act s P)) ->
  forall a b c,
    rot_sender_key G S sub act base b (rot_A G S add act base a (act b base) c) c = act a (act b base).
Proof. exact random_ot_group. Qed.
Print Assumptions C13_random_ot_group.

(* challenge / response / decommitment: both checks pass, output = rand_c; any hash H of fixed width *)
Theorem C13_random_ot_correct : forall (H : bytes -> bytes) (k : nat),
  (forall x, okrow k (H x)) ->
  forall c rand0 rand1,
    let rc := rot_select c rand0 rand1 in
    let '(st, challenge) := rot_send_round1 H rand0 rand1 in
    let '(response, hh) := rot_recv_round2 H c rc challenge in
    rot_send_round2 st response = Some ((rs_dec0 st, rs_dec1 st), (rand0, rand1)) /\
    rot_recv_round3 H c rc challenge hh (rs_dec0 st) (rs_dec1 st) = Some (rot_select c rand0 rand1).
Proof. exact random_ot_correct. Qed.
Print Assumptions C13_random_ot_correct.

(* ------------------------------------------------------------------------------------------ *)
(** correlated OT: Q^j = T^j xor c_j * Delta for every row j, every batch size nb*8, every number of
    base OTs 8*k8 *)
Theorem C13_corre_ot_relation : forall delta choices T0 T1 k8 nb,
  okrow k8 delta -> okrow nb choices ->
  length T0 = (8 * k8)%nat -> length T1 = (8 * k8)%nat ->
  Forall (okrow nb) T0 -> Forall (okrow nb) T1 ->
  forall Qrows,
    corre_send delta (honest_TD delta T0 T1) (corre_recv_U T0 T1 choices) (8 * nb) = ROk Qrows ->
    length Qrows = (8 * nb)%nat /\
    forall j, (j < 8 * nb)%nat ->
      nth j Qrows [] = xor_bytes (nth j (snd (corre_recv T0 T1 choices)) [])
                                 (mask_bytes (bit_at j choices) delta).
Proof. exact corre_ot_relation_rows. Qed.
Print Assumptions C13_corre_ot_relation.

(* ... and the sender does accept the honest message *)
Theorem C13_corre_ot_accepts : forall delta choices T0 T1 k8 nb,
  okrow k8 delta -> okrow nb choices ->
  length T0 = (8 * k8)%nat -> length T1 = (8 * k8)%nat ->
  Forall (okrow nb) T0 -> Forall (okrow nb) T1 ->
  exists Qrows,
    corre_send delta (honest_TD delta T0 T1) (corre_recv_U T0 T1 choices) (8 * nb) = ROk Qrows /\
    corre_check delta choices (snd (corre_recv T0 T1 choices)) Qrows = true.
Proof. exact corre_ot_relation. Qed.
Print Assumptions C13_corre_ot_accepts.

(* ------------------------------------------------------------------------------------------ *)
(** fieldElement.accumulate *)

Theorem C13_clmul_bilinear :
  (forall a b c, clmul (N.lxor a b) c = N.lxor (clmul a c) (clmul b c)) /\
  (forall a b c, clmul a (N.lxor b c) = N.lxor (clmul a b) (clmul a c)).
Proof. exact clmul_bilinear. Qed.
Print Assumptions C13_clmul_bilinear.

Theorem C13_clmul_comm : forall a b, clmul a b = clmul b a.
Proof. exact clmul_comm. Qed.

(* the 64-round shift-and-xor loop of the Go code computes f xor (a*b) in GF(2)[x] *)
Theorem C13_accumulate_spec : forall f a b,
  okrow 16 a -> okrow 16 b -> accumulate_bytes f a b = N.lxor f (clmul (le_val a) (le_val b)).
Proof. exact accumulate_bytes_spec. Qed.
Print Assumptions C13_accumulate_spec.

(* ------------------------------------------------------------------------------------------ *)
(** extended OT *)

Theorem C13_extended_check_passes : forall k8 delta, (k8 <= 16)%nat -> okrow k8 delta ->
  forall extra Trows Qrows chi,
    corre_check delta extra Trows Qrows = true ->
    Forall (okrow k8) Trows -> Forall (okrow k8) chi -> length chi = length Trows ->
    ext_send_check delta Qrows chi (ext_X k8 extra chi) (ext_acc Trows chi 0) = true.
Proof. exact extended_check_passes. Qed.
Print Assumptions C13_extended_check_passes.

(* V_choice[j] = V_{c_j}[j] *)
Theorem C13_extended_output : forall k8 delta, okrow k8 delta ->
  forall (hV : bytes -> bytes -> bytes) extra Trows Qrows batch j,
    corre_check delta extra Trows Qrows = true ->
    Forall (okrow k8) Trows -> (batch <= length Trows)%nat -> (j < batch)%nat ->
    nth j (ext_recv_V hV Trows batch) []
    = (if bit_at j extra then snd else fst) (nth j (ext_send_V hV delta Qrows batch) ([], [])).
Proof. exact extended_output. Qed.
Print Assumptions C13_extended_output.

(* altered check fields of the receiver's message *)
Theorem C13_extended_altered_T_rejected : forall delta Qrows chi X T T',
  ext_send_check delta Qrows chi X T = true -> T' <> T ->
  ext_send_check delta Qrows chi X T' = false.
Proof. exact extended_check_altered_T. Qed.
Theorem C13_extended_altered_X_rejected : forall k8 delta, (k8 <= 16)%nat -> okrow k8 delta ->
  forall Qrows chi X X' T,
    okrow k8 X -> okrow k8 X' -> le_val delta <> 0%N ->
    ext_send_check delta Qrows chi X T = true -> X' <> X ->
    ext_send_check delta Qrows chi X' T = false.
Proof. exact extended_check_altered_X. Qed.
Print Assumptions C13_extended_altered_X_rejected.

(* ------------------------------------------------------------------------------------------ *)
(** additive OT: send[j] + recv[j] = c_j * alpha in both components, EVERY batch size *)
Theorem C13_additive_ot_sum : forall (q : Z) (nb : nat) (sc2 : bytes -> Z * Z),
  (0 < q)%Z -> (q <= Z.of_N (256 ^ N.of_nat nb))%Z ->
  (forall x, (0 <= fst (sc2 x) < q)%Z /\ (0 <= snd (sc2 x) < q)%Z) ->
  forall alpha choices V VC,
    length V = (8 * length choices)%nat ->
    (forall j, (j < length V)%nat ->
       nth j VC [] = (if bit_at j choices then snd else fst) (nth j V ([], []))) ->
    exists recv,
      additive_recv q nb sc2 choices VC (fst (additive_send q nb sc2 alpha V)) = ROk recv /\
      additive_check_from q 0 alpha choices (snd (additive_send q nb sc2 alpha V)) recv = true /\
      Forall (fun r => (0 <= fst r < q)%Z /\ (0 <= snd r < q)%Z) recv.
Proof. exact additive_ot_sum. Qed.
Print Assumptions C13_additive_ot_sum.

(* exact outcome of AdditiveOTReceiver.Round2 on ANY message (any number of pads, any pad lengths and
   contents): ok iff [additive_msg_ok], otherwise an error; never a panic *)
Theorem C13_additive_recv_outcome : forall (q : Z) (nb : nat) (sc2 : bytes -> Z * Z) choices VC CP,
  (additive_msg_ok q nb choices CP = true ->
     exists recv, additive_recv q nb sc2 choices VC CP = ROk recv /\ length recv = (8 * length choices)%nat) /\
  (additive_msg_ok q nb choices CP = false -> additive_recv q nb sc2 choices VC CP = RErr).
Proof. exact additive_recv_outcome. Qed.
Print Assumptions C13_additive_recv_outcome.

Theorem C13_additive_malformed_rejected : forall (q : Z) (nb : nat) (sc2 : bytes -> Z * Z) choices VC CP,
  length CP <> (8 * length choices)%nat \/
  (exists i, (i < 8 * length choices)%nat /\
             (length (fst (nth i CP ([], []))) <> nb \/ length (snd (nth i CP ([], []))) <> nb)) ->
  additive_recv q nb sc2 choices VC CP = RErr.
Proof. exact additive_malformed_rejected. Qed.
Print Assumptions C13_additive_malformed_rejected.

(* ------------------------------------------------------------------------------------------ *)
(** gadget / encode: sum_j bit_j(encode beta) * g_j = beta (mod q), every beta, noise, gamma *)
Theorem C13_gadget_encode_decode : forall q, (0 < q)%Z ->
  forall nb beta noise gamma,
    (q <= Z.of_N (256 ^ N.of_nat nb))%Z -> (0 <= beta < q)%Z ->
    length noise = (8 * length gamma)%nat ->
    gadget_dot q (make_gadget q nb noise) (encode q nb beta noise gamma) = beta.
Proof. exact gadget_encode_decode. Qed.
Print Assumptions C13_gadget_encode_decode.

(* ------------------------------------------------------------------------------------------ *)
(** Multiply *)

(* the whole stack (setup pads -> correlated -> extended -> additive -> multiply), honest parties,
   every alpha, beta, every noise / randomness / hash function: no error, no panic, and
   share_S + share_R = alpha * beta (mod q) *)
Theorem C13_multiply_correct :
  forall (q : Z) (nb : nat) (sc2 : bytes -> Z * Z) (hV : bytes -> bytes -> bytes) (prg : bytes -> nat -> bytes),
    (0 < q)%Z -> (q <= Z.of_N (256 ^ N.of_nat nb))%Z ->
    (forall x, (0 <= fst (sc2 x) < q)%Z /\ (0 <= snd (sc2 x) < q)%Z) ->
    (forall k n, okrow n (prg k n)) ->
    forall k8 x, mult_inputs_ok q nb k8 x ->
    exists sS sR, mult_run q nb sc2 hV prg x = ROk (sS, sR) /\
                  mult_check q (mi_alpha x) (mi_beta x) sS sR = true.
Proof. exact multiply_correct. Qed.
Print Assumptions C13_multiply_correct.

(* the Multiply layer alone, on top of any additive OT output satisfying its relation *)
Theorem C13_multiply_check_passes : forall q, (0 < q)%Z ->
  forall chi0 chi1 choices alpha send recv,
    additive_check_from q 0 alpha choices send recv = true ->
    mult_recv_check_from q chi0 chi1 0 choices recv (map (mult_lin q chi0 chi1) send)
      (mult_lin q chi0 chi1 alpha) = ROk tt.
Proof. exact multiply_check_passes. Qed.
Print Assumptions C13_multiply_check_passes.

Theorem C13_multiply_layer_correct : forall q, (0 < q)%Z ->
  forall chi0 chi1 choices alpha send recv gadget rcheck ucheck sS,
    additive_check_from q 0 alpha choices send recv = true ->
    Forall (fun r => (0 <= fst r < q)%Z /\ (0 <= snd r < q)%Z) recv ->
    length gadget = length send ->
    mult_send q alpha chi0 chi1 send gadget = ROk (rcheck, ucheck, sS) ->
    exists sR, mult_recv q chi0 chi1 choices recv rcheck ucheck gadget = ROk sR /\
               zadd q sS sR = zmul q (fst alpha) (gadget_dot q gadget choices).
Proof. exact multiply_layer_correct. Qed.
Print Assumptions C13_multiply_layer_correct.

(* Altered sender message (MultiplySendRound1Message), seen after unmarshalling: pad i moved by
   (d0 i, d1 i), RCheck[i] by e i, UCheck by f.  The receiver never panics; it returns an error, or
   it accepts, and then [accept_cond] holds and the shares add up to
   alpha*beta + sum_j c_j * d0_j * g_j.
   C13_multiply_check_sound_todo (full statement): for EVERY alteration of EVERY OT message the run
   ends in an error or in a correct product.  Not provable as stated: (i) acceptance depends on the
   hash-derived weights chi0, chi1 (probabilistic soundness; for chi0 = 0 mod q a moved first pad is
   accepted with a wrong product), (ii) alterations of the receiver's U columns change the hash
   transcript and cannot be treated algebraically.  What IS proved for arbitrary, also malformed,
   sender messages: C13_multiply_never_panics, C13_multiply_malformed_rejected (below). *)
Theorem C13_multiply_check_sound_partial : forall q, (0 < q)%Z ->
  forall chi0 chi1 choices alpha d0 d1 e f send recv gadget rcheck ucheck sS,
    additive_check_from q 0 alpha choices send recv = true ->
    length gadget = length send ->
    mult_send q alpha chi0 chi1 send gadget = ROk (rcheck, ucheck, sS) ->
    let recv' := alter_recv q choices 0 d0 d1 recv in
    let out := mult_recv q chi0 chi1 choices recv' (alter_rcheck q 0 e rcheck) (zadd q ucheck f) gadget in
    out = RErr \/
    exists sR, out = ROk sR /\
      accept_cond q chi0 chi1 choices 0 (length send) d0 d1 e f /\
      eqm q (sS + sR) (fst alpha * gadget_dot q gadget choices + esum choices 0 d0 gadget).
Proof. exact multiply_altered. Qed.
Print Assumptions C13_multiply_check_sound_partial.

(* [alter_recv] is what the additive OT receiver outputs when the pads are replaced by other valid
   scalar encodings *)
Theorem C13_additive_altered_pads : forall (q : Z) (nb : nat) (sc2 : bytes -> Z * Z),
  (0 < q)%Z -> (q <= Z.of_N (256 ^ N.of_nat nb))%Z ->
  forall choices VC CP d0 d1,
    length CP = (8 * length choices)%nat ->
    (forall p, In p CP -> pad_ok q nb p) ->
    exists recv,
      additive_recv q nb sc2 choices VC CP = ROk recv /\
      additive_recv q nb sc2 choices VC (alter_pads q nb 0 d0 d1 CP)
      = ROk (alter_recv q choices 0 d0 d1 recv).
Proof. exact additive_altered_pads. Qed.
Print Assumptions C13_additive_altered_pads.

(* consequences: error, or still the right product *)
Theorem C13_multiply_altered_checks : forall q, (0 < q)%Z ->
  forall chi0 chi1 choices alpha d1 e f send recv gadget rcheck ucheck sS,
    additive_check_from q 0 alpha choices send recv = true ->
    length gadget = length send ->
    mult_send q alpha chi0 chi1 send gadget = ROk (rcheck, ucheck, sS) ->
    let recv' := alter_recv q choices 0 (fun _ => 0%Z) d1 recv in
    let out := mult_recv q chi0 chi1 choices recv' (alter_rcheck q 0 e rcheck) (zadd q ucheck f) gadget in
    out = RErr \/
    exists sR, out = ROk sR /\ zadd q sS sR = zmul q (fst alpha) (gadget_dot q gadget choices).
Proof. exact multiply_altered_checks_only. Qed.
Print Assumptions C13_multiply_altered_checks.

Theorem C13_multiply_altered_rcheck_rejected : forall q, (0 < q)%Z ->
  forall chi0 chi1 choices alpha e i send recv gadget rcheck ucheck sS,
    additive_check_from q 0 alpha choices send recv = true ->
    length gadget = length send ->
    mult_send q alpha chi0 chi1 send gadget = ROk (rcheck, ucheck, sS) ->
    (i < length send)%nat -> ~ eqm q (e i) 0 ->
    mult_recv q chi0 chi1 choices (alter_recv q choices 0 (fun _ => 0%Z) (fun _ => 0%Z) recv)
      (alter_rcheck q 0 e rcheck) (zadd q ucheck 0) gadget = RErr.
Proof. exact multiply_altered_rcheck_rejected. Qed.
Print Assumptions C13_multiply_altered_rcheck_rejected.

Theorem C13_multiply_altered_pads : forall q, (0 < q)%Z ->
  forall chi0 chi1 choices alpha d0 send recv gadget rcheck ucheck sS,
    prime q -> ~ eqm q chi0 0 ->
    additive_check_from q 0 alpha choices send recv = true ->
    length gadget = length send ->
    mult_send q alpha chi0 chi1 send gadget = ROk (rcheck, ucheck, sS) ->
    let recv' := alter_recv q choices 0 d0 (fun _ => 0%Z) recv in
    let out := mult_recv q chi0 chi1 choices recv' (alter_rcheck q 0 (fun _ => 0%Z) rcheck)
                 (zadd q ucheck 0) gadget in
    out = RErr \/
    exists sR, out = ROk sR /\ zadd q sS sR = zmul q (fst alpha) (gadget_dot q gadget choices).
Proof. exact multiply_altered_pads. Qed.
Print Assumptions C13_multiply_altered_pads.

(* MultiplyReceiver.Round2 (additive OT round 2, length check, integrity check, share) on an ARBITRARY
   sender message -- any number of pads, pads of any length and content, any RCheck list, any UCheck:
   it returns a share or an error, it never panics *)
Theorem C13_multiply_never_panics :
  forall (q : Z) (nb : nat) (sc2 : bytes -> Z * Z) chi0 chi1 choices VC gadget,
    length gadget = (8 * length choices)%nat ->
    forall CP rcheck ucheck,
      mult_recv_round2 q nb sc2 chi0 chi1 choices VC gadget CP rcheck ucheck <> RPanic.
Proof. exact multiply_never_panics. Qed.
Print Assumptions C13_multiply_never_panics.

(* wrong number of pads, a short or long pad (either component, either choice bit), wrong number of
   check values: error *)
Theorem C13_multiply_malformed_rejected :
  forall (q : Z) (nb : nat) (sc2 : bytes -> Z * Z) chi0 chi1 choices VC gadget CP rcheck ucheck,
      length CP <> (8 * length choices)%nat \/
      (exists i, (i < 8 * length choices)%nat /\
                 (length (fst (nth i CP ([], []))) <> nb \/ length (snd (nth i CP ([], []))) <> nb)) \/
      length rcheck <> (8 * length choices)%nat ->
      mult_recv_round2 q nb sc2 chi0 chi1 choices VC gadget CP rcheck ucheck = RErr.
Proof. exact multiply_malformed_rejected. Qed.
Print Assumptions C13_multiply_malformed_rejected.

(* ------------------------------------------------------------------------------------------ *)
(** Regression: the code BEFORE the repair ([*_v0]).  Both statements above were refuted by it. *)

(* v0: the masking loops read their bound from CombinedPads[j] instead of CombinedPads[i]; with at most
   nb (= 32) transfers the index j = nb does not exist and the honest receiver panicked *)
Theorem C13_additive_small_batch_panics_v0 : forall (q : Z) (nb : nat) (sc2 : bytes -> Z * Z) alpha choices V VC,
  length V = (8 * length choices)%nat -> (0 < length V <= nb)%nat ->
  additive_recv_v0 q nb sc2 choices VC (fst (additive_send q nb sc2 alpha V)) = RPanic.
Proof. exact additive_small_batch_panics. Qed.
Example C13_additive_ot_sum_refuted_v0 :
  exists (choices : bytes) (V : list (bytes * bytes)),
    length V = (8 * length choices)%nat /\ (0 < length V)%nat /\
    forall alpha VC,
      additive_recv_v0 secp256k1_q 32 demo_sc2 choices VC
        (fst (additive_send secp256k1_q 32 demo_sc2 alpha V)) = RPanic.
Proof. exact additive_small_batch_refuted_v0. Qed.
Print Assumptions C13_additive_ot_sum_refuted_v0.
(* ... the same run on the repaired code *)
Example C13_additive_small_batch_ok :
  exists recv,
    additive_recv secp256k1_q 32 demo_sc2 [165%N; 90%N; 255%N; 0%N] (firstn 32 demo_VC)
      (fst (additive_send secp256k1_q 32 demo_sc2 (11, 12)%Z (firstn 32 demo_V))) = ROk recv.
Proof. exact additive_small_batch_ok. Qed.

(* v0: one pad of the sender's message cut short (entry 7, 5 bytes instead of 32) made the honest
   receiver index past its end -- a panic, not an error ("index out of range [5] with length 5") *)
Example C13_altered_message_refuted_v0 :
  exists CP CP' i,
    (exists recv, additive_recv_v0 secp256k1_q 32 demo_sc2 demo_choices demo_VC CP = ROk recv) /\
    length CP' = length CP /\
    (forall j, j <> i -> nth j CP' ([], []) = nth j CP ([], [])) /\
    snd (nth i CP' ([], [])) = snd (nth i CP ([], [])) /\
    additive_recv_v0 secp256k1_q 32 demo_sc2 demo_choices demo_VC CP' = RPanic.
Proof. exact altered_short_pad_refuted_v0. Qed.
Print Assumptions C13_altered_message_refuted_v0.
(* ... the same message on the repaired code: an error *)
Example C13_altered_message_rejected :
  additive_recv secp256k1_q 32 demo_sc2 demo_choices demo_VC demo_CP_short = RErr.
Proof. exact additive_short_pad_rejected. Qed.

(* ------------------------------------------------------------------------------------------ *)
(** Examples: the hypotheses are satisfiable, and concrete runs *)

Example C13_toy_functions_ok :
  (forall k n, okrow n (toy_prg k n)) /\
  (forall x, (0 <= fst (toy_sc2 251 x) < 251)%Z /\ (0 <= snd (toy_sc2 251 x) < 251)%Z).
Proof. split; [exact toy_prg_ok | exact (toy_sc2_range 251 eq_refl)]. Qed.

(* q = 251, alpha = q-1, beta in {0, 1, q-1}: inputs are admissible, and the run is computed *)
Example C13_tiny_inputs_ok : mult_inputs_ok 251 1 1 (tiny_inputs 250 250).
Proof. apply tiny_inputs_ok. split; [discriminate | reflexivity]. Qed.
Example C13_tiny_run_qm1 :
  exists sS sR, mult_run 251 1 (toy_sc2 251) toy_hV toy_prg (tiny_inputs 250 250) = ROk (sS, sR)
                /\ ((sS + sR) mod 251 = (250 * 250) mod 251)%Z.
Proof. eexists; eexists; split; vm_compute; reflexivity. Qed.
Example C13_tiny_run_zero :
  exists sS sR, mult_run 251 1 (toy_sc2 251) toy_hV toy_prg (tiny_inputs 250 0) = ROk (sS, sR)
                /\ ((sS + sR) mod 251 = 0)%Z.
Proof. eexists; eexists; split; vm_compute; reflexivity. Qed.
Example C13_tiny_run_one :
  exists sS sR, mult_run 251 1 (toy_sc2 251) toy_hV toy_prg (tiny_inputs 1 1) = ROk (sS, sR)
                /\ ((sS + sR) mod 251 = 1)%Z.
Proof. eexists; eexists; split; vm_compute; reflexivity. Qed.

(* secp256k1-size: 32-byte scalars, 672 transfers, alpha = q-1, beta = q-2 *)
Example C13_mid_inputs_ok :
  mult_inputs_ok secp256k1_q 32 2 (mid_inputs (secp256k1_q - 1) (secp256k1_q - 2)).
Proof. apply mid_inputs_ok. split; [discriminate | reflexivity]. Qed.
Example C13_mid_run :
  match mult_run secp256k1_q 32 (toy_sc2 secp256k1_q) toy_hV toy_prg
          (mid_inputs (secp256k1_q - 1) (secp256k1_q - 2)) with
  | ROk (sS, sR) => mult_check secp256k1_q (secp256k1_q - 1) (secp256k1_q - 2) sS sR
  | _ => false
  end = true.
Proof. vm_compute. reflexivity. Qed.

(* the relation checkers are satisfiable and not trivially true *)
Example C13_corre_check_example :
  corre_check [3%N] [1%N] [[5%N]; [9%N]] [[6%N]; [9%N]] = true /\
  corre_check [3%N] [1%N] [[5%N]; [9%N]] [[5%N]; [9%N]] = false.
Proof. split; reflexivity. Qed.
Example C13_clmul_example : clmul 3 3 = 5%N /\ clmul128 3 3 = 5%N /\ clmul 7 11 = 49%N.
Proof. repeat split; reflexivity. Qed.
Example C13_prime_hyp_example : exists chi0, ~ eqm 251 chi0 0.
Proof. exists 1%Z. unfold eqm. discriminate. Qed.
