(* C09 (handler level) -- a message of another session / protocol / unknown sender / other recipient is
   refused by CanAccept, and forcing it into Accept changes nothing.  Model: Model/Handler.v
   ([m_ssid], [m_proto] are the interned session tag and protocol id; their injectivity is C09/C19).
   Only statements, each closed by [exact] of a lemma proved in Proofs/HandlerProofs.v. *)
From Coq Require Import List NArith ZArith Bool Arith Lia.
From MPS Require Import Model.Handler Proofs.HandlerProofs.
Import ListNotations.

Theorem C09_foreign_session_rejected : forall s m,
  m_ssid m <> h_ssid s \/ m_proto m <> h_proto s \/ ~ (m_from m < h_n s) \/ is_for (h_self s) m = false ->
  can_accept s m = false.
Proof. exact foreign_session_rejected. Qed.
Print Assumptions C09_foreign_session_rejected.

Theorem C09_foreign_session_noop : forall vh ofp s m,
  m_ssid m <> h_ssid s \/ m_proto m <> h_proto s \/ ~ (m_from m < h_n s) \/ is_for (h_self s) m = false ->
  accept vh ofp s m = s.
Proof. exact foreign_session_noop. Qed.
Print Assumptions C09_foreign_session_noop.

(* the session parameters of a handler never change *)
Theorem C09_session_parameters_fixed : forall fixed vh ofp self n ssid proto sh s,
  reachable fixed vh ofp self n ssid proto sh s ->
  h_self s = self /\ h_n s = n /\ h_ssid s = ssid /\ h_proto s = proto /\ h_shape s = sh.
Proof. exact reachable_static. Qed.
Print Assumptions C09_session_parameters_fixed.

(* -- non-vacuity: each disjunct, on a reachable running state; the well-formed message IS accepted -- *)
Example C09_ex_foreign :
  let good := ex_b 1 2 0 true in
  can_accept ex_start good = true
  /\ can_accept ex_start (mkMsg 8 9 1 None 2 true true 0 12 true NoPanic) = false      (* other session tag *)
  /\ can_accept ex_start (mkMsg 7 10 1 None 2 true true 0 12 true NoPanic) = false     (* other protocol id *)
  /\ can_accept ex_start (mkMsg 7 9 5 None 2 true true 0 12 true NoPanic) = false      (* unknown sender *)
  /\ can_accept ex_start (mkMsg 7 9 1 (Some 2) 2 true false 0 12 true NoPanic) = false (* addressed to someone else *)
  /\ can_accept ex_start (mkMsg 7 9 0 None 2 true true 0 12 true NoPanic) = false.     (* own message *)
Proof. vm_compute. repeat split. Qed.
