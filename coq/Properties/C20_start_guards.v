(* C20 (tie to the source): the argument checks of every public start function of protocols/cmp, protocols/frost and
   protocols/doerner, translated from /repo on every run (Generated/Validators.v, gen/gen_validate.go), ARE the predicates of
   Model/StartGuards.v -- for all arguments, nil configs included -- and those predicates say what the property demands.
   geval (Proofs/GuardsBase.v) evaluates a translated body with Go's short-circuit order over an environment atom -> model
   boolean (Proofs/StartGuardsBase.v; [None] = the code would dereference nil there).  A delegation `return sign.StartSign(..)`
   is evaluated through the TRANSLATED callee, so each entry-point theorem composes the source of both functions.
   What a start function hands to round.NewSession (SelfID, PartyIDs, Threshold, Group) is read off its round.Info literal
   and pinned here (C20_start_guards_session_infos); the parameter checks of NewSession itself are C20_guards_newSession_checks.
   Counterpart in the harness: c20Expect (harness/c20.go) = "flagged defect or session part false", with the session part
   sess.ok / sess.can_sign -- C20_start_guards_cmp_sign_oracle, _frost_sign_oracle restate the predicates in that form. *)
From Coq Require Import String List Bool Arith NArith ZArith.
From MPS Require Import Model.Bytes Model.Session Model.StartGuards.
From MPS Require Model.Cbor.
From MPS Require Import Generated.Params Generated.Guards Generated.Validators.
From MPS Require Import Proofs.GuardsBase Proofs.StartGuardsBase Proofs.StartGuardsProofs.
Import ListNotations.
Local Open Scope string_scope.
Local Open Scope Z_scope.

Theorem C20_start_guards_translated :
  strans ["cmp_ValidThreshold"; "cmp_Config_CanSign"; "cmp_Config_ValidateBasic"; "cmp_Keygen"; "cmp_Refresh"; "cmp_Sign"; "cmp_Presign";
          "cmp_PresignOnline"; "cmp_keygen_Start"; "cmp_sign_StartSign"; "cmp_presign_StartPresign"; "cmp_presign_StartPresignOnline";
          "frost_sameParties"; "frost_Keygen"; "frost_KeygenTaproot"; "frost_Refresh"; "frost_RefreshTaproot"; "frost_Sign";
          "frost_SignTaproot"; "frost_keygen_StartKeygenCommon"; "frost_sign_StartSignCommon"; "doerner_Keygen";
          "doerner_RefreshReceiver"; "doerner_RefreshSender"; "doerner_SignReceiver"; "doerner_SignSender";
          "doerner_keygen_StartKeygen"; "doerner_sign_StartSignReceiver"; "doerner_sign_StartSignSender"; "example_StartXOR"] = true
  /\ validators_untranslatable = [].
Proof. exact start_translated. Qed.
Print Assumptions C20_start_guards_translated.

(* every function below protocols/ that returns a protocol.StartFunc (auto-discovered) is among the translated ones *)
Theorem C20_start_guards_start_functions_complete :
  go_start_functions =
  [ "protocols/cmp/keygen: Start"; "protocols/cmp/presign: StartPresign"; "protocols/cmp/presign: StartPresignOnline";
    "protocols/cmp/sign: StartSign"; "protocols/cmp: Keygen"; "protocols/cmp: Presign"; "protocols/cmp: PresignOnline";
    "protocols/cmp: Refresh"; "protocols/cmp: Sign"; "protocols/doerner/keygen: StartKeygen";
    "protocols/doerner/sign: StartSignReceiver"; "protocols/doerner/sign: StartSignSender"; "protocols/doerner: Keygen";
    "protocols/doerner: RefreshReceiver"; "protocols/doerner: RefreshSender"; "protocols/doerner: SignReceiver";
    "protocols/doerner: SignSender"; "protocols/doerner: startError"; "protocols/example: StartXOR";
    "protocols/frost/keygen: StartKeygenCommon"; "protocols/frost/sign: StartSignCommon"; "protocols/frost: Keygen";
    "protocols/frost: KeygenTaproot"; "protocols/frost: Refresh"; "protocols/frost: RefreshTaproot"; "protocols/frost: Sign";
    "protocols/frost: SignTaproot"; "protocols/frost: startError" ].
Proof. exact start_functions_complete. Qed.
Print Assumptions C20_start_guards_start_functions_complete.

Theorem C20_start_guards_startError :
  go_frost_startError_body = "{ return func([]byte) (round.Session, error) { return nil, err } }" /\
  go_doerner_startError_body = "{ return func([]byte) (round.Session, error) { return nil, err } }".
Proof. exact startError_ok. Qed.
Print Assumptions C20_start_guards_startError.

(* ---- the shared predicates *)
Theorem C20_start_guards_ValidThreshold : forall t n,
  geval (alookup (env_valid_threshold t n)) go_cmp_ValidThreshold = Some (valid_threshold t n).
Proof. exact cmp_ValidThreshold. Qed.
Print Assumptions C20_start_guards_ValidThreshold.

Theorem C20_start_guards_valid_threshold_models : forall t n, Cbor.valid_threshold t (Z.of_nat n) = valid_threshold t n.
Proof. exact valid_threshold_models. Qed.
Print Assumptions C20_start_guards_valid_threshold_models.

Theorem C20_start_guards_CanSign : forall t self holders signers,
  geval (alookup (env_can_sign t self holders signers)) go_cmp_Config_CanSign = Some (can_sign t self holders signers).
Proof. exact cmp_Config_CanSign. Qed.
Print Assumptions C20_start_guards_CanSign.

Theorem C20_start_guards_ValidateBasic : forall v,
  geval (alookup (env_cmp_basic v)) go_cmp_Config_ValidateBasic = Some (cmp_validate_basic v).
Proof. exact cmp_Config_ValidateBasic. Qed.
Print Assumptions C20_start_guards_ValidateBasic.

Theorem C20_start_guards_ValidateBasic_loop_meaning : forall l,
  existsb pub_incomplete l = negb (forallb (fun e => pub_complete (snd e)) l).
Proof. exact pub_incomplete_complete. Qed.
Print Assumptions C20_start_guards_ValidateBasic_loop_meaning.

(* ---- CMP *)
Theorem C20_start_guards_cmp_keygen_Start : forall c grp ids self t,
  geval (alookup (env_cmp_keygen_Start c grp ids self t)) go_cmp_keygen_Start
  = Some (match c with Some v => cmp_validate_basic v | None => true end && sess_ok grp ids self t).
Proof. exact cmp_keygen_Start. Qed.
Print Assumptions C20_start_guards_cmp_keygen_Start.

Theorem C20_start_guards_cmp_Keygen : forall grp ids self t,
  geval (alookup (env_cmp_Keygen grp ids self t)) go_cmp_Keygen = Some (cmp_keygen_start grp ids self t).
Proof. exact cmp_Keygen. Qed.
Print Assumptions C20_start_guards_cmp_Keygen.

Theorem C20_start_guards_cmp_Refresh : forall v,
  geval (alookup (env_cmp_Refresh v)) go_cmp_Refresh = Some (cmp_refresh_start v).
Proof. exact cmp_Refresh. Qed.
Print Assumptions C20_start_guards_cmp_Refresh.

Theorem C20_start_guards_cmp_StartSign : forall v signers m,
  geval (alookup (env_cmp_StartSign v signers m)) go_cmp_sign_StartSign = Some (cmp_sign_start v signers m).
Proof. exact cmp_sign_StartSign. Qed.
Print Assumptions C20_start_guards_cmp_StartSign.

Theorem C20_start_guards_cmp_Sign : forall v signers m,
  geval (alookup (env_cmp_Sign v signers m)) go_cmp_Sign = Some (cmp_sign_start v signers m).
Proof. exact cmp_Sign. Qed.
Print Assumptions C20_start_guards_cmp_Sign.

Theorem C20_start_guards_cmp_StartPresign : forall v signers m,
  geval (alookup (env_cmp_StartSign v signers m)) go_cmp_presign_StartPresign = Some (cmp_presign_start v signers).
Proof. exact cmp_presign_StartPresign. Qed.
Print Assumptions C20_start_guards_cmp_StartPresign.

Theorem C20_start_guards_cmp_Presign : forall v signers,
  geval (alookup (env_cmp_Presign v signers)) go_cmp_Presign = Some (cmp_presign_start v signers).
Proof. exact cmp_Presign. Qed.
Print Assumptions C20_start_guards_cmp_Presign.

Theorem C20_start_guards_cmp_StartPresignOnline : forall v pp pv sg m,
  geval (alookup (env_cmp_StartPresignOnline v pp pv sg m)) go_cmp_presign_StartPresignOnline
  = Some (cmp_presign_online_start v pp pv sg m).
Proof. exact cmp_presign_StartPresignOnline. Qed.
Print Assumptions C20_start_guards_cmp_StartPresignOnline.

Theorem C20_start_guards_cmp_PresignOnline : forall v pp pv sg m,
  geval (alookup (env_cmp_PresignOnline v pp pv sg m)) go_cmp_PresignOnline = Some (cmp_presign_online_start v pp pv sg m).
Proof. exact cmp_PresignOnline. Qed.
Print Assumptions C20_start_guards_cmp_PresignOnline.

(* ---- FROST *)
Theorem C20_start_guards_frost_sameParties : forall ids holders is_holder,
  geval (alookup (env_sameParties ids holders is_holder)) go_frost_sameParties
  = Some (Nat.eqb (length ids) holders && forallb is_holder ids).
Proof. exact frost_sameParties. Qed.
Print Assumptions C20_start_guards_frost_sameParties.

Theorem C20_start_guards_frost_StartKeygenCommon : forall grp ids self t,
  geval (alookup (env_frost_StartKeygenCommon grp ids self t)) go_frost_keygen_StartKeygenCommon = Some (sess_ok grp ids self t).
Proof. exact frost_keygen_StartKeygenCommon. Qed.
Print Assumptions C20_start_guards_frost_StartKeygenCommon.

Theorem C20_start_guards_frost_Keygen : forall grp ids self t,
  geval (alookup (env_frost_Keygen grp ids self t)) go_frost_Keygen = Some (frost_keygen_start grp ids self t).
Proof. exact frost_Keygen. Qed.
Print Assumptions C20_start_guards_frost_Keygen.

Theorem C20_start_guards_frost_KeygenTaproot : forall ids self t,
  geval (alookup (env_frost_KeygenTaproot ids self t)) go_frost_KeygenTaproot
  = Some (frost_keygen_start (Some secp256k1_name) ids self t).
Proof. exact frost_KeygenTaproot. Qed.
Print Assumptions C20_start_guards_frost_KeygenTaproot.

Theorem C20_start_guards_frost_StartSignCommon : forall grp v signers m,
  geval (alookup (env_frost_StartSignCommon grp v signers m)) go_frost_sign_StartSignCommon
  = Some (frost_sign_start grp v signers m).
Proof. exact frost_sign_StartSignCommon. Qed.
Print Assumptions C20_start_guards_frost_StartSignCommon.

Theorem C20_start_guards_frost_Sign : forall grp v signers m,
  geval (alookup (env_frost_Sign grp v signers m)) go_frost_Sign = Some (frost_sign_start grp v signers m).
Proof. exact frost_Sign. Qed.
Print Assumptions C20_start_guards_frost_Sign.

Theorem C20_start_guards_frost_Refresh : forall grp v ids,
  geval (alookup (env_frost_Refresh grp v ids)) go_frost_Refresh = Some (frost_refresh_start grp v ids).
Proof. exact frost_Refresh. Qed.
Print Assumptions C20_start_guards_frost_Refresh.

Theorem C20_start_guards_frost_RefreshTaproot : forall v ids,
  geval (alookup (env_frost_RefreshTaproot v ids)) go_frost_RefreshTaproot = Some (frost_refresh_taproot_start v ids).
Proof. exact frost_RefreshTaproot. Qed.
Print Assumptions C20_start_guards_frost_RefreshTaproot.

Theorem C20_start_guards_frost_SignTaproot : forall v signers m,
  geval (alookup (env_frost_SignTaproot v signers m)) go_frost_SignTaproot = Some (frost_sign_taproot_start v signers m).
Proof. exact frost_SignTaproot. Qed.
Print Assumptions C20_start_guards_frost_SignTaproot.

(* the generic config SignTaproot signs with carries the taproot config's threshold (and id, share, lifted key, shares) *)
Theorem C20_start_guards_frost_SignTaproot_config :
  lit_of "keygen.Config" go_frost_SignTaproot_lits =
  Some [ ("ID", "config.ID"); ("Threshold", "config.Threshold"); ("PrivateShare", "config.PrivateShare"); ("PublicKey", "publicKey");
         ("VerificationShares", "party.NewPointMap(genericVerificationShares)") ] /\
  count_lits "keygen.Config" go_frost_SignTaproot_lits = 1%nat.
Proof. exact frost_SignTaproot_config. Qed.
Print Assumptions C20_start_guards_frost_SignTaproot_config.

(* ---- Doerner *)
Theorem C20_start_guards_doerner_sessions : forall receiver grp self other,
  geval (alookup (env_doerner_session receiver grp self other)) go_doerner_keygen_StartKeygen = Some (doerner_pair_ok grp self other) /\
  geval (alookup (env_doerner_session receiver grp self other)) go_doerner_sign_StartSignReceiver = Some (doerner_pair_ok grp self other) /\
  geval (alookup (env_doerner_session receiver grp self other)) go_doerner_sign_StartSignSender = Some (doerner_pair_ok grp self other).
Proof. exact doerner_sessions. Qed.
Print Assumptions C20_start_guards_doerner_sessions.

Theorem C20_start_guards_doerner_Keygen : forall receiver grp self other,
  geval (alookup (env_doerner_Keygen receiver grp self other)) go_doerner_Keygen = Some (doerner_keygen_start grp self other).
Proof. exact doerner_Keygen. Qed.
Print Assumptions C20_start_guards_doerner_Keygen.

Theorem C20_start_guards_doerner_Refresh : forall grp v self other,
  geval (alookup (env_doerner_Refresh grp v self other)) go_doerner_RefreshReceiver = Some (doerner_refresh_start grp v self other) /\
  geval (alookup (env_doerner_Refresh grp v self other)) go_doerner_RefreshSender = Some (doerner_refresh_start grp v self other).
Proof. exact doerner_Refresh. Qed.
Print Assumptions C20_start_guards_doerner_Refresh.

Theorem C20_start_guards_doerner_Sign : forall grp v self other m,
  geval (alookup (env_doerner_Sign grp v self other m)) go_doerner_SignReceiver = Some (doerner_sign_start grp v self other m) /\
  geval (alookup (env_doerner_Sign grp v self other m)) go_doerner_SignSender = Some (doerner_sign_start grp v self other m).
Proof. exact doerner_Sign. Qed.
Print Assumptions C20_start_guards_doerner_Sign.

(* ---- protocols/example *)
Theorem C20_start_guards_example_StartXOR : forall ids self,
  geval (alookup (env_xor ids self)) go_example_StartXOR = Some (xor_start ids self).
Proof. exact example_StartXOR. Qed.
Print Assumptions C20_start_guards_example_StartXOR.

Theorem C20_start_guards_xor_iff : forall ids self,
  xor_start ids self = true <-> NoDup ids /\ (forall id, In id ids -> id_ok None id = true) /\ In self ids.
Proof. exact xor_start_iff. Qed.
Print Assumptions C20_start_guards_xor_iff.

(* ---- what is handed to NewSession, and where *)
Theorem C20_start_guards_session_infos :
  session_info go_cmp_Keygen_lits = (Some "selfID", Some "participants", Some "threshold", Some "group") /\
  session_info go_cmp_Refresh_lits = (Some "config.ID", Some "config.PartyIDs()", Some "config.Threshold", Some "config.Group") /\
  session_info go_cmp_sign_StartSign_lits = (Some "config.ID", Some "signers", Some "config.Threshold", Some "config.Group") /\
  session_info go_cmp_presign_StartPresign_lits = (Some "c.ID", Some "signers", Some "c.Threshold", Some "c.Group") /\
  session_info go_cmp_presign_StartPresignOnline_lits = (Some "c.ID", Some "signers", Some "c.Threshold", Some "c.Group") /\
  session_info go_frost_keygen_StartKeygenCommon_lits = (Some "selfID", Some "participants", Some "threshold", Some "group") /\
  session_info go_frost_sign_StartSignCommon_lits = (Some "result.ID", Some "signers", Some "result.Threshold", Some "result.PublicKey.Curve()") /\
  session_info go_doerner_keygen_StartKeygen_lits = (Some "selfID", Some "party.NewIDSlice([]party.ID{selfID, otherID})", Some "1", Some "group") /\
  session_info go_doerner_sign_StartSignReceiver_lits = (Some "selfID", Some "party.NewIDSlice([]party.ID{selfID, otherID})", Some "1", Some "config.Group()") /\
  session_info go_doerner_sign_StartSignSender_lits = (Some "selfID", Some "party.NewIDSlice([]party.ID{selfID, otherID})", Some "1", Some "config.Group()") /\
  session_info go_example_StartXOR_lits = (Some "selfID", Some "partyIDs", None, None).
Proof. exact start_session_infos. Qed.
Print Assumptions C20_start_guards_session_infos.

Theorem C20_start_guards_session_info_counts :
  map (count_lits "round.Info")
    [ go_cmp_Keygen_lits; go_cmp_Refresh_lits; go_cmp_Sign_lits; go_cmp_Presign_lits; go_cmp_PresignOnline_lits; go_cmp_keygen_Start_lits;
      go_cmp_sign_StartSign_lits; go_cmp_presign_StartPresign_lits; go_cmp_presign_StartPresignOnline_lits;
      go_frost_Keygen_lits; go_frost_KeygenTaproot_lits; go_frost_Refresh_lits; go_frost_RefreshTaproot_lits; go_frost_Sign_lits;
      go_frost_SignTaproot_lits; go_frost_keygen_StartKeygenCommon_lits; go_frost_sign_StartSignCommon_lits;
      go_doerner_Keygen_lits; go_doerner_RefreshReceiver_lits; go_doerner_RefreshSender_lits; go_doerner_SignReceiver_lits;
      go_doerner_SignSender_lits; go_doerner_keygen_StartKeygen_lits; go_doerner_sign_StartSignReceiver_lits; go_doerner_sign_StartSignSender_lits ]
  = [1; 1; 0; 0; 0; 0; 1; 1; 1; 0; 0; 0; 0; 0; 0; 1; 1; 0; 0; 0; 0; 0; 1; 1; 1]%nat.
Proof. exact start_session_info_counts. Qed.
Print Assumptions C20_start_guards_session_info_counts.

Theorem C20_start_guards_traces :
  starts_with
    [ "do var helper *round.Helper";
      "if c == nil {";
      "do helper, err = round.NewSession(info, sessionID, pl)";
      "}";
      "else {";
      "if err != nil where err = c.ValidateBasic() -> return error";
      "do helper, err = round.NewSession(info, sessionID, pl, c)";
      "}";
      "if err != nil -> return error" ] go_cmp_keygen_Start_trace = true /\
  starts_with
    [ "if err != nil where err := config.ValidateBasic() -> return error";
      "do group := config.Group";
      "if len(message) == 0 -> return error";
      "do info := round.Info{ProtocolID: protocolSignID, FinalRoundNumber: protocolSignRounds, SelfID: config.ID, PartyIDs: signers, Threshold: config.Threshold, Group: config.Group}";
      "do helper, err := round.NewSession(info, sessionID, pl, config, types.SigningMessage(message))";
      "if err != nil -> return error";
      "if !config.CanSign(helper.PartyIDs()) -> return error" ] go_cmp_sign_StartSign_trace = true /\
  starts_with
    [ "if c == nil -> return error";
      "if err != nil where err := c.ValidateBasic() -> return error";
      "do info := round.Info{SelfID: c.ID, PartyIDs: signers, Threshold: c.Threshold, Group: c.Group}";
      "do if len(message) == 0 { info.FinalRoundNumber = protocolOfflineRounds info.ProtocolID = protocolOfflineID } else { info.FinalRoundNumber = protocolFullRounds info.ProtocolID = protocolFullID }";
      "do helper, err := round.NewSession(info, sessionID, pl, c, types.SigningMessage(message))";
      "if err != nil -> return error";
      "if !c.CanSign(helper.PartyIDs()) -> return error" ] go_cmp_presign_StartPresign_trace = true /\
  go_cmp_presign_StartPresignOnline_trace =
    [ "if c == nil || preSignature == nil -> return error";
      "if err != nil where err := c.ValidateBasic() -> return error";
      "if len(message) == 0 -> return error";
      "if err != nil where err := preSignature.Validate() -> return error";
      "do signers := preSignature.SignerIDs()";
      "if !c.CanSign(signers) -> return error";
      "do info := round.Info{ProtocolID: protocolOnlineID, FinalRoundNumber: protocolFullRounds, SelfID: c.ID, PartyIDs: signers, Threshold: c.Threshold, Group: c.Group}";
      "do helper, err := round.NewSession(info, sessionID, pl, c, hash.BytesWithDomain{TheDomain: ""PreSignatureID"", Bytes: preSignature.ID}, types.SigningMessage(message))";
      "if err != nil -> return error";
      "return session" ] /\
  starts_with
    [ "do info := round.Info{FinalRoundNumber: protocolRounds, SelfID: selfID, PartyIDs: participants, Threshold: threshold, Group: group}";
      "do if taproot { info.ProtocolID = protocolIDTaproot } else { info.ProtocolID = protocolID }";
      "do helper, err := round.NewSession(info, sessionID, nil)";
      "if err != nil -> return error" ] go_frost_keygen_StartKeygenCommon_trace = true /\
  go_frost_sign_StartSignCommon_trace =
    [ "if result == nil || result.PrivateShare == nil || result.PublicKey == nil || result.VerificationShares == nil -> return error";
      "if len(messageHash) == 0 -> return error";
      "loop any id in signers: (!ok || share == nil where share, ok := result.VerificationShares.Points[id]) -> return error";
      "do info := round.Info{FinalRoundNumber: protocolRounds, SelfID: result.ID, PartyIDs: signers, Threshold: result.Threshold, Group: result.PublicKey.Curve()}";
      "do if taproot { info.ProtocolID = protocolIDTaproot } else { info.ProtocolID = protocolID }";
      "do helper, err := round.NewSession(info, sessionID, nil)";
      "if err != nil -> return error";
      "return session" ] /\
  go_frost_SignTaproot_trace =
    [ "if config == nil || config.PrivateShare == nil || len(config.PublicKey) != 32 || config.VerificationShares == nil -> return refusal";
      "do publicKey, err := curve.Secp256k1{}.LiftX(config.PublicKey)";
      "if err != nil -> return refusal";
      "do genericVerificationShares := make(map[party.ID]curve.Point)";
      "loop any k, v in config.VerificationShares: v == nil [genericVerificationShares[k] = v] -> return refusal";
      "do normalResult := &keygen.Config{ID: config.ID, Threshold: config.Threshold, PrivateShare: config.PrivateShare, PublicKey: publicKey, VerificationShares: party.NewPointMap(genericVerificationShares)}";
      "return sign.StartSignCommon(true, normalResult, signers, messageHash)" ] /\
  starts_with
    [ "if config == nil || config.PrivateShare == nil || len(config.PublicKey) != 32 || config.VerificationShares == nil -> return refusal";
      "if !sameParties(participants, len(config.VerificationShares), func(id party.ID) bool { share, ok := config.VerificationShares[id] return ok && share != nil }) -> return refusal";
      "do publicKey, err := curve.Secp256k1{}.LiftX(config.PublicKey)";
      "if err != nil -> return refusal" ] go_frost_RefreshTaproot_trace = true /\
  starts_with
    [ "do info := round.Info{ProtocolID: ""doerner/keygen"", FinalRoundNumber: 3, SelfID: selfID, PartyIDs: party.NewIDSlice([]party.ID{selfID, otherID}), Threshold: 1, Group: group}";
      "do helper, err := round.NewSession(info, sessionID, nil)";
      "if err != nil -> return error" ] go_doerner_keygen_StartKeygen_trace = true /\
  starts_with
    [ "do info := round.Info{ProtocolID: ""doerner/sign"", FinalRoundNumber: 2, SelfID: selfID, PartyIDs: party.NewIDSlice([]party.ID{selfID, otherID}), Threshold: 1, Group: config.Group()}";
      "do helper, err := round.NewSession(info, sessionID, nil)";
      "if err != nil -> return error" ] go_doerner_sign_StartSignReceiver_trace = true /\
  starts_with
    [ "do info := round.Info{ProtocolID: ""doerner/sign"", FinalRoundNumber: 2, SelfID: selfID, PartyIDs: party.NewIDSlice([]party.ID{selfID, otherID}), Threshold: 1, Group: config.Group()}";
      "do helper, err := round.NewSession(info, sessionID, nil)";
      "if err != nil -> return error" ] go_doerner_sign_StartSignSender_trace = true.
Proof. exact start_traces_ok. Qed.
Print Assumptions C20_start_guards_traces.

(* ---- what the predicates mean (property level) *)
Theorem C20_start_guards_sess_ok_iff : forall grp ids self t,
  sess_ok grp ids self t = true <->
  NoDup ids /\ (forall id, In id ids -> id_ok grp id = true) /\ In self ids /\ (0 <= t <= max_uint32) /\ t <= Z.of_nat (length ids) - 1.
Proof. exact sess_ok_iff. Qed.
Print Assumptions C20_start_guards_sess_ok_iff.

Theorem C20_start_guards_can_sign_sorted_iff : forall t self sh sg,
  can_sign t self sh (sort_ids sg) = true <->
  (0 <= t <= max_uint32) /\ t < Z.of_nat (length sg) /\ NoDup sg /\ In self sg /\ (forall j, In j sg -> In j sh).
Proof. exact can_sign_sorted_iff. Qed.
Print Assumptions C20_start_guards_can_sign_sorted_iff.

Theorem C20_start_guards_validate_basic_iff : forall v,
  cmp_validate_basic v = true <->
  cv_present v = true /\ cv_group v <> None /\ (cv_ecdsa v = true /\ cv_elgamal v = true /\ cv_paillier v = true) /\
  (0 <= cv_thr v <= max_uint32 /\ cv_thr v <= Z.of_nat (length (cv_public v)) - 1) /\
  In (cv_id v) (cmp_holders v) /\ (forall e, In e (cv_public v) -> pub_complete (snd e) = true).
Proof. exact cmp_validate_basic_iff. Qed.
Print Assumptions C20_start_guards_validate_basic_iff.

(* cmp.Sign hands out a session iff: usable config, a message, signers pairwise distinct usable ids containing this party,
   more than t of them, every one a share holder *)
Theorem C20_start_guards_cmp_sign_iff : forall v sg m,
  cmp_sign_start v sg m = true <->
  cmp_validate_basic v = true /\ m <> 0%nat /\
  NoDup sg /\ (forall id, In id sg -> id_ok (cv_group v) id = true) /\ In (cv_id v) sg /\
  cv_thr v < Z.of_nat (length sg) /\ (forall j, In j sg -> In j (cmp_holders v)).
Proof. exact cmp_sign_start_iff. Qed.
Print Assumptions C20_start_guards_cmp_sign_iff.

Theorem C20_start_guards_cmp_presign_iff : forall v sg,
  cmp_presign_start v sg = true <->
  cmp_validate_basic v = true /\
  NoDup sg /\ (forall id, In id sg -> id_ok (cv_group v) id = true) /\ In (cv_id v) sg /\
  cv_thr v < Z.of_nat (length sg) /\ (forall j, In j sg -> In j (cmp_holders v)).
Proof. exact cmp_presign_start_iff. Qed.
Print Assumptions C20_start_guards_cmp_presign_iff.

Theorem C20_start_guards_cmp_refresh_iff : forall v,
  cmp_refresh_start v = true <->
  cmp_validate_basic v = true /\ NoDup (cmp_holders v) /\ (forall id, In id (cmp_holders v) -> id_ok (cv_group v) id = true).
Proof. exact cmp_refresh_start_iff. Qed.
Print Assumptions C20_start_guards_cmp_refresh_iff.

Theorem C20_start_guards_cmp_presign_online_iff : forall v pp pv sg m,
  cmp_presign_online_start v pp pv sg m = true <->
  cmp_validate_basic v = true /\ pp = true /\ pv = true /\ m <> 0%nat /\
  NoDup sg /\ (forall id, In id sg -> id_ok (cv_group v) id = true) /\ In (cv_id v) sg /\
  cv_thr v < Z.of_nat (length sg) /\ (forall j, In j sg -> In j (cmp_holders v)).
Proof. exact cmp_presign_online_start_iff. Qed.
Print Assumptions C20_start_guards_cmp_presign_online_iff.

Theorem C20_start_guards_frost_sign_iff : forall grp v sg m,
  frost_sign_start grp v sg m = true <->
  frost_complete v = true /\ m <> 0%nat /\ (forall j, In j sg -> In (j, true) (frost_entries v)) /\
  NoDup sg /\ (forall id, In id sg -> id_ok (Some grp) id = true) /\ In (fv_id v) sg /\
  (0 <= fv_thr v <= max_uint32) /\ fv_thr v < Z.of_nat (length sg).
Proof. exact frost_sign_start_iff. Qed.
Print Assumptions C20_start_guards_frost_sign_iff.

(* frost.Sign refuses iff the config is nil or incomplete, or there is no message, or a signer is no share holder, or the signer
   set is invalid (a duplicate, an unusable id), or this party is not a signer, or the threshold is out of range, or |S| <= t *)
Theorem C20_start_guards_frost_sign_refuses_iff : forall grp v sg m,
  frost_sign_start grp v sg m = false <->
  frost_complete v = false \/ m = 0%nat \/ (exists j, In j sg /\ frost_holder v j = false) \/
  ~ NoDup sg \/ (exists id, In id sg /\ id_ok (Some grp) id = false) \/ ~ In (fv_id v) sg \/
  fv_thr v < 0 \/ max_uint32 < fv_thr v \/ Z.of_nat (length sg) <= fv_thr v.
Proof. exact frost_sign_refuses_iff. Qed.
Print Assumptions C20_start_guards_frost_sign_refuses_iff.

Theorem C20_start_guards_frost_refresh_iff : forall grp v ids,
  frost_refresh_start grp v ids = true <->
  frost_complete v = true /\ length ids = length (frost_entries v) /\ (forall j, In j ids -> In (j, true) (frost_entries v)) /\
  NoDup ids /\ (forall id, In id ids -> id_ok (Some grp) id = true) /\ In (fv_id v) ids /\
  (0 <= fv_thr v <= max_uint32) /\ fv_thr v < Z.of_nat (length ids).
Proof. exact frost_refresh_start_iff. Qed.
Print Assumptions C20_start_guards_frost_refresh_iff.

(* frost.SignTaproot: as frost.Sign, with the TAPROOT config's threshold: a signer set of size <= t is refused *)
Theorem C20_start_guards_frost_sign_taproot_iff : forall v sg m,
  frost_sign_taproot_start v sg m = true <->
  taproot_complete v = true /\ tv_liftable v = true /\ (forall e, In e (taproot_entries v) -> snd e = true) /\
  m <> 0%nat /\ (forall j, In j sg -> In (j, true) (taproot_entries v)) /\
  NoDup sg /\ (forall id, In id sg -> id_ok (Some secp256k1_name) id = true) /\ In (tv_id v) sg /\
  (0 <= tv_thr v <= max_uint32) /\ tv_thr v < Z.of_nat (length sg).
Proof. exact frost_sign_taproot_start_iff. Qed.
Print Assumptions C20_start_guards_frost_sign_taproot_iff.

Theorem C20_start_guards_doerner_pair_iff : forall grp self other,
  doerner_pair_ok grp self other = true <-> self <> other /\ id_ok grp self = true /\ id_ok grp other = true.
Proof. exact doerner_pair_ok_iff. Qed.
Print Assumptions C20_start_guards_doerner_pair_iff.

Theorem C20_start_guards_doerner_sign_iff : forall grp v self other m,
  doerner_sign_start grp v self other m = true <->
  (dv_present v = true /\ dv_share v = true /\ dv_public v = true /\ dv_share_zero v = false /\ dv_public_identity v = false) /\
  dv_setup v = true /\ m <> 0%nat /\ self <> other /\ id_ok (Some grp) self = true /\ id_ok (Some grp) other = true.
Proof. exact doerner_sign_start_iff. Qed.
Print Assumptions C20_start_guards_doerner_sign_iff.

Theorem C20_start_guards_doerner_refresh_iff : forall grp v self other,
  doerner_refresh_start grp v self other = true <->
  (dv_present v = true /\ dv_share v = true /\ dv_public v = true /\ dv_share_zero v = false /\ dv_public_identity v = false) /\
  self <> other /\ id_ok (Some grp) self = true /\ id_ok (Some grp) other = true.
Proof. exact doerner_refresh_start_iff. Qed.
Print Assumptions C20_start_guards_doerner_refresh_iff.

(* ---- the form of the harness oracle c20Expect: flagged defects and sess.can_sign on the sorted signers *)
Theorem C20_start_guards_cmp_sign_oracle : forall v sg m,
  cmp_sign_start v sg m
  = cmp_validate_basic v && msg_ok m && forallb (id_ok (cv_group v)) sg
    && can_sign (cv_thr v) (cv_id v) (cmp_holders v) (sort_ids sg).
Proof. exact cmp_sign_start_oracle. Qed.
Print Assumptions C20_start_guards_cmp_sign_oracle.

Theorem C20_start_guards_frost_sign_oracle : forall grp v sg m,
  frost_sign_start grp v sg m
  = frost_complete v && msg_ok m && forallb (id_ok (Some grp)) sg
    && can_sign (fv_thr v) (fv_id v) (map fst (filter (fun e => snd e) (frost_entries v))) (sort_ids sg).
Proof. exact frost_sign_start_oracle. Qed.
Print Assumptions C20_start_guards_frost_sign_oracle.

(* ---- non-vacuity: three parties a, b, c with threshold 1, through the translated code *)
Definition pa : bytes := [97%N].  Definition pb : bytes := [98%N].  Definition pc : bytes := [99%N].  Definition pz : bytes := [122%N].
Definition ex_pub : pub_view := mkPubView true true true true true.
Definition ex_cmp (t : Z) : cmp_view :=
  mkCmpView true (Some secp256k1_name) true true true t pa [(pa, ex_pub); (pb, ex_pub); (pc, ex_pub)].
Definition ex_cmp_nil : cmp_view := mkCmpView false None false false false 0 [] [].
Definition ex_frost (t : Z) : frost_view := mkFrostView true true true (Some [(pa, true); (pb, true); (pc, true)]) pa t.
Definition ex_frost_nil : frost_view := mkFrostView false false false None [] 0.
Definition ex_taproot (t : Z) : taproot_view := mkTaprootView true true 32 true (Some [(pa, true); (pb, true); (pc, true)]) pa t.
Definition ex_doerner : doerner_view := mkDoernerView true true true true false false.

Example C20_start_guards_ex_cmp :
  geval (alookup (env_cmp_Sign (ex_cmp 1) [pb; pa] 32)) go_cmp_Sign = Some true /\           (* unsorted signers are fine *)
  geval (alookup (env_cmp_Sign (ex_cmp 1) [pa] 32)) go_cmp_Sign = Some false /\               (* |S| = t *)
  geval (alookup (env_cmp_Sign (ex_cmp 1) [pa; pz] 32)) go_cmp_Sign = Some false /\           (* a signer without a share *)
  geval (alookup (env_cmp_Sign (ex_cmp 1) [pb; pc] 32)) go_cmp_Sign = Some false /\           (* this party is no signer *)
  geval (alookup (env_cmp_Sign (ex_cmp 1) [pa; pb; pb] 32)) go_cmp_Sign = Some false /\       (* duplicate *)
  geval (alookup (env_cmp_Sign (ex_cmp 1) [pa; pb] 0)) go_cmp_Sign = Some false /\            (* no message *)
  geval (alookup (env_cmp_Sign (ex_cmp 3) [pa; pb; pc] 32)) go_cmp_Sign = Some false /\       (* t = n *)
  geval (alookup (env_cmp_Sign ex_cmp_nil [pa; pb] 32)) go_cmp_Sign = Some false /\           (* nil config: refused, not dereferenced *)
  geval (alookup (env_cmp_Refresh (ex_cmp 1))) go_cmp_Refresh = Some true /\
  geval (alookup (env_cmp_Refresh ex_cmp_nil)) go_cmp_Refresh = Some false /\
  geval (alookup (env_cmp_Presign (ex_cmp 1) [pa; pc])) go_cmp_Presign = Some true /\
  geval (alookup (env_cmp_PresignOnline (ex_cmp 1) true true [pa; pb] 32)) go_cmp_PresignOnline = Some true /\
  geval (alookup (env_cmp_PresignOnline (ex_cmp 1) false false [] 32)) go_cmp_PresignOnline = Some false /\
  geval (alookup (env_cmp_PresignOnline (ex_cmp 1) true true [pb; pc] 32)) go_cmp_PresignOnline = Some false /\
  geval (alookup (env_cmp_Keygen (Some secp256k1_name) [pc; pa; pb] pa 2)) go_cmp_Keygen = Some true /\
  geval (alookup (env_cmp_Keygen (Some secp256k1_name) [pc; pa; pb] pa 3)) go_cmp_Keygen = Some false /\
  geval (alookup (env_cmp_Keygen (Some secp256k1_name) [pc; pa; pb] pz 1)) go_cmp_Keygen = Some false.
Proof. repeat split; vm_compute; reflexivity. Qed.

Example C20_start_guards_ex_frost :
  geval (alookup (env_frost_Sign secp256k1_name (ex_frost 1) [pa; pb] 32)) go_frost_Sign = Some true /\
  geval (alookup (env_frost_Sign secp256k1_name (ex_frost 1) [pa] 32)) go_frost_Sign = Some false /\          (* |S| = t *)
  geval (alookup (env_frost_Sign secp256k1_name (ex_frost 1) [pa; pz] 32)) go_frost_Sign = Some false /\      (* no share holder *)
  geval (alookup (env_frost_Sign secp256k1_name (ex_frost 1) [pb; pc] 32)) go_frost_Sign = Some false /\      (* self missing *)
  geval (alookup (env_frost_Sign secp256k1_name (ex_frost 1) [pa; pb] 0)) go_frost_Sign = Some false /\
  geval (alookup (env_frost_Sign secp256k1_name ex_frost_nil [pa; pb] 32)) go_frost_Sign = Some false /\
  geval (alookup (env_frost_SignTaproot (ex_taproot 1) [pa; pb] 32)) go_frost_SignTaproot = Some true /\
  geval (alookup (env_frost_SignTaproot (ex_taproot 1) [pa] 32)) go_frost_SignTaproot = Some false /\         (* |S| = t: the taproot threshold counts *)
  geval (alookup (env_frost_SignTaproot (ex_taproot 2) [pa; pb] 32)) go_frost_SignTaproot = Some false /\
  geval (alookup (env_frost_Refresh secp256k1_name (ex_frost 1) [pa; pb; pc])) go_frost_Refresh = Some true /\
  geval (alookup (env_frost_Refresh secp256k1_name (ex_frost 1) [pa; pb])) go_frost_Refresh = Some false /\
  geval (alookup (env_frost_Refresh secp256k1_name (ex_frost 1) [pa; pb; pz])) go_frost_Refresh = Some false /\
  geval (alookup (env_frost_RefreshTaproot (ex_taproot 1) [pa; pb; pc])) go_frost_RefreshTaproot = Some true /\
  geval (alookup (env_frost_Keygen (Some secp256k1_name) [pa; pb; pc] pa 1)) go_frost_Keygen = Some true /\
  geval (alookup (env_frost_KeygenTaproot [pa; pb; pa] pa 1)) go_frost_KeygenTaproot = Some false.
Proof. repeat split; vm_compute; reflexivity. Qed.

Example C20_start_guards_ex_doerner :
  geval (alookup (env_doerner_Sign secp256k1_name ex_doerner pa pb 32)) go_doerner_SignReceiver = Some true /\
  geval (alookup (env_doerner_Sign secp256k1_name ex_doerner pa pb 32)) go_doerner_SignSender = Some true /\
  geval (alookup (env_doerner_Sign secp256k1_name ex_doerner pa pa 32)) go_doerner_SignReceiver = Some false /\   (* other = self *)
  geval (alookup (env_doerner_Sign secp256k1_name ex_doerner pa [] 32)) go_doerner_SignSender = Some false /\      (* empty id *)
  geval (alookup (env_doerner_Sign secp256k1_name ex_doerner pa pb 0)) go_doerner_SignReceiver = Some false /\
  geval (alookup (env_doerner_Sign secp256k1_name (mkDoernerView false false false false false false) pa pb 32)) go_doerner_SignReceiver = Some false /\
  geval (alookup (env_doerner_Sign secp256k1_name (mkDoernerView true false true true false false) pa pb 32)) go_doerner_SignSender = Some false /\
  geval (alookup (env_doerner_Refresh secp256k1_name ex_doerner pa pb)) go_doerner_RefreshReceiver = Some true /\
  geval (alookup (env_doerner_Refresh secp256k1_name (mkDoernerView true true true true true false) pa pb)) go_doerner_RefreshSender = Some false /\
  geval (alookup (env_doerner_Keygen true (Some secp256k1_name) pa pb)) go_doerner_Keygen = Some true /\
  geval (alookup (env_doerner_Keygen false (Some secp256k1_name) pa pa)) go_doerner_Keygen = Some false.
Proof. repeat split; vm_compute; reflexivity. Qed.
