(* C19 (tie to the source, byte level): the WRITERS of the transcript hash -- hash.WriteAny with its type switch and its
   4-part frame, New / Digest / Sum / Clone / Fork, Commit / Decommit, EVERY WriteTo(io.Writer) and Domain() of the tree and
   polynomial.Exponent.MarshalBinary -- are translated from /repo on every run into write programs
   (Generated/Writers.v, verifgen/gen_writers.go).  Proofs/WritersBase.v interprets the programs over the components of the
   model's typed values (Model/Framing.v hval); here: for ALL values, the translated code writes exactly the bytes of the
   model's encoders (enc_hval, frame, write_any, commit_input, decommit), failure for failure.
   Only statements, each closed by [exact] of a lemma of Proofs/WritersProofs.v, followed by Print Assumptions;
   Examples show that the statements are not vacuous and that wrong writers are told apart.

   xof: the digest stream of the hasher (first n bytes of output for the bytes absorbed), universally quantified;
   H64 xof = its first 64 bytes = the H of Model/Framing.v's decommit. *)
From Coq Require Import String List Bool NArith ZArith.
From MPS Require Import Model.Bytes Model.Framing.
From MPS Require Import Generated.Domains Generated.Writers Proofs.WritersBase Proofs.WritersProofs.
Import ListNotations.
Local Open Scope string_scope.
Local Open Scope N_scope.
Local Open Scope list_scope.

(* -- coverage -- *)

(* every listed function is inside the translated fragment *)
Theorem C19_writers_translated : writers_untranslatable = [].
Proof. exact writers_all_translated. Qed.
Print Assumptions C19_writers_translated.

(* every type of the tree with a WriteTo(io.Writer) is a kind of the model (a new hashed type fails here) *)
Theorem C19_writers_types_modelled :
  forallb (fun t => existsb (fun v => match hval_go_type v with Some t' => String.eqb t t' | None => false end) kind_reps)
          go_writer_types = true.
Proof. exact writer_types_modelled. Qed.
Print Assumptions C19_writers_types_modelled.

(* its WriteTo and its Domain are both translated, likewise for every Domain() listed in Generated/Domains.v *)
Theorem C19_writers_types_translated :
  forallb (fun t => has_writer (String.append t ".WriteTo") && has_writer (String.append t ".Domain")) go_writer_types = true
  /\ forallb (fun d => match d with (dir, ty, _) =>
                 has_writer (String.append dir (String.append "." (String.append ty ".WriteTo")))
                 && has_writer (String.append dir (String.append "." (String.append ty ".Domain"))) end) go_domains = true
  /\ go_writer_types = go_domain_types.
Proof. exact writer_types_translated. Qed.
Print Assumptions C19_writers_types_translated.

(* the programs run for a kind are the ones translated from the WriteTo / Domain of ITS Go type *)
Theorem C19_writers_programs_registered : forall xof,
  Forall (fun v => match hval_go_type v, hval_writer xof v with
                   | Some ty, Some (_, wp, dp) =>
                       prog_of go_writers (String.append ty ".WriteTo") = Some wp
                       /\ prog_of go_writers (String.append ty ".Domain") = Some dp
                   | _, _ => False
                   end) kind_reps.
Proof. exact writer_programs_registered. Qed.
Print Assumptions C19_writers_programs_registered.

(* locals bound to a path: only `partyIDs := c.PartyIDs()` in Config.WriteTo *)
Theorem C19_writers_lets :
  gw_config_Config_WriteTo_lets = [("partyIDs", "c.PartyIDs()")]
  /\ forallb (fun l => match l with [] => true | _ => false end)
       [gw_hash_WriteAny_lets; gw_hash_Sum_lets; gw_hash_Clone_lets; gw_hash_Fork_lets; gw_hash_Commit_lets;
        gw_hash_Decommit_lets; gw_hash_New_lets; gw_party_IDSlice_WriteTo_lets; gw_config_Public_WriteTo_lets;
        gw_pedersen_Parameters_WriteTo_lets; gw_polynomial_Exponent_WriteTo_lets;
        gw_polynomial_Exponent_MarshalBinary_lets] = true.
Proof. exact writers_lets_ok. Qed.
Print Assumptions C19_writers_lets.

(* -- every WriteTo / Domain: the data part and the domain of the model's item -- *)

(* for every kind k with a WriteTo and EVERY value v of it: running the translated WriteTo on the components of v writes
   exactly dat (enc_hval v) and returns nil, or returns an error exactly when the model has no item; the translated
   Domain() returns dom (enc_hval v) *)
Theorem C19_writers_kind_bytes : forall xof v en wp dp,
  hval_writer xof v = Some (en, wp, dp) ->
  writer_result xof en wp = Some (option_map dat (enc_hval v)) /\
  match enc_hval v with Some i => domain_result xof en dp = Some (dom i) | None => True end.
Proof. exact writer_kinds. Qed.
Print Assumptions C19_writers_kind_bytes.

(* the composite writers by name (what the calls inside them resolve to is part of the environment, see
   WritersBase.env_public / env_config / env_exponent: the run of the translated callee on the corresponding component) *)
Theorem C19_writers_idslice : forall xof o,
  writer_result xof (env_idslice o) gw_party_IDSlice_WriteTo = Some (option_map idslice_data o).
Proof. exact idslice_run. Qed.
Print Assumptions C19_writers_idslice.

Theorem C19_writers_pedersen : forall xof n s t,
  writer_result xof (env_pedersen n s t) gw_pedersen_Parameters_WriteTo = Some (pedersen_data_opt n s t).
Proof. exact pedersen_run. Qed.
Print Assumptions C19_writers_pedersen.

Theorem C19_writers_exponent_marshal : forall xof c co,
  marshal_result xof (env_exponent_marshal c co) gw_polynomial_Exponent_MarshalBinary = Some (Some (exponent_data c co)).
Proof. exact exponent_marshal. Qed.
Print Assumptions C19_writers_exponent_marshal.

Theorem C19_writers_cmp_public : forall xof p,
  writer_result xof (env_public xof p) gw_config_Public_WriteTo = Some (public_data p).
Proof. exact public_run. Qed.
Print Assumptions C19_writers_cmp_public.

Theorem C19_writers_cmp_config : forall xof c,
  writer_result xof (env_config xof c) gw_config_Config_WriteTo = Some (config_data c).
Proof. exact config_run. Qed.
Print Assumptions C19_writers_cmp_config.

(* -- WriteAny: type switch + frame -- *)

(* on the interface values of ANY list of model values (all 25 kinds) the translated WriteAny leaves the hasher with the
   model's stream and returns nil exactly when the model writes every value (it stops at the first failing one and keeps
   what was written before) *)
Theorem C19_writers_writeany : forall xof vs st,
  writeany_run xof gw_hash_WriteAny st (map (dyn_of xof) vs) = Some (write_any st vs).
Proof. exact writeany_items. Qed.
Print Assumptions C19_writers_writeany.

(* the frame by itself: a value whose WriteTo wrote b (the count it returned is not looked at) and whose Domain() is d is
   absorbed as  "(" be64|d| d be64|b| b ")"  = frame (d, b) *)
Theorem C19_writers_frame : forall xof mb b d st,
  writeany_run xof gw_hash_WriteAny st [writer_dyn mb (VRes (Some b)) (VBytes d)] = Some (st ++ frame (mkItem d b), true).
Proof. exact writeany_frame. Qed.
Print Assumptions C19_writers_frame.

(* -- New, Digest, Sum, Clone, Fork -- *)

Theorem C19_writers_new : forall xof vs,
  exec2 xof (env_new xof vs) gw_hash_New [] false
  = Ret [("hash.h", fold_left absorb vs init_state)] (RHash (fold_left absorb vs init_state)).
Proof. exact new_program. Qed.
Print Assumptions C19_writers_new.

Theorem C19_writers_sum : forall xof st, sum_run xof gw_hash_Sum st = Some (H64 xof st).
Proof. exact sum_is_digest64. Qed.
Print Assumptions C19_writers_sum.

Theorem C19_writers_digest : forall xof st,
  exec1 xof [] gw_hash_Digest [("hash.h", st)] false = Ret [("hash.h", st)] (RDigest st).
Proof. exact digest_program. Qed.
Print Assumptions C19_writers_digest.

Theorem C19_writers_clone : forall xof st,
  exec1 xof [] gw_hash_Clone [("hash.h", st)] false = Ret [("hash.h", st); ("return.h", st)] (RHash st).
Proof. exact clone_program. Qed.
Print Assumptions C19_writers_clone.

(* Fork: a copy that has absorbed what WriteAny absorbs; the receiver is unchanged *)
Theorem C19_writers_fork : forall xof vs st,
  exec2 xof (env_fork xof vs) gw_hash_Fork [("hash.h", st)] false
  = Ret [("hash.h", st); ("newHash.h", fst (write_any st vs))] (RHash (fst (write_any st vs))).
Proof. exact fork_program. Qed.
Print Assumptions C19_writers_fork.

(* -- Commit / Decommit -- *)

(* Commit hashes exactly the model's commit_input (state, values framed, decommitment framed) and returns (H(input), r)
   for the 32 bytes r that rand.Read delivers; an unwritable value makes it return an error *)
Theorem C19_writers_commit : forall xof vs st r,
  length r = 32%nat ->
  result_of (exec2 xof (env_commit xof vs r) gw_hash_Commit [("hash.h", st)] false)
  = Some (option_map (fun inp => RBytes [H64 xof inp; r]) (commit_input st vs r)).
Proof. exact commit_program. Qed.
Print Assumptions C19_writers_commit.

(* Decommit returns the model's decommit (the two Validate calls are Properties/C19_guards.v) *)
Theorem C19_writers_decommit : forall xof vs st c d,
  bool_result (exec2 xof (env_decommit xof c d vs) gw_hash_Decommit [("hash.h", st)] false)
  = Some (decommit (H64 xof) st c d vs).
Proof. exact decommit_program. Qed.
Print Assumptions C19_writers_decommit.

(* -- non-vacuity: concrete runs, both outcomes; wrong writers are told apart -- *)

Definition ex_xof (b : bytes) (n : nat) : bytes := firstn n (b ++ repeat 7 n).
Definition ex_pub := mkCmpPublic (5, true) (6, false) 1000 77 88 99.
Definition ex_cfg := mkCmpConfig 2 (Some [1; 2; 3]) [9; 9] [([98], ex_pub); ([97; 97], ex_pub)].

Example C19_writers_ex_runs :
  writer_result ex_xof (env_idslice (Some [[97]; [98; 99]])) gw_party_IDSlice_WriteTo
    = Some (Some [0;0;0;0;0;0;0;2; 0;0;0;0;0;0;0;1; 97; 0;0;0;0;0;0;0;2; 98; 99])
  /\ writer_result ex_xof (env_idslice None) gw_party_IDSlice_WriteTo = Some None
  /\ writer_result ex_xof (env_id []) gw_party_ID_WriteTo = Some None
  /\ writer_result ex_xof (env_pedersen (2 ^ 2048) 2 3) gw_pedersen_Parameters_WriteTo = Some None
  /\ writer_result ex_xof (env_config ex_xof ex_cfg) gw_config_Config_WriteTo = Some (config_data ex_cfg)
  /\ config_data ex_cfg <> None
  /\ writer_result ex_xof (env_config ex_xof (mkCmpConfig 2 None [] [])) gw_config_Config_WriteTo = Some None
  /\ writeany_run ex_xof gw_hash_WriteAny [1] (map (dyn_of ex_xof) [HBytes (Some [5]); HID []; HNat 2 5])
     = Some ([1; 40; 0;0;0;0;0;0;0;6; 91;93;98;121;116;101; 0;0;0;0;0;0;0;1; 5; 41], false).
Proof. repeat split; try (vm_compute; reflexivity). vm_compute. discriminate. Qed.

(* the hasher-level functions on a concrete commitment: Commit's output opens under Decommit, not for another value *)
Example C19_writers_ex_commit :
  let d := repeat 2 32 in
  match exec2 ex_xof (env_commit ex_xof [HID [1]] d) gw_hash_Commit [("hash.h", [9])] false with
  | Ret _ (RBytes [c; d']) =>
      d' = d
      /\ bool_result (exec2 ex_xof (env_decommit ex_xof c d [HID [1]]) gw_hash_Decommit [("hash.h", [9])] false) = Some true
      /\ bool_result (exec2 ex_xof (env_decommit ex_xof c d [HID [2]]) gw_hash_Decommit [("hash.h", [9])] false) = Some false
      /\ bool_result (exec2 ex_xof (env_decommit ex_xof c d [HID []]) gw_hash_Decommit [("hash.h", [9])] false) = Some false
  | _ => False
  end.
Proof. vm_compute. repeat split; reflexivity. Qed.

(* the pre-fix IDSlice.WriteTo (count, then the ids one after the other) as a program: the interpreter gives it the
   pre-fix bytes, which collide for {"a","bc"} / {"ab","c"} -- the translated current code does not *)
Definition idslice_v0_program : list wop :=
  [WFailIf (CNil "partyIDs");
   WWriteInt "w" 8 (NLen (EAtom "partyIDs")) true; WCheck;
   WFor "id" "partyIDs" [WWrite "w" (EAtom "id") true; WCheck];
   WReturn "nAll"].
Example C19_writers_mutant_idslice_v0 :
  writer_result ex_xof (env_idslice (Some [[97]; [98; 99]])) idslice_v0_program = Some (Some (idslice_data_v0 [[97]; [98; 99]]))
  /\ writer_result ex_xof (env_idslice (Some [[97]; [98; 99]])) idslice_v0_program
     = writer_result ex_xof (env_idslice (Some [[97; 98]; [99]])) idslice_v0_program
  /\ writer_result ex_xof (env_idslice (Some [[97]; [98; 99]])) gw_party_IDSlice_WriteTo
     <> writer_result ex_xof (env_idslice (Some [[97; 98]; [99]])) gw_party_IDSlice_WriteTo.
Proof. repeat split; try (vm_compute; reflexivity). vm_compute. discriminate. Qed.

(* a frame with 4-byte lengths, and one with domain and data swapped, are different byte strings from the model's frame *)
Definition frame_ops (w : N) (first second : string) : list wop :=
  [WMake "sizeBuf" (NLit w);
   WSet "toBeWritten.TheDomain" (ELit "D"); WSet "toBeWritten.Bytes" (ELit "xy");
   WWrite "hash.h" (ELit "(") false;
   WPutInt w "sizeBuf" (NLen (EVar first)); WWrite "hash.h" (EVar "sizeBuf") false; WWrite "hash.h" (EVar first) false;
   WPutInt w "sizeBuf" (NLen (EVar second)); WWrite "hash.h" (EVar "sizeBuf") false; WWrite "hash.h" (EVar second) false;
   WWrite "hash.h" (ELit ")") false; WReturn ""].
Definition run_frame (p : list wop) : option bytes :=
  match exec1 ex_xof [] p [("hash.h", [])] false with Ret s _ => sget s "hash.h" | _ => None end.
Example C19_writers_mutant_frames :
  run_frame (frame_ops 8 "toBeWritten.TheDomain" "toBeWritten.Bytes") = Some (frame (mkItem (str "D") (str "xy")))
  /\ run_frame (frame_ops 4 "toBeWritten.TheDomain" "toBeWritten.Bytes") <> Some (frame (mkItem (str "D") (str "xy")))
  /\ run_frame (frame_ops 8 "toBeWritten.Bytes" "toBeWritten.TheDomain") <> Some (frame (mkItem (str "D") (str "xy"))).
Proof. repeat split; try (vm_compute; reflexivity); vm_compute; discriminate. Qed.
