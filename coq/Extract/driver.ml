(* driver.ml -- hand-written glue: parse one "<op> <sexp>" request per line, call the extracted
   [Mpsmodel.run], print the resulting sexp on one line.  Parsing/printing only.
   Syntax:  atom = [-]decimal | [-]0xhex ;  bytes = #hex (possibly empty) ;  list = ( ... )   *)
type sx = Mpsmodel.sx = At of Z.t | Bs of Z.t list | Li of sx list
let run = Mpsmodel.mps_dispatch

exception Parse of string

let parse (s : string) (pos : int ref) : sx =
  let n = String.length s in
  let rec skip () = if !pos < n && (s.[!pos] = ' ' || s.[!pos] = '\t') then (incr pos; skip ()) in
  let rec value () : sx =
    skip ();
    if !pos >= n then raise (Parse "eof");
    match s.[!pos] with
    | '(' ->
        incr pos;
        let rec items acc =
          skip ();
          if !pos >= n then raise (Parse "unterminated list");
          if s.[!pos] = ')' then (incr pos; List.rev acc) else items (value () :: acc)
        in
        Li (items [])
    | '#' ->
        incr pos;
        let st = !pos in
        while !pos < n && (match s.[!pos] with '0'..'9' | 'a'..'f' | 'A'..'F' -> true | _ -> false) do incr pos done;
        let h = String.sub s st (!pos - st) in
        if String.length h mod 2 <> 0 then raise (Parse "odd hex");
        let rec go i acc =
          if i < 0 then acc
          else go (i - 2) (Z.of_int (int_of_string ("0x" ^ String.sub h i 2)) :: acc) in
        Bs (go (String.length h - 2) [])
    | _ ->
        let st = !pos in
        while !pos < n && (match s.[!pos] with ' ' | '\t' | '(' | ')' -> false | _ -> true) do incr pos done;
        let a = String.sub s st (!pos - st) in
        (try At (Z.of_string a) with _ -> raise (Parse ("bad atom " ^ a)))
  in
  value ()

let rec print (b : Buffer.t) (v : sx) : unit =
  match v with
  | At z -> Buffer.add_string b (Z.to_string z)
  | Bs l ->
      Buffer.add_char b '#';
      List.iter (fun x -> Buffer.add_string b (Printf.sprintf "%02x" (Z.to_int x land 255))) l
  | Li l ->
      Buffer.add_char b '(';
      List.iteri (fun i x -> if i > 0 then Buffer.add_char b ' '; print b x) l;
      Buffer.add_char b ')'

let bytes_of_string (s : string) : Z.t list =
  List.init (String.length s) (fun i -> Z.of_int (Char.code s.[i]))

let () =
  try
    while true do
      let line = input_line stdin in
      let out = Buffer.create 256 in
      (try
         let sp = try String.index line ' ' with Not_found -> String.length line in
         let op = String.sub line 0 sp in
         let pos = ref sp in
         let arg = if sp >= String.length line then Li [] else parse line pos in
         print out (run (bytes_of_string op) arg)
       with
       | Parse m -> Buffer.add_string out ("(#21657272 100) ; parse error: " ^ m)
       | Stack_overflow -> Buffer.add_string out "(#21657272 101)"
       | e -> Buffer.add_string out ("(#21657272 102) ; " ^ Printexc.to_string e));
      print_string (Buffer.contents out);
      print_newline ()
    done
  with End_of_file -> ()
