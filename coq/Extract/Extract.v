(* Extraction of the executable model. Directives used: exactly those of the three stdlib files
   below (listed verbatim in Extract/DIRECTIVES.txt by the setup script); none hand-written. *)
From Coq Require Import Extraction ExtrOcamlBasic ExtrOcamlZBigInt ExtrOcamlNatBigInt.
From MPS Require Import Model.Sx Model.Dispatch.
Extraction Language OCaml.
Extraction "mpsmodel.ml" mps_dispatch.
