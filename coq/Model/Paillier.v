(* Paillier.v -- executable model over Z of
     pkg/math/arith/modulus.go   (Modulus.Exp with and without factorisation, Modulus.ExpI)
     pkg/paillier/{public,secret,ciphertext}.go (EncWithNonce, Dec, DecWithRandomness, Add, Mul, ValidateCiphertexts, ValidateN)
     internal/mta/mta.go          (newMta / ProveAffG / ProveAffP arithmetic core, without the ZK proofs)
   saferith operations are modelled by their mathematical results:
     Nat.Exp(x,e,m)      = x^e mod m              (x is reduced first; even and odd moduli alike)
     Nat.ModInverse(x,m) = the inverse of x mod m in [0,m)  when gcd(x,m)=1  ("nonsense" otherwise in Go; here: some value in [0,m))
     Nat.ModMul/ModAdd/ModSub: operands reduced first, result in [0,m); written here as one reduction of the
       integer result ((a mod m) op (b mod m)) mod m = (a op b) mod m
     Int.SetModSymmetric(x,m): x mod m if -(x mod m) mod m > x mod m, else minus that   (0 gets sign bit 1: "-0", value 0)
     Nat.CmpMod, Nat.IsUnit(m) = (gcd(x,m) == 1)  (0 is not a unit: Coprime(0,m) runs the gcd and finds m)
   Checked against Go (scratch program, 1830 cases, keys 11*13 .. 128-bit N, both prime orders): all operations below agree.
   NOT modelled: saferith's Exp with an EVEN modulus (expEven never initialises its accumulator: a fresh receiver
   yields 0, e.g. 7^143 mod 120 = 0); no path of /repo reaches it (N, N^2, p, q, p^2, q^2 are odd); [powmod] is the
   mathematical value for every modulus.  ModInverse with the even modulus phi (DecWithRandomness) does agree.
   Definitions only. All functions are total; numbers are Z (Go's Nat arguments are >= 0, Int arguments are signed). *)
From Coq Require Import ZArith List Bool.
Import ListNotations.
Local Open Scope Z_scope.

(* ---- modular exponentiation: square-and-multiply on the binary expansion of e, x reduced first ---- *)
Fixpoint powmod_pos (n x : Z) (e : positive) : Z :=
  match e with
  | xH => x mod n
  | xO e' => let y := powmod_pos n x e' in (y * y) mod n
  | xI e' => let y := powmod_pos n x e' in (((y * y) mod n) * x) mod n
  end.

(* Nat.Exp(x, e, n); e is a Nat, so e >= 0 (for e <= 0 the empty product) *)
Definition powmod (n x e : Z) : Z :=
  match e with
  | Zpos p => powmod_pos n (x mod n) p
  | _ => 1 mod n
  end.

(* ---- extended Euclid with explicit fuel.  egcd f a b u v: invariant a = u*x, b = v*x (mod n); returns (gcd, u) ---- *)
Fixpoint egcd (fuel : nat) (a b u v : Z) : Z * Z :=
  match fuel with
  | O => (a, u)
  | S f => if b =? 0 then (a, u)
           else let q := a / b in egcd f b (a - q * b) v (u - q * v)
  end.

(* every step at least halves a*b, and a*b < n^2 <= 2^(2*(log2 n + 1)) at the start *)
Definition egcd_fuel (n : Z) : nat := Z.to_nat (2 * Z.log2 n + 2).

Definition gcd_mod (n x : Z) : Z := fst (egcd (egcd_fuel n) n (x mod n) 0 1).

(* Nat.ModInverse(x, n) *)
Definition modinv (n x : Z) : Z := snd (egcd (egcd_fuel n) n (x mod n) 0 1) mod n.

(* Nat.ExpI(x, e, n) and arith.Modulus.ExpI: power of |e|, then the modular inverse when e is negative *)
Definition expI (n x e : Z) : Z :=
  let y := powmod n x (Z.abs e) in
  if e <? 0 then modinv n y else y.

(* ---- arith.Modulus with known factorisation n = p*q (ModulusFromFactors(p, q): pInv = p^-1 mod q) ---- *)
(* Modulus.Exp:  xp = x^e mod p; xq = x^e mod q;
                 r = ModSub(xq, xp, n); r = ModMul(r, pInv, n); r = ModMul(r, p, n); r = ModAdd(r, xp, n) *)
Definition exp_crt (p q x e : Z) : Z :=
  let n := p * q in
  let pinv := modinv q p in
  let xp := powmod p x e in
  let xq := powmod q x e in
  let r := (xq - xp) mod n in
  let r := (r * pinv) mod n in
  let r := (r * p) mod n in
  (r + xp) mod n.

(* Modulus.ExpI with factorisation: y = n.Exp(x, |e|); inverted = ModInverse(y, n); CondAssign *)
Definition expI_crt (p q x e : Z) : Z :=
  let y := exp_crt p q x (Z.abs e) in
  if e <? 0 then modinv (p * q) y else y.

(* ---- Int.SetModSymmetric ---- *)
Definition symmod (m x : Z) : Z :=
  let a := x mod m in
  let neg := (- a) mod m in
  if neg <=? a then - neg else a.

(* ---- paillier.PublicKey built from N alone (NewPublicKey: no factorisation cached) ---- *)
(* EncWithNonce: panic ("Refused" = None) iff |m| > N >> 1 *)
Definition enc (N m rho : Z) : option Z :=
  let N2 := N * N in
  if Z.abs m >? N / 2 then None
  else Some ((expI N2 (N + 1) m * powmod N2 rho N) mod N2).

(* Ciphertext.Add: ModMul(c1, c2, N^2) *)
Definition add (N c1 c2 : Z) : Z := (c1 * c2) mod (N * N).

(* Ciphertext.Mul: nSquared.ExpI(c, k) *)
Definition mul (N k c : Z) : Z := expI (N * N) c k.

(* ValidateCiphertexts for one ciphertext: CmpMod < N^2 and IsUnit(N^2).  (c is a Nat: 0 <= c by type) *)
Definition validate_ct (N c : Z) : bool :=
  (0 <=? c) && (c <? N * N) && (gcd_mod (N * N) c =? 1).

(* ValidateN: bit length = params.BitsPaillier = 2048 and odd *)
Definition bits_paillier : Z := 2048.
Definition validate_n (N : Z) : bool := (0 <? N) && (Z.log2 N + 1 =? bits_paillier) && Z.odd N.

(* ---- paillier.SecretKey from primes p, q (NewSecretKeyFromPrimes): n = FromFactors(p,q), nSquared = FromFactors(p^2,q^2) ---- *)
Definition phi_of (p q : Z) : Z := (p - 1) * (q - 1).

(* the embedded PublicKey of a SecretKey takes the CRT route in every exponentiation *)
Definition enc_sk (p q m rho : Z) : option Z :=
  let N := p * q in
  let N2 := N * N in
  if Z.abs m >? N / 2 then None
  else Some ((expI_crt (p * p) (q * q) (N + 1) m * exp_crt (p * p) (q * q) rho N) mod N2).

Definition mul_sk (p q k c : Z) : Z := expI_crt (p * p) (q * q) c k.

(* SecretKey.Dec *)
Definition dec (p q c : Z) : option Z :=
  let N := p * q in
  if validate_ct N c then
    let phi := phi_of p q in
    let phiinv := modinv N phi in
    let r := exp_crt (p * p) (q * q) c phi in
    let r := r - 1 in
    let r := r / N in
    let r := (r * phiinv) mod N in
    Some (symmod N r)
  else None.

(* SecretKey.DecWithRandomness: x = n.ExpI(N+1, -m) * c mod N ; r = n.Exp(x, N^-1 mod phi) *)
Definition dec_with_randomness (p q c : Z) : option (Z * Z) :=
  match dec p q c with
  | None => None
  | Some m =>
      let N := p * q in
      let x := expI_crt p q (N + 1) (- m) in
      let x := (x * c) mod N in
      let ninv := modinv (phi_of p q) N in
      Some (m, exp_crt p q x ninv)
  end.

(* ---- MtA (internal/mta/mta.go newMta, as called by ProveAffG and ProveAffP) ----
   sender: secret a, receiver's ciphertext K, receiver's public key N (no factorisation);
     BetaNeg <- IntervalLPrime;  D = receiver.Enc(BetaNeg; s);  tmp = K.Clone().Mul(receiver, a);  D.Add(receiver, tmp)
     returns Beta = -BetaNeg and D.   (F = sender.Enc(BetaNeg; r) only feeds the ZK proof.)
   [beta_neg] is the sampled value; None when Enc panics. *)
Definition lprime : Z := 1280.

Definition mta_sender (N a K beta_neg rho_s : Z) : option (Z * Z) :=
  match enc N beta_neg rho_s with
  | None => None
  | Some E => Some (add N E (mul N a K), - beta_neg)
  end.

(* F under the sender's own secret key (CRT route) *)
Definition mta_sender_F (ps qs beta_neg rho_r : Z) : option Z := enc_sk ps qs beta_neg rho_r.

(* whole exchange: receiver (p,q) encrypts b with nonce rho_k, sender answers, receiver decrypts alpha.
   result (K, D, alpha, beta) *)
Definition mta (N p q a b beta_neg rho_k rho_s : Z) : option (Z * Z * Z * Z) :=
  match enc_sk p q b rho_k with
  | None => None
  | Some K =>
      match mta_sender N a K beta_neg rho_s with
      | None => None
      | Some (D, beta) =>
          match dec p q D with
          | None => None
          | Some alpha => Some (K, D, alpha, beta)
          end
      end
  end.
