(* Bytes.v -- byte strings, big-endian integer encodings.  Executable definitions only. *)
From Coq Require Import List NArith ZArith Bool.
Import ListNotations.
Open Scope N_scope.

Definition byte := N.
Definition bytes := list byte.

Definition wf_byte (b : byte) : bool := b <? 256.
Definition wf_bytes (l : bytes) : bool := forallb wf_byte l.

Definition len (l : bytes) : N := N.of_nat (length l).

(* k bytes, big endian, of n (truncating to the low 8k bits, like binary.BigEndian.PutUintXX
   and like FillBytes on a value that fits).  Computed little-endian with shifts and masks
   (structural on the binary representation, so it is fast under vm_compute too). *)
Fixpoint le_bytes (k : nat) (n : N) : bytes :=
  match k with
  | O => []
  | S k' => N.land n 255 :: le_bytes k' (N.shiftr n 8)
  end.
Definition be_bytes (k : nat) (n : N) : bytes := rev (le_bytes k n).

Definition be16 := be_bytes 2.
Definition be32 := be_bytes 4.
Definition be64 := be_bytes 8.

(* value of a little-endian / big-endian byte string *)
Fixpoint le_val (l : bytes) : N :=
  match l with
  | [] => 0
  | b :: l' => b + 256 * le_val l'
  end.
Definition be_val (l : bytes) : N := le_val (rev l).

(* number of bytes needed for n (0 for n = 0): Go's big.Int.Bytes / Nat.Bytes of a minimal Nat *)
Definition byte_len (n : N) : nat := N.to_nat ((N.size n + 7) / 8).
Definition be_min (n : N) : bytes := be_bytes (byte_len n) n.

Fixpoint bytes_eqb (a b : bytes) : bool :=
  match a, b with
  | [], [] => true
  | x :: a', y :: b' => (x =? y) && bytes_eqb a' b'
  | _, _ => false
  end.

Definition all_zero (l : bytes) : bool := forallb (fun b => b =? 0) l.

Fixpoint xor_bytes (a b : bytes) : bytes :=
  match a, b with
  | x :: a', y :: b' => N.lxor x y :: xor_bytes a' b'
  | _, _ => []
  end.

(* ASCII strings are written as byte lists by the generator / by hand *)
Definition ascii_bytes (s : list N) : bytes := s.
