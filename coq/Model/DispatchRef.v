(* DispatchRef.v -- ops exposing the reference cryptography (Sha, Secp256k1, RefSig) to the harness.
   Encodings: point = Li [At x; At y], infinity = Li []; byte strings Bs; booleans At 0/1;
   options Li [] / Li [v]. *)
From Coq Require Import String.
From Coq Require Import List NArith ZArith Bool.
From MPS Require Import Model.Bytes Model.Sx Model.Sha Model.Secp256k1 Model.RefSig.
Import ListNotations.
Open Scope Z_scope.

Definition as_point (s : sx) : option point :=
  match s with
  | Li [] => Some None
  | Li [At x; At y] => Some (Some (x, y))
  | _ => None
  end.
Definition sx_point (P : point) : sx :=
  match P with
  | None => Li []
  | Some (x, y) => Li [At x; At y]
  end.

Definition op_ref_sha256 (arg : sx) : option sx :=
  match arg with Bs m => Some (Bs (sha256 m)) | _ => None end.
Definition op_ref_sha512 (arg : sx) : option sx :=
  match arg with Bs m => Some (Bs (sha512 m)) | _ => None end.
Definition op_ref_hmac512 (arg : sx) : option sx :=
  match arg with Li [Bs k; Bs m] => Some (Bs (hmac_sha512 k m)) | _ => None end.
Definition op_ref_hmac256 (arg : sx) : option sx :=
  match arg with Li [Bs k; Bs m] => Some (Bs (hmac_sha256 k m)) | _ => None end.
Definition op_ref_tagged_hash (arg : sx) : option sx :=
  match arg with Li [Bs t; Bs m] => Some (Bs (tagged_hash t m)) | _ => None end.

Definition op_ref_base_mul (arg : sx) : option sx :=
  match arg with At k => Some (sx_point (base_mul k)) | _ => None end.
Definition op_ref_pt_mul (arg : sx) : option sx :=
  match arg with
  | Li [At k; P] => do P <- as_point P; Some (sx_point (pt_mul k P))
  | _ => None end.
(* slow affine-only scalar multiplication: cross-check of the Jacobian code *)
Definition op_ref_pt_mul_affine (arg : sx) : option sx :=
  match arg with
  | Li [At k; P] => do P <- as_point P; Some (sx_point (pt_mul_affine k P))
  | _ => None end.
Definition op_ref_pt_add (arg : sx) : option sx :=
  match arg with
  | Li [P; Q] => do P <- as_point P; do Q <- as_point Q; Some (sx_point (pt_add P Q))
  | _ => None end.
Definition op_ref_pt_neg (arg : sx) : option sx :=
  do P <- as_point arg; Some (sx_point (pt_neg P)).
Definition op_ref_on_curve (arg : sx) : option sx :=
  do P <- as_point arg; Some (sx_bool (on_curve P)).
Definition op_ref_compress (arg : sx) : option sx :=
  do P <- as_point arg; Some (sx_opt Bs (compress P)).
Definition op_ref_decompress (arg : sx) : option sx :=
  match arg with Bs b => Some (sx_opt sx_point (decompress b)) | _ => None end.
Definition op_ref_lift_x (arg : sx) : option sx :=
  match arg with At x => Some (sx_opt sx_point (lift_x x)) | _ => None end.

Definition op_ref_from_hash (arg : sx) : option sx :=
  match arg with Bs h => Some (At (from_hash h)) | _ => None end.

Definition op_ref_ecdsa_verify (arg : sx) : option sx :=
  match arg with
  | Li [X; R; At s; At m] =>
      do X <- as_point X; do R <- as_point R; Some (sx_bool (ecdsa_verify X R s m))
  | _ => None end.
Definition op_ref_ecdsa_verify_std (arg : sx) : option sx :=
  match arg with
  | Li [X; At r; At s; At m] => do X <- as_point X; Some (sx_bool (ecdsa_verify_std X r s m))
  | _ => None end.
(* (k d m) -> () | ((R r s)) *)
Definition op_ref_ecdsa_sign (arg : sx) : option sx :=
  match arg with
  | Li [At k; At d; At m] =>
      Some (sx_opt (fun t : point * Z * Z => let '(R, r, s) := t in Li [sx_point R; At r; At s])
                   (ecdsa_sign k d m))
  | _ => None end.
Definition op_ref_eth_recover (arg : sx) : option sx :=
  match arg with
  | Li [At h; At r; At s; At v] => Some (sx_opt sx_point (eth_recover h r s v))
  | _ => None end.

Definition op_ref_bip340_pubkey (arg : sx) : option sx :=
  match arg with Bs sk => Some (sx_opt Bs (bip340_pubkey sk)) | _ => None end.
Definition op_ref_bip340_sign (arg : sx) : option sx :=
  match arg with
  | Li [Bs sk; Bs msg; Bs aux] => Some (sx_opt Bs (bip340_sign sk msg aux))
  | _ => None end.
Definition op_ref_bip340_verify (arg : sx) : option sx :=
  match arg with
  | Li [Bs pk; Bs msg; Bs sig] => Some (sx_bool (bip340_verify pk msg sig))
  | _ => None end.
Definition op_ref_schnorr_verify_c (arg : sx) : option sx :=
  match arg with
  | Li [Y; R; At z; At c] =>
      do Y <- as_point Y; do R <- as_point R; Some (sx_bool (schnorr_verify_c Y R z c))
  | _ => None end.

(* (P chain index) -> () | (child chain' IL) *)
Definition op_ref_ckd_pub (arg : sx) : option sx :=
  match arg with
  | Li [P; Bs chain; i] =>
      do P <- as_point P; do i <- as_N i;
      Some (match ckd_pub_tweak P chain i with
            | None => Li []
            | Some (K, c, IL) => Li [sx_point K; Bs c; At IL]
            end)
  | _ => None end.

Definition ref_ops : list (bytes * (sx -> option sx)) :=
  [ (bytes_of_string "ref.sha256", op_ref_sha256);
    (bytes_of_string "ref.sha512", op_ref_sha512);
    (bytes_of_string "ref.hmac512", op_ref_hmac512);
    (bytes_of_string "ref.hmac256", op_ref_hmac256);
    (bytes_of_string "ref.tagged_hash", op_ref_tagged_hash);
    (bytes_of_string "ref.base_mul", op_ref_base_mul);
    (bytes_of_string "ref.pt_mul", op_ref_pt_mul);
    (bytes_of_string "ref.pt_mul_affine", op_ref_pt_mul_affine);
    (bytes_of_string "ref.pt_add", op_ref_pt_add);
    (bytes_of_string "ref.pt_neg", op_ref_pt_neg);
    (bytes_of_string "ref.on_curve", op_ref_on_curve);
    (bytes_of_string "ref.compress", op_ref_compress);
    (bytes_of_string "ref.decompress", op_ref_decompress);
    (bytes_of_string "ref.lift_x", op_ref_lift_x);
    (bytes_of_string "ref.from_hash", op_ref_from_hash);
    (bytes_of_string "ref.ecdsa_verify", op_ref_ecdsa_verify);
    (bytes_of_string "ref.ecdsa_verify_std", op_ref_ecdsa_verify_std);
    (bytes_of_string "ref.ecdsa_sign", op_ref_ecdsa_sign);
    (bytes_of_string "ref.eth_recover", op_ref_eth_recover);
    (bytes_of_string "ref.bip340_pubkey", op_ref_bip340_pubkey);
    (bytes_of_string "ref.bip340_sign", op_ref_bip340_sign);
    (bytes_of_string "ref.bip340_verify", op_ref_bip340_verify);
    (bytes_of_string "ref.schnorr_verify_c", op_ref_schnorr_verify_c);
    (bytes_of_string "ref.ckd_pub", op_ref_ckd_pub) ].
