(* DispatchCbor.v -- ops exposing the codec model (Model/Cbor.v, C15) to the harness.
   cbor tree as sx:  (0 n) uint | (1 n) negint -1-n | (2 #b) bytes | (3 #b) text | (4 (v ...)) array
                     | (5 ((k v) ...)) map | (6 0/1) bool | (7) null
   options: () / (v);  points: (x y) / () for the identity;  outcome: (0 v) ok | (1 code) error | (2) panic *)
From Coq Require Import String.
From Coq Require Import List NArith ZArith Bool.
From MPS Require Import Model.Bytes Model.Sx Model.Secp256k1 Model.Cbor.
Import ListNotations.
Open Scope Z_scope.

Definition cstr (s : string) : bytes := tstr s.

Fixpoint as_cbor (s : sx) : option cbor :=
  match s with
  | Li [At 0; At n] => if n <? 0 then None else Some (CUint (Z.to_N n))
  | Li [At 1; At n] => if n <? 0 then None else Some (CNeg (Z.to_N n))
  | Li [At 2; Bs b] => Some (CBytes b)
  | Li [At 3; Bs b] => Some (CText b)
  | Li [At 4; Li l] =>
      option_map CArr
        ((fix go (l : list sx) : option (list cbor) :=
            match l with
            | [] => Some []
            | x :: l' => match as_cbor x, go l' with Some v, Some r => Some (v :: r) | _, _ => None end
            end) l)
  | Li [At 5; Li l] =>
      option_map CMap
        ((fix go (l : list sx) : option (list (cbor * cbor)) :=
            match l with
            | [] => Some []
            | Li [k; v] :: l' =>
                match as_cbor k, as_cbor v, go l' with
                | Some k', Some v', Some r => Some ((k', v') :: r)
                | _, _, _ => None end
            | _ => None
            end) l)
  | Li [At 6; At b] => Some (CBool (negb (b =? 0)))
  | Li [At 7] => Some CNull
  | _ => None
  end.

Fixpoint sx_cbor (v : cbor) : sx :=
  match v with
  | CUint n => Li [At 0; At (Z.of_N n)]
  | CNeg n => Li [At 1; At (Z.of_N n)]
  | CBytes b => Li [At 2; Bs b]
  | CText b => Li [At 3; Bs b]
  | CArr l => Li [At 4; Li (map sx_cbor l)]
  | CMap l => Li [At 5; Li (map (fun kv => Li [sx_cbor (fst kv); sx_cbor (snd kv)]) l)]
  | CBool b => Li [At 6; sx_bool b]
  | CNull => Li [At 7]
  end.

Definition sx_pt (P : point) : sx :=
  match P with None => Li [] | Some (x, y) => Li [At x; At y] end.
Definition as_pt (s : sx) : option point :=
  match s with
  | Li [] => Some None
  | Li [At x; At y] => Some (Some (x, y))
  | _ => None
  end.

Definition sx_outcome {A} (f : A -> sx) (o : outcome A) : sx :=
  match o with
  | Ok a => Li [At 0; f a]
  | Err c => Li [At 1; At (Z.of_N c)]
  | Panic => Li [At 2]
  end.

(* "cbor.encode": tree -> (#bytes wf) *)
Definition op_cbor_encode (arg : sx) : option sx :=
  do v <- as_cbor arg; Some (Li [Bs (encode v); sx_bool (wf_cbor v)]).

(* "cbor.decode": #bytes -> () | (tree #rest) *)
Definition op_cbor_decode (arg : sx) : option sx :=
  match arg with
  | Bs b => Some (match decode_any b with
                  | None => Li []
                  | Some (v, r) => Li [sx_cbor v; Bs r] end)
  | _ => None end.

Definition as_message (s : sx) : option message :=
  match s with
  | Li [ssid; Bs from; Bs to; Bs proto; rnd; data; bc; bv] =>
      do ssid <- as_opt as_bytes ssid;
      do rnd <- as_N rnd;
      do data <- as_opt as_bytes data;
      do bc <- as_bool bc;
      do bv <- as_opt as_bytes bv;
      Some (mkMessage ssid from to proto rnd data bc bv)
  | _ => None end.

Definition sx_message (m : message) : sx :=
  Li [sx_opt Bs (m_ssid m); Bs (m_from m); Bs (m_to m); Bs (m_protocol m); sx_N (m_round m);
      sx_opt Bs (m_data m); sx_bool (m_bcast m); sx_opt Bs (m_bv m)].

(* "cbor.message_encode": (ssid? from to protocol round data? broadcast bv?) -> (#bytes real_message) *)
Definition op_cbor_message_encode (arg : sx) : option sx :=
  do m <- as_message arg; Some (Li [Bs (message_encode m); sx_bool (real_message m)]).

(* "cbor.message_decode": #bytes -> () | (message)      (into a fresh Message) *)
Definition op_cbor_message_decode (arg : sx) : option sx :=
  match arg with
  | Bs b => Some (sx_opt sx_message (message_decode empty_message b))
  | _ => None end.

(* "cbor.message_unmarshal": (message0 #bytes) -> (message error-reported) *)
Definition op_cbor_message_unmarshal (arg : sx) : option sx :=
  match arg with
  | Li [m0; Bs b] =>
      do m0 <- as_message m0;
      let '(m, e) := message_unmarshal m0 b in Some (Li [sx_message m; sx_bool e])
  | _ => None end.

(* "cbor.exponent_encode": (is_constant () | ((pt ...))) -> #bytes *)
Definition op_cbor_exponent_encode (arg : sx) : option sx :=
  match arg with
  | Li [c; co] =>
      do c <- as_bool c;
      do co <- as_opt (as_list_of as_pt) co;
      Some (Bs (exponent_encode c co))
  | _ => None end.

(* "cbor.exponent_decode": #bytes -> outcome (is_constant (pt ...)) *)
Definition op_cbor_exponent_decode (arg : sx) : option sx :=
  match arg with
  | Bs b => Some (sx_outcome (fun r : bool * list point => Li [sx_bool (fst r); sx_list sx_pt (snd r)])
                             (exponent_decode b))
  | _ => None end.

Definition op_cbor_scalar_encode (arg : sx) : option sx :=
  match arg with At s => Some (Bs (scalar_encode s)) | _ => None end.
(* "cbor.scalar_decode": #bytes -> () | (s) *)
Definition op_cbor_scalar_decode (arg : sx) : option sx :=
  match arg with Bs b => Some (sx_opt At (scalar_decode b)) | _ => None end.

Definition op_cbor_point_encode (arg : sx) : option sx :=
  do P <- as_pt arg; Some (Bs (point_encode P)).
(* "cbor.point_decode": #bytes -> () | ((x y)) as written; second component: the strict SEC1 decoder *)
Definition op_cbor_point_decode (arg : sx) : option sx :=
  match arg with
  | Bs b => Some (Li [sx_opt sx_pt (point_decode b); sx_opt sx_pt (decompress b)])
  | _ => None end.

Definition sx_pub (p : pub_c) : sx :=
  Li [Bs (pc_id p); sx_pt (pc_ecdsa p); sx_pt (pc_elgamal p); At (pc_N p); sx_opt At (pc_S p); sx_opt At (pc_T p)].
Definition sx_config (c : config_c) : sx :=
  Li [Bs (c_id c); At (c_threshold c); At (c_ecdsa c); At (c_elgamal c); At (c_P c); At (c_Q c);
      sx_opt Bs (c_rid c); sx_opt Bs (c_chain c); sx_list sx_pub (c_public c)].

(* "cbor.config_unmarshal": #bytes -> outcome config      (primality: Miller-Rabin; ActOnBase: reference curve)
   the repaired code; "cbor.config_unmarshal_v0" is the code before fixes 8307514 / 3216d4d *)
Definition op_cbor_config_unmarshal (arg : sx) : option sx :=
  match arg with
  | Bs b => Some (sx_outcome sx_config (config_unmarshal mr_prime base_mul b))
  | _ => None end.

Definition op_cbor_config_unmarshal_v0 (arg : sx) : option sx :=
  match arg with
  | Bs b => Some (sx_outcome sx_config (config_unmarshal_v0 mr_prime base_mul b))
  | _ => None end.

(* "cbor.validate_prime": p -> bool *)
Definition op_cbor_validate_prime (arg : sx) : option sx :=
  match arg with At p => Some (sx_bool (validate_prime mr_prime (Some p))) | _ => None end.

Definition sx_frost (c : frost_config) : sx :=
  Li [Bs (f_id c); At (f_threshold c); At (f_share c); sx_pt (f_public c); sx_opt Bs (f_chain c);
      sx_list (fun e : bytes * point => Li [Bs (fst e); sx_pt (snd e)]) (f_shares c)].

(* "cbor.frost_unmarshal": #bytes -> outcome config *)
Definition op_cbor_frost_unmarshal (arg : sx) : option sx :=
  match arg with Bs b => Some (sx_outcome sx_frost (frost_unmarshal b)) | _ => None end.

(* "cbor.frost_unmarshal_v0": the code before the validating UnmarshalCBOR *)
Definition op_cbor_frost_unmarshal_v0 (arg : sx) : option sx :=
  match arg with Bs b => Some (sx_outcome sx_frost (frost_unmarshal_v0 b)) | _ => None end.

Definition sx_shares (l : list (bytes * point)) : sx :=
  sx_list (fun e : bytes * point => Li [Bs (fst e); sx_pt (snd e)]) l.

Definition sx_taproot (c : taproot_config) : sx :=
  Li [Bs (t_id c); At (t_threshold c); sx_opt At (t_share c); sx_opt Bs (t_public c); sx_opt Bs (t_chain c);
      sx_shares (t_shares c)].
(* "cbor.taproot_unmarshal": #bytes -> outcome config *)
Definition op_cbor_taproot_unmarshal (arg : sx) : option sx :=
  match arg with Bs b => Some (sx_outcome sx_taproot (taproot_unmarshal b)) | _ => None end.

Definition sx_doerner (c : doerner_config) : sx :=
  Li [sx_opt Bs (d_setup c); At (d_share c); sx_pt (d_public c); sx_opt Bs (d_chain c)].
(* "cbor.doerner_unmarshal": (setup-length #bytes) -> outcome config     (4096 receiver, 2064 sender) *)
Definition op_cbor_doerner_unmarshal (arg : sx) : option sx :=
  match arg with
  | Li [n; Bs b] => do n <- as_nat n; Some (sx_outcome sx_doerner (doerner_unmarshal n b))
  | _ => None end.

(* "cbor.signature_unmarshal": #bytes -> outcome (R s) *)
Definition op_cbor_signature_unmarshal (arg : sx) : option sx :=
  match arg with
  | Bs b => Some (sx_outcome (fun sg : point * Z => Li [sx_pt (fst sg); At (snd sg)]) (signature_unmarshal b))
  | _ => None end.

Definition sx_presig (p : presig) : sx :=
  Li [sx_opt Bs (ps_id p); sx_pt (ps_R p); sx_opt sx_shares (ps_RBar p); sx_opt sx_shares (ps_S p);
      At (ps_k p); At (ps_chi p)].
(* "cbor.presig_unmarshal": #bytes -> outcome presignature *)
Definition op_cbor_presig_unmarshal (arg : sx) : option sx :=
  match arg with Bs b => Some (sx_outcome sx_presig (presig_unmarshal b)) | _ => None end.

Definition op_cbor_utf8_valid (arg : sx) : option sx :=
  match arg with Bs b => Some (sx_bool (utf8_valid b)) | _ => None end.

Definition cbor_ops : list (bytes * (sx -> option sx)) :=
  [ (cstr "cbor.encode", op_cbor_encode);
    (cstr "cbor.decode", op_cbor_decode);
    (cstr "cbor.message_encode", op_cbor_message_encode);
    (cstr "cbor.message_decode", op_cbor_message_decode);
    (cstr "cbor.message_unmarshal", op_cbor_message_unmarshal);
    (cstr "cbor.exponent_encode", op_cbor_exponent_encode);
    (cstr "cbor.exponent_decode", op_cbor_exponent_decode);
    (cstr "cbor.scalar_encode", op_cbor_scalar_encode);
    (cstr "cbor.scalar_decode", op_cbor_scalar_decode);
    (cstr "cbor.point_encode", op_cbor_point_encode);
    (cstr "cbor.point_decode", op_cbor_point_decode);
    (cstr "cbor.config_unmarshal", op_cbor_config_unmarshal);
    (cstr "cbor.config_unmarshal_v0", op_cbor_config_unmarshal_v0);
    (cstr "cbor.validate_prime", op_cbor_validate_prime);
    (cstr "cbor.validate_prime_v0", fun arg => match arg with At p => Some (sx_bool (validate_prime_v0 mr_prime (Some p))) | _ => None end);
    (cstr "cbor.frost_unmarshal", op_cbor_frost_unmarshal);
    (cstr "cbor.frost_unmarshal_v0", op_cbor_frost_unmarshal_v0);
    (cstr "cbor.taproot_unmarshal", op_cbor_taproot_unmarshal);
    (cstr "cbor.doerner_unmarshal", op_cbor_doerner_unmarshal);
    (cstr "cbor.signature_unmarshal", op_cbor_signature_unmarshal);
    (cstr "cbor.presig_unmarshal", op_cbor_presig_unmarshal);
    (cstr "cbor.utf8_valid", op_cbor_utf8_valid) ].
