(* ops for the TwoPartyHandler model: replay an event history, return the observation after each event.
   Same event encoding and the same 11-field observation tuple as hnd.run (Model/DispatchHandler.v); fields
   without a counterpart in TwoPartyHandler (culprits, broadcast queue) are empty / 0, field 9 lists the round
   numbers that have a stored message, field 8 is their count. *)
From Coq Require Import String.
From Coq Require Import List NArith ZArith Bool Arith.
From MPS Require Import Model.Bytes Model.Sx Model.Framing Model.Handler Model.DispatchHandler Model.TwoParty.
Import ListNotations.

(* out: (to round bcast) ; to = -1 for "everyone" *)
Definition tout_of_sx (s : sx) : option outmsg :=
  match s with
  | Li [At to; rnd; bc] =>
      do rnd <- as_nat rnd; do bc <- as_bool bc;
      Some (mkOut (if (to <? 0)%Z then None else Some (Z.to_nat to)) rnd bc 0%N)
  | _ => None end.

(* next: (0 nr) | (1 nonnil) | (2 witherr) *)
Definition tnext_of_sx (s : sx) : option tnext :=
  match s with
  | Li [At 0%Z; nr] => do nr <- as_nat nr; Some (TNRound nr)
  | Li [At 1%Z; b] => do b <- as_bool b; Some (TNOutput b)
  | Li [At 2%Z; b] => do b <- as_bool b; Some (TNAbort b)
  | _ => None end.

(* fin: (0) error | (1) (nil, nil) | (2 (out ...) next) *)
Definition tfin_of_sx (s : sx) : option tfin :=
  match s with
  | Li [At 0%Z] => Some TFErr
  | Li [At 1%Z] => Some TFNil
  | Li [At 2%Z; Li outs; nx] => do outs <- map_opt tout_of_sx outs; do nx <- tnext_of_sx nx; Some (TFNext outs nx)
  | _ => None end.

(* shape: (final ((expects fin) ...))   -- entry i describes round i; rounds outside the table: no message, Finalize fails *)
Definition tshape_of_sx (s : sx) : option tshape :=
  match s with
  | Li [f; Li rounds] =>
      do f <- as_nat f;
      do rs <- map_opt (fun e => match e with
                                 | Li [b; fin] => do b <- as_bool b; do fin <- tfin_of_sx fin; Some (b, fin)
                                 | _ => None end) rounds;
      Some (mkTShape f (fun r => fst (nth r rs (false, TFErr))) (fun r => snd (nth r rs (false, TFErr))))
  | _ => None end.

Definition terr_tag (e : terr) : Z :=
  match e with TEAbortNotice => 1 | TEVerify => 2 | TEFinalize => 4 | TEUser => 5 | TEProtoAbort => 6 | TEPanic => 7 end%Z.

(* observation: (cur result_class () errkind (new out msgs) closes rt 0 |stored| (stored rounds) extra) *)
Definition tp_observe (before : nat) (s : tstate) (extra : Z) : sx :=
  Li [ sx_nat (rnum (t_round s)); sx_nat (tp_result_class s);
       Li [];
       At (match t_err s with Some e => terr_tag e | None => 0%Z end);
       Li (map sx_out (skipn before (t_out s)));
       sx_nat (t_closes s); At (rt_tag (t_rt s));
       sx_nat 0; sx_nat (length (t_msgs s));
       Li (map (fun e => sx_nat (fst e)) (t_msgs s)); At extra ].

Section Run.
  Variable fixed_stop : bool.
  (* auto_drain: the user empties Listen() after the constructor and after every call (what the pump does) *)
  Variable auto_drain : bool.

  Definition tp_settle (s : tstate) : tstate := if auto_drain then tp_drain (t_pending s) s else s.

  Definition tp_apply_event (s : tstate) (e : event) : tstate * Z :=
    match e with
    | EvAccept m => (tp_accept s m, 0%Z)
    | EvStop => (tp_stop fixed_stop s, 0%Z)
    | EvDrain k => (tp_drain k s, 0%Z)
    | EvCanAccept m => (s, if tp_can_accept s m then 1%Z else 0%Z)
    end.

  Fixpoint tp_run_events (s : tstate) (es : list event) : list sx :=
    match es with
    | [] => []
    | e :: es' => let '(s', x) := tp_apply_event s e in
                  tp_observe (length (t_out s)) s' x :: tp_run_events (tp_settle s') es'
    end.
End Run.

(* "tph.run": (self n ssid proto shape leader fixed_stop auto_drain (events...)) -> (obs_after_init obs_1 ... obs_k) *)
Definition op_tph_run (arg : sx) : option sx :=
  match arg with
  | Li [self; n; ssid; proto; shp; leader; fx; ad; Li evs] =>
      do self <- as_nat self; do n <- as_nat n; do ssid <- as_N ssid; do proto <- as_N proto;
      do shp <- tshape_of_sx shp;
      do leader <- as_bool leader; do fx <- as_bool fx; do ad <- as_bool ad;
      do evs <- map_opt event_of_sx evs;
      let s0 := tp_new leader self n ssid proto shp in
      Some (Li (tp_observe 0 s0 0%Z :: tp_run_events fx ad (tp_settle ad s0) evs))
  | _ => None end.

Definition twoparty_ops : list (bytes * (sx -> option sx)) := [ (str "tph.run"%string, op_tph_run) ].
