(* DispatchPool.v -- ops for the pool model (C18).  Table [pool_ops].

   Encodings.  variant: 0 = V0 (pool.go as is), 1 = V1 (repaired).  kind: 0 = Parallelize, 1 = Search.
   gid: 0 = caller, k+1 = worker k.  Schedule entries that are not enabled are skipped.
   Task functions used by the ops: Parallelize of call e (e = 1, 2, ...): f(i) = 1000*e + i;
   Search of call e: the n-th invocation of f (n = 0, 1, ...; counted in the order of the WSRun steps)
   answers [nth n tape] where tape entries are () = nil or (x) = value x, and 1000*e + n beyond the tape.

   printed state:
     (callerTag ctr (results) (workers) (blocked) cmdI done epoch ncalls (workerEpochs))
     callerTag: 0 CSelect, 1 CWait, 2 CRecv, 3 CReturn;  results: () = nil | (x)
     worker: (0) WIdle, (1 i) WPar, (2) WParDec, (3) WSLoad, (4) WSRun, (5 x) WSDec, (6 i x) WSWrite,
             (7 kind) WNotify, (8) WExit;   blocked: 1 = at WNotify on a channel nobody will receive from again

   "pool.run"       (variant kind w c (sched) [(tape)])                  -> state after the schedule (one call on a fresh pool)
   "pool.trace"     same                                                  -> ((enabled state) ...) after every schedule entry
   "pool.run_calls" (variant w ((kind c (sched) (tape)) ...))             -> (state ...) at the end of every call's schedule;
                                                                            a call whose predecessor has not returned is not started
   "pool.explore"   (variant kind w c [ncalls [nnils [fuel]]])            -> (complete states terminal deadlocked leaked bad)
       exhaustive exploration of ncalls (default 1) consecutive identical calls, the first nnils (default 0) answers of
       every Search being nil; complete = 0 if fuel (default 200000 expansions) ran out.
       deadlocked = no step enabled and the caller has not returned; leaked = no step enabled, caller returned, some worker not idle;
       bad = caller returned with a result other than [f(0)..f(c-1)] (Parallelize) / with a nil slot (Search).
   Exploration is a cross-check only; the theorems are in Proofs/PoolProofs.v. *)
From Coq Require Import String.
From Coq Require Import List NArith ZArith Bool Arith.
From MPS Require Import Model.Bytes Model.Sx Model.Framing Model.Pool.
Import ListNotations.
Open Scope Z_scope.

Definition fp_d (e i : nat) : Z := 1000 * Z.of_nat e + Z.of_nat i.
Definition fs_d (tapes : list (list (option Z))) (e n : nat) : option Z :=
  nth n (nth (e - 1) tapes []) (Some (1000 * Z.of_nat e + Z.of_nat n)).

Definition as_variant (s : sx) : option variant :=
  match s with At 0 => Some V0 | At 1 => Some V1 | _ => None end.
Definition as_kind (s : sx) : option kind :=
  match s with At 0 => Some Par | At 1 => Some Srch | _ => None end.
Definition as_tape : sx -> option (list (option Z)) := as_list_of (as_opt as_Z).

Definition ctag (c : cpc) : Z := match c with CSelect => 0 | CWait => 1 | CRecv => 2 | CReturn => 3 end.
Definition ktag (k : kind) : Z := match k with Par => 0 | Srch => 1 end.
Definition wpc_code (pc : wpc) : list Z :=
  match pc with
  | WIdle => [0] | WPar i => [1; Z.of_nat i] | WParDec => [2] | WSLoad => [3] | WSRun => [4]
  | WSDec x => [5; x] | WSWrite i x => [6; i; x] | WNotify kd => [7; ktag kd] | WExit => [8]
  end.

Definition print_state (s : pstate) : sx :=
  Li [At (ctag (caller s)); At (ctr (cur s)); sx_list (sx_opt At) (results (cur s));
      sx_list (fun wk : worker => sx_list At (wpc_code (snd wk))) (workers s);
      sx_list (fun wk => sx_bool (blocked_forever s wk)) (workers s);
      sx_nat (cmdI s); sx_nat (done s); sx_nat (epoch s); sx_nat (ncalls (cur s));
      sx_list (fun wk : worker => sx_nat (fst wk)) (workers s)].

Definition decode_run (arg : sx) : option (variant * kind * nat * nat * list nat * list (option Z)) :=
  match arg with
  | Li [v; kd; w; c; sched] =>
      do v <- as_variant v; do kd <- as_kind kd; do w <- as_nat w; do c <- as_nat c;
      do sched <- as_list_of as_nat sched; Some (v, kd, w, c, sched, [])
  | Li [v; kd; w; c; sched; tape] =>
      do v <- as_variant v; do kd <- as_kind kd; do w <- as_nat w; do c <- as_nat c;
      do sched <- as_list_of as_nat sched; do tape <- as_tape tape; Some (v, kd, w, c, sched, tape)
  | _ => None
  end.

Definition op_pool_run (arg : sx) : option sx :=
  do (v, kd, w, c, sched, tape) <- decode_run arg;
  Some (print_state (run v fp_d (fs_d [tape]) (start_call (pool_init w) kd c) sched)).

Fixpoint trace v fs (s : pstate) (sched : list nat) : list sx :=
  match sched with
  | [] => []
  | g :: r => let s' := step v fp_d fs s g in
              Li [sx_bool (enabled v fp_d fs s g); print_state s'] :: trace v fs s' r
  end.
Definition op_pool_trace (arg : sx) : option sx :=
  do (v, kd, w, c, sched, tape) <- decode_run arg;
  Some (Li (trace v (fs_d [tape]) (start_call (pool_init w) kd c) sched)).

Definition as_call (s : sx) : option (callspec * list (option Z)) :=
  match s with
  | Li [kd; c; sched; tape] =>
      do kd <- as_kind kd; do c <- as_nat c; do sched <- as_list_of as_nat sched; do tape <- as_tape tape;
      Some ((kd, c, sched), tape)
  | _ => None end.
Fixpoint run_calls_states v fs (s : pstate) (calls : list callspec) : list sx :=
  match calls with
  | [] => []
  | (kd, c, sched) :: r => let s' := run v fp_d fs (next_call s kd c) sched in
                           print_state s' :: run_calls_states v fs s' r
  end.
Definition op_pool_run_calls (arg : sx) : option sx :=
  match arg with
  | Li [v; w; calls] =>
      do v <- as_variant v; do w <- as_nat w; do calls <- as_list_of as_call calls;
      Some (Li (run_calls_states v (fs_d (map snd calls)) (pool_init w) (map fst calls)))
  | _ => None end.

(* ---- exhaustive exploration (cross-check) ---- *)
Definition code_list (l : list Z) : list Z := Z.of_nat (length l) :: l.
Definition code_cell (c : cell) : list Z :=
  ctr c :: Z.of_nat (ncalls c)
  :: code_list (flat_map (fun r => match r with None => [0] | Some x => [1; x] end) (results c)).
Definition key (s : pstate) : list Z :=
  [ctag (caller s); Z.of_nat (cmdI s); Z.of_nat (done s); Z.of_nat (epoch s)]
  ++ code_cell (cur s) ++ code_list (flat_map code_cell (archive s))
  ++ flat_map (fun wk : worker => Z.of_nat (fst wk) :: code_list (wpc_code (snd wk))) (workers s).
Fixpoint zlist_eqb (a b : list Z) : bool :=
  match a, b with
  | [], [] => true
  | x :: a', y :: b' => (x =? y) && zlist_eqb a' b'
  | _, _ => false end.

Fixpoint zlist_cmp (a b : list Z) : comparison :=
  match a, b with
  | [], [] => Eq | [], _ => Lt | _, [] => Gt
  | x :: a', y :: b' => match x ?= y with Eq => zlist_cmp a' b' | o => o end
  end.
(* visited set: unbalanced search tree over hash-prefixed keys (the hash randomises the insertion order) *)
Definition hkey (s : pstate) : list Z :=
  let k := key s in fold_left (fun h x => Z.land (h * 8191 + x) 1099511627775) k 7 :: k.
Inductive kset := KLeaf | KNode (l : kset) (k : list Z) (r : kset).
Fixpoint kmem (k : list Z) (t : kset) : bool :=
  match t with
  | KLeaf => false
  | KNode l k' r => match zlist_cmp k k' with Eq => true | Lt => kmem k l | Gt => kmem k r end
  end.
Fixpoint kadd (k : list Z) (t : kset) : kset :=
  match t with
  | KLeaf => KNode KLeaf k KLeaf
  | KNode l k' r => match zlist_cmp k k' with Eq => t | Lt => KNode (kadd k l) k' r | Gt => KNode l k' (kadd k r) end
  end.

Section Explore.
Variables (v : variant) (fs : nat -> nat -> option Z) (kd : kind) (c ncallsmax : nat).

Definition steps_of (s : pstate) : list pstate :=
  flat_map (fun g => match step_opt v fp_d fs s g with Some s' => [s'] | None => [] end)
           (seq 0 (S (length (workers s)))).
Definition returned (s : pstate) : bool := match caller s with CReturn => true | _ => false end.
Definition result_ok (s : pstate) : bool :=
  match kd with
  | Par => zlist_eqb (code_cell (mkCell 0 (results (cur s)) 0))
                     (code_cell (mkCell 0 (parallelize_alone (fp_d (epoch s)) c) 0))
  | Srch => (length (results (cur s)) =? c)%nat
            && forallb (fun r => match r with Some _ => true | None => false end) (results (cur s))
  end.

Record counts := mkC { n_states : nat; n_term : nat; n_dead : nat; n_leak : nat; n_bad : nat }.
Definition b2n (b : bool) : nat := if b then 1%nat else 0%nat.

Fixpoint explore (fuel : nat) (todo : list pstate) (seen : kset) (a : counts) : counts * bool :=
  match fuel with
  | O => (a, match todo with [] => true | _ => false end)
  | S fuel' =>
    match todo with
    | [] => (a, true)
    | s :: rest =>
      let k := hkey s in
      if kmem k seen then explore fuel' rest seen a
      else
        let st := steps_of s in
        let quiet := match st with [] => true | _ => false end in
        let more := returned s && (epoch s <? ncallsmax)%nat in
        let nx := if more then start_call s kd c :: st else st in
        let a' := mkC (S (n_states a))
                      (n_term a + b2n (quiet && negb more))
                      (n_dead a + b2n (quiet && negb (returned s)))
                      (n_leak a + b2n (quiet && returned s && negb (all_idle s)))
                      (n_bad a + b2n (returned s && negb (result_ok s))) in
        explore fuel' (nx ++ rest) (kadd k seen) a'
    end
  end.
End Explore.

Definition explore_pool v kd w c ncallsmax nnils fuel : counts * bool :=
  explore v (fs_d (repeat (repeat None nnils) ncallsmax)) kd c ncallsmax fuel
          [start_call (pool_init w) kd c] KLeaf (mkC 0 0 0 0 0).

Definition op_pool_explore (arg : sx) : option sx :=
  do l <- as_list arg;
  match l with
  | v :: kd :: w :: c :: opt =>
      do v <- as_variant v; do kd <- as_kind kd; do w <- as_nat w; do c <- as_nat c;
      do opt <- map_opt as_nat opt;
      let '(a, complete) := explore_pool v kd w c (nth 0 opt 1%nat) (nth 1 opt 0%nat) (nth 2 opt (400 * 500)%nat) in
      Some (Li [sx_bool complete; sx_nat (n_states a); sx_nat (n_term a); sx_nat (n_dead a);
                sx_nat (n_leak a); sx_nat (n_bad a)])
  | _ => None
  end.

Definition pool_ops : list (bytes * (sx -> option sx)) :=
  [ (str "pool.run"%string, op_pool_run); (str "pool.trace"%string, op_pool_trace);
    (str "pool.run_calls"%string, op_pool_run_calls); (str "pool.explore"%string, op_pool_explore) ].
