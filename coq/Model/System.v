(* System.v -- n MultiHandler instances (Model/Handler.v) connected by a network.
   Executable definitions only; proofs are in Proofs/SystemProofs.v.

   * every handler has the same n / ssid / proto / shape, handler i has h_self = i;
   * the network is a list of in-flight copies (addressee, message); a message addressed to
     everyone ("" in Go) is expanded into one copy per other party when it is emitted;
   * a log of all copies ever sent is kept, so that a copy can be re-delivered at any later time;
   * schedules are lists of events
        Deliver to k   -- deliver (and remove) the k-th in-flight copy addressed to [to]
        Dup     to k   -- deliver once more the k-th copy ever sent to [to] (nothing is removed)
        Inject  to m   -- hand an arbitrary message m to handler [to]
     The step function puts no restriction on Inject; theorems restrict schedules by predicates:
        authentic E sched  -- injected messages carry m_from = E (authenticated channels, corrupted E)
        junk_only ...      -- injected messages are rejected by CanAccept of the addressee (all-honest runs)
   * an emitted outmsg becomes a msg with from = emitter, data present, m_valid = true and the
     fingerprint given by the assignment [fp from bcast to round];
   * validity of an arriving message is decided AT THE RECIPIENT by the oracle [validity]:
     the handler sees [m] with [m_valid := validity (recipient state) m].  The default oracle
     [keep_valid] leaves m_valid as it is (honest emitters: true; injected: adversary's choice).
     The oracle is consulted on arrival, with the recipient's state at that moment (a message that is
     queued for a later round keeps the flag it got on arrival);
   * after every Accept the Listen() channel is drained completely (h_pending := 0). *)
From Coq Require Import List NArith ZArith Bool Arith.
From MPS Require Import Model.Handler.
Import ListNotations.

(* ---- shapes ---- *)
Definition p2p_some (k : p2p_kind) : bool := match k with NoP2P => false | _ => true end.

(* every round 2..final expects a broadcast and/or a p2p message from every other party *)
Definition wf_shapeb (sh : shape) : bool :=
  forallb (fun r => sh_bcast sh r || p2p_some (sh_p2p sh r)) (seq 2 (sh_final sh - 1)).

(* example/xor: one message round (2), broadcast only *)
Definition shape_xor : shape := mkShape 2 (fun r => r =? 2) (fun _ => NoP2P).
(* three rounds; round 2 = broadcast + one p2p per peer, round 3 = broadcast only (CMP/FROST-sign like) *)
Definition shape_bp3 : shape :=
  mkShape 3 (fun r => (r =? 2) || (r =? 3)) (fun r => if r =? 2 then P2PEach else NoP2P).
(* four rounds: 2 broadcast, 3 p2p to all, 4 broadcast + p2p each *)
Definition shape_mix4 : shape :=
  mkShape 4 (fun r => (r =? 2) || (r =? 4))
            (fun r => if r =? 3 then P2PAll else if r =? 4 then P2PEach else NoP2P).

(* ---- concrete oracles for examples ---- *)
(* Cantor pairing: an injective fingerprint assignment on (from, round); kind/addressee are folded in *)
Definition cantor (a b : N) : N := ((a + b) * (a + b + 1) / 2 + a)%N.
Definition fp_cantor (from : party) (bc : bool) (to : option party) (r : nat) : N :=
  cantor (cantor (N.of_nat from) (N.of_nat r))
         (cantor (if bc then 1 else 0) (match to with None => 0 | Some j => N.of_nat (S j) end))%N.
(* positional view digest (collision-free on small inputs); only used in examples *)
Definition vh_pos (r : nat) (l : list N) : N :=
  fold_left (fun acc x => acc * 1048576 + x + 1)%N l (N.of_nat r + 1)%N.

Definition set_valid (m : msg) (b : bool) : msg :=
  mkMsg (m_ssid m) (m_proto m) (m_from m) (m_to m) (m_round m) (m_data m) (m_bcast m) (m_bv m) (m_fp m) b
        (m_panic m).

Definition keep_valid (_ : hstate) (m : msg) : bool := m_valid m.

(* validity of a round-(k+1) message depends on the recipient's view of round k: it is valid iff the
   view digest it carries equals the recipient's digest of round k (if the recipient has one) *)
Definition view_dependent_valid (s : hstate) (m : msg) : bool :=
  m_valid m && match hget (h_hashes s) (m_round m - 1) with
               | Some d => (m_bv m =? d)%N
               | None => true
               end.

Inductive sched_ev :=
| Deliver (to : party) (k : nat)
| Dup (to : party) (k : nat)
| Inject (to : party) (m : msg).

Record sys := mkSys {
  s_h : party -> hstate;              (* only indices < n are meaningful *)
  s_net : list (party * msg);         (* in flight: (addressee, message) *)
  s_sent : list (party * msg)         (* every copy ever sent *)
}.

(* k-th entry addressed to [to], and the list without it *)
Fixpoint pick (to : party) (k : nat) (l : list (party * msg)) : option (msg * list (party * msg)) :=
  match l with
  | [] => None
  | (d, m) :: l' =>
      if d =? to then
        match k with
        | O => Some (m, l')
        | S k' => match pick to k' l' with Some (x, r) => Some (x, (d, m) :: r) | None => None end
        end
      else match pick to k l' with Some (x, r) => Some (x, (d, m) :: r) | None => None end
  end.

Section Sys.
  Variable view_hash : nat -> list N -> N.
  Variable fp : party -> bool -> option party -> nat -> N.   (* from, bcast, to, round *)
  Variable validity : hstate -> msg -> bool.
  Variables (n : nat) (ssid proto : N) (sh : shape).

  Definition own_fp_of (i : party) (r : nat) : N := fp i true None r.

  Definition msg_of_out (s : hstate) (o : outmsg) : msg :=
    mkMsg (h_ssid s) (h_proto s) (h_self s) (o_to o) (o_round o) true (o_bcast o) (o_bv o)
          (fp (h_self s) (o_bcast o) (o_to o) (o_round o)) true NoPanic.

  Definition addressees (s : hstate) (o : outmsg) : list party :=
    match o_to o with Some j => [j] | None => others s end.

  Definition expand (s : hstate) (o : outmsg) : list (party * msg) :=
    map (fun d => (d, msg_of_out s o)) (addressees s o).

  Definition posted (s : hstate) (l : list outmsg) : list (party * msg) := flat_map (expand s) l.

  Definition start_handler (i : party) : hstate :=
    let s := new_handler view_hash (own_fp_of i) i n ssid proto sh in drain (h_pending s) s.

  Definition init_sys : sys :=
    let net := flat_map (fun i => posted (start_handler i) (h_out (start_handler i))) (seq 0 n) in
    mkSys start_handler net net.

  (* handler [to] accepts m (validity decided at the recipient), its new output is posted, channel drained *)
  Definition deliver_to (st : sys) (net' : list (party * msg)) (to : party) (m : msg) : sys :=
    if to <? n then
      let s := s_h st to in
      let s1 := accept view_hash (own_fp_of to) s (set_valid m (validity s m)) in
      let new := posted s1 (skipn (length (h_out s)) (h_out s1)) in
      mkSys (fun j => if j =? to then drain (h_pending s1) s1 else s_h st j) (net' ++ new) (s_sent st ++ new)
    else st.

  Definition step (st : sys) (ev : sched_ev) : sys :=
    match ev with
    | Deliver to k => match pick to k (s_net st) with
                      | Some (m, rest) => deliver_to st rest to m
                      | None => st
                      end
    | Dup to k => match pick to k (s_sent st) with
                  | Some (m, _) => deliver_to st (s_net st) to m
                  | None => st
                  end
    | Inject to m => deliver_to st (s_net st) to m
    end.

  Definition run (st : sys) (sched : list sched_ev) : sys := fold_left step sched st.

  (* a schedule is complete when nothing is left in flight: every copy sent was delivered at least once *)
  Definition complete (st : sys) : bool := match s_net st with [] => true | _ => false end.

  (* corrupted E: authenticated channels, E can only inject messages that name E as sender *)
  Definition authenticb (E : party) (sched : list sched_ev) : bool :=
    forallb (fun ev => match ev with Inject _ m => m_from m =? E | _ => true end) sched.

  (* all-honest runs: every injected message is one that CanAccept of the addressee refuses at that moment
     (stale round, foreign session / protocol, wrong recipient, unknown sender, own message, no data, round > final) *)
  Fixpoint junk_onlyb (st : sys) (sched : list sched_ev) : bool :=
    match sched with
    | [] => true
    | ev :: rest =>
        (match ev with
         | Inject to m => negb (to <? n) || negb (can_accept (s_h st to) (set_valid m (validity (s_h st to) m)))
         | _ => true
         end) && junk_onlyb (step st ev) rest
    end.

  (* lockstep = FIFO delivery: all round-r copies are delivered before any round-(r+1) copy *)
  Fixpoint lockstep_sched (fuel : nat) (st : sys) : list sched_ev :=
    match fuel with
    | O => []
    | S f => match s_net st with
             | [] => []
             | (to, _) :: _ => Deliver to 0 :: lockstep_sched f (step st (Deliver to 0))
             end
    end.

  (* ---- the ideal (lockstep) semantics in closed form ---- *)
  Definition ideal_view (r : nat) : list N := map (fun j => fp j true None r) (seq 0 n).
  Definition ideal_bv (r : nat) : N :=
    if sh_bcast sh r && (2 <=? r) && (r <=? sh_final sh) then view_hash r (ideal_view r) else 0%N.
  (* what party i emits when it finalizes round r *)
  Definition ideal_outs (i : party) (r : nat) : list outmsg :=
    round_outputs (init_state i n ssid proto sh) r (ideal_bv r).
  (* everything party i has emitted when it reaches round c *)
  Definition ideal_out_upto (i : party) (c : nat) : list outmsg :=
    flat_map (ideal_outs i) (seq 1 (c - 1)).
  Definition ideal_out (i : party) : list outmsg := ideal_out_upto i (S (sh_final sh)).

  (* observables *)
  Definition all_done (st : sys) : bool :=
    forallb (fun i => h_res (s_h st i) && match h_err (s_h st i) with None => true | Some _ => false end) (seq 0 n).
  Definition stored_fp (s : hstate) (k : nat) (j : party) : option N :=
    match qget (h_qb s) k j with Some m => Some (m_fp m) | None => None end.
End Sys.
