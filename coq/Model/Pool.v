(* Pool.v (M4) -- small-step interleaving model of /repo/pkg/pool/pool.go (C18).

   Goroutines: gid 0 = the caller of Parallelize/Search, gid k+1 = worker k (w workers, persistent
   across calls).  Program counters sit exactly at the synchronisation points of pool.go:
   send/receive on the unbuffered channels [commands] and [ctrChanged], atomic.AddInt64 /
   atomic.LoadInt64 on [ctr], the write of a result slot, and (Search only) the call of the
   shared-state task function.  An unbuffered channel operation is a rendezvous: ONE joint step of
   sender and receiver.  Both rendezvous are attributed to the worker's gid: scheduling worker k
   while it is at [WIdle] and the caller is in its [select] means "the caller's command send is
   received by worker k"; scheduling worker k at [WNotify] while the caller is ready to receive
   means "worker k's notification is received".  The caller's own gid therefore only performs the
   wait-loop test ([CWait]).

   variant V0 = pool.go as it is.        variant V1 = repaired handshake:
     worker : one notification per COMMAND, sent after the command is completely executed
              (Parallelize: unchanged; Search: no per-result notification, one after the loop);
     caller : counts received notifications ([done]) and returns when done = number of commands
              sent, instead of polling ctr.

   Consecutive calls: [start_call] begins the next call on the same worker list.  Every call has
   its own ctr / results / ctrChanged (as in Go, where they are fresh locals); a worker carries the
   number ("epoch") of the call whose command it is executing, so a worker left over from an
   earlier call (possible in V0) keeps operating on that call's cell and can never be received
   from again.  Task functions are indexed by epoch: [fp e i] = f(i) of call e (Parallelize),
   [fs e n] = answer of the n-th invocation of f during call e (Search; None = nil). *)
From Coq Require Import List NArith ZArith Bool Arith.
Import ListNotations.
Open Scope Z_scope.

Inductive variant := V0 | V1.
Inductive kind := Par | Srch.

(* caller: CSelect = in the `for cmdI < n { select {...} }` loop (cmdI < n);
   CWait = at the test of the wait loop (V0: atomic.LoadInt64(&ctr) > 0; V1: done < n);
   CRecv = blocked in `<-ctrChanged`; CReturn = returned (not inside a call). *)
Inductive cpc := CSelect | CWait | CRecv | CReturn.

Inductive wpc :=
| WIdle                      (* at `for c := range commands` *)
| WPar (i : nat)             (* next: c.results[c.i] = c.f(c.i) *)
| WParDec                    (* next: atomic.AddInt64(c.ctr, -1) *)
| WSLoad                     (* next: atomic.LoadInt64(ctr) > 0 ? *)
| WSRun                      (* next: res := f(0) *)
| WSDec (x : Z)              (* res != nil; next: i := atomic.AddInt64(ctr, -1) *)
| WSWrite (i : Z) (x : Z)    (* next: if i >= 0 { results[i] = res } *)
| WNotify (kd : kind)        (* next: ctrChanged <- struct{}{} *)
| WExit.                     (* left the range loop after close(commands) *)

Record cell := mkCell { ctr : Z; results : list (option Z); ncalls : nat }.
Notation worker := (nat * wpc)%type (only parsing).       (* (epoch of the command being executed, pc); idle: (0, WIdle) *)

Record pstate := mkP {
  kind_of : kind; count : nat;               (* current call: Parallelize/Search, requested count *)
  total : nat;                               (* commands to send: count (Par) / workerCount (Search) *)
  epoch : nat;                               (* number of the current call; 0 = none yet *)
  caller : cpc; cmdI : nat;
  done : nat;                                (* notifications received in this call (ghost in V0) *)
  cur : cell;                                (* ctr, results, #f-invocations of the current call *)
  archive : list cell;                       (* cells of earlier calls, newest first *)
  workers : list worker }.

Fixpoint upd {A} (k : nat) (x : A) (l : list A) : list A :=
  match l, k with
  | [], _ => []
  | _ :: t, O => x :: t
  | a :: t, S k' => a :: upd k' x t
  end.

Definition set_caller s c := mkP (kind_of s) (count s) (total s) (epoch s) c (cmdI s) (done s) (cur s) (archive s) (workers s).
Definition set_cur s c := mkP (kind_of s) (count s) (total s) (epoch s) (caller s) (cmdI s) (done s) c (archive s) (workers s).
Definition set_archive s a := mkP (kind_of s) (count s) (total s) (epoch s) (caller s) (cmdI s) (done s) (cur s) a (workers s).
Definition set_workers s ws := mkP (kind_of s) (count s) (total s) (epoch s) (caller s) (cmdI s) (done s) (cur s) (archive s) ws.

Definition dummy_cell := mkCell 0 [] 0.
Definition get_cell (s : pstate) (e : nat) : cell :=
  if (e =? epoch s)%nat then cur s else nth (epoch s - 1 - e) (archive s) dummy_cell.
Definition set_cell (s : pstate) (e : nat) (c : cell) : pstate :=
  if (e =? epoch s)%nat then set_cur s c else set_archive s (upd (epoch s - 1 - e) c (archive s)).

Definition retag (e : nat) (pc : wpc) : worker := (match pc with WIdle => O | _ => e end, pc).
Definition is_idle (wk : worker) : bool := match snd wk with WIdle => true | _ => false end.
Definition all_idle (s : pstate) : bool := forallb is_idle (workers s).

Section Semantics.
Variable v : variant.
Variable fp : nat -> nat -> Z.
Variable fs : nat -> nat -> option Z.

(* steps of a worker that involve only its own pc and the cell of its call *)
Definition wlocal (e : nat) (c : cell) (pc : wpc) : option (wpc * cell) :=
  match pc with
  | WPar i => Some (WParDec, mkCell (ctr c) (upd i (Some (fp e i)) (results c)) (ncalls c))
  | WParDec => Some (WNotify Par, mkCell (ctr c - 1) (results c) (ncalls c))
  | WSLoad => Some (if 0 <? ctr c then WSRun else match v with V0 => WIdle | V1 => WNotify Srch end, c)
  | WSRun => Some (match fs e (ncalls c) with None => WSLoad | Some x => WSDec x end,
                   mkCell (ctr c) (results c) (S (ncalls c)))
  | WSDec x => Some (WSWrite (ctr c - 1) x, mkCell (ctr c - 1) (results c) (ncalls c))
  | WSWrite i x => Some (match v with V0 => WNotify Srch | V1 => WSLoad end,
                         if 0 <=? i then mkCell (ctr c) (upd (Z.to_nat i) (Some x) (results c)) (ncalls c) else c)
  | _ => None
  end.

Definition after_notify (kd : kind) : wpc :=
  match kd, v with Srch, V0 => WSLoad | _, _ => WIdle end.

Definition wstep (s : pstate) (k : nat) : option pstate :=
  match nth_error (workers s) k with
  | None => None
  | Some (e, pc) =>
    match pc with
    | WIdle =>                                   (* rendezvous on [commands] *)
        match caller s with
        | CSelect =>
            Some (mkP (kind_of s) (count s) (total s) (epoch s)
                      (if (S (cmdI s) <? total s)%nat then CSelect else CWait) (S (cmdI s)) (done s)
                      (cur s) (archive s)
                      (upd k (epoch s, match kind_of s with Par => WPar (cmdI s) | Srch => WSLoad end) (workers s)))
        | _ => None
        end
    | WNotify kd =>                              (* rendezvous on this call's [ctrChanged] *)
        if (e =? epoch s)%nat then
          match caller s with
          | CSelect | CRecv =>
              Some (mkP (kind_of s) (count s) (total s) (epoch s)
                        (match caller s with CRecv => CWait | c => c end) (cmdI s) (S (done s))
                        (cur s) (archive s) (upd k (retag e (after_notify kd)) (workers s)))
          | _ => None
          end
        else None
    | WExit => None
    | _ => match wlocal e (get_cell s e) pc with
           | Some (pc', c') => Some (set_workers (set_cell s e c') (upd k (retag e pc') (workers s)))
           | None => None
           end
    end
  end.

Definition cstep (s : pstate) : option pstate :=
  match caller s with
  | CWait =>
      let more := match v with V0 => 0 <? ctr (cur s) | V1 => (done s <? total s)%nat end in
      Some (set_caller s (if more then CRecv else CReturn))
  | _ => None
  end.

Definition step_opt (s : pstate) (g : nat) : option pstate :=
  match g with O => cstep s | S k => wstep s k end.
Definition enabled (s : pstate) (g : nat) : bool :=
  match step_opt s g with Some _ => true | None => false end.
Definition step (s : pstate) (g : nat) : pstate :=
  match step_opt s g with Some s' => s' | None => s end.

(* a schedule is any list of gids; a choice that is not enabled is skipped *)
Definition run (s : pstate) (sched : list nat) : pstate := fold_left step sched s.

End Semantics.

Definition pool_init (w : nat) : pstate :=
  mkP Par 0 0 0 CReturn 0 0 dummy_cell [] (repeat (O, WIdle) w).

(* entry of Parallelize / Search on a non-nil pool *)
Definition start_call (s : pstate) (kd : kind) (c : nat) : pstate :=
  let n := match kd with Par => c | Srch => length (workers s) end in
  mkP kd c n (S (epoch s)) (if (0 <? n)%nat then CSelect else CWait) 0 0
      (mkCell (Z.of_nat c) (repeat None c) 0) (cur s :: archive s) (workers s).
Definition next_call (s : pstate) (kd : kind) (c : nat) : pstate :=
  match caller s with CReturn => start_call s kd c | _ => s end.

Definition callspec := (kind * nat * list nat)%type.
Definition run_calls v fp fs (s : pstate) (calls : list callspec) : pstate :=
  fold_left (fun s '(kd, c, sched) => run v fp fs (next_call s kd c) sched) calls s.

(* a worker that will never be received from: its notification channel belongs to a call that is over *)
Definition blocked_forever (s : pstate) (wk : worker) : bool :=
  match snd wk with
  | WNotify _ => negb (fst wk =? epoch s)%nat || match caller s with CReturn => true | _ => false end
  | _ => false
  end.

(* TearDown = close(commands): exactly the workers at the range receive leave *)
Definition teardown (s : pstate) : pstate :=
  set_workers s (map (fun wk => if is_idle wk then (O, WExit) else wk) (workers s)).

(* nil pool *)
Definition parallelize_alone (f : nat -> Z) (c : nat) : list (option Z) :=
  map (fun i => Some (f i)) (seq 0 c).
Fixpoint search_alone (fuel : nat) (f : nat -> option Z) (n : nat) (c : nat) : option (list (option Z)) :=
  match c with
  | O => Some []
  | S c' =>
    match fuel with
    | O => None
    | S fuel' =>
      match f n with
      | Some x => option_map (cons (Some x)) (search_alone fuel' f (S n) c')
      | None => search_alone fuel' f (S n) c
      end
    end
  end.
