(* Framing.v -- model of pkg/hash: WriteAny framing, typed-value encoders, Commit/Decommit.
   Executable definitions only (proofs are in Proofs/FramingProofs.v). *)
From Coq Require Import String Ascii.
From Coq Require Import List NArith ZArith Bool.
From MPS Require Import Model.Bytes.
Import ListNotations.
Open Scope N_scope.

Definition str (s : String.string) : bytes := map Ascii.N_of_ascii (String.list_ascii_of_string s).

(* One domain-separated item as WriteAny sees it after the type switch. *)
Record item := mkItem { dom : bytes; dat : bytes }.

(* hash.WriteAny:  "(" <be64 |dom|> dom <be64 |dat|> dat ")"  *)
Definition frame (i : item) : bytes :=
  [40] ++ be64 (len (dom i)) ++ dom i ++ be64 (len (dat i)) ++ dat i ++ [41].

Definition frames (l : list item) : bytes := flat_map frame l.

(* the byte stream absorbed by the hash after writing items l on top of state st *)
Definition stream (st : bytes) (l : list item) : bytes := st ++ frames l.

(* hash.New(): "CMP-BLAKE" *)
Definition init_state : bytes := str "CMP-BLAKE"%string.

Definition wf_item (i : item) : bool :=
  wf_bytes (dom i) && wf_bytes (dat i) && (len (dom i) <? 2^64) && (len (dat i) <? 2^64).

(* ------------------------------------------------------------------ *)
(* Typed values accepted by WriteAny and how each is turned into an item.
   [None] = WriteAny returns an error (nil slice, empty ID, ...).        *)

Inductive hval :=
| HBytes (b : option bytes)            (* []byte (None = nil)                         *)
| HBigInt (z : Z)                      (* *big.Int, GobEncode                          *)
| HNat (blen : nat) (n : N)            (* *saferith.Nat with announced byte length     *)
| HInt (blen : nat) (z : Z)            (* *saferith.Int                                *)
| HModulus (n : N)                     (* *saferith.Modulus                            *)
| HScalar (s : N)                      (* curve.Scalar (secp256k1), 32 bytes           *)
| HPoint (x : N) (odd : bool)          (* curve.Point (secp256k1) compressed, 33 bytes *)
| HID (b : bytes)                      (* party.ID                                     *)
| HIDSlice (l : option (list bytes))   (* party.IDSlice (None = nil)                   *)
| HRID (b : option bytes)
| HCommitment (b : option bytes)
| HDecommitment (b : option bytes)
| HThreshold (t : N)                   (* types.ThresholdWrapper: uint32               *)
| HRound (r : N)                       (* round.Number: written as uint64              *)
| HSigMsg (b : option bytes)           (* types.SigningMessage: domain depends on nil  *)
| HWithDomain (d : bytes) (b : option bytes)  (* hash.BytesWithDomain                 *)
| HCiphertext (c : N)                  (* *paillier.Ciphertext: 512 bytes              *)
| HPaillierPK (n : N)                  (* *paillier.PublicKey: minimal bytes of N      *)
| HPedersen (n s t : N).               (* *pedersen.Parameters: 3 x 256 bytes          *)

Definition opt_item (d : bytes) (o : option bytes) : option item :=
  match o with Some b => Some (mkItem d b) | None => None end.

(* math/big GobEncode: version byte (1<<1 | sign) followed by the magnitude, minimal big endian *)
Definition gob_bigint (z : Z) : bytes :=
  (if (z <? 0)%Z then 3 else 2) :: be_min (Z.abs_N z).

(* D1 repaired: every identifier is length-prefixed. *)
Definition idslice_data (l : list bytes) : bytes :=
  be64 (N.of_nat (length l)) ++ flat_map (fun id => be64 (len id) ++ id) l.
(* the pre-fix encoder: count, then raw concatenation (kept for the regression witness) *)
Definition idslice_data_v0 (l : list bytes) : bytes :=
  be64 (N.of_nat (length l)) ++ concat l.

Definition enc_hval (v : hval) : option item :=
  match v with
  | HBytes o => opt_item (str "[]byte"%string) o
  | HBigInt z => Some (mkItem (str "big.Int"%string) (gob_bigint z))
  | HNat k n => Some (mkItem (str "*saferith.Nat"%string) (be_bytes k n))
  | HInt k z => Some (mkItem (str "*saferith.Int"%string)
                        ((if (z <? 0)%Z then 1 else 0) :: be_bytes k (Z.abs_N z)))
  | HModulus n => Some (mkItem (str "*saferith.Modulus"%string) (be_min n))
  | HScalar s => Some (mkItem (str "*curve.Secp256k1Scalar"%string) (be_bytes 32 s))
  | HPoint x odd => Some (mkItem (str "*curve.Secp256k1Point"%string)
                        ((if odd then 3 else 2) :: be_bytes 32 x))
  | HID b => match b with [] => None | _ => Some (mkItem (str "ID"%string) b) end
  | HIDSlice o => match o with
                  | Some l => Some (mkItem (str "IDSlice"%string) (idslice_data l))
                  | None => None end
  | HRID o => opt_item (str "RID"%string) o
  | HCommitment o => opt_item (str "Commitment"%string) o
  | HDecommitment o => opt_item (str "Decommitment"%string) o
  | HThreshold t => Some (mkItem (str "Threshold"%string) (be32 t))
  | HRound r => Some (mkItem (str "Round Number"%string) (be64 r))
  | HSigMsg o => match o with
                 | Some b => Some (mkItem (str "Signature Message"%string) b)
                 | None => Some (mkItem (str "Empty Message"%string) [])
                 end
  | HWithDomain d o => opt_item d o
  | HCiphertext c => Some (mkItem (str "Paillier Ciphertext"%string) (be_bytes 512 c))
  | HPaillierPK n => Some (mkItem (str "Paillier PublicKey"%string) (be_min n))
  | HPedersen n s t => Some (mkItem (str "Pedersen Parameters"%string)
                               (be_bytes 256 n ++ be_bytes 256 s ++ be_bytes 256 t))
  end.

(* WriteAny(data...) stops at the first failing value but keeps what was written before it. *)
Fixpoint write_any (st : bytes) (vs : list hval) : bytes * bool :=
  match vs with
  | [] => (st, true)
  | v :: vs' => match enc_hval v with
                | Some i => write_any (st ++ frame i) vs'
                | None => (st, false)
                end
  end.

(* ------------------------------------------------------------------ *)
(* Commit / Decommit  (pkg/hash/commit.go), for an arbitrary digest function H (64-byte output). *)

Definition commitment_valid (c : bytes) : bool := (length c =? 64)%nat && negb (all_zero c).
Definition decommitment_valid (d : bytes) : bool := (length d =? 32)%nat && negb (all_zero d).

Section Commit.
  Variable H : bytes -> bytes.

  (* the byte string that Commit/Decommit hash: state, then each item, then the decommitment *)
  Definition commit_input (st : bytes) (vs : list hval) (d : bytes) : option bytes :=
    match write_any st vs with
    | (st', true) => match enc_hval (HDecommitment (Some d)) with
                     | Some i => Some (st' ++ frame i)
                     | None => None end
    | (_, false) => None
    end.

  Definition decommit (st : bytes) (c d : bytes) (vs : list hval) : bool :=
    commitment_valid c && decommitment_valid d &&
    match commit_input st vs d with
    | Some inp => bytes_eqb (H inp) c
    | None => false
    end.
End Commit.
