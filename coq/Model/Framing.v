(* Framing.v -- model of pkg/hash: WriteAny framing, typed-value encoders, Commit/Decommit.
   Executable definitions only (proofs are in Proofs/FramingProofs.v). *)
From Coq Require Import String Ascii.
From Coq Require Import List NArith ZArith Bool.
From MPS Require Import Model.Bytes.
Import ListNotations.
Open Scope N_scope.

Definition str (s : String.string) : bytes := map Ascii.N_of_ascii (String.list_ascii_of_string s).

(* One domain-separated item as WriteAny sees it after the type switch. *)
Record item := mkItem { dom : bytes; dat : bytes }.

(* hash.WriteAny:  "(" <be64 |dom|> dom <be64 |dat|> dat ")"  *)
Definition frame (i : item) : bytes :=
  [40] ++ be64 (len (dom i)) ++ dom i ++ be64 (len (dat i)) ++ dat i ++ [41].

Definition frames (l : list item) : bytes := flat_map frame l.

(* the byte stream absorbed by the hash after writing items l on top of state st *)
Definition stream (st : bytes) (l : list item) : bytes := st ++ frames l.

(* hash.New(): "CMP-BLAKE" *)
Definition init_state : bytes := str "CMP-BLAKE"%string.

Definition wf_item (i : item) : bool :=
  wf_bytes (dom i) && wf_bytes (dat i) && (len (dom i) <? 2^64) && (len (dat i) <? 2^64).

(* ------------------------------------------------------------------ *)
(* Typed values accepted by WriteAny and how each is turned into an item.
   [None] = WriteAny returns an error (nil slice, empty ID, ...).        *)

(* a secp256k1 point as MarshalBinary writes it: x coordinate and parity of y (the identity is x = 0, even) *)
Definition cpoint := (N * bool)%type.
Definition point_bytes (p : cpoint) : bytes := (if snd p then 3 else 2) :: be_bytes 32 (fst p).

(* protocols/cmp/config.Public (all four fields non-nil) *)
Record cmp_public := mkCmpPublic {
  cp_ecdsa : cpoint; cp_elgamal : cpoint;
  cp_paillier : N;                       (* Paillier N *)
  cp_ped_n : N; cp_ped_s : N; cp_ped_t : N }.

(* protocols/cmp/config.Config, the part WriteTo reads (cc_chainkey: ChainKey, a byte slice; nil and empty are the same
   value here, both have length 0): Threshold (a Go int), RID (None = nil) and the map
   Public as an association list (a Go map: keys are unique, order is irrelevant -- WriteTo sorts them) *)
Record cmp_config := mkCmpConfig {
  cc_threshold : Z; cc_rid : option bytes; cc_chainkey : bytes; cc_public : list (bytes * cmp_public) }.

Inductive hval :=
| HBytes (b : option bytes)            (* []byte (None = nil)                         *)
| HBigInt (z : Z)                      (* *big.Int, GobEncode                          *)
| HNat (blen : nat) (n : N)            (* *saferith.Nat with announced byte length     *)
| HInt (blen : nat) (z : Z)            (* *saferith.Int                                *)
| HModulus (n : N)                     (* *saferith.Modulus                            *)
| HScalar (s : N)                      (* curve.Scalar (secp256k1), 32 bytes           *)
| HPoint (x : N) (odd : bool)          (* curve.Point (secp256k1) compressed, 33 bytes *)
| HID (b : bytes)                      (* party.ID                                     *)
| HIDSlice (l : option (list bytes))   (* party.IDSlice (None = nil)                   *)
| HRID (b : option bytes)
| HCommitment (b : option bytes)
| HDecommitment (b : option bytes)
| HThreshold (t : N)                   (* types.ThresholdWrapper: uint32               *)
| HRound (r : N)                       (* round.Number: written as uint64              *)
| HSigMsg (b : option bytes)           (* types.SigningMessage: domain depends on nil  *)
| HWithDomain (d : bytes) (b : option bytes)  (* hash.BytesWithDomain                 *)
| HCiphertext (c : N)                  (* *paillier.Ciphertext: 512 bytes              *)
| HPaillierPK (n : N)                  (* *paillier.PublicKey: minimal bytes of N      *)
| HPedersen (n s t : N)                (* *pedersen.Parameters: 3 x 256 bytes          *)
| HExponent (isconst : bool) (coeffs : option (list cpoint))
                                       (* *polynomial.Exponent: MarshalBinary (None = nil slice) *)
| HElGamal (l m : cpoint)              (* *elgamal.Ciphertext: L, M                     *)
| HSchCommitment (c : cpoint)          (* *sch.Commitment                               *)
| HMessageHash (b : option bytes)      (* frost sign.messageHash (None = nil)           *)
| HCmpPublic (p : option cmp_public)   (* *config.Public (None = nil pointer)           *)
| HCmpConfig (c : option cmp_config).  (* *config.Config (None = nil pointer)           *)

(* the constructor number: the tag used on the wire to the harness, "the Go type" of a value *)
Definition hval_kind (v : hval) : nat :=
  match v with
  | HBytes _ => 0 | HBigInt _ => 1 | HNat _ _ => 2 | HInt _ _ => 3 | HModulus _ => 4 | HScalar _ => 5
  | HPoint _ _ => 6 | HID _ => 7 | HIDSlice _ => 8 | HRID _ => 9 | HCommitment _ => 10
  | HDecommitment _ => 11 | HThreshold _ => 12 | HRound _ => 13 | HSigMsg _ => 14 | HWithDomain _ _ => 15
  | HCiphertext _ => 16 | HPaillierPK _ => 17 | HPedersen _ _ _ => 18 | HExponent _ _ => 19
  | HElGamal _ _ => 20 | HSchCommitment _ => 21 | HMessageHash _ => 22 | HCmpPublic _ => 23
  | HCmpConfig _ => 24
  end%nat.

Definition opt_item (d : bytes) (o : option bytes) : option item :=
  match o with Some b => Some (mkItem d b) | None => None end.

(* math/big GobEncode: version byte (1<<1 | sign) followed by the magnitude, minimal big endian *)
Definition gob_bigint (z : Z) : bytes :=
  (if (z <? 0)%Z then 3 else 2) :: be_min (Z.abs_N z).

(* D1 repaired: every identifier is length-prefixed. *)
Definition idslice_data (l : list bytes) : bytes :=
  be64 (N.of_nat (length l)) ++ flat_map (fun id => be64 (len id) ++ id) l.
(* the pre-fix encoder: count, then raw concatenation (kept for the regression witness) *)
Definition idslice_data_v0 (l : list bytes) : bytes :=
  be64 (N.of_nat (length l)) ++ concat l.

(* fxamacker/cbor head (initial byte + shortest-form argument), as Model/Cbor.head *)
Definition cbor_head (major n : N) : bytes :=
  if n <? 24 then [major * 32 + n]
  else if n <? 256 then (major * 32 + 24) :: be_bytes 1 n
  else if n <? 65536 then (major * 32 + 25) :: be_bytes 2 n
  else if n <? 4294967296 then (major * 32 + 26) :: be_bytes 4 n
  else (major * 32 + 27) :: be_bytes 8 n.

(* polynomial.Exponent.MarshalBinary: uint32 count (truncating), then
   cbor.Marshal(rawExponentData{IsConstant bool; Coefficients []curve.Point}) =
   a2  6a "IsConstant" f4|f5  6c "Coefficients"  (f6 | array-head  (58 21 <33 bytes>)* ) *)
Definition exponent_coeff_bytes (p : cpoint) : bytes := 88 :: 33 :: point_bytes p.
Definition exponent_data (isconst : bool) (coeffs : option (list cpoint)) : bytes :=
  be32 (match coeffs with Some l => N.of_nat (length l) | None => 0 end)
  ++ 162 :: 106 :: str "IsConstant"%string ++ (if isconst then 245 else 244)
  :: 108 :: str "Coefficients"%string
  ++ match coeffs with
     | None => [246]
     | Some l => cbor_head 4 (N.of_nat (length l)) ++ flat_map exponent_coeff_bytes l
     end.

Definition pedersen_data (n s t : N) : bytes := be_bytes 256 n ++ be_bytes 256 s ++ be_bytes 256 t.

Definition lt_pow2 (n : N) (bits : N) : bool := N.shiftr n bits =? 0.

(* pedersen.Parameters.WriteTo: ErrTooLarge when N, S or T has more than params.BitsIntModN = 2048 bits (TrueLen);
   before the repair the values were written with FillBytes into 256 bytes whatever their size: [pedersen_data] alone *)
Definition pedersen_data_opt (n s t : N) : option bytes :=
  if lt_pow2 n 2048 && lt_pow2 s 2048 && lt_pow2 t 2048 then Some (pedersen_data n s t) else None.

(* config.Public.WriteTo: ECDSA point, ElGamal point, the Paillier modulus (minimal bytes) behind an 8-byte
   big-endian length, Pedersen parameters -- one after the other into the same buffer *)
Definition public_data (p : cmp_public) : option bytes :=
  match pedersen_data_opt (cp_ped_n p) (cp_ped_s p) (cp_ped_t p) with
  | Some pd => Some (point_bytes (cp_ecdsa p) ++ point_bytes (cp_elgamal p)
                     ++ be64 (len (be_min (cp_paillier p))) ++ be_min (cp_paillier p) ++ pd)
  | None => None
  end.

(* before the repair: the four fields RAW one after the other *)
Definition public_data_v0 (p : cmp_public) : bytes :=
  point_bytes (cp_ecdsa p) ++ point_bytes (cp_elgamal p) ++ be_min (cp_paillier p)
  ++ pedersen_data (cp_ped_n p) (cp_ped_s p) (cp_ped_t p).

(* Go string comparison (bytewise lexicographic) and party.NewIDSlice's sort, on the map entries *)
Fixpoint key_ltb (a b : bytes) : bool :=
  match a, b with
  | [], [] => false
  | [], _ :: _ => true
  | _ :: _, [] => false
  | x :: a', y :: b' => if x <? y then true else if y <? x then false else key_ltb a' b'
  end.
Fixpoint insert_entry {A} (e : bytes * A) (l : list (bytes * A)) : list (bytes * A) :=
  match l with
  | [] => [e]
  | f :: l' => if key_ltb (fst f) (fst e) then f :: insert_entry e l' else e :: l
  end.
Definition sort_entries {A} (l : list (bytes * A)) : list (bytes * A) := fold_right insert_entry [] l.

(* the Public records of the sorted entries; the first one that fails makes the whole WriteTo fail *)
Fixpoint publics_data (es : list (bytes * cmp_public)) : option bytes :=
  match es with
  | [] => Some []
  | e :: es' => match public_data (snd e), publics_data es' with
                | Some d, Some r => Some (d ++ r)
                | _, _ => None end
  end.

(* config.Config.WriteTo: ThresholdWrapper(c.Threshold) (int -> uint32 conversion), IDSlice.WriteTo of the sorted
   keys, the RID behind an 8-byte big-endian length (fails on nil), the chain key behind an 8-byte big-endian length
   (nil = empty = length 0), then Public[j].WriteTo for j in sorted order -- all into one buffer *)
Definition config_data (c : cmp_config) : option bytes :=
  match cc_rid c with
  | None => None
  | Some rid =>
      let es := sort_entries (cc_public c) in
      match publics_data es with
      | Some pubs => Some (be32 (Z.to_N (cc_threshold c mod 4294967296))
                           ++ idslice_data (map fst es) ++ be64 (len rid) ++ rid
                           ++ be64 (len (cc_chainkey c)) ++ cc_chainkey c ++ pubs)
      | None => None
      end
  end.

(* before the chain key was written (after the framing repair): ChainKey is not part of the bytes *)
Definition config_data_v1 (c : cmp_config) : option bytes :=
  match cc_rid c with
  | None => None
  | Some rid =>
      let es := sort_entries (cc_public c) in
      match publics_data es with
      | Some pubs => Some (be32 (Z.to_N (cc_threshold c mod 4294967296))
                           ++ idslice_data (map fst es) ++ be64 (len rid) ++ rid ++ pubs)
      | None => None
      end
  end.

(* before the framing repair: RID and every Public written RAW (and no chain key) *)
Definition config_data_v0 (c : cmp_config) : option bytes :=
  match cc_rid c with
  | None => None
  | Some rid =>
      let es := sort_entries (cc_public c) in
      Some (be32 (Z.to_N (cc_threshold c mod 4294967296))
            ++ idslice_data (map fst es) ++ rid ++ flat_map (fun e => public_data_v0 (snd e)) es)
  end.

Definition enc_hval (v : hval) : option item :=
  match v with
  | HBytes o => opt_item (str "[]byte"%string) o
  | HBigInt z => Some (mkItem (str "big.Int"%string) (gob_bigint z))
  | HNat k n => Some (mkItem (str "*saferith.Nat"%string) (be_bytes k n))
  | HInt k z => Some (mkItem (str "*saferith.Int"%string)
                        ((if (z <? 0)%Z then 1 else 0) :: be_bytes k (Z.abs_N z)))
  | HModulus n => Some (mkItem (str "*saferith.Modulus"%string) (be_min n))
  | HScalar s => Some (mkItem (str "*curve.Secp256k1Scalar"%string) (be_bytes 32 s))
  | HPoint x odd => Some (mkItem (str "*curve.Secp256k1Point"%string)
                        ((if odd then 3 else 2) :: be_bytes 32 x))
  | HID b => match b with [] => None | _ => Some (mkItem (str "ID"%string) b) end
  | HIDSlice o => match o with
                  | Some l => Some (mkItem (str "IDSlice"%string) (idslice_data l))
                  | None => None end
  | HRID o => opt_item (str "RID"%string) o
  | HCommitment o => opt_item (str "Commitment"%string) o
  | HDecommitment o => opt_item (str "Decommitment"%string) o
  | HThreshold t => Some (mkItem (str "Threshold"%string) (be32 t))
  | HRound r => Some (mkItem (str "Round Number"%string) (be64 r))
  | HSigMsg o => match o with
                 | Some b => Some (mkItem (str "Signature Message"%string) b)
                 | None => Some (mkItem (str "Empty Message"%string) [])
                 end
  | HWithDomain d o => opt_item d o
  | HCiphertext c => Some (mkItem (str "Paillier Ciphertext"%string) (be_bytes 512 c))
  | HPaillierPK n => Some (mkItem (str "Paillier PublicKey"%string) (be_min n))
  | HPedersen n s t => opt_item (str "Pedersen Parameters"%string) (pedersen_data_opt n s t)
  | HExponent c co => Some (mkItem (str "Exponent"%string) (exponent_data c co))
  | HElGamal l m => Some (mkItem (str "ElGamal Ciphertext"%string) (point_bytes l ++ point_bytes m))
  | HSchCommitment c => Some (mkItem (str "Schnorr Commitment"%string) (point_bytes c))
  | HMessageHash o => opt_item (str "messageHash"%string) o
  | HCmpPublic o => match o with
                    | Some p => opt_item (str "Public Data"%string) (public_data p)
                    | None => None end
  | HCmpConfig o => match o with
                    | Some c => opt_item (str "CMP Config"%string) (config_data c)
                    | None => None end
  end.

(* the three encoders as they were before the repairs (regression witnesses in Proofs/HvalProofs.v) *)
Definition enc_hval_v0 (v : hval) : option item :=
  match v with
  | HPedersen n s t => Some (mkItem (str "Pedersen Parameters"%string) (pedersen_data n s t))
  | HCmpPublic (Some p) => Some (mkItem (str "Public Data"%string) (public_data_v0 p))
  | HCmpConfig (Some c) => opt_item (str "CMP Config"%string) (config_data_v0 c)
  | _ => enc_hval v
  end.
(* ... and between the framing repair and the chain-key repair *)
Definition enc_hval_v1 (v : hval) : option item :=
  match v with
  | HCmpConfig (Some c) => opt_item (str "CMP Config"%string) (config_data_v1 c)
  | _ => enc_hval v
  end.

(* ------------------------------------------------------------------ *)
(* Well-formed typed values: the ranges that the Go types enforce (used by Proofs/HvalProofs.v: on these
   values the encoding is injective per type).  [item_ok]: the written item is inside the framing's domain
   (bytes < 256, lengths < 2^64).  [range_ok]: per type. *)

Definition secp256k1_p : N := 0xFFFFFFFFFFFFFFFFFFFFFFFFFFFFFFFFFFFFFFFFFFFFFFFFFFFFFFFEFFFFFC2F.
Definition secp256k1_q : N := 0xFFFFFFFFFFFFFFFFFFFFFFFFFFFFFFFEBAAEDCE6AF48A03BBFD25E8CD0364141.
Definition wf_cpoint (p : cpoint) : bool := fst p <? secp256k1_p.
(* the points in range; Pedersen values need no clause any more (out of range = WriteTo fails), nor does the
   Paillier modulus (length-prefixed) *)
Definition wf_public (p : cmp_public) : bool :=
  wf_cpoint (cp_ecdsa p) && wf_cpoint (cp_elgamal p)
  && (N.of_nat (byte_len (cp_paillier p)) <? 2^64).     (* the length that is written as 8 bytes fits *)
(* the range clause the pre-fix encoder needed *)
Definition ped_in_range (p : cmp_public) : bool :=
  lt_pow2 (cp_ped_n p) 2048 && lt_pow2 (cp_ped_s p) 2048 && lt_pow2 (cp_ped_t p) 2048.

(* IDSlice.Valid on the keys: strictly increasing *)
Fixpoint keys_sorted (l : list bytes) : bool :=
  match l with
  | [] => true
  | x :: l' => match l' with
               | [] => true
               | y :: _ => key_ltb x y && keys_sorted l'
               end
  end.

Definition ids_small (l : list bytes) : bool :=
  forallb (fun id => len id <? 2^64) l && (N.of_nat (length l) <? 2^64).

(* a Config: ValidThreshold's range and a map (unique keys; the association list is its sorted representative).
   Neither the size of the Paillier moduli nor the length of the RID or of the chain key is constrained. *)
Definition wf_config (c : cmp_config) : bool :=
  (0 <=? cc_threshold c)%Z && (cc_threshold c <? 4294967296)%Z
  && keys_sorted (map fst (cc_public c)) && ids_small (map fst (cc_public c))
  && forallb (fun e => wf_public (snd e)) (cc_public c)
  && match cc_rid c with Some rid => len rid <? 2^64 | None => true end
  && (len (cc_chainkey c) <? 2^64).
(* what the pre-fix encoder needed in addition: Pedersen values in range and every Paillier modulus of [w] bytes *)
Definition wf_config_w (w : nat) (c : cmp_config) : bool :=
  wf_config c
  && forallb (fun e => ped_in_range (snd e) && (byte_len (cp_paillier (snd e)) =? w)%nat) (cc_public c).

Definition item_ok (v : hval) : bool :=
  match enc_hval v with Some i => wf_item i | None => true end.

Definition range_ok (v : hval) : bool :=
  match v with
  | HNat k n => n <? 256 ^ N.of_nat k                  (* the announced length IS part of this value *)
  | HInt k z => Z.abs_N z <? 256 ^ N.of_nat k
  | HScalar s => s <? secp256k1_q
  | HPoint x _ => x <? secp256k1_p
  | HIDSlice (Some l) => ids_small l
  | HThreshold t => t <? 2^32
  | HRound r => r <? 2^16
  | HCiphertext c => lt_pow2 c 4096
  | HExponent _ (Some l) => forallb wf_cpoint l && (N.of_nat (length l) <? 2^32)
  | HElGamal l m => wf_cpoint l && wf_cpoint m
  | HSchCommitment c => wf_cpoint c
  | HCmpPublic (Some p) => wf_public p
  | HCmpConfig (Some c) => wf_config c
  | _ => true
  end.

Definition wf_hval (v : hval) : bool := item_ok v && range_ok v.

(* WriteAny(data...) stops at the first failing value but keeps what was written before it. *)
Fixpoint write_any (st : bytes) (vs : list hval) : bytes * bool :=
  match vs with
  | [] => (st, true)
  | v :: vs' => match enc_hval v with
                | Some i => write_any (st ++ frame i) vs'
                | None => (st, false)
                end
  end.

(* ------------------------------------------------------------------ *)
(* Commit / Decommit  (pkg/hash/commit.go), for an arbitrary digest function H (64-byte output). *)

Definition commitment_valid (c : bytes) : bool := (length c =? 64)%nat && negb (all_zero c).
Definition decommitment_valid (d : bytes) : bool := (length d =? 32)%nat && negb (all_zero d).

Section Commit.
  Variable H : bytes -> bytes.

  (* the byte string that Commit/Decommit hash: state, then each item, then the decommitment *)
  Definition commit_input (st : bytes) (vs : list hval) (d : bytes) : option bytes :=
    match write_any st vs with
    | (st', true) => match enc_hval (HDecommitment (Some d)) with
                     | Some i => Some (st' ++ frame i)
                     | None => None end
    | (_, false) => None
    end.

  Definition decommit (st : bytes) (c d : bytes) (vs : list hval) : bool :=
    commitment_valid c && decommitment_valid d &&
    match commit_input st vs d with
    | Some inp => bytes_eqb (H inp) c
    | None => false
    end.
End Commit.
