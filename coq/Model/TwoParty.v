(* TwoParty.v -- model of pkg/protocol.TwoPartyHandler (twoparty.go), control logic only, as written:
     - h.messages is a map round -> *Message: a LATER message for the same round OVERWRITES the earlier one,
       consumed messages are never deleted, and CanAccept has NO stale-round check;
     - advance() loops while canAdvance(): verify the stored message of the current round (if any), Finalize
       (into a channel of capacity 1), forward what was emitted to h.out (capacity 2, blocking send), switch on
       the type of the new round (Abort / Output / anything else);
     - abort(err) sets h.err BEFORE the non-blocking send of the notice and always closes h.out; abort(nil) only closes;
     - Accept recovers from panics (deferred function), Stop and NewTwoPartyHandler do not.
   The protocol enters through its shape: per round number whether a message is expected (MessageContent() != nil)
   and what Finalize does (fails / returns (nil, nil) / emits messages and returns the next round), plus the
   validity oracle [m_valid] of a message (decode + VerifyMessage + StoreMessage succeed; a message whose processing
   panics is covered by [m_valid = false] too: the recover in Accept turns the panic into the same clean abort).
   Types msg / outmsg / runtime / party and [is_for] are those of Model/Handler.v.
   Executable definitions only; proofs are in Proofs/TwoPartyProofs.v. *)
From Coq Require Import List NArith ZArith Bool Arith.
From MPS Require Import Model.Handler.
Import ListNotations.

(* what the round returned by Finalize is *)
Inductive tnext :=
| TNRound (nr : nat)          (* an ordinary round with Number() = nr *)
| TNOutput (nonnil : bool)    (* *round.Output; nonnil = (R.Result != nil) *)
| TNAbort (witherr : bool).   (* *round.Abort;  witherr = (R.Err != nil) *)

(* what Finalize of a round does *)
Inductive tfin :=
| TFErr                                        (* returns an error *)
| TFNil                                        (* returns (nil, nil) *)
| TFNext (outs : list outmsg) (nx : tnext).    (* sends outs (through Helper.SendMessage) and returns the next round *)

Record tshape := mkTShape {
  ts_final   : nat;             (* FinalRoundNumber *)
  ts_expects : nat -> bool;     (* round r: MessageContent() != nil *)
  ts_fin     : nat -> tfin      (* round r: behaviour of Finalize *)
}.

(* h.round *)
Inductive tround := RNum (r : nat) | ROut (nonnil : bool) | RAbt (witherr : bool).
(* h.round.Number(): Output and Abort rounds have number 0 *)
Definition rnum (x : tround) : nat := match x with RNum r => r | _ => 0 end.

Inductive terr := TEAbortNotice | TEVerify | TEFinalize | TEUser | TEProtoAbort | TEPanic.

Record tstate := mkT {
  t_self : party; t_n : nat; t_ssid : N; t_proto : N; t_shape : tshape;
  t_leader : bool;                  (* h.leader (only read by the constructor) *)
  t_round : tround;                 (* h.round *)
  t_msgs : list (nat * msg);        (* h.messages: at most one entry per round number *)
  t_err : option terr;              (* h.err *)
  t_res : bool;                     (* h.result != nil *)
  t_out : list outmsg;              (* everything ever put on h.out, oldest first (abort notices: round 0) *)
  t_pending : nat;                  (* messages currently buffered in h.out *)
  t_closes : nat;                   (* number of close(h.out) executed *)
  t_rt : runtime
}.

Definition set_trt (s : tstate) (rt : runtime) : tstate :=
  mkT (t_self s) (t_n s) (t_ssid s) (t_proto s) (t_shape s) (t_leader s) (t_round s) (t_msgs s) (t_err s) (t_res s)
      (t_out s) (t_pending s) (t_closes s) rt.
Definition set_terr (s : tstate) (e : option terr) : tstate :=
  mkT (t_self s) (t_n s) (t_ssid s) (t_proto s) (t_shape s) (t_leader s) (t_round s) (t_msgs s) e (t_res s)
      (t_out s) (t_pending s) (t_closes s) (t_rt s).
Definition set_tres (s : tstate) (b : bool) : tstate :=
  mkT (t_self s) (t_n s) (t_ssid s) (t_proto s) (t_shape s) (t_leader s) (t_round s) (t_msgs s) (t_err s) b
      (t_out s) (t_pending s) (t_closes s) (t_rt s).
Definition set_tround (s : tstate) (r : tround) : tstate :=
  mkT (t_self s) (t_n s) (t_ssid s) (t_proto s) (t_shape s) (t_leader s) r (t_msgs s) (t_err s) (t_res s)
      (t_out s) (t_pending s) (t_closes s) (t_rt s).
Definition set_tmsgs (s : tstate) (q : list (nat * msg)) : tstate :=
  mkT (t_self s) (t_n s) (t_ssid s) (t_proto s) (t_shape s) (t_leader s) (t_round s) q (t_err s) (t_res s)
      (t_out s) (t_pending s) (t_closes s) (t_rt s).
Definition set_tcloses (s : tstate) (c : nat) : tstate :=
  mkT (t_self s) (t_n s) (t_ssid s) (t_proto s) (t_shape s) (t_leader s) (t_round s) (t_msgs s) (t_err s) (t_res s)
      (t_out s) (t_pending s) c (t_rt s).
Definition push_tout (s : tstate) (o : outmsg) : tstate :=
  mkT (t_self s) (t_n s) (t_ssid s) (t_proto s) (t_shape s) (t_leader s) (t_round s) (t_msgs s) (t_err s) (t_res s)
      (t_out s ++ [o]) (S (t_pending s)) (t_closes s) (t_rt s).
Definition set_tpending (s : tstate) (p : nat) : tstate :=
  mkT (t_self s) (t_n s) (t_ssid s) (t_proto s) (t_shape s) (t_leader s) (t_round s) (t_msgs s) (t_err s) (t_res s)
      (t_out s) p (t_closes s) (t_rt s).

(* h.messages[r] *)
Fixpoint tget (q : list (nat * msg)) (r : nat) : option msg :=
  match q with
  | [] => None
  | (r', m) :: q' => if r' =? r then Some m else tget q' r
  end.

(* h.messages[r] = m : replaces the entry of round r if there is one *)
Fixpoint tupd (q : list (nat * msg)) (r : nat) (m : msg) : list (nat * msg) :=
  match q with
  | [] => [(r, m)]
  | (r', m') :: q' => if r' =? r then (r, m) :: q' else (r', m') :: tupd q' r m
  end.

(* out: make(chan *Message, 2) *)
Definition tp_capacity : nat := 2.

Definition tp_terminal (s : tstate) : bool :=
  (match t_err s with Some _ => true | None => false end) || t_res s.

(* TwoPartyHandler.canAccept -- note: no comparison with the current round number *)
Definition tp_can_accept (s : tstate) (m : msg) : bool :=
  is_for (t_self s) m
  && (m_proto m =? t_proto s)%N
  && (m_ssid m =? t_ssid s)%N
  && (m_from m <? t_n s)
  && m_data m
  && (m_round m <=? ts_final (t_shape s)).

(* close(h.out) *)
Definition tp_close (s : tstate) : tstate :=
  match t_rt s with
  | Running => if 0 <? t_closes s then set_trt s (Panicked 1) else set_tcloses s 1
  | _ => s
  end.

(* TwoPartyHandler.abort(err): err = None is abort(nil) *)
Definition tp_abort (s : tstate) (e : option terr) : tstate :=
  match t_rt s with
  | Running =>
      let s1 :=
        match e with
        | None => s
        | Some k =>
            let s0 := set_terr s (Some k) in                        (* h.err = err *)
            (* select { case h.out <- notice: default: } -- a send case on a closed channel panics *)
            if 0 <? t_closes s0 then set_trt s0 (Panicked 2)
            else if t_pending s0 <? tp_capacity then push_tout s0 (mkOut None 0 false 0%N)
            else s0
        end in
      tp_close s1
  | _ => s
  end.

(* blocking send h.out <- msg *)
Definition tp_emit (s : tstate) (o : outmsg) : tstate :=
  match t_rt s with
  | Running =>
      if 0 <? t_closes s then set_trt s (Panicked 2)
      else if t_pending s <? tp_capacity then push_tout s o
      else set_trt s BlockedOnSend
  | _ => s
  end.

Fixpoint tp_emit_all (s : tstate) (l : list outmsg) : tstate :=
  match l with
  | [] => s
  | o :: l' => tp_emit_all (tp_emit s o) l'
  end.

(* h.messages[h.round.Number()] *)
Definition tp_cur_msg (s : tstate) : option msg := tget (t_msgs s) (rnum (t_round s)).

Definition tp_expects (s : tstate) : bool :=
  match t_round s with RNum r => ts_expects (t_shape s) r | _ => false end.

(* TwoPartyHandler.canAdvance *)
Definition tp_can_advance (s : tstate) : bool :=
  negb (tp_expects s) || (match tp_cur_msg s with Some _ => true | None => false end).

(* verifyMessage(h.messages[cur]): nil is fine; a message for a round with MessageContent() == nil fails in
   cbor.Unmarshal(data, nil); otherwise the oracle decides *)
Definition tp_verify (s : tstate) : bool :=
  match tp_cur_msg s with
  | None => true
  | Some m => tp_expects s && m_valid m
  end.

(* Finalize of the current round; Output and Abort rounds return themselves without sending *)
Definition tp_fin_of (s : tstate) : tfin :=
  match t_round s with
  | RNum r => ts_fin (t_shape s) r
  | ROut b => TFNext [] (TNOutput b)
  | RAbt b => TFNext [] (TNAbort b)
  end.

Inductive tstep := TDone (s : tstate) | TCont (s : tstate).

(* one iteration of the loop in advance() *)
Definition tp_step (s : tstate) : tstep :=
  match t_rt s with
  | Running =>
      if negb (tp_can_advance s) then TDone s
      else if negb (tp_verify s) then TDone (tp_abort s (Some TEVerify))
      else match tp_fin_of s with
           | TFErr => TDone (tp_abort s (Some TEFinalize))
           | TFNil => TDone (tp_abort s None)                       (* err == nil, newRound == nil: abort(nil) *)
           | TFNext outs nx =>
               (* Finalize writes into make(chan *round.Message, 1): a second SendMessage fails with ErrOutChanFull *)
               if 1 <? length outs then TDone (tp_abort s (Some TEFinalize))
               else
                 let s2 := tp_emit_all s outs in
                 match t_rt s2 with
                 | Running =>
                     match nx with
                     | TNRound nr => TCont (set_tround s2 (RNum nr))
                     | TNAbort b => TDone (tp_abort (set_tround s2 (RAbt b)) (if b then Some TEProtoAbort else None))
                     | TNOutput b => TDone (tp_abort (set_tres (set_tround s2 (ROut b)) b) None)
                     end
                 | _ => TDone s2
                 end
           end
  | _ => TDone s
  end.

(* TwoPartyHandler.advance (fuelled; Proofs/TwoPartyProofs.v shows that [tp_fuel] suffices when round numbers increase) *)
Fixpoint tp_advance (fuel : nat) (s : tstate) : tstate :=
  match fuel with
  | O => s
  | S f => match tp_step s with TDone s' => s' | TCont s' => tp_advance f s' end
  end.

Definition tp_fuel (s : tstate) : nat := ts_final (t_shape s) + 3.

(* h.messages[msg.RoundNumber] = msg *)
Definition tp_store (s : tstate) (m : msg) : tstate := set_tmsgs s (tupd (t_msgs s) (m_round m) m).

(* the deferred recover() of Accept: runs when the body panicked *)
Definition tp_recover (s : tstate) : tstate :=
  match t_rt s with
  | Panicked _ =>
      let s0 := set_trt s Running in
      if tp_terminal s0 then s0 else tp_abort s0 (Some TEPanic)
  | _ => s
  end.

(* TwoPartyHandler.Accept *)
Definition tp_accept (s : tstate) (m : msg) : tstate :=
  match t_rt s with
  | Running =>
      tp_recover
        (if negb (tp_can_accept s m) || tp_terminal s then s
         else if m_round m =? 0 then tp_abort s (Some TEAbortNotice)
         else let s1 := tp_store s m in tp_advance (tp_fuel s1) s1)
  | _ => s
  end.

(* TwoPartyHandler.Stop.  [fixed = false]: the guard as found at the pinned commit (acts only when already
   finished); [fixed = true]: acts only while running.  No recover here. *)
Definition tp_stop (fixed : bool) (s : tstate) : tstate :=
  match t_rt s with
  | Running =>
      if fixed then (if tp_terminal s then s else tp_abort s (Some TEUser))
      else (if tp_terminal s then tp_abort s (Some TEUser) else s)
  | _ => s
  end.

(* the user takes k messages from Listen() *)
Definition tp_drain (k : nat) (s : tstate) : tstate := set_tpending s (t_pending s - k).

(* NewTwoPartyHandler *)
Definition tp_init (leader : bool) (self : party) (n : nat) (ssid proto : N) (sh : tshape) : tstate :=
  mkT self n ssid proto sh leader (RNum 1) [] None false [] 0 0 Running.
Definition tp_new (leader : bool) (self : party) (n : nat) (ssid proto : N) (sh : tshape) : tstate :=
  let s := tp_init leader self n ssid proto sh in
  if leader then tp_advance (tp_fuel s) s else s.

(* Result(): 0 = "not finished", 1 = value, 2 = error *)
Definition tp_result_class (s : tstate) : nat :=
  if t_res s then 1 else match t_err s with Some _ => 2 | None => 0 end.
