(* ops for the framing model (C19, C09): decode sx arguments, run the model *)
From Coq Require Import String.
From Coq Require Import List NArith ZArith Bool.
From MPS Require Import Model.Bytes Model.Sx Model.Framing.
Import ListNotations.

(* hval encoding: (tag args...) *)
Definition hval_of_sx (s : sx) : option hval :=
  match s with
  | Li [At 0%Z; o] => do b <- as_opt as_bytes o; Some (HBytes b)
  | Li [At 1%Z; At z] => Some (HBigInt z)
  | Li [At 2%Z; k; n] => do k <- as_nat k; do n <- as_N n; Some (HNat k n)
  | Li [At 3%Z; k; At z] => do k <- as_nat k; Some (HInt k z)
  | Li [At 4%Z; n] => do n <- as_N n; Some (HModulus n)
  | Li [At 5%Z; n] => do n <- as_N n; Some (HScalar n)
  | Li [At 6%Z; x; o] => do x <- as_N x; do o <- as_bool o; Some (HPoint x o)
  | Li [At 7%Z; Bs b] => Some (HID b)
  | Li [At 8%Z; o] => do l <- as_opt (as_list_of as_bytes) o; Some (HIDSlice l)
  | Li [At 9%Z; o] => do b <- as_opt as_bytes o; Some (HRID b)
  | Li [At 10%Z; o] => do b <- as_opt as_bytes o; Some (HCommitment b)
  | Li [At 11%Z; o] => do b <- as_opt as_bytes o; Some (HDecommitment b)
  | Li [At 12%Z; t] => do t <- as_N t; Some (HThreshold t)
  | Li [At 13%Z; r] => do r <- as_N r; Some (HRound r)
  | Li [At 14%Z; o] => do b <- as_opt as_bytes o; Some (HSigMsg b)
  | Li [At 15%Z; Bs d; o] => do b <- as_opt as_bytes o; Some (HWithDomain d b)
  | Li [At 16%Z; c] => do c <- as_N c; Some (HCiphertext c)
  | Li [At 17%Z; n] => do n <- as_N n; Some (HPaillierPK n)
  | Li [At 18%Z; n; s; t] => do n <- as_N n; do s <- as_N s; do t <- as_N t; Some (HPedersen n s t)
  | _ => None
  end.

(* "c19.write": (hvals) -> (stream ok)   starting from hash.New() *)
Definition op_c19_write (arg : sx) : option sx :=
  do vs <- as_list_of hval_of_sx arg;
  let '(st, ok) := write_any init_state vs in
  Some (Li [Bs st; sx_bool ok]).

(* "c19.commit_input": (hvals decommitment) -> (input) | () *)
Definition op_c19_commit_input (arg : sx) : option sx :=
  match arg with
  | Li [vs; Bs d] =>
      do vs <- as_list_of hval_of_sx vs;
      Some (sx_opt Bs (commit_input init_state vs d))
  | _ => None end.

(* "c19.valid": (c d) -> (cvalid dvalid) *)
Definition op_c19_valid (arg : sx) : option sx :=
  match arg with
  | Li [Bs c; Bs d] => Some (Li [sx_bool (commitment_valid c); sx_bool (decommitment_valid d)])
  | _ => None end.
