(* ops for the framing model (C19, C09): decode sx arguments, run the model *)
From Coq Require Import String.
From Coq Require Import List NArith ZArith Bool.
From MPS Require Import Model.Bytes Model.Sx Model.Framing.
Import ListNotations.

(* compressed point: (x odd) *)
Definition cpoint_of_sx (s : sx) : option cpoint :=
  match s with
  | Li [x; o] => do x <- as_N x; do o <- as_bool o; Some (x, o)
  | _ => None end.

(* config.Public: (ecdsa elgamal paillierN pedN pedS pedT) *)
Definition public_of_sx (s : sx) : option cmp_public :=
  match s with
  | Li [e; g; pn; n; s; t] =>
      do e <- cpoint_of_sx e; do g <- cpoint_of_sx g; do pn <- as_N pn;
      do n <- as_N n; do s <- as_N s; do t <- as_N t; Some (mkCmpPublic e g pn n s t)
  | _ => None end.

(* config.Config: (threshold rid_opt #chainkey ((id public) ...)) *)
Definition config_of_sx (s : sx) : option cmp_config :=
  match s with
  | Li [At t; rid; Bs ck; pubs] =>
      do rid <- as_opt as_bytes rid;
      do pubs <- as_list_of (fun e => match e with
                                      | Li [Bs id; p] => do p <- public_of_sx p; Some (id, p)
                                      | _ => None end) pubs;
      Some (mkCmpConfig t rid ck pubs)
  | _ => None end.

(* hval encoding: (tag args...) *)
Definition hval_of_sx (s : sx) : option hval :=
  match s with
  | Li [At 0%Z; o] => do b <- as_opt as_bytes o; Some (HBytes b)
  | Li [At 1%Z; At z] => Some (HBigInt z)
  | Li [At 2%Z; k; n] => do k <- as_nat k; do n <- as_N n; Some (HNat k n)
  | Li [At 3%Z; k; At z] => do k <- as_nat k; Some (HInt k z)
  | Li [At 4%Z; n] => do n <- as_N n; Some (HModulus n)
  | Li [At 5%Z; n] => do n <- as_N n; Some (HScalar n)
  | Li [At 6%Z; x; o] => do x <- as_N x; do o <- as_bool o; Some (HPoint x o)
  | Li [At 7%Z; Bs b] => Some (HID b)
  | Li [At 8%Z; o] => do l <- as_opt (as_list_of as_bytes) o; Some (HIDSlice l)
  | Li [At 9%Z; o] => do b <- as_opt as_bytes o; Some (HRID b)
  | Li [At 10%Z; o] => do b <- as_opt as_bytes o; Some (HCommitment b)
  | Li [At 11%Z; o] => do b <- as_opt as_bytes o; Some (HDecommitment b)
  | Li [At 12%Z; t] => do t <- as_N t; Some (HThreshold t)
  | Li [At 13%Z; r] => do r <- as_N r; Some (HRound r)
  | Li [At 14%Z; o] => do b <- as_opt as_bytes o; Some (HSigMsg b)
  | Li [At 15%Z; Bs d; o] => do b <- as_opt as_bytes o; Some (HWithDomain d b)
  | Li [At 16%Z; c] => do c <- as_N c; Some (HCiphertext c)
  | Li [At 17%Z; n] => do n <- as_N n; Some (HPaillierPK n)
  | Li [At 18%Z; n; s; t] => do n <- as_N n; do s <- as_N s; do t <- as_N t; Some (HPedersen n s t)
  | Li [At 19%Z; c; co] => do c <- as_bool c; do co <- as_opt (as_list_of cpoint_of_sx) co; Some (HExponent c co)
  | Li [At 20%Z; l; m] => do l <- cpoint_of_sx l; do m <- cpoint_of_sx m; Some (HElGamal l m)
  | Li [At 21%Z; c] => do c <- cpoint_of_sx c; Some (HSchCommitment c)
  | Li [At 22%Z; o] => do b <- as_opt as_bytes o; Some (HMessageHash b)
  | Li [At 23%Z; o] => do p <- as_opt public_of_sx o; Some (HCmpPublic p)
  | Li [At 24%Z; o] => do c <- as_opt config_of_sx o; Some (HCmpConfig c)
  | _ => None
  end.

(* "c19.write": (hvals) -> (stream ok)   starting from hash.New() *)
Definition op_c19_write (arg : sx) : option sx :=
  do vs <- as_list_of hval_of_sx arg;
  let '(st, ok) := write_any init_state vs in
  Some (Li [Bs st; sx_bool ok]).

(* "c19.items": (hvals) -> per value () | (dom dat wf)  -- the item WriteAny frames (domain string and payload,
   to be compared with Domain() / WriteTo directly) and whether the value is inside [wf_hval] *)
Definition op_c19_items (arg : sx) : option sx :=
  do vs <- as_list_of hval_of_sx arg;
  Some (Li (map (fun v => match enc_hval v with
                          | Some i => Li [Bs (dom i); Bs (dat i); sx_bool (wf_hval v)]
                          | None => Li [] end) vs)).

(* "c19.commit_input": (hvals decommitment) -> (input) | () *)
Definition op_c19_commit_input (arg : sx) : option sx :=
  match arg with
  | Li [vs; Bs d] =>
      do vs <- as_list_of hval_of_sx vs;
      Some (sx_opt Bs (commit_input init_state vs d))
  | _ => None end.

(* "c19.valid": (c d) -> (cvalid dvalid) *)
Definition op_c19_valid (arg : sx) : option sx :=
  match arg with
  | Li [Bs c; Bs d] => Some (Li [sx_bool (commitment_valid c); sx_bool (decommitment_valid d)])
  | _ => None end.
