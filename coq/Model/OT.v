(* OT.v -- executable model of /repo/internal/ot (random / correlated / extended / additive OT,
   gadget, encode, Multiply).  Definitions only; lemmas are in Proofs/OTProofs.v.

   Conventions (all taken from the Go code):
   * byte strings are [bytes = list N]; a bit vector stored in a byte string is indexed as in
     [bitAt]: bit i lives in byte i/8, at position i mod 8 counted from the LSB.  Hence the
     number [le_val d] has [N.testbit (le_val d) i = bit_at i d].
   * column-major matrices ([U], [T0], [T1], [Q] before transposition) are [list bytes], one entry
     per column i < OTParam, each entry batch/8 bytes; row-major matrices (after [transposeBits])
     are [list bytes], one entry per row j < batch, each OTParam/8 = 16 bytes.
   * [fieldElement] ([4]uint64, little endian) is the number [N] with limb i at bits 64i..64i+63.
   * scalars are [Z] in [0,q); every Go scalar operation reduces, so do the model operations.
   * outputs of hashes / PRGs / the RNG are INPUTS of the executable functions (the harness supplies
     the values the Go run produced), or explicit function arguments ([hV], [sc2], [H]).
   * [res]: ROk = normal return, RErr = Go returned an error, RPanic = Go would panic
     (index out of range).
   * The model follows the REPAIRED additive.go / multiply.go (list-length checks, mask loops bounded
     by the pad's own length); the previous behaviour is kept as [*_v0] for regression.  The nil
     checks of the repaired code (nil msg / Msg / UCheck / RCheck entries) have no counterpart: the
     model's values are never nil. *)
From Coq Require Import List NArith ZArith Bool Arith.
From MPS Require Import Model.Bytes.
Import ListNotations.

Inductive res (A : Type) := ROk (a : A) | RErr | RPanic.
Arguments ROk {A} a.
Arguments RErr {A}.
Arguments RPanic {A}.

Definition res_bind {A B} (r : res A) (f : A -> res B) : res B :=
  match r with ROk a => f a | RErr => RErr | RPanic => RPanic end.

(* run f over l in order; the first non-Ok outcome is the outcome of the loop *)
Fixpoint res_map {A B} (f : A -> res B) (l : list A) : res (list B) :=
  match l with
  | [] => ROk []
  | a :: l' => res_bind (f a) (fun b => res_bind (res_map f l') (fun r => ROk (b :: r)))
  end.

(* ------------------------------------------------------------------------------------------ *)
(** * 1. Bits (bits.go, transposeBits in correlated.go) *)

(* bitAt(i, data) = (data[i>>3] >> (i&7)) & 1.  Out of range reads give 0 here; [bit_at_opt]
   records the Go panic. *)
Definition bit_at (i : nat) (data : bytes) : bool :=
  N.testbit (nth (i / 8) data 0%N) (N.of_nat (i mod 8)).
Definition bit_at_opt (i : nat) (data : bytes) : option bool :=
  if (i / 8 <? length data)%nat then Some (bit_at i data) else None.

Definition bits_of_bytes (d : bytes) : list bool := map (fun i => bit_at i d) (seq 0 (8 * length d)).

(* value of a bit list, first bit = least significant *)
Fixpoint bits_val (v : list bool) : N :=
  match v with
  | [] => 0
  | b :: v' => N.b2n b + 2 * bits_val v'
  end%N.

(* MT[i][j>>3] |= bit_j << (j&7) for j < len v, starting from zero bytes: the little-endian bytes
   of the number with bit j = v_j. *)
Definition bytes_of_bits (v : list bool) : bytes := le_bytes ((length v + 7) / 8) (bits_val v).

(* mask := -bit (0x00 or 0xff);  x & mask, bytewise *)
Definition mask_byte (c : bool) : byte := if c then 255%N else 0%N.
Definition mask_bytes (c : bool) (x : bytes) : bytes := map (N.land (mask_byte c)) x.
Definition zeros (k : nat) : bytes := repeat 0%N k.

(* transposeBits(l, M): M has one entry per column-index j (Go: OTParam = 128 of them), each with at
   least l bits; the result has l rows; bit j of row i = bit i of M[j]. *)
Definition transpose_bits (l : nat) (M : list bytes) : list bytes :=
  map (fun i => bytes_of_bits (map (bit_at i) M)) (seq 0 l).

(* the Go function indexes M[j][i>>3] for every i < l: it panics when some entry is too short *)
Definition transpose_bits_opt (l : nat) (M : list bytes) : option (list bytes) :=
  if forallb (fun m => (l <=? 8 * length m)%nat) M then Some (transpose_bits l M) else None.

(* ------------------------------------------------------------------------------------------ *)
(** * 2. fieldElement (extended.go) *)

Definition mask_if (c : bool) (x : N) : N := if c then x else 0%N.

(* shl1 on [4]uint64: the top bit falls off *)
Definition shl1_256 (s : N) : N := N.land (N.shiftl s 1) (N.ones 256).

(* the loop  for i := 63; i >= 0; i-- { for j in 0,1 { mask := -((a64[j]>>i)&1);
   scratch[j+k] ^= mask & b64[k] (k in 0,1) }; if i != 0 { scratch.shl1() } }
   with n = i+1 the number of iterations still to do.  a64[j] bit i = bit 64j+i of a;
   xoring b64[k] into limb j+k for k = 0,1 = xoring (b << 64j). *)
Fixpoint clmul_loop (n : nat) (a b s : N) : N :=
  match n with
  | O => s
  | S i =>
      let s0 := N.lxor s (mask_if (N.testbit a (N.of_nat i)) b) in
      let s1 := N.lxor s0 (mask_if (N.testbit a (64 + N.of_nat i)%N) (N.shiftl b 64)) in
      let s2 := match i with O => s1 | S _ => shl1_256 s1 end in
      clmul_loop i a b s2
  end.
Definition clmul128 (a b : N) : N := clmul_loop 64 a b 0.

(* f.accumulate(a, b):  f ^= a * b  (carry-less, no reduction; a, b < 2^128) *)
Definition accumulate (f a b : N) : N := N.lxor f (clmul128 a b).

(* f.eq(a): the or of all limb differences is zero *)
Definition fe_eq (f a : N) : bool := N.eqb (N.lxor f a) 0.

(* reference carry-less product (polynomial product over GF(2)), any size *)
Fixpoint clmul_pos (a : positive) (b : N) : N :=
  match a with
  | xH => b
  | xO a' => N.double (clmul_pos a' b)
  | xI a' => N.lxor b (N.double (clmul_pos a' b))
  end.
Definition clmul (a b : N) : N := match a with N0 => 0%N | Npos p => clmul_pos p b end.

(* byte-level interface: [16]byte arguments, fieldElement as 32 little-endian bytes *)
Definition fe_of_bytes (b : bytes) : N := le_val b.
Definition fe_to_bytes (f : N) : bytes := le_bytes 32 f.
Definition accumulate_bytes (f : N) (a b : bytes) : N := accumulate f (le_val a) (le_val b).

(* ------------------------------------------------------------------------------------------ *)
(** * 3. Random OT (random.go): the part after the group computation.
   rand0 = H(b*A), rand1 = H(b*A - b*B) on the sender side, randChoice = H(a*B) on the receiver side;
   the group identity that makes randChoice = rand_choice is proved over an abstract group in
   Proofs/OTProofs.v.  [H] is the keyed BLAKE3 of the instance, truncated to OTBytes. *)

Definition rot_select (c : bool) (r0 r1 : bytes) : bytes := if c then r1 else r0.

Section RandomOT.
  Variable H : bytes -> bytes.

  Record rot_sender_state := { rs_rand0 : bytes; rs_rand1 : bytes;
                               rs_dec0 : bytes; rs_dec1 : bytes; rs_hdec0 : bytes }.

  (* RandomOTSender.Round1 after rand0, rand1: returns state and Challenge *)
  Definition rot_send_round1 (rand0 rand1 : bytes) : rot_sender_state * bytes :=
    let d0 := H rand0 in
    let d1 := H rand1 in
    let hd0 := H d0 in
    ({| rs_rand0 := rand0; rs_rand1 := rand1; rs_dec0 := d0; rs_dec1 := d1; rs_hdec0 := hd0 |},
     xor_bytes (H d1) hd0).

  (* RandomOTReceiver.Round2: Response and hh_randChoice *)
  Definition rot_recv_round2 (c : bool) (rand_choice challenge : bytes) : bytes * bytes :=
    let hh := H (H rand_choice) in
    (xor_bytes hh (mask_bytes c challenge), hh).

  (* RandomOTSender.Round2: None = error "invalid response" *)
  Definition rot_send_round2 (st : rot_sender_state) (response : bytes)
    : option ((bytes * bytes) * (bytes * bytes)) :=
    if bytes_eqb response (rs_hdec0 st)
    then Some ((rs_dec0 st, rs_dec1 st), (rs_rand0 st, rs_rand1 st)) else None.

  (* RandomOTReceiver.Round3: None = error "incorrect decommitment" *)
  Definition rot_recv_round3 (c : bool) (rand_choice challenge hh dec0 dec1 : bytes) : option bytes :=
    let h0 := H dec0 in
    let h1 := H dec1 in
    if negb (bytes_eqb challenge (xor_bytes h0 h1)) then None
    else if negb (bytes_eqb (xor_bytes h0 (mask_bytes c (xor_bytes h0 h1))) hh) then None
    else Some rand_choice.
End RandomOT.

(* ------------------------------------------------------------------------------------------ *)
(** * 4. Correlated OT (correlated.go) *)

(* setup: K_Delta[i] is the output of random OT number i with choice bit Delta_i *)
Definition corre_setup_KDelta (delta : bytes) (K0 K1 : list bytes) : list bytes :=
  map (fun i => rot_select (bit_at i delta) (nth i K0 []) (nth i K1 [])) (seq 0 (length K0)).

(* CorreOTReceive.  T0, T1: PRG expansions of K_0[i], K_1[i] to len(choices) bytes (inputs).
   Returns the message U (columns) and the rows of T. *)
Definition corre_recv_U (T0 T1 : list bytes) (choices : bytes) : list bytes :=
  map (fun i => xor_bytes (xor_bytes (nth i T0 []) (nth i T1 [])) choices) (seq 0 (length T0)).
Definition corre_recv (T0 T1 : list bytes) (choices : bytes) : list bytes * list bytes :=
  (corre_recv_U T0 T1 choices, transpose_bits (8 * length choices) T0).

(* CorreOTSend.  TD: PRG expansions of K_Delta[i] to batch>>3 bytes (input).
   Q[i] = TD[i] ^ (mask(Delta_i) & U[i]); result = rows of Q.
   RErr: a column of U has the wrong length.  RPanic: batch is not a multiple of 8 (transposeBits
   then reads one byte past the columns). *)
Definition corre_send_cols (delta : bytes) (TD U : list bytes) : list bytes :=
  map (fun i => xor_bytes (nth i TD []) (mask_bytes (bit_at i delta) (nth i U []))) (seq 0 (length TD)).
Definition corre_send (delta : bytes) (TD U : list bytes) (batch : nat) : res (list bytes) :=
  if negb (forallb (fun u => (length u =? batch / 8)%nat) U) then RErr
  else match transpose_bits_opt batch (corre_send_cols delta TD U) with
       | Some Q => ROk Q
       | None => RPanic
       end.

(* the defining relation, row by row: Q^j = T^j xor c_j * Delta *)
Fixpoint corre_check_from (j : nat) (delta choices : bytes) (Trows Qrows : list bytes) : bool :=
  match Trows, Qrows with
  | [], [] => true
  | t :: Trows', qr :: Qrows' =>
      bytes_eqb qr (xor_bytes t (mask_bytes (bit_at j choices) delta))
      && corre_check_from (S j) delta choices Trows' Qrows'
  | _, _ => false
  end.
Definition corre_check (delta choices : bytes) (Trows Qrows : list bytes) : bool :=
  corre_check_from 0 delta choices Trows Qrows.

(* ------------------------------------------------------------------------------------------ *)
(** * 5. Extended OT (extended.go) *)

(* X ^= mask(bit i of extraChoices) & chi[i] *)
Fixpoint ext_X_from (i : nat) (extra : bytes) (chi : list bytes) (X : bytes) : bytes :=
  match chi with
  | [] => X
  | ch :: rest => ext_X_from (S i) extra rest (xor_bytes X (mask_bytes (bit_at i extra) ch))
  end.
Definition ext_X (k8 : nat) (extra : bytes) (chi : list bytes) : bytes := ext_X_from 0 extra chi (zeros k8).

(* f.accumulate(rows[i], chi[i]) for i < min(len) *)
Fixpoint ext_acc (rows chi : list bytes) (f : N) : N :=
  match rows, chi with
  | r :: rows', ch :: chi' => ext_acc rows' chi' (accumulate_bytes f r ch)
  | _, _ => f
  end.

(* ExtendedOTReceive.  extra = choices ++ (OTParam+StatParam)/8 random bytes; chi = the per-row
   weights read from the transcript hash (inputs).  Returns (U, X, T) and the rows of T. *)
Definition ext_recv (T0 T1 : list bytes) (extra : bytes) (chi : list bytes)
  : (list bytes * bytes * N) * list bytes :=
  let '(U, Trows) := corre_recv T0 T1 extra in
  ((U, ext_X (length T0 / 8) extra chi, ext_acc Trows chi 0), Trows).

(* the sender's check: sum_i Q_i*chi_i + X*Delta == T *)
Definition ext_send_check (delta : bytes) (Qrows chi : list bytes) (X : bytes) (T : N) : bool :=
  fe_eq (accumulate_bytes (ext_acc Qrows chi 0) X delta) T.

(* ExtendedOTSend up to the hashing: rows of Q, or error *)
Definition ext_send (delta : bytes) (TD U : list bytes) (chi : list bytes) (X : bytes) (T : N)
  (inflated : nat) : res (list bytes) :=
  res_bind (corre_send delta TD U inflated) (fun Qrows =>
    if ext_send_check delta Qrows chi X T then ROk Qrows else RErr).

Section ExtendedOutputs.
  (* hV ctr row = BLAKE3(ctr || row) truncated to OTBytes *)
  Variable hV : bytes -> bytes -> bytes.
  Definition ctr_bytes (i : nat) : bytes := be32 (N.of_nat i).
  Definition ext_send_V (delta : bytes) (Qrows : list bytes) (batch : nat) : list (bytes * bytes) :=
    map (fun i => let qr := nth i Qrows [] in
                  (hV (ctr_bytes i) qr, hV (ctr_bytes i) (xor_bytes qr delta))) (seq 0 batch).
  Definition ext_recv_V (Trows : list bytes) (batch : nat) : list bytes :=
    map (fun i => hV (ctr_bytes i) (nth i Trows [])) (seq 0 batch).
End ExtendedOutputs.

(* ------------------------------------------------------------------------------------------ *)
(** * 6. Scalars *)

Definition secp256k1_q : Z := 0xFFFFFFFFFFFFFFFFFFFFFFFFFFFFFFFEBAAEDCE6AF48A03BBFD25E8CD0364141%Z.

Definition zadd (q a b : Z) : Z := ((a + b) mod q)%Z.
Definition zsub (q a b : Z) : Z := ((a - b) mod q)%Z.
Definition zneg (q a : Z) : Z := ((- a) mod q)%Z.
Definition zmul (q a b : Z) : Z := ((a * b) mod q)%Z.
Definition b2z (b : bool) : Z := if b then 1%Z else 0%Z.

(* MarshalBinary: nb big-endian bytes.  UnmarshalBinary: exactly nb bytes, value < q. *)
Definition scalar_marshal (nb : nat) (x : Z) : bytes := be_bytes nb (Z.to_N x).
Definition scalar_unmarshal (q : Z) (nb : nat) (b : bytes) : option Z :=
  if (length b =? nb)%nat
  then let v := Z.of_N (be_val b) in if (v <? q)%Z then Some v else None
  else None.

(* ------------------------------------------------------------------------------------------ *)
(** * 7. Additive OT (additive.go) *)

Section AdditiveOT.
  Variable q : Z.
  Variable nb : nat.                 (* bytes of a marshalled scalar *)
  (* the two scalars sampled from the BLAKE3 XOF keyed by a pad V *)
  Variable sc2 : bytes -> Z * Z.

  (* AdditiveOTSender.Round1, one index: (CombinedPads[i], result[i]) *)
  Definition additive_send_one (alpha : Z * Z) (v : bytes * bytes) : (bytes * bytes) * (Z * Z) :=
    let '(s0, s1) := sc2 (fst v) in
    let '(p0, p1) := sc2 (snd v) in
    let c0 := zadd q (zsub q p0 s0) (fst alpha) in
    let c1 := zadd q (zsub q p1 s1) (snd alpha) in
    ((scalar_marshal nb c0, scalar_marshal nb c1), (s0, s1)).
  Definition additive_send (alpha : Z * Z) (V : list (bytes * bytes))
    : list (bytes * bytes) * list (Z * Z) :=
    let r := map (additive_send_one alpha) V in (map fst r, map snd r).

  (* AdditiveOTReceiver.Round2 (repaired code, /repo commit "fix: AdditiveOT receiver masks each pad
     over its own length ..."):
        if msg == nil || len(msg.CombinedPads) != batchSize { return error }
        for j := 0; j < len(msg.CombinedPads[i][w]); j++ { msg.CombinedPads[i][w][j] &= mask }
     every byte of pad i is masked; a pad of the wrong length then fails in UnmarshalBinary. *)
  Definition masked_pad (c : bool) (pad : bytes) : bytes := mask_bytes c pad.

  Definition additive_recv_one (choices : bytes) (VC : list bytes) (CP : list (bytes * bytes))
    (i : nat) : res (Z * Z) :=
    let c := bit_at i choices in
    let '(v0, v1) := sc2 (nth i VC []) in
    let cp := nth i CP ([], []) in
    match scalar_unmarshal q nb (masked_pad c (fst cp)) with
    | None => RErr
    | Some c0 =>
        match scalar_unmarshal q nb (masked_pad c (snd cp)) with
        | None => RErr
        | Some c1 => ROk (zadd q (zneg q v0) c0, zadd q (zneg q v1) c1)
        end
    end.
  Definition additive_recv (choices : bytes) (VC : list bytes) (CP : list (bytes * bytes))
    : res (list (Z * Z)) :=
    if negb (length CP =? 8 * length choices)%nat then RErr
    else res_map (additive_recv_one choices VC CP) (seq 0 (8 * length choices)).

  (* does the receiver accept the message?  (independent of the pads V and of sc2) *)
  Definition pad_decodes (c : bool) (pad : bytes) : bool :=
    match scalar_unmarshal q nb (masked_pad c pad) with Some _ => true | None => false end.
  Definition pads_ok_at (choices : bytes) (CP : list (bytes * bytes)) (i : nat) : bool :=
    let cp := nth i CP ([], []) in
    pad_decodes (bit_at i choices) (fst cp) && pad_decodes (bit_at i choices) (snd cp).
  Definition additive_msg_ok (choices : bytes) (CP : list (bytes * bytes)) : bool :=
    (length CP =? 8 * length choices)%nat
    && forallb (pads_ok_at choices CP) (seq 0 (8 * length choices)).

  (* ---- the code BEFORE the repair (regression only).  The masking loops were
        for j := 0; j < len(msg.CombinedPads[j][w]); j++ { msg.CombinedPads[i][w][j] &= mask }
     i.e. the bound was read from entry j, not entry i.  [mask_stop lens 0] is the first j with
     j >= len(CombinedPads[j][w]) (None: j ran past the end of CombinedPads, index panic). *)
  Fixpoint mask_stop (lens : list nat) (j : nat) : option nat :=
    match lens with
    | [] => None
    | l :: rest => if (j <? l)%nat then mask_stop rest (S j) else Some j
    end.
  Definition masked_pad_v0 (lens : list nat) (c : bool) (pad : bytes) : res bytes :=
    match mask_stop lens 0 with
    | None => RPanic
    | Some J => if (J <=? length pad)%nat
                then ROk (mask_bytes c (firstn J pad) ++ skipn J pad)
                else RPanic
    end.
  Definition additive_recv_one_v0 (choices : bytes) (VC : list bytes) (CP : list (bytes * bytes))
    (i : nat) : res (Z * Z) :=
    let c := bit_at i choices in
    let '(v0, v1) := sc2 (nth i VC []) in
    if (length CP <=? i)%nat then RPanic else
    let cp := nth i CP ([], []) in
    res_bind (masked_pad_v0 (map (fun p => length (fst p)) CP) c (fst cp)) (fun m0 =>
    res_bind (masked_pad_v0 (map (fun p => length (snd p)) CP) c (snd cp)) (fun m1 =>
    match scalar_unmarshal q nb m0 with
    | None => RErr
    | Some c0 =>
        match scalar_unmarshal q nb m1 with
        | None => RErr
        | Some c1 => ROk (zadd q (zneg q v0) c0, zadd q (zneg q v1) c1)
        end
    end)).
  Definition additive_recv_v0 (choices : bytes) (VC : list bytes) (CP : list (bytes * bytes))
    : res (list (Z * Z)) :=
    res_map (additive_recv_one_v0 choices VC CP) (seq 0 (8 * length choices)).

  (* send[j] + recv[j] = c_j * alpha, both components *)
  Fixpoint additive_check_from (j : nat) (alpha : Z * Z) (choices : bytes)
    (send recv : list (Z * Z)) : bool :=
    match send, recv with
    | [], [] => true
    | s :: send', r :: recv' =>
        let c := b2z (bit_at j choices) in
        (zadd q (fst s) (fst r) =? zmul q c (fst alpha))%Z
        && (zadd q (snd s) (snd r) =? zmul q c (snd alpha))%Z
        && additive_check_from (S j) alpha choices send' recv'
    | _, _ => false
    end.
End AdditiveOT.

(* one-component checker used by the harness op: send[j] + recv[j] = c_j * alpha (mod q) *)
Fixpoint additive_check1 (q alpha : Z) (choices : list bool) (send recv : list Z) : bool :=
  match choices, send, recv with
  | [], [], [] => true
  | c :: choices', s :: send', r :: recv' =>
      (zadd q s r =? zmul q (b2z c) alpha)%Z && additive_check1 q alpha choices' send' recv'
  | _, _, _ => false
  end.

(* ------------------------------------------------------------------------------------------ *)
(** * 8. Gadget, encode, Multiply (multiply.go) *)

(* k successive values acc, 2acc, 4acc, ... (out[..] = acc; acc.Add(acc)) *)
Fixpoint doublings (k : nat) (q acc : Z) : list Z * Z :=
  match k with
  | O => ([], acc)
  | S k' => let '(l, a) := doublings k' q (zadd q acc acc) in (acc :: l, a)
  end.
(* for i := nbytes-1 .. 0 { for j < 8 { out[8i+j] = acc; acc += acc } }:
   the group written first (i = nbytes-1) ends up last *)
Fixpoint gadget_loop (n : nat) (q acc : Z) (out : list Z) : list Z :=
  match n with
  | O => out
  | S n' => let '(grp, acc') := doublings 8 q acc in gadget_loop n' q acc' (grp ++ out)
  end.
Definition gadget_pows (q : Z) (nb : nat) : list Z := gadget_loop nb q (1 mod q)%Z [].
(* number of noise entries: 8 * ((ScalarBits + 2*StatParam + 7) / 8) *)
Definition gadget_noise_len (scalar_bits : nat) : nat := 8 * ((scalar_bits + 160 + 7) / 8).
(* makeGadget; noise = the scalars sampled from the forked hash (input) *)
Definition make_gadget (q : Z) (nb : nat) (noise : list Z) : list Z := gadget_pows q nb ++ noise.

(* encode(beta, noise) with gamma = the random bytes drawn (input):
   acc = beta - sum_i gamma_i * noise_i; data = marshal(acc) ++ gamma *)
Fixpoint encode_acc (q : Z) (i : nat) (gamma : bytes) (noise : list Z) (acc : Z) : Z :=
  match noise with
  | [] => acc
  | n :: rest => encode_acc q (S i) gamma rest (zsub q acc (zmul q (b2z (bit_at i gamma)) n))
  end.
Definition encode (q : Z) (nb : nat) (beta : Z) (noise : list Z) (gamma : bytes) : bytes :=
  scalar_marshal nb (encode_acc q 0 gamma noise beta) ++ gamma.
(* gamma has len(noise)/8 bytes; the loop indexes gamma[i>>3] for i < len(noise) *)
Definition encode_opt (q : Z) (nb : nat) (beta : Z) (noise : list Z) (gamma : bytes) : res bytes :=
  if negb (length gamma =? length noise / 8)%nat then RErr   (* not a possible Go state *)
  else if (8 * length gamma <? length noise)%nat then RPanic
  else ROk (encode q nb beta noise gamma).

(* sum_i bit_i(choices) * g_i, reduced at every step *)
Fixpoint dot_from (q : Z) (i : nat) (choices : bytes) (g : list Z) (acc : Z) : Z :=
  match g with
  | [] => acc
  | gi :: g' => dot_from q (S i) choices g' (zadd q acc (zmul q (b2z (bit_at i choices)) gi))
  end.
Definition gadget_dot (q : Z) (g : list Z) (choices : bytes) : Z := dot_from q 0 choices g 0.

(* share = sum_i result[i][0] * gadget[i] *)
Fixpoint share_from (q : Z) (result : list (Z * Z)) (gadget : list Z) (acc : Z) : Z :=
  match result, gadget with
  | r :: result', g :: gadget' => share_from q result' gadget' (zadd q acc (zmul q (fst r) g))
  | _, _ => acc
  end.
Definition mult_share (q : Z) (result : list (Z * Z)) (gadget : list Z) : res Z :=
  if (length gadget <? length result)%nat then RPanic else ROk (share_from q result gadget 0).

(* MultiplySender.Round1 after the additive OT: (RCheck, UCheck, share) *)
Definition mult_lin (q chi0 chi1 : Z) (p : Z * Z) : Z :=
  zadd q (zadd q 0 (zmul q (fst p) chi0)) (zmul q (snd p) chi1).
Definition mult_send (q : Z) (alpha2 : Z * Z) (chi0 chi1 : Z) (result : list (Z * Z)) (gadget : list Z)
  : res (list Z * Z * Z) :=
  res_bind (mult_share q result gadget) (fun share =>
    ROk (map (mult_lin q chi0 chi1) result, mult_lin q chi0 chi1 alpha2, share)).

(* MultiplyReceiver.Round2 after the additive OT: the integrity check, then the share *)
Fixpoint mult_recv_check_from (q chi0 chi1 : Z) (i : nat) (choices : bytes)
  (result : list (Z * Z)) (rcheck : list Z) (ucheck : Z) : res unit :=
  match result with
  | [] => ROk tt
  | r :: result' =>
      match rcheck with
      | [] => RPanic
      | rc :: rcheck' =>
          let left := zadd q (zmul q (fst r) chi0) (zmul q (snd r) chi1) in
          let right := zsub q (zmul q (b2z (bit_at i choices)) ucheck) rc in
          if (left =? right)%Z
          then mult_recv_check_from q chi0 chi1 (S i) choices result' rcheck' ucheck
          else RErr
      end
  end.
(* repaired code: "if len(msg.RCheck) != len(result) { return error }" precedes the loop *)
Definition mult_recv_check (q chi0 chi1 : Z) (choices : bytes) (result : list (Z * Z))
  (rcheck : list Z) (ucheck : Z) : res unit :=
  if negb (length rcheck =? length result)%nat then RErr
  else mult_recv_check_from q chi0 chi1 0 choices result rcheck ucheck.
Definition mult_recv (q chi0 chi1 : Z) (choices : bytes) (result : list (Z * Z))
  (rcheck : list Z) (ucheck : Z) (gadget : list Z) : res Z :=
  res_bind (mult_recv_check q chi0 chi1 choices result rcheck ucheck) (fun _ =>
    mult_share q result gadget).
(* before the repair (regression only): no length check, RCheck[i] indexed directly *)
Definition mult_recv_v0 (q chi0 chi1 : Z) (choices : bytes) (result : list (Z * Z))
  (rcheck : list Z) (ucheck : Z) (gadget : list Z) : res Z :=
  res_bind (mult_recv_check_from q chi0 chi1 0 choices result rcheck ucheck) (fun _ =>
    mult_share q result gadget).

(* MultiplyReceiver.Round2 as a whole, on an arbitrary sender message (CP, rcheck, ucheck):
   VC = the receiver's extended-OT pads, gadget / choices = its own state *)
Definition mult_recv_round2 (q : Z) (nb : nat) (sc2 : bytes -> Z * Z) (chi0 chi1 : Z)
  (choices : bytes) (VC : list bytes) (gadget : list Z)
  (CP : list (bytes * bytes)) (rcheck : list Z) (ucheck : Z) : res Z :=
  res_bind (additive_recv q nb sc2 choices VC CP) (fun rres =>
    mult_recv q chi0 chi1 choices rres rcheck ucheck gadget).

Definition mult_check (q alpha beta share_s share_r : Z) : bool :=
  (zadd q share_s share_r =? zmul q alpha beta)%Z.

(* ------------------------------------------------------------------------------------------ *)
(** * 9. The whole multiplication, honest parties, all random/hash values as inputs.
   Used for end-to-end statements and for small executable examples. *)
Section MultiplyRun.
  Variable q : Z.
  Variable nb : nat.
  Variable sc2 : bytes -> Z * Z.
  Variable hV : bytes -> bytes -> bytes.

  Record mult_inputs := {
    mi_alpha : Z; mi_alphahat : Z; mi_beta : Z;
    mi_noise : list Z; mi_gamma : bytes;           (* gadget noise, encode randomness *)
    mi_delta : bytes; mi_K0 : list bytes; mi_K1 : list bytes;   (* correlated OT setup *)
    mi_pad : bytes;                                (* the receiver's extra random choices *)
    mi_chi : list bytes;                           (* extended OT check weights *)
    mi_chi0 : Z; mi_chi1 : Z                       (* multiplication check weights *)
  }.

  Variable prg : bytes -> nat -> bytes.            (* keyed BLAKE3 XOF: seed, length *)

  Definition mult_run (x : mult_inputs) : res (Z * Z) :=
    let gadget := make_gadget q nb (mi_noise x) in
    let choices := encode q nb (mi_beta x) (mi_noise x) (mi_gamma x) in
    let batch := (8 * length choices)%nat in
    let extra := choices ++ mi_pad x in
    let nbytes := length extra in
    let T0 := map (fun k => prg k nbytes) (mi_K0 x) in
    let T1 := map (fun k => prg k nbytes) (mi_K1 x) in
    let TD := map (fun k => prg k nbytes) (corre_setup_KDelta (mi_delta x) (mi_K0 x) (mi_K1 x)) in
    let '((U, X, T), Trows) := ext_recv T0 T1 extra (mi_chi x) in
    res_bind (ext_send (mi_delta x) TD U (mi_chi x) X T (8 * nbytes)) (fun Qrows =>
    let V := ext_send_V hV (mi_delta x) Qrows (length gadget) in
    let VC := ext_recv_V hV Trows batch in
    let '(CP, sres) := additive_send q nb sc2 (mi_alpha x, mi_alphahat x) V in
    res_bind (mult_send q (mi_alpha x, mi_alphahat x) (mi_chi0 x) (mi_chi1 x) sres gadget)
      (fun '(rcheck, ucheck, share_s) =>
    res_bind (additive_recv q nb sc2 choices VC CP) (fun rres =>
    res_bind (mult_recv q (mi_chi0 x) (mi_chi1 x) choices rres rcheck ucheck gadget) (fun share_r =>
    ROk (share_s, share_r))))).
End MultiplyRun.
