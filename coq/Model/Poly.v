(* Poly.v -- polynomials over Z_q, Lagrange coefficients, identifier -> scalar: executable model of
   /repo/pkg/math/polynomial/{polynomial,exponent,lagrange}.go and party.ID.Scalar.
   Executable definitions only.  Every function takes the modulus q explicitly; scalars are
   canonical representatives in [0,q) (what curve.Scalar holds), inputs are reduced on entry. *)
From Coq Require Import List ZArith Bool.
From MPS Require Import Model.Bytes.
Import ListNotations.
Open Scope Z_scope.

(* ---- scalar arithmetic (curve.Scalar: Add, Mul, Negate, Sub, Invert) ---- *)
Definition fadd (q a b : Z) : Z := (a + b) mod q.
Definition fmul (q a b : Z) : Z := (a * b) mod q.
Definition fsub (q a b : Z) : Z := (a - b) mod q.
Definition fneg (q a : Z) : Z := (- a) mod q.

(* square-and-multiply, MSB first, structural on the exponent *)
Fixpoint powmod_pos (q b : Z) (e : positive) : Z :=
  match e with
  | xH => b mod q
  | xO e' => let r := powmod_pos q b e' in (r * r) mod q
  | xI e' => let r := powmod_pos q b e' in ((r * r) mod q * b) mod q
  end.
Definition powmod (q b e : Z) : Z :=
  match e with
  | Z0 => 1 mod q
  | Zpos p => powmod_pos q b p
  | Zneg _ => 0
  end.

(* Scalar.Invert: the inverse modulo the prime group order; Invert(0) = 0
   (secp256k1: big.Int.ModInverse returns nil and leaves the receiver 0).  Fermat: a^(q-2). *)
Definition modinv (q a : Z) : Z :=
  if (a mod q =? 0) then 0 else powmod q a (q - 2).
Definition fdiv (q a b : Z) : Z := fmul q a (modinv q b).

(* ---- Polynomial: coefficient list, constant first ---- *)
Definition poly := list Z.

(* the loop of Polynomial.Evaluate:  result = 0; for i = len-1 .. 0: result = result*x + a_i *)
Definition horner (q : Z) (f : poly) (x : Z) : Z :=
  fold_right (fun a acc => fadd q (fmul q acc x) a) 0 f.

(* Polynomial.Evaluate panics ("attempt to leak secret") when the index is the zero scalar:
   None models the panic. *)
Definition eval (q : Z) (f : poly) (x : Z) : option Z :=
  if (x mod q =? 0) then None else Some (horner q f (x mod q)).

Definition poly_constant (q : Z) (f : poly) : Z := hd 0 f mod q.
(* Degree() = uint32(len) - 1 *)
Definition poly_degree (f : poly) : Z := Z.of_nat (length f) - 1.

(* coefficient-wise sum of polynomials (not in the Go code as such: the sum of the dealt
   polynomials, used to state what the summed sub-shares are evaluations of) *)
Fixpoint padd (q : Z) (f g : poly) : poly :=
  match f, g with
  | [], _ => map (fun b => b mod q) g
  | _, [] => map (fun a => a mod q) f
  | a :: f', b :: g' => fadd q a b :: padd q f' g'
  end.
Definition psum (q : Z) (fs : list poly) : poly := fold_right (padd q) [] fs.

(* ---- Lagrange coefficients at 0, as lagrange.go computes them ----
   numerator   = 1 * x_0 * ... * x_k                      (getScalarsAndNumerator)
   denominator = 1 * prod_i (if i == j then x_j else x_i - x_j)     (lagrange)
   l_j         = denominator.Invert() * numerator *)
Definition lag_num (q : Z) (xs : list Z) : Z := fold_left (fmul q) xs (1 mod q).
Definition lag_den (q : Z) (xs : list Z) (xj : Z) : Z :=
  fold_left (fun den xi => fmul q den (if (xi =? xj) then xj else fsub q xi xj)) xs (1 mod q).
(* value-keyed version: the interpolation domain given by its scalars; agrees with the code whenever
   the scalars of distinct ids are distinct (the code keys on ids, see lagrange_ids below) *)
Definition lagrange_coef (q : Z) (xs : list Z) (xj : Z) : Z :=
  let xs := map (fun x => x mod q) xs in
  let xj := xj mod q in
  fmul q (modinv q (lag_den q xs xj)) (lag_num q xs).
Definition lagrange_all (q : Z) (xs : list Z) : list Z := map (lagrange_coef q xs) xs.

(* sum_j l_j * y_j : what PublicPoint / reconstruction computes (in the exponent G = Z_q below) *)
Fixpoint dot (q : Z) (ls ys : list Z) : Z :=
  match ls, ys with
  | l :: ls', y :: ys' => fadd q (fmul q l y) (dot q ls' ys')
  | _, _ => 0
  end.
Definition interpolate0 (q : Z) (xs ys : list Z) : Z := dot q (lagrange_all q xs) ys.

(* ---- party.ID.Scalar: big-endian integer of the id's bytes, reduced mod q ---- *)
Definition id_scalar (q : Z) (b : bytes) : Z := Z.of_N (be_val b) mod q.

(* id-keyed version, exactly the map-based code of LagrangeFor:
   - scalars : map id -> scalar built from the domain (duplicate ids collapse),
   - numerator multiplies the scalar of EVERY listed id (duplicates included),
   - denominator ranges over the map (each distinct id once; i == j compares IDs, not scalars),
   - j not in the domain: xJ is a nil interface and tmp.Set(xJ) panics -> None. *)
Fixpoint mem_id (i : bytes) (l : list bytes) : bool :=
  match l with [] => false | a :: l' => bytes_eqb a i || mem_id i l' end.
Fixpoint dedup_ids (l : list bytes) : list bytes :=
  match l with
  | [] => []
  | a :: l' => let r := dedup_ids l' in if mem_id a r then r else a :: r
  end.
Definition lagrange_ids (q : Z) (ids : list bytes) (j : bytes) : option Z :=
  if mem_id j ids then
    let xj := id_scalar q j in
    let num := lag_num q (map (id_scalar q) ids) in
    let den := fold_left (fun den i => fmul q den (if bytes_eqb i j then xj else fsub q (id_scalar q i) xj))
                         (dedup_ids ids) (1 mod q) in
    Some (fmul q (modinv q den) num)
  else None.

(* ---- Exponent: polynomial "in the exponent".  Executable stand-in group: G := (Z_q, +), g := 1,
   so a "point" is its discrete logarithm; Act x P = x*P, Add = +, identity = 0. ---- *)
Record exponent := mkExp { is_constant : bool; ecoefs : list Z }.

(* NewPolynomialExponent: IsConstant = (a_0 == 0); the constant coefficient is dropped iff IsConstant *)
Definition exp_of_poly (q : Z) (f : poly) : exponent :=
  match f with
  | [] => mkExp false []          (* unreachable in Go: NewPolynomial always makes degree+1 >= 1 coefficients *)
  | a0 :: r =>
      if (a0 mod q =? 0) then mkExp true (map (fun a => a mod q) r)
      else mkExp false (map (fun a => a mod q) f)
  end.

(* Exponent.Evaluate: Horner in the group, then one more Act(x) if IsConstant.  (No x = 0 guard here.) *)
Definition exp_eval (q : Z) (e : exponent) (x : Z) : Z :=
  let x := x mod q in
  let r := fold_right (fun A acc => fadd q (fmul q x acc) A) 0 (ecoefs e) in
  if is_constant e then fmul q x r else r.

(* evaluateClassic (used in tests only): powers of x *)
Definition exp_eval_classic (q : Z) (e : exponent) (x : Z) : Z :=
  let x := x mod q in
  let xp0 := if is_constant e then fmul q (1 mod q) x else 1 mod q in
  fst (fold_left (fun '(res, xp) A => (fadd q res (fmul q xp A), fmul q xp x)) (ecoefs e) (0, xp0)).

Definition exp_degree (e : exponent) : Z :=
  if is_constant e then Z.of_nat (length (ecoefs e)) else Z.of_nat (length (ecoefs e)) - 1.

(* Constant(): identity if IsConstant, else coefficients[0] (index panic on an empty list: None) *)
Definition exp_constant (e : exponent) : option Z :=
  if is_constant e then Some 0 else
  match ecoefs e with [] => None | a :: _ => Some a end.

(* add: error unless same length and same IsConstant *)
Fixpoint zip_add (q : Z) (a b : list Z) : list Z :=
  match a, b with
  | x :: a', y :: b' => fadd q x y :: zip_add q a' b'
  | _, _ => []
  end.
Definition exp_add (q : Z) (p e : exponent) : option exponent :=
  if negb (Nat.eqb (length (ecoefs p)) (length (ecoefs e))) then None
  else if negb (Bool.eqb (is_constant p) (is_constant e)) then None
  else Some (mkExp (is_constant p) (zip_add q (ecoefs p) (ecoefs e))).
(* Sum: copy of the first, then add the others in order; polynomials[0] on an empty slice panics: None *)
Definition exp_sum (q : Z) (es : list exponent) : option exponent :=
  match es with
  | [] => None
  | e0 :: rest =>
      fold_left (fun acc e => match acc with Some p => exp_add q p e | None => None end) rest (Some e0)
  end.

(* ---- keygen / refresh / derive algebra on concrete data (used by Examples and by the harness) ---- *)
(* the share of the party with scalar x: previous share + sum_j f_j(x)   (cmp round4, frost round3) *)
Definition share_of (q : Z) (prev : Z) (fs : list poly) (x : Z) : Z :=
  fold_left (fun acc f => fadd q acc (horner q f (x mod q))) fs (prev mod q).
(* table entry of the party with scalar x: previous entry + (Sum_j F_j)(x); None if Sum fails *)
Definition table_of (q : Z) (prev : Z) (es : list exponent) (x : Z) : option Z :=
  match exp_sum q es with
  | Some e => Some (fadd q (exp_eval q e x) prev)
  | None => None
  end.
(* chain key: EmptyRID() xor-ed with every contribution in party order *)
Definition chain_key (cks : list bytes) : bytes :=
  fold_left xor_bytes cks (repeat 0%N 32).
