(* Dispatch.v -- op table: the single entry point used by the extracted driver and by cases.v *)
From Coq Require Import String.
From Coq Require Import List NArith ZArith Bool.
From MPS Require Import Model.Bytes Model.Sx Model.Framing Model.DispatchC19 Model.DispatchSession Model.DispatchHandler Model.DispatchPaillier Model.DispatchPoly Model.DispatchPool Model.DispatchOT Model.DispatchRef Model.DispatchCbor Model.DispatchNonce Model.DispatchZK Model.DispatchTwoParty Model.DispatchSystem.
Import ListNotations.

Definition op_table : list (bytes * (sx -> option sx)) :=
  [ (str "c19.write"%string, op_c19_write);
    (str "c19.commit_input"%string, op_c19_commit_input);
    (str "c19.valid"%string, op_c19_valid);
    (str "c19.items"%string, op_c19_items)
  ] ++ session_ops ++ handler_ops ++ paillier_ops ++ poly_ops ++ pool_ops ++ ot_ops ++ ref_ops ++ cbor_ops ++ nonce_ops ++ zk_ops ++ twoparty_ops ++ system_ops.

Fixpoint lookup (name : bytes) (t : list (bytes * (sx -> option sx))) : option (sx -> option sx) :=
  match t with
  | [] => None
  | (n, f) :: t' => if bytes_eqb n name then Some f else lookup name t'
  end.

Definition mps_dispatch (name : bytes) (arg : sx) : sx :=
  match lookup name op_table with
  | None => sx_err 1
  | Some f => match f arg with Some r => r | None => sx_err 2 end
  end.

(* used by cases.v: list of (op, arg, expected) -> indices that disagree *)
Fixpoint sx_eqb (a b : sx) : bool :=
  match a, b with
  | At x, At y => (x =? y)%Z
  | Bs x, Bs y => bytes_eqb x y
  | Li x, Li y =>
      (fix go (x y : list sx) : bool :=
         match x, y with
         | [], [] => true
         | a :: x', b :: y' => sx_eqb a b && go x' y'
         | _, _ => false end) x y
  | _, _ => false
  end.

Fixpoint mismatches_from (i : nat) (cases : list (bytes * sx * sx)) : list nat :=
  match cases with
  | [] => []
  | (op, arg, expect) :: rest =>
      if sx_eqb (mps_dispatch op arg) expect then mismatches_from (S i) rest
      else i :: mismatches_from (S i) rest
  end.
Definition mismatches := mismatches_from 0.
