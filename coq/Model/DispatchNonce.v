(* DispatchNonce.v -- ops exposing the nonce-input model (Model/Nonce.v) to the harness (C11).
   Byte strings Bs, numbers At, booleans At 0/1, options Li [] / Li [v]. *)
From Coq Require Import String.
From Coq Require Import List NArith ZArith Bool.
From MPS Require Import Model.Bytes Model.Sx Model.Framing Model.Nonce.
Import ListNotations.

(* "nonce.frost_input": (share digest msg rnd) -> () if a fixed length is violated
                                                | ((kdf_context key_material keyed_hash_stream)) *)
Definition op_nonce_frost_input (arg : sx) : option sx :=
  match arg with
  | Li [s; Bs digest; Bs msg; Bs rnd] =>
      do s <- as_N s;
      Some (sx_opt (fun p : bytes * bytes => Li [Bs frost_kdf_context; Bs (fst p); Bs (snd p)])
                   (frost_nonce_input_checked s digest msg rnd))
  | _ => None end.

(* "nonce.bip340_input": (d even_y aux_hash pk msg) -> () if d is not a valid key or a length is wrong
                                                     | ((t data)),  data = t || pk || msg *)
Definition op_nonce_bip340_input (arg : sx) : option sx :=
  match arg with
  | Li [d; ev; Bs ah; Bs pk; Bs msg] =>
      do d <- as_N d; do ev <- as_bool ev;
      Some (sx_opt (fun p : bytes * bytes => Li [Bs (fst p); Bs (snd p)])
                   (bip340_nonce_input_checked d ev ah pk msg))
  | _ => None end.

(* "nonce.bip340_counter_aux": i -> the 32-byte aux value of the i-th nil-reader call *)
Definition op_nonce_bip340_counter_aux (arg : sx) : option sx :=
  do i <- as_N arg; Some (Bs (bip340_nth_counter_aux i)).

(* "nonce.tagged_input": (tagdigest data) -> tagdigest || tagdigest || data  (what SHA-256 absorbs) *)
Definition op_nonce_tagged_input (arg : sx) : option sx :=
  match arg with
  | Li [Bs td; Bs data] => Some (Bs (td ++ td ++ data))
  | _ => None end.

Definition nonce_ops : list (bytes * (sx -> option sx)) :=
  [ (str "nonce.frost_input"%string, op_nonce_frost_input);
    (str "nonce.bip340_input"%string, op_nonce_bip340_input);
    (str "nonce.bip340_counter_aux"%string, op_nonce_bip340_counter_aux);
    (str "nonce.tagged_input"%string, op_nonce_tagged_input) ].
