(* Sha.v -- SHA-256, SHA-512 (FIPS 180-4) and HMAC (RFC 2104 / FIPS 198-1) over byte lists.
   Reference side of the standards properties (C14, C16); written from the standards, it shares
   nothing with the Go code under test.  Words are [N] with explicit reduction [mod 2^w].
   Executable definitions only. *)
From Coq Require Import List NArith ZArith Bool.
From Coq Require String Ascii.
From MPS Require Import Model.Bytes.
Import ListNotations.
Open Scope N_scope.

(* ASCII string literal -> bytes *)
Definition bytes_of_string (s : String.string) : bytes :=
  map Ascii.N_of_ascii (String.list_ascii_of_string s).

(* split a list into consecutive pieces of k elements (the last may be shorter); fuel = length *)
Fixpoint chunks_fuel {A} (fuel : nat) (k : nat) (l : list A) : list (list A) :=
  match fuel with
  | O => []
  | S f => match l with
           | [] => []
           | _ => firstn k l :: chunks_fuel f k (skipn k l)
           end
  end.
Definition chunks {A} (k : nat) (l : list A) : list (list A) := chunks_fuel (length l) k l.

Fixpoint zeros (k : nat) : bytes := match k with O => [] | S k' => 0 :: zeros k' end.

Section Sha2.
  (* the parameters in which SHA-256 and SHA-512 differ *)
  Variable wb : N.                       (* word size in bits: 32 / 64 *)
  Variable wbytes : nat.                 (* word size in bytes: 4 / 8 *)
  Variable rounds : nat.                 (* 64 / 80 *)
  Variables BS0a BS0b BS0c : N.          (* Sigma0 : three rotations *)
  Variables BS1a BS1b BS1c : N.          (* Sigma1 : three rotations *)
  Variables ss0a ss0b ss0c : N.          (* sigma0 : rot rot shr *)
  Variables ss1a ss1b ss1c : N.          (* sigma1 : rot rot shr *)
  Variable K : list N.                   (* round constants *)
  Variable H0 : list N.                  (* initial hash value (8 words) *)

  Definition wmod : N := N.shiftl 1 wb.   (* 2^wb *)
  Definition wadd (a b : N) : N := (a + b) mod wmod.
  (* rotate right by n (0 < n < wb) a word x < 2^wb: the two parts occupy disjoint bit positions, so their
     bitwise OR is their sum; likewise the complement of a word is (2^wb - 1) - x.  (Arithmetic forms are
     used because they stay fast after extraction to Zarith.) *)
  Definition rotr (n x : N) : N := N.shiftr x n + (N.shiftl x (wb - n)) mod wmod.
  Definition wnot (x : N) : N := wmod - 1 - x.

  Definition Ch (x y z : N) : N := N.lxor (N.land x y) (N.land (wnot x) z).
  Definition Maj (x y z : N) : N := N.lxor (N.lxor (N.land x y) (N.land x z)) (N.land y z).
  Definition BSig0 (x : N) : N := N.lxor (N.lxor (rotr BS0a x) (rotr BS0b x)) (rotr BS0c x).
  Definition BSig1 (x : N) : N := N.lxor (N.lxor (rotr BS1a x) (rotr BS1b x)) (rotr BS1c x).
  Definition ssig0 (x : N) : N := N.lxor (N.lxor (rotr ss0a x) (rotr ss0b x)) (N.shiftr x ss0c).
  Definition ssig1 (x : N) : N := N.lxor (N.lxor (rotr ss1a x) (rotr ss1b x)) (N.shiftr x ss1c).

  (* message schedule.  [win] = W[t-16] .. W[t-1];  W[t] = s1(W[t-2]) + W[t-7] + s0(W[t-15]) + W[t-16] *)
  Definition next_w (win : list N) : N :=
    wadd (wadd (ssig1 (nth 14 win 0)) (nth 9 win 0)) (wadd (ssig0 (nth 1 win 0)) (nth 0 win 0)).
  Fixpoint schedule (n : nat) (win : list N) : list N :=
    match n with
    | O => []
    | S n' => match win with
              | [] => []
              | w0 :: rest => w0 :: schedule n' (rest ++ [next_w win])
              end
    end.

  Definition st8 := (N * N * N * N * N * N * N * N)%type.

  Definition round_step (s : st8) (wk : N * N) : st8 :=
    let '(a, b, c, d, e, f, g, h) := s in
    let '(w, k) := wk in
    let T1 := wadd (wadd (wadd h (BSig1 e)) (wadd (Ch e f g) k)) w in
    let T2 := wadd (BSig0 a) (Maj a b c) in
    (wadd T1 T2, a, b, c, wadd d T1, e, f, g).

  Definition st_of_list (l : list N) : st8 :=
    (nth 0 l 0, nth 1 l 0, nth 2 l 0, nth 3 l 0, nth 4 l 0, nth 5 l 0, nth 6 l 0, nth 7 l 0).
  Definition list_of_st (s : st8) : list N :=
    let '(a, b, c, d, e, f, g, h) := s in [a; b; c; d; e; f; g; h].

  Fixpoint zip_add (a b : list N) : list N :=
    match a, b with
    | x :: a', y :: b' => wadd x y :: zip_add a' b'
    | _, _ => []
    end.

  (* one block (16 words' worth of bytes) into the chaining value *)
  Definition compress (h : list N) (block : bytes) : list N :=
    let w16 := map be_val (chunks wbytes block) in
    let W := schedule rounds w16 in
    let s := fold_left round_step (combine W K) (st_of_list h) in
    zip_add h (list_of_st s).

  Definition block_bytes : nat := (16 * wbytes)%nat.
  Definition len_bytes : nat := (2 * wbytes)%nat.

  (* padding: 0x80, zeros, bit length on 2 words, to a multiple of the block size *)
  Definition pad (msg : bytes) : bytes :=
    let l := N.of_nat (length msg) in
    let bb := N.of_nat block_bytes in
    let used := (l + 1 + N.of_nat len_bytes) mod bb in
    let z := (bb - used) mod bb in
    msg ++ [128] ++ zeros (N.to_nat z) ++ be_bytes len_bytes (8 * l).

  Definition sha2_words (msg : bytes) : list N :=
    fold_left compress (chunks block_bytes (pad msg)) H0.

  Definition digest_of_words (ws : list N) : bytes := concat (map (be_bytes wbytes) ws).

  Definition sha2 (msg : bytes) : bytes := digest_of_words (sha2_words msg).
End Sha2.

Definition K256 : list N :=
 [ 0x428a2f98; 0x71374491; 0xb5c0fbcf; 0xe9b5dba5; 0x3956c25b; 0x59f111f1; 0x923f82a4; 0xab1c5ed5;
   0xd807aa98; 0x12835b01; 0x243185be; 0x550c7dc3; 0x72be5d74; 0x80deb1fe; 0x9bdc06a7; 0xc19bf174;
   0xe49b69c1; 0xefbe4786; 0x0fc19dc6; 0x240ca1cc; 0x2de92c6f; 0x4a7484aa; 0x5cb0a9dc; 0x76f988da;
   0x983e5152; 0xa831c66d; 0xb00327c8; 0xbf597fc7; 0xc6e00bf3; 0xd5a79147; 0x06ca6351; 0x14292967;
   0x27b70a85; 0x2e1b2138; 0x4d2c6dfc; 0x53380d13; 0x650a7354; 0x766a0abb; 0x81c2c92e; 0x92722c85;
   0xa2bfe8a1; 0xa81a664b; 0xc24b8b70; 0xc76c51a3; 0xd192e819; 0xd6990624; 0xf40e3585; 0x106aa070;
   0x19a4c116; 0x1e376c08; 0x2748774c; 0x34b0bcb5; 0x391c0cb3; 0x4ed8aa4a; 0x5b9cca4f; 0x682e6ff3;
   0x748f82ee; 0x78a5636f; 0x84c87814; 0x8cc70208; 0x90befffa; 0xa4506ceb; 0xbef9a3f7; 0xc67178f2 ].

Definition H256 : list N :=
 [ 0x6a09e667; 0xbb67ae85; 0x3c6ef372; 0xa54ff53a; 0x510e527f; 0x9b05688c; 0x1f83d9ab; 0x5be0cd19 ].

Definition K512 : list N :=
 [ 0x428a2f98d728ae22; 0x7137449123ef65cd; 0xb5c0fbcfec4d3b2f; 0xe9b5dba58189dbbc;
   0x3956c25bf348b538; 0x59f111f1b605d019; 0x923f82a4af194f9b; 0xab1c5ed5da6d8118;
   0xd807aa98a3030242; 0x12835b0145706fbe; 0x243185be4ee4b28c; 0x550c7dc3d5ffb4e2;
   0x72be5d74f27b896f; 0x80deb1fe3b1696b1; 0x9bdc06a725c71235; 0xc19bf174cf692694;
   0xe49b69c19ef14ad2; 0xefbe4786384f25e3; 0x0fc19dc68b8cd5b5; 0x240ca1cc77ac9c65;
   0x2de92c6f592b0275; 0x4a7484aa6ea6e483; 0x5cb0a9dcbd41fbd4; 0x76f988da831153b5;
   0x983e5152ee66dfab; 0xa831c66d2db43210; 0xb00327c898fb213f; 0xbf597fc7beef0ee4;
   0xc6e00bf33da88fc2; 0xd5a79147930aa725; 0x06ca6351e003826f; 0x142929670a0e6e70;
   0x27b70a8546d22ffc; 0x2e1b21385c26c926; 0x4d2c6dfc5ac42aed; 0x53380d139d95b3df;
   0x650a73548baf63de; 0x766a0abb3c77b2a8; 0x81c2c92e47edaee6; 0x92722c851482353b;
   0xa2bfe8a14cf10364; 0xa81a664bbc423001; 0xc24b8b70d0f89791; 0xc76c51a30654be30;
   0xd192e819d6ef5218; 0xd69906245565a910; 0xf40e35855771202a; 0x106aa07032bbd1b8;
   0x19a4c116b8d2d0c8; 0x1e376c085141ab53; 0x2748774cdf8eeb99; 0x34b0bcb5e19b48a8;
   0x391c0cb3c5c95a63; 0x4ed8aa4ae3418acb; 0x5b9cca4f7763e373; 0x682e6ff3d6b2b8a3;
   0x748f82ee5defb2fc; 0x78a5636f43172f60; 0x84c87814a1f0ab72; 0x8cc702081a6439ec;
   0x90befffa23631e28; 0xa4506cebde82bde9; 0xbef9a3f7b2c67915; 0xc67178f2e372532b;
   0xca273eceea26619c; 0xd186b8c721c0c207; 0xeada7dd6cde0eb1e; 0xf57d4f7fee6ed178;
   0x06f067aa72176fba; 0x0a637dc5a2c898a6; 0x113f9804bef90dae; 0x1b710b35131c471b;
   0x28db77f523047d84; 0x32caab7b40c72493; 0x3c9ebe0a15c9bebc; 0x431d67c49c100d4c;
   0x4cc5d4becb3e42b6; 0x597f299cfc657e2a; 0x5fcb6fab3ad6faec; 0x6c44198c4a475817 ].

Definition H512 : list N :=
 [ 0x6a09e667f3bcc908; 0xbb67ae8584caa73b; 0x3c6ef372fe94f82b; 0xa54ff53a5f1d36f1;
   0x510e527fade682d1; 0x9b05688c2b3e6c1f; 0x1f83d9abfb41bd6b; 0x5be0cd19137e2179 ].

(* FIPS 180-4 section 4.1.2 / 4.1.3: rotation and shift amounts *)
Definition sha256 : bytes -> bytes :=
  sha2 32 4 64  2 13 22  6 11 25  7 18 3  17 19 10  K256 H256.
Definition sha512 : bytes -> bytes :=
  sha2 64 8 80  28 34 39  14 18 41  1 8 7  19 61 6  K512 H512.

(* HMAC (RFC 2104): H((K' xor opad) || H((K' xor ipad) || text)), K' = key (hashed first when longer than a
   block) padded with zeros to the block size B *)
Definition hmac (H : bytes -> bytes) (B : nat) (key msg : bytes) : bytes :=
  let k0 := if Nat.ltb B (length key) then H key else key in
  let k := k0 ++ zeros (B - length k0) in
  let ipad := map (fun b => N.lxor b 0x36) k in
  let opad := map (fun b => N.lxor b 0x5c) k in
  H (opad ++ H (ipad ++ msg)).

Definition hmac_sha256 : bytes -> bytes -> bytes := hmac sha256 64.
Definition hmac_sha512 : bytes -> bytes -> bytes := hmac sha512 128.
