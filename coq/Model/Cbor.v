(* Cbor.v -- M10: the codecs behind "stored key material" (C15, C05).
   * the CBOR subset that fxamacker/cbor v2.4.0 EMITS with default options (definite lengths, shortest-form
     heads; uint / negint / bytes / text / array / map / bool / null) with [encode] and a fuelled [decode];
   * protocol.Message.MarshalBinary / UnmarshalBinary (pkg/protocol/message.go), as written;
   * polynomial.Exponent.MarshalBinary / UnmarshalBinary (pkg/math/polynomial/exponent.go), as written;
   * Secp256k1Scalar / Secp256k1Point binary codecs (pkg/math/curve/secp256k1.go), as written;
   * cmp config.UnmarshalBinary (protocols/cmp/config/marshal.go) on the emitted tree shape: field decoding,
     the validation steps in the order of the Go code, and next to it the validity rules the property names;
   * FROST keygen.Config restore (plain cbor.Unmarshal, no validation).
   Executable, total definitions only.  Byte strings are lists of N; all functions below are meant for
   well-formed bytes (every element < 256), which is what the harness passes. *)
From Coq Require Import String Ascii.
From Coq Require Import List NArith ZArith Bool Znumtheory.

From MPS Require Import Model.Bytes Model.Secp256k1.
Import ListNotations.
Open Scope N_scope.

Definition tstr (s : String.string) : bytes := map Ascii.N_of_ascii (String.list_ascii_of_string s).

(* ------------------------------------------------------------------------------------------------ *)
(* 1. data items                                                                                     *)

Inductive cbor :=
| CUint (n : N)                       (* major 0 *)
| CNeg (n : N)                        (* major 1: the integer -1-n *)
| CBytes (b : bytes)                  (* major 2 *)
| CText (b : bytes)                   (* major 3: UTF-8 bytes *)
| CArr (l : list cbor)                (* major 4 *)
| CMap (l : list (cbor * cbor))       (* major 5: pairs in the order written *)
| CBool (b : bool)                    (* 0xf4 / 0xf5 *)
| CNull.                              (* 0xf6 *)

Definition two64 : N := 18446744073709551616.

(* initial byte + shortest-form argument *)
Definition head (major n : N) : bytes :=
  if n <? 24 then [major * 32 + n]
  else if n <? 256 then (major * 32 + 24) :: be_bytes 1 n
  else if n <? 65536 then (major * 32 + 25) :: be_bytes 2 n
  else if n <? 4294967296 then (major * 32 + 26) :: be_bytes 4 n
  else (major * 32 + 27) :: be_bytes 8 n.

Definition lenN {A} (l : list A) : N := N.of_nat (length l).

Fixpoint encode (v : cbor) : bytes :=
  match v with
  | CUint n => head 0 n
  | CNeg n => head 1 n
  | CBytes b => head 2 (lenN b) ++ b
  | CText b => head 3 (lenN b) ++ b
  | CArr l => head 4 (lenN l) ++ flat_map encode l
  | CMap l => head 5 (lenN l) ++ flat_map (fun kv => encode (fst kv) ++ encode (snd kv)) l
  | CBool b => [if b then 245 else 244]
  | CNull => [246]
  end.

(* Go's utf8.Valid (the decoder refuses text strings that are not valid UTF-8; the encoder does not look) *)
Definition cont (b : N) : bool := (128 <=? b) && (b <=? 191).
Fixpoint utf8_valid (l : bytes) : bool :=
  match l with
  | [] => true
  | b0 :: r =>
      if b0 <? 128 then utf8_valid r
      else if (194 <=? b0) && (b0 <=? 223) then
        match r with b1 :: r1 => cont b1 && utf8_valid r1 | _ => false end
      else if (224 <=? b0) && (b0 <=? 239) then
        match r with
        | b1 :: b2 :: r2 =>
            (if b0 =? 224 then (160 <=? b1) && (b1 <=? 191)
             else if b0 =? 237 then (128 <=? b1) && (b1 <=? 159)
             else cont b1) && cont b2 && utf8_valid r2
        | _ => false end
      else if (240 <=? b0) && (b0 <=? 244) then
        match r with
        | b1 :: b2 :: b3 :: r3 =>
            (if b0 =? 240 then (144 <=? b1) && (b1 <=? 191)
             else if b0 =? 244 then (128 <=? b1) && (b1 <=? 143)
             else cont b1) && cont b2 && cont b3 && utf8_valid r3
        | _ => false end
      else false
  end.

(* well-formed = inside the emitted subset: arguments and lengths below 2^64 *)
Fixpoint wf_cbor (v : cbor) : bool :=
  match v with
  | CUint n | CNeg n => n <? two64
  | CBytes b => lenN b <? two64
  | CText b => lenN b <? two64
  | CArr l => (lenN l <? two64) && forallb wf_cbor l
  | CMap l => (lenN l <? two64) && forallb (fun kv => wf_cbor (fst kv) && wf_cbor (snd kv)) l
  | CBool _ | CNull => true
  end.

(* ---- decoding ---- *)

(* the argument that follows an initial byte with additional information [info]; any of the five widths is
   accepted (like fxamacker's decoder, which does not insist on the shortest form); 28..31 (reserved,
   indefinite length) are refused *)
Definition arg_width (info : N) : option nat :=
  if info <? 24 then Some 0%nat
  else if info =? 24 then Some 1%nat
  else if info =? 25 then Some 2%nat
  else if info =? 26 then Some 4%nat
  else if info =? 27 then Some 8%nat
  else None.

Definition read_arg (info : N) (bs : bytes) : option (N * bytes) :=
  match arg_width info with
  | None => None
  | Some O => Some (info, bs)
  | Some k => if (length bs <? k)%nat then None else Some (be_val (firstn k bs), skipn k bs)
  end.

(* (major, info, argument, rest) *)
Definition read_head (bs : bytes) : option (N * N * N * bytes) :=
  match bs with
  | [] => None
  | b :: r =>
      let major := b / 32 in
      let info := b mod 32 in
      match read_arg info r with
      | None => None
      | Some (a, r') => Some (major, info, a, r')
      end
  end.

Definition take (n : N) (bs : bytes) : option (bytes * bytes) :=
  if n <=? lenN bs then Some (firstn (N.to_nat n) bs, skipn (N.to_nat n) bs) else None.

Section Seq.
  Variable dec : bytes -> option (cbor * bytes).
  Fixpoint decode_seq (n : nat) (bs : bytes) : option (list cbor * bytes) :=
    match n with
    | O => Some ([], bs)
    | S n' =>
        match dec bs with
        | None => None
        | Some (v, r) =>
            match decode_seq n' r with
            | None => None
            | Some (vs, r') => Some (v :: vs, r')
            end
        end
    end.
  Fixpoint decode_pairs (n : nat) (bs : bytes) : option (list (cbor * cbor) * bytes) :=
    match n with
    | O => Some ([], bs)
    | S n' =>
        match dec bs with
        | None => None
        | Some (k, r) =>
            match dec r with
            | None => None
            | Some (v, r1) =>
                match decode_pairs n' r1 with
                | None => None
                | Some (kvs, r') => Some ((k, v) :: kvs, r')
                end
            end
        end
    end.
End Seq.

(* one data item from the front of [bs]; fuel bounds the nesting depth.  Element counts larger than the
   number of remaining bytes are refused before anything is allocated or iterated. *)
Fixpoint decode_fuel (fuel : nat) (bs : bytes) : option (cbor * bytes) :=
  match fuel with
  | O => None
  | S f =>
      match read_head bs with
      | None => None
      | Some (major, info, a, r) =>
          if major =? 0 then Some (CUint a, r)
          else if major =? 1 then Some (CNeg a, r)
          else if major =? 2 then
            match take a r with Some (b, r') => Some (CBytes b, r') | None => None end
          else if major =? 3 then
            match take a r with Some (b, r') => Some (CText b, r') | None => None end
          else if major =? 4 then
            if a <=? lenN r then
              match decode_seq (decode_fuel f) (N.to_nat a) r with
              | Some (l, r') => Some (CArr l, r') | None => None end
            else None
          else if major =? 5 then
            if a <=? lenN r then
              match decode_pairs (decode_fuel f) (N.to_nat a) r with
              | Some (l, r') => Some (CMap l, r') | None => None end
            else None
          else if major =? 7 then
            if info =? 20 then Some (CBool false, r)
            else if info =? 21 then Some (CBool true, r)
            else if info =? 22 then Some (CNull, r)
            else None
          else None      (* major 6 (tags), bytes >= 256 *)
      end
  end.

Definition decode (bs : bytes) : option (cbor * bytes) := decode_fuel (length bs) bs.

(* fxamacker validates UTF-8 when a text string is decoded into a Go string or an interface{} -- not while it
   skips over a value (cbor.RawMessage).  [decode] is the structural pass; decoding into interface{} is
   [decode_any]; struct fields of type string check in [fld_text] below. *)
Fixpoint text_valid (v : cbor) : bool :=
  match v with
  | CText b => utf8_valid b
  | CArr l => forallb text_valid l
  | CMap l => forallb (fun kv => text_valid (fst kv) && text_valid (snd kv)) l
  | _ => true
  end.
Definition decode_any (bs : bytes) : option (cbor * bytes) :=
  match decode bs with
  | Some (v, r) => if text_valid v then Some (v, r) else None
  | None => None
  end.

(* results of Go calls that may fail or panic *)
Inductive outcome (A : Type) :=
| Ok (a : A)
| Err (code : N)
| Panic.
Arguments Ok {A} a.
Arguments Err {A} code.
Arguments Panic {A}.

Definition is_panic {A} (o : outcome A) : bool := match o with Panic => true | _ => false end.
Definition out_opt {A} (o : outcome A) : option A := match o with Ok a => Some a | _ => None end.

(* ------------------------------------------------------------------------------------------------ *)
(* 2. protocol.Message                                                                               *)

(* nil and empty slices are different values in Go and different encodings (0xf6 / 0x40) *)
Record message := mkMessage {
  m_ssid : option bytes;
  m_from : bytes;
  m_to : bytes;
  m_protocol : bytes;
  m_round : N;
  m_data : option bytes;
  m_bcast : bool;
  m_bv : option bytes }.

Definition empty_message : message := mkMessage None [] [] [] 0 None false None.

Definition opt_bytes (o : option bytes) : cbor :=
  match o with None => CNull | Some b => CBytes b end.

Definition k_ssid := tstr "SSID"%string.
Definition k_from := tstr "From"%string.
Definition k_to := tstr "To"%string.
Definition k_protocol := tstr "Protocol"%string.
Definition k_round := tstr "RoundNumber"%string.
Definition k_data := tstr "Data"%string.
Definition k_bcast := tstr "Broadcast"%string.
Definition k_bv := tstr "BroadcastVerification"%string.

(* cbor.Marshal of marshallableMessage: a map of 8 text keys in struct-field order *)
Definition message_tree (m : message) : cbor :=
  CMap [ (CText k_ssid, opt_bytes (m_ssid m));
         (CText k_from, CText (m_from m));
         (CText k_to, CText (m_to m));
         (CText k_protocol, CText (m_protocol m));
         (CText k_round, CUint (m_round m));
         (CText k_data, opt_bytes (m_data m));
         (CText k_bcast, CBool (m_bcast m));
         (CText k_bv, opt_bytes (m_bv m)) ].

Definition message_encode (m : message) : bytes := encode (message_tree m).

(* what Go values can be: slice and string lengths below 2^64, RoundNumber a uint16; and what survives the
   decoder: From / To / Protocol valid UTF-8 (Go strings need not be) *)
Definition wf_opt (o : option bytes) : bool := match o with None => true | Some b => lenN b <? two64 end.
Definition wf_text (b : bytes) : bool := (lenN b <? two64) && utf8_valid b.
Definition wf_message (m : message) : bool :=
  wf_opt (m_ssid m) && wf_text (m_from m) && wf_text (m_to m) && wf_text (m_protocol m)
  && (m_round m <? 65536) && wf_opt (m_data m) && wf_opt (m_bv m).

Definition nonempty (b : bytes) : bool := match b with [] => false | _ => true end.
(* a message some session can have produced: it names its sender and its protocol, and its party ids are valid
   UTF-8 (round.NewSession refuses other ids) *)
Definition real_message (m : message) : bool :=
  wf_message m && nonempty (m_from m) && nonempty (m_protocol m).

(* field decoders of cbor.Unmarshal into a struct field that currently holds [old]:
   null sets a slice to nil and leaves strings, integers and booleans untouched *)
Definition fld_bytes (v : cbor) : option (option bytes) :=
  match v with CBytes b => Some (Some b) | CNull => Some None | _ => None end.
Definition fld_text (old : bytes) (v : cbor) : option bytes :=
  match v with CText b => if utf8_valid b then Some b else None | CNull => Some old | _ => None end.
Definition fld_uint16 (old : N) (v : cbor) : option N :=
  match v with CUint n => if n <? 65536 then Some n else None | CNull => Some old | _ => None end.
Definition fld_bool (old : bool) (v : cbor) : option bool :=
  match v with CBool b => Some b | CNull => Some old | _ => None end.

Local Notation "'do' x <- e ; k" := (match e with Some x => k | None => None end)
  (at level 200, x pattern, e at level 100, k at level 200, right associativity).

(* the emitted shape (8 keys, this order), each value of the field's type or null; m0 = the receiver's
   current field values (UnmarshalBinary decodes into a copy of them) *)
Definition message_of_tree (m0 : message) (t : cbor) : option message :=
  match t with
  | CNull => Some m0          (* CBOR null into a struct: no effect, no error *)
  | CMap [ (CText k1, v1); (CText k2, v2); (CText k3, v3); (CText k4, v4);
           (CText k5, v5); (CText k6, v6); (CText k7, v7); (CText k8, v8) ] =>
      if bytes_eqb k1 k_ssid && bytes_eqb k2 k_from && bytes_eqb k3 k_to && bytes_eqb k4 k_protocol
         && bytes_eqb k5 k_round && bytes_eqb k6 k_data && bytes_eqb k7 k_bcast && bytes_eqb k8 k_bv
      then
        do ssid <- fld_bytes v1;
        do from <- fld_text (m_from m0) v2;
        do to <- fld_text (m_to m0) v3;
        do proto <- fld_text (m_protocol m0) v4;
        do rnd <- fld_uint16 (m_round m0) v5;
        do data <- fld_bytes v6;
        do bc <- fld_bool (m_bcast m0) v7;
        do bv <- fld_bytes v8;
        Some (mkMessage ssid from to proto rnd data bc bv)
      else None
  | _ => None
  end.

(* cbor.Unmarshal v2.4.0 decodes the first data item and ignores whatever follows it *)
Definition message_decode (m0 : message) (bs : bytes) : option message :=
  match decode bs with
  | Some (t, _) => message_of_tree m0 t
  | None => None
  end.

(* Message.UnmarshalBinary: (receiver afterwards, error reported?).
   - the data is decoded into a FRESH struct (not into a copy of the receiver's fields);
   - a decoding error is returned (fix 3cad471); the receiver is left as it was;
   - a decoded message without sender or protocol (CBOR null, an empty map, ...) is refused. *)
Definition message_unmarshal (m0 : message) (bs : bytes) : message * bool :=
  match message_decode empty_message bs with
  | Some m => if nonempty (m_from m) && nonempty (m_protocol m) then (m, false) else (m0, true)
  | None => (m0, true)
  end.

(* between fix 3cad471 and the patch that refuses empty messages: the error was returned, but the data was decoded
   into a copy of the receiver's fields and nothing else was checked (null / {} gave an empty message, nil error) *)
Definition message_unmarshal_v1 (m0 : message) (bs : bytes) : message * bool :=
  match message_decode m0 bs with
  | Some m => (m, false)
  | None => (m0, true)
  end.

(* before the fix: "if err := cbor.Unmarshal(data, deserialized); err != nil { return nil }" *)
Definition message_unmarshal_v0 (m0 : message) (bs : bytes) : message * bool :=
  match message_decode m0 bs with
  | Some m => (m, false)
  | None => (m0, false)
  end.

(* ------------------------------------------------------------------------------------------------ *)
(* 3. scalars and points                                                                             *)

(* Secp256k1Scalar.MarshalBinary: 32 bytes big endian *)
Definition scalar_encode (s : Z) : bytes := be_bytes 32 (Z.to_N s).
(* UnmarshalBinary: exactly 32 bytes and value < q (ModNScalar.SetBytes reports overflow); zero is accepted *)
Definition scalar_decode (b : bytes) : option Z :=
  if Nat.eqb (length b) 32 && wf_bytes b && (Z.of_N (be_val b) <? secp_q)%Z
  then Some (Z.of_N (be_val b)) else None.

Definition zeros (k : nat) : bytes := repeat 0 k.

(* Secp256k1Point.MarshalBinary: never fails; the identity (Z = 0, ToAffine gives X = Y = 0) is written as
   02 00..00, which is not the encoding of any point *)
Definition point_encode (P : point) : bytes :=
  match P with
  | None => 2 :: zeros 32
  | Some (x, y) => (if Z.even y then 2 else 3) :: bytes32_of_Z x
  end.

(* Secp256k1Point.UnmarshalBinary: 33 bytes, first byte 2 or 3 (since fix 96ab1f0), x < p, x^3+7 a square;
   the ordinate is the odd root iff the first byte is 3 *)
Definition point_decode (b : bytes) : option point :=
  match b with
  | pre :: xb =>
      if negb (Nat.eqb (length xb) 32) then None
      else if negb ((pre =? 2) || (pre =? 3)) then None
      else
        match lift_x (Z_of_bytes xb) with
        | Some (Some (x, y)) => Some (Some (x, if pre =? 3 then fneg y else y))
        | _ => None
        end
  | [] => None
  end.

(* before the fix the first byte was only compared with 3: anything else meant "even" *)
Definition point_decode_v0 (b : bytes) : option point :=
  match b with
  | pre :: xb =>
      if negb (Nat.eqb (length xb) 32) then None
      else
        match lift_x (Z_of_bytes xb) with
        | Some (Some (x, y)) => Some (Some (x, if pre =? 3 then fneg y else y))
        | _ => None
        end
  | [] => None
  end.

(* ------------------------------------------------------------------------------------------------ *)
(* 4. polynomial.Exponent                                                                            *)

Definition k_isconstant := tstr "IsConstant"%string.
Definition k_coefficients := tstr "Coefficients"%string.

(* coefficients = None is a nil slice *)
Definition exponent_tree (is_const : bool) (coeffs : option (list point)) : cbor :=
  CMap [ (CText k_isconstant, CBool is_const);
         (CText k_coefficients,
          match coeffs with
          | None => CNull
          | Some l => CArr (map (fun P => CBytes (point_encode P)) l)
          end) ].

Definition coeff_count (coeffs : option (list point)) : N :=
  match coeffs with None => 0 | Some l => lenN l end.

(* MarshalBinary: 4-byte big-endian count (truncated to 32 bits), then CBOR *)
Definition exponent_encode (is_const : bool) (coeffs : option (list point)) : bytes :=
  be_bytes 4 (coeff_count coeffs) ++ encode (exponent_tree is_const coeffs).


Fixpoint decode_points (l : list cbor) : option (list point) :=
  match l with
  | [] => Some []
  | CBytes b :: l' =>
      do P <- point_decode b; do r <- decode_points l'; Some (P :: r)
  | _ => None
  end.

(* UnmarshalBinary after the length checks: the count sizes the slice of pre-made points that cbor decodes
   into: an array longer than the count fails (the extra elements are nil interfaces), a shorter one is accepted *)
Definition exponent_decode_body (size : N) (cb : bytes) : outcome (bool * list point) :=
  match decode cb with
  | Some (CMap [ (CText k1, v1); (CText k2, v2) ], _) =>
      if bytes_eqb k1 k_isconstant && bytes_eqb k2 k_coefficients then
        match fld_bool false v1 with
        | None => Err 1
        | Some c =>
            match v2 with
            | CNull => Ok (c, [])
            | CArr l =>
                if lenN l <=? size then
                  match decode_points l with Some ps => Ok (c, ps) | None => Err 1 end
                else Err 1
            | _ => Err 1
            end
        end
      else Err 2
  | Some _ => Err 2          (* outside the modelled shape *)
  | None => Err 1
  end.

(* since fix 7b3b4da: fewer than 4 bytes is an error, and so is a count larger than the input
   (every coefficient takes more than one byte) *)
Definition exponent_decode (bs : bytes) : outcome (bool * list point) :=
  if (length bs <? 4)%nat then Err 1
  else if lenN bs <? be_val (firstn 4 bs) then Err 1
  else exponent_decode_body (be_val (firstn 4 bs)) (skipn 4 bs).

(* before the fix: binary.BigEndian.Uint32(data) panics below 4 bytes; the count only sized an allocation *)
Definition exponent_decode_v0 (bs : bytes) : outcome (bool * list point) :=
  if (length bs <? 4)%nat then Panic
  else exponent_decode_body (be_val (firstn 4 bs)) (skipn 4 bs).

(* ------------------------------------------------------------------------------------------------ *)
(* 5. cmp config                                                                                     *)

Local Open Scope Z_scope.

Definition bitlen (z : Z) : Z := if z <=? 0 then 0 else Z.log2 z + 1.

(* configMarshal / publicMarshal after field decoding.  Absent-or-null pointers ( *saferith.Nat,
   *saferith.Modulus) and slices (RID) are None; scalars and points that were null keep the value the
   receiver was created with (zero scalar, identity point). *)
Record pub_m := mkPubM {
  pm_id : bytes;
  pm_ecdsa : point;
  pm_elgamal : point;
  pm_N : option Z;
  pm_S : option Z;
  pm_T : option Z }.

Record config_m := mkConfigM {
  cm_id : bytes;
  cm_threshold : Z;
  cm_ecdsa : Z;
  cm_elgamal : Z;
  cm_P : option Z;
  cm_Q : option Z;
  cm_rid : option bytes;
  cm_chain : option bytes;
  cm_public : list (outcome pub_m) }.   (* RawMessage entries: each is decoded inside the loop, when the loop reaches it *)

(* the restored Config *)
Record pub_c := mkPubC {
  pc_id : bytes;
  pc_ecdsa : point;
  pc_elgamal : point;
  pc_N : Z;
  pc_S : option Z;
  pc_T : option Z }.

Record config_c := mkConfigC {
  c_id : bytes;
  c_threshold : Z;
  c_ecdsa : Z;
  c_elgamal : Z;
  c_P : Z;
  c_Q : Z;
  c_rid : option bytes;
  c_chain : option bytes;
  c_public : list pub_c }.

Definition bits_blum_prime : Z := 1024.
Definition bits_paillier : Z := 2048.
Definition sec_bytes : nat := 32.
Definition max_uint32 : Z := 4294967295.

Section Checks.
  (* big.Int.ProbablyPrime(1) and Scalar.ActOnBase *)
  Variable prime_test : Z -> bool.
  Variable act_on_base : Z -> point.

  (* paillier.ValidatePrime: nil, bit length, p = 3 mod 4, (p-1)/2 probably prime and (since fix 8307514)
     p itself probably prime *)
  Definition validate_prime (p : option Z) : bool :=
    match p with
    | None => false
    | Some p => (bitlen p =? bits_blum_prime) && (p mod 4 =? 3) && prime_test (p / 2) && prime_test p
    end.
  (* before the fix p itself was never tested *)
  Definition validate_prime_v0 (p : option Z) : bool :=
    match p with
    | None => false
    | Some p => (bitlen p =? bits_blum_prime) && (p mod 4 =? 3) && prime_test (p / 2)
    end.

  (* paillier.ValidateN: nil, 2048 bits, odd *)
  Definition validate_N (n : option Z) : bool :=
    match n with
    | None => false
    | Some n => (bitlen n =? bits_paillier) && Z.odd n
    end.

  (* arith.IsValidNatModN for one value: < N (CmpMod) and a unit modulo N (0 is not a unit) *)
  Definition valid_mod_N (n x : Z) : bool := (0 <=? x) && (x <? n) && (Z.gcd x n =? 1).

  (* the validation function of pkg/pedersen (nil fields, range and unit test, S <> T) *)
  Definition validate_pedersen (n s t : option Z) : bool :=
    match n, s, t with
    | Some n, Some s, Some t => valid_mod_N n s && valid_mod_N n t && negb (s =? t)
    | _, _, _ => false
    end.

  Definition is_identity (P : point) : bool := match P with None => true | Some _ => false end.

  (* config.ValidThreshold *)
  Definition valid_threshold (t n : Z) : bool :=
    negb ((t <? 0) || (max_uint32 <? t)) && negb ((n <=? 0) || (n - 1 <? t)).

  Definition has_id (id : bytes) (ps : list pub_c) : bool := existsb (fun q => bytes_eqb (pc_id q) id) ps.

  (* types.RID.Validate (used for RID and ChainKey): 32 bytes, not all zero *)
  Definition rid_validate (r : option bytes) : bool :=
    match r with
    | Some b => Nat.eqb (length b) sec_bytes && negb (all_zero b)
    | None => false
    end.

  (* the loop over cm.Public (since fix 3216d4d); NN = P*Q; error codes: 5 entry does not decode, 6 duplicate,
     17 nil S / T / N ("missing fields"), 7 ValidateN, 8 Pedersen (now also for the own entry), 9 identity point.
     A panic while an entry is decoded is turned into an error by the deferred recover (code 18, see below). *)
  Fixpoint process_publics (id : bytes) (ecdsa elgamal NN : Z) (l : list (outcome pub_m)) (acc : list pub_c)
    : outcome (list pub_c) :=
    match l with
    | [] => Ok acc
    | Panic :: _ => Panic
    | Err c :: _ => Err (if (c =? 100)%N then 100%N else 5%N)
    | Ok p :: l' =>
        if has_id (pm_id p) acc then Err 6
        else if match pm_S p, pm_T p with Some _, Some _ => false | _, _ => true end then Err 17
        else if bytes_eqb (pm_id p) id then
          (* "handle our own key separately": points and modulus recomputed from the secrets; S, T validated *)
          if negb (validate_pedersen (Some NN) (pm_S p) (pm_T p)) then Err 8
          else
            process_publics id ecdsa elgamal NN l'
              (acc ++ [mkPubC (pm_id p) (act_on_base ecdsa) (act_on_base elgamal) NN (pm_S p) (pm_T p)])
        else
          match pm_N p with
          | None => Err 17
          | Some n =>
              if negb (validate_N (pm_N p)) then Err 7
              else if negb (validate_pedersen (pm_N p) (pm_S p) (pm_T p)) then Err 8
              else if is_identity (pm_ecdsa p) || is_identity (pm_elgamal p) then Err 9
              else
                process_publics id ecdsa elgamal NN l'
                  (acc ++ [mkPubC (pm_id p) (pm_ecdsa p) (pm_elgamal p) n (pm_S p) (pm_T p)])
          end
    end.

  (* config.UnmarshalBinary after cbor.Unmarshal of the outer struct, in the order of the Go code.
     codes: 12 nil P / Q ("missing fields"), 13 RID, 14 chain key, 2 zero secret, 3 prime P, 4 prime Q, 15 P = Q,
     16 own modulus (ValidateN), 5..9 and 17 see above, 10 threshold, 11 self missing *)
  Definition config_checks (cm : config_m) : outcome config_c :=
    match cm_P cm, cm_Q cm with
    | Some P, Some Q =>
        if negb (rid_validate (cm_rid cm)) then Err 13
        else if negb (rid_validate (cm_chain cm)) then Err 14
        else if (cm_ecdsa cm =? 0) || (cm_elgamal cm =? 0) then Err 2
        else if negb (validate_prime (cm_P cm)) then Err 3
        else if negb (validate_prime (cm_Q cm)) then Err 4
        else if P =? Q then Err 15
        else if negb (validate_N (Some (P * Q))) then Err 16
        else
          match process_publics (cm_id cm) (cm_ecdsa cm) (cm_elgamal cm) (P * Q) (cm_public cm) [] with
          | Ok ps =>
              if negb (valid_threshold (cm_threshold cm) (Z.of_nat (length ps))) then Err 10
              else if negb (has_id (cm_id cm) ps) then Err 11
              else Ok (mkConfigC (cm_id cm) (cm_threshold cm) (cm_ecdsa cm) (cm_elgamal cm) P Q
                                 (cm_rid cm) (cm_chain cm) ps)
          | Err c => Err c
          | Panic => Panic
          end
    | _, _ => Err 12
    end.

  (* ---- the code before fix 3216d4d, kept for the regression examples (Properties/C15.v, *_v0) ---- *)
  Fixpoint process_publics_v0 (id : bytes) (ecdsa elgamal NN : Z) (l : list (outcome pub_m)) (acc : list pub_c)
    : outcome (list pub_c) :=
    match l with
    | [] => Ok acc
    | Panic :: _ => Panic
    | Err c :: _ => Err (if (c =? 100)%N then 100%N else 5%N)
    | Ok p :: l' =>
        if has_id (pm_id p) acc then Err 6
        else if bytes_eqb (pm_id p) id then
          process_publics_v0 id ecdsa elgamal NN l'
            (acc ++ [mkPubC (pm_id p) (act_on_base ecdsa) (act_on_base elgamal) NN (pm_S p) (pm_T p)])
        else if negb (validate_N (pm_N p)) then Err 7
        else if negb (validate_pedersen (pm_N p) (pm_S p) (pm_T p)) then Err 8
        else if is_identity (pm_ecdsa p) || is_identity (pm_elgamal p) then Err 9
        else
          match pm_N p with
          | None => Err 7
          | Some n =>
              process_publics_v0 id ecdsa elgamal NN l'
                (acc ++ [mkPubC (pm_id p) (pm_ecdsa p) (pm_elgamal p) n (pm_S p) (pm_T p)])
          end
    end.

  Definition config_checks_v0 (cm : config_m) : outcome config_c :=
    if (cm_ecdsa cm =? 0) || (cm_elgamal cm =? 0) then Err 2
    else if negb (validate_prime_v0 (cm_P cm)) then Err 3
    else if negb (validate_prime_v0 (cm_Q cm)) then Err 4
    else
      match cm_P cm, cm_Q cm with
      | Some P, Some Q =>
          match process_publics_v0 (cm_id cm) (cm_ecdsa cm) (cm_elgamal cm) (P * Q) (cm_public cm) [] with
          | Ok ps =>
              if negb (valid_threshold (cm_threshold cm) (Z.of_nat (length ps))) then Err 10
              else if negb (has_id (cm_id cm) ps) then Err 11
              else Ok (mkConfigC (cm_id cm) (cm_threshold cm) (cm_ecdsa cm) (cm_elgamal cm) P Q
                                 (cm_rid cm) (cm_chain cm) ps)
          | Err c => Err c
          | Panic => Panic
          end
      | _, _ => Err 3
      end.
End Checks.

(* ---- field decoding of the emitted tree shape ---- *)

Definition k_id := tstr "ID"%string.
Definition k_threshold := tstr "Threshold"%string.
Definition k_ecdsa := tstr "ECDSA"%string.
Definition k_elgamal := tstr "ElGamal"%string.
Definition k_P := tstr "P"%string.
Definition k_Q := tstr "Q"%string.
Definition k_rid := tstr "RID"%string.
Definition k_chainkey := tstr "ChainKey"%string.
Definition k_public := tstr "Public"%string.
Definition k_N := tstr "N"%string.
Definition k_S := tstr "S"%string.
Definition k_T := tstr "T"%string.

(* field of INTERFACE type curve.Scalar / curve.Point pre-set to a fresh scalar / point: CBOR null makes
   fxamacker panic ("reflect.Value.Set using unaddressable value") instead of leaving the field alone *)
Definition fld_scalar (v : cbor) : outcome Z :=
  match v with
  | CBytes b => match scalar_decode b with Some s => Ok s | None => Err 1 end
  | CNull => Panic
  | _ => Err 1
  end.
Definition fld_point (v : cbor) : outcome point :=
  match v with
  | CBytes b => match point_decode b with Some P => Ok P | None => Err 1 end
  | CNull => Panic
  | _ => Err 1
  end.
(* *saferith.Nat: SetBytes of any length *)
Definition fld_nat (v : cbor) : option (option Z) :=
  match v with CBytes b => Some (Some (Z.of_N (be_val b))) | CNull => Some None | _ => None end.
(* *saferith.Modulus: UnmarshalBinary panics ("Modulus is empty") on the value zero *)
Definition fld_modulus (v : cbor) : outcome (option Z) :=
  match v with
  | CBytes b => if (be_val b =? 0)%N then Panic else Ok (Some (Z.of_N (be_val b)))
  | CNull => Ok None
  | _ => Err 1
  end.
(* Go int (64 bit) *)
Definition fld_int (old : Z) (v : cbor) : option Z :=
  match v with
  | CUint n => if (Z.of_N n <? 9223372036854775808) then Some (Z.of_N n) else None
  | CNeg n => if (Z.of_N n <? 9223372036854775808) then Some (-1 - Z.of_N n) else None
  | CNull => Some old
  | _ => None
  end.

(* one publicMarshal entry (map of 6 keys ID ECDSA ElGamal N S T); CBOR null leaves the fresh struct as is *)
Definition pub_of_tree (t : cbor) : outcome pub_m :=
  match t with
  | CNull => Ok (mkPubM [] None None None None None)
  | CMap [ (CText k1, v1); (CText k2, v2); (CText k3, v3); (CText k4, v4); (CText k5, v5); (CText k6, v6) ] =>
      if bytes_eqb k1 k_id && bytes_eqb k2 k_ecdsa && bytes_eqb k3 k_elgamal && bytes_eqb k4 k_N
         && bytes_eqb k5 k_S && bytes_eqb k6 k_T
      then
        (* a type error is remembered and decoding goes on; a panic ends everything *)
        if is_panic (fld_point v2) || is_panic (fld_point v3) || is_panic (fld_modulus v4) then Panic
        else
          match fld_text [] v1, out_opt (fld_point v2), out_opt (fld_point v3), out_opt (fld_modulus v4),
                fld_nat v5, fld_nat v6 with
          | Some id, Some X, Some Y, Some n, Some s, Some t => Ok (mkPubM id X Y n s t)
          | _, _, _, _, _, _ => Err 1
          end
      else Err 100
  | _ => Err 100      (* outside the modelled shape *)
  end.

(* the outer configMarshal (9 keys).  Public: null = nil slice.  Err 1 = a field does not decode,
   Err 100 = outside the modelled shape (no claim) *)
Definition config_of_tree (t : cbor) : outcome config_m :=
  match t with
  | CMap [ (CText k1, v1); (CText k2, v2); (CText k3, v3); (CText k4, v4); (CText k5, v5);
           (CText k6, v6); (CText k7, v7); (CText k8, v8); (CText k9, v9) ] =>
      if bytes_eqb k1 k_id && bytes_eqb k2 k_threshold && bytes_eqb k3 k_ecdsa && bytes_eqb k4 k_elgamal
         && bytes_eqb k5 k_P && bytes_eqb k6 k_Q && bytes_eqb k7 k_rid && bytes_eqb k8 k_chainkey
         && bytes_eqb k9 k_public
      then
        if is_panic (fld_scalar v3) || is_panic (fld_scalar v4) then Panic else
        match fld_text [] v1, fld_int 0 v2, out_opt (fld_scalar v3), out_opt (fld_scalar v4), fld_nat v5, fld_nat v6,
              fld_bytes v7, fld_bytes v8,
              match v9 with CArr l => Some (map pub_of_tree l) | CNull => Some [] | _ => None end with
        | Some id, Some th, Some x, Some y, Some P, Some Q, Some rid, Some ck, Some pubs =>
            Ok (mkConfigM id th x y P Q rid ck pubs)
        | _, _, _, _, _, _, _, _, _ => Err 1
        end
      else Err 100
  | CMap _ => Err 100
  | _ => Err 1
  end.

Section Unmarshal.
  Variable prime_test : Z -> bool.
  Variable act_on_base : Z -> point.

  (* config.UnmarshalBinary on the modelled shapes.  Err 1 = cbor decoding error, Err 100 = outside the
     modelled shape (no claim).  Since fix 3216d4d a deferred recover() turns every panic raised while decoding
     (null in an interface-typed field, saferith "Modulus is empty") into the error "malformed data" (Err 18),
     and a nil *configMarshal (CBOR null) is "missing fields" (Err 12): the function never panics. *)
  Definition recovered {A} (o : outcome A) : outcome A :=
    match o with Panic => Err 18 | _ => o end.

  Definition config_unmarshal (bs : bytes) : outcome config_c :=
    match decode bs with
    | None => Err 1
    | Some (CNull, _) => Err 12
    | Some (t, _) =>
        recovered
          match config_of_tree t with
          | Ok cm => config_checks prime_test act_on_base cm
          | Err c => Err c
          | Panic => Panic
          end
    end.

  (* before the fix: no recover, the nil *configMarshal was dereferenced *)
  Definition config_unmarshal_v0 (bs : bytes) : outcome config_c :=
    match decode bs with
    | None => Err 1
    | Some (CNull, _) => Panic
    | Some (t, _) =>
        match config_of_tree t with
        | Ok cm => config_checks_v0 prime_test act_on_base cm
        | Err c => Err c
        | Panic => Panic
        end
    end.
End Unmarshal.

(* ---- the validity rules named by the property (Prop level; primality is the real thing) ---- *)

Definition valid_pedersen (n : Z) (s t : option Z) : Prop :=
  exists s' t', s = Some s' /\ t = Some t' /\
    1 <= s' < n /\ 1 <= t' < n /\ Z.gcd s' n = 1 /\ Z.gcd t' n = 1 /\ s' <> t'.

Definition valid_point (P : point) : Prop := P <> None /\ on_curve P = true.

Definition valid_pub (p : pub_c) : Prop :=
  valid_point (pc_ecdsa p) /\ valid_point (pc_elgamal p) /\
  bitlen (pc_N p) = bits_paillier /\ Z.odd (pc_N p) = true /\
  valid_pedersen (pc_N p) (pc_S p) (pc_T p).

Definition valid_rid (r : option bytes) : Prop := exists b, r = Some b /\ length b = sec_bytes.
(* what Validate adds on top: the value is not all zero *)
Definition nonzero_rid (r : option bytes) : Prop := exists b, r = Some b /\ all_zero b = false.

Definition valid_config (c : config_c) : Prop :=
  0 < c_ecdsa c < secp_q /\ 0 < c_elgamal c < secp_q /\
  prime (c_P c) /\ prime (c_Q c) /\
  bitlen (c_P c) = bits_blum_prime /\ bitlen (c_Q c) = bits_blum_prime /\
  c_P c mod 4 = 3 /\ c_Q c mod 4 = 3 /\
  0 <= c_threshold c <= Z.of_nat (length (c_public c)) - 1 /\
  NoDup (map pc_id (c_public c)) /\
  In (c_id c) (map pc_id (c_public c)) /\
  Forall valid_pub (c_public c) /\
  valid_rid (c_rid c) /\ valid_rid (c_chain c).

(* ------------------------------------------------------------------------------------------------ *)
(* 6. an executable primality test for the extracted op (Miller-Rabin, fixed bases; the harness only feeds it
      cached primes, their halves and plainly composite corruptions)                                       *)

Fixpoint cb_powmod_pos (m b : Z) (e : positive) : Z :=
  match e with
  | xH => b mod m
  | xO e' => let r := cb_powmod_pos m b e' in (r * r) mod m
  | xI e' => let r := cb_powmod_pos m b e' in (((r * r) mod m) * b) mod m
  end.
Definition cb_powmod (b e m : Z) : Z :=
  match e with Z0 => 1 mod m | Zpos e' => cb_powmod_pos m (b mod m) e' | Zneg _ => 0 end.

(* n - 1 = d * 2^s with d odd *)
Fixpoint split_pow2 (p : positive) (s : nat) : positive * nat :=
  match p with xO p' => split_pow2 p' (S s) | _ => (p, s) end.

Fixpoint mr_squares (n x : Z) (s : nat) : bool :=
  match s with
  | O => false
  | S s' => let x2 := (x * x) mod n in if x2 =? n - 1 then true else mr_squares n x2 s'
  end.

Definition mr_witness_ok (n : Z) (d : positive) (s : nat) (a : Z) : bool :=
  if a mod n =? 0 then true
  else
    let x := cb_powmod a (Zpos d) n in
    (x =? 1) || (x =? n - 1) || mr_squares n x (Nat.pred s).

Definition mr_bases : list Z := [2; 3; 5; 7; 11; 13; 17; 19; 23; 29; 31; 37].

Definition mr_prime (n : Z) : bool :=
  if n <? 2 then false
  else if existsb (fun a => n =? a) mr_bases then true
  else if existsb (fun a => n mod a =? 0) mr_bases then false
  else
    match n - 1 with
    | Zpos p => let '(d, s) := split_pow2 p O in forallb (mr_witness_ok n d s) mr_bases
    | _ => false
    end.

(* ------------------------------------------------------------------------------------------------ *)
(* 7. FROST keygen.Config: restored by plain cbor.Unmarshal into EmptyConfig(group); there is no
      validation step at all.  Emitted shape: map of 6 keys; VerificationShares is a byte string holding the
      CBOR map id -> point (PointMap.MarshalBinary).                                                      *)

Record frost_config := mkFrost {
  f_id : bytes;
  f_threshold : Z;
  f_share : Z;
  f_public : point;
  f_chain : option bytes;
  f_shares : list (bytes * point) }.

Definition k_privateshare := tstr "PrivateShare"%string.
Definition k_publickey := tstr "PublicKey"%string.
Definition k_vshares := tstr "VerificationShares"%string.

Fixpoint shares_of_pairs (l : list (cbor * cbor)) : option (list (bytes * point)) :=
  match l with
  | [] => Some []
  | (CText id, CBytes b) :: l' =>
      if utf8_valid id then do P <- point_decode b; do r <- shares_of_pairs l'; Some ((id, P) :: r) else None
  | (CText id, CNull) :: l' =>        (* cbor.Unmarshal(null, point): the fresh point (identity) is left as it is *)
      if utf8_valid id then do r <- shares_of_pairs l'; Some ((id, None) :: r) else None
  | _ => None
  end.

(* Go keeps one entry per map key (the last one written) *)
Definition has_share (id : bytes) (l : list (bytes * point)) : bool :=
  existsb (fun e => bytes_eqb (fst e) id) l.
Fixpoint dedup_last (l : list (bytes * point)) : list (bytes * point) :=
  match l with
  | [] => []
  | e :: r => if has_share (fst e) r then dedup_last r else e :: dedup_last r
  end.
Definition shares_ok (l : list (bytes * point)) : bool :=
  forallb (fun e => negb (is_identity (snd e))) l.

(* PointMap.UnmarshalBinary on the content of a byte string; null = nil map, then an empty Points *)
Definition pointmap_of_bytes (b : bytes) : option (list (bytes * point)) :=
  match decode b with
  | Some (CMap l, _) => option_map dedup_last (shares_of_pairs l)
  | Some (CNull, _) => Some []
  | _ => None
  end.

Definition frost_of_tree (t : cbor) : outcome frost_config :=
  match t with
  | CNull => Ok (mkFrost [] 0 0 None None [])      (* null into the struct: nothing happens *)
  | CMap [ (CText k1, v1); (CText k2, v2); (CText k3, v3); (CText k4, v4); (CText k5, v5); (CText k6, v6) ] =>
      if bytes_eqb k1 k_id && bytes_eqb k2 k_threshold && bytes_eqb k3 k_privateshare
         && bytes_eqb k4 k_publickey && bytes_eqb k5 k_chainkey && bytes_eqb k6 k_vshares
      then
        if is_panic (fld_scalar v3) || is_panic (fld_point v4) then Panic else
        match fld_text [] v1, fld_int 0 v2, out_opt (fld_scalar v3), out_opt (fld_point v4), fld_bytes v5,
              match v6 with
              | CBytes b => pointmap_of_bytes b
              | CNull => Some []           (* the *PointMap becomes nil: "missing fields" *)
              | _ => None
              end with
        | Some id, Some th, Some x, Some Y, Some ck, Some sh => Ok (mkFrost id th x Y ck sh)
        | _, _, _, _, _, _ => Err 1
        end
      else Err 100
  | _ => Err 100
  end.

(* keygen.Config.Validate (the nil checks are covered: a nil share map is modelled as the empty one, which fails the
   threshold test just the same) *)
Definition frost_validate (c : frost_config) : bool :=
  negb (f_share c =? 0) && negb (is_identity (f_public c))
  && (0 <=? f_threshold c) && (f_threshold c <=? Z.of_nat (length (f_shares c)) - 1)
  && has_share (f_id c) (f_shares c) && shares_ok (f_shares c).

(* keygen.Config.UnmarshalCBOR: default decoding into the receiver made by EmptyConfig, under a recover, then
   Validate.  Err 1 decoding error, Err 2 invalid, Err 18 recovered panic, Err 100 outside the modelled shape *)
Definition validated {A} (valid : A -> bool) (o : outcome A) : outcome A :=
  match recovered o with
  | Ok a => if valid a then Ok a else Err 2
  | r => r
  end.

Definition frost_unmarshal (bs : bytes) : outcome frost_config :=
  match decode bs with
  | Some (t, _) => validated frost_validate (frost_of_tree t)
  | None => Err 1
  end.

(* before the patch: plain cbor.Unmarshal, no validation at all, panics reach the caller *)
Definition frost_unmarshal_v0 (bs : bytes) : outcome frost_config :=
  match decode bs with
  | Some (CNull, _) => Err 100
  | Some (t, _) => frost_of_tree t
  | None => Err 1
  end.

Definition valid_frost (c : frost_config) : Prop :=
  0 < f_share c < secp_q /\ valid_point (f_public c) /\
  0 <= f_threshold c <= Z.of_nat (length (f_shares c)) - 1 /\
  NoDup (map fst (f_shares c)) /\ In (f_id c) (map fst (f_shares c)) /\
  Forall (fun e => valid_point (snd e)) (f_shares c).

(* ------------------------------------------------------------------------------------------------ *)
(* 8. the other stored types, each restored by its validating UnmarshalCBOR (default decoding under a recover,
      then Validate)                                                                                     *)

(* ---- frost keygen.TaprootConfig: concrete pointer types (null = nil, no panic); VerificationShares is a CBOR
        map id -> point directly; PublicKey is the 32-byte x-only key ---- *)
Record taproot_config := mkTaproot {
  t_id : bytes;
  t_threshold : Z;
  t_share : option Z;
  t_public : option bytes;
  t_chain : option bytes;
  t_shares : list (bytes * point) }.

Definition fld_scalar_ptr (v : cbor) : option (option Z) :=
  match v with
  | CBytes b => match scalar_decode b with Some s => Some (Some s) | None => None end
  | CNull => Some None
  | _ => None
  end.

Definition taproot_of_tree (t : cbor) : outcome taproot_config :=
  match t with
  | CNull => Ok (mkTaproot [] 0 None None None [])
  | CMap [ (CText k1, v1); (CText k2, v2); (CText k3, v3); (CText k4, v4); (CText k5, v5); (CText k6, v6) ] =>
      if bytes_eqb k1 k_id && bytes_eqb k2 k_threshold && bytes_eqb k3 k_privateshare
         && bytes_eqb k4 k_publickey && bytes_eqb k5 k_chainkey && bytes_eqb k6 k_vshares
      then
        match fld_text [] v1, fld_int 0 v2, fld_scalar_ptr v3, fld_bytes v4, fld_bytes v5,
              match v6 with
              | CMap l => option_map dedup_last (shares_of_pairs l)
              | CNull => Some []
              | _ => None
              end with
        | Some id, Some th, Some x, Some Y, Some ck, Some sh => Ok (mkTaproot id th x Y ck sh)
        | _, _, _, _, _, _ => Err 1
        end
      else Err 100
  | _ => Err 100
  end.

(* Secp256k1.LiftX succeeds *)
Definition liftable (b : bytes) : bool :=
  match lift_x (Z_of_bytes b) with Some (Some _) => true | _ => false end.

Definition taproot_validate (c : taproot_config) : bool :=
  match t_share c, t_public c with
  | Some x, Some pk =>
      negb (x =? 0) && Nat.eqb (length pk) 32 && liftable pk
      && (0 <=? t_threshold c) && (t_threshold c <=? Z.of_nat (length (t_shares c)) - 1)
      && has_share (t_id c) (t_shares c) && shares_ok (t_shares c)
  | _, _ => false
  end.

Definition taproot_unmarshal (bs : bytes) : outcome taproot_config :=
  match decode bs with
  | Some (t, _) => validated taproot_validate (taproot_of_tree t)
  | None => Err 1
  end.

Definition valid_taproot (c : taproot_config) : Prop :=
  (exists x, t_share c = Some x /\ 0 < x < secp_q) /\
  (exists pk, t_public c = Some pk /\ length pk = 32%nat /\ liftable pk = true) /\
  0 <= t_threshold c <= Z.of_nat (length (t_shares c)) - 1 /\
  NoDup (map fst (t_shares c)) /\ In (t_id c) (map fst (t_shares c)) /\
  Forall (fun e => valid_point (snd e)) (t_shares c).

(* ---- doerner keygen.ConfigReceiver / ConfigSender: Setup is a byte string of fixed length (the explicit setup
        marshalling), 2*128*16 bytes for the receiver and 16 + 128*16 for the sender ---- *)
Record doerner_config := mkDoerner {
  d_setup : option bytes;
  d_share : Z;
  d_public : point;
  d_chain : option bytes }.

Definition k_setup := tstr "Setup"%string.
Definition k_secretshare := tstr "SecretShare"%string.
Definition k_public_d := tstr "Public"%string.

Definition setup_len_receiver : nat := 4096.
Definition setup_len_sender : nat := 2064.

Definition doerner_of_tree (setup_len : nat) (t : cbor) : outcome doerner_config :=
  match t with
  | CNull => Ok (mkDoerner None 0 None None)
  | CMap [ (CText k1, v1); (CText k2, v2); (CText k3, v3); (CText k4, v4) ] =>
      if bytes_eqb k1 k_setup && bytes_eqb k2 k_secretshare && bytes_eqb k3 k_public_d && bytes_eqb k4 k_chainkey
      then
        if is_panic (fld_scalar v2) || is_panic (fld_point v3) then Panic else
        match match v1 with
              | CBytes b => if Nat.eqb (length b) setup_len then Some (Some b) else None
              | CNull => Some None
              | _ => None
              end,
              out_opt (fld_scalar v2), out_opt (fld_point v3), fld_bytes v4 with
        | Some st, Some x, Some Y, Some ck => Ok (mkDoerner st x Y ck)
        | _, _, _, _ => Err 1
        end
      else Err 100
  | _ => Err 100
  end.

Definition chain_ok (ck : option bytes) : bool :=
  match ck with Some b => Nat.eqb (length b) sec_bytes | None => false end.

Definition doerner_validate (c : doerner_config) : bool :=
  match d_setup c with
  | Some _ => negb (d_share c =? 0) && negb (is_identity (d_public c)) && chain_ok (d_chain c)
  | None => false
  end.

Definition doerner_unmarshal (setup_len : nat) (bs : bytes) : outcome doerner_config :=
  match decode bs with
  | Some (t, _) => validated doerner_validate (doerner_of_tree setup_len t)
  | None => Err 1
  end.

Definition valid_doerner (setup_len : nat) (c : doerner_config) : Prop :=
  (exists st, d_setup c = Some st /\ length st = setup_len) /\
  0 < d_share c < secp_q /\ valid_point (d_public c) /\ valid_rid (d_chain c).

(* ---- ecdsa.Signature ---- *)
Definition k_R := tstr "R"%string.
Definition k_RBar := tstr "RBar"%string.
Definition k_KShare := tstr "KShare"%string.
Definition k_ChiShare := tstr "ChiShare"%string.

Definition signature_of_tree (t : cbor) : outcome (point * Z) :=
  match t with
  | CNull => Ok (None, 0)
  | CMap [ (CText k1, v1); (CText k2, v2) ] =>
      if bytes_eqb k1 k_R && bytes_eqb k2 k_S then
        if is_panic (fld_point v1) || is_panic (fld_scalar v2) then Panic else
        match out_opt (fld_point v1), out_opt (fld_scalar v2) with
        | Some R, Some s => Ok (R, s)
        | _, _ => Err 1
        end
      else Err 100
  | _ => Err 100
  end.

Definition signature_validate (sg : point * Z) : bool :=
  negb (is_identity (fst sg)) && negb (snd sg =? 0).

Definition signature_unmarshal (bs : bytes) : outcome (point * Z) :=
  match decode bs with
  | Some (t, _) => validated signature_validate (signature_of_tree t)
  | None => Err 1
  end.

Definition valid_signature (sg : point * Z) : Prop := valid_point (fst sg) /\ 0 < snd sg < secp_q.

(* ---- ecdsa.PreSignature ---- *)
Record presig := mkPresig {
  ps_id : option bytes;
  ps_R : point;
  ps_RBar : option (list (bytes * point));     (* None = nil *PointMap *)
  ps_S : option (list (bytes * point));
  ps_k : Z;
  ps_chi : Z }.

Definition fld_pointmap (v : cbor) : option (option (list (bytes * point))) :=
  match v with
  | CBytes b => option_map Some (pointmap_of_bytes b)
  | CNull => Some None
  | _ => None
  end.

Definition presig_of_tree (t : cbor) : outcome presig :=
  match t with
  | CNull => Ok (mkPresig None None (Some []) (Some []) 0 0)   (* the receiver made by EmptyPreSignature, untouched *)
  | CMap [ (CText k1, v1); (CText k2, v2); (CText k3, v3); (CText k4, v4); (CText k5, v5); (CText k6, v6) ] =>
      if bytes_eqb k1 k_id && bytes_eqb k2 k_R && bytes_eqb k3 k_RBar && bytes_eqb k4 k_S
         && bytes_eqb k5 k_KShare && bytes_eqb k6 k_ChiShare
      then
        if is_panic (fld_point v2) || is_panic (fld_scalar v5) || is_panic (fld_scalar v6) then Panic else
        match fld_bytes v1, out_opt (fld_point v2), fld_pointmap v3, fld_pointmap v4,
              out_opt (fld_scalar v5), out_opt (fld_scalar v6) with
        | Some id, Some R, Some rb, Some sm, Some k, Some chi => Ok (mkPresig id R rb sm k chi)
        | _, _, _, _, _, _ => Err 1
        end
      else Err 100
  | _ => Err 100
  end.

Definition find_share (id : bytes) (l : list (bytes * point)) : option point :=
  match find (fun e => bytes_eqb (fst e) id) l with Some e => Some (snd e) | None => None end.

(* PreSignature.Validate + "at least one signer" *)
Definition presig_validate (p : presig) : bool :=
  match ps_RBar p, ps_S p with
  | Some rb, Some sm =>
      Nat.eqb (length rb) (length sm)
      && forallb (fun e => negb (is_identity (snd e))
                           && match find_share (fst e) sm with
                              | Some Sj => negb (is_identity Sj)
                              | None => false end) rb
      && negb (is_identity (ps_R p))
      && match ps_id p with Some b => Nat.eqb (length b) sec_bytes && negb (all_zero b) | None => false end
      && negb (ps_chi p =? 0) && negb (ps_k p =? 0)
      && negb (Nat.eqb (length rb) 0)
  | _, _ => false
  end.

Definition presig_unmarshal (bs : bytes) : outcome presig :=
  match decode bs with
  | Some (t, _) => validated presig_validate (presig_of_tree t)
  | None => Err 1
  end.

Definition valid_presig (p : presig) : Prop :=
  exists rb sm, ps_RBar p = Some rb /\ ps_S p = Some sm /\
    length rb = length sm /\ rb <> [] /\
    (forall id Rj, In (id, Rj) rb -> valid_point Rj /\ exists Sj, find_share id sm = Some Sj /\ valid_point Sj) /\
    valid_point (ps_R p) /\ valid_rid (ps_id p) /\ nonzero_rid (ps_id p) /\
    0 < ps_k p < secp_q /\ 0 < ps_chi p < secp_q.
