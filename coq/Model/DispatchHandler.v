(* ops for the MultiHandler model: replay an event history, return the observation after each event *)
From Coq Require Import String.
From Coq Require Import List NArith ZArith Bool Arith.
From MPS Require Import Model.Bytes Model.Sx Model.Framing Model.Handler.
Import ListNotations.

Definition p2p_of_nat (k : nat) : p2p_kind := match k with O => NoP2P | S O => P2PAll | _ => P2PEach end.

(* shape: (final ((bcast p2pkind) ...))   -- entry i describes round i *)
Definition shape_of_sx (s : sx) : option shape :=
  match s with
  | Li [f; Li rounds] =>
      do f <- as_nat f;
      do rs <- map_opt (fun e => match e with
                                 | Li [b; k] => do b <- as_bool b; do k <- as_nat k; Some (b, p2p_of_nat k)
                                 | _ => None end) rounds;
      Some (mkShape f (fun r => fst (nth r rs (false, NoP2P))) (fun r => snd (nth r rs (false, NoP2P))))
  | _ => None end.

(* the panic flag of a message: 0 = the round code does not panic on it, 1 = it panics while decoding / verifying /
   storing it, 2 = it accepts it and panics in Finalize of that round *)
Definition panic_of_nat (k : nat) : option panic_at :=
  match k with O => Some NoPanic | S O => Some PanicVerify | S (S O) => Some PanicFinalize | _ => None end.

(* msg: (ssid proto from to round data bcast bv fp valid [panic]) ; to = -1 for "everyone";
   the 11th element is optional (absent = the round code does not panic on the message) *)
Definition msg_of_sx (s : sx) : option msg :=
  match s with
  | Li (ssid :: proto :: from :: At to :: rnd :: data :: bc :: bv :: fp :: valid :: rest) =>
      do ssid <- as_N ssid; do proto <- as_N proto; do from <- as_nat from; do rnd <- as_nat rnd;
      do data <- as_bool data; do bc <- as_bool bc; do bv <- as_N bv; do fp <- as_N fp; do valid <- as_bool valid;
      do pn <- match rest with
               | [] => Some NoPanic
               | [k] => do k <- as_nat k; panic_of_nat k
               | _ => None
               end;
      Some (mkMsg ssid proto from (if (to <? 0)%Z then None else Some (Z.to_nat to)) rnd data bc bv fp valid pn)
  | _ => None end.

Inductive event := EvAccept (m : msg) | EvStop | EvDrain (k : nat) | EvCanAccept (m : msg).

Definition event_of_sx (s : sx) : option event :=
  match s with
  | Li [At 0%Z; m] => do m <- msg_of_sx m; Some (EvAccept m)
  | Li [At 1%Z] => Some EvStop
  | Li [At 2%Z; k] => do k <- as_nat k; Some (EvDrain k)
  | Li [At 3%Z; m] => do m <- msg_of_sx m; Some (EvCanAccept m)
  | _ => None end.

Definition table_fun (t : list (nat * N)) (r : nat) : N :=
  match hget t r with Some d => d | None => 0%N end.

Definition sx_out (o : outmsg) : sx :=
  Li [At (match o_to o with None => (-1)%Z | Some j => Z.of_nat j end); sx_nat (o_round o); sx_bool (o_bcast o); sx_N (o_bv o)].

Definition errkind_tag (e : errkind) : Z :=
  match e with EAbortNotice => 1 | EVerify => 2 | EBroadcastHash => 3 | EFinalize => 4 | EUser => 5 | EProtoAbort => 6
             | EPanic => 7 end%Z.

Definition rt_tag (r : runtime) : Z :=
  match r with Running => 0 | Panicked w => 10 + Z.of_nat w | BlockedOnSend => 2 end%Z.

(* observation: (cur result_class (culprits) errkind (new out msgs) closes rt |qb| |qp| (hash rounds) extra) *)
Definition observe (before : nat) (s : hstate) (extra : Z) : sx :=
  Li [ sx_nat (h_cur s); sx_nat (result_class s);
       Li (match h_err s with Some (c, _) => map sx_nat c | None => [] end);
       At (match h_err s with Some (_, e) => errkind_tag e | None => 0%Z end);
       Li (map sx_out (skipn before (h_out s)));
       sx_nat (h_closes s); At (rt_tag (h_rt s));
       sx_nat (length (h_qb s)); sx_nat (length (h_qp s));
       Li (map (fun e => sx_nat (fst e)) (h_hashes s)); At extra ].

Section Run.
  Variable vh : nat -> list N -> N.
  Variable ofp : nat -> N.
  Variable fixed_stop : bool.
  Variable recovers : bool.     (* Accept defers recoverToAbort (the code as it is) / does not (before the fix) *)

  Definition apply_event (s : hstate) (e : event) : hstate * Z :=
    match e with
    | EvAccept m => ((if recovers then accept vh ofp s m else accept_v0 vh ofp s m), 0%Z)
    | EvStop => (stop fixed_stop s, 0%Z)
    | EvDrain k => (drain k s, 0%Z)
    | EvCanAccept m => (s, if can_accept s m then 1%Z else 0%Z)
    end.

  Fixpoint run_events (s : hstate) (es : list event) : list sx :=
    match es with
    | [] => []
    | e :: es' => let '(s', x) := apply_event s e in
                  observe (length (h_out s)) s' x :: run_events s' es'
    end.
End Run.

(* "hnd.run": (self n ssid proto shape ((round digest)...) ((round ownfp)...) fixed_stop (events...))
     -> (obs_after_init obs_1 ... obs_k)
   "hnd.run.v0": the same with Accept as it was before it recovered panics (regression: a message the round code
   panics on leaves runtime tag 13 instead of a clean abort) *)
Definition op_hnd_run_gen (recovers : bool) (arg : sx) : option sx :=
  match arg with
  | Li [self; n; ssid; proto; shp; Li vht; Li fpt; fx; Li evs] =>
      do self <- as_nat self; do n <- as_nat n; do ssid <- as_N ssid; do proto <- as_N proto;
      do shp <- shape_of_sx shp;
      do vht <- map_opt (fun e => match e with Li [r; d] => do r <- as_nat r; do d <- as_N d; Some (r, d) | _ => None end) vht;
      do fpt <- map_opt (fun e => match e with Li [r; d] => do r <- as_nat r; do d <- as_N d; Some (r, d) | _ => None end) fpt;
      do fx <- as_bool fx;
      do evs <- map_opt event_of_sx evs;
      let vh := fun r (_ : list N) => table_fun vht r in
      let ofp := table_fun fpt in
      let s0 := new_handler vh ofp self n ssid proto shp in
      Some (Li (observe 0 s0 0%Z :: run_events vh ofp fx recovers s0 evs))
  | _ => None end.

Definition op_hnd_run : sx -> option sx := op_hnd_run_gen true.
Definition op_hnd_run_v0 : sx -> option sx := op_hnd_run_gen false.

Definition handler_ops : list (bytes * (sx -> option sx)) :=
  [ (str "hnd.run"%string, op_hnd_run); (str "hnd.run.v0"%string, op_hnd_run_v0) ].
