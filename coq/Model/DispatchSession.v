From Coq Require Import String.
From Coq Require Import List NArith ZArith Bool.
From MPS Require Import Model.Bytes Model.Sx Model.Framing Model.DispatchC19 Model.Session.
Import ListNotations.

(* params: (sid_opt proto group_opt (ids...) self thr (aux hvals...)) *)
Definition sess_of_sx (s : sx) : option sess_params :=
  match s with
  | Li [sid; Bs proto; grp; ids; Bs self; At thr; aux] =>
      do sid <- as_opt as_bytes sid;
      do grp <- as_opt as_bytes grp;
      do ids <- as_list_of as_bytes ids;
      do aux <- as_list_of hval_of_sx aux;
      Some (mkSess sid proto grp ids self thr aux)
  | _ => None end.

(* "sess.new": params -> () on error | (stream) *)
Definition op_sess_new (arg : sx) : option sx :=
  do p <- sess_of_sx arg; Some (sx_opt Bs (new_session p)).

(* "sess.ok": params -> bool (validation only) *)
Definition op_sess_ok (arg : sx) : option sx :=
  do p <- sess_of_sx arg; Some (sx_bool (new_session_ok p)).

(* "sess.hash_for_id": (stream id) -> stream' *)
Definition op_sess_hash_for_id (arg : sx) : option sx :=
  match arg with Li [Bs st; Bs id] => Some (Bs (hash_for_id st id)) | _ => None end.

(* "sess.can_sign": (t self (shareholders) (signers as given)) -> bool ; signers are sorted first, as NewSession does *)
Definition op_sess_can_sign (arg : sx) : option sx :=
  match arg with
  | Li [At t; Bs self; sh; sg] =>
      do sh <- as_list_of as_bytes sh; do sg <- as_list_of as_bytes sg;
      Some (sx_bool (can_sign t self sh (sort_ids sg)))
  | _ => None end.

Definition session_ops : list (bytes * (sx -> option sx)) :=
  [ (str "sess.new"%string, op_sess_new); (str "sess.ok"%string, op_sess_ok);
    (str "sess.hash_for_id"%string, op_sess_hash_for_id); (str "sess.can_sign"%string, op_sess_can_sign) ].
