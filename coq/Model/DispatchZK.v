(* DispatchZK.v -- ops exposing Model/ZK.v (C10) to the harness, the group instantiated with the textbook
   secp256k1 of Model/Secp256k1.v.
   Encodings: integers At; curve points Li [At x; At y], identity Li []; scalars At in [0,q);
   verdicts At 1 (accept) / At 0 (reject) / At 2 (Go panics: EncWithNonce refuses);
   an optional result is Li [] / Li [v...].
   For every system X:
     zk.X.items  (prefix pub com)      -> (stream ok)   bytes absorbed by hash.New() + prefix + challenge items
     zk.X.verify (pub com resp e)      -> verdict
     zk.X.prove  (wit rnd e)           -> () | (com resp)
   where prefix is a list of hval descriptions (DispatchC19.hval_of_sx) and pub, com, resp, wit, rnd are lists. *)
From Coq Require Import String.
From Coq Require Import List NArith ZArith Bool.
From MPS Require Import Model.Bytes Model.Sx Model.Framing Model.DispatchC19 Model.Secp256k1 Model.Paillier Model.ZK.
Import ListNotations.
Local Open Scope Z_scope.

(* ---- the group ---- *)
Definition zk_pt_enc (P : point) : Z * bool :=
  match P with
  | None => (0, false)
  | Some (x, y) => (x, Z.odd y)
  end.
Definition zk_is_id (P : point) : bool := match P with None => true | Some _ => false end.

Definition as_pt (s : sx) : option point :=
  match s with
  | Li [] => Some None
  | Li [At x; At y] => Some (Some (x, y))
  | _ => None
  end.
Definition sx_pt (P : point) : sx :=
  match P with
  | None => Li []
  | Some (x, y) => Li [At x; At y]
  end.

Definition sx_verdict (r : option bool) : sx :=
  match r with
  | Some true => At 1
  | Some false => At 0
  | None => At 2
  end.

Definition zk_stream (prefix : sx) (items : list hval) : option sx :=
  do vs <- as_list_of hval_of_sx prefix;
  let '(st, ok) := write_any init_state (vs ++ items) in
  Some (Li [Bs st; sx_bool ok]).

Definition as_Zs (s : sx) : option (list Z) := as_list_of as_Z s.
Definition as_bools (s : sx) : option (list bool) := as_list_of as_bool s.
Definition sx_Zs (l : list Z) : sx := Li (map At l).

Local Notation act := (ZK.act pt_mul secp_q).

(* ---- challenge derivation ---- *)
Definition op_zk_e_scalar (arg : sx) : option sx :=
  match arg with Bs d => Some (At (e_scalar secp_q d)) | _ => None end.
Definition op_zk_e_interval (arg : sx) : option sx :=
  match arg with Bs d => Some (At (e_interval d)) | _ => None end.
Definition op_zk_e_bits (arg : sx) : option sx :=
  match arg with Bs d => Some (Li (map sx_bool (e_bits d))) | _ => None end.
Definition op_zk_e_modn (arg : sx) : option sx :=
  match arg with
  | Li [At n; c; Bs d] => do c <- as_nat c; Some (sx_Zs (e_modn n c d))
  | _ => None end.

(* ---- small pieces (also used for the extraction cross-check with small numbers) ---- *)
Definition op_zk_truelen (arg : sx) : option sx :=
  match arg with
  | At z => Some (Li [At (truelen z); sx_bool (in_leps z); sx_bool (in_lprimeeps z); sx_bool (in_leps1rootn z)])
  | _ => None end.
Definition op_zk_valid_mod (arg : sx) : option sx :=
  match arg with Li [At n; At x] => Some (Li [sx_bool (valid_mod n x); sx_bool (valid_big n x)]) | _ => None end.
Definition op_zk_ped_commit (arg : sx) : option sx :=
  match arg with Li [At n; At s; At t; At x; At y] => Some (At (ped_commit n s t x y)) | _ => None end.
Definition op_zk_ped_verify (arg : sx) : option sx :=
  match arg with
  | Li [At n; At s; At t; At a; At b; At e; At Sc; At T] => Some (sx_bool (ped_verify n s t a b e Sc T))
  | _ => None end.
Definition op_zk_ped_validate (arg : sx) : option sx :=
  match arg with Li [At n; At s; At t] => Some (sx_bool (ped_validate n s t)) | _ => None end.
Definition op_zk_jacobi (arg : sx) : option sx :=
  match arg with Li [At a; At n] => Some (At (jacobi a n)) | _ => None end.
Definition op_zk_probably_prime (arg : sx) : option sx :=
  match arg with At n => Some (sx_bool (probably_prime n)) | _ => None end.
Definition op_zk_randomize (arg : sx) : option sx :=
  match arg with Li [At n; At c; At r] => Some (At (randomize n c r)) | _ => None end.

(* ---- sch ---- *)
Definition op_sch_items (arg : sx) : option sx :=
  match arg with
  | Li [pre; Li [gen; X]; Li [C]] =>
      do gen <- as_pt gen; do X <- as_pt X; do C <- as_pt C;
      zk_stream pre (sch_challenge_items zk_pt_enc gen X C)
  | _ => None end.
Definition op_sch_verify (arg : sx) : option sx :=
  match arg with
  | Li [Li [gen; X]; Li [C]; Li [At z]; At e] =>
      do gen <- as_pt gen; do X <- as_pt X; do C <- as_pt C;
      Some (sx_verdict (sch_verify pt_add pt_mul pt_eqb zk_is_id secp_q gen X C z e))
  | _ => None end.
Definition op_sch_prove (arg : sx) : option sx :=
  match arg with
  | Li [Li [gen; At x]; Li [At a]; At e] =>
      do gen <- as_pt gen;
      let '(C, z) := sch_prove pt_mul secp_q gen x a e in
      Some (Li [Li [sx_pt C]; Li [At z]])
  | _ => None end.

(* ---- log ---- *)
Definition op_log_items (arg : sx) : option sx :=
  match arg with
  | Li [pre; Li [H; X; Y]; Li [A; B; C]] =>
      do H <- as_pt H; do X <- as_pt X; do Y <- as_pt Y; do A <- as_pt A; do B <- as_pt B; do C <- as_pt C;
      zk_stream pre (log_challenge_items zk_pt_enc H X Y A B C)
  | _ => None end.
Definition op_log_verify (arg : sx) : option sx :=
  match arg with
  | Li [Li [H; X; Y]; Li [A; B; C]; Li [At z1; At z2]; At e] =>
      do H <- as_pt H; do X <- as_pt X; do Y <- as_pt Y; do A <- as_pt A; do B <- as_pt B; do C <- as_pt C;
      Some (sx_verdict (log_verify pt_add pt_mul pt_eqb zk_is_id secp_G secp_q H X Y A B C z1 z2 e))
  | _ => None end.
Definition op_log_prove (arg : sx) : option sx :=
  match arg with
  | Li [Li [H; At a; At b]; Li [At alpha; At beta]; At e] =>
      do H <- as_pt H;
      let '((A, B, C), (z1, z2)) := log_prove pt_mul secp_G secp_q H a b alpha beta e in
      Some (Li [Li [sx_pt A; sx_pt B; sx_pt C]; Li [At z1; At z2]])
  | _ => None end.

(* ---- elog ---- *)
Definition op_elog_items (arg : sx) : option sx :=
  match arg with
  | Li [pre; Li [L; M; X; H; Y]; Li [A; Np; B]] =>
      do L <- as_pt L; do M <- as_pt M; do X <- as_pt X; do H <- as_pt H; do Y <- as_pt Y;
      do A <- as_pt A; do Np <- as_pt Np; do B <- as_pt B;
      zk_stream pre (elog_challenge_items zk_pt_enc L M X H Y A Np B)
  | _ => None end.
Definition op_elog_verify (arg : sx) : option sx :=
  match arg with
  | Li [Li [L; M; X; H; Y]; Li [A; Np; B]; Li [At z; At u]; At e] =>
      do L <- as_pt L; do M <- as_pt M; do X <- as_pt X; do H <- as_pt H; do Y <- as_pt Y;
      do A <- as_pt A; do Np <- as_pt Np; do B <- as_pt B;
      Some (sx_verdict (elog_verify pt_add pt_mul pt_eqb zk_is_id secp_G secp_q L M X H Y A Np B z u e))
  | _ => None end.
Definition op_elog_prove (arg : sx) : option sx :=
  match arg with
  | Li [Li [X; H; At y; At lambda]; Li [At alpha; At m]; At e] =>
      do X <- as_pt X; do H <- as_pt H;
      let '((A, Np, B), (z, u)) := elog_prove pt_add pt_mul secp_G secp_q X H y lambda alpha m e in
      Some (Li [Li [sx_pt A; sx_pt Np; sx_pt B]; Li [At z; At u]])
  | _ => None end.

(* ---- nth ---- *)
Definition op_nth_items (arg : sx) : option sx :=
  match arg with
  | Li [pre; Li [At n; At R]; Li [At A]] => zk_stream pre (nth_challenge_items n R A)
  | _ => None end.
Definition op_nth_verify (arg : sx) : option sx :=
  match arg with
  | Li [Li [At n; At R]; Li [At A]; Li [At z]; At e] => Some (sx_verdict (nth_verify n R A z e))
  | _ => None end.
Definition op_nth_prove (arg : sx) : option sx :=
  match arg with
  | Li [Li [At n; At rho]; Li [At alpha]; At e] =>
      let '(A, z) := nth_prove n rho alpha e in Some (Li [Li [At A]; Li [At z]])
  | _ => None end.

(* ---- enc ---- *)
Definition op_enc_items (arg : sx) : option sx :=
  match arg with
  | Li [pre; Li [At nh; At s; At t; At n0; At K]; Li [At Sc; At A; At C]] =>
      zk_stream pre (enc_challenge_items nh s t n0 K Sc A C)
  | _ => None end.
Definition op_enc_verify (arg : sx) : option sx :=
  match arg with
  | Li [Li [At nh; At s; At t; At n0; At K]; Li [At Sc; At A; At C]; Li [At z1; At z2; At z3]; At e] =>
      Some (sx_verdict (enc_verify nh s t n0 K Sc A C z1 z2 z3 e))
  | _ => None end.
Definition op_enc_prove (arg : sx) : option sx :=
  match arg with
  | Li [Li [At nh; At s; At t; At n0; At k; At rho]; Li [At alpha; At r; At mu; At gamma]; At e] =>
      Some (match enc_commit nh s t n0 k alpha r mu gamma with
            | None => Li []
            | Some (Sc, A, C) =>
                let '(z1, z2, z3) := enc_respond n0 k rho alpha r mu gamma e in
                Li [Li [At Sc; At A; At C]; Li [At z1; At z2; At z3]]
            end)
  | _ => None end.

(* ---- logstar ---- *)
Definition op_logstar_items (arg : sx) : option sx :=
  match arg with
  | Li [pre; Li [At nh; At s; At t; At n0; At C; X; Gb]; Li [At Sc; At A; Y; At D]] =>
      do X <- as_pt X; do Gb <- as_pt Gb; do Y <- as_pt Y;
      zk_stream pre (logstar_challenge_items zk_pt_enc nh s t n0 C X Gb Sc A Y D)
  | _ => None end.
Definition op_logstar_verify (arg : sx) : option sx :=
  match arg with
  | Li [Li [At nh; At s; At t; At n0; At C; X; Gb]; Li [At Sc; At A; Y; At D]; Li [At z1; At z2; At z3]; At e] =>
      do X <- as_pt X; do Gb <- as_pt Gb; do Y <- as_pt Y;
      Some (sx_verdict (logstar_verify pt_add pt_mul pt_eqb zk_is_id secp_q nh s t n0 C X Gb Sc A Y D z1 z2 z3 e))
  | _ => None end.
Definition op_logstar_prove (arg : sx) : option sx :=
  match arg with
  | Li [Li [At nh; At s; At t; At n0; Gb; At x; At rho]; Li [At alpha; At r; At mu; At gamma]; At e] =>
      do Gb <- as_pt Gb;
      Some (match logstar_commit pt_mul secp_q nh s t n0 Gb x alpha r mu gamma with
            | None => Li []
            | Some (Sc, A, Y, D) =>
                let '(z1, z2, z3) := enc_respond n0 x rho alpha r mu gamma e in
                Li [Li [At Sc; At A; sx_pt Y; At D]; Li [At z1; At z2; At z3]]
            end)
  | _ => None end.

(* ---- dec ---- *)
Definition op_dec_items (arg : sx) : option sx :=
  match arg with
  | Li [pre; Li [At nh; At s; At t; At n0; At C; At X]; Li [At Sc; At T; At A; At Gamma]] =>
      zk_stream pre (dec_challenge_items nh s t n0 C X Sc T A Gamma)
  | _ => None end.
Definition op_dec_verify (arg : sx) : option sx :=
  match arg with
  | Li [Li [At nh; At s; At t; At n0; At C; At X]; Li [At Sc; At T; At A; At Gamma]; Li [At z1; At z2; At w]; At e] =>
      Some (sx_verdict (dec_verify secp_q nh s t n0 C X Sc T A Gamma z1 z2 w e))
  | _ => None end.
Definition op_dec_prove (arg : sx) : option sx :=
  match arg with
  | Li [Li [At nh; At s; At t; At n0; At y; At rho]; Li [At alpha; At mu; At nu; At r]; At e] =>
      Some (match dec_commit secp_q nh s t n0 y alpha mu nu r with
            | None => Li []
            | Some (Sc, T, A, Gamma) =>
                let '(z1, z2, w) := dec_respond n0 y rho alpha mu nu r e in
                Li [Li [At Sc; At T; At A; At Gamma]; Li [At z1; At z2; At w]]
            end)
  | _ => None end.

(* ---- mul ---- *)
Definition op_mul_items (arg : sx) : option sx :=
  match arg with
  | Li [pre; Li [At n; At X; At Y; At C]; Li [At A; At B]] => zk_stream pre (mul_challenge_items n X Y C A B)
  | _ => None end.
Definition op_mul_verify (arg : sx) : option sx :=
  match arg with
  | Li [Li [At n; At X; At Y; At C]; Li [At A; At B]; Li [At z; At u; At v]; At e] =>
      Some (sx_verdict (mul_verify n X Y C A B z u v e))
  | _ => None end.
Definition op_mul_prove (arg : sx) : option sx :=
  match arg with
  | Li [Li [At n; At Y; At x; At rho; At rhox]; Li [At alpha; At r; At s]; At e] =>
      Some (match mul_commit n Y alpha r s with
            | None => Li []
            | Some (A, B) =>
                let '(z, u, v) := mul_respond n x rho rhox alpha r s e in
                Li [Li [At A; At B]; Li [At z; At u; At v]]
            end)
  | _ => None end.

(* ---- affg ---- *)
Definition op_affg_items (arg : sx) : option sx :=
  match arg with
  | Li [pre; Li [At nh; At s; At t; At n1; At n0; At Kv; At Dv; At Fp; Xp];
        Li [At A; Bx; At By; At E; At Sc; At F; At T]] =>
      do Xp <- as_pt Xp; do Bx <- as_pt Bx;
      zk_stream pre (affg_challenge_items zk_pt_enc nh s t n1 n0 Kv Dv Fp Xp A Bx By E Sc F T)
  | _ => None end.
Definition op_affg_verify (arg : sx) : option sx :=
  match arg with
  | Li [Li [At nh; At s; At t; At n1; At n0; At Kv; At Dv; At Fp; Xp];
        Li [At A; Bx; At By; At E; At Sc; At F; At T];
        Li [At z1; At z2; At z3; At z4; At w; At wy]; At e] =>
      do Xp <- as_pt Xp; do Bx <- as_pt Bx;
      Some (sx_verdict (affg_verify pt_add pt_mul pt_eqb zk_is_id secp_G secp_q
                          nh s t n1 n0 Kv Dv Fp Xp A Bx By E Sc F T z1 z2 z3 z4 w wy e))
  | _ => None end.
Definition op_affg_prove (arg : sx) : option sx :=
  match arg with
  | Li [Li [At nh; At s; At t; At n1; At n0; At Kv; At x; At y; At sn; At r];
        Li [At alpha; At beta; At rho; At rhoy; At gamma; At m; At delta; At mu]; At e] =>
      Some (match affg_commit pt_mul secp_G secp_q nh s t n1 n0 Kv x y alpha beta rho rhoy gamma m delta mu with
            | None => Li []
            | Some (A, Bx, By, E, Sc, F, T) =>
                let '(z1, z2, z3, z4, w, wy) := affg_respond n1 n0 x y sn r alpha beta rho rhoy gamma m delta mu e in
                Li [Li [At A; sx_pt Bx; At By; At E; At Sc; At F; At T];
                    Li [At z1; At z2; At z3; At z4; At w; At wy]]
            end)
  | _ => None end.

(* ---- affp ---- *)
Definition op_affp_items (arg : sx) : option sx :=
  match arg with
  | Li [pre; Li [At nh; At s; At t; At n1; At n0; At Kv; At Dv; At Fp; At Xp];
        Li [At A; At Bx; At By; At E; At Sc; At F; At T]] =>
      zk_stream pre (affp_challenge_items nh s t n1 n0 Kv Dv Fp Xp A Bx By E Sc F T)
  | _ => None end.
Definition op_affp_verify (arg : sx) : option sx :=
  match arg with
  | Li [Li [At nh; At s; At t; At n1; At n0; At Kv; At Dv; At Fp; At Xp];
        Li [At A; At Bx; At By; At E; At Sc; At F; At T];
        Li [At z1; At z2; At z3; At z4; At w; At wx; At wy]; At e] =>
      Some (sx_verdict (affp_verify nh s t n1 n0 Kv Dv Fp Xp A Bx By E Sc F T z1 z2 z3 z4 w wx wy e))
  | _ => None end.
Definition op_affp_prove (arg : sx) : option sx :=
  match arg with
  | Li [Li [At nh; At s; At t; At n1; At n0; At Kv; At x; At y; At sn; At rx; At r];
        Li [At alpha; At beta; At rho; At rhox; At rhoy; At gamma; At m; At delta; At mu]; At e] =>
      Some (match affp_commit nh s t n1 n0 Kv x y alpha beta rho rhox rhoy gamma m delta mu with
            | None => Li []
            | Some (A, Bx, By, E, Sc, F, T) =>
                let '(z1, z2, z3, z4, w, wx, wy) :=
                  affp_respond n1 n0 x y sn rx r alpha beta rho rhox rhoy gamma m delta mu e in
                Li [Li [At A; At Bx; At By; At E; At Sc; At F; At T];
                    Li [At z1; At z2; At z3; At z4; At w; At wx; At wy]]
            end)
  | _ => None end.

(* ---- mulstar ---- *)
Definition op_mulstar_items (arg : sx) : option sx :=
  match arg with
  | Li [pre; Li [At nh; At s; At t; At n0; At C; At D; X]; Li [At A; Bx; At E; At Sc]] =>
      do X <- as_pt X; do Bx <- as_pt Bx;
      zk_stream pre (mulstar_challenge_items zk_pt_enc nh s t n0 C D X A Bx E Sc)
  | _ => None end.
Definition op_mulstar_verify (arg : sx) : option sx :=
  match arg with
  | Li [Li [At nh; At s; At t; At n0; At C; At D; X]; Li [At A; Bx; At E; At Sc]; Li [At z1; At z2; At w]; At e] =>
      do X <- as_pt X; do Bx <- as_pt Bx;
      Some (sx_verdict (mulstar_verify pt_add pt_mul pt_eqb zk_is_id secp_G secp_q nh s t n0 C D X A Bx E Sc z1 z2 w e))
  | _ => None end.
Definition op_mulstar_prove (arg : sx) : option sx :=
  match arg with
  | Li [Li [At nh; At s; At t; At n0; At C; At x; At rho]; Li [At alpha; At r; At gamma; At m]; At e] =>
      let '(A, Bx, E, Sc) := mulstar_commit pt_mul secp_G secp_q nh s t n0 C x alpha r gamma m in
      let '(z1, z2, w) := mulstar_respond n0 x rho alpha r gamma m e in
      Some (Li [Li [At A; sx_pt Bx; At E; At Sc]; Li [At z1; At z2; At w]])
  | _ => None end.

(* ---- encelg ---- *)
Definition op_encelg_items (arg : sx) : option sx :=
  match arg with
  | Li [pre; Li [At nh; At s; At t; At n0; At C; A; B; X]; Li [At Sc; At D; Y; Zp; At T]] =>
      do A <- as_pt A; do B <- as_pt B; do X <- as_pt X; do Y <- as_pt Y; do Zp <- as_pt Zp;
      zk_stream pre (encelg_challenge_items zk_pt_enc nh s t n0 C A B X Sc D Y Zp T)
  | _ => None end.
Definition op_encelg_verify (arg : sx) : option sx :=
  match arg with
  | Li [Li [At nh; At s; At t; At n0; At C; A; B; X]; Li [At Sc; At D; Y; Zp; At T];
        Li [At z1; At w; At z2; At z3]; At e] =>
      do A <- as_pt A; do B <- as_pt B; do X <- as_pt X; do Y <- as_pt Y; do Zp <- as_pt Zp;
      Some (sx_verdict (encelg_verify pt_add pt_mul pt_eqb zk_is_id secp_G secp_q
                          nh s t n0 C A B X Sc D Y Zp T z1 w z2 z3 e))
  | _ => None end.
Definition op_encelg_prove (arg : sx) : option sx :=
  match arg with
  | Li [Li [At nh; At s; At t; At n0; A; At x; At rho; At b]; Li [At alpha; At mu; At r; At beta; At gamma]; At e] =>
      do A <- as_pt A;
      Some (match encelg_commit pt_add pt_mul secp_G secp_q nh s t n0 A x alpha mu r beta gamma with
            | None => Li []
            | Some (Sc, D, Y, Zp, T) =>
                let '(z1, w, z2, z3) := encelg_respond secp_q n0 x rho b alpha mu r beta gamma e in
                Li [Li [At Sc; At D; sx_pt Y; sx_pt Zp; At T]; Li [At z1; At w; At z2; At z3]]
            end)
  | _ => None end.

(* ---- fac ---- *)
Definition op_fac_items (arg : sx) : option sx :=
  match arg with
  | Li [pre; Li [At n0; At nh; At s; At t]; Li [At P; At Q; At A; At B; At T]] =>
      zk_stream pre (fac_challenge_items n0 nh s t P Q A B T)
  | _ => None end.
Definition op_fac_verify (arg : sx) : option sx :=
  match arg with
  | Li [Li [At n0; At nh; At s; At t]; Li [At P; At Q; At A; At B; At T];
        Li [At sigma; At z1; At z2; At w1; At w2; At v]; At e] =>
      Some (sx_verdict (fac_verify n0 nh s t P Q A B T sigma z1 z2 w1 w2 v e))
  | _ => None end.
Definition op_fac_prove (arg : sx) : option sx :=
  match arg with
  | Li [Li [At nh; At s; At t; At p; At q];
        Li [At alpha; At beta; At mu; At nu; At sigma; At r; At x; At y]; At e] =>
      let '(P, Q, A, B, T) := fac_commit nh s t p q alpha beta mu nu r x y in
      let '(z1, z2, w1, w2, v) := fac_respond p q alpha beta mu nu sigma r x y e in
      Some (Li [Li [At P; At Q; At A; At B; At T]; Li [At sigma; At z1; At z2; At w1; At w2; At v]])
  | _ => None end.

(* ---- prm ---- *)
Definition op_prm_items (arg : sx) : option sx :=
  match arg with
  | Li [pre; Li [At n; At s; At t]; Li [As]] =>
      do As <- as_Zs As; zk_stream pre (prm_challenge_items n s t As)
  | _ => None end.
Definition op_prm_verify (arg : sx) : option sx :=
  match arg with
  | Li [Li [At n; At s; At t]; Li [As]; Li [Zs]; es] =>
      do As <- as_Zs As; do Zs <- as_Zs Zs; do es <- as_bools es;
      Some (sx_verdict (prm_verify n s t As Zs es))
  | _ => None end.
Definition op_prm_prove (arg : sx) : option sx :=
  match arg with
  | Li [Li [At n; At t; At phi; At lambda]; Li [al]; es] =>
      do al <- as_Zs al; do es <- as_bools es;
      Some (Li [Li [sx_Zs (prm_commit n t al)]; Li [sx_Zs (prm_respond phi lambda al es)]])
  | _ => None end.

(* ---- mod ---- *)
Definition as_mod_resp (s : sx) : option (bool * bool * Z * Z) :=
  match s with
  | Li [a; b; At x; At z] => do a <- as_bool a; do b <- as_bool b; Some (a, b, x, z)
  | _ => None end.
Definition sx_mod_resp (r : bool * bool * Z * Z) : sx :=
  let '(a, b, x, z) := r in Li [sx_bool a; sx_bool b; At x; At z].
Definition op_mod_items (arg : sx) : option sx :=
  match arg with
  | Li [pre; Li [At n]; Li [At w]] => zk_stream pre (mod_challenge_items n w)
  | _ => None end.
Definition op_mod_verify (arg : sx) : option sx :=
  match arg with
  | Li [Li [At n]; Li [At w]; Li [rs]; ys] =>
      do rs <- as_list_of as_mod_resp rs; do ys <- as_Zs ys;
      Some (sx_verdict (mod_verify n w rs ys))
  | _ => None end.
Definition op_mod_prove (arg : sx) : option sx :=
  match arg with
  | Li [Li [At p; At q]; Li [At w]; ys] =>
      do ys <- as_Zs ys;
      Some (Li [Li [At w]; Li [Li (map sx_mod_resp (mod_respond p q w ys))]])
  | _ => None end.

Definition zk_ops : list (bytes * (sx -> option sx)) :=
  [ (str "zk.e_scalar"%string, op_zk_e_scalar); (str "zk.e_interval"%string, op_zk_e_interval);
    (str "zk.e_bits"%string, op_zk_e_bits); (str "zk.e_modn"%string, op_zk_e_modn);
    (str "zk.truelen"%string, op_zk_truelen); (str "zk.valid_mod"%string, op_zk_valid_mod);
    (str "zk.ped_commit"%string, op_zk_ped_commit); (str "zk.ped_verify"%string, op_zk_ped_verify);
    (str "zk.ped_validate"%string, op_zk_ped_validate); (str "zk.jacobi"%string, op_zk_jacobi);
    (str "zk.probably_prime"%string, op_zk_probably_prime); (str "zk.randomize"%string, op_zk_randomize);
    (str "zk.sch.items"%string, op_sch_items); (str "zk.sch.verify"%string, op_sch_verify); (str "zk.sch.prove"%string, op_sch_prove);
    (str "zk.log.items"%string, op_log_items); (str "zk.log.verify"%string, op_log_verify); (str "zk.log.prove"%string, op_log_prove);
    (str "zk.elog.items"%string, op_elog_items); (str "zk.elog.verify"%string, op_elog_verify); (str "zk.elog.prove"%string, op_elog_prove);
    (str "zk.nth.items"%string, op_nth_items); (str "zk.nth.verify"%string, op_nth_verify); (str "zk.nth.prove"%string, op_nth_prove);
    (str "zk.enc.items"%string, op_enc_items); (str "zk.enc.verify"%string, op_enc_verify); (str "zk.enc.prove"%string, op_enc_prove);
    (str "zk.logstar.items"%string, op_logstar_items); (str "zk.logstar.verify"%string, op_logstar_verify); (str "zk.logstar.prove"%string, op_logstar_prove);
    (str "zk.dec.items"%string, op_dec_items); (str "zk.dec.verify"%string, op_dec_verify); (str "zk.dec.prove"%string, op_dec_prove);
    (str "zk.mul.items"%string, op_mul_items); (str "zk.mul.verify"%string, op_mul_verify); (str "zk.mul.prove"%string, op_mul_prove);
    (str "zk.affg.items"%string, op_affg_items); (str "zk.affg.verify"%string, op_affg_verify); (str "zk.affg.prove"%string, op_affg_prove);
    (str "zk.affp.items"%string, op_affp_items); (str "zk.affp.verify"%string, op_affp_verify); (str "zk.affp.prove"%string, op_affp_prove);
    (str "zk.mulstar.items"%string, op_mulstar_items); (str "zk.mulstar.verify"%string, op_mulstar_verify); (str "zk.mulstar.prove"%string, op_mulstar_prove);
    (str "zk.encelg.items"%string, op_encelg_items); (str "zk.encelg.verify"%string, op_encelg_verify); (str "zk.encelg.prove"%string, op_encelg_prove);
    (str "zk.fac.items"%string, op_fac_items); (str "zk.fac.verify"%string, op_fac_verify); (str "zk.fac.prove"%string, op_fac_prove);
    (str "zk.prm.items"%string, op_prm_items); (str "zk.prm.verify"%string, op_prm_verify); (str "zk.prm.prove"%string, op_prm_prove);
    (str "zk.mod.items"%string, op_mod_items); (str "zk.mod.verify"%string, op_mod_verify); (str "zk.mod.prove"%string, op_mod_prove) ].
