(* Secp256k1.v -- textbook secp256k1 over Z (SEC 2: y^2 = x^3 + 7 over F_p, prime order q).
   Independent reference implementation (shares no code with decred/secp256k1 or pkg/math/curve):
   affine points [option (Z*Z)] (None = point at infinity) at the interface, textbook affine chord-and-tangent
   addition, Jacobian coordinates inside scalar multiplication (double-and-add along the binary expansion,
   structural recursion on [positive]).  Executable definitions only. *)
From Coq Require Import List NArith ZArith Bool.
From MPS Require Import Model.Bytes.
Import ListNotations.
Open Scope Z_scope.

Definition secp_p : Z := 0xFFFFFFFFFFFFFFFFFFFFFFFFFFFFFFFFFFFFFFFFFFFFFFFFFFFFFFFEFFFFFC2F.
Definition secp_q : Z := 0xFFFFFFFFFFFFFFFFFFFFFFFFFFFFFFFEBAAEDCE6AF48A03BBFD25E8CD0364141.
Definition secp_Gx : Z := 0x79BE667EF9DCBBAC55A06295CE870B07029BFCDB2DCE28D959F2815B16F81798.
Definition secp_Gy : Z := 0x483ADA7726A3C4655DA4FBFC0E1108A8FD17B448A68554199C47D08FFB10D4B8.

(* ---- modular arithmetic, generic modulus ---- *)

(* square-and-multiply along the binary expansion of the exponent (most significant bit first:
   the outermost constructor of [positive] is the least significant bit, so b^(2e) = (b^e)^2) *)
Fixpoint powmod_pos (m b : Z) (e : positive) : Z :=
  match e with
  | xH => b mod m
  | xO e' => let r := powmod_pos m b e' in (r * r) mod m
  | xI e' => let r := powmod_pos m b e' in (((r * r) mod m) * b) mod m
  end.
Definition powmod (b e m : Z) : Z :=
  match e with
  | Z0 => 1 mod m
  | Zpos e' => powmod_pos m (b mod m) e'
  | Zneg _ => 0
  end.

(* extended Euclid on (r0, r1) keeping only the cofactor of the second input:
   invariant r_i = u_i * a (mod m) when started with (m, a, 0, 1).  Returns (gcd, cofactor).
   Fuel: r0 * r1 at least halves at every step, so 2 * bits(m) + 2 steps always suffice. *)
Fixpoint egcd_fuel (fuel : nat) (r0 r1 u0 u1 : Z) : Z * Z :=
  match fuel with
  | O => (r0, u0)
  | S f => if r1 =? 0 then (r0, u0)
           else let t := r0 / r1 in egcd_fuel f r1 (r0 - t * r1) u1 (u0 - t * u1)
  end.
Definition egcd_steps (m : Z) : nat :=
  match m with Zpos pm => 2 * Pos.size_nat pm + 2 | _ => O end%nat.
(* inverse of a modulo m (m > 1); 0 when a is not invertible *)
Definition modinv (a m : Z) : Z :=
  let '(g, u) := egcd_fuel (egcd_steps m) m (a mod m) 0 1 in
  if g =? 1 then u mod m else 0.

(* ---- the field F_p ---- *)
Definition fadd (a b : Z) : Z := (a + b) mod secp_p.
Definition fsub (a b : Z) : Z := (a - b) mod secp_p.
Definition fmul (a b : Z) : Z := (a * b) mod secp_p.
Definition fneg (a : Z) : Z := (- a) mod secp_p.
Definition finv (a : Z) : Z := modinv a secp_p.
Definition in_field (a : Z) : bool := (0 <=? a) && (a <? secp_p).

(* square root for p = 3 (mod 4): candidate a^((p+1)/4), checked by squaring *)
Definition fsqrt (a : Z) : option Z :=
  let r := powmod a ((secp_p + 1) / 4) secp_p in
  if fmul r r =? a mod secp_p then Some r else None.

(* ---- affine points ---- *)
Definition point := option (Z * Z).
Definition infinity : point := None.
Definition secp_G : point := Some (secp_Gx, secp_Gy).

Definition curve_rhs (x : Z) : Z := fadd (fmul (fmul x x) x) 7.

(* membership in E(F_p): the point at infinity, or coordinates in [0,p) satisfying the equation *)
Definition on_curve (P : point) : bool :=
  match P with
  | None => true
  | Some (x, y) => in_field x && in_field y && (fmul y y =? curve_rhs x)
  end.

Definition pt_eqb (P Q : point) : bool :=
  match P, Q with
  | None, None => true
  | Some (x1, y1), Some (x2, y2) => (x1 =? x2) && (y1 =? y2)
  | _, _ => false
  end.

Definition pt_neg (P : point) : point :=
  match P with
  | None => None
  | Some (x, y) => Some (x, fneg y)
  end.

(* chord-and-tangent law in affine coordinates *)
Definition pt_add (P Q : point) : point :=
  match P, Q with
  | None, _ => Q
  | _, None => P
  | Some (x1, y1), Some (x2, y2) =>
      if x1 =? x2 then
        if fadd y1 y2 =? 0 then None
        else
          let lam := fmul (fmul 3 (fmul x1 x1)) (finv (fmul 2 y1)) in
          let x3 := fsub (fsub (fmul lam lam) x1) x2 in
          Some (x3, fsub (fmul lam (fsub x1 x3)) y1)
      else
        let lam := fmul (fsub y2 y1) (finv (fsub x2 x1)) in
        let x3 := fsub (fsub (fmul lam lam) x1) x2 in
        Some (x3, fsub (fmul lam (fsub x1 x3)) y1)
  end.

Definition pt_sub (P Q : point) : point := pt_add P (pt_neg Q).

(* scalar multiplication with affine arithmetic only (slow: one inversion per step);
   kept as a cross-check of the Jacobian code below *)
Fixpoint pt_mul_affine_pos (k : positive) (P : point) : point :=
  match k with
  | xH => P
  | xO k' => let R := pt_mul_affine_pos k' P in pt_add R R
  | xI k' => let R := pt_mul_affine_pos k' P in pt_add (pt_add R R) P
  end.
Definition pt_mul_affine (k : Z) (P : point) : point :=
  match k with
  | Z0 => None
  | Zpos k' => pt_mul_affine_pos k' P
  | Zneg k' => pt_mul_affine_pos k' (pt_neg P)
  end.

(* ---- Jacobian coordinates (X, Y, Z): x = X/Z^2, y = Y/Z^3, Z = 0 for infinity ---- *)
Definition jac := (Z * Z * Z)%type.
Definition jac_inf : jac := (1, 1, 0).

Definition to_jac (P : point) : jac :=
  match P with
  | None => jac_inf
  | Some (x, y) => (x mod secp_p, y mod secp_p, 1)
  end.

Definition of_jac (J : jac) : point :=
  let '(X, Y, Zc) := J in
  if Zc =? 0 then None
  else
    let zi := finv Zc in
    let zi2 := fmul zi zi in
    Some (fmul X zi2, fmul Y (fmul zi2 zi)).

(* doubling for a = 0 *)
Definition jdbl (J : jac) : jac :=
  let '(X, Y, Zc) := J in
  if (Zc =? 0) || (Y =? 0) then jac_inf
  else
    let YY := fmul Y Y in
    let S := fmul 4 (fmul X YY) in
    let Mm := fmul 3 (fmul X X) in
    let X3 := fsub (fmul Mm Mm) (fmul 2 S) in
    let Y3 := fsub (fmul Mm (fsub S X3)) (fmul 8 (fmul YY YY)) in
    let Z3 := fmul 2 (fmul Y Zc) in
    (X3, Y3, Z3).

Definition jadd (J1 J2 : jac) : jac :=
  let '(X1, Y1, Z1) := J1 in
  let '(X2, Y2, Z2) := J2 in
  if Z1 =? 0 then J2
  else if Z2 =? 0 then J1
  else
    let Z1Z1 := fmul Z1 Z1 in
    let Z2Z2 := fmul Z2 Z2 in
    let U1 := fmul X1 Z2Z2 in
    let U2 := fmul X2 Z1Z1 in
    let S1 := fmul Y1 (fmul Z2 Z2Z2) in
    let S2 := fmul Y2 (fmul Z1 Z1Z1) in
    let H := fsub U2 U1 in
    let R := fsub S2 S1 in
    if H =? 0 then
      if R =? 0 then jdbl J1 else jac_inf
    else
      let HH := fmul H H in
      let HHH := fmul H HH in
      let V := fmul U1 HH in
      let X3 := fsub (fsub (fmul R R) HHH) (fmul 2 V) in
      let Y3 := fsub (fmul R (fsub V X3)) (fmul S1 HHH) in
      let Z3 := fmul H (fmul Z1 Z2) in
      (X3, Y3, Z3).

Fixpoint jmul_pos (k : positive) (J : jac) : jac :=
  match k with
  | xH => J
  | xO k' => jdbl (jmul_pos k' J)
  | xI k' => jadd (jdbl (jmul_pos k' J)) J
  end.

(* k.P for any integer k (no reduction of k: callers reduce modulo q where the standard says so) *)
Definition pt_mul (k : Z) (P : point) : point :=
  match k with
  | Z0 => None
  | Zpos k' => of_jac (jmul_pos k' (to_jac P))
  | Zneg k' => of_jac (jmul_pos k' (to_jac (pt_neg P)))
  end.

Definition base_mul (k : Z) : point := pt_mul k secp_G.

(* ---- encodings ---- *)
Definition has_even_y (P : point) : bool :=
  match P with
  | None => false
  | Some (_, y) => Z.even y
  end.

(* BIP-340 lift_x: the point with abscissa x and even ordinate; None if x >= p or not on the curve *)
Definition lift_x (x : Z) : option point :=
  if in_field x then
    match fsqrt (curve_rhs x) with
    | None => None
    | Some y => Some (Some (x, if Z.even y then y else secp_p - y))
    end
  else None.

Definition bytes32_of_Z (z : Z) : bytes := be_bytes 32 (Z.to_N z).
Definition Z_of_bytes (b : bytes) : Z := Z.of_N (be_val b).

(* SEC1 compressed form, 33 bytes: 02/03 (parity of y) followed by x; infinity has no such encoding *)
Definition compress (P : point) : option bytes :=
  match P with
  | None => None
  | Some (x, y) => Some ((if Z.even y then 2%N else 3%N) :: bytes32_of_Z x)
  end.

(* strict decoding: exactly 33 bytes, prefix 02 or 03 only, x < p, x^3 + 7 a square *)
Definition decompress (b : bytes) : option point :=
  match b with
  | pre :: xb =>
      if negb (Nat.eqb (length xb) 32) then None
      else if negb ((pre =? 2)%N || (pre =? 3)%N) then None
      else
        match lift_x (Z_of_bytes xb) with
        | Some (Some (x, y)) =>          (* y is the even root *)
            if (pre =? 2)%N then Some (Some (x, y))
            else if y =? 0 then None      (* no odd root (cannot happen on this curve: no point has y = 0) *)
            else Some (Some (x, secp_p - y))
        | _ => None
        end
  | [] => None
  end.
