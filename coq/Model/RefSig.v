(* RefSig.v -- reference signature schemes written from the standards:
   ECDSA (SEC1 v2 section 4.1 / FIPS 186-4), public key recovery (SEC1 4.1.6), BIP-340 Schnorr,
   BIP-32 public child key derivation.  This is the independent judge of the standards properties
   (C01, C14, C16); it shares nothing with the Go code under test.  Executable definitions only. *)
From Coq Require Import String.
From Coq Require Import List NArith ZArith Bool.
From MPS Require Import Model.Bytes Model.Sha Model.Secp256k1.
Import ListNotations.
Open Scope Z_scope.

(* ---- hash to integer ----
   SEC1 4.1.3 step 5 / FIPS 186-4 6.4 ("bits2int" of RFC 6979) for an order of exactly 256 bits:
   the leftmost min(len, 32) bytes of the digest, read big-endian; then reduced modulo q.  (Only when the digest
   is longer than the order a truncation happens; a whole number of bytes, so no bit shift is needed.)
   curve.FromHash in /repo computes the same function for secp256k1: orderBits = 256, orderBytes = 32,
   [excess = len*8 - 256 <= 0] after truncation, so its right-shift branch is dead code on this curve. *)
Definition from_hash (h : bytes) : Z := Z_of_bytes (firstn 32 h) mod secp_q.

(* ---- generic forms over any group with a Z-action (used at secp256k1 below, and abstractly in
   Proofs/RefSigProofs.v) ---- *)
Section Generic.
  Context {G : Type}.
  Variable gadd : G -> G -> G.
  Variable gneg : G -> G.
  Variable smul : Z -> G -> G.
  Variable geqb : G -> G -> bool.
  Variable xof : G -> Z.          (* "x coordinate as an integer" *)
  Variable g : G.                 (* generator *)
  Variable q : Z.                 (* group order *)

  (* the library's full-point ECDSA verification: the signature carries the whole nonce point R;
     r = x(R) mod q; accept iff r, s are non-zero mod q and s^-1 (m g + r X) = R *)
  Definition ecdsa_verify_gen (X R : G) (s m : Z) : bool :=
    let r := xof R mod q in
    negb (r =? 0) && negb (s mod q =? 0) &&
    geqb (smul (modinv s q) (gadd (smul (m mod q) g) (smul r X))) R.

  (* signing with nonce k and secret d: R = k g, r = x(R) mod q, s = k^-1 (m + r d) mod q *)
  Definition ecdsa_sign_gen (k d m : Z) : option (G * Z) :=
    let R := smul (k mod q) g in
    let r := xof R mod q in
    let s := (modinv k q * (m + r * d)) mod q in
    if (k mod q =? 0) || (r =? 0) || (s =? 0) then None else Some (R, s).

  (* public key recovery from the full point: X = r^-1 (s R - m g) *)
  Definition ecdsa_recover_gen (R : G) (s m : Z) : G :=
    let r := xof R mod q in
    smul (modinv r q) (gadd (smul (s mod q) R) (gneg (smul (m mod q) g))).

  (* the Schnorr verification equation with the challenge given: z g = R + c Y *)
  Definition schnorr_verify_gen (Y R : G) (z c : Z) : bool :=
    geqb (smul (z mod q) g) (gadd R (smul (c mod q) Y)).
End Generic.

(* ---- ECDSA on secp256k1 ---- *)
Definition pt_x (P : point) : Z := match P with Some (x, _) => x | None => 0 end.
Definition pt_y (P : point) : Z := match P with Some (_, y) => y | None => 0 end.
Definition is_inf (P : point) : bool := match P with None => true | Some _ => false end.

(* full-point variant, as ecdsa.Signature{R,S}.Verify(X, hash) with m = from_hash hash.
   Rejects: X or R at infinity or off the curve, r = 0, s = 0 (mod q). *)
Definition ecdsa_verify (X R : point) (s m : Z) : bool :=
  negb (is_inf X) && negb (is_inf R) && on_curve X && on_curve R &&
  ecdsa_verify_gen pt_add pt_mul pt_eqb pt_x secp_G secp_q X R s m.

(* standard verification (SEC1 4.1.4): 1 <= r,s < q; u1 = m s^-1, u2 = r s^-1; R' = u1 G + u2 X;
   R' <> infinity and x(R') mod q = r *)
Definition ecdsa_verify_std (X : point) (r s m : Z) : bool :=
  if negb (is_inf X) && on_curve X && (1 <=? r) && (r <? secp_q) && (1 <=? s) && (s <? secp_q) then
    let si := modinv s secp_q in
    let u1 := ((m mod secp_q) * si) mod secp_q in
    let u2 := (r * si) mod secp_q in
    match pt_add (base_mul u1) (pt_mul u2 X) with
    | None => false
    | Some (x, _) => x mod secp_q =? r
    end
  else false.

(* returns (R, r, s) *)
Definition ecdsa_sign (k d m : Z) : option (point * Z * Z) :=
  match ecdsa_sign_gen pt_mul pt_x secp_G secp_q k d m with
  | Some (R, s) => Some (R, pt_x R mod secp_q, s)
  | None => None
  end.

(* public key recovery (SEC1 4.1.6) restricted to recovery ids v in {0,1}: the nonce point is the point
   with abscissa r (the r + q candidate is not considered) and ordinate of parity v; Q = r^-1 (s R - h G) *)
Definition eth_recover (h r s v : Z) : option point :=
  if (1 <=? r) && (r <? secp_q) && (1 <=? s) && (s <? secp_q) && ((v =? 0) || (v =? 1)) then
    match lift_x r with
    | Some (Some (x, y)) =>
        let R : point := Some (x, if v =? 0 then y else secp_p - y) in
        match ecdsa_recover_gen pt_add pt_neg pt_mul pt_x secp_G secp_q R s h with
        | None => None
        | Some Q => Some (Some Q)
        end
    | _ => None
    end
  else None.

(* ---- Schnorr ---- *)
Definition schnorr_verify_c (Y R : point) (z c : Z) : bool :=
  schnorr_verify_gen pt_add pt_mul pt_eqb secp_G secp_q Y R z c.

(* ---- BIP-340 ---- *)
Definition tagged_hash (tag : bytes) (msg : bytes) : bytes :=
  let th := sha256 tag in sha256 (th ++ th ++ msg).

Definition tag_aux : bytes := bytes_of_string "BIP0340/aux".
Definition tag_nonce : bytes := bytes_of_string "BIP0340/nonce".
Definition tag_challenge : bytes := bytes_of_string "BIP0340/challenge".

Definition len_is (n : nat) (b : bytes) : bool := Nat.eqb (length b) n.

(* "Public Key Generation": fail if d' = 0 or d' >= n; bytes(d'.G) *)
Definition bip340_pubkey (sk : bytes) : option bytes :=
  if len_is 32 sk then
    let d := Z_of_bytes sk in
    if (d =? 0) || (secp_q <=? d) then None
    else match base_mul d with
         | Some (x, _) => Some (bytes32_of_Z x)
         | None => None
         end
  else None.

(* "Verification": pk 32 bytes, sig 64 bytes, message of any length *)
Definition bip340_verify (pk msg sig : bytes) : bool :=
  if len_is 32 pk && len_is 64 sig then
    match lift_x (Z_of_bytes pk) with
    | Some P =>
        let rb := firstn 32 sig in
        let r := Z_of_bytes rb in
        let s := Z_of_bytes (skipn 32 sig) in
        if (secp_p <=? r) || (secp_q <=? s) then false
        else
          let e := Z_of_bytes (tagged_hash tag_challenge (rb ++ pk ++ msg)) mod secp_q in
          match pt_sub (base_mul s) (pt_mul e P) with
          | None => false
          | Some (x, y) => Z.even y && (x =? r)
          end
    | None => false
    end
  else false.

(* "Default Signing" with auxiliary random data aux (32 bytes); includes the final self-verification *)
Definition bip340_sign (sk msg aux : bytes) : option bytes :=
  if len_is 32 sk && len_is 32 aux then
    let d' := Z_of_bytes sk in
    if (d' =? 0) || (secp_q <=? d') then None
    else
      match base_mul d' with
      | None => None
      | Some (px, py) =>
          let d := if Z.even py then d' else secp_q - d' in
          let t := xor_bytes (bytes32_of_Z d) (tagged_hash tag_aux aux) in
          let pb := bytes32_of_Z px in
          let rand := tagged_hash tag_nonce (t ++ pb ++ msg) in
          let k' := Z_of_bytes rand mod secp_q in
          if k' =? 0 then None
          else
            match base_mul k' with
            | None => None
            | Some (rx, ry) =>
                let k := if Z.even ry then k' else secp_q - k' in
                let rb := bytes32_of_Z rx in
                let e := Z_of_bytes (tagged_hash tag_challenge (rb ++ pb ++ msg)) mod secp_q in
                let sig := rb ++ bytes32_of_Z ((k + e * d) mod secp_q) in
                if bip340_verify pb msg sig then Some sig else None
            end
      end
  else None.

(* ---- BIP-32, public parent key -> public child key (non-hardened only) ----
   I = HMAC-SHA512(key = c_par, data = serP(K_par) || ser32(i)); I_L, I_R the two 32-byte halves;
   K_i = parse256(I_L).G + K_par, c_i = I_R; invalid when parse256(I_L) >= n or K_i is the point at infinity.
   Returns (child key, child chain code, parse256(I_L)). *)
Definition ckd_pub_tweak (parent : point) (chain : bytes) (index : N) : option (point * bytes * Z) :=
  if (index <? 2147483648)%N then
    match compress parent with
    | None => None
    | Some sp =>
        let I := hmac_sha512 chain (sp ++ be_bytes 4 index) in
        let IL := Z_of_bytes (firstn 32 I) in
        if secp_q <=? IL then None
        else
          match pt_add (base_mul IL) parent with
          | None => None
          | Some K => Some (Some K, skipn 32 I, IL)
          end
    end
  else None.

Definition ckd_pub (parent : point) (chain : bytes) (index : N) : option (point * bytes) :=
  match ckd_pub_tweak parent chain index with
  | Some (K, c, _) => Some (K, c)
  | None => None
  end.
