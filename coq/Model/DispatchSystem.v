(* DispatchSystem.v -- op "sys.run": the multi-party system model (Model/System.v) executed on the network
   events of a WHOLE real session, in the order in which the harness pump executed them.

   The op is defined THROUGH [System.step] / [System.init_sys]: every network event is first resolved against the
   model's own network into a [sched_ev] (Deliver to k / Dup to k / Inject to m) and then handed to [System.step];
   the resolved schedule is kept, so that the final state is literally [System.run ... (init_sys ...) sched]
   (Proofs/DispatchSystemProofs.v: [exec_is_run]) and the system theorems (no split under equivocation, schedule
   independence, blame) apply to what is executed (Properties/C06_sys.v).

   Oracles (all three are tables learned by the harness from the real run, turned into total functions here):
     fp       (from, bcast, to, round) -> fingerprint of the message that party emits in that slot
              (the harness interns the CONTENT of the message: all eight fields, not Message.Hash());
     view     (round, fingerprints of the broadcasts in party order) -> the digest the real handlers computed for
              that view; a view that is not in the table gets a digest outside the table's range, by an injective
              encoding, so that [vh_table] is injective iff the table is ([vh_injb], proved in the Proofs file);
     invalid  (recipient, sender, fingerprint): the messages the round code of the recipient rejects.

   Events name a network copy by its CONTENT (the harness does not know the model's queue order):
     (0 to msg)  the genuine copy of msg addressed to [to] is delivered (and leaves the network)  -> Deliver to k
     (1 to msg)  a copy that was delivered before is delivered once more                          -> Dup to k
     (2 to msg)  anything else that is handed to [to]: foreign / stale / re-encoded / re-sent messages, the
                 messages of an equivocating sender's second instance                              -> Inject to m
     (3 to msg)  the copy is dropped: in System.v a dropped copy is one that is never delivered (no step)
     (4 p)       Stop() at p (not an event of System.v: [stop_at] below; the theorems speak of stop-free runs)
   A (0 ..)/(1 ..) event whose copy is not in the model's network is reported in the reply (index of the event)
   and executed as an injection: the real network delivered something the model's parties never sent. *)
From Coq Require Import String.
From Coq Require Import List NArith ZArith Bool Arith.
From MPS Require Import Model.Bytes Model.Sx Model.Framing Model.Handler Model.System Model.DispatchHandler.
Import ListNotations.
Local Open Scope nat_scope.

(* ---------------------------------------------------------------------------------------------- *)
(* oracle tables *)

Definition opt_party_eqb (a b : option party) : bool :=
  match a, b with
  | None, None => true
  | Some x, Some y => x =? y
  | _, _ => false
  end.

Definition fp_entry := (party * bool * option party * nat * N)%type.

Fixpoint fp_table (t : list fp_entry) (from : party) (bc : bool) (to : option party) (r : nat) : N :=
  match t with
  | [] => 0%N
  | (f, b, d, r', v) :: t' =>
      if (f =? from) && Bool.eqb b bc && opt_party_eqb d to && (r' =? r) then v else fp_table t' from bc to r
  end.

Fixpoint list_N_eqb (a b : list N) : bool :=
  match a, b with
  | [], [] => true
  | x :: a', y :: b' => (x =? y)%N && list_N_eqb a' b'
  | _, _ => false
  end.

Definition vh_entry := (nat * list N * N)%type.

Fixpoint vh_find (t : list vh_entry) (r : nat) (v : list N) : option N :=
  match t with
  | [] => None
  | (r', v', d) :: t' => if (r' =? r) && list_N_eqb v' v then Some d else vh_find t' r v
  end.

Definition vh_max (t : list vh_entry) : N := fold_right (fun e acc => N.max (snd e) acc) 0%N t.

(* injective encoding of a list of numbers (Cantor pairing, System.v) *)
Fixpoint enc_list (l : list N) : N :=
  match l with
  | [] => 0%N
  | x :: l' => (cantor x (enc_list l') + 1)%N
  end.

Definition vh_table (t : list vh_entry) (r : nat) (v : list N) : N :=
  match vh_find t r v with
  | Some d => d
  | None => (vh_max t + 1 + enc_list (N.of_nat r :: v))%N
  end.

(* the table is injective: two entries of the same round with the same digest have the same view *)
Definition vh_injb (t : list vh_entry) : bool :=
  forallb (fun e1 => match e1 with (r1, v1, _) =>
    forallb (fun e2 => match e2 with (r2, v2, _) =>
      negb ((r1 =? r2)
            && match vh_find t r1 v1, vh_find t r2 v2 with
               | Some d1, Some d2 => (d1 =? d2)%N
               | _, _ => false
               end)
      || list_N_eqb v1 v2 end) t end) t.

Definition inval_entry := (party * party * N)%type.   (* recipient, sender, fingerprint *)

Definition inval_hit (t : list inval_entry) (self : party) (m : msg) : bool :=
  existsb (fun e => match e with (to, from, f) => (to =? self) && (from =? m_from m) && (f =? m_fp m)%N end) t.

Definition validity_table (t : list inval_entry) (s : hstate) (m : msg) : bool :=
  m_valid m && negb (inval_hit t (h_self s) m).

(* every entry of the table is a message of E *)
Definition inval_only_from (t : list inval_entry) (E : party) : bool :=
  forallb (fun e => match e with (_, from, _) => from =? E end) t.

(* ---------------------------------------------------------------------------------------------- *)
(* events *)

Inductive nev :=
| NDeliver (to : party) (m : msg)
| NDup (to : party) (m : msg)
| NInject (to : party) (m : msg)
| NDrop (to : party) (m : msg)
| NStop (p : party).

(* the same network copy: everything but the two oracle flags *)
Definition msg_same (a b : msg) : bool :=
  (m_ssid a =? m_ssid b)%N && (m_proto a =? m_proto b)%N && (m_from a =? m_from b)
  && opt_party_eqb (m_to a) (m_to b) && (m_round a =? m_round b) && Bool.eqb (m_data a) (m_data b)
  && Bool.eqb (m_bcast a) (m_bcast b) && (m_bv a =? m_bv b)%N && (m_fp a =? m_fp b)%N.

(* index (among the copies addressed to [to], as System.pick counts them) of the first copy equal to m *)
Fixpoint find_copy (to : party) (m : msg) (k : nat) (l : list (party * msg)) : option nat :=
  match l with
  | [] => None
  | (d, x) :: l' =>
      if d =? to then (if msg_same x m then Some k else find_copy to m (S k) l')
      else find_copy to m k l'
  end.

Inductive resolved :=
| RStep (ev : sched_ev) (found : bool)
| RStop (p : party)
| RNone.

Definition resolve (st : sys) (e : nev) : resolved :=
  match e with
  | NDeliver to m => match find_copy to m 0 (s_net st) with
                     | Some k => RStep (Deliver to k) true
                     | None => RStep (Inject to m) false
                     end
  | NDup to m => match find_copy to m 0 (s_sent st) with
                 | Some k => RStep (Dup to k) true
                 | None => RStep (Inject to m) false
                 end
  | NInject to m => RStep (Inject to m) true
  | NDrop _ _ => RNone
  | NStop p => RStop p
  end.

Record sys_cfg := mkCfg {
  c_n : nat; c_ssid : N; c_proto : N; c_sh : shape;
  c_vht : list vh_entry; c_fpt : list fp_entry; c_inval : list inval_entry;
  c_fixed_stop : bool
}.

(* execution state: the system, the resolved schedule (newest first), the indices of the events that could not be
   resolved (newest first), the index of the next event, "no Stop so far", "every injection so far was junk" *)
Record xst := mkX {
  x_sys : sys; x_sched : list sched_ev; x_unres : list nat; x_idx : nat; x_stopfree : bool; x_junk : bool;
  x_trace : list (nat * nat)   (* (round, result class) of the party an event was handed to, right after it; newest first *)
}.

Definition ev_party (ev : sched_ev) : party :=
  match ev with Deliver to _ => to | Dup to _ => to | Inject to _ => to end.
Definition glance (st : sys) (p : party) : nat * nat := (h_cur (s_h st p), result_class (s_h st p)).

Section Exec.
  Variable cfg : sys_cfg.
  Let vh := vh_table (c_vht cfg).
  Let fp := fp_table (c_fpt cfg).
  Let validity := validity_table (c_inval cfg).
  Let n := c_n cfg.

  Definition sys_init : sys := init_sys vh fp n (c_ssid cfg) (c_proto cfg) (c_sh cfg).
  Definition sys_step : sys -> sched_ev -> sys := step vh fp validity n.

  (* the clause of System.junk_onlyb for one event *)
  Definition junk_ok (st : sys) (ev : sched_ev) : bool :=
    match ev with
    | Inject to m => negb (to <? n) || negb (can_accept (s_h st to) (set_valid m (validity (s_h st to) m)))
    | _ => true
    end.

  (* Stop() at p: Handler.stop, the abort notice is posted, the channel drained (as System.deliver_to does) *)
  Definition stop_at (st : sys) (p : party) : sys :=
    if p <? n then
      let s := s_h st p in
      let s1 := stop (c_fixed_stop cfg) s in
      let new := posted fp s1 (skipn (length (h_out s)) (h_out s1)) in
      mkSys (fun j => if j =? p then drain (h_pending s1) s1 else s_h st j) (s_net st ++ new) (s_sent st ++ new)
    else st.

  Definition xstep (x : xst) (e : nev) : xst :=
    match resolve (x_sys x) e with
    | RStep ev found =>
        let st' := sys_step (x_sys x) ev in
        mkX st' (ev :: x_sched x)
            (if found then x_unres x else x_idx x :: x_unres x) (S (x_idx x)) (x_stopfree x)
            (x_junk x && junk_ok (x_sys x) ev) (glance st' (ev_party ev) :: x_trace x)
    | RStop p => let st' := stop_at (x_sys x) p in
                 mkX st' (x_sched x) (x_unres x) (S (x_idx x)) false (x_junk x) (glance st' p :: x_trace x)
    | RNone => mkX (x_sys x) (x_sched x) (x_unres x) (S (x_idx x)) (x_stopfree x) (x_junk x) ((0, 0) :: x_trace x)
    end.

  Definition x_init : xst := mkX sys_init [] [] 0 true true [].

  Definition sys_exec (evs : list nev) : xst := fold_left xstep evs x_init.

  (* ---- the facts the theorems speak about, as functions of the final execution state ---- *)
  Definition f_sched (x : xst) : list sched_ev := rev (x_sched x).
  Definition f_wf : bool := wf_shapeb (c_sh cfg).
  Definition f_n2 : bool := 2 <=? n.
  Definition f_complete (x : xst) : bool := complete (x_sys x).
  Definition f_no_invalid : bool := match c_inval cfg with [] => true | _ => false end.
  Definition f_vh_inj : bool := vh_injb (c_vht cfg).
  (* the parties E for which the schedule is authentic: every injected message names E as its sender *)
  Definition f_authentic (x : xst) : list party := filter (fun E => authenticb E (f_sched x)) (seq 0 n).
  Definition f_inval_from : list party := filter (inval_only_from (c_inval cfg)) (seq 0 n).
  Definition f_completers (x : xst) : list party := filter (fun i => h_res (s_h (x_sys x) i)) (seq 0 n).

  (* A and B stored the same fingerprint of every party's broadcast in every round k of [ks] that is a broadcast round *)
  Definition views_eq_on (ks : list nat) (st : sys) (A B : party) : bool :=
    forallb (fun k => negb (sh_bcast (c_sh cfg) k)
                      || forallb (fun j => match stored_fp (s_h st A) k j, stored_fp (s_h st B) k j with
                                           | Some a, Some b => (a =? b)%N
                                           | _, _ => false
                                           end) (seq 0 n)) ks.
  (* the protected rounds: 2 <= k < final *)
  Definition protected_rounds : list nat := seq 2 (sh_final (c_sh cfg) - 2).
  Definition all_rounds : list nat := seq 2 (sh_final (c_sh cfg) - 1).
  Definition views_equalb : sys -> party -> party -> bool := views_eq_on protected_rounds.
  Definition views_all_equalb : sys -> party -> party -> bool := views_eq_on all_rounds.

  Fixpoint pairs (l : list party) : list (party * party) :=
    match l with
    | [] => []
    | a :: l' => map (fun b => (a, b)) l' ++ pairs l'
    end.
  (* (A, B, equal protected views, equal views of all broadcast rounds) for every pair of completers *)
  Definition f_pairs (x : xst) : list (party * party * bool * bool) :=
    map (fun ab => (fst ab, snd ab, views_equalb (x_sys x) (fst ab) (snd ab),
                    views_all_equalb (x_sys x) (fst ab) (snd ab))) (pairs (f_completers x)).

  Definition outmsg_eqb (a b : outmsg) : bool :=
    opt_party_eqb (o_to a) (o_to b) && (o_round a =? o_round b) && Bool.eqb (o_bcast a) (o_bcast b) && (o_bv a =? o_bv b)%N.
  Fixpoint outs_eqb (a b : list outmsg) : bool :=
    match a, b with
    | [], [] => true
    | x :: a', y :: b' => outmsg_eqb x y && outs_eqb a' b'
    | _, _ => false
    end.
  (* party i emitted exactly the ideal (lockstep) sequence *)
  Definition f_ideal (x : xst) : list bool :=
    map (fun i => outs_eqb (h_out (s_h (x_sys x) i)) (ideal_out vh fp n (c_ssid cfg) (c_proto cfg) (c_sh cfg) i)) (seq 0 n).
  Definition f_all_done (x : xst) : bool := all_done n (x_sys x).
End Exec.

(* ---------------------------------------------------------------------------------------------- *)
(* parsing and rendering *)

Definition opt_party_of_Z (z : Z) : option party := if (z <? 0)%Z then None else Some (Z.to_nat z).
Definition Z_of_opt_party (o : option party) : Z := match o with None => (-1)%Z | Some j => Z.of_nat j end.

Definition fp_entry_of_sx (s : sx) : option fp_entry :=
  match s with
  | Li [from; bc; At to; r; v] =>
      do from <- as_nat from; do bc <- as_bool bc; do r <- as_nat r; do v <- as_N v;
      Some (from, bc, opt_party_of_Z to, r, v)
  | _ => None end.

Definition vh_entry_of_sx (s : sx) : option vh_entry :=
  match s with
  | Li [r; Li v; d] => do r <- as_nat r; do v <- map_opt as_N v; do d <- as_N d; Some (r, v, d)
  | _ => None end.

Definition inval_entry_of_sx (s : sx) : option inval_entry :=
  match s with
  | Li [to; from; f] => do to <- as_nat to; do from <- as_nat from; do f <- as_N f; Some (to, from, f)
  | _ => None end.

Definition nev_of_sx (s : sx) : option nev :=
  match s with
  | Li [At 0%Z; to; m] => do to <- as_nat to; do m <- msg_of_sx m; Some (NDeliver to m)
  | Li [At 1%Z; to; m] => do to <- as_nat to; do m <- msg_of_sx m; Some (NDup to m)
  | Li [At 2%Z; to; m] => do to <- as_nat to; do m <- msg_of_sx m; Some (NInject to m)
  | Li [At 3%Z; to; m] => do to <- as_nat to; do m <- msg_of_sx m; Some (NDrop to m)
  | Li [At 4%Z; p] => do p <- as_nat p; Some (NStop p)
  | _ => None end.

(* (n ssid proto shape vht fpt inval fixed_stop events) *)
Definition parse_sys (arg : sx) : option (sys_cfg * list nev) :=
  match arg with
  | Li [n; ssid; proto; shp; Li vht; Li fpt; Li inval; fx; Li evs] =>
      do n <- as_nat n; do ssid <- as_N ssid; do proto <- as_N proto; do shp <- shape_of_sx shp;
      do vht <- map_opt vh_entry_of_sx vht; do fpt <- map_opt fp_entry_of_sx fpt;
      do inval <- map_opt inval_entry_of_sx inval; do fx <- as_bool fx; do evs <- map_opt nev_of_sx evs;
      Some (mkCfg n ssid proto shp vht fpt inval fx, evs)
  | _ => None end.

(* final observation of one party:
   (cur result_class (culprits) errkind (every out msg) closes rt |qb| |qp| ((round digest)...)
    ((round from fp)... stored broadcasts) ((round from fp)... stored p2p messages)) *)
Definition sys_observe (s : hstate) : sx :=
  Li [ sx_nat (h_cur s); sx_nat (result_class s);
       Li (match h_err s with Some (c, _) => map sx_nat c | None => [] end);
       At (match h_err s with Some (_, e) => errkind_tag e | None => 0%Z end);
       Li (map sx_out (h_out s));
       sx_nat (h_closes s); At (rt_tag (h_rt s));
       sx_nat (length (h_qb s)); sx_nat (length (h_qp s));
       Li (map (fun e => Li [sx_nat (fst e); sx_N (snd e)]) (h_hashes s));
       Li (map (fun e => match e with (r, j, m) => Li [sx_nat r; sx_nat j; sx_N (m_fp m)] end) (h_qb s));
       Li (map (fun e => match e with (r, j, m) => Li [sx_nat r; sx_nat j; sx_N (m_fp m)] end) (h_qp s)) ].

Definition sx_sched_ev (ev : sched_ev) : sx :=
  match ev with
  | Deliver to k => Li [At 0%Z; sx_nat to; sx_nat k]
  | Dup to k => Li [At 1%Z; sx_nat to; sx_nat k]
  | Inject to m => Li [At 2%Z; sx_nat to; sx_nat (m_from m)]
  end.

(* facts: (wf n>=2 stop_free complete junk_only no_invalid vh_injective all_done (authentic E...) (invalid-only-from E...)
           (completers...) ((A B protected_views_equal all_views_equal)...) (ideal_i...)) *)
Definition sys_facts (cfg : sys_cfg) (x : xst) : sx :=
  Li [ sx_bool (f_wf cfg); sx_bool (f_n2 cfg); sx_bool (x_stopfree x); sx_bool (f_complete x); sx_bool (x_junk x);
       sx_bool (f_no_invalid cfg); sx_bool (f_vh_inj cfg); sx_bool (f_all_done cfg x);
       Li (map sx_nat (f_authentic cfg x)); Li (map sx_nat (f_inval_from cfg));
       Li (map sx_nat (f_completers cfg x));
       Li (map (fun e => match e with (a, b, p, q) => Li [sx_nat a; sx_nat b; sx_bool p; sx_bool q] end) (f_pairs cfg x));
       Li (map sx_bool (f_ideal cfg x)) ].

(* reply: ((obs_0 ... obs_{n-1}) facts (resolved schedule) (indices of unresolved events)
           ((round result_class) of the party event i was handed to, right after it ...)) *)
Definition sys_render (cfg : sys_cfg) (x : xst) : sx :=
  Li [ Li (map (fun i => sys_observe (s_h (x_sys x) i)) (seq 0 (c_n cfg)));
       sys_facts cfg x;
       Li (map sx_sched_ev (f_sched x));
       Li (map sx_nat (rev (x_unres x)));
       Li (map (fun e => Li [sx_nat (fst e); sx_nat (snd e)]) (rev (x_trace x))) ].

Definition op_sys_run (arg : sx) : option sx :=
  do ce <- parse_sys arg;
  Some (sys_render (fst ce) (sys_exec (fst ce) (snd ce))).

Definition system_ops : list (bytes * (sx -> option sx)) :=
  [ (str "sys.run"%string, op_sys_run) ].
