(* Decoders.v -- executable models of the hand-written byte decoders / validators that network input reaches
   (C05): secp256k1 scalar and point decoding (pkg/math/curve/secp256k1.go), polynomial.Exponent.UnmarshalBinary
   (pkg/math/polynomial/exponent.go: as found at the pinned commit, and as it is in /repo after the repair),
   and the fixed-length "not all zero" validators (hash.Commitment, hash.Decommitment, types.RID).
   A run of a decoder has an explicit outcome -- value, error, or PANIC -- and the number of bytes the decoder
   itself asks the allocator for.  Executable definitions only; proofs are in Proofs/DecodersProofs.v. *)
From Coq Require Import List NArith ZArith Bool Arith.
From MPS Require Import Model.Bytes.
Import ListNotations.
Open Scope N_scope.

Inductive outcome (A : Type) : Type :=
| Ok (a : A)
| Err
| Panic.
Arguments Ok {A} a.
Arguments Err {A}.
Arguments Panic {A}.

Record run (A : Type) : Type := mkRun { r_out : outcome A; r_alloc : N }.
Arguments mkRun {A} r_out r_alloc.
Arguments r_out {A} r.
Arguments r_alloc {A} r.

Definition is_panic {A} (o : outcome A) : bool := match o with Panic => true | _ => false end.

(* secp256k1 constants *)
Definition secp_p : N := 0xfffffffffffffffffffffffffffffffffffffffffffffffffffffffefffffc2f.
Definition secp_q : N := 0xfffffffffffffffffffffffffffffffebaaedce6af48a03bbfd25e8cd0364141.

(* ---------- Secp256k1Scalar.UnmarshalBinary ----------
     if len(data) != 32 { error }
     var exactData [32]byte; copy(...)
     if s.value.SetBytes(&exactData) != 0 { error }          (overflow flag: value >= q)            *)
Definition scalar_unmarshal (data : bytes) : run N :=
  if negb (Nat.eqb (length data) 32) then mkRun Err 0
  else let v := be_val data in
       if secp_q <=? v then mkRun Err 32 else mkRun (Ok v) 32.

(* square-and-multiply b^e mod m over the bits of e, most significant first (fuel = number of bits) *)
Fixpoint pow_mod_bits (i : nat) (b e m acc : N) : N :=
  match i with
  | O => acc
  | S i' => let sq := (acc * acc) mod m in
            let acc' := if N.testbit e (N.of_nat i') then (sq * b) mod m else sq in
            pow_mod_bits i' b e m acc'
  end.
Definition pow_mod (b e m : N) : N := pow_mod_bits (N.to_nat (N.size e)) b e m (1 mod m).

(* ---------- Secp256k1Point.UnmarshalBinary (as in /repo: prefixes 2 and 3 only) ----------
     if len(data) != 33 { error }
     if data[0] != 2 && data[0] != 3 { error }
     if X.SetByteSlice(data[1:]) { error: x out of range }      (overflow: x >= p)
     if !DecompressY(&X, data[0] == 3, &Y) { error: not on curve }                                  *)
Definition point_unmarshal (data : bytes) : run (N * N) :=
  if negb (Nat.eqb (length data) 33) then mkRun Err 0
  else match data with
       | [] => mkRun Err 0
       | pre :: xs =>
           if negb ((pre =? 2) || (pre =? 3)) then mkRun Err 0
           else let x := be_val xs in
                if secp_p <=? x then mkRun Err 0
                else let rhs := (x * x * x + 7) mod secp_p in
                     let y := pow_mod rhs ((secp_p + 1) / 4) secp_p in
                     if negb ((y * y) mod secp_p =? rhs) then mkRun Err 0
                     else let y' := if Bool.eqb (N.odd y) (pre =? 3) then y else (secp_p - y) mod secp_p in
                          mkRun (Ok (x, y')) 0
       end.

(* ---------- fixed length, not identically zero: Commitment (64), Decommitment (32), RID (32) ---------- *)
Definition validate_fixed_nonzero (n : nat) (data : bytes) : bool :=
  Nat.eqb (length data) n && negb (all_zero data).
Definition commitment_validate := validate_fixed_nonzero 64.
Definition decommitment_validate := validate_fixed_nonzero 32.
Definition rid_validate := validate_fixed_nonzero 32.

(* ---------- polynomial.Exponent.UnmarshalBinary ----------
   The body (data[4:]) is decoded by fxamacker/cbor into rawExponentData{IsConstant, Coefficients}; that decoder is a
   parameter here: a total function returning the decoded value (or an error) together with what it allocated.
   [point_size]: bytes allocated per pre-shaped coefficient (interface slot + group.NewPoint()).              *)
Section Exponent.
  Variable body_decode : bytes -> option (bool * list bytes) * N.
  Variable point_size : N.

  (* at the pinned commit:
       size := binary.BigEndian.Uint32(data)              -- indexes data[3]: PANICS when len(data) < 4
       e.coefficients = make([]curve.Point, int(size))    -- whatever the 4 bytes say
       for i := range e.coefficients { e.coefficients[i] = group.NewPoint() }
       cbor.Unmarshal(data[4:], &rawExponent)                                                        *)
  Definition exp_unmarshal_pinned (data : bytes) : run (bool * list bytes) :=
    if Nat.ltb (length data) 4 then mkRun Panic 0
    else let size := be_val (firstn 4 data) in
         let a := size * point_size in
         match body_decode (skipn 4 data) with
         | (None, b) => mkRun Err (a + b)
         | (Some r, b) => mkRun (Ok r) (a + b)
         end.

  (* in /repo after the repair:
       if len(data) < 4 { error }
       size := binary.BigEndian.Uint32(data)
       if uint64(size) > uint64(len(data)) { error }       -- every coefficient takes more than one byte
       ... as before                                                                                  *)
  Definition exp_unmarshal (data : bytes) : run (bool * list bytes) :=
    if Nat.ltb (length data) 4 then mkRun Err 0
    else let size := be_val (firstn 4 data) in
         if len data <? size then mkRun Err 0
         else let a := size * point_size in
              match body_decode (skipn 4 data) with
              | (None, b) => mkRun Err (a + b)
              | (Some r, b) => mkRun (Ok r) (a + b)
              end.
End Exponent.
