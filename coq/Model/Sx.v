(* Sx.v -- the one generic value type exchanged with the correspondence harness.
   Arguments are decoded in Gallina, so the OCaml driver (parse/print of sx only) and the
   vm_compute route (cases.v written as sx terms) share all op-specific glue. *)
From Coq Require Import List NArith ZArith Bool.
From MPS Require Import Model.Bytes.
Import ListNotations.

Inductive sx := At (z : Z) | Bs (b : bytes) | Li (l : list sx).

(* error reply: (#21657272 code)  -- the byte string "!err"; cannot collide with a list of integers *)
Definition sx_err (code : Z) : sx := Li [Bs [33; 101; 114; 114]%N; At code].
Definition sx_bool (b : bool) : sx := At (if b then 1 else 0)%Z.
Definition sx_N (n : N) : sx := At (Z.of_N n).
Definition sx_nat (n : nat) : sx := At (Z.of_nat n).
Definition sx_opt {A} (f : A -> sx) (o : option A) : sx :=
  match o with Some a => Li [f a] | None => Li [] end.
Definition sx_list {A} (f : A -> sx) (l : list A) : sx := Li (map f l).

Definition as_Z (s : sx) : option Z := match s with At z => Some z | _ => None end.
Definition as_N (s : sx) : option N :=
  match s with At z => if (z <? 0)%Z then None else Some (Z.to_N z) | _ => None end.
Definition as_nat (s : sx) : option nat := option_map N.to_nat (as_N s).
Definition as_bool (s : sx) : option bool :=
  match s with At z => Some (negb (z =? 0)%Z) | _ => None end.
Definition as_bytes (s : sx) : option bytes := match s with Bs b => Some b | _ => None end.
Definition as_list (s : sx) : option (list sx) := match s with Li l => Some l | _ => None end.

Fixpoint map_opt {A B} (f : A -> option B) (l : list A) : option (list B) :=
  match l with
  | [] => Some []
  | a :: l' => match f a, map_opt f l' with
               | Some b, Some r => Some (b :: r)
               | _, _ => None end
  end.

Definition as_list_of {A} (f : sx -> option A) (s : sx) : option (list A) :=
  match s with Li l => map_opt f l | _ => None end.

(* optional: Li [] = None, Li [x] = Some x *)
Definition as_opt {A} (f : sx -> option A) (s : sx) : option (option A) :=
  match s with
  | Li [] => Some None
  | Li [x] => option_map Some (f x)
  | _ => None end.

Notation "'do' x <- e ; k" := (match e with Some x => k | None => None end)
  (at level 200, x pattern, e at level 100, k at level 200, right associativity).

(* compact literals for cases.v: byte strings written as hex strings *)
From Coq Require String Ascii.
Definition hex_digit (a : Ascii.ascii) : N :=
  let n := Ascii.N_of_ascii a in
  if (n <? 58)%N then (n - 48)%N else if (n <? 71)%N then (n - 55)%N else (n - 87)%N.
Fixpoint hexs (s : String.string) : bytes :=
  match s with
  | String.String a (String.String b r) => (hex_digit a * 16 + hex_digit b)%N :: hexs r
  | _ => []
  end.
